// C02 harness: drives the real blockstore.CachedBlockstore (2Q cache and/or Bloom cache) over a
// fault-injecting backing store, (a) sequentially, comparing every answer with an uncached twin and
// checking the proof's invariants on the real cache state, and (b) concurrently under a
// deterministic scheduler that parks goroutines at the `verifPoint` schedule points of
// blockstore/bloom_cache.go and releases them one step at a time.
package main

import (
	"context"
	"encoding/json"
	"errors"
	"fmt"
	"runtime"
	"sort"
	"strconv"
	"strings"
	"sync"
	"time"

	bbloom "github.com/ipfs/bbloom"
	"github.com/ipfs/boxo/blockstore"
	blocks "github.com/ipfs/go-block-format"
	"github.com/ipfs/go-cid"
	ds "github.com/ipfs/go-datastore"
	dssync "github.com/ipfs/go-datastore/sync"
	ipld "github.com/ipfs/go-ipld-format"
	logging "github.com/ipfs/go-log/v2"
	mh "github.com/multiformats/go-multihash"

	"verifharness/vh"
)

// ---------------------------------------------------------------- pool

type pool struct {
	blks []blocks.Block
	idx  map[string]int // multihash bytes -> pool index
}

func blockData(i int) []byte {
	return []byte(fmt.Sprintf("c02-block-%d-%s", i, strings.Repeat("x", (i*5)%17)))
}

func mkPool(n int) *pool {
	p := &pool{idx: map[string]int{}}
	for i := 0; i < n; i++ {
		d := blockData(i)
		h, _ := mh.Sum(d, mh.SHA2_256, -1)
		b, _ := blocks.NewBlockWithCid(d, cid.NewCidV1(cid.Raw, h))
		p.blks = append(p.blks, b)
		p.idx[string(h)] = i
	}
	return p
}

func (p *pool) cid(k int) cid.Cid {
	if k < 0 {
		return cid.Undef
	}
	return p.blks[k].Cid()
}

// bit positions bbloom sets for one key, observed on a fresh filter of the same geometry
func hashPositions(bits, hashes int, key []byte) []int {
	bl, err := bbloom.New(float64(bits), float64(hashes))
	if err != nil {
		panic(err)
	}
	bl.Add(key)
	var ex struct{ FilterSet []byte }
	if err := json.Unmarshal(bl.JSONMarshal(), &ex); err != nil {
		panic(err)
	}
	var out []int
	for i, by := range ex.FilterSet {
		for b := 0; b < 8; b++ {
			if by&(1<<b) != 0 {
				out = append(out, i*8+b)
			}
		}
	}
	return out
}

// ---------------------------------------------------------------- fault-injecting backing store

var errInjected = errors.New("injected failure")

type faulty struct {
	bs       blockstore.Blockstore
	p        *pool
	mu       sync.Mutex
	failNext bool
	cut      int
	errMode  int // 0 none, 1 errFn reports an error, 2 ctx cancelled at the cut position
	cancel   func()
}

func (f *faulty) fail() bool { f.mu.Lock(); defer f.mu.Unlock(); return f.failNext }
func (f *faulty) setFail(b bool) {
	f.mu.Lock()
	f.failNext = b
	f.mu.Unlock()
}
func (f *faulty) setEnum(cut, mode int, cancel func()) {
	f.mu.Lock()
	f.cut, f.errMode, f.cancel = cut, mode, cancel
	f.mu.Unlock()
}

func (f *faulty) DeleteBlock(ctx context.Context, k cid.Cid) error {
	if f.fail() {
		return errInjected
	}
	return f.bs.DeleteBlock(ctx, k)
}
func (f *faulty) Has(ctx context.Context, k cid.Cid) (bool, error) {
	if f.fail() {
		return false, errInjected
	}
	return f.bs.Has(ctx, k)
}
func (f *faulty) Get(ctx context.Context, k cid.Cid) (blocks.Block, error) {
	if f.fail() {
		return nil, errInjected
	}
	return f.bs.Get(ctx, k)
}
func (f *faulty) GetSize(ctx context.Context, k cid.Cid) (int, error) {
	if f.fail() {
		return -1, errInjected
	}
	return f.bs.GetSize(ctx, k)
}
func (f *faulty) Put(ctx context.Context, b blocks.Block) error {
	if f.fail() {
		return errInjected
	}
	return f.bs.Put(ctx, b)
}
func (f *faulty) PutMany(ctx context.Context, bs []blocks.Block) error {
	if f.fail() {
		return errInjected
	}
	return f.bs.PutMany(ctx, bs)
}
func (f *faulty) AllKeysChan(ctx context.Context) (<-chan cid.Cid, error) {
	ch, _, err := f.AllKeysChanWithErr(ctx)
	return ch, err
}

// present pool indices, sorted: a point-in-time snapshot taken when the query is issued
func (f *faulty) snapshot() []int {
	ch, errFn, err := f.bs.(blockstore.AllKeysChanWithErrer).AllKeysChanWithErr(context.Background())
	if err != nil {
		panic(err)
	}
	var ks []int
	for c := range ch {
		if i, ok := f.p.idx[string(c.Hash())]; ok {
			ks = append(ks, i)
		}
	}
	if err := errFn(); err != nil {
		panic(err)
	}
	sort.Ints(ks)
	return ks
}

func (f *faulty) AllKeysChanWithErr(ctx context.Context) (<-chan cid.Cid, func() error, error) {
	f.mu.Lock()
	cut, mode, cancel := f.cut, f.errMode, f.cancel
	f.mu.Unlock()
	ks := f.snapshot()
	truncated := cut < len(ks)
	if truncated {
		ks = ks[:cut]
	}
	if truncated && mode == 0 {
		mode = 1 // a truncated enumeration always reports an error (no lying stores)
	}
	out := make(chan cid.Cid) // unbuffered: the consumer has taken key i before key i+1 is offered
	done := make(chan struct{})
	var iterErr error
	go func() {
		defer close(done)
		defer close(out)
		for _, k := range ks {
			out <- f.p.cid(k)
		}
		switch mode {
		case 1:
			iterErr = errInjected
		case 2:
			if cancel != nil {
				cancel()
			}
			iterErr = context.Canceled
		}
	}()
	return out, func() error { <-done; return iterErr }, nil
}

// faultyViewer additionally implements blockstore.Viewer
type faultyViewer struct{ *faulty }

func (f faultyViewer) View(ctx context.Context, k cid.Cid, cb func([]byte) error) error {
	if f.fail() {
		return errInjected
	}
	b, err := f.bs.Get(ctx, k)
	if err != nil {
		return err
	}
	return cb(b.RawData())
}

// ---------------------------------------------------------------- case configuration

type cfg struct {
	tq, bloom, hashes, n int
	viewer               bool
	mode                 string
}

func parseCfg(f []string) cfg {
	c := cfg{}
	for _, kv := range f[1:] {
		p := strings.SplitN(kv, "=", 2)
		switch p[0] {
		case "tq":
			c.tq = vh.Atoi(p[1])
		case "bloom":
			c.bloom = vh.Atoi(p[1])
		case "hashes":
			c.hashes = vh.Atoi(p[1])
		case "n":
			c.n = vh.Atoi(p[1])
		case "viewer":
			c.viewer = p[1] == "1"
		case "mode":
			c.mode = p[1]
		}
	}
	return c
}

type world struct {
	c       cfg
	p       *pool
	base    blockstore.Blockstore // real uncached blockstore under the caches
	w       *faulty
	top     blockstore.Blockstore // the cached stack
	refBase blockstore.Blockstore // uncached twin
	ref     *faulty
	refTop  blockstore.Blockstore
}

func newWorld(c cfg) *world {
	w := &world{c: c, p: mkPool(c.n)}
	w.base = blockstore.NewBlockstore(dssync.MutexWrap(ds.NewMapDatastore()))
	w.refBase = blockstore.NewBlockstore(dssync.MutexWrap(ds.NewMapDatastore()))
	w.w = &faulty{bs: w.base, p: w.p, cut: 1 << 30}
	w.ref = &faulty{bs: w.refBase, p: w.p, cut: 1 << 30}
	w.refTop = w.ref
	if c.viewer {
		w.refTop = faultyViewer{w.ref}
	}
	return w
}

func (w *world) backing() blockstore.Blockstore {
	if w.c.viewer {
		return faultyViewer{w.w}
	}
	return w.w
}

func (w *world) opts() blockstore.CacheOpts {
	return blockstore.CacheOpts{HasBloomFilterSize: w.c.bloom, HasBloomFilterHashes: w.c.hashes, HasTwoQueueCacheSize: w.c.tq}
}

func (w *world) bloomLayer() blockstore.Blockstore {
	if w.c.bloom > 0 {
		return w.top
	}
	return nil
}
func (w *world) tqLayer() blockstore.Blockstore {
	if w.c.tq <= 0 {
		return nil
	}
	if w.c.bloom > 0 {
		return blockstore.VerifInner(w.top)
	}
	return w.top
}

func (w *world) storeHas(bs blockstore.Blockstore, k int) bool {
	h, err := bs.Has(context.Background(), w.p.cid(k))
	return err == nil && h
}

func (w *world) bloomDump() string {
	bl := w.bloomLayer()
	if bl == nil {
		return "b=-"
	}
	var sb strings.Builder
	if bl.(blockstore.BloomCacheStatus).BloomActive() {
		sb.WriteString("b=a1:")
	} else {
		sb.WriteString("b=a0:")
	}
	for i := 0; i < w.c.n; i++ {
		h, _ := blockstore.VerifBloomHas(bl, w.p.cid(i))
		if h {
			sb.WriteByte('1')
		} else {
			sb.WriteByte('0')
		}
	}
	return sb.String()
}

func (w *world) tqDump() (string, []blockstore.VerifTQEntry) {
	tq := w.tqLayer()
	if tq == nil {
		return "q=-", nil
	}
	es, _ := blockstore.VerifTQDump(tq)
	parts := make([]string, 0, len(es))
	for _, e := range es {
		k := w.p.idx[e.Key]
		switch {
		case e.Size >= 0:
			parts = append(parts, fmt.Sprintf("%d:s%d", k, e.Size))
		case e.Have:
			parts = append(parts, fmt.Sprintf("%d:h1", k))
		default:
			parts = append(parts, fmt.Sprintf("%d:h0", k))
		}
	}
	return "q=" + strings.Join(parts, ","), es
}

// the proof's invariants, evaluated on the real cache state against the real backing store
func (w *world) checkInvariants(o *vh.Out) {
	if tq := w.tqLayer(); tq != nil {
		es, _ := blockstore.VerifTQDump(tq)
		for _, e := range es {
			k := w.p.idx[e.Key]
			has := w.storeHas(w.base, k)
			switch {
			case e.Size >= 0 && (!has || e.Size != len(w.p.blks[k].RawData())):
				o.Fail("tqinv-stale-size", "2Q entry key=%d size=%d but store has=%v len=%d", k, e.Size, has, len(w.p.blks[k].RawData()))
			case e.Size < 0 && e.Have != has:
				o.Fail("tqinv-stale-have", "2Q entry key=%d have=%v but store has=%v", k, e.Have, has)
			}
		}
	}
	if bl := w.bloomLayer(); bl != nil && bl.(blockstore.BloomCacheStatus).BloomActive() {
		for i := 0; i < w.c.n; i++ {
			if w.storeHas(w.base, i) {
				if h, _ := blockstore.VerifBloomHas(bl, w.p.cid(i)); !h {
					o.Fail("bloominv-missing-key", "filter active but key %d of the store is not in it", i)
				}
			}
		}
	}
}

// ---------------------------------------------------------------- one blockstore call, canonical output

func keyArg(s string) int {
	if s == "u" {
		return -1
	}
	return vh.Atoi(s)
}

func errOut(err error) string {
	if ipld.IsNotFound(err) {
		return "notfound"
	}
	return "err"
}

func (w *world) call(bs blockstore.Blockstore, f []string) string {
	ctx := context.Background()
	switch f[0] {
	case "has":
		h, err := bs.Has(ctx, w.p.cid(keyArg(f[1])))
		if err != nil {
			return "err"
		}
		return strconv.FormatBool(h)
	case "get":
		b, err := bs.Get(ctx, w.p.cid(keyArg(f[1])))
		if err != nil {
			return errOut(err)
		}
		return fmt.Sprintf("found:%d", len(b.RawData()))
	case "size":
		n, err := bs.GetSize(ctx, w.p.cid(keyArg(f[1])))
		if err != nil {
			return errOut(err)
		}
		return fmt.Sprintf("size:%d", n)
	case "view":
		v, ok := bs.(blockstore.Viewer)
		if !ok { // an uncached store without Viewer: callers use Get
			return w.call(bs, append([]string{"get"}, f[1:]...))
		}
		n := -1
		err := v.View(ctx, w.p.cid(keyArg(f[1])), func(b []byte) error { n = len(b); return nil })
		if err != nil {
			return errOut(err)
		}
		return fmt.Sprintf("found:%d", n)
	case "viewerr": // View whose callback returns nil (0) / a generic error (1) / ipld.ErrNotFound of ANOTHER cid (2)
		kind := vh.Atoi(f[2])
		k := keyArg(f[1])
		n, called := -1, false
		cb := func(b []byte) error {
			n, called = len(b), true
			switch kind {
			case 1:
				return errors.New("callback failed")
			case 2:
				other := 0
				if k >= 0 {
					other = (k + 1) % len(w.p.blks)
				}
				return ipld.ErrNotFound{Cid: w.p.cid(other)}
			}
			return nil
		}
		var err error
		if v, ok := bs.(blockstore.Viewer); ok {
			err = v.View(ctx, w.p.cid(k), cb)
		} else { // a store without Viewer: callers use Get and run the callback themselves
			var b blocks.Block
			if b, err = bs.Get(ctx, w.p.cid(k)); err == nil {
				err = cb(b.RawData())
			}
		}
		switch {
		case called && err != nil:
			return fmt.Sprintf("cb:%d", kind) // the callback's own error came back (whatever its identity)
		case called && kind != 0:
			return "cb-error-lost"
		case err != nil:
			return errOut(err)
		}
		return fmt.Sprintf("found:%d", n)
	case "del":
		if err := bs.DeleteBlock(ctx, w.p.cid(keyArg(f[1]))); err != nil {
			return "err"
		}
		return "ok"
	case "put":
		if err := bs.Put(ctx, w.p.blks[vh.Atoi(f[1])]); err != nil {
			return "err"
		}
		return "ok"
	case "putmany":
		var bl []blocks.Block
		if f[1] != "-" {
			for _, s := range strings.Split(f[1], ",") {
				bl = append(bl, w.p.blks[vh.Atoi(s)])
			}
		}
		if err := bs.PutMany(ctx, bl); err != nil {
			return "err"
		}
		return "ok"
	case "enumplain": // Blockstore.AllKeysChan: the plain pass-through (no error function)
		ch, err := bs.AllKeysChan(ctx)
		if err != nil {
			return "err"
		}
		var ks []string
		for c := range ch {
			ks = append(ks, strconv.Itoa(w.p.idx[string(c.Hash())]))
		}
		return fmt.Sprintf("keys:%s:-", strings.Join(ks, ","))
	case "enum":
		e, ok := bs.(blockstore.AllKeysChanWithErrer)
		if !ok {
			return "no-enum"
		}
		ch, errFn, err := e.AllKeysChanWithErr(ctx)
		if err != nil {
			return "err"
		}
		var ks []string
		for c := range ch {
			ks = append(ks, strconv.Itoa(w.p.idx[string(c.Hash())]))
		}
		flag := 0
		if errFn() != nil {
			flag = 1
		}
		return fmt.Sprintf("keys:%s:%d", strings.Join(ks, ","), flag)
	}
	return "bad-op"
}

func failFlag(f []string) bool {
	switch f[0] {
	case "has", "get", "size", "view", "del", "put", "putmany":
		return len(f) > 2 && f[2] == "1"
	}
	return false
}

// ---------------------------------------------------------------- sequential cases

func execSeq(c vh.Case, o *vh.Out) {
	var w *world
	built := false
	for _, line := range c.Ops {
		f := strings.Fields(line)
		switch f[0] {
		case "cfg":
			w = newWorld(parseCfg(f))
			o.Kind(fmt.Sprintf("cfg-tq%v-bloom%v", w.c.tq > 0, w.c.bloom > 0))
			o.Emit("ok")
			continue
		case "sz", "hash", "rank":
			o.Emit("ok")
			continue
		case "init":
			for _, s := range f[1:] {
				k := vh.Atoi(s)
				w.base.Put(context.Background(), w.p.blks[k])
				w.refBase.Put(context.Background(), w.p.blks[k])
			}
			o.Emit("ok")
			continue
		}
		if !built && f[0] != "build" {
			o.Emit("bad-op")
			continue
		}
		switch f[0] {
		case "build":
			cut, mode := vh.Atoi(f[1]), vh.Atoi(f[2])
			ctx, cancel := context.WithCancel(context.Background())
			w.w.setEnum(cut, mode, cancel)
			top, err := blockstore.CachedBlockstore(ctx, w.backing(), w.opts())
			if err != nil {
				o.Kind("ctor-err")
				o.Emit("ctor-err")
				continue
			}
			w.top = top
			built = true
			res := "ok"
			if st, ok := top.(blockstore.BloomCacheStatus); ok {
				if err := st.Wait(context.Background()); err != nil {
					res = "err"
					o.Kind("build-err")
					if st.BloomActive() {
						o.Fail("active-after-failed-build", "initial build failed but the filter is active")
					}
				}
			}
			w.w.setEnum(1<<30, 0, nil)
			w.checkInvariants(o)
			q, _ := w.tqDump()
			o.Emit("%s %s %s", res, w.bloomDump(), q)
		case "rebuild":
			st, ok := w.top.(blockstore.BloomCacheStatus)
			if !ok {
				o.Emit("ok b=- %s", func() string { q, _ := w.tqDump(); return q }())
				continue
			}
			cut, mode := vh.Atoi(f[1]), vh.Atoi(f[2])
			ctx, cancel := context.WithCancel(context.Background())
			w.w.setEnum(cut, mode, cancel)
			res := "ok"
			if err := st.Rebuild(ctx); err != nil {
				res = "err"
				o.Kind("rebuild-err")
				if st.BloomActive() {
					o.Fail("active-after-failed-build", "Rebuild failed but the filter is active")
				}
			} else {
				o.Kind("rebuild-ok")
			}
			cancel()
			w.w.setEnum(1<<30, 0, nil)
			w.checkInvariants(o)
			q, _ := w.tqDump()
			o.Emit("%s %s %s", res, w.bloomDump(), q)
		default:
			ff := failFlag(f)
			w.w.setFail(ff)
			w.ref.setFail(ff)
			if f[0] == "enum" || f[0] == "enumplain" {
				cut, mode := vh.Atoi(f[1]), vh.Atoi(f[2])
				w.w.setEnum(cut, mode, nil)
				w.ref.setEnum(cut, mode, nil)
			}
			got := w.call(w.top, f)
			want := w.call(w.refTop, f)
			w.w.setFail(false)
			w.ref.setFail(false)
			w.w.setEnum(1<<30, 0, nil)
			w.ref.setEnum(1<<30, 0, nil)
			o.Kind(f[0])
			if !ff {
				// monitor: the property itself — the cached stack answers like the uncached store
				if got != want {
					o.Fail("transparency-"+f[0], "op %q: cached=%s uncached=%s", line, got, want)
				}
				if got == "notfound" || got == "false" {
					o.Kind("answer-absent")
				}
			} else {
				o.Kind("fault")
			}
			w.checkInvariants(o)
			q, es := w.tqDump()
			bd := w.bloomDump()
			if len(es) > 0 && strings.HasPrefix(bd, "b=a1") {
				o.Nontrivial()
			} else if w.c.tq > 0 && w.c.bloom == 0 && len(es) > 1 || w.c.tq == 0 && strings.HasPrefix(bd, "b=a1") {
				o.Nontrivial()
			}
			o.Emit("%s %s %s", got, bd, q)
		}
	}
}

// ---------------------------------------------------------------- deterministic scheduler (concurrent cases)

func goid() uint64 {
	var buf [64]byte
	n := runtime.Stack(buf[:], false)
	// "goroutine 123 ["
	s := strings.TrimPrefix(string(buf[:n]), "goroutine ")
	id, _ := strconv.ParseUint(s[:strings.IndexByte(s, ' ')], 10, 64)
	return id
}

type event struct {
	done  bool
	point string
	res   string
}

type thread struct {
	id        int
	op        []string
	resume    chan struct{}
	events    chan event
	point     string
	finished  bool
	res       string
	cut, mode int
	cancel    func()
	spawnAt   int
	doneAt    int
}

type sched struct {
	mu      sync.Mutex
	byGoid  map[uint64]*thread
	orphan  *thread // the thread that adopts the first unknown goroutine (the initial build)
	threads map[int]*thread
	holder  int // thread holding buildMu, -1 = free
	clock   int
}

func (s *sched) point(p string) {
	g := goid()
	s.mu.Lock()
	t := s.byGoid[g]
	if t == nil && s.orphan != nil {
		t = s.orphan
		s.orphan = nil
		s.byGoid[g] = t
	}
	s.mu.Unlock()
	if t == nil {
		return // a goroutine the scheduler does not manage: let it run
	}
	t.events <- event{point: p}
	<-t.resume
}

func isLockPoint(p string) bool { return p == "build.lock" || p == "rebuild.lock" }

// wait for the thread to park or finish
func (s *sched) await(t *thread) string {
	select {
	case ev := <-t.events:
		if ev.done {
			t.finished, t.res, t.doneAt = true, ev.res, s.clock
			if s.holder == t.id {
				s.holder = -1
			}
			return "done " + ev.res
		}
		t.point = ev.point
		return "parked " + ev.point
	case <-time.After(10 * time.Second):
		panic(fmt.Sprintf("scheduler: thread %d neither parked nor finished (blocked inside a step?) at %s", t.id, t.point))
	}
}

func (s *sched) step(w *world, t *thread) string {
	if t == nil || t.finished {
		return "idle"
	}
	if isLockPoint(t.point) {
		if s.holder != -1 {
			return "blocked"
		}
		s.holder = t.id
	}
	w.w.setEnum(t.cut, t.mode, t.cancel)
	t.resume <- struct{}{}
	return s.await(t)
}

type histOp struct {
	kind          string
	keys          []int
	res           string
	spawn, done   int
	finished      bool
	tid           int
	absentPending bool
}

func execConc(c vh.Case, o *vh.Out) {
	var w *world
	s := &sched{byGoid: map[uint64]*thread{}, threads: map[int]*thread{}, holder: -1}
	blockstore.VerifSched = s.point
	defer func() {
		// let every parked goroutine run to completion so nothing leaks into the next case
		blockstore.VerifSched = nil
		s.mu.Lock()
		s.orphan = nil
		s.mu.Unlock()
		for _, t := range s.threads {
			if !t.finished {
				go func(t *thread) {
					for {
						select {
						case t.resume <- struct{}{}:
						case ev := <-t.events:
							if ev.done {
								return
							}
						case <-time.After(2 * time.Second):
							return
						}
					}
				}(t)
			}
		}
	}()
	initial := map[int]bool{}
	started := false
	for _, line := range c.Ops {
		f := strings.Fields(line)
		s.clock++
		switch f[0] {
		case "cfg":
			w = newWorld(parseCfg(f))
			o.Kind("conc")
			o.Emit("ok")
		case "sz", "hash", "rank":
			o.Emit("ok")
		case "init":
			for _, a := range f[1:] {
				k := vh.Atoi(a)
				w.base.Put(context.Background(), w.p.blks[k])
				initial[k] = true
			}
			o.Emit("ok")
		case "start":
			// thread 0 = the goroutine started by bloomCached for the initial build
			ctx, cancel := context.WithCancel(context.Background())
			t := &thread{id: 0, op: []string{"build"}, resume: make(chan struct{}), events: make(chan event, 1),
				cut: vh.Atoi(f[1]), mode: vh.Atoi(f[2]), cancel: cancel, spawnAt: s.clock}
			s.threads[0] = t
			s.orphan = t
			top, err := blockstore.CachedBlockstore(ctx, w.backing(), w.opts())
			if err != nil {
				o.Emit("ctor-err")
				continue
			}
			w.top = top
			started = true
			go func() {
				err := top.(blockstore.BloomCacheStatus).Wait(context.Background())
				r := "ok"
				if err != nil {
					r = "err"
				}
				t.events <- event{done: true, res: r}
			}()
			o.Emit("%s", s.await(t))
		case "spawn":
			if !started {
				o.Emit("bad-op")
				continue
			}
			id := vh.Atoi(f[1])
			t := &thread{id: id, op: f[2:], resume: make(chan struct{}), events: make(chan event, 1), cut: 1 << 30, spawnAt: s.clock}
			var rctx context.Context = context.Background()
			if f[2] == "rebuild" {
				t.cut, t.mode = vh.Atoi(f[3]), vh.Atoi(f[4])
				rctx, t.cancel = context.WithCancel(context.Background())
			}
			s.threads[id] = t
			o.Kind("spawn-" + f[2])
			ready := make(chan struct{})
			go func() {
				s.mu.Lock()
				s.byGoid[goid()] = t
				s.mu.Unlock()
				close(ready)
				var res string
				if t.op[0] == "rebuild" {
					res = "ok"
					if err := w.top.(blockstore.BloomCacheStatus).Rebuild(rctx); err != nil {
						res = "err"
					}
				} else {
					res = w.call(w.top, t.op)
				}
				s.mu.Lock()
				delete(s.byGoid, goid())
				s.mu.Unlock()
				t.events <- event{done: true, res: res}
			}()
			<-ready
			o.Emit("%s", s.await(t))
		case "step":
			o.Emit("%s", s.step(w, s.threads[vh.Atoi(f[1])]))
		case "run": // step one thread until it finishes or blocks
			t := s.threads[vh.Atoi(f[1])]
			r := "idle"
			for i := 0; i < 200; i++ {
				r = s.step(w, t)
				if !strings.HasPrefix(r, "parked") {
					break
				}
			}
			o.Emit("%s", r)
		case "drain": // lowest live thread first, until everything has finished
			for guard := 0; guard < 2000; guard++ {
				progressed := false
				ids := make([]int, 0, len(s.threads))
				for id := range s.threads {
					ids = append(ids, id)
				}
				sort.Ints(ids)
				for _, id := range ids {
					t := s.threads[id]
					if t.finished {
						continue
					}
					if r := s.step(w, t); r != "blocked" {
						progressed = true
						break
					}
				}
				if !progressed {
					break
				}
			}
			ids := make([]int, 0, len(s.threads))
			for id := range s.threads {
				ids = append(ids, id)
			}
			sort.Ints(ids)
			var parts []string
			for _, id := range ids {
				t := s.threads[id]
				if t.finished {
					parts = append(parts, fmt.Sprintf("%d=%s", id, t.res))
				} else {
					parts = append(parts, fmt.Sprintf("%d=live", id))
				}
			}
			o.Emit("results %s", strings.Join(parts, " "))
		case "state":
			var ks []string
			for i := 0; i < w.c.n; i++ {
				if w.storeHas(w.base, i) {
					ks = append(ks, strconv.Itoa(i))
				}
			}
			o.Emit("%s store=%s", w.bloomDump(), strings.Join(ks, ","))
		default:
			o.Emit("bad-op")
		}
	}
	if w != nil && started {
		monitorHistory(w, s, initial, o)
	}
}

// ---------------------------------------------------------------- history monitors (concurrent cases)

func opKeys(op []string) []int {
	switch op[0] {
	case "has", "get", "size", "view", "del", "put":
		return []int{keyArg(op[1])}
	case "putmany":
		var ks []int
		if op[1] != "-" {
			for _, a := range strings.Split(op[1], ",") {
				ks = append(ks, vh.Atoi(a))
			}
		}
		return ks
	}
	return nil
}

func isRead(k string) bool { return k == "has" || k == "get" || k == "size" || k == "view" }
func isAbsent(res string) bool {
	return res == "false" || res == "notfound"
}

// does `res` agree with the map spec in state `st` for op h? returns the next state
func specStep(st uint64, h *histOp) (uint64, bool) {
	switch h.kind {
	case "has", "get", "size", "view":
		if h.res == "err" {
			return st, true
		}
		k := h.keys[0]
		present := k >= 0 && st&(1<<uint(k)) != 0
		return st, present != isAbsent(h.res)
	case "put", "putmany":
		if h.res != "ok" {
			return st, true
		}
		for _, k := range h.keys {
			st |= 1 << uint(k)
		}
		return st, true
	case "del":
		if h.res != "ok" {
			return st, true
		}
		if h.keys[0] >= 0 {
			st &^= 1 << uint(h.keys[0])
		}
		return st, true
	}
	return st, true
}

// Wing–Gong search: is there a total order consistent with real time in which every op meets the map spec?
func linearizable(ops []*histOp, init uint64) bool {
	n := len(ops)
	type key struct {
		done uint64
		st   uint64
	}
	seen := map[key]bool{}
	var rec func(done uint64, st uint64) bool
	rec = func(done uint64, st uint64) bool {
		if done == (uint64(1)<<uint(n))-1 {
			return true
		}
		k := key{done, st}
		if seen[k] {
			return false
		}
		seen[k] = true
		for i, h := range ops {
			if done&(1<<uint(i)) != 0 {
				continue
			}
			// h may go next only if no other pending op finished before h was invoked
			ok := true
			for j, g := range ops {
				if j != i && done&(1<<uint(j)) == 0 && g.finished && g.done < h.spawn {
					ok = false
					break
				}
			}
			if !ok {
				continue
			}
			if st2, fits := specStep(st, h); fits && rec(done|1<<uint(i), st2) {
				return true
			}
		}
		return false
	}
	return rec(0, init)
}

func monitorHistory(w *world, s *sched, initial map[int]bool, o *vh.Out) {
	var ops []*histOp
	ids := make([]int, 0, len(s.threads))
	for id := range s.threads {
		ids = append(ids, id)
	}
	sort.Ints(ids)
	for _, id := range ids {
		t := s.threads[id]
		if t.op[0] == "build" || t.op[0] == "rebuild" || !t.finished {
			continue // maintenance calls have no effect on the abstract map; unfinished calls are dropped
		}
		ops = append(ops, &histOp{kind: t.op[0], keys: opKeys(t.op), res: t.res, spawn: t.spawnAt, done: t.doneAt, finished: true, tid: id})
	}
	// unfinished writers may have taken effect: keep them as pending forever (done = +inf)
	for _, id := range ids {
		t := s.threads[id]
		if !t.finished && (t.op[0] == "put" || t.op[0] == "putmany" || t.op[0] == "del") {
			ops = append(ops, &histOp{kind: t.op[0], keys: opKeys(t.op), res: "ok", spawn: t.spawnAt, done: 1 << 30, finished: false, tid: id})
		}
	}
	if len(ops) > 20 {
		return
	}
	var init uint64
	for k := range initial {
		init |= 1 << uint(k)
	}
	// (A) the "in particular" clause, checked directly: a key that is in the store from before the read
	// was invoked (initial content or a put that had returned), and that no delete in this case touches,
	// is never reported absent.
	deleted := map[int]bool{}
	for _, h := range ops {
		if h.kind == "del" && h.keys[0] >= 0 {
			deleted[h.keys[0]] = true
		}
	}
	classA := false
	for _, r := range ops {
		if !isRead(r.kind) || !isAbsent(r.res) || r.keys[0] < 0 || deleted[r.keys[0]] {
			continue
		}
		k := r.keys[0]
		stable := initial[k]
		for _, p := range ops {
			if (p.kind == "put" || p.kind == "putmany") && p.res == "ok" && p.finished && p.done < r.spawn {
				for _, pk := range p.keys {
					if pk == k {
						stable = true
					}
				}
			}
		}
		if stable {
			classA = true
			o.Fail("false-negative-after-completed-put", "thread %d: %s %d = %s although key %d was stored before the call began and is never deleted",
				r.tid, r.kind, k, r.res, k)
		}
	}
	// (B) linearizability against the map
	if linearizable(ops, init) {
		o.Kind("linearizable")
		if len(ops) >= 2 {
			o.Nontrivial()
		}
		return
	}
	if classA {
		return
	}
	// classify: drop the absent reads that overlap a not-yet-returned put of the same key
	var rest []*histOp
	dropped := 0
	for _, r := range ops {
		drop := false
		if isRead(r.kind) && isAbsent(r.res) {
			for _, p := range ops {
				if (p.kind == "put" || p.kind == "putmany") && p.spawn < r.done && (!p.finished || p.done > r.spawn) {
					for _, pk := range p.keys {
						if pk == r.keys[0] {
							drop = true
						}
					}
				}
			}
		}
		if drop {
			dropped++
		} else {
			rest = append(rest, r)
		}
	}
	if dropped > 0 && linearizable(rest, init) {
		o.Fail("nonlinearizable-absent-read-during-unreturned-put", "history of %d ops is not linearizable; it is once %d absent reads concurrent with an unreturned put of the same key are removed", len(ops), dropped)
		return
	}
	o.Fail("nonlinearizable", "history of %d ops is not linearizable against the map", len(ops))
}

// ---------------------------------------------------------------- generator

func b2i(b bool) int {
	if b {
		return 1
	}
	return 0
}

func keyTok(r *vh.Rand, n int) string {
	if r.Chance(1, 25) {
		return "u"
	}
	return strconv.Itoa(r.Intn(n))
}

func header(r *vh.Rand, c cfg, ops *[]string) {
	*ops = append(*ops, fmt.Sprintf("cfg tq=%d bloom=%d hashes=%d viewer=%d n=%d mode=%s", c.tq, c.bloom, c.hashes, b2i(c.viewer), c.n, c.mode))
	szs := make([]string, c.n)
	p := mkPool(c.n)
	for i := range szs {
		szs[i] = strconv.Itoa(len(p.blks[i].RawData()))
	}
	*ops = append(*ops, "sz "+strings.Join(szs, " "))
	// rank of every key in the order tqcache.PutMany sorts its batch (multihash bytes as a string)
	order := make([]int, c.n)
	for i := range order {
		order[i] = i
	}
	sort.Slice(order, func(a, b int) bool {
		return string(p.blks[order[a]].Cid().Hash()) < string(p.blks[order[b]].Cid().Hash())
	})
	ranks := make([]string, c.n)
	for pos, k := range order {
		ranks[k] = strconv.Itoa(pos)
	}
	*ops = append(*ops, "rank "+strings.Join(ranks, " "))
	if c.bloom > 0 {
		for i := 0; i < c.n; i++ {
			ps := hashPositions(c.bloom*8, c.hashes, p.blks[i].Cid().Hash())
			ss := make([]string, len(ps))
			for j, x := range ps {
				ss[j] = strconv.Itoa(x)
			}
			*ops = append(*ops, fmt.Sprintf("hash %d %s", i, strings.Join(ss, " ")))
		}
	}
}

func genSeq(r *vh.Rand, tier string, id string) vh.Case {
	c := vh.Case{ID: id}
	var g cfg
	g.mode = "seq"
	switch r.Intn(4) {
	case 0:
		g.tq = r.Range(2, 6)
	case 1:
		g.bloom = 1
	default:
		g.tq = r.Range(2, 6)
		g.bloom = 1
	}
	if g.tq > 0 && r.Chance(1, 6) {
		g.tq = vh.Pick(r, []int{2, 3, 4, 7, 8, 16, 64})
	}
	if r.Chance(1, 40) {
		g.tq = 1 // New2Q(1) fails: the constructor reports it
	}
	if g.bloom > 0 {
		g.bloom = vh.Pick(r, []int{1, 1, 8, 64, 100})
		g.hashes = vh.Pick(r, []int{1, 2, 7, 60, 200, 200})
	}
	g.viewer = r.Bool()
	g.n = r.Range(3, 10)
	if g.bloom > 0 && r.Bool() {
		g.n = r.Range(8, 24)
	}
	header(r, g, &c.Ops)
	var init []string
	for i := 0; i < g.n; i++ {
		if r.Chance(1, 3) {
			init = append(init, strconv.Itoa(i))
		}
	}
	c.Ops = append(c.Ops, strings.TrimSpace("init "+strings.Join(init, " ")))
	enumPar := func() (int, int) {
		if r.Chance(3, 5) {
			return 1 << 20, 0
		}
		return r.Intn(g.n + 1), r.Intn(3)
	}
	cut, mode := enumPar()
	c.Ops = append(c.Ops, fmt.Sprintf("build %d %d", cut, mode))
	if g.tq == 1 {
		return c
	}
	m := r.Range(5, 40)
	if tier == "thorough" {
		m = r.Range(5, 120)
	}
	for j := 0; j < m; j++ {
		fl := b2i(r.Chance(1, 12))
		switch k := r.Intn(20); {
		case k < 4:
			c.Ops = append(c.Ops, fmt.Sprintf("has %s %d", keyTok(r, g.n), fl))
		case k < 6:
			c.Ops = append(c.Ops, fmt.Sprintf("get %s %d", keyTok(r, g.n), fl))
		case k < 8:
			c.Ops = append(c.Ops, fmt.Sprintf("size %s %d", keyTok(r, g.n), fl))
		case k < 10:
			if r.Chance(1, 3) {
				c.Ops = append(c.Ops, fmt.Sprintf("viewerr %s %d", keyTok(r, g.n), r.Intn(3)))
			} else {
				c.Ops = append(c.Ops, fmt.Sprintf("view %s %d", keyTok(r, g.n), fl))
			}
		case k < 13:
			c.Ops = append(c.Ops, fmt.Sprintf("del %s %d", keyTok(r, g.n), fl))
		case k < 16:
			c.Ops = append(c.Ops, fmt.Sprintf("put %d %d", r.Intn(g.n), fl))
		case k < 18:
			l := r.Intn(5)
			ks := make([]string, l)
			for i := range ks {
				ks[i] = strconv.Itoa(r.Intn(g.n))
			}
			a := strings.Join(ks, ",")
			if l == 0 {
				a = "-"
			}
			c.Ops = append(c.Ops, fmt.Sprintf("putmany %s %d", a, fl))
		case k < 19:
			cut, mode := enumPar()
			c.Ops = append(c.Ops, fmt.Sprintf("rebuild %d %d", cut, mode))
		default:
			cut, mode := enumPar()
			if mode == 2 {
				mode = 1
			}
			if r.Chance(1, 3) {
				c.Ops = append(c.Ops, fmt.Sprintf("enumplain %d %d", cut, mode))
			} else {
				c.Ops = append(c.Ops, fmt.Sprintf("enum %d %d", cut, mode))
			}
		}
	}
	return c
}

func randConcOp(r *vh.Rand, n int) string {
	switch k := r.Intn(12); {
	case k < 3:
		return fmt.Sprintf("has %d", r.Intn(n))
	case k < 4:
		return fmt.Sprintf("get %d", r.Intn(n))
	case k < 5:
		return fmt.Sprintf("size %d", r.Intn(n))
	case k < 6:
		return fmt.Sprintf("del %d", r.Intn(n))
	case k < 8:
		return fmt.Sprintf("put %d", r.Intn(n))
	case k < 9:
		return fmt.Sprintf("putmany %d,%d", r.Intn(n), r.Intn(n))
	default:
		if r.Chance(2, 3) {
			return "rebuild 1048576 0"
		}
		return fmt.Sprintf("rebuild %d %d", r.Intn(n+1), r.Intn(2))
	}
}

func genConc(r *vh.Rand, tier string, id string) vh.Case {
	c := vh.Case{ID: id}
	g := cfg{mode: "conc", bloom: 1, hashes: vh.Pick(r, []int{1, 7, 200}), n: r.Range(2, 4), viewer: r.Bool()}
	header(r, g, &c.Ops)
	var init []string
	for i := 0; i < g.n; i++ {
		if r.Chance(1, 3) {
			init = append(init, strconv.Itoa(i))
		}
	}
	c.Ops = append(c.Ops, strings.TrimSpace("init "+strings.Join(init, " ")))
	if r.Chance(4, 5) {
		c.Ops = append(c.Ops, "start 1048576 0")
	} else {
		c.Ops = append(c.Ops, fmt.Sprintf("start %d %d", r.Intn(g.n+1), r.Intn(2)))
	}
	next := 1
	if r.Chance(2, 3) {
		c.Ops = append(c.Ops, "run 0") // most cases: the initial build completes first
	}
	switch r.Intn(6) {
	case 0: // reader racing a rebuild (the stale-pointer window of hasCached)
		k := r.Intn(g.n)
		c.Ops = append(c.Ops, fmt.Sprintf("spawn %d put %d", next, k))
		c.Ops = append(c.Ops, fmt.Sprintf("run %d", next))
		next++
		rd, rb := next, next+1
		next += 2
		c.Ops = append(c.Ops, fmt.Sprintf("spawn %d %s %d", rd, vh.Pick(r, []string{"has", "get", "size", "view"}), k))
		c.Ops = append(c.Ops, fmt.Sprintf("spawn %d rebuild 1048576 0", rb))
		for j, m := 0, r.Range(4, 14); j < m; j++ {
			c.Ops = append(c.Ops, fmt.Sprintf("step %d", vh.Pick(r, []int{rd, rb, rb})))
		}
	case 1: // put racing a (re)build's activation, with readers before and after
		k := r.Intn(g.n)
		pt, rb := next, next+1
		next += 2
		c.Ops = append(c.Ops, fmt.Sprintf("spawn %d rebuild 1048576 0", rb))
		c.Ops = append(c.Ops, fmt.Sprintf("spawn %d put %d", pt, k))
		for j, m := 0, r.Range(3, 10); j < m; j++ {
			c.Ops = append(c.Ops, fmt.Sprintf("step %d", vh.Pick(r, []int{pt, rb, rb, 0})))
			if r.Chance(1, 3) {
				c.Ops = append(c.Ops, fmt.Sprintf("spawn %d has %d", next, k), fmt.Sprintf("run %d", next))
				next++
			}
		}
	case 2, 3: // a Put / PutMany that straddles a rebuild's filter swap and snapshot, then readers of its keys
		k := r.Intn(g.n)
		k2 := r.Intn(g.n)
		pt, rb := next, next+1
		next += 2
		if r.Bool() {
			c.Ops = append(c.Ops, fmt.Sprintf("spawn %d putmany %d,%d", pt, k, k2))
		} else {
			c.Ops = append(c.Ops, fmt.Sprintf("spawn %d put %d", pt, k))
		}
		c.Ops = append(c.Ops, fmt.Sprintf("spawn %d rebuild 1048576 0", rb))
		// lock, deactivate, swap, snapshot = 4 steps; vary around that window
		for j, m := 0, r.Range(2, 6); j < m; j++ {
			c.Ops = append(c.Ops, fmt.Sprintf("step %d", rb))
		}
		for j, m := 0, r.Range(1, 3); j < m; j++ { // store write, then some of the filter adds
			c.Ops = append(c.Ops, fmt.Sprintf("step %d", pt))
		}
		if r.Bool() {
			c.Ops = append(c.Ops, fmt.Sprintf("run %d", pt), fmt.Sprintf("run %d", rb))
		} else {
			c.Ops = append(c.Ops, fmt.Sprintf("run %d", rb), fmt.Sprintf("run %d", pt))
		}
		for _, kk := range []int{k, k2} {
			c.Ops = append(c.Ops, fmt.Sprintf("spawn %d %s %d", next, vh.Pick(r, []string{"has", "get", "size"}), kk), fmt.Sprintf("run %d", next))
			next++
		}
	default:
	}
	m := r.Range(6, 30)
	if tier == "thorough" {
		m = r.Range(6, 60)
	}
	for j := 0; j < m; j++ {
		if next <= 8 && r.Chance(1, 4) {
			c.Ops = append(c.Ops, fmt.Sprintf("spawn %d %s", next, randConcOp(r, g.n)))
			next++
		} else if r.Chance(1, 10) {
			c.Ops = append(c.Ops, fmt.Sprintf("run %d", r.Intn(next)))
		} else {
			c.Ops = append(c.Ops, fmt.Sprintf("step %d", r.Intn(next)))
		}
	}
	c.Ops = append(c.Ops, "drain", "state")
	return c
}

func gen(r *vh.Rand, tier string, n int, emit func(vh.Case)) {
	for i := 0; i < n; i++ {
		rr := r.Fork()
		if i%3 == 2 {
			emit(genConc(rr, tier, strconv.Itoa(i)))
		} else {
			emit(genSeq(rr, tier, strconv.Itoa(i)))
		}
	}
}

func exec(c vh.Case, o *vh.Out) {
	if len(c.Ops) > 0 && strings.Contains(c.Ops[0], "mode=conc") {
		execConc(c, o)
		return
	}
	execSeq(c, o)
}

func main() {
	logging.SetAllLoggers(logging.LevelFatal)
	vh.Main(vh.Config{Gen: gen, Exec: exec, CaseTimeout: 60 * time.Second})
}
