// C11 harness: drives the real merkledag.ProtoNode (mutations interleaved with cached reads).
//
// Op lines (operands: names/cids/data as hex, "-" = empty, "nil" = nil slice / nil builder):
//
//	new <data>                      NodeWithData
//	addlink <name> <cid|-> <size>   AddRawLink            -> ok | err
//	rmlink <name>                   RemoveNodeLink        -> ok | notfound
//	setlinks <name:cid:size>...     SetLinks              -> ok | err
//	setdata <data>                  SetData               -> ok
//	setbuilder <k|nil>              SetCidBuilder(pool[k]) -> ok | err
//	copy                            n = n.Copy()          -> ok
//	reload                          n = DecodeProtobuf(n.RawData()) -> ok | err
//	links | getlink <name> | data | marshal | rawdata | size
//	tree | mjson (MarshalJSON, checked to parse) | getpb (GetPBNode) | stat
//	ujson <data> <name:cid:size>...  UnmarshalJSON of {"data","links"}            -> ok | err
//	addnode <name> <cid> <size> <childdata>   AddNodeLink(name, NodeWithData(childdata))
//	updlink <name> <cid> <size> <childdata>   n = n.UpdateNodeLink(name, NodeWithData(childdata))
//	reloadblock                     n = DecodeProtobufBlock(NewBlockWithCid(n.RawData(), n.Cid()))
//	cid                             -> k=<builder> enc=<hex>: the (builder, bytes) pair whose hash the
//	                                   returned CID is (looked up among all encodings seen so far x all
//	                                   pool builders), so a stale CID shows up as an old builder / old bytes
//	dec <hex>                       DecodeProtobuf on arbitrary well-structured bytes (stateless)
package main

import (
	"bytes"
	"encoding/json"
	"fmt"
	"math"
	"sort"
	"strconv"
	"strings"

	"github.com/ipfs/boxo/ipld/merkledag"
	blocks "github.com/ipfs/go-block-format"
	cid "github.com/ipfs/go-cid"
	format "github.com/ipfs/go-ipld-format"
	mh "github.com/multiformats/go-multihash"
	"google.golang.org/protobuf/encoding/protowire"

	"verifharness/vh"
)

// builder pool; index 6 hashes like index 0 (canonical index 0), index 7 is unusable.
var pool = []cid.Builder{
	merkledag.V0CidPrefix(),
	merkledag.V1CidPrefix(),
	cid.Prefix{Version: 1, Codec: cid.Raw, MhType: mh.BLAKE2B_MIN + 31, MhLength: -1},
	cid.Prefix{Version: 1, Codec: cid.DagCBOR, MhType: mh.IDENTITY, MhLength: -1},
	&cid.Prefix{Version: 1, Codec: cid.DagProtobuf, MhType: mh.SHA2_512, MhLength: 64},
	cid.V1Builder{Codec: cid.Raw, MhType: mh.SHA3_256},
	cid.V0Builder{},
	cid.Prefix{Version: 1, Codec: cid.DagProtobuf, MhType: 0x1234, MhLength: -1},
}

const nUsable = 7

func canon(k int) int {
	if k == 6 {
		return 0
	}
	return k
}

func sum(k int, b []byte) cid.Cid {
	c, err := pool[k].WithCodec(cid.DagProtobuf).Sum(b)
	if err != nil {
		panic(err)
	}
	return c
}

var names = []string{"", "a", "b", "ab", "a\x00", "\xc3\xa9", "\xff", "B", "aa", "a", "b"}

var jsonNames = []string{"", "a", "b", "ab", "a\x00", "\xc3\xa9", "B", "aa", "a"}

func childTok(r *vh.Rand) string {
	d := r.Bytes(1 + r.Intn(6))
	ch := merkledag.NodeWithData(d)
	sz, _ := ch.Size()
	return fmt.Sprintf("%s %d %s", vh.Hex(ch.Cid().Bytes()), sz, vh.Hex(d))
}

func linkCids() []cid.Cid {
	var out []cid.Cid
	out = append(out, sum(0, []byte("x")))
	c1, _ := cid.Prefix{Version: 1, Codec: cid.Raw, MhType: mh.SHA2_256, MhLength: -1}.Sum([]byte("y"))
	c2, _ := cid.Prefix{Version: 1, Codec: cid.DagProtobuf, MhType: mh.IDENTITY, MhLength: -1}.Sum([]byte("ab"))
	c3, _ := cid.Prefix{Version: 1, Codec: cid.DagCBOR, MhType: mh.SHA2_512, MhLength: -1}.Sum([]byte("z"))
	return append(out, c1, c2, c3)
}

var sizeClasses = []uint64{0, 1, 127, 128, 300, 16383, 16384, 1 << 21, 1<<28 - 1, 1 << 35, 1<<42 + 5, 1 << 49, 1<<56 - 1, 1 << 56, 1<<63 - 1}

func hexOrDash(b []byte) string { return vh.Hex(b) }

func dataTok(r *vh.Rand) string {
	switch r.Intn(6) {
	case 0:
		return "nil"
	case 1:
		return "-"
	case 2:
		return vh.Hex(r.Bytes(1 + r.Intn(4)))
	case 3:
		return vh.Hex(r.Bytes(127 + r.Intn(3))) // crosses the 1-byte length varint
	default:
		return vh.Hex(r.Bytes(1 + r.Intn(20)))
	}
}

func linkTok(r *vh.Rand, cids []cid.Cid, sep string) string {
	name := vh.Pick(r, names)
	if r.Chance(1, 25) {
		name = strings.Repeat("n", 126+r.Intn(4))
	}
	c := vh.Hex(vh.Pick(r, cids).Bytes())
	if r.Chance(1, 40) {
		c = "-" // undefined CID: rejected
	}
	size := vh.Pick(r, sizeClasses)
	if r.Chance(1, 30) {
		size = uint64(1<<63) + uint64(r.Intn(3)) // > MaxInt64: rejected
	}
	if r.Chance(1, 4) {
		size = uint64(r.Intn(1000))
	}
	return vh.Hex([]byte(name)) + sep + c + sep + strconv.FormatUint(size, 10)
}

// ---- structured generator for the stateless decoder op ----------------------------------------

func pbField(num int, wt protowire.Type, payload []byte) []byte {
	b := protowire.AppendTag(nil, protowire.Number(num), wt)
	return append(b, payload...)
}

func genLinkMsg(r *vh.Rand, cids []cid.Cid) []byte {
	var parts [][]byte
	cb := append([]byte(nil), vh.Pick(r, cids).Bytes()...)
	switch r.Intn(16) {
	case 0: // trailing bytes after the CID are ignored
		cb = append(cb, r.Bytes(1+r.Intn(3))...)
	case 1: // truncated
		cb = cb[:r.Intn(len(cb))]
	case 2: // version 2 / 0
		cb[0] = byte(vh.Pick(r, []int{0, 2, 0x12}))
	case 3: // non-minimal version varint
		cb = append([]byte{0x81, 0x00}, cb[1:]...)
	case 4: // bare sha2-256 multihash prefix with too few bytes
		cb = append([]byte{0x12, 0x20}, r.Bytes(r.Intn(33))...)
	case 5: // digest length larger than what follows
		cb = []byte{0x01, 0x55, 0x12, 0x20, 1, 2, 3}
	case 6: // CIDv0 followed by more bytes
		cb = append(sum(0, []byte("q")).Bytes(), 9, 9)
	}
	hash := pbField(1, 2, protowire.AppendBytes(nil, cb))
	name := pbField(2, 2, protowire.AppendBytes(nil, []byte(vh.Pick(r, names))))
	ts := pbField(3, 0, protowire.AppendVarint(nil, vh.Pick(r, sizeClasses)))
	if r.Chance(1, 10) {
		ts = pbField(3, 0, protowire.AppendVarint(nil, uint64(1<<63)+uint64(r.Intn(5))))
	}
	if r.Chance(1, 12) {
		ts = pbField(3, 0, []byte{0x80, 0x80, 0x00}) // non-minimal varint 0
	}
	parts = append(parts, hash)
	if !r.Chance(1, 6) {
		parts = append(parts, name)
	}
	if !r.Chance(1, 6) {
		parts = append(parts, ts)
	}
	switch r.Intn(14) {
	case 0: // permute
		for i := range parts {
			j := r.Intn(i + 1)
			parts[i], parts[j] = parts[j], parts[i]
		}
	case 1: // duplicate a field
		parts = append(parts, vh.Pick(r, parts))
	case 2: // drop hash
		parts = parts[1:]
	case 3: // wrong wire type
		parts = append(parts, pbField(1+r.Intn(3), protowire.Type(vh.Pick(r, []int{0, 1, 2, 5})), []byte{1, 0, 0, 0, 0, 0, 0, 0}))
	case 4: // unknown field
		parts = append(parts, pbField(4+r.Intn(20), 0, []byte{1}))
	case 5: // empty hash
		parts[0] = pbField(1, 2, []byte{0})
	}
	return bytes.Join(parts, nil)
}

func genNodeMsg(r *vh.Rand, cids []cid.Cid) []byte {
	var parts [][]byte
	nl := r.Intn(4)
	for i := 0; i < nl; i++ {
		parts = append(parts, pbField(2, 2, protowire.AppendBytes(nil, genLinkMsg(r, cids))))
	}
	data := pbField(1, 2, protowire.AppendBytes(nil, r.Bytes(r.Intn(5))))
	switch r.Intn(5) {
	case 0: // no data
	case 1: // data first (legacy order)
		parts = append([][]byte{data}, parts...)
	default:
		parts = append(parts, data)
	}
	switch r.Intn(16) {
	case 0: // data in the middle of the links
		if len(parts) > 1 {
			i := 1 + r.Intn(len(parts)-1)
			parts = append(parts[:i:i], append([][]byte{data}, parts[i:]...)...)
		}
	case 1: // second data
		parts = append(parts, data)
	case 2: // wrong wire type / unknown field
		parts = append(parts, pbField(1+r.Intn(3), protowire.Type(vh.Pick(r, []int{0, 5})), []byte{1, 0, 0, 0}))
	case 3: // truncated
		b := bytes.Join(parts, nil)
		if len(b) > 0 {
			return b[:r.Intn(len(b))]
		}
	case 4: // zero / huge field number
		parts = append(parts, protowire.AppendVarint(nil, uint64(vh.Pick(r, []int{0, 2, 1 << 34}))))
	}
	return bytes.Join(parts, nil)
}

func gen(r *vh.Rand, tier string, n int, emit func(vh.Case)) {
	cids := linkCids()
	for i := 0; i < n; i++ {
		c := vh.Case{ID: strconv.Itoa(i)}
		if r.Chance(1, 10) { // decoder case
			for j, m := 0, 1+r.Intn(6); j < m; j++ {
				c.Ops = append(c.Ops, "dec "+vh.Hex(genNodeMsg(r, cids)))
			}
			emit(c)
			continue
		}
		if r.Chance(1, 7) {
			// many links over a tiny name alphabet: lots of equal names, every link distinguishable by
			// its Tsize (= insertion index) and CID, so the order among equal names is observable; more
			// than 12 links in unsorted insertion order (library sorts switch algorithm above 12)
			c.Ops = append(c.Ops, "new "+dataTok(r))
			alpha := [][]string{{"", "a"}, {"a", "b"}, {"b", "a", ""}, {"ab", "a", "b", ""}, {"x"}}[r.Intn(5)]
			nl := 13 + r.Intn(28)
			mk := func(i int, sep string) string {
				return vh.Hex([]byte(vh.Pick(r, alpha))) + sep + vh.Hex(vh.Pick(r, cids).Bytes()) + sep + strconv.Itoa(i)
			}
			if r.Bool() {
				for i := 0; i < nl; i++ {
					c.Ops = append(c.Ops, "addlink "+mk(i, " "))
					if r.Chance(1, 12) {
						c.Ops = append(c.Ops, vh.Pick(r, []string{"links", "rawdata", "cid", "copy", "reload"}))
					}
				}
			} else {
				ls := make([]string, nl)
				for i := range ls {
					ls[i] = mk(i, ":")
				}
				c.Ops = append(c.Ops, "setlinks "+strings.Join(ls, " "))
			}
			c.Ops = append(c.Ops, "links", "cid", "rawdata")
			for i, k := 0, r.Intn(4); i < k; i++ {
				c.Ops = append(c.Ops, "addlink "+mk(100+i, " "))
			}
			if r.Bool() {
				c.Ops = append(c.Ops, "rmlink "+vh.Hex([]byte(vh.Pick(r, alpha))))
			}
			c.Ops = append(c.Ops, vh.Pick(r, []string{"copy", "reload", "links", "marshal"}), "cid", "rawdata", "links")
			emit(c)
			continue
		}
		c.Ops = append(c.Ops, "new "+dataTok(r))
		m := 2 + r.Intn(20)
		if tier == "thorough" {
			m = 2 + r.Intn(40)
		}
		for j := 0; j < m; j++ {
			switch r.Intn(25) {
			case 20:
				c.Ops = append(c.Ops, vh.Pick(r, []string{"tree", "mjson", "getpb", "stat"}))
			case 21:
				var ls []string
				for k, kk := 0, r.Intn(5); k < kk; k++ {
					sz := vh.Pick(r, sizeClasses)
					if r.Chance(1, 12) {
						sz = 1 << 63
					}
					ls = append(ls, vh.Hex([]byte(vh.Pick(r, jsonNames)))+":"+vh.Hex(vh.Pick(r, cids).Bytes())+":"+strconv.FormatUint(sz, 10))
				}
				c.Ops = append(c.Ops, strings.TrimSpace("ujson "+dataTok(r)+" "+strings.Join(ls, " ")))
			case 22:
				c.Ops = append(c.Ops, vh.Pick(r, []string{"addnode ", "updlink "})+vh.Hex([]byte(vh.Pick(r, names)))+" "+childTok(r))
			case 23:
				c.Ops = append(c.Ops, "reloadblock")
			case 24:
				c.Ops = append(c.Ops, vh.Pick(r, []string{"tree", "stat", "mjson"}))
			case 0, 1, 2, 3, 4:
				c.Ops = append(c.Ops, "addlink "+linkTok(r, cids, " "))
			case 5, 6:
				c.Ops = append(c.Ops, "rmlink "+vh.Hex([]byte(vh.Pick(r, names))))
			case 7:
				var ls []string
				for k, kk := 0, r.Intn(5); k < kk; k++ {
					ls = append(ls, linkTok(r, cids, ":"))
				}
				c.Ops = append(c.Ops, strings.TrimSpace("setlinks "+strings.Join(ls, " ")))
			case 8, 9:
				c.Ops = append(c.Ops, "setdata "+dataTok(r))
			case 10, 11:
				if r.Chance(1, 3) {
					c.Ops = append(c.Ops, "setbuilder nil")
				} else {
					c.Ops = append(c.Ops, "setbuilder "+strconv.Itoa(r.Intn(len(pool))))
				}
			case 12:
				c.Ops = append(c.Ops, vh.Pick(r, []string{"copy", "reload"}))
			case 13:
				c.Ops = append(c.Ops, vh.Pick(r, []string{"links", "marshal", "size", "data", "getlink " + vh.Hex([]byte(vh.Pick(r, names)))}))
			case 14, 15:
				c.Ops = append(c.Ops, "rawdata")
			default:
				c.Ops = append(c.Ops, "cid")
			}
		}
		c.Ops = append(c.Ops, "cid", "rawdata", "links")
		emit(c)
	}
}

// ---- exec -----------------------------------------------------------------------------------

type shadowLink struct {
	name string
	cid  cid.Cid
	size uint64
}

func parseData(t string) []byte {
	if t == "nil" {
		return nil
	}
	return vh.UnHex(t)
}

func showData(b []byte) string {
	if b == nil {
		return "nil"
	}
	return vh.Hex(b)
}

func parseLink(name, c, size string) (*format.Link, shadowLink) {
	l := &format.Link{Name: string(vh.UnHex(name))}
	if c != "-" {
		cc, err := cid.Cast(vh.UnHex(c))
		if err != nil {
			panic(err)
		}
		l.Cid = cc
	}
	s, err := strconv.ParseUint(size, 10, 64)
	if err != nil {
		panic(err)
	}
	l.Size = s
	return l, shadowLink{l.Name, l.Cid, l.Size}
}

func showLink(name string, c cid.Cid, size uint64) string {
	ch := "-"
	if c.Defined() {
		ch = vh.Hex(c.Bytes())
	}
	return fmt.Sprintf("%s:%s:%d", vh.Hex([]byte(name)), ch, size)
}

func showLinks(ls []*format.Link) string {
	ss := make([]string, len(ls))
	for i, l := range ls {
		ss[i] = showLink(l.Name, l.Cid, l.Size)
	}
	return "[" + strings.Join(ss, " ") + "]"
}

func showShadow(ls []shadowLink) string {
	ss := make([]string, len(ls))
	for i, l := range ls {
		ss[i] = showLink(l.name, l.cid, l.size)
	}
	return "[" + strings.Join(ss, " ") + "]"
}

func sortedShadow(ls []shadowLink) []shadowLink {
	out := append([]shadowLink(nil), ls...)
	sort.SliceStable(out, func(i, j int) bool { return out[i].name < out[j].name })
	return out
}

type st struct {
	n        *merkledag.ProtoNode
	links    []shadowLink // insertion order (the property's abstract node)
	data     []byte
	builder  int  // canonical pool index of the builder in force
	viaNil   bool // the builder in force was selected by SetCidBuilder(nil)
	table    map[string][2]string
	muts     int
	linkMuts int
	dirty    bool // the node's links were mutated since they were last sorted
	asGiven  bool // links installed by UnmarshalJSON on a clean node: kept "as serialized" until mutated
}

// expected result of Links(): stably sorted, except right after UnmarshalJSON on a clean node
func (s *st) expectedLinks() []shadowLink {
	if s.asGiven {
		return s.links
	}
	return sortedShadow(s.links)
}

func (s *st) sortedNow() { s.dirty = false }
func (s *st) mutatedLinks() {
	s.dirty, s.asGiven = true, false
}

func (s *st) register(raw []byte) {
	h := vh.Hex(raw)
	for k := 0; k < nUsable; k++ {
		if k == 6 {
			continue
		}
		s.table[sum(k, raw).KeyString()] = [2]string{strconv.Itoa(k), h}
	}
}

// monitor: the property's own predicates, evaluated on the implementation's outputs against the
// shadow (insertion-ordered links, data, builder) that the harness maintains independently.
func (s *st) monitor(o *vh.Out, c cid.Cid, haveCid bool) {
	raw := s.n.RawData()
	if haveCid {
		want := sum(s.builder, raw)
		if !c.Equals(want) {
			sig := "stale-cid"
			if s.viaNil {
				sig = "stale-cid-setbuilder-nil"
			}
			o.Fail(sig, "Cid()=%s but hash of RawData under the builder in force (#%d) is %s", c, s.builder, want)
		}
	}
	dn, err := merkledag.DecodeProtobuf(raw)
	if err != nil {
		o.Fail("decode-own-encoding", "DecodeProtobuf(RawData()) failed: %v", err)
		return
	}
	// the encoding must decode to what the node itself reports (Data(), Links() up to the codec's sort)
	own := make([]shadowLink, 0)
	for _, l := range s.n.Links() {
		own = append(own, shadowLink{l.Name, l.Cid, l.Size})
	}
	if got, want := showLinks(dn.Links()), showShadow(sortedShadow(own)); got != want {
		o.Fail("rawdata-disagrees-with-accessors", "decode(RawData()) has links %s, the node reports %s", got, want)
	}
	if showData(dn.Data()) != showData(s.n.Data()) && !(len(dn.Data()) == 0 && len(s.n.Data()) == 0) {
		o.Fail("rawdata-disagrees-with-accessors", "decode(RawData()) has data %s, the node reports %s", showData(dn.Data()), showData(s.n.Data()))
	}
	want := showShadow(sortedShadow(s.links))
	if got := showLinks(dn.Links()); got != want {
		o.Fail("decode-links-mismatch", "decoded links %s, want (stable sort by name of the node's links) %s", got, want)
	}
	if showData(dn.Data()) != showData(s.data) && !(len(dn.Data()) == 0 && len(s.data) == 0 && (dn.Data() == nil) == (s.data == nil)) {
		o.Fail("decode-data-mismatch", "decoded data %s, want %s", showData(dn.Data()), showData(s.data))
	}
	// order independence: distinct names => any insertion order gives the same bytes
	seen := map[string]bool{}
	distinct := true
	for _, l := range s.links {
		if seen[l.name] {
			distinct = false
		}
		seen[l.name] = true
	}
	if distinct && len(s.links) >= 2 {
		for _, perm := range [][]shadowLink{reversed(s.links), rotated(s.links)} {
			m := merkledag.NodeWithData(s.data)
			for _, l := range perm {
				if err := m.AddRawLink(l.name, &format.Link{Size: l.size, Cid: l.cid}); err != nil {
					o.Fail("order-readd", "AddRawLink failed on a link the node holds: %v", err)
				}
			}
			if !bytes.Equal(m.RawData(), raw) {
				o.Fail("order-dependent", "same named links added in another order encode differently")
			}
		}
		o.Kind("order-checked")
	}
}

func reversed(ls []shadowLink) []shadowLink {
	out := make([]shadowLink, len(ls))
	for i, l := range ls {
		out[len(ls)-1-i] = l
	}
	return out
}
func rotated(ls []shadowLink) []shadowLink {
	k := len(ls) / 2
	return append(append([]shadowLink(nil), ls[k:]...), ls[:k]...)
}

func showDecoded(n *merkledag.ProtoNode) string {
	return fmt.Sprintf("links=%s data=%s", showLinks(n.Links()), showData(n.Data()))
}

func exec(c vh.Case, o *vh.Out) {
	s := &st{n: merkledag.NodeWithData(nil), table: map[string][2]string{}}
	maxLinks := 0
	cidReads := 0
	for _, line := range c.Ops {
		f := strings.Fields(line)
		switch f[0] {
		case "new":
			d := parseData(f[1])
			s.n = merkledag.NodeWithData(d)
			s.links, s.data, s.builder, s.viaNil = nil, d, 0, false
			s.dirty, s.asGiven = false, false
			o.Emit("ok")
		case "addlink":
			l, sl := parseLink(f[1], f[2], f[3])
			if err := s.n.AddRawLink(l.Name, l); err != nil {
				o.Kind("addlink-rejected")
				if l.Cid.Defined() && l.Size <= math.MaxInt64 {
					o.Fail("addlink-rejects-valid", "AddRawLink rejected a valid link: %v", err)
				}
				o.Emit("err")
			} else {
				if !l.Cid.Defined() || l.Size > math.MaxInt64 {
					o.Fail("addlink-accepts-invalid", "AddRawLink accepted cid=%v size=%d", l.Cid, l.Size)
				}
				s.links = append(s.links, sl)
				s.muts++
				s.linkMuts++
				s.mutatedLinks()
				o.Emit("ok")
			}
		case "rmlink":
			name := string(vh.UnHex(f[1]))
			err := s.n.RemoveNodeLink(name)
			var keep []shadowLink
			for _, l := range s.links {
				if l.name != name {
					keep = append(keep, l)
				}
			}
			found := len(keep) != len(s.links)
			if (err == nil) != found {
				o.Fail("rmlink-result", "RemoveNodeLink(%q) err=%v but the node held such a link: %v", name, err, found)
			}
			s.links = keep
			if err == nil {
				s.muts++
				s.linkMuts++
				s.mutatedLinks()
				o.Kind("rmlink-found")
				o.Emit("ok")
			} else if err == merkledag.ErrLinkNotFound {
				o.Emit("notfound")
			} else {
				o.Emit("err")
			}
		case "setlinks":
			var ls []*format.Link
			var sls []shadowLink
			for _, t := range f[1:] {
				p := strings.Split(t, ":")
				l, sl := parseLink(p[0], p[1], p[2])
				ls = append(ls, l)
				sls = append(sls, sl)
			}
			if err := s.n.SetLinks(ls); err != nil {
				o.Kind("setlinks-rejected")
				o.Emit("err")
			} else {
				s.links = sls
				s.muts++
				s.linkMuts++
				s.mutatedLinks()
				o.Emit("ok")
			}
		case "setdata":
			d := parseData(f[1])
			s.n.SetData(d)
			s.data = d
			s.muts++
			o.Emit("ok")
		case "setbuilder":
			var err error
			if f[1] == "nil" {
				err = s.n.SetCidBuilder(nil)
				if err == nil {
					s.builder, s.viaNil = 0, true
				}
				o.Kind("setbuilder-nil")
			} else {
				k := vh.Atoi(f[1])
				err = s.n.SetCidBuilder(pool[k])
				if err == nil {
					s.builder, s.viaNil = canon(k), false
				}
				if (err != nil) != (k >= nUsable) {
					o.Fail("setbuilder-result", "SetCidBuilder(#%d) err=%v", k, err)
				}
			}
			if err != nil {
				o.Kind("setbuilder-rejected")
				o.Emit("err")
			} else {
				s.muts++
				o.Emit("ok")
			}
		case "copy":
			s.n = s.n.Copy().(*merkledag.ProtoNode)
			s.links = sortedShadow(s.links)
			s.dirty, s.asGiven = false, false
			if len(s.data) == 0 {
				s.data = nil // Copy drops an empty non-nil Data
			}
			o.Kind("copy")
			o.Emit("ok")
		case "reload":
			raw := s.n.RawData()
			s.register(raw)
			m, err := merkledag.DecodeProtobuf(raw)
			if err != nil {
				o.Fail("decode-own-encoding", "DecodeProtobuf(RawData()) failed: %v", err)
				o.Emit("err")
				break
			}
			s.n = m
			s.links = sortedShadow(s.links)
			s.dirty, s.asGiven = false, false
			s.builder, s.viaNil = 0, false
			o.Kind("reload")
			o.Emit("ok")
		case "links":
			ls := s.n.Links()
			s.sortedNow()
			if got, want := showLinks(ls), showShadow(s.expectedLinks()); got != want {
				o.Fail("links-not-stably-sorted", "Links()=%s, want (stable sort by name of the node's links) %s", got, want)
			}
			if !s.asGiven {
				s.links = sortedShadow(s.links)
			}
			o.Emit("%s", showLinks(ls))
		case "getlink":
			l, err := s.n.GetNodeLink(string(vh.UnHex(f[1])))
			if err != nil {
				o.Emit("notfound")
			} else {
				o.Emit("%s", showLink(l.Name, l.Cid, l.Size))
			}
		case "data":
			o.Emit("%s", showData(s.n.Data()))
		case "tree":
			ns := s.n.Tree("", -1)
			s.sortedNow()
			exp := s.expectedLinks()
			hs := make([]string, len(ns))
			for i, nm := range ns {
				hs[i] = vh.Hex([]byte(nm))
				if i >= len(exp) || exp[i].name != nm {
					o.Fail("tree-order", "Tree() name %d = %q differs from the stably sorted links", i, nm)
				}
			}
			if len(ns) != len(exp) {
				o.Fail("tree-order", "Tree() returned %d names, node holds %d links", len(ns), len(exp))
			}
			if s.n.Tree("x", -1) != nil {
				o.Fail("tree-path", "Tree of a non-empty path is not nil")
			}
			o.Emit("[%s]", strings.Join(hs, " "))
		case "mjson":
			b, err := s.n.MarshalJSON()
			s.sortedNow()
			if err != nil {
				o.Emit("err")
				break
			}
			var back struct {
				Data  []byte         `json:"data"`
				Links []*format.Link `json:"links"`
			}
			if err := json.Unmarshal(b, &back); err != nil {
				o.Fail("json-unparsable", "MarshalJSON output does not parse: %v", err)
			} else {
				exp := s.expectedLinks()
				if len(back.Links) != len(exp) || !bytes.Equal(back.Data, s.data) {
					o.Fail("json-content", "MarshalJSON: %d links / data %x, node has %d links / data %x", len(back.Links), back.Data, len(exp), s.data)
				}
				for i, l := range back.Links {
					if i < len(exp) && (l.Size != exp[i].size || !l.Cid.Equals(exp[i].cid)) {
						o.Fail("json-content", "MarshalJSON link %d = (%v,%d), want (%v,%d)", i, l.Cid, l.Size, exp[i].cid, exp[i].size)
					}
				}
			}
			o.Kind("mjson")
			o.Emit("ok")
		case "ujson":
			d := parseData(f[1])
			var ls []*format.Link
			var sls []shadowLink
			valid := true
			for _, t := range f[2:] {
				p := strings.Split(t, ":")
				l, sl := parseLink(p[0], p[1], p[2])
				ls = append(ls, l)
				sls = append(sls, sl)
				if l.Size > math.MaxInt64 {
					valid = false
				}
			}
			js, err := json.Marshal(struct {
				Data  []byte         `json:"data"`
				Links []*format.Link `json:"links"`
			}{d, ls})
			if err != nil {
				panic(err)
			}
			err = s.n.UnmarshalJSON(js)
			if (err == nil) != valid {
				o.Fail("ujson-result", "UnmarshalJSON err=%v, links valid=%v", err, valid)
			}
			if err != nil {
				o.Kind("ujson-rejected")
				o.Emit("err")
			} else {
				s.links, s.data = sls, d
				s.asGiven = !s.dirty
				s.muts++
				o.Kind("ujson-ok")
				o.Emit("ok")
			}
		case "getpb":
			pbn := s.n.GetPBNode()
			ss := make([]string, len(pbn.Links))
			for i, l := range pbn.Links {
				ss[i] = fmt.Sprintf("%s:%s:%d", vh.Hex([]byte(l.GetName())), vh.Hex(l.GetHash()), l.GetTsize())
			}
			o.Kind("getpb")
			o.Emit("links=[%s] data=%s", strings.Join(ss, " "), showData(pbn.Data))
		case "stat":
			st, err := s.n.Stat()
			s.sortedNow()
			if err != nil {
				o.Emit("err")
				break
			}
			raw := s.n.RawData()
			s.register(raw)
			if st.BlockSize != len(raw) || st.NumLinks != len(s.links) || st.DataSize != len(s.data) {
				o.Fail("stat-content", "Stat()=%+v, block %d bytes, %d links, data %d bytes", *st, len(raw), len(s.links), len(s.data))
			}
			hc, _ := cid.Decode(st.Hash)
			id := "unknown-cid"
			if v, ok := s.table[hc.KeyString()]; ok {
				id = fmt.Sprintf("k=%s enc=%s", v[0], v[1])
			}
			o.Kind("stat")
			o.Emit("n=%d block=%d links=%d data=%d cum=%d %s", st.NumLinks, st.BlockSize, st.LinksSize, st.DataSize, uint64(st.CumulativeSize), id)
		case "addnode", "updlink":
			name := string(vh.UnHex(f[1]))
			child := merkledag.NodeWithData(vh.UnHex(f[4]))
			csz, _ := child.Size()
			if vh.Hex(child.Cid().Bytes()) != f[2] || strconv.FormatUint(csz, 10) != f[3] {
				panic("c11: child node does not match the op line")
			}
			sl := shadowLink{name, child.Cid(), csz}
			if f[0] == "addnode" {
				if err := s.n.AddNodeLink(name, child); err != nil {
					o.Fail("addlink-rejects-valid", "AddNodeLink: %v", err)
					o.Emit("err")
					break
				}
				s.links = append(s.links, sl)
			} else {
				m, err := s.n.UpdateNodeLink(name, child)
				if err != nil {
					o.Fail("addlink-rejects-valid", "UpdateNodeLink: %v", err)
					o.Emit("err")
					break
				}
				s.n = m
				var keep []shadowLink
				for _, l := range sortedShadow(s.links) {
					if l.name != name {
						keep = append(keep, l)
					}
				}
				s.links = append(keep, sl)
				if len(s.data) == 0 {
					s.data = nil
				}
			}
			s.muts++
			s.linkMuts++
			s.mutatedLinks()
			o.Kind(f[0])
			o.Emit("ok")
		case "reloadblock":
			raw := s.n.RawData()
			s.register(raw)
			blk, err := blocks.NewBlockWithCid(raw, s.n.Cid())
			if err != nil {
				panic(err)
			}
			nd, err := merkledag.DecodeProtobufBlock(blk)
			if err != nil {
				o.Fail("decode-own-encoding", "DecodeProtobufBlock(own block) failed: %v", err)
				o.Emit("err")
				break
			}
			s.n = nd.(*merkledag.ProtoNode)
			s.links = sortedShadow(s.links)
			s.dirty, s.asGiven, s.viaNil = false, false, false
			o.Kind("reloadblock")
			o.Emit("ok")
		case "marshal":
			b, err := s.n.Marshal()
			s.sortedNow()
			if err != nil {
				o.Emit("err")
			} else {
				o.Emit("%s", vh.Hex(b))
			}
		case "rawdata":
			raw := s.n.RawData()
			s.sortedNow()
			s.register(raw)
			s.monitor(o, cid.Undef, false)
			o.Emit("%s", vh.Hex(raw))
		case "size":
			sz, err := s.n.Size()
			s.sortedNow()
			s.register(s.n.RawData())
			if err != nil {
				o.Emit("err")
			} else {
				o.Emit("%d", sz)
			}
		case "cid":
			cc := s.n.Cid()
			s.sortedNow()
			s.register(s.n.RawData())
			s.monitor(o, cc, true)
			cidReads++
			if len(s.links) > maxLinks {
				maxLinks = len(s.links)
			}
			if len(s.links) >= 13 {
				o.Kind("links>=13")
			}
			if v, ok := s.table[cc.KeyString()]; ok {
				o.Emit("k=%s enc=%s", v[0], v[1])
			} else {
				o.Emit("unknown-cid %s", cc)
			}
			if s.muts >= 2 && s.linkMuts >= 1 && maxLinks >= 2 {
				o.Nontrivial()
			}
		case "dec":
			m, err := merkledag.DecodeProtobuf(vh.UnHex(f[1]))
			if err != nil {
				o.Kind("dec-err")
				o.Emit("err")
			} else {
				o.Kind("dec-ok")
				o.Emit("%s", showDecoded(m))
			}
		default:
			o.Emit("bad-op")
		}
	}
}

func main() { vh.Main(vh.Config{Gen: gen, Exec: exec}) }
