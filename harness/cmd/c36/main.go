// C36 harness: drives the REAL bitswap decision engine (bitswap/server/internal/decision, through the
// verif-tagged wrapper bitswap/server/verifdecision) with scripted want-list messages, block store events
// and explicit pop / ack steps of the real nextEnvelope, and prints the canonical line protocol.
//
// Ops (one output line each; every line ends with the state digest ` | L … | C … | Q …`):
//
//	cfg <limit> <replace> <sdh> <target> <maxcid> <cmp> <tiemul>   new engine; cmp 0 = engine's own comparator (fair
//	                                     scheduler; only `drain` pops), 1..8 = total orders installed with WithTaskComparator
//	cid <i> <kind n|b|i> <size> <bytelen> <pres>   declare pool CID i (sha2-256 raw | sha2-512 raw | identity) of a block of
//	                                     <size> bytes; bytelen / presence size are the observed parameters the model uses
//	deny <p> <c>                         the request filter denies CID c to peer p
//	msg <p> <full 0|1> <c/prio/B|H/cancel/sdh>*   MessageReceived; Wantlist() returns the entries in this order
//	add <c>   rm <c>                     blockstore Put + NotifyNewBlocks   /   DeleteBlock
//	pop                                  one real nextEnvelope (none when nothing is pending); tasks stay active
//	ack <k>                              k-th outstanding envelope: MessageSent + Sent()
//	disc <p>                             PeerDisconnected; envelopes in flight to p fail (Sent() without MessageSent)
//	drain                                pop+ack until nothing is pending; prints the union of what each peer was sent
//	wdrain                               the same through the REAL task worker: receive from Engine.Outbox() (taskWorker,
//	                                     workSignal wake-ups) until nothing is pending; never mixed with pop/drain in a case
package main

import (
	"context"
	"fmt"
	"sort"
	"strconv"
	"strings"
	"time"

	bsmsg "github.com/ipfs/boxo/bitswap/message"
	pb "github.com/ipfs/boxo/bitswap/message/pb"
	vd "github.com/ipfs/boxo/bitswap/server/verifdecision"
	"github.com/ipfs/boxo/blockstore"
	blocks "github.com/ipfs/go-block-format"
	"github.com/ipfs/go-cid"
	ds "github.com/ipfs/go-datastore"
	dssync "github.com/ipfs/go-datastore/sync"
	logging "github.com/ipfs/go-log/v2"
	"github.com/libp2p/go-libp2p/core/peer"
	mh "github.com/multiformats/go-multihash"

	"verifharness/vh"

	wl "github.com/ipfs/boxo/bitswap/client/wantlist"
)

func init() { logging.SetLogLevel("*", "fatal") }

// ---------------------------------------------------------------- pool

func blockData(i, size int) []byte {
	b := make([]byte, size)
	for j := range b {
		b[j] = byte(i*31 + j*7 + 1)
	}
	if size > 0 {
		b[0] = byte(i + 1)
	}
	return b
}

func makeBlock(i int, kind string, size int) blocks.Block {
	data := blockData(i, size)
	var code uint64 = mh.SHA2_256
	switch kind {
	case "b":
		code = mh.SHA2_512
	case "i":
		code = mh.IDENTITY
	}
	h, err := mh.Sum(data, code, -1)
	if err != nil {
		panic(err)
	}
	c := cid.NewCidV1(cid.Raw, h)
	blk, err := blocks.NewBlockWithCid(data, c)
	if err != nil {
		panic(err)
	}
	return blk
}

// ---------------------------------------------------------------- generator

func gen(r *vh.Rand, tier string, n int, emit func(vh.Case)) {
	// vh.NewRand(seed+1) is vh.NewRand(seed) advanced by one draw: fork once so that
	// consecutive seeds do not give the same cases shifted by one.
	base := r.Fork()
	for i := 0; i < n; i++ {
		emit(genCase(base.Fork(), tier, i))
	}
}

// cidLine declares pool CID k of the given kind/size with the parameters observed on the real CID.
func cidLine(k int, kind string, size int) string {
	blk := makeBlock(k, kind, size)
	return fmt.Sprintf("cid %d %s %d %d %d", k, kind, size, blk.Cid().ByteLen(), bsmsg.BlockPresenceSize(blk.Cid()))
}

// genOverflowProfile: a FULL want-list whose m >= 2 lowest-priority wants have no local block (adjacent at the
// start of handleOverflow's ascending list) and whose other wants have blocks, then one message with more
// newcomers (all with blocks) than block-less wants: the first loop evicts the block-less wants, the second
// loop must go on with the lowest-priority wants that have blocks.
func genOverflowProfile(r *vh.Rand, id int) vh.Case {
	c := vh.Case{ID: strconv.Itoa(id)}
	limit := r.Range(3, 7)
	m := r.Range(2, limit-1)  // block-less existing wants
	nn := r.Range(m+1, limit) // newcomers
	ncid := limit + nn + r.Intn(2)
	c.Ops = append(c.Ops, fmt.Sprintf("cfg %d %d %d %d %d %d %d", limit, vh.Pick(r, []int{0, 5, 1024}), r.Intn(2), vh.Pick(r, []int{8, 80, 16384}), 0, r.Range(0, 8), r.Range(1, 16)))
	for k := 0; k < ncid; k++ {
		c.Ops = append(c.Ops, cidLine(k, "n", vh.Pick(r, []int{3, 8, 10, 20, 30})))
	}
	// existing wants 0..limit-1: ascending priorities (sometimes with ties), the m lowest without block
	prio := make([]int, limit)
	p := r.Range(-1, 2)
	for k := range prio {
		prio[k] = p
		if !r.Chance(1, 5) {
			p += r.Range(1, 2)
		}
	}
	for k := m; k < limit+nn; k++ {
		c.Ops = append(c.Ops, fmt.Sprintf("add %d", k))
	}
	ty := func() string { return vh.Pick(r, []string{"B", "B", "H"}) }
	var es []string
	for _, k := range shuffled(r, limit) {
		es = append(es, fmt.Sprintf("%d/%d/%s/0/%d", k, prio[k], ty(), r.Intn(2)))
	}
	c.Ops = append(c.Ops, "msg 0 0 "+strings.Join(es, " "))
	if r.Chance(1, 3) {
		c.Ops = append(c.Ops, vh.Pick(r, []string{"drain", "msg 1 0 0/3/B/0/1", "rm " + strconv.Itoa(limit-1)}))
	}
	// newcomers: mostly at least as important as every existing want, sometimes in between
	top := prio[limit-1]
	es = nil
	for j := 0; j < nn; j++ {
		np := top + r.Range(0, 6)
		if r.Chance(1, 6) {
			np = prio[r.Intn(limit)]
		}
		es = append(es, fmt.Sprintf("%d/%d/%s/0/%d", limit+j, np, ty(), r.Intn(2)))
	}
	c.Ops = append(c.Ops, "msg 0 0 "+strings.Join(es, " "))
	c.Ops = append(c.Ops, "drain")
	return c
}

func shuffled(r *vh.Rand, n int) []int {
	perm := make([]int, n)
	for j := range perm {
		perm[j] = j
	}
	for j := n - 1; j > 0; j-- {
		q := r.Intn(j + 1)
		perm[j], perm[q] = perm[q], perm[j]
	}
	return perm
}

// genUpgradeProfile: want-have c (block larger than the replace size, so a HAVE is sent); the HAVE is popped;
// the peer upgrades to want-block c BEFORE the HAVE is acked; ack; the block is deleted before the block task is
// popped (DONT_HAVE or nothing is sent); that envelope is acked; the block is stored again (+ NotifyNewBlocks):
// the want-block is still on the want-list and must now be served.
func genUpgradeProfile(r *vh.Rand, id int) vh.Case {
	c := vh.Case{ID: strconv.Itoa(id)}
	limit := r.Range(2, 6)
	sdh := r.Intn(2)
	c.Ops = append(c.Ops, fmt.Sprintf("cfg %d %d %d %d %d %d %d", limit, vh.Pick(r, []int{5, 10}), 1, 16384, 0, r.Range(1, 8), r.Range(1, 16)))
	c.Ops = append(c.Ops, cidLine(0, "n", vh.Pick(r, []int{15, 20, 30, 60})), cidLine(1, "n", 8), cidLine(2, "n", 30))
	p := r.Intn(3)
	noise := func() {
		if r.Chance(1, 3) {
			c.Ops = append(c.Ops, vh.Pick(r, []string{"add 1", "add 2", fmt.Sprintf("msg %d 0 1/2/B/0/1", (p+1)%3), fmt.Sprintf("msg %d 0 2/1/H/0/0", p), "rm 2"}))
		}
	}
	c.Ops = append(c.Ops, "add 0")
	noise()
	c.Ops = append(c.Ops, fmt.Sprintf("msg %d 0 0/%d/H/0/%d", p, r.Range(0, 5), sdh))
	c.Ops = append(c.Ops, "pop")
	c.Ops = append(c.Ops, fmt.Sprintf("msg %d 0 0/%d/B/0/%d", p, r.Range(0, 5), sdh))
	c.Ops = append(c.Ops, "ack 0")
	if r.Chance(1, 2) {
		c.Ops = append(c.Ops, "rm 0", "pop")
		if r.Chance(3, 4) {
			c.Ops = append(c.Ops, "ack 0")
		}
		noise()
		c.Ops = append(c.Ops, "add 0")
	}
	c.Ops = append(c.Ops, "drain")
	return c
}

// genWorkerProfile: the engine's own comparator and the REAL task worker: messages and block additions (no
// removals, so no message comes out empty), drained through Engine.Outbox() at random points.
func genWorkerProfile(r *vh.Rand, id int) vh.Case {
	c := vh.Case{ID: strconv.Itoa(id)}
	limit := r.Range(2, 8)
	ncid := r.Range(3, 8)
	c.Ops = append(c.Ops, fmt.Sprintf("cfg %d %d %d %d %d 0 %d", limit, vh.Pick(r, []int{0, 5, 1024}), r.Intn(2), vh.Pick(r, []int{1, 20, 16384}), 0, r.Range(1, 16)))
	for k := 0; k < ncid; k++ {
		size := vh.Pick(r, []int{3, 8, 10, 20, 30})
		if k == 0 && r.Chance(1, 4) {
			size = 0 // at most one empty block: two would be the same CID
		}
		c.Ops = append(c.Ops, cidLine(k, "n", size))
	}
	for k := 0; k < ncid; k++ {
		if r.Chance(1, 2) {
			c.Ops = append(c.Ops, fmt.Sprintf("add %d", k))
		}
	}
	for i, m := 0, r.Range(3, 10); i < m; i++ {
		switch x := r.Intn(10); {
		case x < 5:
			var es []string
			for _, k := range shuffled(r, ncid)[:r.Range(1, min(ncid, limit))] {
				es = append(es, fmt.Sprintf("%d/%d/%s/%d/%d", k, r.Range(0, 4), vh.Pick(r, []string{"B", "H"}), b2i(r.Chance(1, 8)), r.Intn(2)))
			}
			c.Ops = append(c.Ops, fmt.Sprintf("msg %d %d %s", r.Intn(3), b2i(r.Chance(1, 5)), strings.Join(es, " ")))
		case x < 7:
			c.Ops = append(c.Ops, fmt.Sprintf("add %d", r.Intn(ncid)))
		default:
			c.Ops = append(c.Ops, "wdrain")
		}
	}
	c.Ops = append(c.Ops, "wdrain")
	return c
}

func b2i(b bool) int {
	if b {
		return 1
	}
	return 0
}

// genDontHaveProfile: a want with send-dont-have for an absent block; the block is stored (+ NotifyNewBlocks) and
// deleted again BEFORE the task is popped: the DONT_HAVE is still owed.
func genDontHaveProfile(r *vh.Rand, id int) vh.Case {
	c := vh.Case{ID: strconv.Itoa(id)}
	c.Ops = append(c.Ops, fmt.Sprintf("cfg %d %d 1 %d 0 %d %d", r.Range(2, 6), vh.Pick(r, []int{0, 5, 1024}), vh.Pick(r, []int{8, 16384}), r.Range(0, 8), r.Range(1, 16)))
	c.Ops = append(c.Ops, cidLine(0, "n", vh.Pick(r, []int{3, 10, 30})), cidLine(1, "n", 8))
	p := r.Intn(3)
	if r.Chance(1, 3) {
		c.Ops = append(c.Ops, "add 1", fmt.Sprintf("msg %d 0 1/1/B/0/0", (p+1)%3))
	}
	c.Ops = append(c.Ops, fmt.Sprintf("msg %d %d 0/%d/%s/0/1", p, r.Intn(2), r.Range(0, 5), vh.Pick(r, []string{"B", "H"})))
	for i, m := 0, r.Range(1, 2); i < m; i++ {
		c.Ops = append(c.Ops, "add 0", "rm 0")
	}
	c.Ops = append(c.Ops, "drain")
	return c
}

func genCase(r *vh.Rand, tier string, id int) vh.Case {
	switch r.Intn(16) {
	case 4:
		return genDontHaveProfile(r, id)
	case 0, 1:
		return genOverflowProfile(r, id)
	case 2:
		return genUpgradeProfile(r, id)
	case 3:
		return genWorkerProfile(r, id)
	}
	c := vh.Case{ID: strconv.Itoa(id)}
	limit := r.Range(1, 4)
	switch r.Intn(6) {
	case 0:
		limit = r.Range(5, 12)
	case 1:
		limit = r.Range(13, 32)
	}
	replace := vh.Pick(r, []int{0, 0, 5, 10, 20, 1024})
	sdh := 1
	if r.Chance(1, 6) {
		sdh = 0
	}
	target := vh.Pick(r, []int{1, 8, 20, 40, 80, 16384})
	maxcid := vh.Pick(r, []int{50, 50, 50, 0, 100})
	cmp := r.Range(1, 8)
	if r.Chance(1, 5) {
		cmp = 0
	}
	tiemul := r.Range(1, 16)
	c.Ops = append(c.Ops, fmt.Sprintf("cfg %d %d %d %d %d %d %d", limit, replace, sdh, target, maxcid, cmp, tiemul))
	ncid := r.Range(3, 8)
	if limit > 4 {
		ncid = min(16, limit+r.Range(1, 6))
	}
	zeroUsed := false
	for k := 0; k < ncid; k++ {
		kind := "n"
		size := vh.Pick(r, []int{1, 3, 5, 8, 10, 15, 20, 30, 60})
		switch {
		case r.Chance(1, 12):
			kind = "b"
		case r.Chance(1, 12):
			kind = "i"
			size = r.Range(1, 6)
		case !zeroUsed && r.Chance(1, 25):
			size = 0
			zeroUsed = true
		}
		blk := makeBlock(k, kind, size)
		c.Ops = append(c.Ops, fmt.Sprintf("cid %d %s %d %d %d", k, kind, size, blk.Cid().ByteLen(), bsmsg.BlockPresenceSize(blk.Cid())))
	}
	npeers := r.Range(1, 3)
	if r.Chance(1, 3) {
		for k, m := 0, r.Range(1, 3); k < m; k++ {
			c.Ops = append(c.Ops, fmt.Sprintf("deny %d %d", r.Intn(npeers), r.Intn(ncid)))
		}
	}
	// initial store content
	for k := 0; k < ncid; k++ {
		if r.Chance(3, 5) {
			c.Ops = append(c.Ops, fmt.Sprintf("add %d", k))
		}
	}
	nops := r.Range(3, 14)
	if tier == "thorough" {
		nops = r.Range(3, 30)
	}
	prios := []int{0, 1, 1, 2, 3, 5, 5, -1, 2147483647}
	for k := 0; k < nops; k++ {
		x := r.Intn(100)
		switch {
		case x < 48:
			full := 0
			if r.Chance(1, 4) {
				full = 1
			}
			ne := r.Range(1, min(ncid, limit+3))
			if r.Chance(1, 10) {
				ne = 0
			}
			perm := make([]int, ncid)
			for j := range perm {
				perm[j] = j
			}
			for j := ncid - 1; j > 0; j-- {
				q := r.Intn(j + 1)
				perm[j], perm[q] = perm[q], perm[j]
			}
			var es []string
			for j := 0; j < ne; j++ {
				ci := perm[j]
				t := "B"
				if r.Chance(2, 5) {
					t = "H"
				}
				cancel := 0
				if r.Chance(1, 6) {
					cancel = 1
				}
				d := 0
				if r.Chance(3, 5) {
					d = 1
				}
				es = append(es, fmt.Sprintf("%d/%d/%s/%d/%d", ci, vh.Pick(r, prios), t, cancel, d))
			}
			if len(es) > 0 && r.Chance(1, 15) {
				// the same CID twice in one message with the SAME cancel flag (the bsmsg decoder would merge them;
				// a custom BitSwapMessage need not): still wire-shaped in the sense of Op.WF
				x := strings.Split(es[r.Intn(len(es))], "/")
				x[1] = strconv.Itoa(vh.Pick(r, prios))
				x[2] = vh.Pick(r, []string{"B", "H"})
				es = append(es, strings.Join(x, "/"))
			}
			c.Ops = append(c.Ops, strings.TrimSpace(fmt.Sprintf("msg %d %d %s", r.Intn(npeers), full, strings.Join(es, " "))))
		case x < 58:
			c.Ops = append(c.Ops, fmt.Sprintf("add %d", r.Intn(ncid)))
		case x < 66:
			c.Ops = append(c.Ops, fmt.Sprintf("rm %d", r.Intn(ncid)))
		case x < 82:
			if cmp == 0 {
				c.Ops = append(c.Ops, "drain")
			} else {
				c.Ops = append(c.Ops, "pop")
			}
		case x < 92:
			if cmp == 0 {
				c.Ops = append(c.Ops, "drain")
			} else {
				c.Ops = append(c.Ops, fmt.Sprintf("ack %d", r.Intn(3)))
			}
		case x < 95:
			c.Ops = append(c.Ops, fmt.Sprintf("disc %d", r.Intn(npeers)))
		default:
			c.Ops = append(c.Ops, "drain")
		}
	}
	c.Ops = append(c.Ops, "drain")
	return c
}

// ---------------------------------------------------------------- message with a fixed entry order

type scriptMsg struct {
	bsmsg.BitSwapMessage // an empty real message: every method not overridden answers as for an empty message
	full                 bool
	entries              []bsmsg.Entry
}

func (m *scriptMsg) Full() bool  { return m.full }
func (m *scriptMsg) Empty() bool { return len(m.entries) == 0 }
func (m *scriptMsg) Wantlist() []bsmsg.Entry {
	return append([]bsmsg.Entry(nil), m.entries...)
}

type nopTagger struct{}

func (nopTagger) TagPeer(peer.ID, string, int) {}
func (nopTagger) UntagPeer(peer.ID, string)    {}

// ---------------------------------------------------------------- exec

type cidInfo struct {
	blk      blocks.Block
	kind     string
	size     int
	identity bool
}

type outEnv struct {
	id  int
	env *vd.Envelope
}

type st struct {
	o      *vh.Out
	e      *vd.Engine
	bs     blockstore.Blockstore
	limit  int
	maxcid int
	cmp    int
	pool   map[int]*cidInfo
	idx    map[cid.Cid]int
	denied map[[2]int]bool
	outst  []outEnv
	nextID int
	// monitor ghosts, kept independently of the engine
	want        map[int]map[int]bool // protocol-level want-list (superset of any correct ledger)
	askedDH     map[[2]int]bool
	sawAbsent   map[[2]int]bool
	sawPresent  map[[2]int]bool
	sentAnyNT   bool
	overflowed  bool
	truncRisk   map[int]bool                          // the queue bound may have dropped pushed tasks of this peer
	prevLedger  map[peer.ID]map[cid.Cid]vd.VerifEntry // ledger after the previous op
	dangling    <-chan *vd.Envelope                   // outbox slot taken from the real worker, envelope not yet produced
	dhOwed      map[[2]int]bool                       // a want with send-dont-have created the peer's only task for an absent block: a DONT_HAVE (or the block / a HAVE) is owed
	lostRisk    map[[2]int]bool                       // block (re-)added while a DONT_HAVE sent in place of the block was still un-acked
	fullCleared bool
}

func pid(i int) peer.ID  { return peer.ID("p" + strconv.Itoa(i)) }
func pidx(p peer.ID) int { return vh.Atoi(string(p)[1:]) }

func (s *st) has(ci int) bool {
	ok, _ := s.bs.Has(context.Background(), s.pool[ci].blk.Cid())
	return ok
}

func tstr(t pb.Message_Wantlist_WantType) string {
	if t == pb.Message_Wantlist_Have {
		return "H"
	}
	return "B"
}

func (s *st) digest() string {
	ps, cs := s.e.VerifLedger()
	var lp []string
	var pis []int
	for p := range ps {
		pis = append(pis, pidx(p))
	}
	sort.Ints(pis)
	for _, pi := range pis {
		m := ps[pid(pi)]
		var es []string
		var cis []int
		for c := range m {
			cis = append(cis, s.idx[c])
		}
		sort.Ints(cis)
		for _, ci := range cis {
			en := m[s.pool[ci].blk.Cid()]
			es = append(es, fmt.Sprintf("%d:%d:%s", ci, en.Priority, tstr(en.WantType)))
		}
		lp = append(lp, fmt.Sprintf("p%d{%s}", pi, strings.Join(es, ",")))
	}
	var lc []string
	var cis []int
	for c := range cs {
		cis = append(cis, s.idx[c])
	}
	sort.Ints(cis)
	for _, ci := range cis {
		m := cs[s.pool[ci].blk.Cid()]
		var es []string
		var pis []int
		for p := range m {
			pis = append(pis, pidx(p))
		}
		sort.Ints(pis)
		for _, pi := range pis {
			en := m[pid(pi)]
			es = append(es, fmt.Sprintf("p%d:%d:%s", pi, en.Priority, tstr(en.WantType)))
		}
		lc = append(lc, fmt.Sprintf("%d{%s}", ci, strings.Join(es, ",")))
	}
	var lq []string
	for pi := 0; pi < 3; pi++ {
		pend, act := s.e.VerifQueueTopics(pid(pi))
		if len(pend) == 0 && len(act) == 0 {
			continue
		}
		lq = append(lq, fmt.Sprintf("p%d[%s;%s]", pi, s.cidList(pend), s.cidList(act)))
	}
	return fmt.Sprintf(" | L %s | C %s | Q %s", strings.Join(lp, " "), strings.Join(lc, " "), strings.Join(lq, " "))
}

func (s *st) cidList(cs []cid.Cid) string {
	var is []int
	for _, c := range cs {
		is = append(is, s.idx[c])
	}
	sort.Ints(is)
	ss := make([]string, len(is))
	for i, x := range is {
		ss[i] = strconv.Itoa(x)
	}
	return strings.Join(ss, ",")
}

// invariants evaluated after every op, directly on the engine's state
func (s *st) checkState() {
	ps, cs := s.e.VerifLedger()
	for p, m := range ps {
		for c, en := range m {
			if e2, ok := cs[c][p]; !ok || e2 != en {
				s.o.Fail("ledger-inconsistent", "peers[%s][%d]=%v but cids side has %v (present=%v)", p, s.idx[c], en, e2, ok)
			}
			if !s.want[pidx(p)][s.idx[c]] {
				s.o.Fail("stale-want-in-ledger", "WantlistForPeer(%s) holds %d which the peer no longer wants", p, s.idx[c])
			}
		}
		if s.limit > 0 && len(m) > s.limit {
			s.o.Fail("wantlist-over-limit", "peer %s has %d wants, limit %d", p, len(m), s.limit)
		}
		// the public accessor agrees with the dump
		if got := s.e.WantlistForPeer(p); len(got) != len(m) {
			s.o.Fail("wantlist-accessor", "WantlistForPeer(%s) has %d entries, ledger map %d", p, len(got), len(m))
		}
	}
	// the public accessors Peers / HasPeer agree with the per-peer map
	pl := s.e.Peers()
	if len(pl) != len(ps) {
		s.o.Fail("peers-accessor", "Peers() lists %d peers, the ledger has %d", len(pl), len(ps))
	}
	for _, p := range pl {
		if _, ok := ps[p]; !ok || !s.e.HasPeer(p) {
			s.o.Fail("peers-accessor", "Peers() lists %s, ledger map present=%v HasPeer=%v", p, ok, s.e.HasPeer(p))
		}
	}
	for pi := 0; pi < 3; pi++ {
		if _, ok := ps[pid(pi)]; ok != s.e.HasPeer(pid(pi)) {
			s.o.Fail("peers-accessor", "HasPeer(p%d)=%v but ledger map present=%v", pi, s.e.HasPeer(pid(pi)), ok)
		}
	}
	for c, m := range cs {
		for p, en := range m {
			if e2, ok := ps[p][c]; !ok || e2 != en {
				s.o.Fail("ledger-inconsistent", "cids[%d][%s]=%v but peers side has %v (present=%v)", s.idx[c], p, en, e2, ok)
			}
		}
	}
	for pi := 0; pi < 3; pi++ {
		pend, _ := s.e.VerifQueueTopics(pid(pi))
		if len(pend) > s.limit {
			s.o.Fail("queue-over-limit", "peer p%d has %d pending tasks, limit %d", pi, len(pend), s.limit)
		}
	}
}

// monitor: a want leaves a peer's want-list only through a message of that peer (cancel, full list, overflow),
// its disconnect, or the acknowledgement of an envelope (checked in detail by checkAck)
func (s *st) checkVanished(f []string) {
	now, _ := s.e.VerifLedger()
	for p, m := range s.prevLedger {
		allowed := f[0] == "ack" || f[0] == "drain" || f[0] == "wdrain" ||
			((f[0] == "msg" || f[0] == "disc") && len(f) > 1 && pid(vh.Atoi(f[1])) == p)
		if allowed {
			continue
		}
		for c := range m {
			if _, ok := now[p][c]; !ok {
				s.o.Fail("want-vanished-from-ledger", "op %q removed want %d from the want-list of %s", f[0], s.idx[c], p)
			}
		}
	}
	s.prevLedger = now
}

type sent struct{ blocks, haves, donthaves []int }

func (s *st) envContents(env *vd.Envelope) sent {
	var r sent
	for _, b := range env.Message.Blocks() {
		r.blocks = append(r.blocks, s.idx[b.Cid()])
	}
	for _, c := range env.Message.Haves() {
		r.haves = append(r.haves, s.idx[c])
	}
	for _, c := range env.Message.DontHaves() {
		r.donthaves = append(r.donthaves, s.idx[c])
	}
	sort.Ints(r.blocks)
	sort.Ints(r.haves)
	sort.Ints(r.donthaves)
	return r
}

func ints(xs []int) string {
	ss := make([]string, len(xs))
	for i, x := range xs {
		ss[i] = strconv.Itoa(x)
	}
	return "[" + strings.Join(ss, ",") + "]"
}

// monitor: the property's send clauses, evaluated on one envelope at send time
func (s *st) checkEnvelope(p int, r sent) {
	for _, l := range [][]int{r.blocks, r.haves, r.donthaves} {
		for _, ci := range l {
			delete(s.dhOwed, [2]int{p, ci})
		}
	}
	for _, ci := range r.blocks {
		k := [2]int{p, ci}
		if !s.has(ci) {
			s.o.Fail("sent-absent-block", "block %d sent to p%d is not in the blockstore", ci, p)
		}
		if !s.want[p][ci] {
			s.o.Fail("sent-unwanted", "block %d sent to p%d which does not want it (cancelled or replaced by a full want-list)", ci, p)
		}
		if s.denied[k] {
			s.o.Fail("sent-denied", "block %d sent to p%d against the request filter", ci, p)
		}
		s.o.Kind("send-block")
	}
	for _, ci := range r.haves {
		k := [2]int{p, ci}
		if !s.sawPresent[k] {
			s.o.Fail("have-for-absent", "HAVE %d sent to p%d but the block was never present while wanted", ci, p)
		}
		if !s.want[p][ci] {
			s.o.Fail("sent-unwanted", "HAVE %d sent to p%d which does not want it", ci, p)
		}
		if s.denied[k] {
			s.o.Fail("sent-denied", "HAVE %d sent to p%d against the request filter", ci, p)
		}
		s.o.Kind("send-have")
	}
	for _, ci := range r.donthaves {
		k := [2]int{p, ci}
		if !s.askedDH[k] {
			s.o.Fail("donthave-not-requested", "DONT_HAVE %d sent to p%d which never asked for it", ci, p)
		}
		if !(s.sawAbsent[k] || s.denied[k] || !s.has(ci)) {
			if s.pool[ci].size == 0 {
				s.o.Fail("donthave-for-present-empty-block", "DONT_HAVE %d sent to p%d but the (zero-length) block was in the store all along", ci, p)
			} else {
				s.o.Fail("donthave-for-present", "DONT_HAVE %d sent to p%d but the block was in the store all along", ci, p)
			}
		}
		s.o.Kind("send-donthave")
	}
}

func containsCid(cs []cid.Cid, c cid.Cid) bool {
	for _, x := range cs {
		if x == c {
			return true
		}
	}
	return false
}

func (s *st) inOutstanding(p peer.ID, c cid.Cid) bool {
	for _, oe := range s.outst {
		if oe.env.Peer != p {
			continue
		}
		for _, b := range oe.env.Message.Blocks() {
			if b.Cid() == c {
				return true
			}
		}
		for _, bp := range oe.env.Message.BlockPresences() {
			if bp.Cid == c {
				return true
			}
		}
	}
	return false
}

func (s *st) anyPending() bool {
	for p := 0; p < 3; p++ {
		if pend, _ := s.e.VerifQueueTopics(pid(p)); len(pend) > 0 {
			return true
		}
	}
	return false
}

// workerNext takes the next envelope from the REAL task worker through Engine.Outbox(); nil when nothing is
// pending. An outbox slot is only taken while tasks are pending, so the worker is parked at the outbox (not inside
// nextEnvelope) between ops and cannot pop behind the harness's back.
func (s *st) workerNext() *vd.Envelope {
	for {
		if !s.anyPending() && s.dangling == nil {
			return nil
		}
		next := s.dangling
		s.dangling = nil
		if next == nil {
			select {
			case next = <-s.e.Outbox():
			case <-time.After(5 * time.Second):
				s.o.Fail("worker-not-at-outbox", "tasks are pending but no task worker offered an outbox slot within 5s")
				return nil
			}
		}
		wait := 5 * time.Second
		if !s.anyPending() {
			wait = 200 * time.Millisecond
		}
		select {
		case env, ok := <-next:
			if !ok || env == nil {
				continue
			}
			s.outst = append(s.outst, outEnv{s.nextID, env})
			s.nextID++
			return env
		case <-time.After(wait):
			s.dangling = next
			if s.anyPending() {
				s.o.Fail("worker-stuck-with-pending-tasks", "tasks are pending, the worker holds an outbox slot, and no envelope came within 5s (lost wake-up?)")
			}
			return nil
		}
	}
}

func (s *st) pop() (int, *vd.Envelope) {
	env := s.e.VerifNextEnvelope()
	if env == nil {
		return -1, nil
	}
	id := s.nextID
	s.nextID++
	s.outst = append(s.outst, outEnv{id, env})
	return id, env
}

// monitor for MessageSent: the acknowledgement of an envelope may take a want off the peer's want-list only if
// the envelope answered it: it carried the block, or it carried a HAVE and the want is (still) a want-have.
func (s *st) checkAck(oe outEnv, before map[cid.Cid]vd.VerifEntry) {
	after, _ := s.e.VerifLedger()
	blocksSent, havesSent := map[cid.Cid]bool{}, map[cid.Cid]bool{}
	for _, b := range oe.env.Message.Blocks() {
		blocksSent[b.Cid()] = true
	}
	for _, c := range oe.env.Message.Haves() {
		havesSent[c] = true
	}
	for c, en := range before {
		if _, still := after[oe.env.Peer][c]; still {
			continue
		}
		if blocksSent[c] || (havesSent[c] && en.WantType == pb.Message_Wantlist_Have) {
			continue
		}
		s.o.Fail("messagesent-dropped-unanswered-want", "ack of envelope %d took want %d (%s) of %s off the want-list although the envelope did not answer it (HAVE sent: %v)",
			oe.id, s.idx[c], tstr(en.WantType), oe.env.Peer, havesSent[c])
	}
}

func (s *st) ack(k int) {
	oe := s.outst[k]
	ps, _ := s.e.VerifLedger()
	before := ps[oe.env.Peer]
	defer s.checkAck(oe, before)
	s.outst = append(s.outst[:k:k], s.outst[k+1:]...)
	s.e.MessageSent(oe.env.Peer, oe.env.Message)
	oe.env.Sent()
	p := pidx(oe.env.Peer)
	for _, b := range oe.env.Message.Blocks() {
		delete(s.want[p], s.idx[b.Cid()])
	}
}

func exec(c vh.Case, o *vh.Out) {
	s := &st{o: o, pool: map[int]*cidInfo{}, idx: map[cid.Cid]int{}, denied: map[[2]int]bool{},
		want: map[int]map[int]bool{0: {}, 1: {}, 2: {}}, truncRisk: map[int]bool{}, lostRisk: map[[2]int]bool{}, dhOwed: map[[2]int]bool{}, askedDH: map[[2]int]bool{}, sawAbsent: map[[2]int]bool{}, sawPresent: map[[2]int]bool{}}
	defer func() {
		if s.e != nil {
			s.e.Close()
		}
	}()
	var cfg []string
	ensure := func() bool {
		if s.e != nil {
			return true
		}
		if cfg == nil {
			return false
		}
		limit, replace, sdh, target, maxcid, cmpk, tiemul := vh.Atoi(cfg[0]), vh.Atoi(cfg[1]), vh.Atoi(cfg[2]), vh.Atoi(cfg[3]), vh.Atoi(cfg[4]), vh.Atoi(cfg[5]), vh.Atoi(cfg[6])
		s.limit, s.maxcid, s.cmp = limit, maxcid, cmpk
		s.bs = blockstore.NewBlockstore(dssync.MutexWrap(ds.NewMapDatastore()))
		opts := []vd.Option{
			vd.WithMaxQueuedWantlistEntriesPerPeer(uint(limit)), vd.WithWantHaveReplaceSize(replace), vd.WithSetSendDontHave(sdh == 1),
			vd.WithTargetMessageSize(target), vd.WithMaxCidSize(uint(maxcid)), vd.WithBlockstoreWorkerCount(2), vd.WithTaskWorkerCount(1),
			vd.WithMaxOutstandingBytesPerPeer(0),
			vd.WithPeerBlockRequestFilter(func(p peer.ID, c cid.Cid) bool { return !s.denied[[2]int{pidx(p), s.idx[c]}] }),
		}
		if cmpk > 0 {
			b := cmpk - 1
			key := func(t *vd.TaskInfo) (int, int) {
				p, ci := pidx(t.Peer), s.idx[t.Cid]
				if b&1 != 0 {
					p = -p
				}
				if b&2 != 0 {
					ci = -ci
				}
				if b&4 != 0 {
					return ci, p
				}
				return p, ci
			}
			opts = append(opts, vd.WithTaskComparator(func(ta, tb *vd.TaskInfo) bool {
				a1, a2 := key(ta)
				b1, b2 := key(tb)
				return a1 < b1 || (a1 == b1 && a2 < b2)
			}))
		}
		vd.SetTieKey(func(c cid.Cid) int { return (s.idx[c]*tiemul + 3) % 17 })
		s.e = vd.NewEngine(context.Background(), s.bs, nopTagger{}, peer.ID("self"), opts...)
		if tiemul%2 == 1 {
			s.e.SetSendDontHaves(sdh == 1) // the setter instead of (on top of) the option: same value
		}
		return true
	}
	for _, line := range c.Ops {
		f := strings.Fields(line)
		if len(f) == 0 {
			o.Emit("bad-op")
			continue
		}
		switch {
		case f[0] == "cfg" && len(f) == 8 && s.e == nil:
			cfg = f[1:]
			o.Kind("cmp" + f[6])
			o.Emit("ok")
			continue
		case f[0] == "cid" && len(f) == 6 && s.e == nil:
			i, size := vh.Atoi(f[1]), vh.Atoi(f[3])
			blk := makeBlock(i, f[2], size)
			if blk.Cid().ByteLen() != vh.Atoi(f[4]) || bsmsg.BlockPresenceSize(blk.Cid()) != vh.Atoi(f[5]) {
				panic("cid line does not match the real CID: " + line)
			}
			if _, dup := s.idx[blk.Cid()]; dup {
				panic("two pool indices with the same CID: " + line)
			}
			s.pool[i] = &cidInfo{blk: blk, kind: f[2], size: size, identity: f[2] == "i"}
			s.idx[blk.Cid()] = i
			o.Emit("ok")
			continue
		case f[0] == "deny" && len(f) == 3 && s.e == nil:
			s.denied[[2]int{vh.Atoi(f[1]), vh.Atoi(f[2])}] = true
			o.Kind("deny")
			o.Emit("ok")
			continue
		}
		if !ensure() {
			o.Emit("bad-op")
			continue
		}
		res := "ok"
		switch f[0] {
		case "msg":
			p, full := vh.Atoi(f[1]), f[2] == "1"
			m := &scriptMsg{BitSwapMessage: bsmsg.New(full), full: full}
			bad := false
			for _, t := range f[3:] {
				x := strings.Split(t, "/")
				if len(x) != 5 || s.pool[vh.Atoi(x[0])] == nil {
					bad = true
					break
				}
				ty := pb.Message_Wantlist_Block
				if x[2] == "H" {
					ty = pb.Message_Wantlist_Have
				}
				m.entries = append(m.entries, bsmsg.Entry{Entry: wl.Entry{Cid: s.pool[vh.Atoi(x[0])].blk.Cid(), Priority: int32(vh.Atoi(x[1])), WantType: ty},
					Cancel: x[3] == "1", SendDontHave: x[4] == "1"})
			}
			if bad {
				res = "bad-op"
				break
			}
			// ghosts (protocol level, independent of the engine)
			if full && len(m.entries) > 0 {
				if len(s.want[p]) > 0 {
					o.Kind("full-replaces")
					s.fullCleared = true
				}
				s.want[p] = map[int]bool{}
			}
			for k := range s.lostRisk {
				// a lost block-arrival notification is superseded by a fresh lookup: any later entry of the
				// peer for that CID, or a full want-list
				if k[0] != p {
					continue
				}
				if full && len(m.entries) > 0 {
					delete(s.lostRisk, k)
				}
				for _, en := range m.entries {
					if s.idx[en.Cid] == k[1] {
						delete(s.lostRisk, k)
					}
				}
			}
			for _, en := range m.entries {
				ci := s.idx[en.Cid]
				k := [2]int{p, ci}
				info := s.pool[ci]
				if (s.maxcid != 0 && en.Cid.ByteLen() > s.maxcid) || info.identity {
					o.Kind("ignored-cid")
					continue
				}
				if en.Cancel {
					delete(s.want[p], ci)
					o.Kind("cancel")
					continue
				}
				if en.SendDontHave {
					s.askedDH[k] = true
				}
				if s.denied[k] {
					o.Kind("denied")
					continue
				}
				s.want[p][ci] = true
				if s.has(ci) {
					s.sawPresent[k] = true
				} else {
					s.sawAbsent[k] = true
				}
			}
			before := s.e.WantlistForPeer(pid(p))
			pendBefore, actBefore := s.e.VerifQueueTopics(pid(p))
			var owedNow []int
			for _, en := range m.entries {
				ci := s.idx[en.Cid]
				delete(s.dhOwed, [2]int{p, ci}) // any new entry for the CID supersedes what was owed
				if !en.Cancel && en.SendDontHave && !s.has(ci) && !containsCid(pendBefore, en.Cid) && !containsCid(actBefore, en.Cid) {
					owedNow = append(owedNow, ci)
				}
			}
			if full && len(m.entries) > 0 {
				for k := range s.dhOwed {
					if k[0] == p {
						delete(s.dhOwed, k)
					}
				}
			}
			if pend, _ := s.e.VerifQueueTopics(pid(p)); len(pend)+len(m.entries) > s.limit {
				s.truncRisk[p] = true
			}
			if s.e.MessageReceived(context.Background(), pid(p), m) {
				res = "kill"
			}
			s.checkOverflow(p, full, before, m.entries)
			// owed only if the want was accepted and its task really is queued now (not truncated, not merged away)
			pendAfter, _ := s.e.VerifQueueTopics(pid(p))
			ledAfter, _ := s.e.VerifLedger()
			for _, ci := range owedNow {
				c := s.pool[ci].blk.Cid()
				if _, ok := ledAfter[pid(p)][c]; ok && containsCid(pendAfter, c) {
					s.dhOwed[[2]int{p, ci}] = true
				}
			}
			if full {
				o.Kind("msg-full")
			} else {
				o.Kind("msg-incr")
			}
		case "add":
			ci := vh.Atoi(f[1])
			if s.pool[ci] == nil {
				res = "bad-op"
				break
			}
			for p := 0; p < 3; p++ {
				if s.want[p][ci] {
					s.sawPresent[[2]int{p, ci}] = true
				}
				if pend, _ := s.e.VerifQueueTopics(pid(p)); len(pend) >= s.limit {
					s.truncRisk[p] = true
				}
				// a task for ci was popped for p while the block was missing (DONT_HAVE or nothing was sent in
				// its place) and its envelope is still un-acked: the engine will skip this notification
				// (only if p has ci on its want-list now: NotifyNewBlocks looks at nobody else, and a want that
				// arrives later is a fresh lookup, not this notification)
				ledgerNow, _ := s.e.VerifLedger()
				_, onList := ledgerNow[pid(p)][s.pool[ci].blk.Cid()]
				if _, act := s.e.VerifQueueTopics(pid(p)); onList && containsCid(act, s.pool[ci].blk.Cid()) {
					carried := false
					for _, oe := range s.outst {
						if pidx(oe.env.Peer) != p {
							continue
						}
						for _, b := range oe.env.Message.Blocks() {
							if b.Cid() == s.pool[ci].blk.Cid() {
								carried = true
							}
						}
						for _, hc := range oe.env.Message.Haves() {
							if hc == s.pool[ci].blk.Cid() {
								carried = true
							}
						}
					}
					if !carried {
						s.lostRisk[[2]int{p, ci}] = true
					}
				}
			}
			if err := s.bs.Put(context.Background(), s.pool[ci].blk); err != nil {
				panic(err)
			}
			s.e.NotifyNewBlocks([]blocks.Block{s.pool[ci].blk})
			o.Kind("add")
		case "rm":
			ci := vh.Atoi(f[1])
			if s.pool[ci] == nil {
				res = "bad-op"
				break
			}
			if s.has(ci) {
				o.Kind("rm-present")
			}
			if err := s.bs.DeleteBlock(context.Background(), s.pool[ci].blk.Cid()); err != nil {
				panic(err)
			}
		case "pop":
			if s.cmp == 0 {
				res = "bad-op" // pop order of the engine's own comparator is not reproducible; use drain
				break
			}
			id, env := s.pop()
			if env == nil {
				res = "none"
				break
			}
			r := s.envContents(env)
			s.checkEnvelope(pidx(env.Peer), r)
			res = fmt.Sprintf("env %d p%d blocks=%s haves=%s donthaves=%s pend=%d", id, pidx(env.Peer), ints(r.blocks), ints(r.haves), ints(r.donthaves), env.Message.PendingBytes())
			o.Kind("pop")
		case "ack":
			if len(s.outst) == 0 {
				res = "none"
				break
			}
			k := vh.Atoi(f[1]) % len(s.outst)
			res = fmt.Sprintf("acked %d", s.outst[k].id)
			s.ack(k)
			o.Kind("ack")
		case "disc":
			p := vh.Atoi(f[1])
			s.e.PeerDisconnected(pid(p))
			// messages in flight to a disconnected peer fail: Sent() runs, MessageSent does not
			var rest []outEnv
			for _, oe := range s.outst {
				if oe.env.Peer == pid(p) {
					oe.env.Sent()
				} else {
					rest = append(rest, oe)
				}
			}
			s.outst = rest
			s.want[p] = map[int]bool{}
			s.truncRisk[p] = false
			for k := range s.lostRisk {
				if k[0] == p {
					delete(s.lostRisk, k)
				}
			}
			for k := range s.dhOwed {
				if k[0] == p {
					delete(s.dhOwed, k)
				}
			}
			o.Kind("disc")
		case "drain", "wdrain":
			got := map[int]*sent{}
			for guard := 0; ; guard++ {
				if guard > 10000 {
					o.Fail("drain-does-not-terminate", "more than 10000 envelopes in one drain")
					break
				}
				var env *vd.Envelope
				if f[0] == "wdrain" {
					env = s.workerNext()
				} else {
					_, env = s.pop()
				}
				if env == nil {
					break
				}
				r := s.envContents(env)
				p := pidx(env.Peer)
				s.checkEnvelope(p, r)
				if got[p] == nil {
					got[p] = &sent{}
				}
				got[p].blocks = append(got[p].blocks, r.blocks...)
				got[p].haves = append(got[p].haves, r.haves...)
				got[p].donthaves = append(got[p].donthaves, r.donthaves...)
				s.ack(len(s.outst) - 1)
			}
			var parts []string
			for p := 0; p < 3; p++ {
				if g := got[p]; g != nil {
					sort.Ints(g.blocks)
					sort.Ints(g.haves)
					sort.Ints(g.donthaves)
					parts = append(parts, fmt.Sprintf("p%d blocks=%s haves=%s donthaves=%s", p, ints(g.blocks), ints(g.haves), ints(g.donthaves)))
					if len(g.blocks)+len(g.haves) > 0 {
						s.sentAnyNT = true
					}
				}
			}
			// monitor: after a drain nothing is left pending (every queued task was answered)
			for p := 0; p < 3; p++ {
				if pend, _ := s.e.VerifQueueTopics(pid(p)); len(pend) != 0 {
					o.Fail("pending-after-drain", "p%d still has pending tasks %s", p, s.cidList(pend))
				}
			}
			// monitor: every want still on a want-list whose block is in the store was answered
			// (a sent block / matching HAVE removes the want at ack time; nothing is un-acked after a drain
			// except envelopes popped earlier, which are skipped)
			ps, _ := s.e.VerifLedger()
			for pi := 0; pi < 3; pi++ {
				p, m := pid(pi), ps[pid(pi)]
				for ci := 0; ci < len(s.pool); ci++ {
					c := s.pool[ci].blk.Cid()
					if _, ok := m[c]; !ok {
						continue
					}
					if !s.has(ci) || s.inOutstanding(p, c) {
						continue
					}
					sig := "accepted-want-unanswered"
					if s.lostRisk[[2]int{pi, ci}] {
						sig = "want-unserved-after-readd-behind-unacked-task"
					} else if s.truncRisk[pidx(p)] {
						sig = "accepted-want-unanswered-after-queue-truncation"
					}
					s.o.Fail(sig, "%s wants %d (%s), the block is in the store, the queue is empty and the want was not served", p, ci, tstr(m[c].WantType))
				}
			}
			// monitor: a DONT_HAVE that is owed (the peer asked with send-dont-have for a block that was absent, the
			// engine queued the task for it, the want is still on the list) was sent by now if the block is absent
			for k := range s.dhOwed {
				p, ci := k[0], k[1]
				c := s.pool[ci].blk.Cid()
				if _, on := ps[pid(p)][c]; !on || s.has(ci) || s.inOutstanding(pid(p), c) || s.truncRisk[p] || s.denied[k] {
					continue
				}
				s.o.Fail("donthave-request-lost", "p%d asked for %d with send-dont-have, its task was queued, the block is absent, the queue is empty: neither DONT_HAVE nor anything else was sent", p, ci)
			}
			res = "drained " + strings.Join(parts, " ; ")
			o.Kind(f[0])
		default:
			res = "bad-op"
		}
		s.checkState()
		s.checkVanished(f)
		o.Emit("%s%s", res, s.digest())
	}
	if s.sentAnyNT && (s.overflowed || s.fullCleared) {
		o.Nontrivial()
	}
}

// monitor for the overflow clause: computed from the want-list before and after one message, the message
// itself and the store, without looking at how the engine got there. Only wants the message does not
// mention are used as witnesses (their priority is unambiguous).
func (s *st) checkOverflow(p int, full bool, before []wl.Entry, entries []bsmsg.Entry) {
	if full {
		return // a full message legitimately drops everything that was on the list before
	}
	inAfter := map[int]wl.Entry{}
	for _, en := range s.e.WantlistForPeer(pid(p)) {
		inAfter[s.idx[en.Cid]] = en
	}
	inBefore := map[int]wl.Entry{}
	for _, en := range before {
		inBefore[s.idx[en.Cid]] = en
	}
	mentioned := map[int]int{}
	permitted := 0
	for _, en := range entries {
		mentioned[s.idx[en.Cid]]++
	}
	dup := false
	for _, n := range mentioned {
		if n > 1 {
			dup = true
		}
	}
	hasBlk := func(ci int) bool { return s.has(ci) }
	var accepted, rejected []wl.Entry
	for _, en := range entries {
		ci := s.idx[en.Cid]
		if en.Cancel || (s.maxcid != 0 && en.Cid.ByteLen() > s.maxcid) || s.pool[ci].identity || s.denied[[2]int{p, ci}] {
			continue
		}
		permitted++
		if _, was := inBefore[ci]; was {
			continue
		}
		if _, ok := inAfter[ci]; ok {
			accepted = append(accepted, en.Entry)
		} else {
			rejected = append(rejected, en.Entry)
		}
	}
	var evicted, kept []wl.Entry // old wants the message does not mention
	for ci, en := range inBefore {
		if mentioned[ci] > 0 {
			continue
		}
		if _, ok := inAfter[ci]; ok {
			kept = append(kept, en)
		} else {
			evicted = append(evicted, en)
		}
	}
	if len(evicted) > 0 {
		s.overflowed = true
		s.o.Kind("overflow-evict")
		// an evicted want is cancelled: its queued task must be gone too (handleOverflow: CancelWant + Remove)
		pend, _ := s.e.VerifQueueTopics(pid(p))
		for _, ev := range evicted {
			if containsCid(pend, ev.Cid) {
				s.o.Fail("evicted-want-still-queued", "p%d: want %d was evicted by the want-list overflow but its task is still queued (it will be served)", p, s.idx[ev.Cid])
			}
		}
	}
	if len(rejected) > 0 {
		s.overflowed = true
		s.o.Kind("overflow-reject")
	}
	if dup {
		return
	}
	for _, ev := range evicted {
		ei := s.idx[ev.Cid]
		if !hasBlk(ei) {
			continue
		}
		// a want with a local block was evicted: no want without a local block may have been kept,
		// no kept want with a block may have a lower priority, and some accepted newcomer has priority >= it
		for _, k := range kept {
			ki := s.idx[k.Cid]
			if !hasBlk(ki) {
				s.o.Fail("overflow-evicted-block-before-noblock", "p%d: want %d (has block) evicted while want %d (no block) kept", p, ei, ki)
			} else if k.Priority < ev.Priority {
				s.o.Fail("overflow-evicted-higher-priority", "p%d: want %d (prio %d) evicted while want %d (prio %d) kept", p, ei, ev.Priority, ki, k.Priority)
			}
		}
		ok := false
		for _, a := range accepted {
			if a.Priority >= ev.Priority {
				ok = true
			}
		}
		if !ok {
			s.o.Fail("overflow-newcomer-lower", "p%d: want %d (prio %d, has block) evicted although no accepted newcomer has priority >= it", p, ei, ev.Priority)
		}
	}
	if permitted <= s.limit { // otherwise the intake truncation, not the overflow rule, may have refused it
		for _, n := range rejected {
			if !hasBlk(s.idx[n.Cid]) {
				continue // it may have been accepted and then evicted again, as a want without a block, by a later entry
			}
			for _, k := range kept {
				ki := s.idx[k.Cid]
				if !hasBlk(ki) {
					s.o.Fail("overflow-kept-noblock", "p%d: newcomer %d refused while want %d (no block) kept", p, s.idx[n.Cid], ki)
				} else if k.Priority < n.Priority {
					s.o.Fail("overflow-rejected-higher-priority", "p%d: newcomer %d (prio %d) refused while want %d (prio %d) kept", p, s.idx[n.Cid], n.Priority, ki, k.Priority)
				}
			}
		}
	}
}

func main() { vh.Main(vh.Config{Gen: gen, Exec: exec}) }
