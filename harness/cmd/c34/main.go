// C34 harness: drives the real bitswap message package (bitswap/message): the message-building API,
// ToNetV0/ToNetV1 and FromNet.
//
// Case layout (one output line per op line):
//
//	cid <i> <cidhex|-> <prefixhex|->          pool CID i (i = 0 is cid.Undef) and its Prefix().Bytes()
//	blk <i> <cidIdx> <datahex> <sumhex|!> <v0hex>   pool block i: claimed CID, data, the CID recomputed from
//	                                          (prefix of the claimed CID, data), and the CIDv0 of the data
//	new <full> | reset <full>
//	entry <cidIdx> <prio> <ty> <sdh> | cancel <cidIdx> | remove <cidIdx>
//	block <blkIdx> | pres <cidIdx> <ty> | pending <n>
//	v1 | v0                                   ToNetV1/V0: canonical wire bytes, then FromNet of the real bytes
//	frompb <wirehex> <structured pb.Message as parsed by protobuf-go, with the go-cid verdicts>
//
// Hashing, CID parsing and protobuf parsing of arbitrary bytes are parameters of the Lean model: the
// generator records what go-cid / go-multihash / protobuf-go answered and puts it into the op line.
package main

import (
	"bytes"
	"encoding/binary"
	"fmt"
	"sort"
	"strconv"
	"strings"

	bsmsg "github.com/ipfs/boxo/bitswap/message"
	pb "github.com/ipfs/boxo/bitswap/message/pb"
	blocks "github.com/ipfs/go-block-format"
	cid "github.com/ipfs/go-cid"
	mh "github.com/multiformats/go-multihash"
	"google.golang.org/protobuf/encoding/protowire"
	"google.golang.org/protobuf/proto"

	"verifharness/vh"
)

// ---- canonical forms

func dump(m bsmsg.BitSwapMessage) string {
	es := m.FillWantlist(nil)
	if len(es)%2 == 0 {
		es = m.Wantlist()
	}
	sort.Slice(es, func(i, j int) bool { return bytes.Compare(es[i].Cid.Bytes(), es[j].Cid.Bytes()) < 0 })
	var ws []string
	for _, e := range es {
		ws = append(ws, fmt.Sprintf("%s:%d:%d:%d:%d", vh.Hex(e.Cid.Bytes()), e.Priority, int32(e.WantType), b2i(e.Cancel), b2i(e.SendDontHave)))
	}
	bs := m.Blocks()
	sort.Slice(bs, func(i, j int) bool { return bytes.Compare(bs[i].Cid().Bytes(), bs[j].Cid().Bytes()) < 0 })
	var bl []string
	for _, b := range bs {
		bl = append(bl, vh.Hex(b.Cid().Bytes())+":"+vh.Hex(b.RawData()))
	}
	ps := m.BlockPresences()
	sort.Slice(ps, func(i, j int) bool { return bytes.Compare(ps[i].Cid.Bytes(), ps[j].Cid.Bytes()) < 0 })
	var pl []string
	for _, p := range ps {
		pl = append(pl, fmt.Sprintf("%s:%d", vh.Hex(p.Cid.Bytes()), int32(p.Type)))
	}
	hx := func(cs []cid.Cid) string {
		ss := make([]string, len(cs))
		for i, c := range cs {
			ss[i] = vh.Hex(c.Bytes())
		}
		sort.Strings(ss)
		return strings.Join(ss, ",")
	}
	return fmt.Sprintf("full=%d pend=%d wl=[%s] blk=[%s] pres=[%s] empty=%d size=%d have=[%s] dont=[%s]", b2i(m.Full()), m.PendingBytes(),
		strings.Join(ws, ","), strings.Join(bl, ","), strings.Join(pl, ","), b2i(m.Empty()), m.Size(), hx(m.Haves()), hx(m.DontHaves()))
}

func b2i(b bool) int {
	if b {
		return 1
	}
	return 0
}

// splitFields returns the raw encodings (tag included) of the top-level fields of a protobuf message.
func splitFields(b []byte) ([]protowire.Number, [][]byte, bool) {
	var nums []protowire.Number
	var raws [][]byte
	for len(b) > 0 {
		num, typ, n := protowire.ConsumeTag(b)
		if n < 0 {
			return nil, nil, false
		}
		m := protowire.ConsumeFieldValue(num, typ, b[n:])
		if m < 0 {
			return nil, nil, false
		}
		nums = append(nums, num)
		raws = append(raws, b[:n+m])
		b = b[n+m:]
	}
	return nums, raws, true
}

func sortedConcat(xs [][]byte) []byte {
	sort.Slice(xs, func(i, j int) bool { return bytes.Compare(xs[i], xs[j]) < 0 })
	return bytes.Join(xs, nil)
}

// canon sorts the repeated fields of a marshalled pb.Message (their order is Go map order):
// wantlist{sorted entries, rest}, sorted blocks, sorted payload, sorted presences, rest.
func canon(payload []byte) ([]byte, bool) {
	nums, raws, ok := splitFields(payload)
	if !ok {
		return nil, false
	}
	var out []byte
	var rep [5][][]byte
	var rest []byte
	for i, num := range nums {
		switch num {
		case 1:
			_, _, n := protowire.ConsumeTag(raws[i])
			inner, m := protowire.ConsumeBytes(raws[i][n:])
			if m < 0 {
				return nil, false
			}
			inums, iraws, ok := splitFields(inner)
			if !ok {
				return nil, false
			}
			var ents [][]byte
			var irest []byte
			for j, in := range inums {
				if in == 1 {
					ents = append(ents, iraws[j])
				} else {
					irest = append(irest, iraws[j]...)
				}
			}
			w := append(sortedConcat(ents), irest...)
			out = protowire.AppendTag(out, 1, protowire.BytesType)
			out = protowire.AppendBytes(out, w)
		case 2, 3, 4:
			rep[num] = append(rep[num], raws[i])
		default:
			rest = append(rest, raws[i]...)
		}
	}
	for k := 2; k <= 4; k++ {
		out = append(out, sortedConcat(rep[k])...)
	}
	return append(out, rest...), true
}

func unframe(raw []byte) ([]byte, bool) {
	l, n := binary.Uvarint(raw)
	if n <= 0 || int(l) != len(raw)-n {
		return nil, false
	}
	return raw[n:], true
}

func frame(payload []byte) []byte {
	return append(binary.AppendUvarint(nil, uint64(len(payload))), payload...)
}

// selfCertifying is the property's predicate on a decoded message: every block's CID is what its own
// prefix and data hash to.
func selfCertifying(o *vh.Out, m bsmsg.BitSwapMessage) {
	for _, b := range m.Blocks() {
		c2, err := b.Cid().Prefix().Sum(b.RawData())
		if err != nil || !c2.Equals(b.Cid()) {
			o.Fail("not-self-certifying", "decoded block claims %s but hashes to %v (%v)", b.Cid(), c2, err)
		}
	}
}

type poolBlock struct {
	c      cid.Cid
	data   []byte
	honest bool
}

func exec(cs vh.Case, o *vh.Out) {
	var cids []cid.Cid
	var blks []poolBlock
	var m bsmsg.BitSwapMessage = bsmsg.New(false)
	honest, undef := true, false // every block added so far is honest / an Undef CID was used
	for _, line := range cs.Ops {
		f := strings.Fields(line)
		switch f[0] {
		case "cid":
			if f[2] == "-" {
				cids = append(cids, cid.Undef)
			} else {
				c, err := cid.Cast(vh.UnHex(f[2]))
				if err != nil {
					panic(err)
				}
				cids = append(cids, c)
			}
			o.Emit("ok")
		case "blk":
			c := cids[vh.Atoi(f[2])]
			d := vh.UnHex(f[3])
			blks = append(blks, poolBlock{c: c, data: d, honest: f[4] == vh.Hex(c.Bytes())})
			o.Emit("ok")
		case "new", "reset":
			if f[0] == "new" {
				m = bsmsg.New(f[1] == "1")
			} else {
				m.Reset(f[1] == "1")
			}
			honest, undef = true, false
			o.Emit("%s", dump(m))
		case "entry":
			c := cids[vh.Atoi(f[1])]
			undef = undef || !c.Defined()
			m.AddEntry(c, int32(vh.Atoi(f[2])), pb.Message_Wantlist_WantType(vh.Atoi(f[3])), f[4] == "1")
			o.Kind("entry")
			o.Emit("%s", dump(m))
		case "cancel":
			c := cids[vh.Atoi(f[1])]
			undef = undef || !c.Defined()
			m.Cancel(c)
			o.Kind("cancel")
			o.Emit("%s", dump(m))
		case "remove":
			m.Remove(cids[vh.Atoi(f[1])])
			o.Emit("%s", dump(m))
		case "block":
			b := blks[vh.Atoi(f[1])]
			blk, err := blocks.NewBlockWithCid(b.data, b.c)
			if err != nil {
				panic(err)
			}
			m.AddBlock(blk)
			honest = honest && b.honest
			if b.honest {
				o.Kind("block-honest")
			} else {
				o.Kind("block-dishonest")
			}
			o.Emit("%s", dump(m))
		case "pres":
			c := cids[vh.Atoi(f[1])]
			undef = undef || !c.Defined()
			switch t := vh.Atoi(f[2]); t {
			case 0:
				m.AddHave(c)
			case 1:
				m.AddDontHave(c)
			default:
				m.AddBlockPresence(c, pb.Message_BlockPresenceType(t))
			}
			o.Kind("presence")
			o.Emit("%s", dump(m))
		case "clone":
			m = m.Clone()
			_ = m.Loggable()
			o.Kind("clone")
			o.Emit("%s", dump(m))
		case "pending":
			m.SetPendingBytes(int32(vh.Atoi(f[1])))
			o.Emit("%s", dump(m))
		case "v1", "v0":
			var buf bytes.Buffer
			var err error
			if f[0] == "v1" {
				err = m.ToNetV1(&buf)
			} else {
				err = m.ToNetV0(&buf)
			}
			if err != nil {
				panic(err)
			}
			raw := buf.Bytes()
			payload, ok := unframe(raw)
			if !ok {
				o.Fail("bad-frame", "length prefix does not match the payload")
			}
			cb, ok := canon(payload)
			if !ok {
				o.Fail("bad-wire", "marshalled message is not parseable protobuf")
			}
			m2, n, err := bsmsg.FromNet(bytes.NewReader(raw))
			res := "reject"
			if err == nil {
				res = dump(m2)
				selfCertifying(o, m2)
				if n != len(payload) {
					o.Fail("bad-size", "FromNet reported %d bytes, payload has %d", n, len(payload))
				}
				// the property's round trip, evaluated directly
				if f[0] == "v1" && honest && res != dump(m) {
					o.Fail("v1-roundtrip", "decoded %s, sent %s", res, dump(m))
				}
				if f[0] == "v0" && !sameV0(m, m2) {
					o.Fail("v0-roundtrip", "decoded %s, sent %s", res, dump(m))
				}
				if len(m.Wantlist())+len(m.Blocks())+len(m.BlockPresences()) >= 3 {
					o.Nontrivial()
				}
			} else if !undef {
				o.Fail("roundtrip-rejected", "a message built through the API was rejected: %v", err)
			}
			o.Kind(f[0])
			o.Emit("%s %s => %s", f[0], vh.Hex(cb), res)
		case "frompb":
			wire := vh.UnHex(f[1])
			m2, _, err := bsmsg.FromNet(bytes.NewReader(wire))
			// the property's predicate, evaluated independently of the model and of the op's annotations
			payload, _ := unframe(wire)
			var p pb.Message
			malformed := proto.Unmarshal(payload, &p) != nil
			if !malformed {
				for _, e := range p.GetWantlist().GetEntries() {
					if _, cerr := cid.Cast(e.Block); cerr != nil {
						malformed = true
					}
				}
				for _, bp := range p.GetBlockPresences() {
					if _, cerr := cid.Cast(bp.Cid); cerr != nil {
						malformed = true
					}
				}
			}
			if err != nil {
				o.Kind("frompb-reject")
				o.Emit("reject")
				break
			}
			if malformed {
				o.Fail("accepted-malformed", "FromNet accepted a message with an undecodable CID or broken protobuf")
			}
			selfCertifying(o, m2)
			o.Kind("frompb-accept")
			if len(m2.Blocks()) > 0 {
				o.Nontrivial()
			}
			o.Emit("%s", dump(m2))
		default:
			o.Emit("bad-op")
		}
	}
}

func sameV0(a, b bsmsg.BitSwapMessage) bool {
	da, db := dump(a), dump(b)
	wl := func(s string) string { return s[:strings.Index(s, " blk=")] }
	// pendingBytes is not carried by the 1.0.0 format
	strip := func(s string) string { return s[:strings.Index(s, " pend=")] + s[strings.Index(s, " wl="):] }
	if strip(wl(da)) != strip(wl(db)) {
		return false
	}
	set := func(m bsmsg.BitSwapMessage) string {
		var ds []string
		seen := map[string]bool{}
		for _, b := range m.Blocks() {
			h := vh.Hex(b.RawData())
			if !seen[h] {
				seen[h] = true
				ds = append(ds, h)
			}
		}
		sort.Strings(ds)
		return strings.Join(ds, ",")
	}
	return set(a) == set(b)
}

// ---- generator

var makers = []func(d []byte) cid.Cid{
	func(d []byte) cid.Cid { return blocks.NewBlock(d).Cid() },
	func(d []byte) cid.Cid {
		return sumCid(cid.Prefix{Version: 1, Codec: cid.Raw, MhType: mh.SHA2_256, MhLength: -1}, d)
	},
	func(d []byte) cid.Cid {
		return sumCid(cid.Prefix{Version: 1, Codec: cid.DagProtobuf, MhType: mh.SHA2_256, MhLength: -1}, d)
	},
	func(d []byte) cid.Cid {
		return sumCid(cid.Prefix{Version: 1, Codec: cid.Raw, MhType: mh.IDENTITY, MhLength: -1}, d)
	},
	func(d []byte) cid.Cid {
		return sumCid(cid.Prefix{Version: 1, Codec: cid.DagCBOR, MhType: mh.SHA2_512, MhLength: -1}, d)
	},
	// truncated digests: same version / codec / hash function as the makers above, other MhLength
	func(d []byte) cid.Cid {
		return sumCid(cid.Prefix{Version: 1, Codec: cid.Raw, MhType: mh.SHA2_256, MhLength: 20}, d)
	},
	func(d []byte) cid.Cid {
		return sumCid(cid.Prefix{Version: 1, Codec: cid.Raw, MhType: mh.SHA2_256, MhLength: 28}, d)
	},
	func(d []byte) cid.Cid {
		return sumCid(cid.Prefix{Version: 1, Codec: cid.DagProtobuf, MhType: mh.SHA2_256, MhLength: 20}, d)
	},
	func(d []byte) cid.Cid {
		return sumCid(cid.Prefix{Version: 1, Codec: cid.DagCBOR, MhType: mh.SHA2_512, MhLength: 32}, d)
	},
	func(d []byte) cid.Cid {
		return sumCid(cid.Prefix{Version: 1, Codec: cid.DagCBOR, MhType: mh.SHA2_512, MhLength: 20}, d)
	},
}

func sumCid(p cid.Prefix, d []byte) cid.Cid {
	c, err := p.Sum(d)
	if err != nil {
		panic(err)
	}
	return c
}

// safeSum = cid.PrefixFromBytes + Prefix.Sum, as in message.NewWantlistBlock
func safeSum(prefix, data []byte) (s string) {
	defer func() {
		if recover() != nil {
			s = "!"
		}
	}()
	p, err := cid.PrefixFromBytes(prefix)
	if err != nil {
		return "!"
	}
	c, err := p.Sum(data)
	if err != nil {
		return "!"
	}
	return vh.Hex(c.Bytes())
}

func castOK(b []byte) int {
	_, err := cid.Cast(b)
	return b2i(err == nil)
}

func mutate(r *vh.Rand, b []byte) []byte {
	b = append([]byte(nil), b...)
	switch r.Intn(4) {
	case 0:
		if len(b) > 0 {
			b[r.Intn(len(b))] ^= byte(1 << r.Intn(8))
		}
	case 1:
		if len(b) > 0 {
			b = b[:r.Intn(len(b))]
		}
	case 2:
		b = append(b, r.Bytes(r.Range(1, 3))...)
	default:
		if len(b) > 0 {
			b[r.Intn(len(b))] = byte(r.U64())
		}
	}
	return b
}

var prios = []int{0, 1, -1, 5, 100, 2147483647, -2147483648, 65536, -7}

func genFromPB(r *vh.Rand, cids []cid.Cid, datas [][]byte) string {
	p := &pb.Message{}
	pickCid := func() []byte {
		switch r.Intn(8) {
		case 0:
			return nil
		case 1:
			return mutate(r, vh.Pick(r, cids[1:]).Bytes())
		default:
			return vh.Pick(r, cids[1:]).Bytes()
		}
	}
	if !r.Chance(1, 6) {
		p.Wantlist = &pb.Message_Wantlist{Full: r.Bool()}
		for i, n := 0, r.Intn(6); i < n; i++ {
			p.Wantlist.Entries = append(p.Wantlist.Entries, &pb.Message_Wantlist_Entry{
				Block: pickCid(), Priority: int32(vh.Pick(r, prios)), Cancel: r.Chance(1, 4),
				WantType: pb.Message_Wantlist_WantType(vh.Pick(r, []int{0, 0, 1, 1, 2, -1})), SendDontHave: r.Bool(),
			})
		}
	}
	for i, n := 0, r.Intn(3); i < n; i++ {
		p.Blocks = append(p.Blocks, vh.Pick(r, datas))
	}
	for i, n := 0, r.Intn(4); i < n; i++ {
		pre := vh.Pick(r, cids[1:]).Prefix().Bytes()
		if r.Chance(1, 5) {
			pre = mutate(r, pre)
		}
		p.Payload = append(p.Payload, &pb.Message_Block{Prefix: pre, Data: vh.Pick(r, datas)})
	}
	for i, n := 0, r.Intn(4); i < n; i++ {
		p.BlockPresences = append(p.BlockPresences, &pb.Message_BlockPresence{
			Cid: pickCid(), Type: pb.Message_BlockPresenceType(vh.Pick(r, []int{0, 1, 1, 5}))})
	}
	if r.Bool() {
		p.PendingBytes = int32(vh.Pick(r, prios))
	}
	payload, err := proto.Marshal(p)
	if err != nil {
		panic(err)
	}
	for k := r.Intn(3); r.Chance(1, 2) && k >= 0; k-- {
		payload = mutate(r, payload)
	}
	return describe(payload)
}

// crafted builds protobuf wire bytes field by field: known and unknown field numbers, every wire type
// (groups, reserved types, wrong types for known fields), duplicates of the singular wantlist field,
// non-minimal varints, nested messages built the same way.
func crafted(r *vh.Rand, cids []cid.Cid, datas [][]byte, depth int) []byte {
	var b []byte
	nums := []uint64{1, 1, 2, 3, 4, 5, 1, 2, 3, 4, 5, 6, 15, 16, 1 << 29, 1<<29 - 1, 0, 1<<31 - 1, 1 << 31}
	for i, n := 0, r.Intn(6); i < n; i++ {
		num := vh.Pick(r, nums)
		wt := uint64(vh.Pick(r, []int{0, 0, 2, 2, 2, 2, 1, 5, 3, 4, 6, 7}))
		if r.Chance(3, 4) && num >= 1 && num <= 5 { // mostly the schema's own type
			wt = map[uint64]uint64{1: 2, 2: 2, 3: 2, 4: 2, 5: 0}[num]
			if depth > 0 {
				wt = vh.Pick(r, []uint64{2, 0, 0, 2})
			}
		}
		tag := num<<3 | wt
		if r.Chance(1, 12) { // non-minimal varint tag
			b = append(b, byte(tag&0x7f)|0x80, byte(tag>>7)|0x80, 0)
			if tag>>14 != 0 {
				continue
			}
		} else {
			b = protowire.AppendVarint(b, tag)
		}
		switch wt {
		case 0:
			b = protowire.AppendVarint(b, vh.Pick(r, []uint64{0, 1, 2, 127, 128, 300, 1<<32 - 1, 1 << 32, 1<<63 + 5, 1<<64 - 1}))
		case 1:
			b = append(b, r.Bytes(8)...)
		case 5:
			b = append(b, r.Bytes(4)...)
		case 2:
			var v []byte
			switch {
			case depth < 2 && r.Chance(1, 2):
				v = crafted(r, cids, datas, depth+1)
			case r.Chance(1, 2):
				v = vh.Pick(r, cids[1:]).Bytes()
			case r.Chance(1, 2):
				v = vh.Pick(r, cids[1:]).Prefix().Bytes()
			default:
				v = vh.Pick(r, datas)
			}
			b = protowire.AppendVarint(b, uint64(len(v)))
			if r.Chance(1, 15) && len(v) > 0 {
				v = v[:len(v)-1] // length prefix larger than what follows (if last)
			}
			b = append(b, v...)
		case 3:
			if r.Chance(2, 3) {
				b = append(b, crafted(r, cids, datas, 2)...)
				endnum := num
				if r.Chance(1, 6) {
					endnum++
				}
				b = protowire.AppendVarint(b, endnum<<3|4)
			}
		}
	}
	return b
}

// describe = what protobuf-go makes of the bytes, with go-cid's verdicts
func describe(payload []byte) string {
	var q pb.Message
	toks := []string{"frompb", vh.Hex(frame(payload))}
	if proto.Unmarshal(payload, &q) != nil {
		return strings.Join(append(toks, "ERR"), " ")
	}
	if q.Wantlist == nil {
		toks = append(toks, "N")
	} else {
		toks = append(toks, fmt.Sprintf("W%d", b2i(q.Wantlist.Full)))
		for _, e := range q.Wantlist.Entries {
			toks = append(toks, fmt.Sprintf("E:%s:%d:%d:%d:%d:%d", vh.Hex(e.Block), e.Priority, b2i(e.Cancel), int32(e.WantType),
				b2i(e.SendDontHave), castOK(e.Block)))
		}
	}
	for _, d := range q.Blocks {
		toks = append(toks, fmt.Sprintf("B:%s:%s", vh.Hex(d), vh.Hex(blocks.NewBlock(d).Cid().Bytes())))
	}
	for _, b := range q.Payload {
		toks = append(toks, fmt.Sprintf("P:%s:%s:%s", vh.Hex(b.Prefix), vh.Hex(b.Data), safeSum(b.Prefix, b.Data)))
	}
	for _, bp := range q.BlockPresences {
		toks = append(toks, fmt.Sprintf("R:%s:%d:%d", vh.Hex(bp.Cid), int32(bp.Type), castOK(bp.Cid)))
	}
	toks = append(toks, fmt.Sprintf("pb:%d", q.PendingBytes))
	return strings.Join(toks, " ")
}

func gen(r0 *vh.Rand, tier string, n int, emit func(vh.Case)) {
	for i := 0; i < n; i++ {
		r := r0.Fork()
		c := vh.Case{ID: strconv.Itoa(i)}
		// data pool
		datas := [][]byte{{}, []byte("a")}
		for j, k := 0, r.Range(2, 6); j < k; j++ {
			datas = append(datas, r.Bytes(r.Range(1, 40)))
		}
		cids := []cid.Cid{cid.Undef}
		seen := map[string]bool{}
		add := func(x cid.Cid) int {
			if !seen[x.KeyString()] {
				seen[x.KeyString()] = true
				cids = append(cids, x)
			}
			for j, y := range cids {
				if y.Defined() && y.Equals(x) {
					return j
				}
			}
			panic("unreachable")
		}
		for j, k := 0, r.Range(3, 9); j < k; j++ {
			add(vh.Pick(r, makers)(vh.Pick(r, datas)))
		}
		type pblk struct {
			ci int
			d  []byte
		}
		var blks []pblk
		nb := r.Range(2, 7)
		if tier == "thorough" && r.Chance(1, 5) {
			nb = r.Range(8, 30)
		}
		for j := 0; j < nb; j++ {
			d := vh.Pick(r, datas)
			if r.Chance(1, 4) {
				blks = append(blks, pblk{r.Range(1, len(cids)-1), d}) // claimed CID unrelated to the data
			} else {
				blks = append(blks, pblk{add(vh.Pick(r, makers)(d)), d})
			}
		}
		for j, x := range cids {
			if !x.Defined() {
				c.Ops = append(c.Ops, fmt.Sprintf("cid %d - -", j))
			} else {
				c.Ops = append(c.Ops, fmt.Sprintf("cid %d %s %s", j, vh.Hex(x.Bytes()), vh.Hex(x.Prefix().Bytes())))
			}
		}
		for j, b := range blks {
			c.Ops = append(c.Ops, fmt.Sprintf("blk %d %d %s %s %s", j, b.ci, vh.Hex(b.d),
				safeSum(cids[b.ci].Prefix().Bytes(), b.d), vh.Hex(blocks.NewBlock(b.d).Cid().Bytes())))
		}
		anyCid := func() int {
			if r.Chance(1, 40) {
				return 0
			}
			return r.Range(1, len(cids)-1)
		}
		steps := r.Range(3, 40)
		if tier == "thorough" && r.Chance(1, 4) {
			steps = r.Range(40, 160)
		}
		c.Ops = append(c.Ops, fmt.Sprintf("new %d", r.Intn(2)))
		for s := 0; s < steps; s++ {
			switch r.Intn(20) {
			case 0, 1, 2, 3, 4, 5:
				c.Ops = append(c.Ops, fmt.Sprintf("entry %d %d %d %d", anyCid(), vh.Pick(r, prios), vh.Pick(r, []int{0, 0, 1, 1, 1, 2}), r.Intn(2)))
			case 6, 7:
				c.Ops = append(c.Ops, fmt.Sprintf("cancel %d", anyCid()))
			case 8:
				c.Ops = append(c.Ops, fmt.Sprintf("remove %d", r.Range(1, len(cids)-1)))
			case 9, 10, 11:
				c.Ops = append(c.Ops, fmt.Sprintf("block %d", r.Intn(len(blks))))
			case 12, 13, 14:
				c.Ops = append(c.Ops, fmt.Sprintf("pres %d %d", anyCid(), vh.Pick(r, []int{0, 0, 1, 1, 3})))
			case 15:
				c.Ops = append(c.Ops, fmt.Sprintf("pending %d", vh.Pick(r, prios)))
			case 16:
				c.Ops = append(c.Ops, vh.Pick(r, []string{"v1", "v1", "v0"}))
			case 17:
				if r.Chance(1, 4) {
					c.Ops = append(c.Ops, fmt.Sprintf("reset %d", r.Intn(2)))
				} else if r.Chance(1, 2) {
					c.Ops = append(c.Ops, "clone")
				}
			case 18:
				c.Ops = append(c.Ops, describe(crafted(r, cids, datas, 0)))
			default:
				c.Ops = append(c.Ops, genFromPB(r, cids, datas))
			}
		}
		c.Ops = append(c.Ops, "v1", "v0")
		emit(c)
	}
}

func main() { vh.Main(vh.Config{Gen: gen, Exec: exec}) }
