// C14 harness: drives the real dagutils.Diff and dagutils.ApplyChange over real dag-pb trees in a DAGService.
//
// Op line (see lean/Drivers/C14.lean): pair <treeA> <treeB>, tree ::= data | data[name:tree,…].
package main

import (
	"context"
	"fmt"
	"sort"
	"strconv"
	"strings"

	"github.com/ipfs/boxo/ipld/merkledag"
	"github.com/ipfs/boxo/ipld/merkledag/dagutils"
	cid "github.com/ipfs/go-cid"
	format "github.com/ipfs/go-ipld-format"
	logging "github.com/ipfs/go-log/v2"

	"verifharness/vh"
)

type tree struct {
	data int
	kids map[int]*tree
}

func (t *tree) names() []int {
	ns := make([]int, 0, len(t.kids))
	for n := range t.kids {
		ns = append(ns, n)
	}
	sort.Ints(ns)
	return ns
}

func (t *tree) String() string {
	if len(t.kids) == 0 {
		return strconv.Itoa(t.data)
	}
	var sb strings.Builder
	sb.WriteString(strconv.Itoa(t.data))
	sb.WriteByte('[')
	for i, n := range t.names() {
		if i > 0 {
			sb.WriteByte(',')
		}
		sb.WriteString(strconv.Itoa(n))
		sb.WriteByte(':')
		sb.WriteString(t.kids[n].String())
	}
	sb.WriteByte(']')
	return sb.String()
}

func (t *tree) clone() *tree {
	c := &tree{data: t.data, kids: map[int]*tree{}}
	for n, k := range t.kids {
		c.kids[n] = k.clone()
	}
	return c
}

func (t *tree) equal(o *tree) bool { return t.String() == o.String() }

// ---------------------------------------------------------------- generator

const dirData = 1

// leaves: dag-pb file nodes (data 2..7) or raw blocks (data >= 1000, as produced by raw-leaves imports)
func randLeaf(r *vh.Rand) *tree {
	if r.Chance(1, 3) {
		return &tree{data: 1000 + r.Intn(6), kids: map[int]*tree{}}
	}
	return &tree{data: 2 + r.Intn(6), kids: map[int]*tree{}}
}

func (t *tree) raw() bool { return t.data >= 1000 }

func randTree(r *vh.Rand, depth, fan int) *tree {
	if depth == 0 || r.Chance(1, 3) {
		return randLeaf(r)
	}
	t := &tree{data: dirData, kids: map[int]*tree{}}
	for i, k := 0, r.Intn(fan+1); i < k; i++ {
		t.kids[r.Intn(9)] = randTree(r, depth-1, fan)
	}
	return t
}

// pick a random node (with its parent and name; the root has parent nil)
func pickNode(r *vh.Rand, t *tree) (parent *tree, name int, node *tree) {
	node = t
	for len(node.kids) > 0 && r.Chance(2, 3) {
		ns := node.names()
		n := ns[r.Intn(len(ns))]
		parent, name, node = node, n, node.kids[n]
	}
	return
}

func edit(r *vh.Rand, t *tree, exotic bool) {
	parent, name, node := pickNode(r, t)
	switch r.Intn(8) {
	case 0, 1: // add an entry to a directory (or turn a leaf into a directory: exotic)
		if !node.raw() && (len(node.kids) > 0 || node.data == dirData || exotic) {
			node.kids[r.Intn(9)] = randTree(r, 1, 3)
		}
	case 2, 3: // remove
		if parent != nil {
			delete(parent.kids, name)
		}
	case 4: // replace a leaf's content
		if len(node.kids) == 0 && node.data != dirData && parent != nil {
			node.data = randLeaf(r).data
		}
	case 5: // replace by a fresh subtree (leaf <-> directory replacements included)
		if parent != nil && (exotic || r.Chance(1, 3)) {
			parent.kids[name] = randTree(r, 2, 3)
		}
	case 6: // change the data of a directory (mode / mtime change): exotic
		if exotic && len(node.kids) > 0 {
			node.data = 8 + r.Intn(2)
		}
	default: // nested addition
		if len(node.kids) > 0 {
			node.kids[r.Intn(9)] = randTree(r, 2, 3)
		}
	}
}

// dupPair copies a child that differs between a and b (at the root or below a common directory path) to a
// second, unused name on both sides.
func dupPair(r *vh.Rand, a, b *tree) {
	for depth := 0; depth < 4; depth++ {
		if a.raw() || b.raw() {
			return
		}
		var differing, common []int
		for _, n := range a.names() {
			if kb, ok := b.kids[n]; ok && n < 9000 {
				common = append(common, n)
				if !a.kids[n].equal(kb) {
					differing = append(differing, n)
				}
			}
		}
		if len(differing) > 0 && (r.Chance(2, 3) || len(common) == 0) {
			n := differing[r.Intn(len(differing))]
			for try := 0; try < 6; try++ {
				m := r.Intn(9)
				_, ina := a.kids[m]
				_, inb := b.kids[m]
				if !ina && !inb {
					a.kids[m], b.kids[m] = a.kids[n].clone(), b.kids[n].clone()
					return
				}
			}
			return
		}
		if len(common) == 0 {
			return
		}
		n := common[r.Intn(len(common))]
		a, b = a.kids[n], b.kids[n]
	}
}

func gen(r *vh.Rand, tier string, n int, emit func(vh.Case)) {
	for i := 0; i < n; i++ {
		cr := r.Fork()
		c := vh.Case{ID: strconv.Itoa(i)}
		for p, m := 0, 1+cr.Intn(3); p < m; p++ {
			depth := 1 + cr.Intn(4)
			anc := randTree(cr, depth, 2+cr.Intn(5))
			if len(anc.kids) == 0 && cr.Chance(3, 4) {
				anc = &tree{data: dirData, kids: map[int]*tree{cr.Intn(9): randLeaf(cr)}}
			}
			exotic := cr.Chance(1, 4)
			a, b := anc.clone(), anc.clone()
			for e, k := 0, cr.Intn(5); e < k; e++ {
				edit(cr, a, exotic)
			}
			for e, k := 0, 1+cr.Intn(8); e < k; e++ {
				edit(cr, b, exotic)
			}
			if cr.Chance(1, 12) {
				b = a.clone()
			}
			if cr.Chance(1, 3) {
				// the same (old subtree, new subtree) pair under two or more link names: the same file content under
				// two names replaced by the same new content, identical directory copies receiving the same edits
				dupPair(cr, a, b)
				if cr.Chance(1, 3) {
					dupPair(cr, a, b)
				}
			}
			if cr.Chance(1, 25) {
				// a link whose name path.Join / strings.Split cannot carry, added or changed below a directory
				_, _, nb := pickNode(cr, b)
				if nb.data == dirData {
					nb.kids[9001+cr.Intn(3)] = randTree(cr, 1, 2)
				}
			}
			if cr.Chance(1, 8) {
				// self-similar shape: somewhere a has P = {n: {j: leaf}} and b has P = {n: {n: {}, k: leaf}}:
				// while the changes are applied, the child n passes through the value the parent had before
				n, j, k := cr.Intn(9), cr.Intn(9), cr.Intn(9)
				if j != n && k != n {
					pa := &tree{data: dirData, kids: map[int]*tree{n: {data: dirData, kids: map[int]*tree{j: randLeaf(cr)}}}}
					pb := &tree{data: dirData, kids: map[int]*tree{n: {data: dirData, kids: map[int]*tree{
						n: {data: dirData, kids: map[int]*tree{}}, k: randLeaf(cr)}}}}
					if cr.Bool() {
						a, b = pa, pb
					} else { // below a common directory
						m := cr.Intn(9)
						_, _, na := pickNode(cr, a)
						_, _, nb := pickNode(cr, b)
						if na.data == dirData && nb.data == dirData {
							na.kids[m], nb.kids[m] = pa, pb
						}
					}
				}
			}
			c.Ops = append(c.Ops, fmt.Sprintf("pair %s %s", a, b))
		}
		emit(c)
	}
}

// ---------------------------------------------------------------- exec

func parseTree(s string) (*tree, string) {
	i := 0
	for i < len(s) && s[i] >= '0' && s[i] <= '9' {
		i++
	}
	t := &tree{data: vh.Atoi(s[:i]), kids: map[int]*tree{}}
	s = s[i:]
	if len(s) == 0 || s[0] != '[' {
		return t, s
	}
	s = s[1:]
	for {
		j := strings.IndexByte(s, ':')
		name := vh.Atoi(s[:j])
		var k *tree
		k, s = parseTree(s[j+1:])
		t.kids[name] = k
		if s[0] == ']' {
			return t, s[1:]
		}
		s = s[1:] // ','
	}
}

// link names: n0000..n8999 are ordinary; 9001..9003 are names that path.Join / strings.Split mangle
// (outside the Lean model: the driver answers "unmodelled" for trees containing them)
func nameStr(n int) string {
	switch n {
	case 9001:
		return "x/y"
	case 9002:
		return "."
	case 9003:
		return ".."
	}
	return fmt.Sprintf("n%04d", n)
}

func (t *tree) weird() bool {
	for n, k := range t.kids {
		if n >= 9000 || k.weird() {
			return true
		}
	}
	return false
}

type world struct {
	ctx   context.Context
	ds    format.DAGService
	byCid map[cid.Cid]string
}

func (w *world) build(t *tree) format.Node {
	if t.raw() {
		if len(t.kids) != 0 {
			panic("raw node with links")
		}
		rn := merkledag.NewRawNode([]byte(fmt.Sprintf("r%d", t.data)))
		if err := w.ds.Add(w.ctx, rn); err != nil {
			panic(err)
		}
		w.byCid[rn.Cid()] = t.String()
		return rn
	}
	nd := merkledag.NodeWithData([]byte(fmt.Sprintf("d%d", t.data)))
	for _, n := range t.names() {
		if err := nd.AddNodeLink(nameStr(n), w.build(t.kids[n])); err != nil {
			panic(err)
		}
	}
	if err := w.ds.Add(w.ctx, nd); err != nil {
		panic(err)
	}
	w.byCid[nd.Cid()] = t.String()
	return nd
}

func (w *world) show(c cid.Cid) string {
	if s, ok := w.byCid[c]; ok {
		return s
	}
	return "?" + c.String()
}

func showPath(p string) string {
	if p == "" {
		return ""
	}
	parts := strings.Split(p, "/")
	for i, s := range parts {
		if len(s) == 5 && s[0] == 'n' {
			parts[i] = strconv.Itoa(vh.Atoi(s[1:]))
		} else {
			parts[i] = "?" + s
		}
	}
	return strings.Join(parts, "/")
}

// firstBad names the class (if any) of the pair that lies outside the class for which Diff/ApplyChange
// can reproduce b: the property's own predicate refined by the shapes the proof identifies.
func firstBad(a, b *tree, isRoot bool) string {
	if a.equal(b) {
		return ""
	}
	if a.raw() || b.raw() || (len(a.kids) == 0 && len(b.kids) == 0) { // Diff reports one Mod
		if isRoot {
			return "c14-root-leaves"
		}
		return ""
	}
	if a.data != b.data {
		if len(a.kids) == 0 || len(b.kids) == 0 {
			return "c14-data-leaf-dir"
		}
		return "c14-data-dir-dir"
	}
	for _, n := range a.names() {
		if kb, ok := b.kids[n]; ok {
			if r := firstBad(a.kids[n], kb, false); r != "" {
				return r
			}
		}
	}
	return ""
}

func exec(c vh.Case, o *vh.Out) {
	ctx := context.Background()
	for _, line := range c.Ops {
		f := strings.Fields(line)
		if f[0] != "pair" || len(f) != 3 {
			o.Emit("bad-op")
			continue
		}
		ta, _ := parseTree(f[1])
		tb, _ := parseTree(f[2])
		w := &world{ctx: ctx, ds: dagutils.NewMemoryDagService(), byCid: map[cid.Cid]string{}}
		if ta.raw() {
			o.Emit("bad-op") // ApplyChange needs a ProtoNode root
			continue
		}
		if ta.weird() || tb.weird() {
			// harness-only: names with '/', "." or ".." — no model, the monitor alone judges
			o.Kind("weird-names")
			a, b := w.build(ta).(*merkledag.ProtoNode), w.build(tb)
			chs, err := dagutils.Diff(ctx, w.ds, a, b)
			var res *merkledag.ProtoNode
			if err == nil {
				res, err = dagutils.ApplyChange(ctx, w.ds, a.Copy().(*merkledag.ProtoNode), chs)
			}
			if (err != nil || res.Cid() != b.Cid()) && firstBad(ta, tb, true) == "" {
				o.Fail("c14-name-mangled", "ApplyChange(a, Diff(a, b)) != b with link names that path.Join mangles: a=%s b=%s", ta, tb)
			}
			o.Emit("unmodelled")
			continue
		}
		a, b := w.build(ta).(*merkledag.ProtoNode), w.build(tb)
		self, err := dagutils.Diff(ctx, w.ds, a, a)
		if err != nil {
			panic(err)
		}
		if len(self) != 0 {
			o.Fail("self-nonempty", "Diff(a, a) has %d changes", len(self))
		}
		chs, err := dagutils.Diff(ctx, w.ds, a, b)
		if err != nil {
			panic(err)
		}
		ss := make([]string, len(chs))
		for i, ch := range chs {
			switch ch.Type {
			case dagutils.Add:
				ss[i] = fmt.Sprintf("A:%s=%s", showPath(ch.Path), w.show(ch.After))
				o.Kind("add")
			case dagutils.Remove:
				ss[i] = fmt.Sprintf("R:%s=%s", showPath(ch.Path), w.show(ch.Before))
				o.Kind("remove")
			case dagutils.Mod:
				ss[i] = fmt.Sprintf("M:%s=%s>%s", showPath(ch.Path), w.show(ch.Before), w.show(ch.After))
				o.Kind("mod")
			}
			if strings.Contains(ch.Path, "/") {
				o.Kind("nested")
			}
		}
		// ApplyChange mutates the node it is given: hand it a fresh copy of a
		res, err := dagutils.ApplyChange(ctx, w.ds, a.Copy().(*merkledag.ProtoNode), chs)
		ap, eq := "ok", 0
		if err != nil {
			ap = "err:" + strings.ReplaceAll(err.Error(), " ", "_")
		} else if res.Cid() == b.Cid() {
			eq = 1
		}
		// ---- monitor: the property itself
		if eq != 1 {
			sig := firstBad(ta, tb, true)
			if sig == "" {
				sig = "apply-diff-mismatch"
				if err != nil && format.IsNotFound(err) {
					sig = "editor-lost-node" // the Editor's temporary store lost a node it had just written
				}
				if err == merkledag.ErrNotProtobuf {
					sig = "raw-leaf-not-applied" // ApplyChange refuses to insert a node that is not a ProtoNode
				}
			}
			o.Kind(sig)
			o.Fail(sig, "ApplyChange(a, Diff(a, b)) != b (apply=%s) for a=%s b=%s", ap, ta, tb)
		} else if len(chs) >= 2 {
			o.Nontrivial()
		}
		cs := "-"
		if len(ss) > 0 {
			cs = strings.Join(ss, ";")
		}
		good := 0
		if firstBad(ta, tb, true) == "" {
			good = 1
		}
		o.Emit("self=%d changes=%s apply=%s eq=%d good=%d", len(self), cs, strings.SplitN(ap, ":", 2)[0], eq, good)
	}
}

func main() {
	logging.SetAllLoggers(logging.LevelFatal)
	vh.Main(vh.Config{Gen: gen, Exec: exec})
}
