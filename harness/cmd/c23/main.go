// C23 harness: every mutation of a history runs on the real dspinner over a logging datastore; for
// every prefix of the op's datastore write sequence a second real pinner is reopened on
// (state before the op + that prefix) and its queries and raw /pins keys are dumped.
//
//	crashall <mutation>   : dump every crash point, continue from the completed op
//	crashat <k> <mutation>: continue the history on the pinner recovered from prefix min(k,len)
package main

import (
	"strconv"
	"strings"

	"verifharness/pinh"
	"verifharness/vh"
)

func gen(r *vh.Rand, tier string, n int, emit func(vh.Case)) {
	for i := 0; i < n; i++ {
		cr := r.Fork()
		c := vh.Case{ID: strconv.Itoa(i)}
		maxN, maxOps := 6, 8
		if tier == "thorough" {
			maxN, maxOps = 8, 10
		}
		nn := cr.Range(2, maxN)
		line, _ := pinh.GenDag(cr, nn, i%3 == 2)
		c.Ops = append(c.Ops, line)
		c.Ops = append(c.Ops, pinh.GenOps(cr, nn, cr.Range(1, maxOps), true)...)
		emit(c)
	}
}

func exec(c vh.Case, o *vh.Out) {
	var w *pinh.World
	var cur *pinh.Dump
	points, replaced := 0, 0
	for _, line := range c.Ops {
		f := strings.Fields(line)
		switch f[0] {
		case "dag":
			w = pinh.NewWorld(line)
			cur = w.QueryLight()
			o.Emit("ok")
		case "crashall", "crashat":
			mf := f[1:]
			at := -1
			if f[0] == "crashat" {
				at = vh.Atoi(f[1])
				mf = f[2:]
			}
			before := cur
			snap0 := w.Store.Snapshot()
			tok, ws := w.Mutate(mf)
			after := w.QueryLight()
			o.Kind(mf[0])
			o.Kind("res-" + tok)
			o.Kind("writes-" + strconv.Itoa(len(ws)))
			if len(ws) >= 8 {
				replaced++
			}
			var parts []string
			parts = append(parts, tok+" "+w.CanonWrites(ws))
			check := func(n int, rec *pinh.Recovered) {
				points++
				// property clause 1: records and indexes agree after reopen
				for _, msg := range rec.Raw.ConsistencyFailures() {
					o.Fail("index-record-mismatch", "%q cut after write %d/%d: %s", line, n, len(ws), msg)
				}
				// property clause 2: pinned before, and still pinned by the completed op => pinned after recovery
				for i := 0; i < w.N; i++ {
					pb, kb := before.PinnedAny(i)
					pa, ka := after.PinnedAny(i)
					pr, kr := rec.D.PinnedAny(i)
					if kb && ka && kr && pb && pa && !pr {
						o.Fail("crash-lost-pin", "%q cut after write %d/%d: cid %d pinned before (%s) and after the complete op (%s) but not after recovery", line, n, len(ws), i, before.IP[i], after.IP[i])
					}
				}
			}
			if at < 0 {
				for n := 0; n <= len(ws); n++ {
					rec := w.Reopen(snap0, ws[:n])
					check(n, rec)
					parts = append(parts, rec.Line())
				}
				cur = after
			} else {
				n := at
				if n > len(ws) {
					n = len(ws)
				}
				rec := w.Reopen(snap0, ws[:n])
				check(n, rec)
				parts = append(parts, rec.Line())
				w.CrashTo(snap0, ws[:n])
				cur = w.QueryLight()
				o.Kind("continued-after-crash")
			}
			o.Emit("%s", strings.Join(parts, " :: "))
		default:
			o.Emit("bad-op")
		}
	}
	if points >= 10 && replaced >= 1 {
		o.Nontrivial()
	}
}

func main() { vh.Main(vh.Config{Gen: gen, Exec: exec}) }
