// C23 harness: every mutation of a history runs on the real dspinner over a logging datastore; for
// every prefix of the op's datastore write sequence a second real pinner is reopened on
// (state before the op + that prefix) and its queries and raw /pins keys are dumped.
//
//	crashall <mutation>   : dump every crash point, continue from the completed op
//	crashat <k> <mutation>: continue the history on the pinner recovered from prefix min(k,len)
package main

import (
	"strconv"
	"strings"

	"verifharness/pinh"
	"verifharness/vh"
)

func gen(r *vh.Rand, tier string, n int, emit func(vh.Case)) {
	for i := 0; i < n; i++ {
		cr := r.Fork()
		c := vh.Case{ID: strconv.Itoa(i)}
		maxN, maxOps := 6, 8
		if tier == "thorough" {
			maxN, maxOps = 8, 10
		}
		nn := cr.Range(2, maxN)
		line, _ := pinh.GenDag(cr, nn, i%3 == 2)
		c.Ops = append(c.Ops, line)
		c.Ops = append(c.Ops, pinh.GenOps(cr, nn, cr.Range(1, maxOps), true)...)
		emit(c)
	}
}

func exec(c vh.Case, o *vh.Out) {
	var w *pinh.World
	var cur *pinh.Dump
	points, replaced := 0, 0
	tainted := false // the harness planted an index entry without record: the property's precondition is gone
	fail := func(sig, format string, a ...any) {
		if !tainted {
			o.Fail(sig, format, a...)
		}
	}
	for _, line := range c.Ops {
		f := strings.Fields(line)
		switch f[0] {
		case "dag":
			w = pinh.NewWorld(line)
			cur = w.QueryLight()
			o.Emit("ok")
		case "crashall", "crashat":
			mf := f[1:]
			at := -1
			if f[0] == "crashat" {
				at = vh.Atoi(f[1])
				mf = f[2:]
			}
			before := cur
			snap0 := w.Store.Snapshot()
			tok, ws := w.Mutate(mf)
			after := w.QueryLight()
			o.Kind(mf[0])
			o.Kind("res-" + tok)
			o.Kind("writes-" + strconv.Itoa(len(ws)))
			if len(ws) >= 8 {
				replaced++
			}
			var parts []string
			parts = append(parts, tok+" "+w.CanonWrites(ws))
			check := func(n int, rec *pinh.Recovered) {
				points++
				// property clause 1: records and indexes agree after reopen
				for _, msg := range rec.Raw.ConsistencyFailures() {
					fail("index-record-mismatch", "%q cut after write %d/%d: %s", line, n, len(ws), msg)
				}
				// property clause 2: pinned before, and still pinned by the completed op => pinned after recovery
				for i := 0; i < w.N; i++ {
					pb, kb := before.PinnedAny(i)
					pa, ka := after.PinnedAny(i)
					pr, kr := rec.D.PinnedAny(i)
					if kb && ka && kr && pb && pa && !pr {
						fail("crash-lost-pin", "%q cut after write %d/%d: cid %d pinned before (%s) and after the complete op (%s) but not after recovery", line, n, len(ws), i, before.IP[i], after.IP[i])
					}
				}
			}
			if at < 0 {
				for n := 0; n <= len(ws); n++ {
					rec := w.Reopen(snap0, ws[:n])
					check(n, rec)
					parts = append(parts, rec.Line())
				}
				cur = after
			} else {
				n := at
				if n > len(ws) {
					n = len(ws)
				}
				rec := w.Reopen(snap0, ws[:n])
				check(n, rec)
				parts = append(parts, rec.Line())
				w.CrashTo(snap0, ws[:n])
				cur = w.QueryLight()
				o.Kind("continued-after-crash")
			}
			o.Emit("%s", strings.Join(parts, " :: "))
		case "crash2":
			// stop after n writes of the call, restart, stop after j writes of the recovery, restart again
			n, j, mf := vh.Atoi(f[1]), vh.Atoi(f[2]), f[3:]
			before := cur
			snap0 := w.Store.Snapshot()
			tok, ws := w.Mutate(mf)
			after := w.QueryLight()
			o.Kind("crash2-" + mf[0])
			if n > len(ws) {
				n = len(ws)
			}
			rb := w.RebuildWrites(snap0, ws[:n])
			if j > len(rb) {
				j = len(rb)
			}
			o.Kind("crash2-rebuild-" + strconv.Itoa(len(rb)))
			img2 := append(append([]pinh.Write(nil), ws[:n]...), rb[:j]...)
			rec := w.Reopen(snap0, img2)
			points++
			for _, msg := range rec.Raw.ConsistencyFailures() {
				fail("index-record-mismatch", "%q: after the second restart: %s", line, msg)
			}
			for i := 0; i < w.N; i++ {
				pb, kb := before.PinnedAny(i)
				pa, ka := after.PinnedAny(i)
				pr, kr := rec.D.PinnedAny(i)
				if kb && ka && kr && pb && pa && !pr {
					fail("crash-lost-pin", "%q: cid %d pinned before and after the complete op but not after the interrupted recovery", line, i)
				}
			}
			w.CrashTo(snap0, img2)
			cur = w.QueryLight()
			o.Emit("%s %s :: rb1=%s :: %s", tok, w.CanonWrites(ws), w.CanonWrites(rb), rec.Line())
		case "plant":
			// corrupt the store: drop the record of a pin, keeping its index entries
			ok := w.Plant(vh.Atoi(f[1]), vh.Atoi(f[2]))
			tainted = tainted || ok
			o.Kind("plant")
			cur = w.QueryLight()
			o.Emit("planted=%v %s", ok, cur.Line())
		case "io":
			// the k-th datastore write attempt of the call fails; afterwards the process is restarted
			k, mf := vh.Atoi(f[1]), f[2:]
			before := cur
			tok, ws := w.MutateIO(mf, k)
			o.Kind(mf[0])
			o.Kind("io-" + tok)
			live := w.QueryLight()
			snap := w.Store.Snapshot()
			rsLive, _ := w.Raw(snap)
			for _, msg := range rsLive.ConsistencyFailures() {
				if strings.Contains(msg, "without record") || strings.Contains(msg, "without matching record") {
					fail("io-orphan-index", "%q: live state after the failed write: %s", line, msg)
				}
			}
			rec := w.Reopen(snap, nil)
			points++
			for _, msg := range rec.Raw.ConsistencyFailures() {
				fail("index-record-mismatch", "%q after restart: %s", line, msg)
			}
			if mf[0] == "pin" || mf[0] == "pinmode" { // these calls never unpin a cid
				for i := 0; i < w.N; i++ {
					pb, kb := before.PinnedAny(i)
					pr, kr := rec.D.PinnedAny(i)
					if kb && kr && pb && !pr {
						fail("io-lost-pin", "%q (write %d failed): cid %d pinned before (%s) but not after the restart", line, k, i, before.IP[i])
					}
				}
			}
			w.CrashTo(snap, nil)
			cur = w.QueryLight()
			o.Emit("%s %s :: live %s :: %s", tok, w.CanonWrites(ws), live.Line(), rec.Line())
		default:
			o.Emit("bad-op")
		}
	}
	if points >= 10 && replaced >= 1 {
		o.Nontrivial()
	}
}

func main() { vh.Main(vh.Config{Gen: gen, Exec: exec}) }
