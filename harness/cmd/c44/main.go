// C44 harness: the real provider.New(...).Reprovide loop against a recording router, and the real
// NewPrioritizedProvider.
//
// Ops:
//
//	new <many 0|1> <maxbatch -|n> <cb -|thr> <allowlist…>         provider.New(...); "-" = option not passed
//	reprov <fail -|i,j,..> <cbstop -|k> <cid>*                     Reprovide over the key stream; router calls i,j (0-based,
//	                                                               per Reprovide) fail; the k-th callback call (0-based) returns false
//	  -> ret=<nil|hang> calls=[k,k;k;…] cbs=[<complete>:<count>,…]  (keys of one call sorted)
//	prio <stream> / <stream> / …    stream = <cid>* | x (KeyChanFunc fails)   -> out=[cid,…]
package main

import (
	"context"
	"errors"
	"fmt"
	"sort"
	"strconv"
	"strings"
	"sync"
	"time"

	"github.com/ipfs/boxo/provider"
	"github.com/ipfs/boxo/verifcid"
	"github.com/ipfs/go-cid"
	ds "github.com/ipfs/go-datastore"
	dssync "github.com/ipfs/go-datastore/sync"
	logging "github.com/ipfs/go-log/v2"
	mh "github.com/multiformats/go-multihash"

	"verifharness/bsx"
	"verifharness/vh"
)

func init() { logging.SetLogLevel("*", "fatal") }

// hangTimeout bounds one Reprovide call (a healthy call over <= 250 keys takes well under a millisecond).
const hangTimeout = 1 * time.Second

type router struct {
	mu    sync.Mutex
	calls [][]mh.Multihash
	fail  map[int]bool
	// cumulative
	readyCalls int
	okKeys     int // multihashes of router calls that succeeded
	lastOK     int
}

var errRouter = errors.New("scripted router error")

func (r *router) record(ks []mh.Multihash) error {
	r.mu.Lock()
	defer r.mu.Unlock()
	i := len(r.calls)
	r.calls = append(r.calls, append([]mh.Multihash(nil), ks...))
	if r.fail[i] {
		return errRouter
	}
	r.okKeys += len(ks)
	r.lastOK = len(ks)
	return nil
}

func (r *router) Provide(_ context.Context, c cid.Cid, _ bool) error {
	return r.record([]mh.Multihash{c.Hash()})
}

type manyRouter struct{ *router }

func (r manyRouter) ProvideMany(_ context.Context, ks []mh.Multihash) error { return r.record(ks) }

// routers that also implement provider.Ready (always ready; a false answer makes Reprovide sleep for a minute)
type readyRouter struct{ *router }

func (r readyRouter) Ready() bool { r.mu.Lock(); r.readyCalls++; r.mu.Unlock(); return true }

type readyManyRouter struct{ manyRouter }

func (r readyManyRouter) Ready() bool { r.mu.Lock(); r.readyCalls++; r.mu.Unlock(); return true }

func keyLess(a, b string) bool {
	fa, fb := strings.Split(a, "."), strings.Split(b, ".")
	for i := 0; i < 3 && i < len(fa) && i < len(fb); i++ {
		x, _ := strconv.Atoi(fa[i])
		y, _ := strconv.Atoi(fb[i])
		if x != y {
			return x < y
		}
	}
	return false
}

func chanOf(ks []cid.Cid) provider.KeyChanFunc {
	return func(ctx context.Context) (<-chan cid.Cid, error) {
		ch := make(chan cid.Cid)
		go func() {
			defer close(ch)
			for _, k := range ks {
				select {
				case ch <- k:
				case <-ctx.Done():
					return
				}
			}
		}()
		return ch, nil
	}
}

func exec(c vh.Case, o *vh.Out) {
	tab := bsx.NewTab()
	var sys provider.System
	var rt *router
	var al verifcid.Allowlist
	maxBatch := -1 // configured maximum; -1 = none
	thr := -1
	many := false
	var cbs []string
	cbStop := -1
	cbCalls := 0
	cbLive := false
	var prioAll []cid.Cid // all keys of the streams of the installed prioritized key provider
	defer func() {
		if sys != nil {
			sys.Close()
		}
	}()
	for _, line := range c.Ops {
		f := strings.Fields(line)
		switch f[0] {
		case "new":
			if sys != nil {
				sys.Close()
			}
			many = f[1] == "1" || f[1] == "3"
			rt = &router{}
			al, _ = bsx.ParseAllowlist(f[4:])
			var r provider.Provide = rt
			switch f[1] {
			case "1":
				r = manyRouter{rt}
			case "2":
				r = readyRouter{rt}
				o.Kind("ready-router")
			case "3":
				r = readyManyRouter{manyRouter{rt}}
				o.Kind("ready-router")
			}
			opts := []provider.Option{provider.Online(r), provider.Allowlist(al), provider.ReproviderInterval(0),
				provider.KeyProvider(chanOf(nil))}
			if len(f[4:])%2 == 0 { // options without influence on Reprovide
				opts = append(opts, provider.DatastorePrefix(ds.NewKey("/verif")), provider.ProvideWorkerCount(2))
			}
			maxBatch, thr, cbLive = -1, -1, false
			if f[2] != "-" {
				maxBatch = vh.Atoi(f[2])
				opts = append(opts, provider.MaxBatchSize(uint(maxBatch)))
				o.Kind("maxbatch")
				if maxBatch == 0 {
					o.Kind("maxbatch0")
				}
			}
			if f[3] != "-" {
				thr = vh.Atoi(f[3])
				cbLive = true
				o.Kind("callback")
				if thr == 0 {
					o.Kind("threshold0")
				}
				opts = append(opts, provider.ThroughputReport(func(reprovide, complete bool, n uint, _ time.Duration) bool {
					cbs = append(cbs, fmt.Sprintf("%v:%d", complete, n))
					if !reprovide {
						o.Fail("callback-args", "callback called with reprovide=false")
					}
					more := cbCalls != cbStop
					cbCalls++
					if !more {
						cbLive = false
					}
					return more
				}, uint(thr)))
			}
			if many {
				o.Kind("provide-many")
			} else {
				o.Kind("provide-single")
			}
			var err error
			sys, err = provider.New(dssync.MutexWrap(ds.NewMapDatastore()), opts...)
			if err != nil {
				panic(err)
			}
			o.Emit("ok")
		case "reprov", "reprovk":
			if sys == nil || (f[0] == "reprovk" && prioAll == nil) {
				o.Emit("bad-op")
				break
			}
			rt.mu.Lock()
			rt.calls, rt.fail = nil, map[int]bool{}
			if f[1] != "-" {
				for _, t := range strings.Split(f[1], ",") {
					rt.fail[vh.Atoi(t)] = true
				}
				o.Kind("router-error")
			}
			rt.mu.Unlock()
			cbs, cbCalls, cbStop = nil, 0, -1
			if f[2] != "-" {
				cbStop = vh.Atoi(f[2])
			}
			var ks []cid.Cid
			for _, t := range f[3:] {
				ks = append(ks, tab.Cid(t))
			}
			if f[0] == "reprovk" {
				ks = prioAll // the key provider installed by setprio stays; its keys, for the monitors
				o.Kind("reprovide-pass-with-prioritized-provider")
			} else {
				sys.SetKeyProvider(chanOf(ks))
			}
			cbAtStart := cbLive
			ctx, cancel := context.WithCancel(context.Background())
			done := make(chan error, 1)
			go func() { done <- sys.Reprovide(ctx) }()
			ret := "nil"
			select {
			case err := <-done:
				if err != nil {
					ret = "err"
				}
			case <-time.After(hangTimeout):
				// the loop checks ctx.Err() on every iteration: cancelling stops a spinning loop
				cancel()
				<-done
				ret = "hang"
				o.Fail("no-termination", "Reprovide still running after %s (maxBatch=%d threshold=%d, %d keys, %d router calls)",
					hangTimeout, maxBatch, thr, len(ks), len(rt.calls))
			}
			cancel()
			// monitor: the property's clauses, evaluated directly on the router log
			rt.mu.Lock()
			ann := map[string]bool{}
			var callStrs []string
			for _, call := range rt.calls {
				var toks []string
				for _, k := range call {
					ann[string(k)] = true
					toks = append(toks, tab.MhTok(k))
				}
				sort.Slice(toks, func(i, j int) bool { return keyLess(toks[i], toks[j]) })
				callStrs = append(callStrs, strings.Join(toks, ","))
				lim := 1
				if many {
					lim = -1
					if maxBatch >= 0 {
						lim = max(maxBatch, 1)
					}
					// "While ThroughputReport is set, batches will be at most minimumProvides big."
					if cbAtStart && (lim < 0 || max(thr, 1) < lim) {
						lim = max(thr, 1)
					}
				}
				if lim >= 0 && len(call) > lim {
					o.Fail("batch-too-big", "router call with %d keys, limit %d (MaxBatchSize %d, threshold %d)", len(call), lim, maxBatch, thr)
				}
			}
			rt.mu.Unlock()
			if ret != "hang" {
				nvalid := 0
				for _, k := range ks {
					valid := verifcid.ValidateCid(al, k) == nil
					if valid {
						nvalid++
					}
					if valid && !ann[string(k.Hash())] {
						o.Fail("key-not-announced", "allowed key %s was never passed to the router", tab.Tok(k))
					}
					if !valid && ann[string(k.Hash())] {
						o.Fail("rejected-key-announced", "rejected key %s was passed to the router", tab.Tok(k))
					}
				}
				if nvalid > 0 && nvalid < len(ks) {
					o.Kind("mixed-valid-invalid")
				}
				if len(rt.calls) >= 2 {
					o.Nontrivial()
				}
			}
			o.Emit("ret=%s calls=[%s] cbs=[%s]", ret, strings.Join(callStrs, ";"), strings.Join(cbs, ","))
		case "reprov-kperr", "reprov-cancel":
			if sys == nil {
				o.Emit("bad-op")
				break
			}
			rt.mu.Lock()
			rt.calls, rt.fail = nil, map[int]bool{}
			rt.mu.Unlock()
			cbs = nil
			ctx, cancel := context.WithCancel(context.Background())
			if f[0] == "reprov-kperr" {
				sys.SetKeyProvider(func(context.Context) (<-chan cid.Cid, error) { return nil, errRouter })
				o.Kind("keyprovider-error")
			} else {
				var ks []cid.Cid
				for _, t := range f[1:] {
					ks = append(ks, tab.Cid(t))
				}
				sys.SetKeyProvider(chanOf(ks))
				cancel() // cancelled before the call
				o.Kind("cancelled-context")
			}
			err := sys.Reprovide(ctx)
			cancel()
			ret := "nil"
			if err != nil {
				ret = "err"
			} else {
				o.Fail("early-exit-no-error", "%s: Reprovide returned nil", f[0])
			}
			if len(rt.calls) > 0 {
				o.Fail("early-exit-provides", "%s: %d router calls", f[0], len(rt.calls))
			}
			o.Emit("ret=%s calls=[] cbs=[%s]", ret, strings.Join(cbs, ","))
		case "stat":
			if sys == nil {
				o.Emit("bad-op")
				break
			}
			st, _ := sys.Stat()
			rt.mu.Lock()
			// monitor: the statistics count exactly the multihashes of successful router calls
			if int(st.TotalReprovides) != rt.okKeys {
				o.Fail("stat-total", "TotalReprovides=%d, multihashes in successful router calls=%d", st.TotalReprovides, rt.okKeys)
			}
			if int(st.LastReprovideBatchSize) != rt.lastOK && many {
				o.Fail("stat-last", "LastReprovideBatchSize=%d, last successful call had %d", st.LastReprovideBatchSize, rt.lastOK)
			}
			o.Emit("total=%d last=%d ready=%d", st.TotalReprovides, st.LastReprovideBatchSize, rt.readyCalls)
			rt.mu.Unlock()
			o.Kind("stat")
		case "concat", "buffered":
			var streams []provider.KeyChanFunc
			var in [][]cid.Cid
			cur := []cid.Cid{}
			failing := false
			flushStream := func() {
				if failing {
					streams = append(streams, func(context.Context) (<-chan cid.Cid, error) { return nil, errRouter })
				} else {
					streams = append(streams, chanOf(cur))
					in = append(in, cur)
				}
				cur, failing = []cid.Cid{}, false
			}
			for _, t := range f[1:] {
				switch t {
				case "/":
					flushStream()
				case "x":
					failing = true
				default:
					cur = append(cur, tab.Cid(t))
				}
			}
			flushStream()
			var kf provider.KeyChanFunc
			if f[0] == "concat" {
				kf = provider.NewConcatProvider(streams...)
			} else {
				kf = provider.NewBufferedProvider(streams[0])
			}
			ch, err := kf(context.Background())
			if err != nil {
				o.Emit("err")
				break
			}
			var out, want []string
			for k := range ch {
				out = append(out, tab.Tok(k))
			}
			for _, st := range in {
				for _, k := range st {
					want = append(want, tab.Tok(k))
				}
			}
			// monitor: every key of every stream, in order, with its multiplicity
			if strings.Join(out, ",") != strings.Join(want, ",") {
				o.Fail(f[0]+"-keys", "got %v want %v", out, want)
			}
			o.Kind(f[0])
			o.Emit("out=[%s]", strings.Join(out, ","))
		case "prio", "setprio":
			var streams []provider.KeyChanFunc
			var in [][]cid.Cid
			cur := []cid.Cid{}
			failing := false
			flushStream := func() {
				if failing {
					streams = append(streams, func(context.Context) (<-chan cid.Cid, error) { return nil, errRouter })
					in = append(in, nil)
				} else {
					streams = append(streams, chanOf(cur))
					in = append(in, cur)
				}
				cur, failing = []cid.Cid{}, false
			}
			for _, t := range f[1:] {
				switch t {
				case "/":
					flushStream()
				case "x":
					failing = true
				default:
					cur = append(cur, tab.Cid(t))
				}
			}
			flushStream()
			// ONE KeyChanFunc, invoked several times (as successive reprovide passes do): every invocation must behave
			// like the first one (deduplication only within an invocation)
			kf := provider.NewPrioritizedProvider(streams...)
			if f[0] == "setprio" {
				if sys == nil {
					o.Emit("bad-op")
					break
				}
				sys.SetKeyProvider(kf)
				prioAll = nil
				for _, st := range in {
					prioAll = append(prioAll, st...)
				}
				o.Kind("prioritized-keyprovider")
			}
			var outs []string
			var out []string
			for pass := 0; pass < 2; pass++ {
				ch, err := kf(context.Background())
				if err != nil {
					outs = append(outs, "err")
					continue
				}
				out = nil
				seen := map[cid.Cid]bool{}
				for k := range ch {
					out = append(out, tab.Tok(k))
					seen[k] = true
				}
				// monitor: every key of every stream is emitted ...
				for _, st := range in {
					for _, k := range st {
						if !seen[k] {
							o.Fail("prio-key-lost", "key %s of a stream was not emitted", tab.Tok(k))
						}
					}
				}
				// ... a key is only emitted for the FIRST stream that contains it (never again for a later one): it is
				// emitted at most as often as it occurs in that stream, and first emissions follow stream order
				firstMult := map[cid.Cid]int{}
				done := map[cid.Cid]bool{}
				var order []string
				for _, st := range in {
					here := map[cid.Cid]bool{}
					for _, k := range st {
						if done[k] {
							continue
						}
						if !here[k] {
							order = append(order, tab.Tok(k))
						}
						here[k] = true
						firstMult[k]++
					}
					for k := range here {
						done[k] = true
					}
				}
				count := map[cid.Cid]int{}
				var firsts []string
				for _, t := range out {
					k := tab.Cid(t)
					if count[k] == 0 {
						firsts = append(firsts, t)
					}
					count[k]++
				}
				for k, n := range count {
					if n > firstMult[k] {
						o.Fail("prio-repeat", "key %s emitted %d times; it occurs %d times in the first stream that has it", tab.Tok(k), n, firstMult[k])
					}
				}
				if strings.Join(firsts, ",") != strings.Join(order, ",") {
					o.Fail("prio-order", "first emissions %v, stream order %v", firsts, order)
				}
				outs = append(outs, "["+strings.Join(out, ",")+"]")
			}
			o.Kind(fmt.Sprintf("prio%d", len(in)))
			if len(in) >= 2 && len(out) > 0 {
				o.Nontrivial()
			}
			o.Emit("out=%s again=%s", outs[0], outs[1])
		default:
			o.Emit("bad-op")
		}
	}
}

var shapes = [][2]int{
	{0x12, 32}, {0x12, 32}, {0x12, 32}, {0x12, 32}, {0x13, 64}, {0x1e, 32}, {0x00, 4}, {0x11, 20},
	{0xd5, 16}, {0x12, 19}, {0x00, 129}, {0xb213, 20}, {0x9999, 32},
}
var codecs = []int{0x55, 0x70}

func genCid(r *vh.Rand) string {
	s := vh.Pick(r, shapes)
	return bsx.CidTok(vh.Pick(r, codecs), s[0], s[1], r.Intn(12))
}

func genAl(r *vh.Rand) string {
	switch r.Intn(4) {
	case 0:
		return "plain 18=1,213=1,0=0"
	case 1:
		return "over 18=0,213=1 dflt"
	}
	return "dflt"
}

func gen(r *vh.Rand, tier string, n int, emit func(vh.Case)) {
	maxKeys := 60
	if tier == "thorough" {
		maxKeys = 220
	}
	for i := 0; i < n; i++ {
		c := vh.Case{ID: strconv.Itoa(i)}
		if r.Chance(1, 12) {
			pool := make([]string, r.Range(2, 8))
			for j := range pool {
				pool[j] = genCid(r)
			}
			var toks []string
			for s, ns := 0, r.Range(1, 4); s < ns; s++ {
				if s > 0 {
					toks = append(toks, "/")
				}
				if r.Chance(1, 8) {
					toks = append(toks, "x")
					continue
				}
				for k, m := 0, r.Intn(10); k < m; k++ {
					toks = append(toks, vh.Pick(r, pool))
				}
			}
			c.Ops = append(c.Ops, strings.TrimSpace("concat "+strings.Join(toks, " ")))
			var bt []string
			for k, m := 0, r.Intn(20); k < m; k++ {
				bt = append(bt, vh.Pick(r, pool))
			}
			c.Ops = append(c.Ops, strings.TrimSpace("buffered "+strings.Join(bt, " ")))
			emit(c)
			continue
		}
		if r.Chance(1, 4) {
			ns := r.Range(1, 4)
			pool := make([]string, r.Range(2, 10))
			for j := range pool {
				pool[j] = genCid(r)
			}
			var toks []string
			for s := 0; s < ns; s++ {
				if s > 0 {
					toks = append(toks, "/")
				}
				if r.Chance(1, 8) {
					toks = append(toks, "x")
					continue
				}
				for k, m := 0, r.Intn(12); k < m; k++ {
					toks = append(toks, vh.Pick(r, pool))
				}
			}
			c.Ops = append(c.Ops, strings.TrimSpace("prio "+strings.Join(toks, " ")))
			emit(c)
			continue
		}
		mb, cb := "-", "-"
		if r.Chance(2, 3) {
			mb = strconv.Itoa(vh.Pick(r, []int{0, 1, 1, 2, 3, 5, 8, 16, 1000, 2, 3, 4, 1, 6, 7, 10, 12, 30, 64, 5}))
		}
		if r.Chance(1, 2) {
			cb = strconv.Itoa(vh.Pick(r, []int{0, 1, 2, 3, 4, 7, 20, 500, 1, 2, 3, 5, 6, 8, 9, 10, 15, 40, 4, 2}))
		}
		c.Ops = append(c.Ops, fmt.Sprintf("new %d %s %s %s", r.Intn(4), mb, cb, genAl(r)))
		for j, m := 0, r.Range(1, 3); j < m; j++ {
			nk := r.Intn(maxKeys)
			if r.Chance(1, 3) {
				nk = r.Intn(8)
			}
			pool := make([]string, r.Range(1, 40))
			for k := range pool {
				pool[k] = genCid(r)
			}
			ks := make([]string, nk)
			for k := range ks {
				ks[k] = vh.Pick(r, pool)
			}
			fail := "-"
			if r.Chance(1, 4) {
				var fs []string
				for k, m := 0, r.Range(1, 3); k < m; k++ {
					fs = append(fs, strconv.Itoa(r.Intn(6)))
				}
				fail = strings.Join(fs, ",")
			}
			stop := "-"
			if r.Chance(1, 4) {
				stop = strconv.Itoa(r.Intn(3))
			}
			c.Ops = append(c.Ops, strings.TrimSpace(fmt.Sprintf("reprov %s %s %s", fail, stop, strings.Join(ks, " "))))
			switch r.Intn(8) {
			case 0:
				c.Ops = append(c.Ops, "reprov-kperr")
			case 1:
				c.Ops = append(c.Ops, strings.TrimSpace("reprov-cancel "+strings.Join(ks[:min(len(ks), 5)], " ")))
			case 2, 3:
				c.Ops = append(c.Ops, "stat")
			}
		}
		if r.Chance(1, 3) { // several passes over ONE prioritized key provider
			pool := make([]string, r.Range(2, 10))
			for k := range pool {
				pool[k] = genCid(r)
			}
			var toks []string
			for s, ns := 0, r.Range(2, 3); s < ns; s++ {
				if s > 0 {
					toks = append(toks, "/")
				}
				for k, m := 0, r.Range(1, 8); k < m; k++ {
					toks = append(toks, vh.Pick(r, pool))
				}
			}
			c.Ops = append(c.Ops, "setprio "+strings.Join(toks, " "))
			for j, m := 0, r.Range(2, 3); j < m; j++ {
				c.Ops = append(c.Ops, "reprovk - -")
			}
		}
		c.Ops = append(c.Ops, "stat")
		emit(c)
	}
}

func main() {
	vh.Main(vh.Config{Gen: gen, Exec: exec, CaseTimeout: 60 * time.Second,
		GiveUpAfter: map[string]int{"no-termination": 8}})
}
