// C45 harness: drives the real autoconf client (GetLatest against an in-process HTTP server, GetCached)
// on a real cache directory.  The file-system operations of every update are OBSERVED with inotify
// (create / write / rename / remove on the cache directory); from the observed operation list and the
// directory contents before and after, every crash state of the update is reconstructed (a written file
// holds every byte prefix of its final content in turn) in a scratch cache directory and the real
// GetCached is asked for its verdict there.
//
// Time: the code names cache files after time.Now().Unix(); the harness maps the logical clock of the
// op lines to real names by renaming the existing cache files relative to the current second before each
// update ("t seconds ago" = name S-t).
package main

import (
	"bytes"
	"context"
	"encoding/binary"
	"encoding/json"
	"fmt"
	"hash/fnv"
	"net/http"
	"net/http/httptest"
	"os"
	"path/filepath"
	"sort"
	"strconv"
	"strings"
	"sync"
	"syscall"
	"time"

	"github.com/ipfs/boxo/autoconf"
	logging "github.com/ipfs/go-log/v2"

	"verifharness/vh"
)

// ---------------------------------------------------------------- HTTP side

type served struct {
	mu   sync.Mutex
	down bool // answer 503: the network side of a refresh fails
	body []byte
	etag string
	lm   string
}

var cur served
var srv *httptest.Server

func startServer() {
	srv = httptest.NewServer(http.HandlerFunc(func(w http.ResponseWriter, r *http.Request) {
		cur.mu.Lock()
		defer cur.mu.Unlock()
		if cur.down {
			w.WriteHeader(503)
			return
		}
		if cur.etag != "" {
			w.Header().Set("ETag", cur.etag)
		}
		if cur.lm != "" {
			w.Header().Set("Last-Modified", cur.lm)
		}
		w.WriteHeader(200)
		w.Write(cur.body)
	}))
}

func hashDir(url string) string {
	h := fnv.New64a()
	h.Write([]byte(url))
	return fmt.Sprintf("%016x", h.Sum64())
}

func docBytes(id int, pad int) []byte {
	// a valid autoconf.json; no trailing white space, so that no proper prefix is valid JSON
	res := map[string][]string{}
	for i := 0; i < pad; i++ {
		res[fmt.Sprintf("tld%d.", i)] = []string{fmt.Sprintf("https://resolver%d.example.net/dns-query", i)}
	}
	m := map[string]any{"AutoConfVersion": 1000 + id, "AutoConfSchema": autoconf.SupportedAutoConfSchema}
	if pad > 0 {
		m["DNSResolvers"] = res
	}
	b, err := json.Marshal(m)
	if err != nil {
		panic(err)
	}
	return b
}

// ---------------------------------------------------------------- generator

func gen(r *vh.Rand, tier string, n int, emit func(vh.Case)) {
	for i := 0; i < n; i++ {
		c := vh.Case{ID: strconv.Itoa(i)}
		c.Ops = append(c.Ops, fmt.Sprintf("cfg %d", r.Range(1, 3)))
		nd := r.Range(2, 4)
		for d := 0; d < nd; d++ {
			pad := r.Intn(3)
			if tier == "thorough" && r.Chance(1, 4) {
				pad = r.Range(3, 20)
			}
			c.Ops = append(c.Ops, fmt.Sprintf("doc %d %s", d, vh.Hex(docBytes(d, pad))))
		}
		t := r.Range(5, 50)
		nops := r.Range(2, 7)
		crashes := 0
		for j := 0; j < nops; j++ {
			switch k := r.Intn(10); {
			case k < 1:
				// junk left behind by an earlier, interrupted writer (e.g. of an older version)
				gt := t + r.Range(-3, 2)
				if gt < 0 {
					gt = 0
				}
				var g []byte
				switch r.Intn(3) {
				case 0:
					d := docBytes(r.Intn(nd), r.Intn(2))
					g = d[:r.Range(1, len(d)-1)]
				case 1:
					g = []byte{}
				default:
					g = []byte("not json at all")
				}
				c.Ops = append(c.Ops, fmt.Sprintf("garbage %d %s", gt, vh.Hex(g)))
			case k < 2:
				c.Ops = append(c.Ops, "get")
			default:
				switch r.Intn(8) {
				case 0: // same second as the previous update
				case 1:
					t -= r.Range(1, 3) // clock stepped back
					if t < 0 {
						t = 0
					}
				default:
					t += r.Range(1, 4)
				}
				etag, lm := "-", "-"
				if r.Chance(2, 3) {
					etag = vh.Hex([]byte(fmt.Sprintf("\"e%d\"", r.Intn(1000))))
				}
				if r.Chance(1, 3) {
					lm = vh.Hex([]byte("Mon, 02 Jan 2006 15:04:05 GMT"))
				}
				d := r.Intn(nd)
				if crashes < 2 && r.Chance(2, 3) || (tier == "thorough" && crashes < 4) {
					crashes++
					k := -1
					if r.Chance(1, 2) {
						k = r.Intn(1000)
					}
					c.Ops = append(c.Ops, fmt.Sprintf("crash %d %d %s %s %d", t, d, etag, lm, k))
				} else {
					c.Ops = append(c.Ops, fmt.Sprintf("update %d %d %s %s", t, d, etag, lm))
				}
			}
		}
		c.Ops = append(c.Ops, "get")
		emit(c)
	}
}

// ---------------------------------------------------------------- inotify

type fsop struct {
	kind string // create | write | rename | remove
	a, b string
	data []byte // for write: content at close time
}

const inMask = syscall.IN_CREATE | syscall.IN_MODIFY | syscall.IN_CLOSE_WRITE | syscall.IN_MOVED_FROM | syscall.IN_MOVED_TO | syscall.IN_DELETE

type watcher struct{ fd int }

func newWatcher(dir string) *watcher {
	fd, err := syscall.InotifyInit1(syscall.IN_NONBLOCK | syscall.IN_CLOEXEC)
	if err != nil {
		panic(err)
	}
	if _, err := syscall.InotifyAddWatch(fd, dir, inMask); err != nil {
		panic(err)
	}
	return &watcher{fd: fd}
}

// drain reads all queued events and turns them into directory-level operations.
func (w *watcher) drain() []fsop {
	defer syscall.Close(w.fd)
	var ops []fsop
	modified := map[string]bool{}
	movedFrom := map[uint32]string{}
	buf := make([]byte, 1<<16)
	for {
		n, err := syscall.Read(w.fd, buf)
		if n <= 0 || err != nil {
			break
		}
		for off := 0; off+16 <= n; {
			mask := binary.LittleEndian.Uint32(buf[off+4:])
			cookie := binary.LittleEndian.Uint32(buf[off+8:])
			ln := int(binary.LittleEndian.Uint32(buf[off+12:]))
			name := string(bytes.TrimRight(buf[off+16:off+16+ln], "\x00"))
			off += 16 + ln
			if mask&syscall.IN_Q_OVERFLOW != 0 {
				panic("inotify queue overflow")
			}
			switch {
			case mask&syscall.IN_CREATE != 0:
				ops = append(ops, fsop{kind: "create", a: name})
			case mask&syscall.IN_MODIFY != 0:
				modified[name] = true
			case mask&syscall.IN_CLOSE_WRITE != 0:
				if modified[name] {
					ops = append(ops, fsop{kind: "write", a: name})
					delete(modified, name)
				}
			case mask&syscall.IN_MOVED_FROM != 0:
				movedFrom[cookie] = name
			case mask&syscall.IN_MOVED_TO != 0:
				from, ok := movedFrom[cookie]
				if !ok {
					panic("rename into the cache dir from elsewhere")
				}
				ops = append(ops, fsop{kind: "rename", a: from, b: name})
			case mask&syscall.IN_DELETE != 0:
				ops = append(ops, fsop{kind: "remove", a: name})
			}
		}
	}
	return ops
}

func readDirState(dir string) map[string][]byte {
	st := map[string][]byte{}
	es, err := os.ReadDir(dir)
	if err != nil {
		panic(err)
	}
	for _, e := range es {
		b, err := os.ReadFile(filepath.Join(dir, e.Name()))
		if err != nil {
			panic(err)
		}
		st[e.Name()] = b
	}
	return st
}

// resolveContents fills in the content of every write op: the content the written inode has in the
// final directory state (followed through later renames).  ok=false when it cannot be determined.
func resolveContents(ops []fsop, final map[string][]byte, fallback []byte) (lost int) {
	for i := range ops {
		if ops[i].kind != "write" {
			continue
		}
		name, alive := ops[i].a, true
		for _, o := range ops[i+1:] {
			switch o.kind {
			case "rename":
				if o.a == name {
					name = o.b
				} else if o.b == name {
					alive = false
				}
			case "remove":
				if o.a == name {
					alive = false
				}
			case "write":
				if o.a == name {
					alive = false
				}
			}
			if !alive {
				break
			}
		}
		if alive {
			ops[i].data = final[name]
		} else {
			ops[i].data = fallback
			lost++
		}
	}
	return
}

func cloneState(s map[string][]byte) map[string][]byte {
	c := make(map[string][]byte, len(s))
	for k, v := range s {
		c[k] = v
	}
	return c
}

func sameState(a, b map[string][]byte) bool {
	if len(a) != len(b) {
		return false
	}
	for k, v := range a {
		w, ok := b[k]
		if !ok || !bytes.Equal(v, w) {
			return false
		}
	}
	return true
}

// crashStates enumerates the distinct consecutive directory states of the observed operation list.
func crashStates(pre map[string][]byte, ops []fsop) []map[string][]byte {
	var out []map[string][]byte
	cur := cloneState(pre)
	last := cloneState(pre)
	push := func() {
		if !sameState(cur, last) {
			out = append(out, cloneState(cur))
			last = cloneState(cur)
		}
	}
	for _, o := range ops {
		switch o.kind {
		case "create":
			cur[o.a] = []byte{}
			push()
		case "write":
			cur[o.a] = []byte{}
			push()
			for i := 1; i <= len(o.data); i++ {
				cur[o.a] = o.data[:i]
				push()
			}
		case "rename":
			cur[o.b] = cur[o.a]
			delete(cur, o.a)
			push()
		case "remove":
			delete(cur, o.a)
			push()
		}
	}
	return out
}

// ---------------------------------------------------------------- one case

type env struct {
	o         *vh.Out
	root      string // temp dir of the case
	dir       string // real cache dir (<root>/real/<hash>)
	sdir      string // scratch cache dir (<root>/scratch/<hash>)
	client    *autoconf.Client
	sclient   *autoconf.Client
	docs      map[int][]byte
	logical   map[string]int // real cache file name -> logical time
	cacheSize int
}

func newClient(base string, size int) *autoconf.Client {
	c, err := autoconf.NewClient(
		autoconf.WithCacheDir(base),
		autoconf.WithURL(srv.URL),
		autoconf.WithCacheSize(size),
		autoconf.WithRefreshInterval(1),
		autoconf.WithFallback(func() *autoconf.Config { return &autoconf.Config{AutoConfVersion: -1} }),
	)
	if err != nil {
		panic(err)
	}
	return c
}

// offline is GetCachedOrRefresh while the server only answers 503: the "cached read with a refresh that
// fails" path (getLatest -> getCached -> fetchFromRemote error -> stale cache or fallback).
func (e *env) offline(c *autoconf.Client) string {
	cur.mu.Lock()
	cur.down = true
	cur.mu.Unlock()
	cfg := c.GetCachedOrRefresh(context.Background())
	cur.mu.Lock()
	cur.down = false
	cur.mu.Unlock()
	return e.verdictOf(cfg)
}

func (e *env) verdict(c *autoconf.Client) string { return e.verdictOf(c.GetCached()) }

func (e *env) verdictOf(cfg *autoconf.Config) string {
	if cfg == nil {
		return "nil"
	}
	if cfg.AutoConfVersion == -1 {
		return "fallback"
	}
	id := int(cfg.AutoConfVersion) - 1000
	if d, ok := e.docs[id]; ok {
		var want autoconf.Config
		if json.Unmarshal(d, &want) == nil && len(want.DNSResolvers) == len(cfg.DNSResolvers) {
			return fmt.Sprintf("v%d", id)
		}
	}
	return fmt.Sprintf("corrupt:%d", cfg.AutoConfVersion)
}

func isCacheName(n string) bool { return strings.HasSuffix(n, ".json") && strings.Contains(n, "autoconf-") }

func realName(ts int64) string { return fmt.Sprintf("autoconf-%d.json", ts) }

// settle waits for the early part of a wall-clock second and renames the cache files so that the file of
// logical time tj is called autoconf-(S-(t-tj)).json where S is the current second.
func (e *env) settle(t int) int64 {
	now := time.Now()
	if now.Nanosecond() > 900_000_000 {
		time.Sleep(time.Duration(1_000_000_000-now.Nanosecond()) + time.Millisecond)
		now = time.Now()
	}
	S := now.Unix()
	e.settleTo(S, t)
	return S
}

// absorb registers cache files the code created (name autoconf-S.json => logical time t) and forgets removed ones.
func (e *env) absorb(S int64, t int) (rolled bool) {
	st := readDirState(e.dir)
	for name := range e.logical {
		if _, ok := st[name]; !ok {
			delete(e.logical, name)
		}
	}
	for name := range st {
		if !isCacheName(name) {
			continue
		}
		if _, ok := e.logical[name]; ok {
			continue
		}
		if name != realName(S) {
			return true // the wall-clock second rolled over during the update
		}
		e.logical[name] = t
	}
	return false
}

// restore puts the real cache directory back into a recorded state.
func (e *env) restore(st map[string][]byte, logical map[string]int) {
	for name := range readDirState(e.dir) {
		if err := os.Remove(filepath.Join(e.dir, name)); err != nil {
			panic(err)
		}
	}
	for name, b := range st {
		if err := os.WriteFile(filepath.Join(e.dir, name), b, 0o600); err != nil {
			panic(err)
		}
	}
	e.logical = map[string]int{}
	for k, v := range logical {
		e.logical[k] = v
	}
}

func (e *env) docID(b []byte) string {
	ids := make([]int, 0, len(e.docs))
	for id := range e.docs {
		ids = append(ids, id)
	}
	sort.Ints(ids)
	for _, id := range ids {
		if bytes.Equal(e.docs[id], b) {
			return strconv.Itoa(id)
		}
	}
	return "junk"
}

// listing is the canonical description of a directory state.
func (e *env) listing(st map[string][]byte, logical map[string]int) string {
	var cfgs, metas []string
	var tmps []int
	for name, b := range st {
		switch {
		case isCacheName(name):
			lt, ok := logical[name]
			if !ok {
				cfgs = append(cfgs, "cfg?"+name)
			} else {
				cfgs = append(cfgs, fmt.Sprintf("%09d=%s", lt, e.docID(b)))
			}
		case name == ".etag" || name == ".last-modified":
			metas = append(metas, name+"="+vh.Hex(b))
		case name == ".last-refresh":
			metas = append(metas, name)
		default:
			tmps = append(tmps, len(b))
		}
	}
	sort.Strings(cfgs)
	sort.Strings(metas)
	sort.Ints(tmps)
	for i, c := range cfgs {
		c = strings.TrimLeft(c, "0")
		if strings.HasPrefix(c, "=") {
			c = "0" + c
		}
		cfgs[i] = "cfg@" + c
	}
	parts := append(cfgs, metas...)
	for _, l := range tmps {
		parts = append(parts, fmt.Sprintf("tmp:%d", l))
	}
	if len(parts) == 0 {
		return "empty"
	}
	return strings.Join(parts, ",")
}

func (e *env) canonName(n string, S int64, t int) string {
	if isCacheName(n) {
		if lt, ok := e.logical[n]; ok {
			return fmt.Sprintf("cfg@%d", lt)
		}
		if n == realName(S) {
			return fmt.Sprintf("cfg@%d", t)
		}
		return "cfg?" + n
	}
	if n == ".etag" || n == ".last-modified" || n == ".last-refresh" {
		return n
	}
	return "tmp"
}

func (e *env) materialise(prev, next map[string][]byte) {
	for name := range prev {
		if _, ok := next[name]; !ok {
			if err := os.Remove(filepath.Join(e.sdir, name)); err != nil {
				panic(err)
			}
		}
	}
	for name, b := range next {
		if p, ok := prev[name]; ok && bytes.Equal(p, b) {
			continue
		}
		if err := os.WriteFile(filepath.Join(e.sdir, name), b, 0o600); err != nil {
			panic(err)
		}
	}
}

// doUpdate performs one real update at logical time t; with trace it also reconstructs every crash state.
func (e *env) doUpdate(f []string, trace bool) {
	o := e.o
	t, id := vh.Atoi(f[1]), vh.Atoi(f[2])
	etag, lm := string(vh.UnHex(f[3])), string(vh.UnHex(f[4]))
	doc := e.docs[id]
	var S int64
	var before string
	var pre map[string][]byte
	var preLogical map[string]int
	var ops []fsop
	var cops []string
	for attempt := 0; ; attempt++ {
		if attempt > 5 {
			panic("wall-clock second keeps rolling over during updates")
		}
		S = e.settle(t)
		before = e.verdict(e.client)
		pre = readDirState(e.dir)
		preLogical = map[string]int{}
		for k, v := range e.logical {
			preLogical[k] = v
		}
		cur.mu.Lock()
		cur.body, cur.etag, cur.lm = doc, etag, lm
		cur.mu.Unlock()
		var w *watcher
		if trace {
			w = newWatcher(e.dir)
		}
		resp, err := e.client.GetLatest(context.Background())
		if err != nil || resp == nil || resp.Config == nil {
			panic(fmt.Sprintf("GetLatest failed: %v", err))
		}
		ops = nil
		if trace {
			ops = w.drain()
		}
		// names of this update, canonical (before absorbing, so that a replaced same-second file keeps its time)
		cops = nil
		for _, op := range ops {
			s := op.kind + ":" + e.canonName(op.a, S, t)
			if op.kind == "rename" {
				s += ">" + e.canonName(op.b, S, t)
			}
			cops = append(cops, s)
		}
		if e.absorb(S, t) {
			e.restore(pre, preLogical)
			time.Sleep(20 * time.Millisecond)
			continue
		}
		break
	}
	post := readDirState(e.dir)
	after := e.verdict(e.client)
	newV := fmt.Sprintf("v%d", id)
	inDomain := t >= maxLogical(preLogical)
	if !inDomain {
		o.Kind("clock-stepped-back")
	}
	if after == "fallback" {
		o.Fail("update-ends-in-fallback", "after a completed update with a valid document GetCached=fallback (%s)", e.listing(post, e.logical))
	}
	if after != newV && inDomain {
		o.Fail("update-not-visible", "after a complete update at the newest time GetCached=%s want %s", after, newV)
	}
	if !trace {
		o.Kind("update")
		o.Emit("%s get=%s", e.listing(post, e.logical), after)
		return
	}
	o.Kind("crash")
	if lost := resolveContents(ops, post, doc); lost > 0 {
		o.Kind("content-lost")
	}
	states := crashStates(pre, ops)
	if len(states) > 0 && !sameState(states[len(states)-1], post) {
		// the reconstruction must end in the real final state (except for .last-refresh when it was lost)
		o.Fail("trace-incomplete", "replaying the observed operations does not give the final directory: %s vs %s",
			e.listing(states[len(states)-1], e.logical), e.listing(post, e.logical))
	}
	// verdict of the real GetCached in every crash state
	prev := readDirState(e.sdir)
	var rle []string
	lastV, cnt := "", 0
	failed := map[string]bool{}
	offDiff := 0
	allLogical := map[string]int{}
	for k, v := range preLogical {
		allLogical[k] = v
	}
	for k, v := range e.logical {
		allLogical[k] = v
	}
	allLogical[realName(S)] = t
	for i, st := range states {
		e.materialise(prev, st)
		prev = st
		v := e.verdict(e.sclient)
		// ---- monitor: the property itself
		if v == "fallback" && !failed["v"] {
			if name := validCacheFile(st); name != "" {
				failed["v"] = true
				o.Fail("fallback-with-valid-cache", "crash state %d/%d (%s): GetCached=fallback although %s holds a valid configuration", i, len(states), e.listing(st, allLogical), e.canonName(name, S, t))
			}
		}
		switch {
		case v == newV || v == before:
		case !inDomain && !strings.HasPrefix(v, "corrupt") && v != "nil" && !(v == "fallback" && before != "fallback"):
			// the clock stepped back behind an existing cache file name: "newest" is not the new file; only
			// model/implementation agreement is checked (stated assumption of the property)
		case v == "fallback":
			if !failed["f"] {
				failed["f"] = true
				o.Fail("crash-fallback", "crash state %d/%d (%s): GetCached=fallback, before the update it was %s", i, len(states), e.listing(st, allLogical), before)
			}
		case strings.HasPrefix(v, "corrupt") || v == "nil":
			if !failed["c"] {
				failed["c"] = true
				o.Fail("crash-corrupt", "crash state %d/%d (%s): GetCached=%s", i, len(states), e.listing(st, allLogical), v)
			}
		default:
			if !failed["o"] {
				failed["o"] = true
				o.Fail("crash-other-version", "crash state %d/%d (%s): GetCached=%s, neither the new %s nor the previous %s", i, len(states), e.listing(st, allLogical), v, newV, before)
			}
		}
		// the same read through GetCachedOrRefresh with the network down
		if i%3 != 0 {
			// (sampled: every third crash state; the driver counts the same ones)
		} else if ov := e.offline(e.sclient); ov != v {
			offDiff++
			if ov == "fallback" && !failed["r"] {
				failed["r"] = true
				o.Fail("refresh-fallback-with-valid-cache", "crash state %d/%d (%s): GetCachedOrRefresh (server down)=fallback, GetCached=%s", i, len(states), e.listing(st, allLogical), v)
			} else if ov != "fallback" && !failed["r2"] {
				failed["r2"] = true
				o.Fail("refresh-differs", "crash state %d/%d (%s): GetCachedOrRefresh (server down)=%s, GetCached=%s", i, len(states), e.listing(st, allLogical), ov, v)
			}
		}
		if v == lastV {
			cnt++
		} else {
			if cnt > 0 {
				rle = append(rle, fmt.Sprintf("%s*%d", lastV, cnt))
			}
			lastV, cnt = v, 1
		}
	}
	if cnt > 0 {
		rle = append(rle, fmt.Sprintf("%s*%d", lastV, cnt))
	}
	// ---- power loss after the rename: the renamed cache file's data is not durable (no fsync): it may be
	// empty or any proper prefix while the directory entry is already there (monitor only; c45_power_loss)
	for _, op := range ops {
		if op.kind != "rename" || !isCacheName(op.b) {
			continue
		}
		if _, existed := pre[op.b]; existed {
			continue // same-second overwrite: the older version is gone either way (outside the theorem)
		}
		full := doc
		for _, i := range []int{0, 1, len(full) / 2, len(full) - 1} {
			if i < 0 || i >= len(full) {
				continue
			}
			st := cloneState(pre)
			st[op.b] = full[:i]
			e.materialise(prev, st)
			prev = st
			o.Kind("power-loss-state")
			if v := e.verdict(e.sclient); v != before && !failed["p"] {
				failed["p"] = true
				o.Fail("power-loss", "new file %s holding %d of %d bytes after a power loss: GetCached=%s, before the update it was %s", e.canonName(op.b, S, t), i, len(full), v, before)
			}
		}
	}
	if len(states) > 10 {
		o.Nontrivial()
	}
	// optionally restart from a crash state
	k := vh.Atoi(f[5])
	if k >= 0 && len(states) > 0 {
		o.Kind("restart-from-crash")
		st := states[k%len(states)]
		lg := map[string]int{}
		for name := range st {
			if isCacheName(name) {
				lg[name] = allLogical[name]
			}
		}
		e.restore(st, lg)
		post = readDirState(e.dir)
		after = e.verdict(e.client)
	}
	if len(rle) == 0 {
		rle = []string{"none"}
	}
	if len(cops) == 0 {
		cops = []string{"none"}
	}
	o.Emit("ops=%s states=%s offline-differs=%d | %s get=%s", strings.Join(cops, ";"), strings.Join(rle, ";"), offDiff, e.listing(post, e.logical), after)
}

// validCacheFile returns the name of a cache file of the state that the real decoder accepts ("" if none).
func validCacheFile(st map[string][]byte) string {
	names := make([]string, 0, len(st))
	for n := range st {
		names = append(names, n)
	}
	sort.Strings(names)
	for _, n := range names {
		if isCacheName(n) {
			var c autoconf.Config
			if json.Unmarshal(st[n], &c) == nil {
				return n
			}
		}
	}
	return ""
}

func maxLogical(m map[string]int) int {
	mx := -1 << 30
	for _, v := range m {
		if v > mx {
			mx = v
		}
	}
	return mx
}

func exec(c vh.Case, o *vh.Out) {
	root, err := os.MkdirTemp(tmpBase(), "c45-")
	if err != nil {
		panic(err)
	}
	defer os.RemoveAll(root)
	e := &env{o: o, root: root, docs: map[int][]byte{}, logical: map[string]int{}, cacheSize: 3}
	hd := hashDir(srv.URL)
	e.dir = filepath.Join(root, "real", hd)
	e.sdir = filepath.Join(root, "scratch", hd)
	for _, d := range []string{e.dir, e.sdir} {
		if err := os.MkdirAll(d, 0o755); err != nil {
			panic(err)
		}
	}
	mk := func() {
		e.client = newClient(filepath.Join(root, "real"), e.cacheSize)
		e.sclient = newClient(filepath.Join(root, "scratch"), e.cacheSize)
	}
	mk()
	for _, line := range c.Ops {
		f := strings.Fields(line)
		switch f[0] {
		case "cfg":
			e.cacheSize = vh.Atoi(f[1])
			mk()
			o.Kind(fmt.Sprintf("cacheSize%d", e.cacheSize))
			o.Emit("ok")
		case "doc":
			b := vh.UnHex(f[2])
			e.docs[vh.Atoi(f[1])] = b
			// the stated law of the parse parameter, checked on the real decoder
			var cfg autoconf.Config
			if json.Unmarshal(b, &cfg) != nil {
				o.Fail("parse-law", "document %s does not parse", f[1])
			}
			for i := 0; i < len(b); i++ {
				var c2 autoconf.Config
				if json.Unmarshal(b[:i], &c2) == nil {
					o.Fail("parse-law", "proper prefix %d of document %s parses", i, f[1])
					break
				}
			}
			o.Emit("ok")
		case "garbage":
			t := vh.Atoi(f[1])
			b := vh.UnHex(f[2])
			var c2 autoconf.Config
			if json.Unmarshal(b, &c2) == nil {
				o.Fail("parse-law", "garbage %q parses", b)
			}
			// place it relative to the newest logical time known (names are re-based before every update)
			base, S := maxLogical(e.logical), time.Now().Unix()
			if len(e.logical) == 0 {
				base = t
			}
			name := realName(S - int64(base-t))
			if _, ok := e.logical[name]; ok {
				o.Kind("garbage-overwrites")
			}
			// re-base first so that existing names are consistent with S
			e.settleTo(S, base)
			if err := os.WriteFile(filepath.Join(e.dir, name), b, 0o600); err != nil {
				panic(err)
			}
			e.logical[name] = t
			o.Kind("garbage")
			o.Emit("ok")
		case "get":
			v := e.verdict(e.client)
			if v == "fallback" {
				if name := validCacheFile(readDirState(e.dir)); name != "" {
					o.Fail("fallback-with-valid-cache", "GetCached=fallback although %s holds a valid configuration", name)
				}
			}
			o.Emit("%s", v)
		case "update":
			e.doUpdate(f, false)
		case "crash":
			e.doUpdate(f, true)
		default:
			o.Emit("bad-op")
		}
	}
}

// settleTo renames the cache files so that logical time `base` is second S.
func (e *env) settleTo(S int64, base int) {
	type mv struct {
		hold, final string
		lt          int
	}
	var mvs []mv
	i := 0
	for name, lt := range e.logical {
		want := realName(S - int64(base-lt))
		if want != name {
			hold := fmt.Sprintf("hold-%d", i)
			i++
			if err := os.Rename(filepath.Join(e.dir, name), filepath.Join(e.dir, hold)); err != nil {
				panic(err)
			}
			mvs = append(mvs, mv{hold, want, lt})
			delete(e.logical, name)
		}
	}
	for _, m := range mvs {
		if err := os.Rename(filepath.Join(e.dir, m.hold), filepath.Join(e.dir, m.final)); err != nil {
			panic(err)
		}
		e.logical[m.final] = m.lt
	}
}

// tmpBase prefers a memory file system (the byte-exhaustive crash enumeration rewrites a file per state).
func tmpBase() string {
	if fi, err := os.Stat("/dev/shm"); err == nil && fi.IsDir() {
		if f, err := os.CreateTemp("/dev/shm", "c45-probe-"); err == nil {
			f.Close()
			os.Remove(f.Name())
			return "/dev/shm"
		}
	}
	return ""
}

func main() {
	time.Local = time.UTC // .last-refresh is then always 20 bytes ("...Z")
	logging.SetLogLevel("autoconf", "fatal")
	if len(os.Args) > 1 && os.Args[1] == "exec" {
		startServer()
		defer srv.Close()
	}
	vh.Main(vh.Config{Gen: gen, Exec: exec})
}
