// C07 harness: drives the real balanced / trickle importers (ipld/unixfs/importer) through
// DagBuilderHelper with a scripted splitter (arbitrary chunk boundaries) or the real size splitter.
package main

import (
	"bytes"
	"context"
	"fmt"
	"io"
	"os"
	"strconv"
	"strings"
	"time"

	chunker "github.com/ipfs/boxo/chunker"
	"github.com/ipfs/boxo/files"
	dag "github.com/ipfs/boxo/ipld/merkledag"
	mdtest "github.com/ipfs/boxo/ipld/merkledag/test"
	ft "github.com/ipfs/boxo/ipld/unixfs"
	"github.com/ipfs/boxo/ipld/unixfs/importer/balanced"
	h "github.com/ipfs/boxo/ipld/unixfs/importer/helpers"
	"github.com/ipfs/boxo/ipld/unixfs/importer/trickle"
	uio "github.com/ipfs/boxo/ipld/unixfs/io"
	pb "github.com/ipfs/boxo/ipld/unixfs/pb"
	cid "github.com/ipfs/go-cid"
	ipld "github.com/ipfs/go-ipld-format"
	mh "github.com/multiformats/go-multihash"

	"verifharness/vh"
)

// scripted splitter: returns the given chunks one by one, then io.EOF
type scripted struct {
	chunks [][]byte
	i      int
}

func (s *scripted) Reader() io.Reader { return bytes.NewReader(nil) }
func (s *scripted) NextBytes() ([]byte, error) {
	if s.i >= len(s.chunks) {
		return nil, io.EOF
	}
	c := s.chunks[s.i]
	s.i++
	return c, nil
}

type importSpec struct {
	layout  string
	w       int
	raw     bool
	cidv    int
	hash    string
	mode    uint32 // unix permission bits
	hasTime bool
	sec     int64
	ns      int64
	spec    string
	toks    []string
}

func parseSpec(f []string) importSpec {
	s := importSpec{layout: f[1], w: vh.Atoi(f[2]), raw: f[3] == "1", cidv: vh.Atoi(f[4]), hash: f[5]}
	s.mode = uint32(vh.Atoi(f[6]))
	if f[7] != "-" {
		p := strings.SplitN(f[7], ".", 2)
		s.hasTime = true
		s.sec, _ = strconv.ParseInt(p[0], 10, 64)
		s.ns, _ = strconv.ParseInt(p[1], 10, 64)
	}
	s.spec = f[8]
	s.toks = f[9:]
	return s
}

func (s importSpec) input() []byte {
	var all []byte
	for _, t := range s.toks {
		all = append(all, vh.UnHex(t)...)
	}
	return all
}

func (s importSpec) splitter() chunker.Splitter {
	if s.spec == "s" {
		cs := make([][]byte, len(s.toks))
		for i, t := range s.toks {
			cs[i] = vh.UnHex(t)
		}
		return &scripted{chunks: cs}
	}
	k := vh.Atoi(s.spec[1:])
	return chunker.NewSizeSplitter(bytes.NewReader(s.input()), int64(k))
}

func (s importSpec) prefix() cid.Prefix {
	p, _ := dag.PrefixForCidVersion(s.cidv)
	if s.hash == "blake" {
		p.MhType = mh.BLAKE2B_MIN + 31
		p.MhLength = -1
	}
	return p
}

func (s importSpec) run(ds ipld.DAGService) (ipld.Node, error) {
	params := h.DagBuilderParams{
		Maxlinks:   s.w,
		RawLeaves:  s.raw,
		CidBuilder: s.prefix(),
		Dagserv:    ds,
		FileMode:   files.UnixPermsToModePerms(s.mode),
	}
	if s.hasTime {
		params.FileModTime = time.Unix(s.sec, s.ns)
	}
	db, err := params.New(s.splitter())
	if err != nil {
		return nil, err
	}
	if s.layout == "bal" {
		return balanced.Layout(db)
	}
	return trickle.Layout(db)
}

func showTime(t time.Time) string {
	if t.IsZero() {
		return "-"
	}
	return fmt.Sprintf("%d.%d", t.Unix(), t.Nanosecond())
}

// info gathered while dumping, used by the monitors
type walk struct {
	ds         ipld.DAGService
	sb         strings.Builder
	leafDepths map[int]bool
	maxKids    int
	sizesOK    bool
	sizesMsg   string
	height     int
}

// dump returns (recorded size of n as the parent would see it, true content)
func (wk *walk) dump(n ipld.Node, depth int) (uint64, []byte) {
	if depth > wk.height {
		wk.height = depth
	}
	switch nd := n.(type) {
	case *dag.RawNode:
		fmt.Fprintf(&wk.sb, "R(%s)", vh.Hex(nd.RawData()))
		wk.leafDepths[depth] = true
		return uint64(len(nd.RawData())), nd.RawData()
	case *dag.ProtoNode:
		fsn, err := ft.FSNodeFromBytes(nd.Data())
		if err != nil {
			panic("not unixfs: " + err.Error())
		}
		ty := "?"
		switch fsn.Type() {
		case pb.Data_File:
			ty = "F"
		case pb.Data_Raw:
			ty = "W"
		}
		bss := make([]string, len(fsn.BlockSizes()))
		for i, b := range fsn.BlockSizes() {
			bss[i] = strconv.FormatUint(b, 10)
		}
		data := "-"
		if len(nd.Links()) == 0 {
			data = vh.Hex(fsn.Data())
		} else if len(fsn.Data()) > 0 {
			data = "!" + vh.Hex(fsn.Data())
		}
		fmt.Fprintf(&wk.sb, "P(%s;%d;%s;%s;%d;%s)", ty, fsn.FileSize(), data, strings.Join(bss, ","),
			files.ModePermsToUnixPerms(fsn.Mode()), showTime(fsn.ModTime()))
		if len(nd.Links()) == 0 {
			wk.leafDepths[depth] = true
			if fsn.FileSize() != uint64(len(fsn.Data())) {
				wk.sizesOK, wk.sizesMsg = false, fmt.Sprintf("leaf filesize %d != len(data) %d", fsn.FileSize(), len(fsn.Data()))
			}
			return fsn.FileSize(), fsn.Data()
		}
		if len(nd.Links()) > wk.maxKids {
			wk.maxKids = len(nd.Links())
		}
		if len(nd.Links()) != len(fsn.BlockSizes()) {
			wk.sizesOK, wk.sizesMsg = false, fmt.Sprintf("%d links but %d blocksizes", len(nd.Links()), len(fsn.BlockSizes()))
		}
		wk.sb.WriteString("[")
		var content []byte
		var sum uint64
		for i, l := range nd.Links() {
			c, err := l.GetNode(context.Background(), wk.ds)
			if err != nil {
				panic("missing child: " + err.Error())
			}
			rec, cc := wk.dump(c, depth+1)
			if i < len(fsn.BlockSizes()) {
				sum += fsn.BlockSize(i)
				if fsn.BlockSize(i) != rec || rec != uint64(len(cc)) {
					wk.sizesOK = false
					wk.sizesMsg = fmt.Sprintf("blocksize[%d]=%d child size=%d child content=%d", i, fsn.BlockSize(i), rec, len(cc))
				}
			}
			content = append(content, cc...)
		}
		wk.sb.WriteString("]")
		if sum != fsn.FileSize() {
			wk.sizesOK, wk.sizesMsg = false, fmt.Sprintf("filesize %d != sum of blocksizes %d", fsn.FileSize(), sum)
		}
		return fsn.FileSize(), content
	}
	panic("unexpected node type")
}

// preorder lists every node of the DAG, root first
func preorder(ds ipld.DAGService, n ipld.Node, visit func(ipld.Node)) {
	visit(n)
	for _, l := range n.Links() {
		c, err := l.GetNode(context.Background(), ds)
		if err != nil {
			panic("missing child: " + err.Error())
		}
		preorder(ds, c, visit)
	}
}

func exec(c vh.Case, o *vh.Out) {
	var lastRoot ipld.Node
	var lastDS ipld.DAGService
	for _, line := range c.Ops {
		f := strings.Fields(line)
		if f[0] == "blocks" && lastRoot != nil {
			// the bytes of every block, pre-order; the CIDs the model was given must be the real ones
			var blocks []string
			i := 0
			preorder(lastDS, lastRoot, func(n ipld.Node) {
				blocks = append(blocks, vh.Hex(n.RawData()))
				if i+1 >= len(f) || f[i+1] != vh.Hex(n.Cid().Bytes()) {
					o.Fail("cid-table-mismatch", "node %d: CID given to the model differs from the CID of this run", i)
				}
				// a CID is the hash of the block bytes under the node's prefix: re-derive it
				if c2, err := n.Cid().Prefix().Sum(n.RawData()); err != nil || !c2.Equals(n.Cid()) {
					o.Fail("cid-not-hash-of-bytes", "node %d: CID is not prefix.Sum(RawData)", i)
				}
				i++
			})
			if i != len(f)-1 {
				o.Fail("cid-table-mismatch", "%d nodes, %d CIDs given", i, len(f)-1)
			}
			o.Kind("blocks")
			o.Emit("%s", strings.Join(blocks, ","))
			continue
		}
		if f[0] != "imp" || len(f) < 9 {
			o.Emit("bad-op")
			continue
		}
		s := parseSpec(f)
		ds := mdtest.Mock()
		root, err := s.run(ds)
		if err != nil {
			o.Kind("import-error")
			o.Emit("error")
			continue
		}
		// Everything below is read from the PERSISTED DAG: the root is fetched again from the DAG service by
		// the CID Layout returned (the in-memory node may differ from what was stored).
		inMem := root
		root, err = ds.Get(context.Background(), inMem.Cid())
		if err != nil {
			o.Fail("root-not-persisted", "the root %s returned by Layout cannot be fetched from the DAG service: %v", inMem.Cid(), err)
			o.Emit("error")
			continue
		}
		if !bytes.Equal(root.RawData(), inMem.RawData()) {
			o.Fail("root-not-persisted", "the block stored under the root CID differs from the node Layout returned")
		}
		lastRoot, lastDS = root, ds
		wk := &walk{ds: ds, leafDepths: map[int]bool{}, sizesOK: true}
		recSize, content := wk.dump(root, 0)
		o.Kind(s.layout)
		o.Kind(fmt.Sprintf("height%d", min(wk.height, 6)))
		if s.raw {
			o.Kind("rawleaves")
		}
		if s.spec != "s" {
			o.Kind("size-splitter")
		}
		input := s.input()

		// ---- monitors: the property's predicates evaluated on the real DAG
		dr, err := uio.NewDagReader(context.Background(), root, ds)
		if err != nil {
			o.Fail("reader-error", "NewDagReader: %v", err)
		} else {
			got, err := io.ReadAll(dr)
			if err != nil || !bytes.Equal(got, input) {
				o.Fail("content-mismatch", "DagReader returned %d bytes (err=%v), input has %d", len(got), err, len(input))
			}
			if dr.Size() != uint64(len(input)) {
				o.Fail("size-mismatch", "DagReader.Size()=%d input=%d", dr.Size(), len(input))
			}
		}
		if !bytes.Equal(content, input) {
			o.Fail("content-mismatch", "leaves concatenate to %d bytes, input has %d", len(content), len(input))
		}
		readBackPartial(o, s, root, ds, input)
		if recSize != uint64(len(input)) {
			o.Fail("size-mismatch", "root records %d, input has %d", recSize, len(input))
		}
		if !wk.sizesOK {
			o.Fail("sizes-inconsistent", "%s", wk.sizesMsg)
		}
		if s.layout == "bal" {
			if len(wk.leafDepths) != 1 {
				o.Fail("bal-shape", "leaves at %d different depths", len(wk.leafDepths))
			}
			if wk.maxKids > s.w {
				o.Fail("bal-shape", "node with %d children, width %d", wk.maxKids, s.w)
			}
		} else {
			p := s.prefix()
			err := trickle.VerifyTrickleDagStructure(root, trickle.VerifyParams{
				Getter: ds, Direct: s.w, LayerRepeat: 4, Prefix: &p, RawLeaves: s.raw,
			})
			if err != nil {
				o.Fail("tri-shape", "VerifyTrickleDagStructure: %v", err)
			}
		}
		if s.mode != 0 || s.hasTime {
			var gotMode uint32
			var gotTime time.Time
			isRaw := false
			switch nd := root.(type) {
			case *dag.RawNode:
				isRaw = true
			case *dag.ProtoNode:
				fsn, _ := ft.FSNodeFromBytes(nd.Data())
				gotMode = files.ModePermsToUnixPerms(fsn.Mode())
				gotTime = fsn.ModTime()
			}
			wantTime := time.Time{}
			if s.hasTime {
				wantTime = time.Unix(s.sec, s.ns)
			}
			if gotMode != s.mode || !gotTime.Equal(wantTime) {
				if isRaw {
					o.Kind("attrs-on-raw-root")
					o.Fail("attrs-dropped-raw-root", "root is a RawNode: requested mode=%o mtime=%s not stored", s.mode, showTime(wantTime))
				} else {
					o.Fail("attrs-wrong", "mode=%o mtime=%s, requested mode=%o mtime=%s", gotMode, showTime(gotTime), s.mode, showTime(wantTime))
				}
			} else {
				o.Kind("attrs-kept")
			}
		}
		// determinism: a second import into a fresh DAG service gives the same root CID
		root2, err := s.run(mdtest.Mock())
		if err != nil || !root2.Cid().Equals(root.Cid()) {
			o.Fail("nondeterministic", "second import gave a different root (err=%v)", err)
		}
		if s.cidv == 0 && root.Cid().Version() != 0 && !isRawNode(root) {
			o.Fail("cid-version", "CIDv0 requested, root is %s", root.Cid())
		}
		if wk.height >= 2 {
			o.Nontrivial()
		}
		o.Emit("%s", wk.sb.String())
	}
}

// readBackPartial reads the imported file back the way a consumer streams it: a Read (or Seek) that ends
// INSIDE a leaf, then WriteTo for the rest, then the position must be the size and a relative seek back
// must deliver the tail (byte-array reader semantics, the spec of C09).
func readBackPartial(o *vh.Out, s importSpec, root ipld.Node, ds ipld.DAGService, input []byte) {
	if len(input) < 2 {
		return
	}
	// chunk boundaries of the import
	bound := map[int]bool{0: true}
	if s.spec == "s" {
		at := 0
		for _, t := range s.toks {
			at += len(vh.UnHex(t))
			bound[at] = true
		}
	} else {
		k := vh.Atoi(s.spec[1:])
		for at := 0; at <= len(input); at += k {
			bound[at] = true
		}
	}
	k := -1
	for c := len(input) / 2; c < len(input); c++ { // first offset from the middle on that is inside a leaf
		if !bound[c] {
			k = c
			break
		}
	}
	if k < 0 {
		for c := 1; c < len(input)/2; c++ {
			if !bound[c] {
				k = c
				break
			}
		}
	}
	if k < 0 {
		o.Kind("readback-aligned-only")
		k = len(input) / 2
	} else {
		o.Kind("readback-inside-leaf")
	}
	for _, how := range []string{"read", "seek"} {
		dr, err := uio.NewDagReader(context.Background(), root, ds)
		if err != nil {
			o.Fail("reader-error", "NewDagReader: %v", err)
			return
		}
		if how == "read" {
			buf := make([]byte, k)
			n, err := io.ReadFull(dr, buf)
			if n != k || err != nil || !bytes.Equal(buf, input[:k]) {
				o.Fail("readback-bytes", "Read(%d) = (%d,%v), wrong prefix", k, n, err)
				return
			}
		} else if p, err := dr.Seek(int64(k), io.SeekStart); p != int64(k) || err != nil {
			o.Fail("readback-position", "Seek(%d,Start) = (%d,%v)", k, p, err)
			return
		}
		var rest bytes.Buffer
		n, err := dr.WriteTo(&rest)
		if err != nil || n != int64(len(input)-k) || !bytes.Equal(rest.Bytes(), input[k:]) {
			o.Fail("readback-bytes", "%s to %d then WriteTo = (%d,%v), expected the last %d bytes", how, k, n, err, len(input)-k)
			return
		}
		if p, err := dr.Seek(0, io.SeekCurrent); p != int64(len(input)) || err != nil {
			o.Fail("readback-position", "%s to %d, WriteTo, then Seek(0,Current) = (%d,%v), size is %d", how, k, p, err, len(input))
			return
		}
		j := min(3, len(input))
		if p, err := dr.Seek(int64(-j), io.SeekCurrent); p != int64(len(input)-j) || err != nil {
			o.Fail("readback-position", "Seek(-%d,Current) after WriteTo = (%d,%v), expected %d", j, p, err, len(input)-j)
			return
		}
		tail, err := io.ReadAll(dr)
		if err != nil || !bytes.Equal(tail, input[len(input)-j:]) {
			o.Fail("readback-bytes", "after Seek(-%d,Current): read %x (err=%v), expected %x", j, tail, err, input[len(input)-j:])
			return
		}
	}
}

func isRawNode(n ipld.Node) bool { _, ok := n.(*dag.RawNode); return ok }

func gen(r *vh.Rand, tier string, n int, emit func(vh.Case)) {
	for i := 0; i < n; i++ {
		c := vh.Case{ID: strconv.Itoa(i)}
		lay := vh.Pick(r, []string{"bal", "tri"})
		var w int
		switch {
		case r.Chance(7, 10):
			w = r.Range(2, 5)
		case r.Chance(2, 3):
			w = r.Range(6, 16)
		default:
			w = vh.Pick(r, []int{17, 32, 174, 1024})
		}
		if lay == "tri" && r.Chance(1, 12) {
			w = 1
		}
		maxChunks := 60
		if tier == "thorough" {
			maxChunks = 400
		}
		var nch int
		switch {
		case r.Chance(1, 6):
			nch = r.Intn(3)
		case r.Chance(1, 2):
			nch = r.Intn(w*w + 2)
		default:
			nch = r.Intn(maxChunks + 1)
		}
		if nch > maxChunks && w <= 16 {
			nch = maxChunks
		}
		if w > 16 {
			// wide nodes: a few chunks, or (rarely) just above one full layer
			if r.Chance(1, 4) && w <= 174 || tier == "thorough" && r.Chance(1, 10) {
				nch = w + r.Intn(w+3)
			} else {
				nch = r.Intn(40)
			}
		}
		raw := r.Bool()
		cidv := r.Intn(2)
		hash := "sha"
		if cidv == 1 && r.Chance(1, 3) {
			hash = "blake"
		}
		mode, mtime := 0, "-"
		if r.Chance(1, 2) {
			mode = vh.Pick(r, []int{0o644, 0o755, 0o1, 0o7777, 0o4000, 0o1000, 0o600})
		}
		if r.Chance(1, 2) {
			sec := vh.Pick(r, []int64{0, 1, -1, 1700000000, -86400, 4102444800})
			ns := vh.Pick(r, []int64{0, 0, 1, 999999999, 500})
			mtime = fmt.Sprintf("%d.%d", sec, ns)
		}
		var toks []string
		spec := "s"
		if r.Chance(1, 6) {
			k := r.Range(1, 9)
			spec = "z" + strconv.Itoa(k)
			ln := r.Intn(k*maxChunks/2 + 1)
			if ln > 0 {
				toks = []string{vh.Hex(r.Bytes(ln))}
			}
		} else {
			for j := 0; j < nch; j++ {
				ln := 1
				if r.Chance(1, 3) {
					ln = r.Range(1, 5)
				}
				toks = append(toks, vh.Hex(r.Bytes(ln)))
			}
		}
		op := fmt.Sprintf("imp %s %d %d %d %s %d %s %s", lay, w, b2i(raw), cidv, hash, mode, mtime, spec)
		if len(toks) > 0 {
			op += " " + strings.Join(toks, " ")
		}
		c.Ops = append(c.Ops, op)
		// byte-level tie: give the model the CID of every node (the hash is a parameter of the model)
		if w <= 16 || nch <= 40 {
			sp := parseSpec(strings.Fields(op))
			ds := mdtest.Mock()
			if root, err := sp.run(ds); err == nil {
				var cids []string
				preorder(ds, root, func(n ipld.Node) { cids = append(cids, vh.Hex(n.Cid().Bytes())) })
				c.Ops = append(c.Ops, "blocks "+strings.Join(cids, " "))
			}
		}
		emit(c)
	}
}

func b2i(b bool) int {
	if b {
		return 1
	}
	return 0
}

var _ = os.Stdout

func main() { vh.Main(vh.Config{Gen: gen, Exec: exec}) }
