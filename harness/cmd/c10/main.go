// C10 harness: drives the real mod.DagModifier over a file imported with the balanced or trickle layout
// (scripted chunk boundaries), and checks every result against a byte-array file model (the monitor).
package main

import (
	"bytes"
	"context"
	"errors"
	"fmt"
	"io"
	"strconv"
	"strings"
	"time"

	chunker "github.com/ipfs/boxo/chunker"
	dag "github.com/ipfs/boxo/ipld/merkledag"
	mdtest "github.com/ipfs/boxo/ipld/merkledag/test"
	"github.com/ipfs/boxo/ipld/unixfs/importer/balanced"
	h "github.com/ipfs/boxo/ipld/unixfs/importer/helpers"
	"github.com/ipfs/boxo/ipld/unixfs/importer/trickle"
	uio "github.com/ipfs/boxo/ipld/unixfs/io"
	"github.com/ipfs/boxo/files"
	"github.com/ipfs/boxo/ipld/unixfs/mod"
	ipld "github.com/ipfs/go-ipld-format"
	mh "github.com/multiformats/go-multihash"

	"verifharness/ufsx"
	"verifharness/vh"
)

func errClass(err error) string {
	switch {
	case err == nil:
		return "nil"
	case errors.Is(err, io.EOF):
		return "eof"
	}
	return "err"
}

// the reference: a byte-array file with a position (see docs/notes/C10.md for the chosen semantics)
type ref struct {
	b      []byte
	pos    int64
	anchor int64 // position left by the last write / seek (reads do not move it)
	broken bool // a divergence was already reported for this case
}

// a write at offset off (even of zero bytes) extends the file with zeros up to off first
func (r *ref) writeAt(p []byte, off int64) {
	if end := off + int64(len(p)); end > int64(len(r.b)) {
		r.resize(end)
	}
	copy(r.b[off:], p)
}

func (r *ref) resize(n int64) {
	if n <= int64(len(r.b)) {
		r.b = r.b[:n]
		return
	}
	nb := make([]byte, n)
	copy(nb, r.b)
	r.b = nb
}

type session struct {
	mode    uint32    // unix permission bits requested at import (0 = none)
	mtime   time.Time // mtime requested at import (zero = none)
	started time.Time
	initial ipld.Node
	ds   ipld.DAGService
	dm   *mod.DagModifier
	w    int
	raw  bool
	ref  ref
	o    *vh.Out
	opNo int
}

func (s *session) fail(sig, format string, a ...any) {
	if s.ref.broken {
		return
	}
	s.ref.broken = true
	if strings.Contains(fmt.Sprintf(format, a...), "identity digest") {
		sig = "identity-overflow" // a node got an identity CID above the 128 byte limit
	}
	s.o.Fail(sig, "op %d: %s", s.opNo, fmt.Sprintf(format, a...))
}

// rootTimeLabel canonicalises the root's mtime: the one requested at import, or "R" for a refreshed one
func (s *session) rootTimeLabel(t time.Time) string {
	switch {
	case t.IsZero():
		return "-"
	case t.Equal(s.mtime):
		return ufsx.ShowTime(t)
	}
	if s.mtime.IsZero() || t.Before(s.started.Add(-time.Second)) {
		s.fail("mtime-wrong", "root mtime became %s (requested %s)", ufsx.ShowTime(t), ufsx.ShowTime(s.mtime))
	}
	return "R"
}

func buildInitial(ds ipld.DAGService, lay string, w int, raw bool, cidv int, hash string, chunks [][]byte, mode uint32, mtime time.Time) (ipld.Node, error) {
	prefix, _ := dag.PrefixForCidVersion(cidv)
	switch hash {
	case "blake":
		prefix.MhType, prefix.MhLength = mh.BLAKE2B_MIN+31, -1
	case "id":
		prefix.MhType, prefix.MhLength = mh.IDENTITY, -1
	}
	params := h.DagBuilderParams{Maxlinks: w, RawLeaves: raw, CidBuilder: prefix, Dagserv: ds,
		FileMode: files.UnixPermsToModePerms(mode), FileModTime: mtime}
	db, err := params.New(&ufsx.Scripted{Chunks: chunks})
	if err != nil {
		return nil, err
	}
	if lay == "bal" {
		return balanced.Layout(db)
	}
	return trickle.Layout(db)
}

func exec(c vh.Case, o *vh.Out) {
	var s *session
	defer mod.SetWriteBufferSizeForVerif(mod.SetWriteBufferSizeForVerif(1 << 21))
	ctx := context.Background()
	for i, line := range c.Ops {
		f := strings.Fields(line)
		var mode uint32
		var mtime time.Time
		if f[0] == "initm" && len(f) >= 10 {
			// initm <mode> <sec.ns|-> + the arguments of init: the file is imported with mode / mtime
			mode = uint32(vh.Atoi(f[1]))
			if f[2] != "-" {
				p := strings.SplitN(f[2], ".", 2)
				sec, _ := strconv.ParseInt(p[0], 10, 64)
				ns, _ := strconv.ParseInt(p[1], 10, 64)
				mtime = time.Unix(sec, ns)
			}
			f = append([]string{"init"}, f[3:]...)
			o.Kind("with-attrs")
		}
		if f[0] == "init" && len(f) >= 8 {
			s = &session{ds: mdtest.Mock(), w: vh.Atoi(f[2]), raw: f[3] == "1", o: o, mode: mode, mtime: mtime, started: time.Now()}
			chunks := ufsx.Chunks(f[8:])
			root, err := buildInitial(s.ds, f[1], s.w, s.raw, vh.Atoi(f[4]), f[5], chunks, mode, mtime)
			if err != nil {
				o.Emit("error")
				s = nil
				continue
			}
			dm, err := mod.NewDagModifier(ctx, root, s.ds, chunker.SizeSplitterGen(int64(vh.Atoi(f[6]))))
			if err != nil {
				o.Emit("error")
				s = nil
				continue
			}
			dm.MaxLinks = s.w
			dm.RawLeaves = s.raw
			mod.SetWriteBufferSizeForVerif(vh.Atoi(f[7]))
			s.dm = dm
			s.initial = root
			s.ref.b = ufsx.Concat(chunks)
			wk := ufsx.NewWalk(s.ds)
			wk.CanonLeaf = true
			wk.RootTimeLabel = s.rootTimeLabel
			wk.Dump(root, 0)
			o.Kind("init-" + f[1])
			o.Kind(fmt.Sprintf("init-height%d", min(wk.Height, 3)))
			if f[5] == "id" {
				o.Kind("identity")
			}
			o.Emit("%s", wk.SB.String())
			continue
		}
		if s == nil {
			o.Emit("bad-op")
			continue
		}
		s.opNo = i
		switch f[0] {
		case "write", "writeat":
			var n int
			var err error
			var data []byte
			off := s.ref.pos
			if f[0] == "write" {
				data = vh.UnHex(f[1])
				n, err = s.dm.Write(data)
			} else {
				off = int64(vh.Atoi(f[1]))
				data = vh.UnHex(f[2])
				n, err = s.dm.WriteAt(data, off)
			}
			o.Kind(f[0])
			if off < 0 {
				// io.WriterAt: a negative offset is an error and changes nothing
				o.Kind("negative-arg")
				if err == nil {
					s.fail("negative-offset-accepted", "WriteAt at %d accepted (n=%d)", off, n)
				}
				o.Emit("n=%d err=%s", n, errClass(err))
				continue
			}
			if err != nil || n != len(data) {
				s.fail(f[0]+"-error", "%s returned n=%d err=%v for %d bytes", f[0], n, err, len(data))
			}
			s.ref.writeAt(data, off)
			s.ref.pos = off + int64(len(data))
			s.ref.anchor = s.ref.pos
			o.Emit("n=%d err=%s", n, errClass(err))
		case "seek":
			off, whence := int64(vh.Atoi(f[1])), vh.Atoi(f[2])
			got, err := s.dm.Seek(off, whence)
			o.Kind("seek" + f[2])
			var target int64
			valid := true
			switch whence {
			case io.SeekStart:
				target = off
			case io.SeekCurrent:
				target = s.ref.pos + off
			case io.SeekEnd:
				target = int64(len(s.ref.b)) + off
			default:
				valid = false
			}
			switch {
			case !valid:
				if err == nil {
					s.fail("seek-bad-whence-accepted", "whence %d accepted", whence)
				}
			case target < 0:
				o.Kind("seek-negative")
				if err == nil {
					s.fail("seek-negative-accepted", "Seek(%d,%d) to %d accepted, returned %d", off, whence, target, got)
				}
			default:
				if err != nil || got != target {
					sig := "seek-wrong"
					if whence == io.SeekEnd && off != 0 && err == nil && got == int64(len(s.ref.b))-off {
						sig = "seekend-sign-inverted"
					}
					s.fail(sig, "Seek(%d,%d) = (%d,%v), file model says %d (size %d, pos %d)", off, whence, got, err, target, len(s.ref.b), s.ref.pos)
				}
				s.ref.pos = target
				s.ref.anchor = target
				if target > int64(len(s.ref.b)) {
					o.Kind("seek-past-end")
					s.ref.resize(target)
				}
			}
			o.Emit("pos=%d err=%s", got, errClass(err))
		case "read", "readfull":
			k := vh.Atoi(f[1])
			buf := make([]byte, k)
			var n int
			var err error
			if f[0] == "read" {
				n, err = s.dm.Read(buf)
			} else {
				n, err = s.dm.CtxReadFull(ctx, buf)
			}
			o.Kind(f[0])
			want := []byte{}
			if s.ref.pos < int64(len(s.ref.b)) {
				want = s.ref.b[s.ref.pos:min(int64(len(s.ref.b)), s.ref.pos+int64(k))]
			}
			if n != len(want) || !bytes.Equal(buf[:n], want) || (err != nil && !errors.Is(err, io.EOF)) {
				s.fail("read-wrong", "%s(%d) at %d = (%d,%x,%v), file model says %x", f[0], k, s.ref.pos, n, buf[:max(n, 0)], err, want)
			}
			s.ref.pos += int64(len(want))
			// whether io.EOF is reported together with a completely filled buffer depends on leaf
			// boundaries inside the reader (C09); here: eof iff the buffer was not filled
			ec := errClass(err)
			if n == k && ec == "eof" {
				ec = "nil"
			}
			if n < k && ec == "nil" {
				s.fail("read-short-without-eof", "%s(%d) returned %d bytes and no error", f[0], k, n)
			}
			o.Emit("n=%d data=%s err=%s", n, vh.Hex(buf[:max(n, 0)]), ec)
		case "trunc":
			size := int64(vh.Atoi(f[1]))
			err := s.dm.Truncate(size)
			o.Kind("trunc")
			if size < 0 {
				o.Kind("negative-arg")
				if err == nil {
					s.fail("negative-size-accepted", "Truncate(%d) accepted", size)
				}
				o.Emit("err=%s", errClass(err))
				continue
			}
			if err != nil {
				s.fail("trunc-error", "Truncate(%d): %v", size, err)
			}
			// cutting below an offset that was only reached by reading takes it back to
			// max(anchor, size); an offset left by a write or seek stays (see Spec.lean)
			if size < int64(len(s.ref.b)) && s.ref.pos > size {
				o.Kind("trunc-below-pos")
				s.ref.pos = max(s.ref.anchor, size)
			}
			s.ref.resize(size)
			o.Emit("err=%s", errClass(err))
		case "size":
			sz, err := s.dm.Size()
			if err != nil || sz != int64(len(s.ref.b)) {
				s.fail("size-wrong", "Size() = (%d,%v), file model says %d", sz, err, len(s.ref.b))
			}
			o.Emit("size=%d err=%s", sz, errClass(err))
		case "sync":
			err := s.dm.Sync()
			if err != nil {
				s.fail("sync-error", "Sync: %v", err)
			}
			o.Emit("err=%s", errClass(err))
		case "haschanges":
			o.Emit("%v", s.dm.HasChanges())
		case "getnode":
			nd, err := s.dm.GetNode()
			if err != nil {
				s.fail("getnode-error", "GetNode: %v", err)
				o.Emit("error")
				continue
			}
			wk := ufsx.NewWalk(s.ds)
			wk.CanonLeaf = true
			wk.RootTimeLabel = s.rootTimeLabel
			rec, leaves := wk.Dump(nd, 0)
			if gm, _, isRaw := ufsx.RootAttrs(nd); !isRaw && s.mode != 0 && gm != s.mode {
				if _, _, wasRaw := ufsx.RootAttrs(s.initial); !wasRaw {
					s.fail("mode-lost", "root mode %o, imported with %o", gm, s.mode)
				}
			}
			o.Kind(fmt.Sprintf("height%d", min(wk.Height, 4)))
			dr, err := uio.NewDagReader(ctx, nd, s.ds)
			var got []byte
			if err == nil {
				got, err = io.ReadAll(dr)
			}
			if err != nil || !bytes.Equal(got, s.ref.b) {
				sig := "getnode-content"
				if !wk.SizesOK && strings.Contains(wk.SizesMsg, "internal node carries") {
					sig = "data-under-links-lost"
				}
				s.fail(sig, "GetNode reads back %d bytes (err=%v), file model has %d; %s", len(got), err, len(s.ref.b), wk.SizesMsg)
			} else if !bytes.Equal(leaves, s.ref.b) || rec != uint64(len(s.ref.b)) || !wk.SizesOK {
				s.fail("sizes-inconsistent", "root records %d, leaves hold %d, model %d; %s", rec, len(leaves), len(s.ref.b), wk.SizesMsg)
			}
			if !s.ref.broken && wk.Height >= 2 {
				o.Nontrivial()
			}
			o.Emit("%s", wk.SB.String())
		default:
			o.Emit("bad-op")
		}
	}
}

func gen(r *vh.Rand, tier string, n int, emit func(vh.Case)) {
	for i := 0; i < n; i++ {
		c := vh.Case{ID: strconv.Itoa(i)}
		lay := vh.Pick(r, []string{"tri", "tri", "bal"})
		w := r.Range(2, 4)
		if r.Chance(1, 5) {
			w = r.Range(5, 8)
		}
		raw := r.Intn(2)
		cidv := r.Intn(2)
		hash := "sha"
		if cidv == 1 && r.Chance(1, 4) {
			hash = "blake"
		}
		k := r.Range(1, 6) // chunk size of the modifier's splitter
		wbs := vh.Pick(r, []int{4, 16, 16, 64, 1 << 21})
		nch := r.Intn(25)
		switch r.Intn(5) {
		case 0:
			nch = 0
		case 1:
			nch = 1
		}
		if cidv == 1 && nch <= 1 && r.Chance(1, 3) {
			hash = "id"
		}
		toks := make([]string, nch)
		total := 0
		for j := range toks {
			ln := r.Range(1, k)
			if hash == "id" {
				ln = r.Range(1, 6)
			}
			total += ln
			toks[j] = vh.Hex(r.Bytes(ln))
		}
		initOp := strings.TrimSpace(fmt.Sprintf("init %s %d %d %d %s %d %d %s", lay, w, raw, cidv, hash, k, wbs, strings.Join(toks, " ")))
		if r.Chance(1, 4) {
			// a file imported with mode and / or mtime: the modifier keeps the mode and refreshes the mtime in places
			mode, mtime := 0, "-"
			if r.Chance(2, 3) {
				mode = vh.Pick(r, []int{0o644, 0o755})
			}
			if mode == 0 || r.Chance(2, 3) {
				mtime = vh.Pick(r, []string{"1000.0", "1700000000.5"})
			}
			initOp = fmt.Sprintf("initm %d %s %s", mode, mtime, strings.TrimPrefix(initOp, "init "))
		}
		c.Ops = append(c.Ops, initOp)
		size := total // rough running size, only to aim offsets
		nops := r.Range(1, 20)
		if tier == "thorough" {
			nops = r.Range(1, 30)
		}
		for j := 0; j < nops; j++ {
			data := func() string {
				ln := r.Intn(9)
				if r.Chance(1, 8) {
					ln = r.Range(9, 40)
				}
				return vh.Hex(r.Bytes(ln))
			}
			offset := func() int {
				switch r.Intn(6) {
				case 0:
					return 0
				case 1:
					return size
				case 2:
					return size + r.Intn(12)
				default:
					return r.Intn(size + 1)
				}
			}
			if r.Chance(1, 10) {
				// Truncate below the current position, then Write (position reached by reading or by writing)
				if r.Bool() {
					c.Ops = append(c.Ops, fmt.Sprintf("seek %d 0", r.Intn(size+1)), fmt.Sprintf("read %d", r.Range(1, 12)))
				} else {
					d := data()
					c.Ops = append(c.Ops, "write "+d)
					size += len(d) / 2
				}
				t := r.Intn(size/2 + 1)
				d := data()
				c.Ops = append(c.Ops, fmt.Sprintf("trunc %d", t), "write "+d, "seek 0 1", "getnode")
				size = t + len(d)/2 + 12
				continue
			}
			if r.Chance(1, 30) || (hash == "id" && r.Chance(1, 6)) {
				// a hole of more than 128 bytes: sparse expansion in 4096-byte zero blocks (with an identity prefix the
				// new leaves exceed the identity digest limit)
				far := size + r.Range(129, 400)
				switch r.Intn(3) {
				case 0:
					c.Ops = append(c.Ops, fmt.Sprintf("seek %d 0", far))
				case 1:
					c.Ops = append(c.Ops, fmt.Sprintf("trunc %d", far))
				default:
					c.Ops = append(c.Ops, fmt.Sprintf("writeat %d %s", far, data()))
				}
				c.Ops = append(c.Ops, "size", "getnode")
				size = far + 40
				continue
			}
			switch r.Intn(12) {
			case 0, 1:
				d := data()
				c.Ops = append(c.Ops, "write "+d)
				size += len(d) / 2
			case 2, 3:
				d, off := data(), offset()
				if r.Chance(1, 25) {
					off = -r.Range(1, 3)
				}
				c.Ops = append(c.Ops, fmt.Sprintf("writeat %d %s", off, d))
				if off+len(d)/2 > size {
					size = off + len(d)/2
				}
			case 4, 5:
				whence := r.Intn(3)
				var off int
				switch whence {
				case 0:
					off = offset()
					if r.Chance(1, 10) {
						off = -r.Range(1, 4)
					}
				case 1:
					off = r.Range(-6, 6)
				default:
					off = r.Range(-size-2, 4)
					if r.Chance(1, 3) {
						off = 0
					}
				}
				if r.Chance(1, 40) {
					whence = 7
				}
				c.Ops = append(c.Ops, fmt.Sprintf("seek %d %d", off, whence))
			case 6:
				c.Ops = append(c.Ops, fmt.Sprintf("read %d", r.Intn(12)))
			case 7:
				c.Ops = append(c.Ops, fmt.Sprintf("readfull %d", r.Intn(12)))
			case 8:
				t := offset()
				if r.Chance(1, 25) {
					c.Ops = append(c.Ops, fmt.Sprintf("trunc %d", -r.Range(1, 3)))
					continue
				}
				c.Ops = append(c.Ops, fmt.Sprintf("trunc %d", t))
				size = t
			case 9:
				c.Ops = append(c.Ops, vh.Pick(r, []string{"size", "sync", "haschanges", "size"}))
			default:
				c.Ops = append(c.Ops, "getnode")
			}
		}
		c.Ops = append(c.Ops, "size", "getnode")
		emit(c)
	}
}

func main() { vh.Main(vh.Config{Gen: gen, Exec: exec}) }
