// C06 harness: drives the real chunker package (FromString + NextBytes) through fragmenting readers.
//
// Ops (see /verif/lean/Drivers/C06.lean for the operand syntax):
//
//	parse <spec-hex>
//	split <spec-hex> <ewd> <frags> <input> <cands>
package main

import (
	"bytes"
	"encoding/hex"
	"errors"
	"fmt"
	"io"
	"math/bits"
	"reflect"
	"strconv"
	"strings"

	chunk "github.com/ipfs/boxo/chunker"

	"verifharness/vh"
)

// ---------------------------------------------------------------- inputs

func randBytes(seed uint64, n int) []byte {
	out := make([]byte, n)
	s := seed
	var z uint64
	for i := 0; i < n; i++ {
		if i%8 == 0 {
			s += 0x9E3779B97F4A7C15
			z = s
			z = (z ^ (z >> 30)) * 0xBF58476D1CE4E5B9
			z = (z ^ (z >> 27)) * 0x94D049BB133111EB
			z = z ^ (z >> 31)
		}
		out[i] = byte(z >> (8 * uint(i%8)))
	}
	return out
}

func segment(s string) []byte {
	f := strings.Split(s, ":")
	switch {
	case len(f) == 3 && f[0] == "r":
		seed, _ := strconv.ParseUint(f[1], 10, 64)
		return randBytes(seed, vh.Atoi(f[2]))
	case len(f) == 3 && f[0] == "c":
		return bytes.Repeat([]byte{byte(vh.Atoi(f[1]))}, vh.Atoi(f[2]))
	case len(f) == 3 && f[0] == "p":
		pat := vh.UnHex(f[1])
		n := vh.Atoi(f[2])
		out := make([]byte, n)
		if len(pat) == 0 {
			return nil
		}
		for i := range out {
			out[i] = pat[i%len(pat)]
		}
		return out
	case len(f) == 2 && f[0] == "h":
		return vh.UnHex(f[1])
	}
	return nil
}

func inputOf(s string) []byte {
	if s == "-" {
		return nil
	}
	var out []byte
	for _, seg := range strings.Split(s, "+") {
		out = append(out, segment(seg)...)
	}
	return out
}

// ---------------------------------------------------------------- fragmenting reader

type fragReader struct {
	data  []byte
	pos   int
	frags []int
	cyc   bool
	k     int
	ewd   bool
	reads int
	fail  error // when set, the end of data is reported with this error instead of io.EOF
}

func nats(s string) []int {
	if s == "-" || s == "" {
		return nil
	}
	var out []int
	for _, t := range strings.Split(s, ",") {
		out = append(out, vh.Atoi(t))
	}
	return out
}

func newFragReader(data []byte, frags string, ewd bool) *fragReader {
	r := &fragReader{data: data, ewd: ewd}
	f := strings.SplitN(frags, ":", 2)
	if len(f) == 2 {
		r.frags = nats(f[1])
		r.cyc = f[0] == "y"
		if r.cyc {
			nz := 0
			for _, x := range r.frags {
				if x > 0 {
					nz++
				}
			}
			if nz == 0 {
				r.frags, r.cyc = nil, false
			}
		}
	}
	return r
}

func (r *fragReader) nextFrag() (int, bool) {
	if r.k < len(r.frags) {
		f := r.frags[r.k]
		r.k++
		if r.cyc && r.k == len(r.frags) {
			r.k = 0
		}
		return f, true
	}
	return 0, false
}

func (r *fragReader) Read(p []byte) (int, error) {
	r.reads++
	if len(p) == 0 {
		return 0, nil
	}
	f, ok := r.nextFrag()
	if r.pos >= len(r.data) {
		if r.fail != nil {
			return 0, r.fail
		}
		return 0, io.EOF
	}
	k := len(p)
	if ok && f < k {
		k = f
	}
	n := copy(p[:k], r.data[r.pos:])
	r.pos += n
	if r.ewd && n > 0 && r.pos == len(r.data) {
		return n, io.EOF
	}
	return n, nil
}

// ---------------------------------------------------------------- rabin window fingerprint (independent)

const rabinPol = uint64(17437180132763653) // chunk.IpfsRabinPoly, degree 53
const rabinWindow = 16

func polDeg(x uint64) int { return bits.Len64(x) - 1 }

// fingerprint of the byte string as a polynomial over GF(2), modulo rabinPol (bit-serial, no tables)
func fp(win []byte) uint64 {
	d := polDeg(rabinPol)
	var h uint64
	for _, b := range win {
		h = h<<8 | uint64(b)
		for polDeg(h) >= d {
			h ^= rabinPol << uint(polDeg(h)-d)
		}
	}
	return h
}

// candidate boundaries: end offsets p with fp(input[p-16:p]) & mask == 0, mask = 2^logAvg - 1
func rabinCands(data []byte, logAvg uint) []string {
	mask := uint64(1)<<logAvg - 1
	var out []string
	for p := rabinWindow; p <= len(data); p++ {
		if fp(data[p-rabinWindow:p])&mask == 0 {
			out = append(out, strconv.Itoa(p))
		}
	}
	return out
}

// ---------------------------------------------------------------- running a splitter

type params struct {
	kind          string
	min, max, log uint64
}

// customSplitter is what the chunkers registered by the `register` op return.
type customSplitter struct{ chunk.Splitter }

func describe(s chunk.Splitter) params {
	if _, ok := s.(*customSplitter); ok {
		return params{kind: "custom"}
	}
	v := reflect.ValueOf(s)
	switch fmt.Sprintf("%T", s) {
	case "*chunk.sizeSplitterv2":
		n := v.Elem().FieldByName("size").Uint()
		return params{kind: "size", min: n, max: n}
	case "*chunk.Rabin":
		ch := v.Elem().FieldByName("r").Elem()
		mask := ch.FieldByName("sizeMask").Uint()
		return params{kind: "rabin", min: ch.FieldByName("MinSize").Uint(), max: ch.FieldByName("MaxSize").Uint(), log: uint64(bits.Len64(mask))}
	case "*chunk.Buzhash":
		return params{kind: "buzhash", min: 128 << 10, max: 512 << 10}
	}
	return params{kind: fmt.Sprintf("unknown:%T", s)}
}

func (p params) String() string {
	switch p.kind {
	case "size":
		return fmt.Sprintf("size %d", p.min)
	case "rabin":
		return fmt.Sprintf("rabin %d %d %d", p.min, p.log, p.max)
	}
	return p.kind
}

// runAll drains the splitter; ok=false when a non-EOF error came back.
func runAll(s chunk.Splitter, limit int) (chunks [][]byte, sticky bool, ok bool) {
	for {
		c, err := s.NextBytes()
		if err != nil {
			if !errors.Is(err, io.EOF) {
				return chunks, false, false
			}
			break
		}
		chunks = append(chunks, append([]byte(nil), c...))
		if len(chunks) > limit {
			return chunks, false, false
		}
	}
	sticky = true
	for i := 0; i < 2; i++ {
		c, err := s.NextBytes()
		if !errors.Is(err, io.EOF) || len(c) != 0 {
			sticky = false
		}
	}
	return chunks, sticky, true
}

func rle(xs []int) string {
	var sb strings.Builder
	for i := 0; i < len(xs); {
		j := i
		for j < len(xs) && xs[j] == xs[i] {
			j++
		}
		if sb.Len() > 0 {
			sb.WriteByte(',')
		}
		fmt.Fprintf(&sb, "%dx%d", xs[i], j-i)
		i = j
	}
	return sb.String()
}

func lensOf(cs [][]byte) []int {
	out := make([]int, len(cs))
	for i, c := range cs {
		out[i] = len(c)
	}
	return out
}

func specOf(hexs string) string {
	if hexs == "-" {
		return ""
	}
	b, err := hex.DecodeString(hexs)
	if err != nil {
		panic("bad spec hex")
	}
	return string(b)
}

func exec(c vh.Case, o *vh.Out) {
	saved := chunk.DefaultBlockSize
	defer func() { chunk.DefaultBlockSize = saved }() // `defsize` is case-local
	for _, line := range c.Ops {
		f := strings.Fields(line)
		switch {
		case len(f) == 2 && f[0] == "parse":
			spec := specOf(f[1])
			s, err := chunk.FromString(bytes.NewReader(nil), spec)
			if err != nil {
				o.Kind("parse-err")
				o.Emit("err")
				continue
			}
			p := describe(s)
			o.Kind("parse-" + p.kind)
			checkParams(o, spec, p)
			o.Emit("%s", p.String())
		case len(f) == 6 && (f[0] == "split" || f[0] == "chan"):
			spec := specOf(f[1])
			data := inputOf(f[4])
			fr := newFragReader(data, f[3], f[2] == "1")
			s, err := chunk.FromString(fr, spec)
			if err != nil {
				o.Kind("split-parse-err")
				o.Emit("err")
				continue
			}
			p := describe(s)
			checkParams(o, spec, p)
			if s.Reader() != io.Reader(fr) {
				o.Fail("reader-accessor", "spec %q: Reader() is not the reader the splitter was built on", spec)
			}
			var chunks [][]byte
			var sticky, ok bool
			if f[0] == "chan" {
				// chunk.Chan: a goroutine sends every chunk, then the first error
				out, errs := chunk.Chan(s)
				for c := range out {
					chunks = append(chunks, append([]byte(nil), c...))
				}
				e, got := <-errs
				ok = got && errors.Is(e, io.EOF)
				if _, more := <-errs; more {
					o.Fail("chan-errs", "spec %q: more than one error on the error channel", spec)
				}
				_, e2 := s.NextBytes()
				sticky = errors.Is(e2, io.EOF)
				o.Kind("chan")
			} else {
				chunks, sticky, ok = runAll(s, len(data)+1)
			}
			// the constructor functions give the same splitter as the spec string
			if p.kind == "size" {
				var s3 chunk.Splitter
				if spec == "" || spec == "default" {
					s3 = chunk.DefaultSplitter(bytes.NewReader(data))
				} else {
					s3 = chunk.SizeSplitterGen(int64(p.min))(bytes.NewReader(data))
				}
				c3, _, _ := runAll(s3, len(data)+1)
				if rle(lensOf(c3)) != rle(lensOf(chunks)) {
					o.Fail("size-ctor", "spec %q: SizeSplitterGen/DefaultSplitter chunk differently from FromString", spec)
				}
			}
			if !ok {
				o.Fail("splitter-error", "spec %q: non-EOF error or more chunks than bytes", spec)
			}
			lens := lensOf(chunks)
			// ---- monitor: the five predicates of the property, on the implementation's output
			if !bytes.Equal(bytes.Join(chunks, nil), data) {
				o.Fail("concat", "spec %q: chunks do not concatenate to the input (%d bytes in, %d out)", spec, len(data), len(bytes.Join(chunks, nil)))
			}
			for i, l := range lens {
				if l == 0 {
					o.Fail("empty-chunk", "spec %q: chunk %d is empty", spec, i)
				}
				if l > chunk.ChunkSizeLimit {
					o.Fail("over-limit", "spec %q: chunk %d has %d bytes > ChunkSizeLimit", spec, i, l)
				}
				if i < len(lens)-1 && (uint64(l) < p.min || uint64(l) > p.max) {
					o.Fail("minmax", "spec %q: chunk %d has %d bytes outside [%d,%d]", spec, i, l, p.min, p.max)
				}
				if i == len(lens)-1 && uint64(l) > p.max {
					o.Fail("minmax", "spec %q: last chunk has %d bytes > max %d", spec, l, p.max)
				}
			}
			if ok && !sticky {
				o.Fail("eof-not-sticky", "spec %q: NextBytes after EOF returned data or another error", spec)
			}
			// fragmentation independence: same boundaries from an ideal reader
			s2, err2 := chunk.FromString(bytes.NewReader(data), spec)
			if err2 != nil {
				o.Fail("parse-nondeterministic", "spec %q accepted once, rejected once", spec)
			} else {
				c2, _, _ := runAll(s2, len(data)+1)
				if rle(lensOf(c2)) != rle(lens) {
					o.Fail("frag-dep", "spec %q: boundaries differ between fragmented (%s) and plain reader", spec, f[3])
				}
			}
			o.Kind("split-" + p.kind)
			if f[3] != "-" {
				o.Kind("frag-" + f[3][:1])
			}
			if f[2] == "1" {
				o.Kind("eof-with-data")
			}
			if len(lens) >= 2 {
				o.Kind("multi-chunk")
				if f[3] != "-" {
					o.Nontrivial()
				}
			}
			if p.kind != "size" && len(lens) >= 2 {
				if uint64(lens[0]) == p.min {
					o.Kind("cut-at-min")
				} else if uint64(lens[0]) == p.max {
					o.Kind("cut-at-max")
				} else {
					o.Kind("cut-inside")
				}
			}
			tot := 0
			for _, l := range lens {
				tot += l
			}
			o.Emit("n=%d total=%d lens=%s", len(lens), tot, rle(lens))
		case len(f) == 2 && f[0] == "defsize":
			// a legal change of the exported variable (e.g. UnixFSProfile.ApplyGlobals sets 1 MiB)
			chunk.DefaultBlockSize = int64(vh.Atoi(f[1]))
			for _, spec := range []string{"", "default"} {
				if s, err := chunk.FromString(bytes.NewReader(nil), spec); err != nil || describe(s).min != uint64(chunk.DefaultBlockSize) {
					o.Fail("default-size-stale", "DefaultBlockSize=%d but FromString(%q) does not split at that size", chunk.DefaultBlockSize, spec)
				}
			}
			if describe(chunk.DefaultSplitter(bytes.NewReader(nil))).min != uint64(chunk.DefaultBlockSize) {
				o.Fail("default-size-stale", "DefaultBlockSize=%d but DefaultSplitter does not split at that size", chunk.DefaultBlockSize)
			}
			o.Kind("defsize")
			o.Emit("ok")
		case len(f) == 2 && f[0] == "register":
			name := specOf(f[1])
			res := "ok"
			func() {
				defer func() {
					if recover() != nil {
						res = "panic"
					}
				}()
				chunk.Register(name, func(r io.Reader, spec string) (chunk.Splitter, error) {
					return &customSplitter{chunk.NewSizeSplitter(r, 7)}, nil
				})
			}()
			// monitor: Register accepts exactly non-empty, dash-free, unused names
			want := "ok"
			if name == "" || strings.Contains(name, "-") || registered[name] {
				want = "panic"
			}
			if res != want {
				o.Fail("register", "Register(%q): %s, want %s", name, res, want)
			}
			if res == "ok" {
				registered[name] = true
			}
			o.Kind("register-" + res)
			o.Emit("%s", res)
		case len(f) == 5 && f[0] == "fail":
			// a reader that fails with a non-EOF error at position pos: the error must surface, nothing may
			// panic, and what was emitted before must be the first chunks of the error-free run
			spec := specOf(f[1])
			data := inputOf(f[3])
			pos := vh.Atoi(f[4])
			if pos > len(data) {
				pos = len(data)
			}
			fr := newFragReader(data[:pos], f[2], false)
			fr.fail = errInjected
			s, err := chunk.FromString(fr, spec)
			if err == nil {
				var got [][]byte
				var first error
				for len(got) <= len(data) {
					c, e := s.NextBytes()
					if e != nil {
						first = e
						break
					}
					got = append(got, append([]byte(nil), c...))
				}
				if !errors.Is(first, errInjected) {
					o.Fail("reader-error-lost", "spec %q: reader failed at %d but NextBytes ended with %v", spec, pos, first)
				}
				s2, _ := chunk.FromString(bytes.NewReader(data), spec)
				want, _, _ := runAll(s2, len(data)+1)
				for i, c := range got {
					if i >= len(want) || !bytes.Equal(c, want[i]) {
						o.Fail("reader-error-prefix", "spec %q: chunk %d emitted before the reader error differs from the error-free run", spec, i)
						break
					}
				}
				o.Kind("fail-" + describe(s).kind)
			}
			o.Emit("checked")
		default:
			o.Emit("bad-op")
		}
	}
}

// registered mirrors the process-wide registry (names are unique per case, see gen).
var registered = map[string]bool{"size": true, "rabin": true, "buzhash": true}

var errInjected = errors.New("injected reader error")

// checkParams: the side conditions the chunk bounds rest on (monitor for c06_parse_sound).
func checkParams(o *vh.Out, spec string, p params) {
	switch p.kind {
	case "size":
		if p.min == 0 || p.min > uint64(chunk.ChunkSizeLimit) {
			o.Fail("parse-unsound-size", "spec %q accepted with size %d", spec, p.min)
		}
	case "rabin":
		if p.min < rabinWindow {
			o.Fail("parse-unsound-rabin-min", "spec %q accepted with min %d < 16 (the chunker then waits for min-16 mod 2^64 bytes)", spec, p.min)
		} else if p.min > p.max || p.max > uint64(chunk.ChunkSizeLimit) {
			o.Fail("parse-unsound-rabin-max", "spec %q accepted with min %d max %d", spec, p.min, p.max)
		}
	case "buzhash", "custom":
	default:
		o.Fail("unknown-splitter", "spec %q gave %s", spec, p.kind)
	}
}

// ---------------------------------------------------------------- generator

// specHex encodes a spec string as one token ("-" = the empty spec).
func specHex(s string) string {
	if s == "" {
		return "-"
	}
	return hex.EncodeToString([]byte(s))
}

var alphabet = []byte("0123456789-:+ sizerabnuhmvgxdflt_.eE")

func randomSpec(r *vh.Rand) string {
	limit := chunk.ChunkSizeLimit
	num := func() string {
		switch r.Intn(12) {
		case 0:
			return strconv.Itoa(r.Range(-3, 70))
		case 1:
			return strconv.Itoa(limit + r.Range(-2, 2))
		case 2:
			return strconv.Itoa(limit*2/3 + r.Range(-3, 3))
		case 3:
			return "+" + strconv.Itoa(r.Range(0, 100))
		case 4:
			return "00" + strconv.Itoa(r.Range(0, 100))
		case 5:
			return vh.Pick(r, []string{"9223372036854775807", "9223372036854775808", "6148914691236517206", "6200000000000000000", "18446744073709551616", "4294967296", "4294967297", "99999999999999999999999"})
		case 6:
			return vh.Pick(r, []string{"", "x", "1e3", "0x10", "1_000", " 5", "5 ", "١٢"})
		case 7:
			return strconv.Itoa(r.Range(40, 56))
		case 8:
			return strconv.Itoa(r.Range(14, 20))
		default:
			return strconv.Itoa(r.Range(1, 3000))
		}
	}
	lab := func(l string) string {
		switch r.Intn(8) {
		case 0:
			return l + ":" + num()
		case 1:
			return vh.Pick(r, []string{"min", "avg", "max", "x", ""}) + ":" + num()
		case 2:
			return l + ":" + "q:" + num()
		default:
			return num()
		}
	}
	switch r.Intn(14) {
	case 0:
		return vh.Pick(r, []string{"", "default", "size", "rabin", "buzhash", "buzhash-1", "buzhash-a-b-c-d", "Size-5", "rabin2-5", "fixed-5", "-", "--", "size-", "rabin-", "default-5", "size--5", "rabin--5"})
	case 1, 2:
		return "size-" + num()
	case 3, 4, 5:
		return "rabin-" + num()
	case 6, 7, 8, 9:
		return "rabin-" + lab("min") + "-" + lab("avg") + "-" + lab("max")
	case 10:
		// sorted triple near the guards
		a := r.Range(14, 20)
		b := a + r.Range(-1, 3)
		c := b + r.Range(-1, 3)
		if r.Chance(1, 4) {
			c = limit + r.Range(-1, 1)
		}
		return fmt.Sprintf("rabin-%d-%d-%d", a, b, c)
	case 11:
		return vh.Pick(r, []string{"size", "rabin", "buzhash"}) + "-" + num() + "-" + num()
	case 12:
		return "rabin-" + num() + "-" + num() + "-" + num() + "-" + num()
	default:
		n := r.Intn(12)
		b := make([]byte, n)
		for i := range b {
			b[i] = alphabet[r.Intn(len(alphabet))]
		}
		return string(b)
	}
}

func randomFrags(r *vh.Rand, scale int) string {
	item := func() string {
		switch r.Intn(6) {
		case 0:
			return "0"
		case 1:
			return "1"
		case 2:
			return strconv.Itoa(r.Range(1, 8))
		default:
			return strconv.Itoa(r.Range(1, scale+1))
		}
	}
	switch r.Intn(6) {
	case 0:
		return "-"
	case 1:
		return "y:1"
	case 2:
		return "y:" + strconv.Itoa(r.Range(1, scale+1))
	default:
		n := r.Range(1, 6)
		xs := make([]string, n)
		nz := false
		for i := range xs {
			xs[i] = item()
			nz = nz || xs[i] != "0"
		}
		if !nz {
			xs[0] = "3"
		}
		return vh.Pick(r, []string{"y:", "y:", "l:"}) + strings.Join(xs, ",")
	}
}

func randomInput(r *vh.Rand, maxLen int) string {
	if r.Chance(1, 12) {
		return "-"
	}
	var segs []string
	left := r.Intn(maxLen + 1)
	if r.Chance(1, 3) {
		left = r.Intn(maxLen/8 + 2)
	}
	for left > 0 && len(segs) < 4 {
		n := left
		if r.Chance(1, 2) {
			n = r.Range(1, left)
		}
		switch r.Intn(5) {
		case 0:
			segs = append(segs, fmt.Sprintf("c:%d:%d", r.Intn(256), n))
		case 1:
			pl := vh.Pick(r, []int{1, 2, 3, 15, 16, 17, 31, 32, 33, 64})
			segs = append(segs, fmt.Sprintf("p:%s:%d", vh.Hex(r.Bytes(pl)), n))
		case 2:
			if n > 40 {
				n = 40
			}
			segs = append(segs, "h:"+vh.Hex(r.Bytes(n)))
		default:
			segs = append(segs, fmt.Sprintf("r:%d:%d", r.Intn(1000000), n))
		}
		left -= n
	}
	if len(segs) == 0 {
		return "-"
	}
	return strings.Join(segs, "+")
}

// harvestBuz uses the real splitter to find (a) a 32-byte window that is a buzhash boundary and
// (b) one constant byte whose run never is a boundary and one whose run always is.
func harvestBuz(r *vh.Rand) (win []byte, never, always int) {
	never, always = -1, -1
	defer func() { recover() }() // a broken splitter must fail in exec, not in the generator
	data := randBytes(uint64(r.Intn(1<<30)), 3<<20)
	s := chunk.NewBuzhash(bytes.NewReader(data))
	for i := 0; i < 8; i++ {
		c, err := s.NextBytes()
		if err != nil {
			break
		}
		if len(c) > 128<<10 && len(c) < 512<<10 {
			win = append([]byte(nil), c[len(c)-32:]...)
			break
		}
	}
	for b := 0; b < 256 && (never < 0 || always < 0); b++ {
		s := chunk.NewBuzhash(bytes.NewReader(bytes.Repeat([]byte{byte(b)}, 200000)))
		c, err := s.NextBytes()
		if err != nil {
			continue
		}
		if len(c) == 128<<10 && always < 0 {
			always = b
		} else if len(c) == 200000 && never < 0 {
			never = b
		}
	}
	return
}

func gen(r *vh.Rand, tier string, n int, emit func(vh.Case)) {
	win, never, always := harvestBuz(r.Fork())
	const buzMin, buzMax = 128 << 10, 512 << 10
	bigEvery := 40
	bigIdx := 0
	for i := 0; i < n; i++ {
		cr := r.Fork()
		c := vh.Case{ID: strconv.Itoa(i)}
		split := func(spec string, ewd bool, frags, input string, avg uint64) {
			cands := "-"
			logAvg := -1
			if avg > 0 {
				logAvg = bits.Len64(avg) - 1 // floor(log2 avg), from the generator's own knowledge of the spec
			} else {
				func() {
					defer func() { recover() }() // a panicking parser must fail in exec, not here
					if s, err := chunk.FromString(bytes.NewReader(nil), spec); err == nil {
						if p := describe(s); p.kind == "rabin" { // arbitrary spec text: take the mask the parser chose
							logAvg = int(p.log)
						}
					}
				}()
			}
			if logAvg >= 0 {
				if cs := rabinCands(inputOf(input), uint(logAvg)); len(cs) > 0 {
					cands = strings.Join(cs, ",")
				}
			}
			e := "0"
			if ewd {
				e = "1"
			}
			op := "split"
			if cr.Chance(1, 5) {
				op = "chan"
			}
			c.Ops = append(c.Ops, fmt.Sprintf("%s %s %s %s %s %s", op, specHex(spec), e, frags, input, cands))
			if cr.Chance(1, 6) && len(input) < 4000 {
				// the same splitter over a reader that fails with a non-EOF error somewhere
				n := len(inputOf(input))
				c.Ops = append(c.Ops, fmt.Sprintf("fail %s %s %s %d", specHex(spec), frags, input, cr.Intn(n+2)))
			}
		}
		if i%bigEvery == bigEvery-1 {
			// ---- a large case: buzhash around its min/max, default rabin, default size
			k := bigIdx
			bigIdx++
			fr := randomFrags(cr, 70000)
			if k%3 == 0 {
				fr = vh.Pick(cr, []string{"y:1", "y:4096", "y:131072,1", "y:0,524288", "-"})
			}
			ewd := cr.Bool()
			nb := never
			if nb < 0 {
				nb = 0
			}
			switch k % 10 {
			case 0: // tail exactly below / at / above min
				split("buzhash", ewd, fr, fmt.Sprintf("r:%d:%d", cr.Intn(1e6), buzMin+cr.Range(-1, 1)), 0)
			case 1: // crafted boundary exactly at min, then a short tail
				if win != nil {
					split("buzhash", ewd, fr, fmt.Sprintf("r:%d:%d+h:%s+r:%d:%d", cr.Intn(1e6), buzMin-32, vh.Hex(win), cr.Intn(1e6), cr.Range(0, 3000)), 0)
				} else {
					split("buzhash", ewd, fr, fmt.Sprintf("r:%d:%d", cr.Intn(1e6), buzMin+cr.Range(0, 5000)), 0)
				}
			case 2: // boundary shortly after min on a never-boundary run
				if win != nil {
					split("buzhash", ewd, fr, fmt.Sprintf("c:%d:%d+h:%s+c:%d:%d", nb, buzMin-32+cr.Range(0, 64), vh.Hex(win), nb, cr.Range(0, 200)), 0)
				} else {
					split("buzhash", ewd, fr, fmt.Sprintf("c:%d:%d", nb, buzMin+cr.Range(0, 5000)), 0)
				}
			case 3: // always-boundary constant: chunks of exactly min
				ab := always
				if ab < 0 {
					ab = 1
				}
				split("buzhash", ewd, fr, fmt.Sprintf("c:%d:%d", ab, 2*buzMin+cr.Range(0, 40000)), 0)
			case 4: // never-boundary run up to max (+ tail below min): cut at max
				split("buzhash", ewd, fr, fmt.Sprintf("c:%d:%d", nb, buzMax+cr.Range(0, 2)), 0)
			case 5: // boundary window ending just below / at max
				if win != nil {
					split("buzhash", ewd, fr, fmt.Sprintf("c:%d:%d+h:%s+c:%d:%d", nb, buzMax-32-cr.Range(0, 2), vh.Hex(win), nb, cr.Range(0, 40)), 0)
				} else {
					split("buzhash", ewd, fr, fmt.Sprintf("c:%d:%d", nb, buzMax), 0)
				}
			case 6: // random data, natural boundary
				split("buzhash", ewd, fr, fmt.Sprintf("r:%d:%d", cr.Intn(1e6), cr.Range(buzMin, 300000)), 0)
			case 7: // default rabin (min 87381, max 393216) or a large-min rabin with frequent boundaries
				if cr.Bool() {
					split("rabin", ewd, fr, fmt.Sprintf("r:%d:%d", cr.Intn(1e6), cr.Range(87381-20, 120000)), 262144)
				} else {
					split("rabin-60000-65600-90000", ewd, fr, fmt.Sprintf("r:%d:%d", cr.Intn(1e6), cr.Range(100000, 200000)), 65600)
				}
			case 8: // default size splitter on ~1.x blocks
				split(vh.Pick(cr, []string{"", "default", "size-262144"}), ewd, fr, fmt.Sprintf("r:%d:%d", cr.Intn(1e6), 262144+cr.Range(-2, 3)), 0)
			default: // periodic data with period near the window
				pl := vh.Pick(cr, []int{31, 32, 33, 64})
				split("buzhash", ewd, fr, fmt.Sprintf("p:%s:%d", vh.Hex(cr.Bytes(pl)), buzMin+cr.Range(0, 70000)), 0)
			}
			emit(c)
			continue
		}
		if cr.Chance(1, 25) { // DefaultBlockSize changed at run time: "", "default", bare "rabin" follow it
			n := vh.Pick(cr, []int{1 << 20, 65536, 4096, 1000, 300000, 1397931, 48, 100})
			c.Ops = append(c.Ops, fmt.Sprintf("defsize %d", n), "parse "+specHex(""), "parse "+specHex("default"), "parse "+specHex("rabin"), "parse "+specHex("size-7"))
			if n <= 4096 {
				split(vh.Pick(cr, []string{"", "default"}), cr.Bool(), randomFrags(cr, n), fmt.Sprintf("r:%d:%d", cr.Intn(1e6), n*cr.Range(1, 3)+cr.Range(-1, 1)), 0)
				split("rabin", cr.Bool(), randomFrags(cr, n), fmt.Sprintf("r:%d:%d", cr.Intn(1e6), cr.Range(n, 4*n)), uint64(n))
			}
			if cr.Bool() {
				c.Ops = append(c.Ops, fmt.Sprintf("defsize %d", 262144), "parse "+specHex("default"))
			}
			emit(c)
			continue
		}
		if cr.Chance(1, 25) { // registry: Register's panics, dispatch to a custom chunker, built-ins untouched
			nm := "Q" + strconv.Itoa(i)
			for _, o := range []string{"register " + specHex(nm+"a"), "parse " + specHex(nm+"a-12-x"), "register " + specHex(nm+"a"),
				"register " + specHex(""), "register " + specHex(nm+"-b"), "parse " + specHex(nm+"-b"),
				"register " + specHex(vh.Pick(cr, []string{"size", "rabin", "buzhash"})), "parse " + specHex(nm+"a"),
				"parse " + specHex(nm+"zz-1"), "register " + specHex(nm+"zz"), "parse " + specHex(nm+"zz-1"),
				"parse " + specHex("size-5"), "parse " + specHex("rabin-48"), "parse " + specHex(randomSpec(cr))} {
				c.Ops = append(c.Ops, o)
			}
			emit(c)
			continue
		}
		switch cr.Intn(10) {
		case 0, 1, 2: // parser only
			for j, m := 0, cr.Range(3, 12); j < m; j++ {
				c.Ops = append(c.Ops, "parse "+specHex(randomSpec(cr)))
			}
		case 3, 4: // size splitter
			for j, m := 0, cr.Range(1, 4); j < m; j++ {
				sz := cr.Range(1, 40)
				if cr.Chance(1, 6) {
					sz = cr.Range(1, 3000)
				}
				in := randomInput(cr, 6*sz+3)
				if cr.Chance(1, 3) { // exact multiples and neighbours
					in = fmt.Sprintf("r:%d:%d", cr.Intn(1e6), sz*cr.Range(0, 5)+cr.Range(-1, 1)+1)
				}
				split("size-"+strconv.Itoa(sz), cr.Bool(), randomFrags(cr, sz*2), in, 0)
			}
		case 5, 6, 7: // small rabin, three-parameter form
			for j, m := 0, cr.Range(1, 3); j < m; j++ {
				mn := cr.Range(16, 40)
				avg := mn + cr.Range(1, 40)
				mx := avg + cr.Range(1, 60)
				spec := fmt.Sprintf("rabin-%d-%d-%d", mn, avg, mx)
				if cr.Chance(1, 4) {
					spec = fmt.Sprintf("rabin-min:%d-avg:%d-max:%d", mn, avg, mx)
				}
				split(spec, cr.Bool(), randomFrags(cr, 100), randomInput(cr, 1500), uint64(avg))
			}
		case 8: // one-parameter rabin
			avg := cr.Range(48, 200)
			if cr.Chance(1, 3) {
				avg = cr.Range(48, 52)
			}
			split("rabin-"+strconv.Itoa(avg), cr.Bool(), randomFrags(cr, 100), randomInput(cr, 2500), uint64(avg))
		default: // whatever the parser accepts
			spec := randomSpec(cr)
			in := randomInput(cr, 800)
			split(spec, cr.Bool(), randomFrags(cr, 64), in, 0)
		}
		emit(c)
	}
}

func main() { vh.Main(vh.Config{Gen: gen, Exec: exec}) }
