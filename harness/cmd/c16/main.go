// C16 harness: the root CID of a directory depends only on its final entries and configuration;
// sharded exactly when the documented rule says so; per-directory settings survive conversions.
// Execution core shared with C15 (verifharness/dirx); this command adds the boundary-seeking
// generator and switches the rule / settings / CID-determinism monitors on.
package main

import (
	"fmt"
	"strconv"

	"verifharness/dirx"
	"verifharness/vh"
)

func lg2(w int) int {
	k := 0
	for 1<<uint(k) < w {
		k++
	}
	return k
}

func gen(r0 *vh.Rand, tier string, n int, emit func(vh.Case)) {
	r0 = vh.NewRand(r0.U64()) // consecutive vh seeds are shifted copies of one stream: re-seed from a mixed draw
	for i := 0; i < n; i++ {
		r := r0.Fork()
		c := vh.Case{ID: strconv.Itoa(i)}
		mode := r.Intn(3)
		table := r.Chance(1, 5)
		fan := vh.Pick(r, []int{8, 8, 16, 32, 64, 256, 256, 1024})
		defw := 256
		usePerDirFan := r.Chance(3, 4)
		if !usePerDirFan {
			defw = fan
		}
		// the pool and a threshold within a few links of a typical population
		np := r.Range(3, 14)
		var names []dirx.NameH
		if table {
			names = dirx.TablePool(r, np, false)
		} else {
			names = dirx.MurmurPool(r, lg2(fan), np)
		}
		// keep long names rare so that the boundary is crossed by single links
		nodes := make([]*dirx.PoolNode, np)
		homog := r.Chance(1, 2)
		for j := range nodes {
			if homog {
				nodes[j] = &dirx.Pool[r.Intn(16)]
			} else {
				nodes[j] = &dirx.Pool[r.Intn(len(dirx.Pool))]
			}
		}
		k := r.Range(1, np)
		size := 0
		for j := 0; j < k; j++ {
			switch mode {
			case 0:
				size += len(names[j].Name) + nodes[j].CidLen
			case 1:
				size += dirx.LinkSerializedSize(len(names[j].Name), nodes[j].CidLen, nodes[j].Tsize)
			}
		}
		if mode == 1 {
			size += 4
		}
		thr := size + r.Range(-3, 3)
		if thr < 1 {
			thr = 1
		}
		maxLinks := 0
		if mode == 2 || r.Chance(1, 4) {
			maxLinks = r.Range(1, np)
		}
		gthr, pthr := thr, 0
		if r.Chance(1, 2) { // per-directory threshold, global one far away (or off)
			gthr, pthr = vh.Pick(r, []int{262144, 262144, 1 << 30}), thr
		}
		if mode == 2 && r.Chance(1, 8) {
			gthr, pthr = 0, 0
		}
		gmode, pmode := mode, "-"
		if r.Bool() {
			gmode, pmode = r.Intn(3), strconv.Itoa(mode)
		}
		hm := "murmur"
		if table {
			hm = "table"
		}
		c.Ops = append(c.Ops, fmt.Sprintf("cfg %d %d %d %s", gthr, gmode, defw, hm))
		stm, sec, nsec := 0, 0, 0
		if r.Chance(1, 5) {
			stm = vh.Pick(r, []int{0o755, 0o644})
		}
		if r.Chance(1, 5) {
			sec = vh.Pick(r, []int{1700000000, -5, 300})
			if r.Bool() {
				nsec = 500
			}
		}
		pf := 0
		if usePerDirFan {
			pf = fan
		}
		b := vh.Pick(r, []string{"-", "-", "v0", "v1"})
		c.Ops = append(c.Ops, fmt.Sprintf("new dyn %d %d %s %d %o %d %d %s", maxLinks, pf, pmode, pthr, stm, sec, nsec, b))
		nops := r.Range(6, 40)
		if tier == "thorough" {
			nops = r.Range(6, 70)
		}
		for j := 0; j < nops; j++ {
			x := r.Intn(np)
			switch q := r.Intn(100); {
			case q < 45:
				nd := nodes[x]
				if r.Chance(1, 4) { // replacement by a different target
					nd = &dirx.Pool[r.Intn(len(dirx.Pool))]
				}
				c.Ops = append(c.Ops, dirx.AddTok(names[x], nd))
			case q < 72:
				c.Ops = append(c.Ops, "rm "+names[x].Tok())
			case q < 77:
				c.Ops = append(c.Ops, "find "+names[x].Tok())
			case q < 82:
				c.Ops = append(c.Ops, "each")
			case q < 84:
				c.Ops = append(c.Ops, vh.Pick(r, []string{"list", "async"}))
			case q < 87:
				c.Ops = append(c.Ops, "reload")
				// what MFS does after loading a directory: re-apply the configuration
				if maxLinks != 0 {
					c.Ops = append(c.Ops, fmt.Sprintf("setmaxlinks %d", maxLinks))
				}
				if pf != 0 {
					c.Ops = append(c.Ops, fmt.Sprintf("setfanout %d", pf))
				}
				if pmode != "-" {
					c.Ops = append(c.Ops, "setmode "+pmode)
				}
				if pthr != 0 {
					c.Ops = append(c.Ops, fmt.Sprintf("setthr %d", pthr))
				}
			case q < 90:
				c.Ops = append(c.Ops, "dump")
			default:
				c.Ops = append(c.Ops, "fresh")
			}
		}
		c.Ops = append(c.Ops, "fresh", "node", "dump")
		emit(c)
	}
}

func exec(c vh.Case, o *vh.Out) { dirx.Run(c, o, true) }

func main() { vh.Main(vh.Config{Gen: gen, Exec: exec}) }
