// C01 harness: drives the real blockstore.NewBlockstore / NewIdStore over a go-datastore MapDatastore.
package main

import (
	"context"
	"errors"
	"fmt"
	"sort"
	"strconv"
	"strings"
	"time"

	"github.com/ipfs/boxo/blockstore"
	"github.com/ipfs/boxo/datastore/dshelp"
	blocks "github.com/ipfs/go-block-format"
	"github.com/ipfs/go-cid"
	ds "github.com/ipfs/go-datastore"
	dsq "github.com/ipfs/go-datastore/query"
	ipld "github.com/ipfs/go-ipld-format"
	logging "github.com/ipfs/go-log/v2"
	"github.com/multiformats/go-base32"
	mh "github.com/multiformats/go-multihash"

	"verifharness/vh"
)

// ---------------------------------------------------------------- generator

type pblk struct {
	cids []string // textual CIDs sharing one multihash (aliases)
	data []byte
}

// hashOf returns the multihash shared by the aliases (taken from the first textual CID)
func (p pblk) hashOf() []byte {
	return vh.UnHex(p.cids[0][strings.LastIndex(p.cids[0], ":")+1:])
}

func cidStr(ver int, codec uint64, h []byte) string {
	return fmt.Sprintf("d:%d:%d:%s", ver, codec, vh.Hex(h))
}

func mkPool(r *vh.Rand) (pool []pblk, ident []pblk) {
	n := r.Range(3, 8)
	for i := 0; i < n; i++ {
		var data []byte
		switch {
		case i == 0:
			data = []byte{} // the empty block
		default:
			data = r.Bytes(r.Range(1, 24))
		}
		var p pblk
		p.data = data
		if r.Chance(1, 5) {
			h, _ := mh.Sum(data, mh.SHA2_512, -1)
			p.cids = []string{cidStr(1, cid.Raw, h), cidStr(1, cid.DagCBOR, h)}
		} else {
			h, _ := mh.Sum(data, mh.SHA2_256, -1)
			p.cids = []string{cidStr(0, cid.DagProtobuf, h), cidStr(1, cid.Raw, h), cidStr(1, cid.DagProtobuf, h)}
		}
		// aliases whose codec needs a multi-byte varint in the binary CID (>= 0x80): dag-json 0x0129,
		// json 0x0200, car 0x0202, eth-block 0x90, a 3-byte one 0x4000 - same multihash as the others
		wide := []uint64{cid.DagJSON, 0x0200, 0x0202, 0x90, 0x4000}
		for _, j := range []int{r.Intn(len(wide)), r.Intn(len(wide))} {
			p.cids = append(p.cids, cidStr(1, wide[j], p.hashOf()))
		}
		pool = append(pool, p)
	}
	for _, l := range []int{0, 40, r.Range(1, 20), 127, 128, 200} {
		d := r.Bytes(l)
		h, _ := mh.Sum(d, mh.IDENTITY, -1)
		ident = append(ident, pblk{cids: []string{cidStr(1, cid.Raw, h), cidStr(1, cid.DagProtobuf, h), cidStr(1, cid.DagJSON, h)}, data: d})
		if len(ident) >= 3 && r.Chance(1, 2) {
			break
		}
	}
	return
}

func gen(r *vh.Rand, tier string, n int, emit func(vh.Case)) {
	for i := 0; i < n; i++ {
		rr := r.Fork()
		c := vh.Case{ID: strconv.Itoa(i)}
		wt, np, id := rr.Bool(), rr.Bool(), rr.Bool()
		prov := rr.Chance(1, 3)
		c.Ops = append(c.Ops, fmt.Sprintf("cfg %d %d %d %d", b2i(wt), b2i(np), b2i(id), b2i(prov)))
		foreignKeys := rr.Chance(1, 10) // keys the blockstore did not write, planted in the datastore
		rawKeys := []string{"/blocks/mzxw6", "/blocks/MZXW6", "/blocks/AB", "/blocks/A", "/blocks/MZX", "/blocks/MZXW6Y",
			"/blocks/A1", "/blocks/MZXW6===", "/other/MZXW6", "/MZXW6", "/mzxw6ytboi", "/blocks/MZXW6/X", "/blocks",
			"/blocks/CIQ0", "/BLOCKS/MZXW6", "/blocks/mZxW6yTb"}
		pool, ident := mkPool(rr)
		dishonest := wt && rr.Chance(1, 3) || !wt && rr.Chance(1, 12)
		weird := rr.Chance(1, 15) // blocks carrying the undefined CID
		anyCid := func() string {
			switch k := rr.Intn(20); {
			case k == 0:
				return "u:1:0:-"
			case k < 5:
				return vh.Pick(rr, vh.Pick(rr, ident).cids)
			default:
				return vh.Pick(rr, vh.Pick(rr, pool).cids)
			}
		}
		anyBlk := func() string {
			switch k := rr.Intn(20); {
			case k < 3:
				p := vh.Pick(rr, ident)
				d := p.data
				if rr.Chance(1, 4) {
					d = rr.Bytes(rr.Intn(6)) // identity CID with non-matching bytes: still dropped
				}
				return vh.Pick(rr, p.cids) + " " + vh.Hex(d)
			case k == 3 && weird:
				return "u:1:0:- " + vh.Hex(rr.Bytes(rr.Intn(5)))
			default:
				p := vh.Pick(rr, pool)
				d := p.data
				if dishonest && rr.Chance(1, 3) {
					d = rr.Bytes(rr.Intn(8))
				}
				return vh.Pick(rr, p.cids) + " " + vh.Hex(d)
			}
		}
		ln := rr.Range(1, 40)
		if rr.Chance(1, 10) {
			ln = rr.Range(40, 200)
		}
		if tier == "thorough" && rr.Chance(1, 10) {
			ln = rr.Range(100, 400)
		}
		for j := 0; j < ln; j++ {
			switch k := rr.Intn(100); {
			case k < 22:
				c.Ops = append(c.Ops, "put "+anyBlk())
			case k < 32:
				m := rr.Intn(5)
				if rr.Chance(1, 3) {
					m = rr.Intn(3)
				}
				bs := make([]string, m)
				for x := range bs {
					bs[x] = anyBlk()
				}
				c.Ops = append(c.Ops, strings.TrimSpace("putmany "+strings.Join(bs, " ")))
			case k < 44:
				c.Ops = append(c.Ops, "del "+anyCid())
			case k < 62:
				c.Ops = append(c.Ops, "get "+anyCid())
			case k < 72:
				c.Ops = append(c.Ops, "has "+anyCid())
			case k < 80:
				c.Ops = append(c.Ops, "size "+anyCid())
			case k < 86:
				c.Ops = append(c.Ops, "view "+anyCid())
			case k < 90:
				c.Ops = append(c.Ops, "keys")
			case k < 92:
				c.Ops = append(c.Ops, "keyserr")
			case k < 93:
				c.Ops = append(c.Ops, fmt.Sprintf("keyscancel %d", rr.Intn(4)))
			case k < 94:
				c.Ops = append(c.Ops, "gc")
			case k < 96 && foreignKeys:
				c.Ops = append(c.Ops, "rawput "+vh.Pick(rr, rawKeys)+" "+vh.Hex(rr.Bytes(rr.Intn(4))))
			default:
				c.Ops = append(c.Ops, "dump")
			}
		}
		if rr.Chance(1, 40) {
			// more keys than the enumeration channel buffers (dsq.KeysOnlyBufSize = 128), so that a
			// cancelled consumer really cuts the enumeration short
			var bs []string
			for x := 0; x < 140; x++ {
				d := []byte{byte(x), byte(x >> 8), 0x77}
				h, _ := mh.Sum(d, mh.SHA2_256, -1)
				bs = append(bs, cidStr(1, cid.Raw, h)+" "+vh.Hex(d))
			}
			c.Ops = append(c.Ops, "putmany "+strings.Join(bs, " "), fmt.Sprintf("keyscancel %d", rr.Range(0, 3)), "keyserr")
		}
		c.Ops = append(c.Ops, "keys", "dump")
		emit(c)
	}
}

func b2i(b bool) int {
	if b {
		return 1
	}
	return 0
}

// ---------------------------------------------------------------- executor

func parseCid(s string) cid.Cid {
	f := strings.Split(s, ":")
	if f[0] == "u" {
		return cid.Undef
	}
	h := vh.UnHex(f[3])
	codec, _ := strconv.ParseUint(f[2], 10, 64)
	if f[1] == "0" {
		return cid.NewCidV0(h)
	}
	return cid.NewCidV1(codec, h)
}

func isNotFound(err error) bool { return ipld.IsNotFound(err) || errors.Is(err, ds.ErrNotFound) }

// identity digest of a CID by the property's definition (identity multihash), computed with
// go-multihash directly (not with the idstore helper)
func identityDigest(c cid.Cid) ([]byte, bool) {
	if !c.Defined() {
		return nil, false
	}
	d, err := mh.Decode(c.Hash())
	if err != nil || d.Code != mh.IDENTITY {
		return nil, false
	}
	return d.Digest, true
}

// recording provider: one entry per StartProviding call
type recProvider struct{ calls [][]string }

func (p *recProvider) StartProviding(force bool, keys ...mh.Multihash) error {
	hs := make([]string, len(keys))
	for i, k := range keys {
		hs[i] = vh.Hex(k)
	}
	p.calls = append(p.calls, hs)
	if force {
		p.calls = append(p.calls, []string{"FORCE"})
	}
	return nil
}

func (p *recProvider) take() string {
	cs := make([]string, len(p.calls))
	for i, c := range p.calls {
		cs[i] = strings.Join(c, ",")
	}
	p.calls = nil
	return " prov=" + strings.Join(cs, "|")
}

type monitor struct {
	on bool
	id bool
	m  map[string][]byte // spec: multihash -> bytes last stored
}

func (mo *monitor) put(b blocks.Block) {
	if _, isID := identityDigest(b.Cid()); mo.id && isID {
		return
	}
	mo.m[string(b.Cid().Hash())] = b.RawData()
}

func exec(c vh.Case, o *vh.Out) {
	ctx := context.Background()
	var mds *ds.MapDatastore
	var bs blockstore.Blockstore
	var wt, np, idw bool
	var prov *recProvider
	provOut := func() string {
		if prov == nil {
			return ""
		}
		return prov.take()
	}
	hasForeign := strings.Contains(strings.Join(c.Ops, "\n"), "rawput ")
	mo := &monitor{}
	puts, dels, hits, aliasHits := 0, 0, 0, 0
	lastPutCid := map[string]string{}

	// functional-pool hypothesis of the property (honest blocks): without WriteThrough the monitor is
	// meaningful only when equal multihash implies equal bytes among the blocks put in this case
	functional := true
	seen := map[string]string{}
	for _, line := range c.Ops {
		f := strings.Fields(line)
		if f[0] == "put" || f[0] == "putmany" {
			for i := 1; i+1 < len(f); i += 2 {
				k := f[i][strings.LastIndex(f[i], ":")+1:]
				if strings.HasPrefix(f[i], "u:") {
					functional = false // blocks with the undefined CID are outside the property
				}
				if d, ok := seen[k]; ok && d != f[i+1] {
					functional = false
				}
				seen[k] = f[i+1]
			}
		}
	}

	for _, line := range c.Ops {
		f := strings.Fields(line)
		switch f[0] {
		case "cfg":
			wt, np, idw = f[1] == "1", f[2] == "1", f[3] == "1"
			prov = nil
			mds = ds.NewMapDatastore()
			opts := []blockstore.Option{blockstore.WriteThrough(wt)}
			if np {
				opts = append(opts, blockstore.NoPrefix())
			}
			if len(f) > 4 && f[4] == "1" {
				prov = &recProvider{}
				opts = append(opts, blockstore.Provider(prov))
				o.Kind("provider")
			}
			if np && !wt && prov == nil {
				bs = blockstore.NewBlockstoreNoPrefix(mds) // the deprecated constructor: same configuration
			} else {
				bs = blockstore.NewBlockstore(mds, opts...)
			}
			if idw {
				bs = blockstore.NewIdStore(bs)
			}
			// the undefined CID is queried but a block carrying it is not a block of the property
			mo = &monitor{on: wt || functional, id: idw, m: map[string][]byte{}}
			if strings.Contains(strings.Join(c.Ops, "\n"), "u:1:0:- ") {
				mo.on = false
			}
			if hasForeign {
				// keys planted behind the blockstore's back (case variants of one multihash, the namespace
				// root = key of the empty multihash, ...) are outside the property: model diff only
				mo.on = false
				o.Kind("monitor-off-foreign-keys")
			}
			o.Kind(fmt.Sprintf("cfg-wt%d-np%d-id%d", b2i(wt), b2i(np), b2i(idw)))
			if !mo.on {
				o.Kind("monitor-off-nonfunctional-pool")
			}
			o.Emit("ok")
		case "put":
			b, _ := blocks.NewBlockWithCid(vh.UnHex(f[2]), parseCid(f[1]))
			err := bs.Put(ctx, b)
			mo.put(b)
			puts++
			lastPutCid[string(b.Cid().Hash())] = f[1]
			o.Kind("put")
			// monitor: the datastore key helpers invert each other on every multihash put
			if k := b.Cid(); k.Defined() {
				if c1, err := dshelp.DsKeyToCidV1(dshelp.MultihashToDsKey(k.Hash()), cid.Raw); err != nil || !bytesEq(c1.Hash(), k.Hash()) {
					o.Fail("dskey-roundtrip", "DsKeyToCidV1(MultihashToDsKey(%x)) = %v, %v", k.Hash(), c1, err)
				}
			}
			emitErrP(o, err, provOut())
		case "putmany":
			var bl []blocks.Block
			for i := 1; i+1 < len(f); i += 2 {
				b, _ := blocks.NewBlockWithCid(vh.UnHex(f[i+1]), parseCid(f[i]))
				bl = append(bl, b)
				mo.put(b)
				lastPutCid[string(b.Cid().Hash())] = f[i]
			}
			puts++
			o.Kind(fmt.Sprintf("putmany-%d", min(len(bl), 3)))
			err := bs.PutMany(ctx, bl)
			// monitor: nothing announced is an identity multihash behind the identity wrapper, and every
			// announced multihash belongs to a block of this call
			if prov != nil {
				for _, call := range prov.calls {
					for _, h := range call {
						found := false
						for _, b := range bl {
							if vh.Hex(b.Cid().Hash()) == h {
								_, isID := identityDigest(b.Cid())
								found = !(idw && isID)
							}
						}
						if !found {
							o.Fail("provided-foreign-multihash", "PutMany announced %s", h)
						}
					}
				}
			}
			emitErrP(o, err, provOut())
		case "del":
			k := parseCid(f[1])
			err := bs.DeleteBlock(ctx, k)
			if _, isID := identityDigest(k); !(mo.id && isID) {
				delete(mo.m, string(k.Hash()))
			}
			dels++
			o.Kind("del")
			emitErr(o, err)
		case "get", "view":
			k := parseCid(f[1])
			var data []byte
			var err error
			if f[0] == "get" {
				var b blocks.Block
				b, err = bs.Get(ctx, k)
				if err == nil {
					data = b.RawData()
					if !b.Cid().Equals(k) {
						o.Fail("get-wrong-cid", "Get(%s) returned a block with CID %s", k, b.Cid())
					}
				}
			} else {
				v, ok := bs.(blockstore.Viewer)
				if !ok {
					o.Kind("noview")
					o.Emit("noview")
					continue
				}
				err = v.View(ctx, k, func(b []byte) error { data = append([]byte{}, b...); return nil })
			}
			o.Kind(f[0])
			// monitor: the map law
			if mo.on {
				want, present := mo.m[string(k.Hash())]
				if d, isID := identityDigest(k); mo.id && isID {
					want, present = d, true
				}
				if !k.Defined() {
					present = false
				}
				switch {
				case present && err != nil:
					o.Fail("get-missing", "%s %s: stored block not returned (%v)", f[0], f[1], err)
				case present && !bytesEq(data, want):
					o.Fail("get-wrong-bytes", "%s %s: got %x want %x", f[0], f[1], data, want)
				case !present && err == nil:
					o.Fail("get-phantom", "%s %s: returned %x for an absent block", f[0], f[1], data)
				}
			}
			switch {
			case err == nil:
				hits++
				if lp, ok := lastPutCid[string(k.Hash())]; ok && lp != f[1] {
					aliasHits++
					o.Kind("alias-hit")
				}
				o.Emit("data %s", vh.Hex(data))
			case isNotFound(err):
				o.Emit("notfound")
			default:
				o.Emit("error")
			}
		case "has":
			k := parseCid(f[1])
			h, err := bs.Has(ctx, k)
			o.Kind("has")
			if mo.on {
				_, present := mo.m[string(k.Hash())]
				if _, isID := identityDigest(k); mo.id && isID {
					present = true
				}
				if err != nil || h != present {
					o.Fail("has-wrong", "Has(%s)=%v,%v want %v", f[1], h, err, present)
				}
			}
			if err != nil {
				o.Emit("error")
			} else {
				o.Emit("%v", h)
			}
		case "size":
			k := parseCid(f[1])
			n, err := bs.GetSize(ctx, k)
			o.Kind("size")
			if mo.on {
				want, present := mo.m[string(k.Hash())]
				if d, isID := identityDigest(k); mo.id && isID {
					want, present = d, true
				}
				if present && (err != nil || n != len(want)) || !present && err == nil {
					o.Fail("size-wrong", "GetSize(%s)=%d,%v want present=%v len=%d", f[1], n, err, present, len(want))
				}
			}
			switch {
			case err == nil:
				o.Emit("size %d", n)
			case isNotFound(err):
				o.Emit("notfound")
			default:
				o.Emit("error")
			}
		case "rawput":
			o.Kind("rawput")
			emitErr(o, mds.Put(ctx, ds.RawKey(f[1]), vh.UnHex(f[2])))
		case "gc":
			o.Kind("gc")
			gcExercise(ctx, bs, o)
			o.Emit("ok")
		case "keyscancel":
			o.Kind("keyscancel")
			keysCancel(ctx, bs, vh.Atoi(f[1]), mo, hasForeign, o)
			o.Emit("ok")
		case "keys", "keyserr":
			var ch <-chan cid.Cid
			var err error
			errFn := func() error { return nil }
			if f[0] == "keyserr" {
				we, ok := bs.(blockstore.AllKeysChanWithErrer)
				if !ok {
					o.Fail("no-allkeys-with-err", "%T does not implement AllKeysChanWithErrer", bs)
					o.Emit("error")
					continue
				}
				ch, errFn, err = we.AllKeysChanWithErr(ctx)
			} else {
				ch, err = bs.AllKeysChan(ctx)
			}
			if err != nil {
				o.Emit("error")
				continue
			}
			var ks []string
			for k := range ch {
				ks = append(ks, vh.Hex(k.Hash()))
				if k.Version() != 1 || k.Type() != cid.Raw {
					o.Fail("keys-not-v1raw", "AllKeysChan returned %s", k)
				}
			}
			sort.Strings(ks)
			o.Kind(f[0])
			if e := errFn(); e != nil {
				o.Fail("allkeys-error-after-full-drain", "AllKeysChanWithErr error function: %v", e)
			}
			if mo.on && !hasForeign {
				var want []string
				for k := range mo.m {
					want = append(want, vh.Hex([]byte(k)))
				}
				sort.Strings(want)
				if strings.Join(ks, ",") != strings.Join(want, ",") {
					o.Fail("keys-wrong", "AllKeysChan=%v want %v", ks, want)
				}
			}
			o.Emit("keys %s", strings.Join(ks, ","))
		case "dump":
			res, _ := mds.Query(ctx, dsq.Query{})
			es, _ := res.Rest()
			var ls []string
			for _, e := range es {
				ls = append(ls, e.Key+"="+vh.Hex(e.Value))
				// monitor: an identity block is never written to the backing store
				if idw {
					raw := strings.TrimPrefix(e.Key, "/blocks")
					if b, err := base32.RawStdEncoding.DecodeString(strings.TrimPrefix(raw, "/")); err == nil {
						if d, err := mh.Decode(b); err == nil && d.Code == mh.IDENTITY {
							o.Fail("identity-written", "backing store holds identity multihash key %s", e.Key)
						}
					}
				}
			}
			sort.Strings(ls)
			o.Kind("dump")
			o.Emit("dump %s", strings.Join(ls, ";"))
		default:
			o.Emit("bad-op")
		}
	}
	if cl, ok := bs.(interface{ Close() error }); ok {
		if err := cl.Close(); err != nil {
			o.Fail("close-error", "%v", err)
		}
	}
	if puts > 0 && dels > 0 && hits > 0 {
		o.Nontrivial()
	}
	_ = aliasHits
}

func bytesEq(a, b []byte) bool { return string(a) == string(b) }

func emitErrP(o *vh.Out, err error, prov string) {
	if err != nil {
		o.Emit("error%s", prov)
	} else {
		o.Emit("ok%s", prov)
	}
}

// keysCancel reads n keys from AllKeysChanWithErr, cancels, drains, and judges what is timing
// independent: delivered keys are distinct and present; no error reported ⇒ the delivery was complete.
func keysCancel(ctx context.Context, bs blockstore.Blockstore, n int, mo *monitor, foreign bool, o *vh.Out) {
	we, ok := bs.(blockstore.AllKeysChanWithErrer)
	if !ok {
		return
	}
	cctx, cancel := context.WithCancel(ctx)
	defer cancel()
	ch, errFn, err := we.AllKeysChanWithErr(cctx)
	if err != nil {
		o.Fail("allkeys-setup-error", "%v", err)
		return
	}
	seen := map[string]bool{}
	got := 0
	for k := range ch {
		h := string(k.Hash())
		if seen[h] && !foreign {
			o.Fail("allkeys-duplicate", "key %x delivered twice", h)
		}
		seen[h] = true
		got++
		if got == n {
			cancel()
		}
	}
	if n == 0 {
		cancel()
	}
	e := errFn()
	if !mo.on || foreign {
		return
	}
	for h := range seen {
		if _, present := mo.m[h]; !present {
			o.Fail("allkeys-phantom", "cancelled enumeration delivered absent key %x", h)
		}
	}
	if e == nil && len(seen) != len(mo.m) {
		o.Fail("allkeys-truncated-without-error", "delivered %d of %d keys, error function returned nil", len(seen), len(mo.m))
	}
	if e != nil {
		o.Kind("keyscancel-cut")
	}
}

// gcExercise drives the GCLocker through NewGCBlockstore: sequential lock/unlock pairs, and one
// deterministic two-goroutine hand-over (a GC request waits for a pinner and is visible meanwhile).
func gcExercise(ctx context.Context, bs blockstore.Blockstore, o *vh.Out) {
	g := blockstore.NewGCBlockstore(bs, blockstore.NewGCLocker())
	if g.GCRequested(ctx) {
		o.Fail("gclocker-requested-when-idle", "GCRequested true on a fresh locker")
	}
	g.GCLock(ctx).Unlock(ctx)
	p1, p2 := g.PinLock(ctx), g.PinLock(ctx) // pin locks are shared
	p2.Unlock(ctx)
	acquired := make(chan struct{})
	go func() {
		u := g.GCLock(ctx)
		close(acquired)
		u.Unlock(ctx)
	}()
	deadline := time.Now().Add(5 * time.Second)
	for !g.GCRequested(ctx) && time.Now().Before(deadline) {
		time.Sleep(50 * time.Microsecond)
	}
	if !g.GCRequested(ctx) {
		o.Fail("gclocker-request-invisible", "GCRequested stayed false while GCLock waits for a pinner")
	}
	select {
	case <-acquired:
		o.Fail("gclocker-gc-during-pin", "GCLock acquired while a PinLock is held")
	default:
	}
	p1.Unlock(ctx)
	select {
	case <-acquired:
	case <-time.After(5 * time.Second):
		o.Fail("gclocker-gc-starved", "GCLock not acquired after the pinner left")
	}
	if has, err := g.Has(ctx, cid.NewCidV1(cid.Raw, []byte{0x12, 0x01, 0x00})); err != nil || has && false {
		o.Fail("gcblockstore-has", "%v", err)
	}
}

func emitErr(o *vh.Out, err error) {
	if err != nil {
		o.Emit("error")
	} else {
		o.Emit("ok")
	}
}

func main() {
	logging.SetLogLevel("*", "fatal") // Get(undefined CID) logs an error line per call
	vh.Main(vh.Config{Gen: gen, Exec: exec})
}
