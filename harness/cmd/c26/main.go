// C26 harness: ipns.NewRecord over key types x sequence numbers x expiries x TTLs x metadata x options,
// then MarshalRecord / UnmarshalRecord / ValidateWithName / accessors on the real code.
package main

import (
	"bytes"
	"crypto/rand"
	"errors"
	"fmt"
	"math"
	"math/big"
	"sort"
	"strconv"
	"strings"
	"time"

	"github.com/ipfs/boxo/ipns"
	ipns_pb "github.com/ipfs/boxo/ipns/pb"
	"github.com/ipfs/boxo/path"
	"github.com/ipfs/boxo/util"
	"github.com/ipld/go-ipld-prime/codec/dagcbor"
	"github.com/ipld/go-ipld-prime/datamodel"
	basicnode "github.com/ipld/go-ipld-prime/node/basic"
	ic "github.com/libp2p/go-libp2p/core/crypto"
	"github.com/libp2p/go-libp2p/core/peer"
	"google.golang.org/protobuf/proto"

	"verifharness/vh"
)

type keyInfo struct {
	skHex string
	typ   string
	need  bool // the peer ID does not inline the public key
}

var keyCache []keyInfo

func allKeys() []keyInfo {
	if keyCache != nil {
		return keyCache
	}
	mk := func(typ string, t, bits, n int) {
		for i := 0; i < n; i++ {
			sk, pk, err := ic.GenerateKeyPairWithReader(t, bits, rand.Reader)
			if err != nil {
				panic(err)
			}
			b, _ := ic.MarshalPrivateKey(sk)
			pid, _ := peer.IDFromPublicKey(pk)
			_, err = pid.ExtractPublicKey()
			keyCache = append(keyCache, keyInfo{fmt.Sprintf("%x", b), typ, err != nil})
		}
	}
	mk("ed25519", ic.Ed25519, 0, 2)
	mk("secp256k1", ic.Secp256k1, 0, 1)
	mk("ecdsa", ic.ECDSA, 0, 1)
	mk("rsa", ic.RSA, 2048, 1)
	return keyCache
}

var values = []string{
	"/ipfs/bafkqaaa",
	"/ipfs/bafybeigdyrzt5sfp7udm7hu76uh7y26nf3efuylqabf3oclgtqy55fbzdi",
	"/ipfs/bafybeigdyrzt5sfp7udm7hu76uh7y26nf3efuylqabf3oclgtqy55fbzdi/a/b/",
	"/ipns/k51qzi5uqu5dlvj2baxnqndepeb86cbk3ng7n3i46uzyxzyqj2xjonzllnv0v8/x",
	"/ipns/example.com",
}

func nsOf(t time.Time) string {
	x := new(big.Int).Mul(big.NewInt(t.Unix()), big.NewInt(1_000_000_000))
	x.Add(x, big.NewInt(int64(t.Nanosecond())))
	return x.String()
}

func timeOf(ns string) time.Time {
	x, _ := new(big.Int).SetString(ns, 10)
	sec, nsec := new(big.Int).DivMod(x, big.NewInt(1_000_000_000), new(big.Int))
	return time.Unix(sec.Int64(), nsec.Int64()).UTC()
}

var goodKeys = []string{"_a", "_bb", "_c", "x", "_ccccccccccccc", "Zeta", "_é", "ValuE", "TTL2", "_"}

func genMeta(r *vh.Rand, bad bool) string {
	n := r.Intn(5)
	if r.Chance(1, 3) {
		n = 0
	}
	var es []string
	used := map[string]bool{}
	for i := 0; i < n; i++ {
		k := vh.Pick(r, goodKeys)
		if used[k] {
			continue
		}
		used[k] = true
		var kind, v string
		switch r.Intn(5) {
		case 0:
			kind, v = "s", vh.Hex([]byte(vh.Pick(r, []string{"", "x", "hello world", "ünï"})))
		case 1:
			kind, v = "b", vh.Hex(r.Bytes(r.Intn(6)))
		case 2:
			kind, v = "i", strconv.FormatInt(vh.Pick(r, []int64{0, -1, 1, math.MaxInt64, math.MinInt64, 42}), 10)
		case 3:
			kind, v = "n", strconv.Itoa(vh.Pick(r, []int{0, -7, 123456}))
		default:
			kind, v = "t", strconv.Itoa(r.Intn(2))
		}
		es = append(es, fmt.Sprintf("%x:%s:%s", k, kind, v))
	}
	if bad { // exactly one offending entry (with several, the error reported depends on Go's map order)
		var e string
		switch r.Intn(4) {
		case 0:
			e = ":s:" + vh.Hex([]byte("v"))
		case 1:
			e = fmt.Sprintf("%x:i:1", vh.Pick(r, []string{"Value", "Validity", "ValidityType", "Sequence", "TTL"}))
		case 2:
			e = fmt.Sprintf("%x:z:-", "_nil")
		default:
			e = fmt.Sprintf("%x:u:%d", "_u", r.Intn(3))
		}
		es = append(es, e)
		a := r.Intn(len(es))
		es[a], es[len(es)-1] = es[len(es)-1], es[a]
	}
	if len(es) == 0 {
		return "-"
	}
	return strings.Join(es, ";")
}

func gen(r *vh.Rand, tier string, n int, emit func(vh.Case)) {
	r = vh.NewRand(r.U64())
	now := time.Now().UTC()
	ks := allKeys()
	year9999 := time.Date(9999, 12, 31, 23, 59, 59, 999999999, time.UTC)
	for i := 0; i < n; i++ {
		cr := r.Fork()
		c := vh.Case{ID: strconv.Itoa(i)}
		for j, m := 0, 1+cr.Intn(3); j < m; j++ {
			k := ks[cr.Intn(len(ks))]
			val := vh.Pick(cr, values)
			big := "0"
			if cr.Chance(1, 30) { // a value that pushes the record over MaxRecordSize
				val = "/ipfs/bafkqaaa/" + strings.Repeat("a", 10500)
				big = "1"
			}
			seq := vh.Pick(cr, []uint64{0, 1, 2, 1<<63 - 1, 1 << 63, 1<<64 - 1, cr.U64()})
			var eol time.Time
			switch cr.Intn(8) {
			case 0:
				eol = now.Add(time.Nanosecond * time.Duration(1+cr.Intn(5))).Add(time.Hour) // sub-second classes
			case 1:
				eol = year9999
			case 2:
				eol = time.Date(2000+cr.Intn(7999), time.Month(1+cr.Intn(12)), 1+cr.Intn(28), cr.Intn(24), cr.Intn(60), cr.Intn(60), cr.Intn(1_000_000_000), time.UTC)
			case 3:
				eol = now.Add(time.Hour).Truncate(time.Second) // no fraction
			case 4:
				eol = now.Add(time.Hour).Truncate(time.Second).Add(500 * time.Millisecond) // trailing zeros trimmed
			case 5:
				eol = now.Add(-time.Duration(1+cr.Intn(100)) * time.Hour) // already expired: creation works, validation fails
				if cr.Chance(1, 2) { // any year from 0001 on (zero-padded years, old leap-year rules)
					eol = time.Date(1+cr.Intn(2025), time.Month(1+cr.Intn(12)), 1+cr.Intn(31), cr.Intn(24), cr.Intn(60), cr.Intn(60), cr.Intn(1_000_000_000), time.UTC)
				}
			default:
				eol = now.Add(time.Duration(1+cr.Intn(100000)) * time.Minute).Add(time.Duration(cr.Intn(1_000_000_000)))
			}
			ttl := vh.Pick(cr, []int64{0, 1, int64(time.Minute), int64(5 * time.Minute), math.MaxInt64, -1, math.MinInt64, -int64(time.Hour), int64(cr.U64() >> 2)})
			embed := vh.Pick(cr, []string{"-", "-", "-", "0", "1"})
			need := "0"
			if k.need {
				need = "1"
			}
			v1 := strconv.Itoa(cr.Intn(2))
			meta := genMeta(cr, cr.Chance(1, 6))
			f := eol.UTC().Format(time.RFC3339Nano)
			c.Ops = append(c.Ops, fmt.Sprintf("new kt=%s value=%x seq=%d eol=%s now=%s ttl=%d v1=%s embed=%s needembed=%s big=%s meta=%s fmt=%x sk=%s",
				k.typ, val, seq, nsOf(eol), nsOf(now), ttl, v1, embed, need, big, meta, f, k.skHex))
		}
		// RFC3339Nano parsing on its own: formatted instants and damaged / unusual spellings
		for j, m := 0, cr.Intn(4); j < m; j++ {
			t := time.Date(1+cr.Intn(9999), time.Month(1+cr.Intn(12)), 1+cr.Intn(31), cr.Intn(24), cr.Intn(60), cr.Intn(60), 0, time.UTC)
			switch cr.Intn(4) {
			case 0:
				t = t.Add(time.Duration(cr.Intn(1_000_000_000)))
			case 1:
				t = t.Add(time.Duration(cr.Intn(1000)) * time.Millisecond)
			case 2:
				t = t.Add(time.Duration(cr.Intn(10)) * 100 * time.Millisecond)
			}
			if t.Year() > 9999 || t.Year() < 1 {
				t = year9999
			}
			str := t.Format(time.RFC3339Nano)
			switch cr.Intn(12) {
			case 0: // one byte replaced
				b := []byte(str)
				b[cr.Intn(len(b))] = vh.Pick(cr, []byte("0123456789-:.TZ+ ,tz/"))
				str = string(b)
			case 1: // truncated
				str = str[:cr.Intn(len(str))]
			case 2: // zone offset instead of Z
				str = str[:len(str)-1] + vh.Pick(cr, []string{"+00:00", "-00:00", "+02:00", "-07:30", "+14:00", "+23:59", "-23:59", "+24:00", "+02:60", "+0200", "+02"})
			case 3: // impossible dates and times
				b := []byte(str)
				copy(b[5:10], vh.Pick(cr, []string{"02-30", "02-29", "04-31", "13-01", "00-10", "12-00", "12-32"}))
				str = string(b)
			case 4:
				b := []byte(str)
				copy(b[11:19], vh.Pick(cr, []string{"24:00:00", "23:60:00", "23:59:60", "00:00:00"}))
				str = string(b)
			case 5: // many fractional digits
				str = str[:19] + "." + vh.Pick(cr, []string{"1234567891", "0000000001", "999999999999", "5", ""}) + "Z"
			case 6:
				str += vh.Pick(cr, []string{"Z", " ", "x"})
			case 7: // a separator position replaced (Go accepts ',' for '.', nothing else)
				b := []byte(str)
				pos := vh.Pick(cr, []int{4, 7, 10, 13, 16, 19, len(b) - 1})
				if pos < len(b) {
					b[pos] = vh.Pick(cr, []byte("-:.,TZtz +_/0;"))
				}
				str = string(b)
			}
			c.Ops = append(c.Ops, "ptime "+vh.Hex([]byte(str)))
		}
		emit(c)
	}
}

// ---------------------------------------------------------------- exec

func kvOf(f []string, k string) string {
	for _, t := range f {
		if strings.HasPrefix(t, k+"=") {
			return t[len(k)+1:]
		}
	}
	return ""
}

func hx(b []byte) string { return vh.Hex(b) }

func parseMeta(s string) (map[string]any, []string) {
	m := map[string]any{}
	var keys []string
	if s == "-" {
		return nil, nil
	}
	for _, e := range strings.Split(s, ";") {
		p := strings.SplitN(e, ":", 3)
		k := string(vh.UnHex(orDash(p[0])))
		keys = append(keys, k)
		switch p[1] {
		case "s":
			m[k] = string(vh.UnHex(p[2]))
		case "b":
			m[k] = vh.UnHex(p[2])
		case "i":
			v, _ := strconv.ParseInt(p[2], 10, 64)
			m[k] = v
		case "n":
			v, _ := strconv.Atoi(p[2])
			m[k] = v
		case "t":
			m[k] = p[2] == "1"
		case "z":
			m[k] = nil
		default:
			switch p[2] {
			case "0":
				m[k] = 1.5
			case "1":
				m[k] = uint64(7)
			default:
				m[k] = []string{"a"}
			}
		}
	}
	return m, keys
}

func orDash(s string) string {
	if s == "" {
		return "-"
	}
	return s
}

func showNodeVal(v datamodel.Node) string {
	switch v.Kind() {
	case datamodel.Kind_Bytes:
		b, _ := v.AsBytes()
		return "b:" + hx(b)
	case datamodel.Kind_Int:
		i, _ := v.AsInt()
		return "i:" + strconv.FormatInt(i, 10)
	case datamodel.Kind_String:
		s, _ := v.AsString()
		return "s:" + hx([]byte(s))
	case datamodel.Kind_Bool:
		if t, _ := v.AsBool(); t {
			return "t:1"
		}
		return "t:0"
	}
	return "o:"
}

func class(err error) string {
	switch {
	case err == nil:
		return "ok"
	case errors.Is(err, ipns.ErrRecordSize):
		return "size"
	case errors.Is(err, ipns.ErrSignature):
		return "sig"
	case errors.Is(err, ipns.ErrExpiredRecord):
		return "expired"
	case errors.Is(err, ipns.ErrPublicKeyMismatch):
		return "keymismatch"
	case errors.Is(err, ipns.ErrPublicKeyNotFound), errors.Is(err, peer.ErrNoPublicKey):
		return "nokey"
	case errors.Is(err, ipns.ErrInvalidRecord):
		return "invalid"
	case strings.Contains(err.Error(), "did not match between protobuf and CBOR"):
		return "mismatch"
	}
	return "other"
}

func exec(c vh.Case, o *vh.Out) {
	for _, line := range c.Ops {
		f := strings.Fields(line)
		if f[0] == "ptime" {
			str := string(vh.UnHex(orDash(f[1])))
			t, err := util.ParseRFC3339(str)
			if err != nil {
				o.Kind("ptime-err")
				o.Emit("err")
			} else {
				o.Kind("ptime-ok")
				// monitor: parse∘format = id on the way back
				if back, err := util.ParseRFC3339(util.FormatRFC3339(t)); (t.Year() >= 1 && t.Year() <= 9999) && (err != nil || !back.Equal(t)) {
					o.Fail("rfc3339-roundtrip", "format/parse of %v gives %v (%v)", t, back, err)
				}
				o.Emit("ok %s", nsOf(t))
			}
			continue
		}
		if f[0] != "new" {
			o.Emit("bad-op")
			continue
		}
		sk, err := ic.UnmarshalPrivateKey(vh.UnHex(kvOf(f, "sk")))
		if err != nil {
			panic(err)
		}
		pid, _ := peer.IDFromPrivateKey(sk)
		name := ipns.NameFromPeer(pid)
		valStr := string(vh.UnHex(kvOf(f, "value")))
		val, err := path.NewPath(valStr)
		if err != nil {
			panic(err)
		}
		seq, _ := strconv.ParseUint(kvOf(f, "seq"), 10, 64)
		eol := timeOf(kvOf(f, "eol"))
		now := timeOf(kvOf(f, "now"))
		ttlI, _ := strconv.ParseInt(kvOf(f, "ttl"), 10, 64)
		md, mkeys := parseMeta(kvOf(f, "meta"))
		opts := []ipns.Option{ipns.WithV1Compatibility(kvOf(f, "v1") == "1")}
		if e := kvOf(f, "embed"); e != "-" {
			opts = append(opts, ipns.WithPublicKey(e == "1"))
		}
		if md != nil {
			opts = append(opts, ipns.WithMetadata(md))
		}
		o.Kind("key-" + kvOf(f, "kt"))
		rec, err := ipns.NewRecord(sk, val, seq, eol, time.Duration(ttlI), opts...)
		badMeta := false
		for k, v := range md {
			switch v.(type) {
			case string, []byte, int64, int, bool:
			default:
				badMeta = true
			}
			if k == "" || k == "Value" || k == "Validity" || k == "ValidityType" || k == "Sequence" || k == "TTL" {
				badMeta = true
			}
		}
		if err != nil {
			cl := "other"
			switch {
			case errors.Is(err, ipns.ErrMetadataEmptyKey):
				cl = "emptykey"
			case errors.Is(err, ipns.ErrMetadataConflict):
				cl = "conflict"
			case errors.Is(err, ipns.ErrMetadataUnsupportedType):
				cl = "unsupported"
			case errors.Is(err, ipns.ErrInvalidRecord):
				cl = "invalid"
			}
			if !badMeta {
				o.Fail("valid-input-rejected", "NewRecord failed on valid input: %v", err)
			}
			o.Kind("reject-" + cl)
			o.Emit("reject:%s", cl)
			continue
		}
		if badMeta {
			o.Fail("invalid-metadata-accepted", "NewRecord accepted metadata %q", kvOf(f, "meta"))
		}
		raw, err := ipns.MarshalRecord(rec)
		if err != nil {
			panic(err)
		}
		var pb ipns_pb.IpnsRecord
		if err := proto.Unmarshal(raw, &pb); err != nil {
			panic(err)
		}
		// the CBOR document as encoded
		nb := basicnode.Prototype__Map{}.NewBuilder()
		if err := dagcbor.Decode(nb, bytes.NewReader(pb.GetData())); err != nil {
			panic(err)
		}
		var es []string
		it := nb.Build().MapIterator()
		for !it.Done() {
			k, v, _ := it.Next()
			ks, _ := k.AsString()
			es = append(es, hx([]byte(ks))+":"+showNodeVal(v))
		}
		b01 := func(b bool) int {
			if b {
				return 1
			}
			return 0
		}
		created := fmt.Sprintf("node=%s v=%s vy=%s seq=%d ttl=%d s1=%d pk=%d", strings.Join(es, ";"), hx(pb.GetValue()), hx(pb.GetValidity()),
			pb.GetSequence(), pb.GetTtl(), b01(len(pb.GetSignatureV1()) != 0), b01(len(pb.GetPubKey()) != 0))
		// formatted validity, byte for byte
		if want := string(vh.UnHex(kvOf(f, "fmt"))); true {
			nd := nb.Build()
			if v, err := nd.LookupByString("Validity"); err == nil {
				if b, _ := v.AsBytes(); string(b) != want {
					o.Fail("validity-format", "signed validity %q, RFC3339Nano of the input %q", b, want)
				}
			}
		}
		expectValid := !now.After(eol) && kvOf(f, "big") == "0" && !(kvOf(f, "embed") == "0" && kvOf(f, "needembed") == "1")
		r2, err := ipns.UnmarshalRecord(raw)
		if err != nil {
			if expectValid {
				o.Fail("roundtrip-unmarshal", "created record does not unmarshal: %v", err)
			}
			o.Kind("rt-" + class(err))
			o.Emit("%s rt=%s", created, class(err))
			continue
		}
		vwn := class(ipns.ValidateWithName(r2, name))
		o.Kind("vwn-" + vwn)
		aseq, e1 := r2.Sequence()
		attl, e2 := r2.TTL()
		aeol, e3 := r2.Validity()
		aval, e4 := r2.Value()
		// ---- monitor: the property's statement
		if expectValid {
			o.Nontrivial()
			if vwn != "ok" {
				o.Fail("roundtrip-invalid", "created record does not validate against its name: %s", vwn)
			}
		}
		if e1 != nil || aseq != seq {
			o.Fail("roundtrip-sequence", "Sequence() = %d (%v), input %d", aseq, e1, seq)
		}
		if e2 != nil || int64(attl) != max(0, ttlI) {
			o.Fail("roundtrip-ttl", "TTL() = %d (%v), input %d", attl, e2, ttlI)
		}
		if e3 != nil || !aeol.Equal(eol) || aeol.UnixNano() != eol.UnixNano() && eol.Year() < 2262 {
			o.Fail("roundtrip-eol", "Validity() = %v (%v), input %v", aeol, e3, eol)
		}
		if e4 != nil || aval.String() != val.String() {
			o.Fail("roundtrip-value", "Value() = %v (%v), input %v", aval, e4, val)
		}
		sort.Strings(mkeys)
		var ms []string
		for _, k := range mkeys {
			mv, err := r2.Metadata(k)
			if err != nil {
				ms = append(ms, hx([]byte(k))+"=none")
				o.Fail("roundtrip-metadata", "Metadata(%q): %v", k, err)
				continue
			}
			var got string
			okv := false
			switch mv.Kind() {
			case ipns.MetadataKindString:
				s, _ := mv.AsString()
				got = "s:" + hx([]byte(s))
				w, isS := md[k].(string)
				okv = isS && w == s
			case ipns.MetadataKindBytes:
				b, _ := mv.AsBytes()
				got = "b:" + hx(b)
				w, isB := md[k].([]byte)
				okv = isB && bytes.Equal(w, b)
			case ipns.MetadataKindInt:
				i, _ := mv.AsInt()
				got = "i:" + strconv.FormatInt(i, 10)
				switch w := md[k].(type) {
				case int64:
					okv = w == i
				case int:
					okv = int64(w) == i
				}
			case ipns.MetadataKindBool:
				t, _ := mv.AsBool()
				got = fmt.Sprintf("t:%d", b01(t))
				w, isT := md[k].(bool)
				okv = isT && w == t
			default:
				got = "o:"
			}
			if !okv {
				o.Fail("roundtrip-metadata", "Metadata(%q) = %s, input %v", k, got, md[k])
			}
			ms = append(ms, hx([]byte(k))+"="+got)
		}
		meta := "-"
		if len(ms) > 0 {
			meta = strings.Join(ms, ",")
		}
		acc := func(s string, err error) string {
			if err != nil {
				return class(err)
			}
			return s
		}
		// MetadataEntries (iteration order = encoded order, reserved fields skipped) and MetadataExists
		var ents []string
		seen := map[string]bool{}
		for k, mv := range r2.MetadataEntries() {
			seen[k] = true
			var v string
			switch mv.Kind() {
			case ipns.MetadataKindString:
				x, _ := mv.AsString()
				v = "s:" + hx([]byte(x))
			case ipns.MetadataKindBytes:
				x, _ := mv.AsBytes()
				v = "b:" + hx(x)
			case ipns.MetadataKindInt:
				x, _ := mv.AsInt()
				v = "i:" + strconv.FormatInt(x, 10)
			case ipns.MetadataKindBool:
				x, _ := mv.AsBool()
				v = fmt.Sprintf("t:%d", b01(x))
			default:
				v = "o:"
			}
			if mv.Kind().String() == "invalid" {
				o.Fail("roundtrip-metadata", "entry %q has an invalid kind", k)
			}
			ents = append(ents, hx([]byte(k))+":"+v)
		}
		if len(seen) != len(mkeys) {
			o.Fail("roundtrip-metadata", "MetadataEntries yields %d entries, %d were given", len(seen), len(mkeys))
		}
		mex := ""
		for _, k := range append(append([]string(nil), mkeys...), "Value", "TTL", "_absent") {
			ex := r2.MetadataExists(k)
			mex += strconv.Itoa(b01(ex))
			if _, given := md[k]; given != ex {
				o.Fail("roundtrip-metadata", "MetadataExists(%q) = %v", k, ex)
			}
			if given := seen[k]; given != ex {
				o.Fail("roundtrip-metadata", "MetadataExists(%q) = %v but MetadataEntries says %v", k, ex, given)
			}
		}
		entS := "-"
		if len(ents) > 0 {
			entS = strings.Join(ents, ";")
		}
		o.Emit("%s rt=ok vwn=%s aseq=%s attl=%s aeol=%s aval=%s meta=%s ents=%s mex=%s", created, vwn,
			acc(strconv.FormatUint(aseq, 10), e1), acc(strconv.FormatInt(int64(attl), 10), e2), acc(nsOf(aeol), e3),
			acc(hx([]byte(fmt.Sprint(aval))), e4), meta, entS, mex)
	}
}

func main() { vh.Main(vh.Config{Gen: gen, Exec: exec}) }
