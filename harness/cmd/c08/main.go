// C08 harness: builds a file with trickle.Layout and then appends with the real trickle.Append,
// both through DagBuilderHelper over a scripted splitter (arbitrary chunk boundaries).
package main

import (
	"bytes"
	"context"
	"fmt"
	"io"
	"strconv"
	"strings"
	"time"

	"github.com/ipfs/boxo/files"
	dag "github.com/ipfs/boxo/ipld/merkledag"
	mdtest "github.com/ipfs/boxo/ipld/merkledag/test"
	h "github.com/ipfs/boxo/ipld/unixfs/importer/helpers"
	"github.com/ipfs/boxo/ipld/unixfs/importer/trickle"
	uio "github.com/ipfs/boxo/ipld/unixfs/io"
	cid "github.com/ipfs/go-cid"
	ipld "github.com/ipfs/go-ipld-format"
	mh "github.com/multiformats/go-multihash"

	"verifharness/ufsx"
	"verifharness/vh"
)

type state struct {
	ds      ipld.DAGService
	w       int
	raw     bool
	prefix  cid.Prefix
	mode    uint32
	hasTime bool
	mtime   time.Time // as requested at import (what the model prints)
	curTime time.Time // current root mtime
	root    ipld.Node
	content []byte
}

func (s *state) params() h.DagBuilderParams {
	return h.DagBuilderParams{Maxlinks: s.w, RawLeaves: s.raw, CidBuilder: s.prefix, Dagserv: s.ds}
}

// monitor: the property's predicates on the real DAG
func (s *state) monitor(o *vh.Out, wk *ufsx.Walk, recSize uint64, leaves []byte, what string) {
	dr, err := uio.NewDagReader(context.Background(), s.root, s.ds)
	if err != nil {
		o.Fail("reader-error", "%s: NewDagReader: %v", what, err)
	} else {
		got, err := io.ReadAll(dr)
		if err != nil || !bytes.Equal(got, s.content) {
			o.Fail("content-mismatch", "%s: DagReader returned %d bytes (err=%v), expected %d", what, len(got), err, len(s.content))
		}
		if dr.Size() != uint64(len(s.content)) {
			o.Fail("size-mismatch", "%s: DagReader.Size()=%d expected %d", what, dr.Size(), len(s.content))
		}
	}
	if !bytes.Equal(leaves, s.content) {
		o.Fail("content-mismatch", "%s: leaves concatenate to %d bytes, expected %d", what, len(leaves), len(s.content))
	}
	if recSize != uint64(len(s.content)) {
		o.Fail("size-mismatch", "%s: root records %d, expected %d", what, recSize, len(s.content))
	}
	if !wk.SizesOK {
		o.Fail("sizes-inconsistent", "%s: %s", what, wk.SizesMsg)
	}
	p := s.prefix
	if err := trickle.VerifyTrickleDagStructure(s.root, trickle.VerifyParams{
		Getter: s.ds, Direct: s.w, LayerRepeat: 4, Prefix: &p, RawLeaves: s.raw,
	}); err != nil {
		o.Fail("tri-shape", "%s: VerifyTrickleDagStructure: %v", what, err)
	}
}

func exec(c vh.Case, o *vh.Out) {
	var s *state
	appends := 0
	for _, line := range c.Ops {
		f := strings.Fields(line)
		switch {
		case f[0] == "new" && len(f) >= 7:
			s = &state{ds: mdtest.Mock(), w: vh.Atoi(f[1]), raw: f[2] == "1"}
			s.prefix, _ = dag.PrefixForCidVersion(vh.Atoi(f[3]))
			if f[4] == "blake" {
				s.prefix.MhType = mh.BLAKE2B_MIN + 31
				s.prefix.MhLength = -1
			}
			s.mode = uint32(vh.Atoi(f[5]))
			if f[6] != "-" {
				p := strings.SplitN(f[6], ".", 2)
				sec, _ := strconv.ParseInt(p[0], 10, 64)
				ns, _ := strconv.ParseInt(p[1], 10, 64)
				s.hasTime, s.mtime = true, time.Unix(sec, ns)
			}
			chunks := ufsx.Chunks(f[7:])
			params := s.params()
			params.FileMode = files.UnixPermsToModePerms(s.mode)
			params.FileModTime = s.mtime
			db, err := params.New(&ufsx.Scripted{Chunks: chunks})
			if err != nil {
				o.Emit("error")
				continue
			}
			root, err := trickle.Layout(db)
			if err != nil {
				o.Emit("error")
				s = nil
				continue
			}
			s.root, s.content = root, ufsx.Concat(chunks)
			_, s.curTime, _ = ufsx.RootAttrs(root)
			wk := ufsx.NewWalk(s.ds)
			rec, leaves := wk.Dump(root, 0)
			s.monitor(o, wk, rec, leaves, "layout")
			o.Kind(fmt.Sprintf("base-height%d", min(wk.Height, 5)))
			o.Emit("%s", wk.SB.String())
		case f[0] == "app" && s != nil:
			chunks := ufsx.Chunks(f[1:])
			ap := s.params()
			db, err := ap.New(&ufsx.Scripted{Chunks: chunks})
			if err != nil {
				o.Emit("error")
				continue
			}
			before := time.Now()
			root, err := trickle.Append(context.Background(), s.root, db)
			if err != nil {
				o.Kind("append-error")
				o.Fail("append-error", "trickle.Append: %v", err)
				o.Emit("error")
				continue
			}
			if err := s.ds.Add(context.Background(), root); err != nil {
				panic(err)
			}
			s.root = root
			s.content = append(s.content, ufsx.Concat(chunks)...)
			appends++
			// canonicalise a refreshed mtime: time.Now() is not comparable with the model
			gotMode, gotTime, _ := ufsx.RootAttrs(root)
			touched := 0
			wk := ufsx.NewWalk(s.ds)
			if !gotTime.Equal(s.curTime) {
				touched = 1
				if !s.hasTime || gotTime.Before(before.Add(-time.Second)) {
					o.Fail("mtime-wrong", "root mtime became %s (was %s)", ufsx.ShowTime(gotTime), ufsx.ShowTime(s.curTime))
				}
				s.curTime = gotTime
			}
			wk.RootTime = &s.mtime
			if gotMode != s.mode {
				o.Fail("mode-lost", "root mode %o, was %o", gotMode, s.mode)
			}
			rec, leaves := wk.Dump(root, 0)
			s.monitor(o, wk, rec, leaves, fmt.Sprintf("append#%d", appends))
			o.Kind(fmt.Sprintf("height%d", min(wk.Height, 5)))
			if touched == 1 {
				o.Kind("mtime-refreshed")
			}
			if wk.Height >= 2 && len(chunks) > 0 {
				o.Nontrivial()
			}
			o.Emit("%s touched=%d", wk.SB.String(), touched)
		default:
			o.Emit("bad-op")
		}
	}
}

func chunkToks(r *vh.Rand, n int) []string {
	toks := make([]string, n)
	for j := range toks {
		ln := 1
		if r.Chance(1, 4) {
			ln = r.Range(1, 4)
		}
		toks[j] = vh.Hex(r.Bytes(ln))
	}
	return toks
}

// counts biased to the interesting boundaries: around w + 4k and the full sizes of depth-d subtrees
func pickCount(r *vh.Rand, w, max int) int {
	switch r.Intn(4) {
	case 0:
		return r.Intn(w + 2)
	case 1:
		k := r.Intn(6)
		n := w + 4*k*w + r.Range(-2, 2)
		if n < 0 {
			n = 0
		}
		if n > max {
			n = r.Intn(max + 1)
		}
		return n
	default:
		return r.Intn(max + 1)
	}
}

func gen(r *vh.Rand, tier string, n int, emit func(vh.Case)) {
	for i := 0; i < n; i++ {
		c := vh.Case{ID: strconv.Itoa(i)}
		var w int
		switch {
		case r.Chance(7, 10):
			w = r.Range(2, 4)
		case r.Chance(1, 8):
			w = 1
		default:
			w = r.Range(5, 16)
		}
		max := 120
		if tier == "thorough" {
			max = 300
		}
		raw := r.Intn(2)
		cidv := r.Intn(2)
		hash := "sha"
		if cidv == 1 && r.Chance(1, 4) {
			hash = "blake"
		}
		mode, mtime := 0, "-"
		if r.Chance(1, 3) {
			mode = vh.Pick(r, []int{0o644, 0o755})
		}
		if r.Chance(1, 2) {
			mtime = vh.Pick(r, []string{"1000.0", "1700000000.5", "0.0"})
		}
		base := chunkToks(r, pickCount(r, w, max))
		c.Ops = append(c.Ops, strings.TrimSpace(fmt.Sprintf("new %d %d %d %s %d %s %s", w, raw, cidv, hash, mode, mtime, strings.Join(base, " "))))
		for k, m := 0, 1+r.Intn(3); k < m; k++ {
			c.Ops = append(c.Ops, strings.TrimSpace("app "+strings.Join(chunkToks(r, pickCount(r, w, max)), " ")))
		}
		emit(c)
	}
}

func main() { vh.Main(vh.Config{Gen: gen, Exec: exec}) }
