// C43 harness: drives the real routing/http/types/iter combinators.
package main

import (
	"fmt"
	"io"
	"regexp"
	"strconv"
	"strings"

	"github.com/ipfs/boxo/routing/http/types/iter"

	"verifharness/vh"
)

// instrumented source: a SliceIter whose Next/Close calls are counted (ghost counters of the model)
type src struct {
	inner  *iter.SliceIter[int]
	nexts  int
	closes int
}

func (s *src) Next() bool   { s.nexts++; return s.inner.Next() }
func (s *src) Val() int     { return s.inner.Val() }
func (s *src) Close() error { s.closes++; return s.inner.Close() }

var mapFns = map[string]func(int) int{
	"add1":   func(x int) int { return x + 1 },
	"dbl":    func(x int) int { return x * 2 },
	"neg":    func(x int) int { return -x },
	"sub3":   func(x int) int { return x - 3 },
	"const7": func(int) int { return 7 },
	"tmod5":  func(x int) int { return x % 5 },
}
var predFns = map[string]func(int) bool{
	"even": func(x int) bool { return x%2 == 0 },
	"odd":  func(x int) bool { return x%2 != 0 },
	"pos":  func(x int) bool { return x > 0 },
	"lt3":  func(x int) bool { return x < 3 },
	"none": func(int) bool { return false },
	"all":  func(int) bool { return true },
}
var mapNames = []string{"add1", "dbl", "neg", "sub3", "const7", "tmod5"}
var predNames = []string{"even", "odd", "pos", "lt3", "none", "all"}

func gen(r *vh.Rand, tier string, n int, emit func(vh.Case)) {
	for i := 0; i < n; i++ {
		c := vh.Case{ID: strconv.Itoa(i)}
		if r.Chance(1, 8) { // JSON iterator case
			k := r.Intn(8)
			toks := make([]string, k)
			for j := range toks {
				if r.Chance(1, 6) {
					toks[j] = "x"
				} else {
					toks[j] = strconv.Itoa(r.Range(-50, 50))
				}
			}
			if r.Bool() { // JSONIter[[]int]: slice-valued records (a decoder that merges into the previous value shows here)
				for j := range toks {
					if toks[j] == "x" {
						continue
					}
					m := r.Intn(5)
					if m == 0 {
						toks[j] = "e"
						continue
					}
					el := make([]string, m)
					for q := range el {
						el[q] = strconv.Itoa(r.Range(-9, 9))
					}
					toks[j] = strings.Join(el, ",")
				}
				c.Ops = append(c.Ops, strings.TrimSpace("jlnew "+strings.Join(toks, " ")))
			} else {
				c.Ops = append(c.Ops, strings.TrimSpace("jnew "+strings.Join(toks, " ")))
			}
			for j, m := 0, r.Intn(12); j < m; j++ {
				c.Ops = append(c.Ops, vh.Pick(r, []string{"next", "next", "next", "val", "close", "rares"}))
			}
			emit(c)
			continue
		}
		depth := r.Intn(5)
		if tier == "thorough" {
			depth = r.Intn(8)
		}
		var sh []string
		for d := 0; d < depth; d++ {
			switch r.Intn(3) {
			case 0:
				sh = append(sh, "map", vh.Pick(r, mapNames))
			case 1:
				sh = append(sh, "filter", vh.Pick(r, predNames))
			default:
				sh = append(sh, "limit", strconv.Itoa(r.Range(-1, 8)))
			}
		}
		sh = append(sh, "src")
		ln := r.Intn(13)
		if r.Chance(1, 10) {
			ln = r.Range(13, 50)
		}
		for j := 0; j < ln; j++ {
			sh = append(sh, strconv.Itoa(r.Range(-6, 9)))
		}
		c.Ops = append(c.Ops, "new "+strings.Join(sh, " "))
		for j, m := 0, r.Intn(16); j < m; j++ {
			c.Ops = append(c.Ops, vh.Pick(r, []string{"next", "next", "next", "next", "val", "val", "close", "stat", "readall", "rares"}))
		}
		if r.Bool() {
			c.Ops = append(c.Ops, "readall")
		}
		c.Ops = append(c.Ops, "stat")
		emit(c)
	}
}

func build(ts []string) (iter.Iter[int], *src, []string, []string) {
	// returns the iterator, its source, the list-level expectation builder ops (outer first), remaining tokens
	switch ts[0] {
	case "src":
		var xs []int
		for _, t := range ts[1:] {
			xs = append(xs, vh.Atoi(t))
		}
		s := &src{inner: iter.FromSlice(xs)}
		return s, s, nil, nil
	case "map":
		in, s, ops, _ := build(ts[2:])
		return iter.Map(in, mapFns[ts[1]]), s, append([]string{"map:" + ts[1]}, ops...), nil
	case "filter":
		in, s, ops, _ := build(ts[2:])
		return iter.Filter(in, predFns[ts[1]]), s, append([]string{"filter:" + ts[1]}, ops...), nil
	case "limit":
		in, s, ops, _ := build(ts[2:])
		return iter.Limit(in, vh.Atoi(ts[1])), s, append([]string{"limit:" + ts[1]}, ops...), nil
	}
	panic("bad shape " + ts[0])
}

// spec evaluates the list semantics of a shape directly (the property's own statement), used by the monitor.
func spec(ops []string, xs []int) []int {
	for i := len(ops) - 1; i >= 0; i-- {
		kv := strings.SplitN(ops[i], ":", 2)
		var ys []int
		switch kv[0] {
		case "map":
			for _, x := range xs {
				ys = append(ys, mapFns[kv[1]](x))
			}
		case "filter":
			for _, x := range xs {
				if predFns[kv[1]](x) {
					ys = append(ys, x)
				}
			}
		case "limit":
			l := vh.Atoi(kv[1])
			ys = xs
			if l > 0 && len(xs) > l {
				ys = xs[:l]
			}
		}
		xs = ys
	}
	return xs
}

func showList(xs []int) string {
	ss := make([]string, len(xs))
	for i, x := range xs {
		ss[i] = strconv.Itoa(x)
	}
	return "[" + strings.Join(ss, ",") + "]"
}

type rc struct {
	io.Reader
	closed int
}

func (r *rc) Close() error { r.closed++; return nil }

func exec(c vh.Case, o *vh.Out) {
	var it iter.Iter[int]
	var s *src
	var ji jsonCur
	var jr *rc
	var jtoks []string // expected rendering of each record ("x" = malformed)
	jidx := 0          // number of Next calls that returned true
	var specOps []string
	fresh := false
	var srcVals []int
	for _, line := range c.Ops {
		f := strings.Fields(line)
		switch f[0] {
		case "new":
			it, s, specOps, _ = build(f[1:])
			srcVals = append([]int(nil), s.inner.Slice...)
			fresh = true
			ji = nil
			o.Kind(fmt.Sprintf("depth%d", len(specOps)))
			for _, so := range specOps {
				o.Kind(strings.SplitN(so, ":", 2)[0])
			}
			o.Emit("ok")
		case "jnew":
			var sb strings.Builder
			for _, t := range f[1:] {
				if t == "x" {
					sb.WriteString("\"str\" ")
				} else {
					sb.WriteString(t + "\n")
				}
			}
			jr = &rc{Reader: strings.NewReader(sb.String())}
			ji = jsonInt{iter.FromReaderJSON[int](jr)}
			jtoks, jidx = f[1:], 0
			it = nil
			o.Kind("json")
			o.Emit("ok")
		case "jlnew":
			var sb strings.Builder
			jtoks = nil
			for _, t := range f[1:] {
				switch t {
				case "x":
					sb.WriteString("\"str\" ")
					jtoks = append(jtoks, "x")
				case "e":
					sb.WriteString("[]\n")
					jtoks = append(jtoks, "[]")
				default:
					sb.WriteString("[" + t + "]\n")
					jtoks = append(jtoks, "["+t+"]")
				}
			}
			jr = &rc{Reader: strings.NewReader(sb.String())}
			ji = &jsonList{JSONIter: iter.FromReaderJSON[[]int](jr)}
			jidx = 0
			it = nil
			o.Kind("json-list")
			o.Emit("ok")
		case "next":
			if ji != nil {
				ok := ji.Next()
				if ok {
					jidx++
					// monitor: the i-th yielded record is the i-th encoded record, whatever came before it
					if v, isErr := ji.Val(); jidx <= len(jtoks) && !isErr && jtoks[jidx-1] != "x" && v != jtoks[jidx-1] {
						o.Fail("json-law", "record %d decoded as %s, encoded %s", jidx, v, jtoks[jidx-1])
					}
					// ... and values handed out earlier must not change afterwards (a consumer such as ReadAll
					// keeps them): re-render every retained value and compare with what was encoded.
					if jl, ok := ji.(*jsonList); ok {
						jl.kept = append(jl.kept, jl.JSONIter.Val().Val)
						for q, kv := range jl.kept {
							if q < len(jtoks) && jtoks[q] != "x" && showList(kv) != jtoks[q] {
								o.Fail("json-law", "record %d, read earlier as %s, now reads %s after %d more records", q+1, jtoks[q], showList(kv), jidx-q-1)
								break
							}
						}
					}
					if jidx >= 2 {
						o.Nontrivial()
					}
				}
				o.Emit("%v", ok)
			} else {
				fresh = false
				o.Emit("%v", it.Next())
			}
		case "val":
			if ji != nil {
				v, isErr := ji.Val()
				if isErr {
					o.Kind("json-err")
					o.Emit("err")
				} else {
					o.Emit("%s", v)
				}
			} else {
				o.Emit("%d", it.Val())
			}
		case "close":
			if ji != nil {
				ji.Close()
				if jr.closed == 0 {
					o.Fail("json-close-not-cascaded", "JSONIter.Close did not close the reader")
				}
				o.Emit("closed")
			} else {
				before := s.closes
				it.Close()
				if s.closes != before+1 {
					o.Fail("close-not-once", "Close reached the source %d times", s.closes-before)
				}
				o.Emit("closes=%d", s.closes)
			}
		case "stat":
			o.Emit("nexts=%d closes=%d", s.nexts, s.closes)
		case "rares":
			// ReadAllResults: over ToResultIter(it) for combinator trees, directly over a JSONIter
			if ji != nil {
				o.Kind("json-readallresults")
				o.Emit("%s", ji.ReadAllResults())
				break
			}
			before := s.closes
			vs, err := iter.ReadAllResults[int](iter.ToResultIter[int](it))
			if err != nil {
				o.Fail("toresult-error", "ToResultIter produced an error result: %v", err)
			}
			if s.closes != before {
				o.Fail("readallresults-closed", "ReadAllResults closed the source")
			}
			if fresh {
				if want := spec(specOps, srcVals); showList(vs) != showList(want) {
					o.Fail("list-law", "ReadAllResults(ToResultIter)=%s want %s", showList(vs), showList(want))
				}
			}
			fresh = false
			o.Kind("toresult")
			o.Emit("%s nexts=%d closes=%d", showList(vs), s.nexts, s.closes)
		case "readall":
			before := s.nexts
			vs := iter.ReadAll(it)
			if fresh {
				// monitor: the property's list law, evaluated directly
				want := spec(specOps, srcVals)
				if showList(vs) != showList(want) {
					o.Fail("list-law", "ReadAll=%s want %s", showList(vs), showList(want))
				}
				// monitor: an outermost positive limit over the raw source never reads ahead
				if len(specOps) == 1 && strings.HasPrefix(specOps[0], "limit:") {
					l := vh.Atoi(specOps[0][6:])
					if l > 0 && l <= len(srcVals) && s.nexts-before != l {
						o.Fail("read-ahead", "limit %d read %d elements", l, s.nexts-before)
					}
				}
				if len(vs) > 0 && len(specOps) >= 2 {
					o.Nontrivial()
				}
			}
			fresh = false
			o.Emit("%s nexts=%d closes=%d", showList(vs), s.nexts, s.closes)
		default:
			o.Emit("bad-op")
		}
	}
}

// jsonCur abstracts JSONIter[int] and JSONIter[[]int] for the op interpreter.
type jsonCur interface {
	Next() bool
	Val() (string, bool)
	Close() error
	ReadAllResults() string // rendering of iter.ReadAllResults on the iterator: list, or err@<index>
}

var errAt = regexp.MustCompile(`error on result (\d+)`)

func renderResults[T any](vs []T, err error, show func(T) string) string {
	if err != nil {
		if m := errAt.FindStringSubmatch(err.Error()); m != nil {
			return "err@" + m[1]
		}
		return "err@?"
	}
	ss := make([]string, len(vs))
	for i, v := range vs {
		ss[i] = show(v)
	}
	return "[" + strings.Join(ss, ",") + "]"
}

func (j jsonInt) ReadAllResults() string {
	vs, err := iter.ReadAllResults[int](j.JSONIter)
	return renderResults(vs, err, strconv.Itoa)
}

func (j *jsonList) ReadAllResults() string {
	vs, err := iter.ReadAllResults[[]int](j.JSONIter)
	return renderResults(vs, err, showList)
}
type jsonInt struct{ *iter.JSONIter[int] }

func (j jsonInt) Val() (string, bool) {
	v := j.JSONIter.Val()
	return strconv.Itoa(v.Val), v.Err != nil
}

type jsonList struct {
	*iter.JSONIter[[]int]
	kept [][]int // every value handed out so far, retained as a consumer would
}

func (j *jsonList) Val() (string, bool) {
	v := j.JSONIter.Val()
	return showList(v.Val), v.Err != nil
}

func main() { vh.Main(vh.Config{Gen: gen, Exec: exec}) }
