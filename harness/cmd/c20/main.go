// C20 harness: drives the real mfs (Root / Directory / File / fileDescriptor) from up to 4 worker goroutines
// whose progress is controlled by the op lines: an op runs on its worker until it completes, parks at a
// schedule point (build tag verif, branch verif/peer) or blocks on a lock (detected from the goroutine's
// wait reason in the runtime stack dump, not by a timer).
//
// Tree of every case: /d/a (file 0), /d/b (file 1), /c (file 2), contents are 4-digit tokens.
//
// Ops (W worker, F file, V token, P park point n|l|-):
//
//	open W F r|w|s        Open for Read | Write | Write+Sync (one descriptor per worker; refused when the file is held incompatibly)
//	write W V             overwrite the whole content through the descriptor
//	seek W | trunc W      Seek(0) / Truncate(4) on the descriptor (same content; the DagModifier syncs its buffer)
//	flush W P | close W P Flush / Close, optionally parking at n = flushUp:nodeSet or l = updateChildEntry:localDone
//	resume W P            continue a parked worker (to the next park point P or to completion)
//	cat W F               Lookup + Open(Read) + read + Close
//	rootcat W F           Root directory GetNode(), then read F from that DAG
//	ls W                  Directory.List of / and /d (names and sizes)
//	pubcat F              read F from the last node handed to Root.updateChildEntry (the value given to the republisher)
//	mode W F P            File.Mode(), optionally parking at p = File.Mode:rlocked (between the lock and GetNode)
//	mtime W F P           File.ModTime(), same
//	chmod W F M [l]       File.SetMode(M), optionally parking after a directory's local update (updateChildEntry:localDone)
//	touch W F | fflush W F | fsync W F | rootflush W | lsnames W | size W | fdread W
//	                      mfs.Touch, File.Flush, File.Sync, Root.Flush, ListNames of /d, descriptor Size, Seek+CtxReadFull
//	mvprobe W s|w         scratch tree /m: write descriptor (Sync or not) held across Mv of the file's directory; reports
//	                      cat old path, cat new path, flushed-root old path, flushed-root new path
//	symopen W             put a UnixFS symlink at /s (once) and try to open it for writing (File.Open refuses it)
//	lschmod W F M         ForEachEntry of F's directory whose callback starts SetMode(M) on F in another goroutine
package main

import (
	"bytes"
	"context"
	"fmt"
	"io"
	"os"
	"runtime"
	"sort"
	"strconv"
	"strings"
	"sync"
	"time"

	bserv "github.com/ipfs/boxo/blockservice"
	bstore "github.com/ipfs/boxo/blockstore"
	offline "github.com/ipfs/boxo/exchange/offline"
	dag "github.com/ipfs/boxo/ipld/merkledag"
	ft "github.com/ipfs/boxo/ipld/unixfs"
	uio "github.com/ipfs/boxo/ipld/unixfs/io"
	"github.com/ipfs/boxo/mfs"
	ds "github.com/ipfs/go-datastore"
	dssync "github.com/ipfs/go-datastore/sync"
	ipld "github.com/ipfs/go-ipld-format"

	"verifharness/vh"
)

func goid() int64 {
	var buf [64]byte
	n := runtime.Stack(buf[:], false)
	f := strings.Fields(string(buf[:n]))
	id, _ := strconv.ParseInt(f[1], 10, 64)
	return id
}

var paths = []string{"/d/a", "/d/b", "/c"}

const nWorkers = 4

type worker struct {
	id      int
	gid     int64
	ops     chan func() string
	mu      sync.Mutex
	running bool   // an op has been handed over and has not returned
	result  string // result of the finished op, not yet reported
	hasRes  bool
	parkAt  string // where the current op should park ("" = nowhere)
	parked  string // point it is parked at
	release chan struct{}
	fd      mfs.FileDescriptor
	fdFile  int
	fdWrite bool
}

type env struct {
	root    *mfs.Root
	dserv   ipld.DAGService
	ws      []*worker
	byGid   sync.Map // gid -> *worker
	pubMu   sync.Mutex
	pub     ipld.Node
	stopped bool
	sig     chan struct{} // poked whenever a worker finishes an op or parks
}

func (e *env) poke() {
	select {
	case e.sig <- struct{}{}:
	default:
	}
}

var cur *env
var curMu sync.Mutex

func schedHook(point string) {
	curMu.Lock()
	e := cur
	curMu.Unlock()
	if e == nil {
		return
	}
	v, ok := e.byGid.Load(goid())
	if !ok {
		return
	}
	w := v.(*worker)
	w.mu.Lock()
	if w.parkAt != point {
		w.mu.Unlock()
		return
	}
	w.parkAt = ""
	w.parked = point
	ch := make(chan struct{})
	w.release = ch
	w.mu.Unlock()
	e.poke()
	<-ch
}

func rootHook(nd ipld.Node) {
	curMu.Lock()
	e := cur
	curMu.Unlock()
	if e == nil {
		return
	}
	if _, ok := e.byGid.Load(goid()); !ok {
		return
	}
	e.pubMu.Lock()
	e.pub = nd
	e.pubMu.Unlock()
}

func init() {
	mfs.VerifSchedHook = schedHook
	mfs.VerifRootUpdateHook = rootHook
}

func (w *worker) loop(e *env, ready chan struct{}) {
	w.gid = goid()
	e.byGid.Store(w.gid, w)
	close(ready)
	for f := range w.ops {
		r := f()
		w.mu.Lock()
		w.running = false
		w.result, w.hasRes = r, true
		w.mu.Unlock()
		e.poke()
	}
}

// waitReason returns the runtime wait reason of every worker goroutine ("" if not found).
func (e *env) waitReasons() map[int64]string {
	buf := make([]byte, 1<<20)
	n := runtime.Stack(buf, true)
	out := map[int64]string{}
	for _, blk := range strings.Split(string(buf[:n]), "\n\n") {
		if !strings.HasPrefix(blk, "goroutine ") {
			continue
		}
		hdr := blk[:strings.IndexByte(blk+"\n", '\n')]
		f := strings.Fields(hdr)
		id, _ := strconv.ParseInt(f[1], 10, 64)
		if _, ok := e.byGid.Load(id); !ok {
			continue
		}
		i, j := strings.IndexByte(hdr, '['), strings.LastIndexByte(hdr, ']')
		st := hdr[i+1 : j]
		if k := strings.IndexByte(st, ','); k >= 0 {
			st = st[:k]
		}
		// only a wait on a lock OF PACKAGE MFS counts as "blocked": the first frame that is not runtime / sync must be an
		// mfs function (a momentary wait on a datastore or logger mutex whose holder is descheduled on a loaded machine
		// must not be mistaken for it)
		if lockWait(st) {
			inMfs := false
			for _, l := range strings.Split(blk, "\n")[1:] {
				if strings.HasPrefix(l, "\t") || strings.HasPrefix(l, "sync.") || strings.HasPrefix(l, "runtime.") || strings.HasPrefix(l, "internal/") {
					continue
				}
				inMfs = strings.HasPrefix(l, "github.com/ipfs/boxo/mfs.")
				break
			}
			if !inMfs {
				st = "running"
			}
		}
		out[id] = st
	}
	return out
}

func lockWait(st string) bool {
	return strings.HasPrefix(st, "sync.") || st == "semacquire"
}

// quiesce waits until every worker is idle (its op returned), parked at a schedule point, or blocked on a lock
// (wait reason sync.* in the runtime's goroutine dump); returns the per-worker status.
func (e *env) quiesce() []string {
	deadline := time.Now().Add(20 * time.Second)
	confirm := 0
	for spin := 0; ; spin++ {
		st := make([]string, len(e.ws))
		unsettled := false
		for i, w := range e.ws {
			w.mu.Lock()
			switch {
			case !w.running:
				st[i] = "idle"
			case w.parked != "":
				st[i] = "parked"
			default:
				unsettled = true
			}
			w.mu.Unlock()
		}
		if !unsettled {
			return st
		}
		if spin < 4 { // give running ops a moment (they poke us) before looking at stacks, which stops the world
			select {
			case <-e.sig:
			case <-time.After(2 * time.Millisecond):
			}
			continue
		}
		reasons := e.waitReasons()
		allBlocked := true
		for i, w := range e.ws {
			w.mu.Lock()
			if w.running && w.parked == "" {
				if lockWait(reasons[w.gid]) {
					st[i] = "blocked"
				} else {
					allBlocked = false
				}
			} else if !w.running {
				st[i] = "idle"
			} else {
				st[i] = "parked"
			}
			w.mu.Unlock()
		}
		if allBlocked {
			confirm++
			if confirm >= 6 { // unchanged over >= 10 ms
				return st
			}
		} else {
			confirm = 0
		}
		if time.Now().After(deadline) {
			panic("harness: workers did not quiesce: " + strings.Join(st, ","))
		}
		time.Sleep(2 * time.Millisecond)
	}
}

// waitStuck returns when goroutine gid has finished (done has a value) or waits for a lock.
func (e *env) waitStuck(gid int64, done chan string) {
	confirm := 0
	for i := 0; i < 20000; i++ {
		if len(done) > 0 {
			return
		}
		if i < 3 {
			time.Sleep(200 * time.Microsecond)
			continue
		}
		if lockWait(e.waitReasons()[gid]) {
			confirm++
			if confirm >= 3 {
				return
			}
		} else {
			confirm = 0
		}
		time.Sleep(300 * time.Microsecond)
	}
	panic("harness: helper goroutine neither finished nor blocked")
}

func (e *env) start(w *worker, park string, f func() string) {
	w.mu.Lock()
	w.running, w.parkAt, w.parked, w.hasRes = true, park, "", false
	w.mu.Unlock()
	w.ops <- f
}

func newEnv() *env {
	ctx := context.Background()
	db := dssync.MutexWrap(ds.NewMapDatastore())
	bs := bstore.NewBlockstore(db)
	dserv := dag.NewDAGService(bserv.New(bs, offline.Exchange(bs)))
	root, err := mfs.NewEmptyRoot(ctx, dserv, nil, nil)
	if err != nil {
		panic(err)
	}
	if err := mfs.Mkdir(root, "/d", mfs.MkdirOpts{Flush: true}); err != nil {
		panic(err)
	}
	for _, p := range paths {
		nd := dag.NodeWithData(ft.FilePBData([]byte("0000"), 4))
		if err := dserv.Add(ctx, nd); err != nil {
			panic(err)
		}
		if err := mfs.PutNode(root, p, nd); err != nil {
			panic(err)
		}
		if _, err := mfs.Lookup(root, p); err != nil { // caches the File object in its directory
			panic(err)
		}
	}
	// bring every directory's link table up to date (PutNode does not propagate upwards): the model starts from a
	// tree whose links all show the initial content
	if _, err := root.GetDirectory().GetNode(); err != nil {
		panic(err)
	}
	e := &env{root: root, dserv: dserv, sig: make(chan struct{}, 64)}
	for i := 0; i < nWorkers; i++ {
		w := &worker{id: i, ops: make(chan func() string), fdFile: -1}
		e.ws = append(e.ws, w)
		ready := make(chan struct{})
		go w.loop(e, ready)
		<-ready
	}
	return e
}

func (e *env) file(i int) *mfs.File {
	n, err := mfs.Lookup(e.root, paths[i])
	if err != nil {
		panic(err)
	}
	return n.(*mfs.File)
}

func tok(b []byte) string {
	if len(b) != 4 {
		return fmt.Sprintf("len%d", len(b))
	}
	return string(b)
}

// readFrom resolves paths[i] inside the DAG rooted at nd and returns the file's content token.
func (e *env) readFrom(nd ipld.Node, i int) string {
	ctx := context.Background()
	parts := strings.Split(strings.TrimPrefix(paths[i], "/"), "/")
	cur := nd
	for _, p := range parts {
		d, err := uio.NewDirectoryFromNode(e.dserv, cur)
		if err != nil {
			return "err-dir"
		}
		cur, err = d.Find(ctx, p)
		if err != nil {
			return "missing"
		}
	}
	r, err := uio.NewDagReader(ctx, cur, e.dserv)
	if err != nil {
		return "err-reader"
	}
	b, _ := io.ReadAll(r)
	return tok(b)
}

var parkPoints = map[string]string{"n": "fileDescriptor.flushUp:nodeSet", "l": "Directory.updateChildEntry:localDone",
	"p": "File.Mode:rlocked", "q": "File.ModTime:rlocked", "-": ""}

func errStr(err error) string {
	if err != nil {
		return "err"
	}
	return "ok"
}

func exec(c vh.Case, o *vh.Out) {
	e := newEnv()
	curMu.Lock()
	cur = e
	curMu.Unlock()
	deadlocked := false
	defer func() {
		curMu.Lock()
		cur = nil
		curMu.Unlock()
		// release whatever is parked; workers blocked for good are leaked (only on a deadlocked tree)
		for _, w := range e.ws {
			w.mu.Lock()
			if w.parked != "" {
				w.parked = ""
				close(w.release)
			}
			w.mu.Unlock()
		}
		if !deadlocked {
			e.quiesce()
			for _, w := range e.ws {
				close(w.ops)
			}
		}
	}()
	// which descriptors are open, as the harness (not mfs) knows it: used to refuse ops that would just wait for a descriptor
	writerOf := func(f int) int {
		for _, w := range e.ws {
			if w.fd != nil && w.fdFile == f && w.fdWrite {
				return w.id
			}
		}
		return -1
	}
	readersOf := func(f int) int {
		n := 0
		for _, w := range e.ws {
			if w.fd != nil && w.fdFile == f && !w.fdWrite {
				n++
			}
		}
		return n
	}
	anyFd := func() bool {
		for _, w := range e.ws {
			if w.fd != nil {
				return true
			}
		}
		return false
	}
	pubReported := false
	overlap := false // two propagations were under way at the same time at some point of this case
	syncOf := make([]bool, nWorkers)
	catCheck := make([]func(got string), nWorkers)
	modeParked := -1 // worker parked inside Mode/ModTime
	chmodBlocked := false
	touchN := 0
	chmodW := -1 // worker whose SetMode is under way (parked, blocked or inside lschmod)
	// monitor bookkeeping (the property's own notions, independent of the model)
	acked := []string{"0000", "0000", "0000"} // content of the last acknowledged write per file
	fullAck := []string{"", "", ""}           // content of the last acknowledged write that was flushed up (Flush, or Close with Sync)
	wrote := make([]string, nWorkers)         // what each worker's descriptor currently holds
	pend := make([]func(ok bool), nWorkers)   // to run when the worker's current op completes
	propagating := func() bool {              // some flush is still on its way up
		for _, w := range e.ws {
			w.mu.Lock()
			r := w.running
			w.mu.Unlock()
			if r {
				return true
			}
		}
		return false
	}
	for _, line := range c.Ops {
		f := strings.Fields(line)
		if deadlocked {
			o.Emit("dead")
			continue
		}
		wIdx := func(i int) *worker { return e.ws[vh.Atoi(f[i])%nWorkers] }
		busyW := func(w *worker) bool {
			w.mu.Lock()
			defer w.mu.Unlock()
			return w.running
		}
		res := ""
		switch f[0] {
		case "flush", "close", "chmod", "touch", "fflush", "lschmod", "resume":
			// does another worker have a propagation under way (parked or blocked inside one) while this one starts / continues?
			self := -1
			if len(f) > 1 {
				self = vh.Atoi(f[1]) % nWorkers
			}
			for _, w2 := range e.ws {
				w2.mu.Lock()
				if w2.id != self && w2.running && !strings.HasPrefix(w2.parked, "File.Mod") {
					overlap = true
				}
				w2.mu.Unlock()
			}
		}
		switch f[0] {
		case "open":
			w, fi := wIdx(1), vh.Atoi(f[2])
			if busyW(w) || w.fd != nil || modeParked >= 0 || writerOf(fi) >= 0 || (f[3] != "r" && readersOf(fi) > 0) {
				res = "refused"
				break
			}
			flags := mfs.Flags{Read: f[3] == "r", Write: f[3] != "r", Sync: f[3] == "s"}
			syncOf[w.id] = flags.Sync
			e.start(w, "", func() string {
				fd, err := e.file(fi).Open(context.Background(), flags)
				if err != nil {
					return "err"
				}
				w.fd, w.fdFile, w.fdWrite = fd, fi, flags.Write
				return "ok"
			})
			wrote[w.id] = ""
			o.Kind("open-" + f[3])
		case "write":
			w := wIdx(1)
			if busyW(w) || w.fd == nil || !w.fdWrite {
				res = "refused"
				break
			}
			data := []byte(fmt.Sprintf("%04d", vh.Atoi(f[2])%10000))
			e.start(w, "", func() string {
				if data[3]%2 == 1 { // odd tokens go through WriteAt, even ones through Seek+Write
					_, err := w.fd.WriteAt(data, 0)
					return errStr(err)
				}
				if _, err := w.fd.Seek(0, io.SeekStart); err != nil {
					return "err"
				}
				_, err := w.fd.Write(data)
				return errStr(err)
			})
			wrote[w.id] = string(data)
			o.Kind("write")
		case "seek", "trunc":
			// descriptor operations that make the DagModifier write its buffer out on its own (no flushUp): the content
			// stays what it is, the descriptor stays open
			w := wIdx(1)
			if busyW(w) || w.fd == nil || (f[0] == "trunc" && !w.fdWrite) {
				res = "refused"
				break
			}
			isSeek := f[0] == "seek"
			e.start(w, "", func() string {
				if isSeek {
					_, err := w.fd.Seek(0, io.SeekStart)
					return errStr(err)
				}
				return errStr(w.fd.Truncate(4))
			})
			o.Kind(f[0])
		case "flush", "close":
			w := wIdx(1)
			if busyW(w) || w.fd == nil {
				res = "refused"
				break
			}
			closing := f[0] == "close"
			{
				fi, isW, data, full := w.fdFile, w.fdWrite, wrote[w.id], !closing
				if closing {
					full = syncOf[w.id]
				}
				pend[w.id] = func(ok bool) {
					if ok && isW && data != "" {
						acked[fi] = data
						if full {
							fullAck[fi] = data
						}
					}
				}
			}
			e.start(w, parkPoints[f[2]], func() string {
				var err error
				if closing {
					err = w.fd.Close()
					w.fd, w.fdFile = nil, -1
				} else {
					err = w.fd.Flush()
				}
				return errStr(err)
			})
			o.Kind(f[0])
		case "resume":
			w := wIdx(1)
			w.mu.Lock()
			if w.parked == "" {
				w.mu.Unlock()
				res = "refused"
				break
			}
			w.parked, w.parkAt = "", parkPoints[f[2]]
			close(w.release)
			w.mu.Unlock()
			o.Kind("resume")
		case "cat":
			w, fi := wIdx(1), vh.Atoi(f[2])
			if busyW(w) || modeParked >= 0 || writerOf(fi) >= 0 {
				res = "refused"
				break
			}
			e.start(w, "", func() string {
				fd, err := e.file(fi).Open(context.Background(), mfs.Flags{Read: true})
				if err != nil {
					return "err"
				}
				b, _ := io.ReadAll(fd)
				fd.Close()
				return tok(b)
			})
			{
				want := acked[fi]
				catCheck[w.id] = func(got string) {
					if got != want {
						o.Fail("read-misses-ack", "cat %s = %s but the last acknowledged write (Flush/Close returned) is %s", paths[fi], got, want)
					}
					o.Nontrivial()
				}
			}
			o.Kind("cat")
		case "rootcat":
			w, fi := wIdx(1), vh.Atoi(f[2])
			if busyW(w) || modeParked >= 0 {
				res = "refused"
				break
			}
			e.start(w, "", func() string {
				nd, err := e.root.GetDirectory().GetNode()
				if err != nil {
					return "err"
				}
				return e.readFrom(nd, fi)
			})
			{
				want, inflight := acked[fi], ""
				for _, w2 := range e.ws {
					if w2.fd != nil && w2.fdFile == fi && w2.fdWrite {
						inflight = wrote[w2.id] // a flush of this file may be in progress: its content may already be visible
					}
				}
				catCheck[w.id] = func(got string) {
					if got != want && (inflight == "" || got != inflight) {
						o.Fail("root-misses-ack", "flushed root shows %s = %s but the last acknowledged write is %s", paths[fi], got, want)
					}
				}
			}
			o.Kind("rootcat")
		case "ls":
			w := wIdx(1)
			if busyW(w) || modeParked >= 0 {
				res = "refused"
				break
			}
			e.start(w, "", func() string {
				var parts []string
				for _, p := range []string{"/", "/d"} {
					n, err := mfs.Lookup(e.root, p)
					if err != nil {
						return "err"
					}
					ents, err := n.(*mfs.Directory).List(context.Background())
					if err != nil {
						return "err"
					}
					var names []string
					for _, en := range ents {
						names = append(names, fmt.Sprintf("%s:%d", en.Name, en.Size))
					}
					sort.Strings(names)
					parts = append(parts, strings.Join(names, ","))
				}
				return strings.Join(parts, ";")
			})
			o.Kind("ls")
		case "pubcat":
			e.pubMu.Lock()
			nd := e.pub
			e.pubMu.Unlock()
			if nd == nil {
				res = "none"
			} else {
				res = e.readFrom(nd, vh.Atoi(f[1]))
			}
			o.Kind("pubcat")
		case "mode", "mtime":
			w, fi := wIdx(1), vh.Atoi(f[2])
			if busyW(w) || modeParked >= 0 || anyFd() {
				res = "refused"
				break
			}
			pk := parkPoints[f[3]]
			isMode := f[0] == "mode"
			e.start(w, pk, func() string {
				if isMode {
					m, err := e.file(fi).Mode()
					if err != nil {
						return "err"
					}
					return fmt.Sprintf("%o", m)
				}
				_, err := e.file(fi).ModTime()
				return errStr(err)
			})
			o.Kind(f[0])
		case "chmod":
			w, fi := wIdx(1), vh.Atoi(f[2])
			if busyW(w) || anyFd() || chmodBlocked || chmodW >= 0 {
				res = "refused"
				break
			}
			m, _ := strconv.ParseUint(f[3], 8, 32)
			pk := ""
			if len(f) > 4 && modeParked < 0 {
				pk = parkPoints[f[4]] // l: pause the upward propagation of the new node after a directory's local update
			}
			pend[w.id] = func(ok bool) {
				if ok {
					fullAck[fi] = acked[fi]
				}
			}
			chmodW = w.id
			e.start(w, pk, func() string { return errStr(mfs.Chmod(e.root, paths[fi], os.FileMode(m))) })
			o.Kind("chmod")
			if pk != "" {
				o.Kind("chmod-parked")
			}
		case "touch":
			w, fi := wIdx(1), vh.Atoi(f[2])
			if busyW(w) || anyFd() || chmodBlocked || chmodW >= 0 || modeParked >= 0 {
				res = "refused"
				break
			}
			pend[w.id] = func(ok bool) {
				if ok {
					fullAck[fi] = acked[fi]
				}
			}
			chmodW = w.id
			touchN++
			ts := time.Unix(1_000_000_000+int64(touchN), 0)
			e.start(w, "", func() string { return errStr(mfs.Touch(e.root, paths[fi], ts)) })
			o.Kind("touch")
		case "fflush", "fsync":
			w, fi := wIdx(1), vh.Atoi(f[2])
			if busyW(w) || w.fd != nil || modeParked >= 0 || writerOf(fi) >= 0 || readersOf(fi) > 0 {
				res = "refused"
				break
			}
			if f[0] == "fflush" {
				pend[w.id] = func(ok bool) {
					if ok {
						fullAck[fi] = acked[fi]
					}
				}
				e.start(w, "", func() string { return errStr(e.file(fi).Flush()) })
			} else {
				e.start(w, "", func() string { return errStr(e.file(fi).Sync()) })
			}
			o.Kind(f[0])
		case "rootflush":
			w := wIdx(1)
			if busyW(w) || modeParked >= 0 {
				res = "refused"
				break
			}
			e.start(w, "", func() string { return errStr(e.root.Flush()) })
			o.Kind("rootflush")
		case "lsnames":
			w := wIdx(1)
			if busyW(w) || modeParked >= 0 {
				res = "refused"
				break
			}
			e.start(w, "", func() string {
				n, err := mfs.Lookup(e.root, "/d")
				if err != nil {
					return "err"
				}
				names, err := n.(*mfs.Directory).ListNames(context.Background())
				if err != nil {
					return "err"
				}
				sort.Strings(names)
				return strings.Join(names, ",")
			})
			o.Kind("lsnames")
		case "size", "fdread":
			w := wIdx(1)
			if busyW(w) || w.fd == nil || (f[0] == "fdread" && w.fdWrite) {
				res = "refused"
				break
			}
			isSize := f[0] == "size"
			e.start(w, "", func() string {
				if isSize {
					n, err := w.fd.Size()
					if err != nil {
						return "err"
					}
					return strconv.FormatInt(n, 10)
				}
				if _, err := w.fd.Seek(0, io.SeekStart); err != nil {
					return "err"
				}
				b := make([]byte, 4)
				if _, err := w.fd.CtxReadFull(context.Background(), b); err != nil {
					return "err"
				}
				return tok(b)
			})
			o.Kind(f[0])
		case "mvprobe":
			// a write descriptor held across Mv of the file's parent directory (scratch sub-tree /m, left empty afterwards):
			// create /m/x/f = 0000, open it for writing, Mv /m/x /m/y, write 0007, Close; then look at both paths
			w := wIdx(1)
			if busyW(w) || modeParked >= 0 {
				res = "refused"
				break
			}
			sync := f[2] == "s"
			e.start(w, "", func() string {
				ctx := context.Background()
				if _, err := mfs.Lookup(e.root, "/m"); err != nil {
					if err := mfs.Mkdir(e.root, "/m", mfs.MkdirOpts{}); err != nil {
						return "err-mkdir"
					}
				}
				if err := mfs.Mkdir(e.root, "/m/x", mfs.MkdirOpts{}); err != nil {
					return "err-mkdir"
				}
				nd := dag.NodeWithData(ft.FilePBData([]byte("0000"), 4))
				if err := e.dserv.Add(ctx, nd); err != nil {
					return "err"
				}
				if err := mfs.PutNode(e.root, "/m/x/f", nd); err != nil {
					return "err-put"
				}
				n, err := mfs.Lookup(e.root, "/m/x/f")
				if err != nil {
					return "err-lookup"
				}
				fd, err := n.(*mfs.File).Open(ctx, mfs.Flags{Write: true, Sync: sync})
				if err != nil {
					return "err-open"
				}
				if err := mfs.Mv(e.root, "/m/x", "/m/y"); err != nil {
					return "err-mv"
				}
				if _, err := fd.WriteAt([]byte("0007"), 0); err != nil {
					return "err-write"
				}
				if err := fd.Close(); err != nil {
					return "err-close"
				}
				catp := func(p string) string {
					n, err := mfs.Lookup(e.root, p)
					if err != nil {
						return "missing"
					}
					fi, ok := n.(*mfs.File)
					if !ok {
						return "notfile"
					}
					rd, err := fi.Open(ctx, mfs.Flags{Read: true})
					if err != nil {
						return "err"
					}
					b, _ := io.ReadAll(rd)
					rd.Close()
					return tok(b)
				}
				rootp := func(p string) string {
					cur, err := e.root.GetDirectory().GetNode()
					if err != nil {
						return "err"
					}
					var c ipld.Node = cur
					for _, part := range strings.Split(strings.TrimPrefix(p, "/"), "/") {
						d, err := uio.NewDirectoryFromNode(e.dserv, c)
						if err != nil {
							return "err-dir"
						}
						c, err = d.Find(ctx, part)
						if err != nil {
							return "missing"
						}
					}
					r, err := uio.NewDagReader(ctx, c, e.dserv)
					if err != nil {
						return "err-reader"
					}
					b, _ := io.ReadAll(r)
					return tok(b)
				}
				out := []string{catp("/m/x/f"), catp("/m/y/f"), rootp("/m/x/f"), rootp("/m/y/f")}
				// leave /m empty again
				if md, err := mfs.Lookup(e.root, "/m"); err == nil {
					md.(*mfs.Directory).Unlink("x")
					md.(*mfs.Directory).Unlink("y")
				}
				return strings.Join(out, ",")
			})
			{
				wid := w.id
				catCheck[wid] = func(got string) {
					p := strings.Split(got, ",")
					// the property's clause: the descriptor was closed, so the data must be visible in later reads and in the
					// flushed root — at the path the file has now (/m/y/f)
					if len(p) == 4 && (p[1] != "0007" || p[3] != "0007") {
						o.Fail("write-lost-after-mv", "descriptor held across Mv /m/x /m/y, wrote 0007, Close returned nil (sync=%v): /m/y/f reads %s, flushed root %s; old path /m/x/f reads %s, flushed root %s", sync, p[1], p[3], p[0], p[2])
					}
				}
			}
			o.Kind("mvprobe-" + f[2])
		case "symopen":
			// an entry File.Open refuses AFTER taking the descriptor lock: a UnixFS symlink put at /s; every refused open must
			// give the lock back (a second open by another worker would otherwise wait for ever)
			w := wIdx(1)
			if busyW(w) || modeParked >= 0 {
				res = "refused"
				break
			}
			e.start(w, "", func() string {
				ctx := context.Background()
				if _, err := mfs.Lookup(e.root, "/s"); err != nil {
					data, err := ft.SymlinkData("/d/a")
					if err != nil {
						return "err-symlink"
					}
					nd := dag.NodeWithData(data)
					if err := e.dserv.Add(ctx, nd); err != nil {
						return "err-add"
					}
					if err := mfs.PutNode(e.root, "/s", nd); err != nil {
						return "err-put"
					}
				}
				n, err := mfs.Lookup(e.root, "/s")
				if err != nil {
					return "err-lookup"
				}
				fd, err := n.(*mfs.File).Open(ctx, mfs.Flags{Write: true, Sync: true})
				if err != nil {
					return "open-refused"
				}
				fd.Close()
				return "opened"
			})
			o.Kind("symopen")
		case "lschmod":
			// Directory.ForEachEntry of the file's directory; its callback (which runs with the directory lock held)
			// starts SetMode on the file in another goroutine and waits until that goroutine cannot go on
			w, fi := wIdx(1), vh.Atoi(f[2])
			if busyW(w) || modeParked >= 0 || anyFd() || chmodBlocked || chmodW >= 0 {
				res = "refused"
				break
			}
			m, _ := strconv.ParseUint(f[3], 8, 32)
			pend[w.id] = func(ok bool) { fullAck[fi] = acked[fi] }
			chmodW = w.id
			e.start(w, "", func() string {
				dirPath := "/"
				if fi < 2 {
					dirPath = "/d"
				}
				n, err := mfs.Lookup(e.root, dirPath)
				if err != nil {
					return "err"
				}
				file := e.file(fi)
				var names []string
				var helperDone chan string
				err = n.(*mfs.Directory).ForEachEntry(context.Background(), func(nl mfs.NodeListing) error {
					names = append(names, fmt.Sprintf("%s:%d", nl.Name, nl.Size))
					if helperDone == nil {
						helperDone = make(chan string, 1)
						gidCh := make(chan int64, 1)
						go func() {
							gid := goid()
							e.byGid.Store(gid, w) // so that the hooks attribute what it does to this worker
							gidCh <- gid
							r := errStr(file.SetMode(os.FileMode(m)))
							e.byGid.Delete(gid)
							helperDone <- r
						}()
						e.waitStuck(<-gidCh, helperDone)
					}
					return nil
				})
				if err != nil {
					return "err"
				}
				sort.Strings(names)
				return strings.Join(names, ",") + "/" + <-helperDone
			})
			o.Kind("lschmod")
		default:
			o.Emit("bad-op")
			continue
		}
		st := e.quiesce()
		// collect results of ops that finished (the current one and any that were blocked before)
		var parts []string
		nBlocked, nParked := 0, 0
		for i, w := range e.ws {
			w.mu.Lock()
			s := st[i]
			if w.running && w.parked != "" {
				s = "parked"
				nParked++
			} else if w.running {
				s = "blocked"
				nBlocked++
			} else if w.hasRes {
				s = "done:" + w.result
				w.hasRes = false
				if chmodW == i {
					chmodW = -1
				}
				if pend[i] != nil {
					pend[i](w.result == "ok")
					pend[i] = nil
				}
				if chk := catCheck[i]; chk != nil {
					chk(w.result)
					catCheck[i] = nil
				}
			}
			w.mu.Unlock()
			parts = append(parts, fmt.Sprintf("w%d=%s", i, s))
		}
		chmodBlocked = nBlocked > 0
		modeParked = -1
		for _, w := range e.ws {
			w.mu.Lock()
			if w.running && strings.HasPrefix(w.parked, "File.Mod") {
				modeParked = w.id
			}
			w.mu.Unlock()
		}
		if res == "" {
			res = "started"
		}
		// monitor: when no flush is on its way up, the node last handed to Root.updateChildEntry (the republisher's input)
		// shows every write that was acknowledged by a flush that propagates (Flush, Close of a Sync descriptor, File.Flush,
		// SetMode/SetModTime). If two propagations were ever under way at the same time in this case, a miss is the known
		// reordering defect (published-root-regress); without any overlap it is something else.
		if !propagating() {
			e.pubMu.Lock()
			pub := e.pub
			e.pubMu.Unlock()
			for fi := range paths {
				if fullAck[fi] != "" && fullAck[fi] == acked[fi] && !pubReported {
					got := "0000" // nothing handed to the root yet: the republisher still has the root as set up (initial contents)
					if pub != nil {
						got = e.readFrom(pub, fi)
					}
					if got != fullAck[fi] {
						pubReported = true
						if overlap {
							o.Fail("published-root-regress", "the node given to the republisher shows %s = %s but %s was flushed and acknowledged", paths[fi], got, fullAck[fi])
						} else {
							o.Fail("published-root-misses-flush", "no two propagations ever overlapped, yet the node given to the republisher shows %s = %s but %s was flushed (propagating flush) and acknowledged", paths[fi], got, fullAck[fi])
						}
					}
				}
			}
		}
		// monitor: a goroutine waits for a lock inside mfs and nothing can ever release it
		if nBlocked > 0 && nParked == 0 {
			deadlocked = true
			o.Fail("deadlock", "%d goroutine(s) blocked on an mfs lock with every other goroutine idle or blocked: %s", nBlocked, e.blockedFrames())
		}
		o.Emit("%s %s", res, strings.Join(parts, " "))
	}
}

// blockedFrames names, for the report, the mfs functions the blocked workers are in.
func (e *env) blockedFrames() string {
	buf := make([]byte, 1<<20)
	n := runtime.Stack(buf, true)
	var out []string
	for _, blk := range strings.Split(string(buf[:n]), "\n\n") {
		hdr := blk[:strings.IndexByte(blk+"\n", '\n')]
		f := strings.Fields(hdr)
		if len(f) < 2 || !strings.HasPrefix(hdr, "goroutine ") {
			continue
		}
		id, _ := strconv.ParseInt(f[1], 10, 64)
		if _, ok := e.byGid.Load(id); !ok || !strings.Contains(hdr, "sync.") {
			continue
		}
		var fns []string
		for _, l := range strings.Split(blk, "\n") {
			if strings.HasPrefix(l, "github.com/ipfs/boxo/mfs.") {
				fn := strings.TrimPrefix(l, "github.com/ipfs/boxo/mfs.")
				if k := strings.LastIndexByte(fn, '('); k > 0 {
					fn = fn[:k]
				}
				fns = append(fns, fn)
			}
		}
		out = append(out, hdr[strings.IndexByte(hdr, '['):]+" "+strings.Join(fns, "<-"))
	}
	return strings.ReplaceAll(strings.Join(out, " ; "), "\n", " ")
}

var _ = bytes.Equal

func main() { vh.Main(vh.Config{Gen: gen, Exec: exec, CaseTimeout: 60 * time.Second}) }
