package main

import (
	"fmt"
	"strconv"

	"verifharness/vh"
)

// Generator: scenario mixes over 4 workers and 3 files. A light mirror keeps most ops meaningful
// (descriptor present before write/flush, resume when something is probably parked); the oracle is the
// Lean model, refusals are decided identically on both sides, so an imprecise mirror only costs coverage.
func gen(r *vh.Rand, tier string, n int, emit func(vh.Case)) {
	for i := 0; i < n; i++ {
		c := vh.Case{ID: strconv.Itoa(i)}
		type gw struct {
			fd, write, parked bool
			file              int
		}
		ws := make([]gw, nWorkers)
		modeParked := -1
		steps := r.Range(6, 40)
		if tier == "thorough" {
			steps = r.Range(6, 90)
		}
		lockScenario := r.Chance(1, 6) // File.Mode / ModTime vs SetMode around the schedule point
		orderScenario := !lockScenario && r.Chance(1, 5)
		if orderScenario {
			// lock ORDER between a file's node lock and the directory locks of its ancestors: SetMode / SetModTime
			// (bottom-up: file, then /d, then /) paused between the levels, against listings and GetNode chains
			// (top-down: /, /d, file) started meanwhile; and a SetMode started from inside a ForEachEntry callback.
			chW := -1
			for k := 0; k < steps; k++ {
				w := r.Intn(nWorkers)
				f := r.Intn(3)
				if r.Chance(2, 3) {
					f = r.Intn(2) // files of /d: two directory levels above them
				}
				mode := vh.Pick(r, []string{"644", "600", "755", "700"})
				var op string
				switch x := r.Intn(100); {
				case chW >= 0 && x < 35:
					other := (chW + 1 + r.Intn(nWorkers-1)) % nWorkers
					op = vh.Pick(r, []string{fmt.Sprintf("rootcat %d %d", other, f), fmt.Sprintf("ls %d", other), fmt.Sprintf("cat %d %d", other, f), fmt.Sprintf("rootcat %d %d", other, r.Intn(3))})
				case chW >= 0 && x < 75:
					pk := vh.Pick(r, []string{"-", "-", "l"})
					op = fmt.Sprintf("resume %d %s", chW, pk)
					if pk == "-" || r.Bool() {
						chW = -1
					}
				case x < 30:
					op = fmt.Sprintf("chmod %d %d %s l", w, f, mode)
					if chW < 0 {
						chW = w
					}
				case x < 50:
					op = fmt.Sprintf("lschmod %d %d %s", w, vh.Pick(r, []int{1, 1, 0, 2}), mode)
				case x < 60:
					op = fmt.Sprintf("chmod %d %d %s", w, f, mode)
				case x < 70:
					op = fmt.Sprintf("ls %d", w)
				case x < 80:
					op = fmt.Sprintf("rootcat %d %d", w, f)
				case x < 88:
					op = fmt.Sprintf("mode %d %d -", w, f)
				case x < 94:
					op = fmt.Sprintf("pubcat %d", f)
				default:
					op = fmt.Sprintf("cat %d %d", w, f)
				}
				c.Ops = append(c.Ops, op)
			}
			for w := 0; w < nWorkers; w++ {
				c.Ops = append(c.Ops, fmt.Sprintf("resume %d -", w), fmt.Sprintf("resume %d -", w))
			}
			for f := 0; f < 3; f++ {
				c.Ops = append(c.Ops, fmt.Sprintf("mode 0 %d -", f), fmt.Sprintf("pubcat %d", f), fmt.Sprintf("rootcat 1 %d", f))
			}
			emit(c)
			continue
		}
		val := 0
		for k := 0; k < steps; k++ {
			w := r.Intn(nWorkers)
			f := r.Intn(3)
			park := vh.Pick(r, []string{"-", "-", "n", "l", "l"})
			var op string
			if lockScenario {
				switch x := r.Intn(10); {
				case x < 3:
					p := "-"
					if r.Bool() {
						p = "p"
					}
					op = fmt.Sprintf("mode %d %d %s", w, f, p)
					if p == "p" && modeParked < 0 {
						modeParked = w
					}
				case x < 5:
					p := "-"
					if r.Bool() {
						p = "q"
					}
					op = fmt.Sprintf("mtime %d %d %s", w, f, p)
					if p == "q" && modeParked < 0 {
						modeParked = w
					}
				case x < 8:
					op = fmt.Sprintf("chmod %d %d %s", w, f, vh.Pick(r, []string{"644", "600", "755", "0", "777"}))
				default:
					if modeParked >= 0 {
						op = fmt.Sprintf("resume %d -", modeParked)
						modeParked = -1
					} else {
						op = fmt.Sprintf("rootcat %d %d", w, f)
					}
				}
				c.Ops = append(c.Ops, op)
				continue
			}
			g := &ws[w]
			x := r.Intn(100)
			switch {
			case g.parked:
				if x < 70 {
					op = fmt.Sprintf("resume %d %s", w, park)
					if park == "-" || r.Bool() {
						g.parked = false
						if !g.fd {
							g.write = false
						}
					}
				} else if x < 85 {
					op = fmt.Sprintf("pubcat %d", f)
				} else {
					op = fmt.Sprintf("rootcat %d %d", (w+1)%nWorkers, f)
				}
			case !g.fd:
				switch {
				case x < 45:
					mode := vh.Pick(r, []string{"w", "s", "s", "s", "r"})
					op = fmt.Sprintf("open %d %d %s", w, f, mode)
					g.fd, g.write, g.file = true, mode != "r", f
				case x < 60:
					op = fmt.Sprintf("cat %d %d", w, f)
				case x < 75:
					op = fmt.Sprintf("rootcat %d %d", w, f)
				case x < 82:
					op = fmt.Sprintf("pubcat %d", f)
				case x < 88:
					op = vh.Pick(r, []string{fmt.Sprintf("touch %d %d", w, f), fmt.Sprintf("fflush %d %d", w, f), fmt.Sprintf("fsync %d %d", w, f),
						fmt.Sprintf("rootflush %d", w), fmt.Sprintf("lsnames %d", w), fmt.Sprintf("mvprobe %d %s", w, vh.Pick(r, []string{"s", "w"})), fmt.Sprintf("symopen %d", w)})
				case x < 92:
					op = fmt.Sprintf("ls %d", w)
				case x < 96:
					op = fmt.Sprintf("chmod %d %d 644", w, f)
				default:
					op = fmt.Sprintf("mode %d %d -", w, f)
				}
			default:
				switch {
				case x < 30 && g.write:
					val++
					op = fmt.Sprintf("write %d %d", w, val)
				case x < 40 && g.write:
					// write, then let the DagModifier sync on its own, then (usually next) Flush with the descriptor kept open
					op = vh.Pick(r, []string{fmt.Sprintf("seek %d", w), fmt.Sprintf("trunc %d", w), fmt.Sprintf("seek %d", w)})
				case x < 65:
					op = fmt.Sprintf("flush %d %s", w, park)
					g.parked = park != "-"
				case x < 85:
					op = fmt.Sprintf("close %d %s", w, park)
					g.parked = park != "-"
					g.fd = false
					if park == "-" && r.Chance(1, 3) {
						// closed (possibly without Sync): a listing of / copies the file's node into /d's links without
						// telling the root; a later propagating flush of the same file must still reach the root
						c.Ops = append(c.Ops, op, fmt.Sprintf("ls %d", (w+1)%nWorkers))
						op = vh.Pick(r, []string{fmt.Sprintf("fflush %d %d", (w+2)%nWorkers, g.file), fmt.Sprintf("touch %d %d", (w+2)%nWorkers, g.file), fmt.Sprintf("fflush %d %d", w, g.file)})
					}
				case x < 89:
					op = fmt.Sprintf("pubcat %d", f)
				case x < 94:
					op = vh.Pick(r, []string{fmt.Sprintf("size %d", w), fmt.Sprintf("fdread %d", w), fmt.Sprintf("fdread %d", w)})
				default:
					op = fmt.Sprintf("rootcat %d %d", w, f)
				}
			}
			c.Ops = append(c.Ops, op)
		}
		// settle everything, then look at all three views of every file
		for w := 0; w < nWorkers; w++ {
			c.Ops = append(c.Ops, fmt.Sprintf("resume %d -", w), fmt.Sprintf("resume %d -", w))
		}
		for w := 0; w < nWorkers; w++ {
			c.Ops = append(c.Ops, fmt.Sprintf("close %d -", w))
		}
		for f := 0; f < 3; f++ {
			c.Ops = append(c.Ops, fmt.Sprintf("cat 0 %d", f), fmt.Sprintf("pubcat %d", f), fmt.Sprintf("rootcat 1 %d", f))
		}
		emit(c)
	}
}
