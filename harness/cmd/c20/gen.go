package main

import (
	"verifharness/vh"
)

func gen(r *vh.Rand, tier string, n int, emit func(vh.Case)) {
	for i := 0; i < n; i++ {
		emit(vh.Case{ID: "0", Ops: []string{"mode 0 0 p", "chmod 1 0 644", "resume 0 -"}})
		return
	}
}
