// C05 harness: the real block service against scripted exchanges (honest, partial, reordering,
// duplicating, wrong-CID, unrequested, wrong-bytes, failing, failing NotifyNewBlocks) with request sets
// containing duplicates, rejected CIDs and partially local data. All CIDs that pass the allowlist here are
// real sha2-256 CIDs of their data, so the monitor can re-hash every returned block.
package main

import (
	"fmt"
	"strconv"
	"strings"

	"verifharness/bsx"
	"verifharness/vh"
)

// honest CID of data blob d (three codecs + CIDv0 share the multihash)
func hcid(r *vh.Rand, d int) string {
	return bsx.CidTok(vh.Pick(r, []int{0x55, 0x55, 0x55, 0x70, 0}), 0x12, 32, d)
}

func badCid(r *vh.Rand) string {
	s := vh.Pick(r, [][2]int{{0xd5, 16}, {0x12, 19}, {0x00, 129}, {0xb213, 20}})
	return bsx.CidTok(0x55, s[0], s[1], r.Intn(3))
}

func gen(r *vh.Rand, tier string, n int, emit func(vh.Case)) {
	maxOps := 8
	if tier == "thorough" {
		maxOps = 20
	}
	for i := 0; i < n; i++ {
		c := vh.Case{ID: strconv.Itoa(i)}
		c.Ops = append(c.Ops, fmt.Sprintf("cfg %d %d dflt", vh.Pick(r, []int{1, 1, 1, 0}), vh.Pick(r, []int{1, 1, 2, 2, 0})))
		nd := r.Range(3, 9) // data blobs 0..nd-1
		// pre-populate part of the store with honest blocks
		var pre []string
		for d := 0; d < nd; d++ {
			if r.Chance(1, 3) {
				pre = append(pre, hcid(r, d)+"="+strconv.Itoa(d))
			}
		}
		if len(pre) > 0 {
			c.Ops = append(c.Ops, "addmany "+strings.Join(pre, " "))
		}
		for j, m := 0, r.Range(1, maxOps); j < m; j++ {
			// blockstore write failures: the k-th Put / PutMany call from here fails, once or from then on
			if r.Chance(1, 5) {
				if r.Chance(1, 4) {
					c.Ops = append(c.Ops, "putfail -")
				} else {
					c.Ops = append(c.Ops, fmt.Sprintf("putfail %d %d", vh.Pick(r, []int{0, 0, 0, 1, 1, 2, 3}), r.Intn(2)))
				}
			}
			// blockstore read failures: the k-th Get call from here fails with an error that is not "not found"
			if r.Chance(1, 8) {
				if r.Chance(1, 4) {
					c.Ops = append(c.Ops, "getfail -")
				} else {
					c.Ops = append(c.Ops, fmt.Sprintf("getfail %d %d", vh.Pick(r, []int{0, 0, 1, 1, 2, 3, 5}), r.Intn(2)))
				}
			}
			mode := vh.Pick(r, []string{"d", "s", "c", "d", "s", "c", "S0", "S1", "C0", "C1"})
			switch r.Intn(8) {
			case 0, 1, 2: // GetBlock
				d := r.Intn(nd)
				k := hcid(r, d)
				if r.Chance(1, 10) {
					k = badCid(r)
				}
				ans := "err"
				switch r.Intn(8) {
				case 0:
				case 1, 2, 3, 4:
					ans = k + "=" + strconv.Itoa(d) // honest
				case 5:
					ans = k + "=" + strconv.Itoa(r.Intn(nd)) // requested CID, possibly other bytes
				case 6:
					d2 := r.Intn(nd)
					ans = hcid(r, d2) + "=" + strconv.Itoa(d2) // well-formed block, possibly another CID
				default:
					ans = badCid(r) + "=" + strconv.Itoa(r.Intn(nd)) // a CID the allowlist rejects
				}
				c.Ops = append(c.Ops, fmt.Sprintf("get %s %s %s %d", mode, k, ans, vh.Pick(r, []int{1, 1, 1, 1, 0})))
			case 3, 4, 5, 6: // GetBlocks
				var ks, ans []string
				for k, m := 0, r.Intn(9); k < m; k++ {
					t := hcid(r, r.Intn(nd))
					if r.Chance(1, 8) {
						t = badCid(r)
					}
					if len(ks) > 0 && r.Chance(1, 6) {
						t = vh.Pick(r, ks) // duplicate request
					}
					ks = append(ks, t)
				}
				a := "err"
				if !r.Chance(1, 10) {
					for _, k := range ks {
						f := strings.Split(k, ".")
						switch r.Intn(10) {
						case 0, 1: // withheld
						case 2: // duplicated
							ans = append(ans, k+"="+f[3], k+"="+f[3])
						case 3: // wrong bytes
							ans = append(ans, k+"="+strconv.Itoa(r.Intn(nd)))
						default:
							ans = append(ans, k+"="+f[3])
						}
					}
					for k, m := 0, vh.Pick(r, []int{0, 0, 0, 1, 2}); k < m; k++ { // unrequested
						d2 := r.Intn(nd + 2)
						t := hcid(r, d2)
						if r.Chance(1, 4) {
							t = badCid(r)
						}
						ans = append(ans, t+"="+strconv.Itoa(d2))
					}
					for k := len(ans) - 1; k > 0; k-- { // any order
						j := r.Intn(k + 1)
						ans[k], ans[j] = ans[j], ans[k]
					}
					a = strings.Join(ans, " ")
				}
				nf := "-"
				if r.Chance(1, 8) {
					nf = strconv.Itoa(r.Intn(3))
				}
				c.Ops = append(c.Ops, strings.TrimSpace(fmt.Sprintf("getmany %s %s %s | %s", mode, nf, strings.Join(ks, " "), a)))
			case 7:
				if r.Bool() {
					d := r.Intn(nd)
					c.Ops = append(c.Ops, "add "+hcid(r, d)+"="+strconv.Itoa(d))
				} else {
					c.Ops = append(c.Ops, "del "+hcid(r, r.Intn(nd)))
				}
			}
		}
		// a second block service B (own store and exchange) used with contexts that carry a session embedded for the
		// first one: B must serve from ITS store, fetch from ITS exchange and cache in ITS store
		if r.Chance(1, 3) {
			for d := 0; d < nd; d++ {
				if r.Chance(1, 3) {
					c.Ops = append(c.Ops, "badd "+hcid(r, d)+"="+strconv.Itoa(d))
				}
			}
			for j, m := 0, r.Range(1, 5); j < m; j++ {
				bm := vh.Pick(r, []string{"B:d", "B:C0", "B:C0", "B:C1", "B:X0", "B:X1"})
				if r.Bool() {
					d := r.Intn(nd)
					k := hcid(r, d)
					ans := vh.Pick(r, []string{"err", k + "=" + strconv.Itoa(d), k + "=" + strconv.Itoa(d), k + "=" + strconv.Itoa(d)})
					c.Ops = append(c.Ops, fmt.Sprintf("get %s %s %s 1", bm, k, ans))
				} else {
					var ks, ans []string
					for k, n := 0, r.Range(1, 5); k < n; k++ {
						d := r.Intn(nd)
						t := hcid(r, d)
						ks = append(ks, t)
						if r.Chance(4, 5) {
							ans = append(ans, t+"="+strconv.Itoa(d))
						}
					}
					c.Ops = append(c.Ops, strings.TrimSpace(fmt.Sprintf("getmany %s - %s | %s", bm, strings.Join(ks, " "), strings.Join(ans, " "))))
				}
			}
			for d := 0; d < nd; d++ {
				c.Ops = append(c.Ops, "bpeek "+bsx.CidTok(0x55, 0x12, 32, d))
			}
		}
		for d := 0; d < nd; d++ {
			c.Ops = append(c.Ops, "peek "+bsx.CidTok(0x55, 0x12, 32, d))
		}
		// a GetBlocks call whose context is cancelled after k received blocks (monitors only; must be the last op)
		if r.Chance(1, 6) {
			var ks, ans []string
			for k, m := 0, r.Range(1, 8); k < m; k++ {
				d := r.Intn(nd)
				t := hcid(r, d)
				ks = append(ks, t)
				if r.Chance(4, 5) {
					ans = append(ans, t+"="+strconv.Itoa(d))
				}
			}
			c.Ops = append(c.Ops, strings.TrimSpace(fmt.Sprintf("cancelget %s %d %s | %s", vh.Pick(r, []string{"d", "s", "C0"}),
				r.Intn(4), strings.Join(ks, " "), strings.Join(ans, " "))))
		}
		emit(c)
	}
}

func exec(c vh.Case, o *vh.Out) { bsx.Exec(c, o, bsx.Monitors{C05: true}) }

func main() { vh.Main(vh.Config{Gen: gen, Exec: exec}) }
