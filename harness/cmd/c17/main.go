// C17 harness: drives the real unixfs/io BasicDirectory in block-size estimation mode and the three
// size functions (through the `verif` accessors of ipld/unixfs/io/directory_verif.go).
//
// Op lines (names / cids hex, "-" = empty; time "<sec> <nsec>" or "zero -"):
//
//	vlen <u64>                          varintLen
//	lsize <name> <cid> <tsize>          linkSerializedSize
//	dsize <mode> <sec> <nsec>           dataFieldSerializedSize
//	newdir <mode> <sec> <nsec>          NewBasicDirectory(WithSizeEstimationMode(Block), WithStat(mode, mtime))
//	add <name> <cid> <tsize>            AddChild (a stub node with that Cid() and Size())
//	rm <name>                           RemoveChild
//	reload                              NewBasicDirectoryFromNode(node.Copy()) (what NewDirectoryFromNode does)
//	setstat <mode> <sec> <nsec>         SetStat
//	remode                              SetSizeEstimationMode(Links); SetSizeEstimationMode(Block)  (forces a recompute)
//	newdirm <L|B|D> <mode> <sec> <nsec>  NewBasicDirectory with estimation mode Links / Block / Disabled
//	setest <L|B|D>                      SetSizeEstimationMode
//	setmaxlinks <n>                     SetMaxLinks (a new name is refused when reached)
//	stat                                -> est=<estimatedSize> n=<totalLinks> raw=<len(GetNode().RawData())>
//	dynnew <threshold> <mode> <sec> <nsec> | dynadd <name> <cid> <tsize> | dynrm <name> | dynfit <k> (threshold := block length + k)
//	                                    a DynamicDirectory (block mode, per-directory HAMTShardingSize); these ops
//	                                    always answer "ok" (not modelled), a monitor checks that while the directory
//	                                    is still basic after an AddChild its block fits the threshold
//
// every directory op answers "<ok|notfound|err> est=.. n=.. raw=..".
package main

import (
	"context"
	"errors"
	"fmt"
	"math"
	"os"
	"strconv"
	"strings"
	"time"

	"github.com/ipfs/boxo/ipld/merkledag"
	mdtest "github.com/ipfs/boxo/ipld/merkledag/test"
	"github.com/ipfs/boxo/ipld/unixfs"
	uio "github.com/ipfs/boxo/ipld/unixfs/io"
	cid "github.com/ipfs/go-cid"
	ipld "github.com/ipfs/go-ipld-format"
	mh "github.com/multiformats/go-multihash"

	"verifharness/vh"
)

// stub child node: only Cid() and Size() matter to AddChild (ipld.MakeLink)
type stub struct {
	c    cid.Cid
	size uint64
}

func (s *stub) RawData() []byte                               { return nil }
func (s *stub) Cid() cid.Cid                                  { return s.c }
func (s *stub) String() string                                { return s.c.String() }
func (s *stub) Loggable() map[string]any                      { return nil }
func (s *stub) Resolve([]string) (any, []string, error)       { return nil, nil, errors.New("stub") }
func (s *stub) Tree(string, int) []string                     { return nil }
func (s *stub) ResolveLink([]string) (*ipld.Link, []string, error) { return nil, nil, errors.New("stub") }
func (s *stub) Copy() ipld.Node                               { c := *s; return &c }
func (s *stub) Links() []*ipld.Link                           { return nil }
func (s *stub) Stat() (*ipld.NodeStat, error)                 { return &ipld.NodeStat{}, nil }
func (s *stub) Size() (uint64, error)                         { return s.size, nil }

func linkCids() []cid.Cid {
	mk := func(v uint64, codec uint64, mht uint64, l int, data string) cid.Cid {
		c, err := cid.Prefix{Version: v, Codec: codec, MhType: mht, MhLength: l}.Sum([]byte(data))
		if err != nil {
			panic(err)
		}
		return c
	}
	return []cid.Cid{
		mk(0, cid.DagProtobuf, mh.SHA2_256, -1, "a"),                    // 34 bytes
		mk(1, cid.Raw, mh.SHA2_256, -1, "b"),                            // 36
		mk(1, cid.DagProtobuf, mh.SHA2_256, 20, "c"),                    // truncated to 20
		mk(1, cid.DagCBOR, mh.SHA2_512, -1, "d"),                        // 64-byte digest
		mk(1, cid.Raw, mh.IDENTITY, -1, "ab"),                           // identity, tiny
		mk(1, cid.Raw, mh.IDENTITY, -1, strings.Repeat("x", 130)),       // identity, > 127 bytes
		mk(1, cid.DagProtobuf, mh.BLAKE2B_MIN+31, -1, "e"),              // 2-byte multihash code
	}
}

var tsizes = []uint64{0, 1, 127, 128, 16383, 16384, 1<<21 - 1, 1 << 21, 1<<28 - 1, 1 << 28, 1<<35 - 1, 1 << 35, 1<<42 - 1, 1 << 42,
	1<<49 - 1, 1 << 49, 1<<56 - 1, 1 << 56, 1<<63 - 1, 262158}
var secs = []int64{0, 1, 127, 128, 16383, 16384, 1700000000, 1 << 33, 1<<35 - 1, -1, -(1 << 33), 253402300799, -62135596800, -62135596801}
var nsecs = []int{0, 1, 999999999, 500000000}
var names = []string{"", "a", "b", "file.txt", "dir", "ab", "\xff\x00", "é"}

func nameTok(r *vh.Rand) string {
	switch r.Intn(10) {
	case 0:
		return vh.Hex([]byte(strings.Repeat("n", vh.Pick(r, []int{126, 127, 128, 129, 255, 300}))))
	case 1:
		return vh.Hex([]byte("f" + strconv.Itoa(r.Intn(40))))
	default:
		return vh.Hex([]byte(vh.Pick(r, names)))
	}
}

func vlen(v uint64) int {
	n := 1
	for ; v >= 128; v >>= 7 {
		n++
	}
	return n
}

// boundaryName picks a name length such that the PBLink message (Hash + Name + Tsize fields) lands on or
// next to a length-varint boundary (127/128, rarely 16383/16384) — densely on both sides, and in
// particular inside the window where the message WITHOUT its Tsize field is still below the boundary
// and WITH it is not. The length is derived from the CID length and the Tsize varint class.
func boundaryName(r *vh.Rand, cidLen int, tsize uint64, allowBig bool) string {
	tsz := 1 + vlen(tsize)
	h := 1 + vlen(uint64(cidLen)) + cidLen
	b, nameOverhead := 128, 2
	if allowBig && r.Chance(1, 12) {
		b, nameOverhead = 16384, 3
	}
	target := b - tsz + r.Range(-2, tsz+1) // Hash+Name bytes: from 2 below the window to 1 above it
	n := target - h - nameOverhead
	if n < 0 {
		n = 0
	}
	return vh.Hex([]byte(strings.Repeat(string(rune('a'+r.Intn(26))), n)))
}

func timeTok(r *vh.Rand) string {
	if r.Chance(1, 4) {
		return "zero -"
	}
	s := vh.Pick(r, secs)
	if r.Chance(1, 4) {
		s = int64(r.Intn(1<<31)) - (1 << 30)
	}
	return fmt.Sprintf("%d %d", s, vh.Pick(r, nsecs))
}

func modeTok(r *vh.Rand) string {
	perm := uint32(0)
	switch r.Intn(5) {
	case 0:
	case 1:
		perm = uint32(vh.Pick(r, []int{0755, 0644, 0777, 0700, 0, 0177, 0200}))
	default:
		p := uint32(r.Intn(4096))
		perm = p & 0x1FF
		if p&0x800 != 0 {
			perm |= uint32(os.ModeSetuid)
		}
		if p&0x400 != 0 {
			perm |= uint32(os.ModeSetgid)
		}
		if p&0x200 != 0 {
			perm |= uint32(os.ModeSticky)
		}
	}
	if r.Chance(1, 3) {
		perm |= uint32(os.ModeDir)
	}
	return strconv.FormatUint(uint64(perm), 10)
}

func gen(r *vh.Rand, tier string, n int, emit func(vh.Case)) {
	cids := linkCids()
	// the varint boundaries, exhaustively around every power of two
	c := vh.Case{ID: "vlen"}
	for b := 0; b < 64; b++ {
		for _, d := range []int64{-1, 0, 1} {
			v := uint64(1)<<uint(b) + uint64(d)
			c.Ops = append(c.Ops, "vlen "+strconv.FormatUint(v, 10))
		}
	}
	c.Ops = append(c.Ops, "vlen 18446744073709551615")
	emit(c)
	// linkSerializedSize swept across the 127/128 boundary of the PBLink length: every pool CID, one Tsize
	// per varint class, every name length from 3 below the "without Tsize" window to 1 above the boundary
	for ci, cc := range cids {
		c := vh.Case{ID: "lsweep" + strconv.Itoa(ci)}
		cl := len(cc.Bytes())
		h := 1 + vlen(uint64(cl)) + cl
		for _, ts := range []uint64{0, 300, 1 << 21, 1 << 28, 1 << 35, 1 << 42, 1 << 49, 1 << 56, 1<<63 - 1} {
			tsz := 1 + vlen(ts)
			for hn := 128 - tsz - 3; hn <= 129; hn++ {
				if n := hn - h - 2; n >= 0 {
					c.Ops = append(c.Ops, fmt.Sprintf("lsize %s %s %d", vh.Hex([]byte(strings.Repeat("s", n))), vh.Hex(cc.Bytes()), ts))
				}
			}
		}
		if len(c.Ops) > 0 {
			emit(c)
		}
	}
	for i := 0; i < n; i++ {
		c := vh.Case{ID: strconv.Itoa(i)}
		if r.Chance(1, 8) {
			for j, m := 0, 2+r.Intn(8); j < m; j++ {
				switch r.Intn(3) {
				case 0:
					c.Ops = append(c.Ops, "vlen "+strconv.FormatUint(r.U64()>>uint(r.Intn(64)), 10))
				case 1:
					cc, ts := vh.Pick(r, cids), vh.Pick(r, tsizes)
					nm := nameTok(r)
					if r.Chance(2, 3) {
						nm = boundaryName(r, len(cc.Bytes()), ts, true)
					}
					c.Ops = append(c.Ops, fmt.Sprintf("lsize %s %s %d", nm, vh.Hex(cc.Bytes()), ts))
				default:
					c.Ops = append(c.Ops, fmt.Sprintf("dsize %s %s", modeTok(r), timeTok(r)))
				}
			}
			emit(c)
			continue
		}
		if r.Chance(1, 6) {
			// DynamicDirectory in block mode with a small per-directory threshold (monitor only: while the
			// directory is still a single block after an AddChild, that block must fit the threshold)
			c.Ops = append(c.Ops, fmt.Sprintf("dynnew %d %s %s %s", r.Range(120, 700), modeTok(r), timeTok(r), vh.Pick(r, []string{"B", "B", "B", "L"})))
			held := map[string]cid.Cid{}
			var heldNames []string
			for j, m := 0, 10+r.Intn(40); j < m; j++ {
				if len(heldNames) > 0 && r.Chance(1, 4) {
					// put the threshold right at (or just above) the current block, then replace an entry by a
					// target with the same CID (same length) and another Tsize class: the decision has to see
					// the size of the block that results
					nm := vh.Pick(r, heldNames)
					c.Ops = append(c.Ops, "dynfit "+strconv.Itoa(r.Intn(4)),
						fmt.Sprintf("dynadd %s %s %d", nm, vh.Hex(held[nm].Bytes()), vh.Pick(r, tsizes)))
					continue
				}
				nm := vh.Hex([]byte("e" + strconv.Itoa(r.Intn(8))))
				cc, ts := vh.Pick(r, cids[:5]), vh.Pick(r, tsizes) // (the HAMT refuses identity digests > 128 bytes)
				if r.Chance(1, 6) {
					nm = boundaryName(r, len(cc.Bytes()), ts, false)
				}
				if r.Chance(1, 6) {
					c.Ops = append(c.Ops, "dynrm "+nm)
				} else {
					c.Ops = append(c.Ops, fmt.Sprintf("dynadd %s %s %d", nm, vh.Hex(cc.Bytes()), ts))
					if _, ok := held[nm]; !ok {
						heldNames = append(heldNames, nm)
					}
					held[nm] = cc
				}
			}
			emit(c)
			continue
		}
		if r.Chance(1, 5) {
			c.Ops = append(c.Ops, fmt.Sprintf("newdirm %s %s %s", vh.Pick(r, []string{"L", "D", "B"}), modeTok(r), timeTok(r)))
		} else {
			c.Ops = append(c.Ops, fmt.Sprintf("newdir %s %s", modeTok(r), timeTok(r)))
		}
		if r.Chance(1, 6) {
			c.Ops = append(c.Ops, "setmaxlinks "+strconv.Itoa(r.Range(1, 6)))
		}
		var used []string
		m := 3 + r.Intn(20)
		if tier == "thorough" {
			m = 3 + r.Intn(50)
		}
		for j := 0; j < m; j++ {
			switch r.Intn(16) {
			case 0, 1, 2, 3, 4, 5, 6:
				nm := nameTok(r)
				if len(used) > 0 && r.Chance(1, 3) {
					nm = vh.Pick(r, used) // replacement
				}
				ts := vh.Pick(r, tsizes)
				if r.Chance(1, 50) {
					ts = 1 << 63 // rejected by AddRawLink after the old entry was removed
				}
				if r.Chance(1, 5) {
					ts = uint64(r.Intn(1 << 20))
				}
				cc := vh.Pick(r, cids)
				if r.Chance(1, 3) {
					nm = boundaryName(r, len(cc.Bytes()), ts, r.Chance(1, 8))
				}
				c.Ops = append(c.Ops, fmt.Sprintf("add %s %s %d", nm, vh.Hex(cc.Bytes()), ts))
				used = append(used, nm)
			case 7, 8, 9:
				if len(used) > 0 && !r.Chance(1, 6) {
					c.Ops = append(c.Ops, "rm "+vh.Pick(r, used))
				} else {
					c.Ops = append(c.Ops, "rm "+nameTok(r))
				}
			case 10, 11:
				c.Ops = append(c.Ops, "reload")
			case 12:
				switch r.Intn(6) {
				case 0, 1:
					c.Ops = append(c.Ops, "remode")
				case 2:
					c.Ops = append(c.Ops, "setest "+vh.Pick(r, []string{"L", "D", "B", "B"}))
				case 3:
					c.Ops = append(c.Ops, "setmaxlinks "+strconv.Itoa(r.Range(0, 8)))
				}
			case 13:
				if r.Chance(1, 4) {
					c.Ops = append(c.Ops, fmt.Sprintf("setstat %s %s", modeTok(r), timeTok(r)))
				}
			default:
				c.Ops = append(c.Ops, "stat")
			}
		}
		c.Ops = append(c.Ops, "stat", "reload", "stat")
		emit(c)
	}
}

func parseTime(a, b string) time.Time {
	if a == "zero" {
		return time.Time{}
	}
	s, err := strconv.ParseInt(a, 10, 64)
	if err != nil {
		panic(err)
	}
	return time.Unix(s, int64(vh.Atoi(b)))
}

func u64(t string) uint64 {
	v, err := strconv.ParseUint(t, 10, 64)
	if err != nil {
		panic(err)
	}
	return v
}

func parseCid(h string) cid.Cid {
	c, err := cid.Cast(vh.UnHex(h))
	if err != nil {
		panic(err)
	}
	return c
}

type st struct {
	dyn       uio.Directory // DynamicDirectory under the monitor-only dyn* ops (nil once sharded)
	dynThr    int
	dynLinks  bool // the DynamicDirectory uses the legacy links estimate
	d         *uio.BasicDirectory
	reloaded  bool   // the directory object was rebuilt from its node at least once
	statDrift bool   // SetStat was called on this directory object (its stored mode/mtime differ from the node's)
	zeroPerm  bool   // created with a mode that has type bits but no permission bits (Mode field = 0 stored)
	edits     int
	est       uio.SizeEstimationMode
	maxLinks  int
}

func legacySize(nd ipld.Node) int {
	t := 0
	for _, l := range nd.Links() {
		t += len(l.Name) + l.Cid.ByteLen()
	}
	return t
}

func (s *st) answer(o *vh.Out, res string) {
	nd, _ := s.d.GetNode()
	raw := len(nd.RawData())
	est := s.d.VerifEstimatedSize()
	if s.est != uio.SizeEstimationBlock {
		// legacy modes: the estimate is the sum of name + CID lengths (Links) or 0 (Disabled)
		want := 0
		if s.est == uio.SizeEstimationLinks {
			for _, l := range nd.Links() {
				want += len(l.Name) + l.Cid.ByteLen()
			}
		}
		if est != want {
			o.Fail("legacy-estimate", "estimation mode %d: estimatedSize=%d, want %d", s.est, est, want)
		}
	} else if est != raw {
		sig := "estimate-not-exact"
		switch {
		case s.statDrift:
			sig = "estimate-after-setstat"
		case s.reloaded && s.zeroPerm:
			sig = "estimate-after-reload-zero-perm-mode"
		case s.reloaded:
			sig = "estimate-after-reload"
		}
		o.Fail(sig, "estimatedSize=%d but len(GetNode().RawData())=%d (links=%d)", est, raw, len(nd.Links()))
	}
	if s.d.VerifTotalLinks() != len(nd.Links()) {
		o.Fail("totallinks-mismatch", "totalLinks=%d, node has %d links", s.d.VerifTotalLinks(), len(nd.Links()))
	}
	if s.edits >= 3 && len(nd.Links()) >= 2 {
		o.Nontrivial()
	}
	o.Emit("%s est=%d n=%d raw=%d", res, est, s.d.VerifTotalLinks(), raw)
}

func exec(c vh.Case, o *vh.Out) {
	uio.HAMTSizeEstimation = uio.SizeEstimationBlock
	ctx := context.Background()
	s := &st{}
	for _, line := range c.Ops {
		f := strings.Fields(line)
		switch f[0] {
		case "vlen":
			v := u64(f[1])
			got := uio.VerifVarintLen(v)
			want := 1
			for x := v; x >= 128; x >>= 7 {
				want++
			}
			if got != want {
				o.Fail("varintlen", "varintLen(%d)=%d, LEB128 needs %d bytes", v, got, want)
			}
			o.Emit("%d", got)
		case "lsize":
			nm, cc, ts := string(vh.UnHex(f[1])), parseCid(f[2]), u64(f[3])
			got := uio.VerifLinkSerializedSize(nm, cc, ts)
			// the property's own measure: the bytes one link adds to the encoded node
			n0 := merkledag.NodeWithData(nil)
			n1 := merkledag.NodeWithData(nil)
			if err := n1.AddRawLink(nm, &ipld.Link{Cid: cc, Size: ts}); err == nil {
				if want := len(n1.RawData()) - len(n0.RawData()); got != want {
					o.Fail("linksize", "linkSerializedSize=%d, the link adds %d bytes", got, want)
				}
			}
			o.Kind("lsize")
			o.Emit("%d", got)
		case "dsize":
			md, t := os.FileMode(uint32(u64(f[1]))), parseTime(f[2], f[3])
			got := uio.VerifDataFieldSerializedSize(md, t)
			if want := len(merkledag.NodeWithData(unixfs.FolderPBDataWithStat(md, t)).RawData()); got != want {
				o.Fail("datafieldsize", "dataFieldSerializedSize(%v,%v)=%d, serialized Data field is %d bytes", md, t, got, want)
			}
			o.Kind("dsize")
			o.Emit("%d", got)
		case "newdir":
			md, t := os.FileMode(uint32(u64(f[1]))), parseTime(f[2], f[3])
			d, err := uio.NewBasicDirectory(nil, uio.WithSizeEstimationMode(uio.SizeEstimationBlock), uio.WithStat(md, t))
			if err != nil {
				panic(err)
			}
			*s = st{d: d, zeroPerm: md != 0 && uint32(md)&0x00D001FF == 0, est: uio.SizeEstimationBlock}
			if md != 0 {
				o.Kind("dir-mode")
			}
			if s.zeroPerm {
				o.Kind("dir-mode-typebits-only")
			}
			if !t.IsZero() {
				o.Kind("dir-mtime")
				if t.Unix() < 0 {
					o.Kind("dir-mtime-negative")
				}
			}
			s.answer(o, "ok")
		case "newdirm":
			em := map[string]uio.SizeEstimationMode{"L": uio.SizeEstimationLinks, "B": uio.SizeEstimationBlock, "D": uio.SizeEstimationDisabled}[f[1]]
			md, t := os.FileMode(uint32(u64(f[2]))), parseTime(f[3], f[4])
			d, err := uio.NewBasicDirectory(nil, uio.WithSizeEstimationMode(em), uio.WithStat(md, t))
			if err != nil {
				panic(err)
			}
			*s = st{d: d, zeroPerm: md != 0 && uint32(md)&0x00D001FF == 0, est: em}
			o.Kind("estmode-" + f[1])
			s.answer(o, "ok")
		case "setest":
			em := map[string]uio.SizeEstimationMode{"L": uio.SizeEstimationLinks, "B": uio.SizeEstimationBlock, "D": uio.SizeEstimationDisabled}[f[1]]
			s.d.SetSizeEstimationMode(em)
			s.est = em
			o.Kind("setest")
			s.answer(o, "ok")
		case "setmaxlinks":
			s.maxLinks = vh.Atoi(f[1])
			s.d.SetMaxLinks(s.maxLinks)
			if s.d.GetMaxLinks() != s.maxLinks {
				o.Fail("maxlinks-accessor", "GetMaxLinks()=%d after SetMaxLinks(%d)", s.d.GetMaxLinks(), s.maxLinks)
			}
			o.Kind("setmaxlinks")
			s.answer(o, "ok")
		case "add":
			nm, cc, ts := string(vh.UnHex(f[1])), parseCid(f[2]), u64(f[3])
			nd0, _ := s.d.GetNode()
			_, lerr := nd0.(*merkledag.ProtoNode).GetNodeLink(nm)
			full := lerr != nil && s.maxLinks > 0 && len(nd0.Links())+1 > s.maxLinks
			err := s.d.AddChild(ctx, nm, &stub{cc, ts})
			s.edits++
			if err == nil && full {
				o.Fail("maxlinks-exceeded", "AddChild of a new name succeeded with %d links and maxLinks=%d", len(nd0.Links()), s.maxLinks)
			}
			if err != nil && full {
				o.Kind("add-maxlinks")
				s.answer(o, "err")
				break
			}
			if err != nil {
				if ts <= math.MaxInt64 {
					o.Fail("add-rejected", "AddChild failed: %v", err)
				}
				o.Kind("add-rejected")
				s.answer(o, "err")
			} else {
				s.answer(o, "ok")
			}
		case "rm":
			err := s.d.RemoveChild(ctx, string(vh.UnHex(f[1])))
			s.edits++
			switch {
			case err == nil:
				o.Kind("rm-found")
				s.answer(o, "ok")
			case errors.Is(err, os.ErrNotExist):
				s.answer(o, "notfound")
			default:
				s.answer(o, "err")
			}
		case "reload":
			nd, _ := s.d.GetNode()
			s.d = uio.NewBasicDirectoryFromNode(nil, nd.Copy().(*merkledag.ProtoNode))
			s.reloaded, s.statDrift = true, false
			s.est, s.maxLinks = uio.SizeEstimationBlock, 0
			o.Kind("reload")
			s.answer(o, "ok")
		case "setstat":
			md, t := os.FileMode(uint32(u64(f[1]))), parseTime(f[2], f[3])
			s.d.SetStat(md, t)
			if md != 0 || !t.IsZero() {
				s.statDrift = true
			}
			o.Kind("setstat")
			s.answer(o, "ok")
		case "remode":
			s.d.SetSizeEstimationMode(uio.SizeEstimationLinks)
			s.d.SetSizeEstimationMode(uio.SizeEstimationBlock)
			s.est = uio.SizeEstimationBlock
			o.Kind("remode")
			s.answer(o, "ok")
		case "stat":
			s.answer(o, "ok")
		case "dynnew":
			md, t := os.FileMode(uint32(u64(f[2]))), parseTime(f[3], f[4])
			s.dynLinks = len(f) > 5 && f[5] == "L"
			em := uio.SizeEstimationBlock
			if s.dynLinks {
				em = uio.SizeEstimationLinks
				o.Kind("dyn-links-mode")
			}
			d, err := uio.NewDirectory(mdtest.Mock(), uio.WithSizeEstimationMode(em), uio.WithStat(md, t))
			if err != nil {
				panic(err)
			}
			s.dynThr = vh.Atoi(f[1])
			d.SetHAMTShardingSize(s.dynThr)
			s.dyn = d
			o.Kind("dyn")
			o.Emit("ok")
		case "dynfit":
			if s.dyn != nil {
				if nd, err := s.dyn.GetNode(); err == nil {
					s.dynThr = len(nd.RawData()) + vh.Atoi(f[1])
					if s.dynLinks {
						s.dynThr = legacySize(nd) + vh.Atoi(f[1])
					}
					if s.dynThr == 0 {
						s.dynThr = 1 // 0 means "use the global threshold"
					}
					s.dyn.SetHAMTShardingSize(s.dynThr)
					o.Kind("dyn-fit")
				}
			}
			o.Emit("ok")
		case "dynadd", "dynrm":
			if s.dyn != nil {
				nm := string(vh.UnHex(f[1]))
				if f[0] == "dynrm" {
					_ = s.dyn.RemoveChild(ctx, nm)
				} else if err := s.dyn.AddChild(ctx, nm, &stub{parseCid(f[2]), u64(f[3])}); err != nil {
					o.Kind("dyn-add-error") // HAMT-side refusal (not this property): stop following the directory
					s.dyn = nil
					o.Emit("ok")
					break
				}
				nd, err := s.dyn.GetNode()
				if err != nil {
					s.dyn = nil // sharded and not serializable with stub children: stop following it
				} else if fsn, err := unixfs.FSNodeFromBytes(nd.(*merkledag.ProtoNode).Data()); err != nil || fsn.Type() != unixfs.TDirectory {
					o.Kind("dyn-sharded")
					s.dyn = nil
				} else if got := legacySize(nd); f[0] == "dynadd" && s.dynLinks && got > s.dynThr {
					o.Fail("basic-links-estimate-over-threshold", "links mode: after AddChild the directory is still basic with name+CID bytes %d, threshold %d", got, s.dynThr)
				} else if got := len(nd.RawData()); f[0] == "dynadd" && !s.dynLinks && got > s.dynThr {
					// the decision must have been taken on the exact size of this block
					o.Fail("basic-block-over-threshold", "after AddChild the directory is still one block of %d bytes, sharding threshold %d", got, s.dynThr)
				} else {
					s.edits++
					if s.edits >= 3 && len(nd.Links()) >= 2 {
						o.Nontrivial()
					}
				}
			}
			o.Emit("ok")
		default:
			o.Emit("bad-op")
		}
	}
}

func main() { vh.Main(vh.Config{Gen: gen, Exec: exec}) }
