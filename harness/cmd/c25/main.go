// C25 harness: real IPNS records (Ed25519 / secp256k1 / ECDSA / RSA) and a mutation engine, validated
// by the real ipns.ValidateWithName / Validator.Validate / accessors. The generator decodes every
// mutated value with protobuf-go, go-ipld-prime and libp2p directly (never with boxo/ipns) and puts the
// decoded fields and the crypto verdicts on the op line: they are the parameters of the Lean model.
package main

import (
	"bytes"
	"crypto/rand"
	"errors"
	"fmt"
	"math/big"
	"sort"
	"strconv"
	"strings"
	"time"

	"github.com/ipfs/boxo/ipns"
	ipns_pb "github.com/ipfs/boxo/ipns/pb"
	"github.com/ipfs/boxo/path"
	"github.com/ipfs/go-cid"
	"github.com/ipld/go-ipld-prime/codec/dagcbor"
	"github.com/ipld/go-ipld-prime/datamodel"
	"github.com/ipld/go-ipld-prime/fluent/qp"
	basicnode "github.com/ipld/go-ipld-prime/node/basic"
	ic "github.com/libp2p/go-libp2p/core/crypto"
	"github.com/libp2p/go-libp2p/core/peer"
	"google.golang.org/protobuf/encoding/protowire"
	"google.golang.org/protobuf/proto"

	"verifharness/vh"
)

// ---------------------------------------------------------------- keys (cached per process)

type keyInfo struct {
	sk   ic.PrivKey
	typ  string
	name ipns.Name
}

var keyCache []keyInfo

func allKeys() []keyInfo {
	if keyCache != nil {
		return keyCache
	}
	mk := func(typ string, t, bits int, n int) {
		for i := 0; i < n; i++ {
			sk, _, err := ic.GenerateKeyPairWithReader(t, bits, rand.Reader)
			if err != nil {
				panic(err)
			}
			pid, _ := peer.IDFromPrivateKey(sk)
			keyCache = append(keyCache, keyInfo{sk, typ, ipns.NameFromPeer(pid)})
		}
	}
	mk("ed25519", ic.Ed25519, 0, 3)
	mk("secp256k1", ic.Secp256k1, 0, 2)
	mk("ecdsa", ic.ECDSA, 0, 2)
	mk("rsa", ic.RSA, 2048, 2) // slow: two keys per generator run
	return keyCache
}

// ---------------------------------------------------------------- decoding for the op line

func eolNs(t time.Time) string {
	x := new(big.Int).Mul(big.NewInt(t.Unix()), big.NewInt(1_000_000_000))
	x.Add(x, big.NewInt(int64(t.Nanosecond())))
	return x.String()
}

func decodeCBOR(data []byte) (datamodel.Node, bool) {
	b := basicnode.Prototype__Map{}.NewBuilder()
	if err := dagcbor.Decode(b, bytes.NewReader(data)); err != nil {
		return nil, false
	}
	return b.Build(), true
}

func cborField(nd datamodel.Node) string {
	var es []string
	it := nd.MapIterator()
	for !it.Done() {
		k, v, err := it.Next()
		if err != nil {
			return "bad"
		}
		ks, _ := k.AsString()
		e := fmt.Sprintf("%x:", ks)
		switch v.Kind() {
		case datamodel.Kind_Bytes:
			b, _ := v.AsBytes()
			e += "b:" + vh.Hex(b)
		case datamodel.Kind_Int:
			i, err := v.AsInt()
			if err != nil {
				e += "o:" // uint64 beyond int64: AsInt fails
			} else {
				e += "i:" + strconv.FormatInt(i, 10)
			}
		case datamodel.Kind_String:
			s, _ := v.AsString()
			e += "s:" + fmt.Sprintf("%x", s)
		case datamodel.Kind_Bool:
			t, _ := v.AsBool()
			if t {
				e += "t:1"
			} else {
				e += "t:0"
			}
		default:
			e += "o:"
		}
		es = append(es, e)
	}
	if len(es) == 0 {
		return "-"
	}
	return strings.Join(es, ";")
}

func lookupBytes(nd datamodel.Node, k string) ([]byte, bool) {
	v, err := nd.LookupByString(k)
	if err != nil {
		return nil, false
	}
	b, err := v.AsBytes()
	return b, err == nil
}

func lookupInt(nd datamodel.Node, k string) (int64, bool) {
	v, err := nd.LookupByString(k)
	if err != nil {
		return 0, false
	}
	i, err := v.AsInt()
	return i, err == nil
}

// valuePath mirrors what a reader of the signed Value bytes gets: a content path.
func valuePath(b []byte) string {
	if len(b) == 0 {
		b = []byte("/ipfs/bafkqaaa")
	}
	if b[0] == '/' {
		p, err := path.NewPath(string(b))
		if err != nil {
			return "bad"
		}
		return p.String()
	}
	c, err := cid.Cast(b)
	if err != nil {
		return "bad"
	}
	return path.FromCid(c).String()
}

// describe builds the op line for one (value, name) pair.
func describe(raw []byte, rk []byte, mut, expect string, now time.Time) string {
	f := []string{"val"}
	add := func(k, v string) { f = append(f, k+"="+v) }
	name, nameErr := ipns.NameFromRoutingKey(rk)
	if nameErr != nil {
		add("name", "-")
	} else {
		add("name", fmt.Sprintf("%x", name.Peer()))
	}
	add("rawlen", strconv.Itoa(len(raw)))
	var pb ipns_pb.IpnsRecord
	if err := proto.Unmarshal(raw, &pb); err != nil {
		add("pb", "bad")
	} else {
		add("pb", "ok")
		add("size", strconv.Itoa(proto.Size(&pb)))
		add("v", vh.Hex(pb.GetValue()))
		add("s1", vh.Hex(pb.GetSignatureV1()))
		add("vt", strconv.Itoa(int(pb.GetValidityType())))
		add("vy", vh.Hex(pb.GetValidity()))
		add("seq", strconv.FormatUint(pb.GetSequence(), 10))
		add("ttl", strconv.FormatUint(pb.GetTtl(), 10))
		add("pk", vh.Hex(pb.GetPubKey()))
		add("s2", vh.Hex(pb.GetSignatureV2()))
		add("data", vh.Hex(pb.GetData()))
		nd, ok := decodeCBOR(pb.GetData())
		if !ok {
			add("cbor", "bad")
			add("eol", "-")
			add("path", "-")
		} else {
			add("cbor", cborField(nd))
			eol := "-"
			if b, ok := lookupBytes(nd, "Validity"); ok {
				if t, err := time.Parse(time.RFC3339Nano, string(b)); err == nil {
					eol = eolNs(t)
				} else {
					eol = "bad"
				}
			}
			add("eol", eol)
			p := "-"
			if b, ok := lookupBytes(nd, "Value"); ok {
				p = valuePath(b)
			}
			add("path", hexOrTag(p))
		}
		// crypto oracles: exactly the queries ExtractPublicKey / Validate can make
		var key ic.PubKey
		pkparse, nameof, inline := "-", "-", "-"
		if len(pb.GetPubKey()) != 0 {
			k, err := ic.UnmarshalPublicKey(pb.GetPubKey())
			if err != nil {
				pkparse = "bad"
			} else {
				pkparse = "ok"
				pid, err := peer.IDFromPublicKey(k)
				if err == nil && nameErr == nil && pid == name.Peer() {
					nameof = "same"
					key = k
				} else {
					nameof = "other"
				}
			}
		} else if nameErr == nil {
			k, err := name.Peer().ExtractPublicKey()
			if err == nil {
				inline = "ok"
				key = k
			} else {
				inline = "none"
			}
		}
		add("pkparse", pkparse)
		add("nameof", nameof)
		add("inline", inline)
		ver := "-"
		if key != nil {
			ok, err := key.Verify(append([]byte("ipns-signature:"), pb.GetData()...), pb.GetSignatureV2())
			if ok && err == nil {
				ver = "1"
			} else {
				ver = "0"
			}
		}
		add("ver", ver)
		// a key book that already knows the key of the name (Validator{KeyBook: kb})
		bookver := "-"
		if nameErr == nil {
			for _, k := range allKeys() {
				if k.name.Equal(name) {
					pkb, _ := ic.MarshalPublicKey(k.sk.GetPublic())
					add("bookkey", vh.Hex(pkb))
					ok, err := k.sk.GetPublic().Verify(append([]byte("ipns-signature:"), pb.GetData()...), pb.GetSignatureV2())
					if ok && err == nil {
						bookver = "1"
					} else {
						bookver = "0"
					}
				}
			}
		}
		add("bookver", bookver)
	}
	add("now", eolNs(now))
	add("mut", mut)
	add("expect", expect)
	add("rk", vh.Hex(rk))
	add("raw", vh.Hex(raw))
	return strings.Join(f, " ")
}

// ---------------------------------------------------------------- generator

var values = []string{
	"/ipfs/bafkqaaa",
	"/ipfs/bafybeigdyrzt5sfp7udm7hu76uh7y26nf3efuylqabf3oclgtqy55fbzdi",
	"/ipfs/bafybeigdyrzt5sfp7udm7hu76uh7y26nf3efuylqabf3oclgtqy55fbzdi/a/b",
	"/ipns/k51qzi5uqu5dlvj2baxnqndepeb86cbk3ng7n3i46uzyxzyqj2xjonzllnv0v8",
}

type base struct {
	k    keyInfo
	raw  []byte
	pb   *ipns_pb.IpnsRecord
	v1   bool
	past bool
}

func mkBase(r *vh.Rand, now time.Time) base {
	ks := allKeys()
	k := ks[r.Intn(len(ks))]
	val, _ := path.NewPath(vh.Pick(r, values))
	seq := vh.Pick(r, []uint64{0, 1, 7, 1<<63 - 1, 1 << 63, 1<<64 - 1})
	eol := now.Add(time.Duration(1+r.Intn(1000)) * time.Hour).Add(time.Duration(r.Intn(1_000_000_000)))
	past := r.Chance(1, 12)
	if past {
		eol = now.Add(-time.Duration(1+r.Intn(1000)) * time.Hour)
	}
	ttl := vh.Pick(r, []time.Duration{0, time.Nanosecond, time.Minute, 5 * time.Minute, 1<<62 - 1})
	v1 := r.Chance(2, 3)
	opts := []ipns.Option{ipns.WithV1Compatibility(v1)}
	if r.Chance(1, 4) {
		// an RSA/ECDSA record without embedded key cannot be validated by name alone (nokey): only
		// force the key out for key types that are inlined in the name
		embed := r.Bool() || k.typ == "rsa" || k.typ == "ecdsa"
		opts = append(opts, ipns.WithPublicKey(embed))
	}
	if r.Chance(1, 5) {
		opts = append(opts, ipns.WithMetadata(map[string]any{"_a": "x", "_bb": []byte{1, 2}, "_c": int64(-3), "_d": true}))
	}
	rec, err := ipns.NewRecord(k.sk, val, seq, eol, ttl, opts...)
	if err != nil {
		panic(err)
	}
	raw, err := ipns.MarshalRecord(rec)
	if err != nil {
		panic(err)
	}
	var pb ipns_pb.IpnsRecord
	if err := proto.Unmarshal(raw, &pb); err != nil {
		panic(err)
	}
	return base{k: k, raw: raw, pb: &pb, v1: v1, past: past}
}

// signedCustom builds a V2-only record over hand-made CBOR entries (properly signed).
func signedCustom(k keyInfo, entries func(ma datamodel.MapAssembler)) []byte {
	nd, err := qp.BuildMap(basicnode.Prototype.Map, -1, entries)
	if err != nil {
		panic(err)
	}
	var buf bytes.Buffer
	if err := dagcbor.Encode(nd, &buf); err != nil {
		panic(err)
	}
	sig, err := k.sk.Sign(append([]byte("ipns-signature:"), buf.Bytes()...))
	if err != nil {
		panic(err)
	}
	pb := ipns_pb.IpnsRecord{Data: buf.Bytes(), SignatureV2: sig}
	if _, err := peer.IDFromPrivateKey(k.sk); err == nil && k.typ != "ed25519" && k.typ != "secp256k1" {
		pb.PubKey, _ = ic.MarshalPublicKey(k.sk.GetPublic())
	}
	raw, _ := proto.Marshal(&pb)
	return raw
}

// deleteField re-emits a protobuf message without any occurrence of field number k (wire level: no
// value is changed, the field is simply absent afterwards).
func deleteField(raw []byte, k protowire.Number) ([]byte, bool) {
	var out []byte
	found := false
	for len(raw) > 0 {
		num, typ, n := protowire.ConsumeTag(raw)
		if n < 0 {
			return nil, false
		}
		m := protowire.ConsumeFieldValue(num, typ, raw[n:])
		if m < 0 {
			return nil, false
		}
		if num == k {
			found = true
		} else {
			out = append(out, raw[:n+m]...)
		}
		raw = raw[n+m:]
	}
	return out, found
}

func flip(r *vh.Rand, b []byte) []byte {
	c := append([]byte(nil), b...)
	if len(c) == 0 {
		return []byte{1}
	}
	c[r.Intn(len(c))] ^= byte(1 << r.Intn(8))
	return c
}

func marshal(pb *ipns_pb.IpnsRecord) []byte {
	raw, err := proto.Marshal(pb)
	if err != nil {
		panic(err)
	}
	return raw
}

// mutate returns the mutated value, the routing key to validate against, the mutation name and what
// the property text demands: ok | fail | any.
func mutate(r *vh.Rand, b base, now time.Time) (raw, rk []byte, mut, expect string) {
	rk = b.k.name.RoutingKey()
	pb := proto.Clone(b.pb).(*ipns_pb.IpnsRecord)
	okExpect := "ok"
	if b.past {
		okExpect = "fail"
	}
	hasLegacy := b.v1
	legacy := func(name string, f func()) ([]byte, []byte, string, string) {
		f()
		if hasLegacy {
			return marshal(pb), rk, "legacy-" + name, "fail"
		}
		return marshal(pb), rk, "legacy-v2only-" + name, "fail"
	}
	k0 := r.Intn(50)
	if k0 >= 46 {
		k0 = 19
	}
	switch k := k0; k {
	case 0, 1, 2, 3, 4:
		return b.raw, rk, "none", okExpect
	case 5:
		return legacy("sequence", func() { s := pb.GetSequence() + 1 + uint64(r.Intn(5)); pb.Sequence = &s })
	case 6:
		return legacy("ttl", func() { s := pb.GetTtl() + 1 + uint64(r.Intn(5)); pb.Ttl = &s })
	case 7:
		return legacy("validity", func() {
			if len(pb.Validity) == 0 {
				pb.Validity = []byte("2031-01-01T00:00:00Z")
			} else {
				pb.Validity = flip(r, pb.Validity)
			}
		})
	case 8:
		return legacy("validitytype", func() { t := ipns_pb.IpnsRecord_ValidityType(1 + r.Intn(3)); pb.ValidityType = &t })
	case 9:
		if !hasLegacy { // setting Value on a V2-only record switches the check on: must fail
			pb.Value = []byte("/ipfs/bafkqaaa/forged")
			return marshal(pb), rk, "legacy-value-set", "fail"
		}
		return legacy("value", func() { pb.Value = flip(r, pb.Value) })
	case 10:
		if hasLegacy { // strip Value and SignatureV1, then forge the sequence: the check is switched off
			pb.Value, pb.SignatureV1 = nil, nil
			s := pb.GetSequence() + 1
			pb.Sequence = &s
			return marshal(pb), rk, "legacy-stripped-sequence", "fail"
		}
		return b.raw, rk, "none", okExpect
	case 11:
		pb.SignatureV1 = flip(r, pb.SignatureV1)
		return marshal(pb), rk, "sigv1-changed", "any"
	case 40, 41, 42, 43, 44, 45:
		// one protobuf field deleted at the wire level (fields 1..9). For a legacy reader an absent field
		// is the zero value: the record must be rejected when that disagrees with the signed data.
		fn := protowire.Number(1 + r.Intn(9))
		out, found := deleteField(b.raw, fn)
		if !found {
			return b.raw, rk, "none", okExpect
		}
		exp := "any"
		nd, _ := decodeCBOR(pb.Data)
		sseq, _ := lookupInt(nd, "Sequence")
		sttl, _ := lookupInt(nd, "TTL")
		stillLegacy := (fn != 1 && len(pb.Value) != 0) || (fn != 2 && len(pb.SignatureV1) != 0)
		switch fn {
		case 1, 4:
			if stillLegacy {
				exp = "fail"
			}
		case 5:
			if stillLegacy && sseq != 0 {
				exp = "fail"
			}
		case 6:
			if stillLegacy && sttl != 0 {
				exp = "fail"
			}
		case 8, 9:
			exp = "fail"
		}
		return out, rk, fmt.Sprintf("delete-field-%d", fn), exp
	case 12:
		pb.Data = flip(r, pb.Data)
		return marshal(pb), rk, "data-flip", "fail"
	case 13:
		o := mkBase(r, now)
		pb.Data = o.pb.Data
		return marshal(pb), rk, "data-swap", "fail"
	case 14:
		pb.Data = pb.Data[:r.Intn(len(pb.Data))]
		return marshal(pb), rk, "data-truncated", "fail"
	case 15:
		pb.SignatureV2 = flip(r, pb.SignatureV2)
		return marshal(pb), rk, "sigv2-flip", "fail"
	case 16:
		o := mkBase(r, now)
		pb.SignatureV2 = o.pb.SignatureV2
		return marshal(pb), rk, "sigv2-swap", "fail"
	case 17:
		if r.Bool() {
			pb.SignatureV2 = nil
		} else {
			pb.SignatureV2 = []byte{}
		}
		return marshal(pb), rk, "sigv2-empty", "fail"
	case 18:
		o := mkBase(r, now)
		for o.k.name.Equal(b.k.name) {
			o = mkBase(r, now)
		}
		pb.PubKey, _ = ic.MarshalPublicKey(o.k.sk.GetPublic())
		return marshal(pb), rk, "pubkey-other", "fail"
	case 19:
		// the embedded key made unparsable: truncated, protobuf tag byte or key-type byte flipped, garbage
		// (a key is embedded first when the record has none: Ed25519/secp256k1 WithPublicKey(true))
		if len(pb.PubKey) == 0 {
			pb.PubKey, _ = ic.MarshalPublicKey(b.k.sk.GetPublic())
		}
		kb := append([]byte(nil), pb.PubKey...)
		kind := r.Intn(4)
		switch kind {
		case 0:
			kb = kb[:1+r.Intn(len(kb)-1)]
		case 1:
			kb[0] ^= byte(1 << r.Intn(8))
		case 2:
			kb[1] ^= byte(1 << r.Intn(8)) // the KeyType enum value
		default:
			kb = r.Bytes(1 + r.Intn(40))
		}
		pb.PubKey = kb
		exp := "fail"
		if k2, err := ic.UnmarshalPublicKey(kb); err == nil { // the damage happens to leave a parsable key
			if pid, err := peer.IDFromPublicKey(k2); err == nil && b.k.name.Equal(ipns.NameFromPeer(pid)) {
				exp = "any"
			}
		}
		return marshal(pb), rk, []string{"pubkey-truncated", "pubkey-tagflip", "pubkey-typeflip", "pubkey-garbage"}[kind], exp
	case 20:
		if len(pb.PubKey) != 0 {
			pb.PubKey = nil
			return marshal(pb), rk, "pubkey-removed", "any"
		}
		pb.PubKey, _ = ic.MarshalPublicKey(b.k.sk.GetPublic())
		return marshal(pb), rk, "pubkey-added", "any"
	case 21:
		o := mkBase(r, now)
		for o.k.name.Equal(b.k.name) {
			o = mkBase(r, now)
		}
		return b.raw, o.k.name.RoutingKey(), "other-name", "fail"
	case 22:
		// whole record of another key presented under this name
		o := mkBase(r, now)
		for o.k.name.Equal(b.k.name) {
			o = mkBase(r, now)
		}
		return o.raw, rk, "other-record", "fail"
	case 23:
		raw := append(append([]byte(nil), b.raw...), protowire.AppendVarint(protowire.AppendTag(nil, 15, protowire.VarintType), uint64(r.Intn(1000)))...)
		return raw, rk, "unknown-field", "any"
	case 24:
		// duplicate field: a second data field (last one wins)
		o := mkBase(r, now)
		raw := append(append([]byte(nil), b.raw...), protowire.AppendBytes(protowire.AppendTag(nil, 9, protowire.BytesType), o.pb.Data)...)
		return raw, rk, "dup-data", "fail"
	case 25:
		// duplicate of the same data field: identical content, still valid
		raw := append(append([]byte(nil), b.raw...), protowire.AppendBytes(protowire.AppendTag(nil, 9, protowire.BytesType), b.pb.Data)...)
		return raw, rk, "dup-same-data", "any"
	case 26:
		pad := protowire.AppendBytes(protowire.AppendTag(nil, 20, protowire.BytesType), make([]byte, 10241))
		return append(append([]byte(nil), b.raw...), pad...), rk, "oversize", "fail"
	case 27:
		return flip(r, b.raw), rk, "raw-flip", "any"
	case 28:
		return b.raw[:r.Intn(len(b.raw))], rk, "raw-truncated", "any"
	case 29:
		return b.raw, append([]byte("/ipns/"), r.Bytes(1+r.Intn(8))...), "bad-routing-key", "fail"
	case 30:
		// re-encoded CBOR with reordered keys (same content, different bytes): signature no longer matches
		nd, ok := decodeCBOR(pb.Data)
		if !ok {
			return b.raw, rk, "none", okExpect
		}
		var keys []string
		it := nd.MapIterator()
		for !it.Done() {
			k, _, _ := it.Next()
			s, _ := k.AsString()
			keys = append(keys, s)
		}
		sort.Sort(sort.Reverse(sort.StringSlice(keys)))
		// hand-encode (dagcbor.Encode would sort the keys back into canonical order)
		hdr := func(major byte, n uint64) []byte {
			switch {
			case n < 24:
				return []byte{major<<5 | byte(n)}
			case n < 1<<8:
				return []byte{major<<5 | 24, byte(n)}
			case n < 1<<16:
				return []byte{major<<5 | 25, byte(n >> 8), byte(n)}
			case n < 1<<32:
				return []byte{major<<5 | 26, byte(n >> 24), byte(n >> 16), byte(n >> 8), byte(n)}
			default:
				return []byte{major<<5 | 27, byte(n >> 56), byte(n >> 48), byte(n >> 40), byte(n >> 32), byte(n >> 24), byte(n >> 16), byte(n >> 8), byte(n)}
			}
		}
		enc := hdr(5, uint64(len(keys)))
		for _, k := range keys {
			enc = append(append(enc, hdr(3, uint64(len(k)))...), k...)
			v, _ := nd.LookupByString(k)
			switch v.Kind() {
			case datamodel.Kind_Bytes:
				bs, _ := v.AsBytes()
				enc = append(append(enc, hdr(2, uint64(len(bs)))...), bs...)
			case datamodel.Kind_String:
				st, _ := v.AsString()
				enc = append(append(enc, hdr(3, uint64(len(st)))...), st...)
			case datamodel.Kind_Bool:
				if t, _ := v.AsBool(); t {
					enc = append(enc, 0xf5)
				} else {
					enc = append(enc, 0xf4)
				}
			default:
				i, _ := v.AsInt()
				if i >= 0 {
					enc = append(enc, hdr(0, uint64(i))...)
				} else {
					enc = append(enc, hdr(1, uint64(-1-i))...)
				}
			}
		}
		if bytes.Equal(enc, pb.Data) {
			return b.raw, rk, "none", okExpect
		}
		pb.Data = enc
		return marshal(pb), rk, "cbor-reordered", "fail"
	default:
		// hand-made, properly signed CBOR documents (V2-only)
		kind := r.Intn(9)
		eol := now.Add(time.Hour).UTC().Format(time.RFC3339Nano)
		raw := signedCustom(b.k, func(ma datamodel.MapAssembler) {
			if kind != 0 {
				qp.MapEntry(ma, "Value", qp.Bytes([]byte(vh.Pick(r, values))))
			}
			switch kind {
			case 1:
			case 2:
				qp.MapEntry(ma, "Validity", qp.Bytes([]byte("not a time")))
			default:
				qp.MapEntry(ma, "Validity", qp.Bytes([]byte(eol)))
			}
			switch kind {
			case 3:
				qp.MapEntry(ma, "ValidityType", qp.Int(1))
			case 4:
			default:
				qp.MapEntry(ma, "ValidityType", qp.Int(0))
			}
			if kind != 5 {
				qp.MapEntry(ma, "Sequence", qp.Int(int64(r.Intn(9))))
			}
			switch kind {
			case 6:
				qp.MapEntry(ma, "TTL", qp.Int(-int64(1+r.Intn(1000))))
			case 7:
			default:
				qp.MapEntry(ma, "TTL", qp.Int(int64(r.Intn(1000))))
			}
			if kind == 8 {
				qp.MapEntry(ma, "Value2", qp.String("x"))
			}
		})
		names := []string{"custom-novalue", "custom-novalidity", "custom-badvalidity", "custom-validitytype1", "custom-novaliditytype",
			"custom-nosequence", "custom-negttl", "custom-nottl", "custom-extra"}
		exp := "any"
		switch kind {
		case 1, 2, 3, 4, 6:
			exp = "fail"
		}
		return raw, rk, names[kind], exp
	}
}

// objRecord builds, from explicit parameters only (Ed25519 signatures are deterministic), the in-memory
// record of an `obj` op: Validate is called on the object itself, never on bytes, so that its own
// proto.Size check (unreachable through UnmarshalRecord, which rejects oversize input first) runs.
func objRecord(skHex string, vlen int, seq uint64, eol time.Time, v1 bool) (*ipns.Record, ipns.Name, int) {
	sk, err := ic.UnmarshalPrivateKey(vh.UnHex(skHex))
	if err != nil {
		panic(err)
	}
	pid, _ := peer.IDFromPrivateKey(sk)
	val, err := path.NewPath("/ipfs/bafkqaaa/" + strings.Repeat("a", vlen))
	if err != nil {
		panic(err)
	}
	rec, err := ipns.NewRecord(sk, val, seq, eol, time.Minute, ipns.WithV1Compatibility(v1))
	if err != nil {
		panic(err)
	}
	raw, err := ipns.MarshalRecord(rec)
	if err != nil {
		panic(err)
	}
	return rec, ipns.NameFromPeer(pid), len(raw) // proto.Marshal output length = proto.Size
}

func gen(r *vh.Rand, tier string, n int, emit func(vh.Case)) {
	r = vh.NewRand(r.U64())
	now := time.Now()
	for i := 0; i < n; i++ {
		cr := r.Fork()
		c := vh.Case{ID: strconv.Itoa(i)}
		if cr.Chance(1, 6) {
			k := allKeys()[cr.Intn(3)] // the Ed25519 keys
			skb, _ := ic.MarshalPrivateKey(k.sk)
			v1 := cr.Bool()
			// value lengths around the point where the message crosses MaxRecordSize
			vlen := vh.Pick(cr, []int{10, 4000, 9000, 9990, 10050, 10090, 12000})
			if v1 {
				vlen = vh.Pick(cr, []int{10, 2000, 4950, 4990, 5020, 5060, 8000})
			}
			vlen += cr.Intn(40)
			seq := uint64(cr.Intn(3))
			eol := now.Add(time.Hour).Truncate(time.Second)
			_, _, size := objRecord(fmt.Sprintf("%x", skb), vlen, seq, eol, v1)
			c.Ops = append(c.Ops, fmt.Sprintf("obj size=%d vlen=%d seq=%d eol=%s now=%s v1=%v sk=%x", size, vlen, seq, eolNs(eol), eolNs(now), v1, skb))
		}
		for j, m := 0, 1+cr.Intn(4); j < m; j++ {
			b := mkBase(cr, now)
			raw, rk, mut, expect := mutate(cr, b, now)
			c.Ops = append(c.Ops, describe(raw, rk, mut, expect, now))
		}
		emit(c)
	}
}

// ---------------------------------------------------------------- exec

// kbook is a minimal peerstore.KeyBook
type kbook map[peer.ID]ic.PubKey

func (k kbook) PubKey(p peer.ID) ic.PubKey            { return k[p] }
func (k kbook) AddPubKey(p peer.ID, pk ic.PubKey) error { k[p] = pk; return nil }
func (k kbook) PrivKey(peer.ID) ic.PrivKey            { return nil }
func (k kbook) AddPrivKey(peer.ID, ic.PrivKey) error  { return nil }
func (k kbook) PeersWithKeys() peer.IDSlice           { return nil }
func (k kbook) RemovePeer(p peer.ID)                  { delete(k, p) }

func class(err error) string {
	switch {
	case err == nil:
		return "ok"
	case errors.Is(err, ipns.ErrRecordSize):
		return "size"
	case errors.Is(err, ipns.ErrSignature):
		return "sig"
	case errors.Is(err, ipns.ErrExpiredRecord):
		return "expired"
	case errors.Is(err, ipns.ErrUnrecognizedValidity):
		return "unrecvalidity"
	case errors.Is(err, ipns.ErrInvalidValidity):
		return "invalidvalidity"
	case errors.Is(err, ipns.ErrPublicKeyMismatch):
		return "keymismatch"
	case errors.Is(err, ipns.ErrInvalidPublicKey):
		return "badkey"
	case errors.Is(err, ipns.ErrPublicKeyNotFound), errors.Is(err, peer.ErrNoPublicKey):
		return "nokey"
	case errors.Is(err, ipns.ErrInvalidName):
		return "badname"
	case errors.Is(err, ipns.ErrInvalidPath):
		return "badpath"
	case errors.Is(err, ipns.ErrInvalidRecord):
		return "invalid"
	case strings.Contains(err.Error(), "did not match between protobuf and CBOR"):
		return "mismatch"
	default:
		return "other"
	}
}

func hexOrTag(p string) string {
	if p == "-" || p == "bad" {
		return p
	}
	return fmt.Sprintf("%x", p)
}

func kvOf(f []string, k string) string {
	for _, t := range f {
		if strings.HasPrefix(t, k+"=") {
			return t[len(k)+1:]
		}
	}
	return ""
}

func exec(c vh.Case, o *vh.Out) {
	for _, line := range c.Ops {
		f := strings.Fields(line)
		if f[0] == "obj" {
			eolI, _ := new(big.Int).SetString(kvOf(f, "eol"), 10)
			seq, _ := strconv.ParseUint(kvOf(f, "seq"), 10, 64)
			rec, name, size := objRecord(kvOf(f, "sk"), vh.Atoi(kvOf(f, "vlen")), seq, time.Unix(0, eolI.Int64()), kvOf(f, "v1") == "true")
			res := class(ipns.ValidateWithName(rec, name))
			if res == "ok" && size > ipns.MaxRecordSize {
				o.Fail("valid-but-oversize", "in-memory record of %d bytes validates", size)
			}
			if res == "ok" {
				o.Nontrivial()
			}
			o.Kind("obj-" + res)
			o.Emit("size=%d vwn=%s", size, res)
			continue
		}
		if f[0] != "val" {
			o.Emit("bad-op")
			continue
		}
		raw, rk := vh.UnHex(kvOf(f, "raw")), vh.UnHex(kvOf(f, "rk"))
		mut, expect := kvOf(f, "mut"), kvOf(f, "expect")
		o.Kind("mut-" + mut)
		vv := class(ipns.Validator{}.Validate(string(rk), raw))
		vve := class(ipns.Validator{KeyBook: kbook{}}.Validate(string(rk), raw))
		full := kbook{}
		if bk := kvOf(f, "bookkey"); bk != "" {
			if pk, err := ic.UnmarshalPublicKey(vh.UnHex(bk)); err == nil {
				if pid, err := peer.IDFromPublicKey(pk); err == nil {
					full[pid] = pk
				}
			}
		}
		vvk := class(ipns.Validator{KeyBook: full}.Validate(string(rk), raw))
		// self-consistency: a record that validates (in any configuration) has accessors that succeed,
		// PubKey() included when a key is embedded; and it is signed by the key of the name
		for cfgName, res := range map[string]string{"nil": vv, "empty": vve, "holds-key": vvk} {
			if res != "ok" {
				continue
			}
			if r0, err := ipns.UnmarshalRecord(raw); err == nil {
				var pb0 ipns_pb.IpnsRecord
				_ = proto.Unmarshal(raw, &pb0)
				if len(pb0.GetPubKey()) != 0 {
					if _, err := r0.PubKey(); err != nil {
						o.Fail("valid-with-unparsable-key", "Validator(%s key book) accepts a record whose PubKey() fails: %v (mutation %s)", cfgName, err, mut)
					}
				}
				if kvOf(f, "bookver") != "1" && kvOf(f, "ver") != "1" {
					o.Fail("valid-but-unsigned", "Validator(%s key book) accepts a record not signed by the name's key (mutation %s)", cfgName, mut)
				}
			}
		}
		rec, err := ipns.UnmarshalRecord(raw)
		if err != nil {
			o.Kind("unm-" + class(err))
			if expect == "ok" {
				o.Fail("valid-rejected", "mutation %s: library record does not unmarshal: %v", mut, err)
			}
			o.Emit("unm=%s vv=%s vve=%s vvk=%s", class(err), vv, vve, vvk)
			continue
		}
		name, nameErr := ipns.NameFromRoutingKey(rk)
		vwn := "-"
		if nameErr == nil {
			vwn = class(ipns.ValidateWithName(rec, name))
			// the two entry points must agree
			if vwn != vv {
				o.Fail("entry-points-differ", "ValidateWithName=%s Validator.Validate=%s", vwn, vv)
			}
		}
		o.Kind("vwn-" + vwn)
		acc := func(v any, err error) string {
			if err != nil {
				return class(err)
			}
			switch x := v.(type) {
			case time.Time:
				return eolNs(x)
			case time.Duration:
				return strconv.FormatInt(int64(x), 10)
			case ipns.ValidityType:
				return strconv.FormatInt(int64(x), 10)
			case uint64:
				return strconv.FormatUint(x, 10)
			case path.Path:
				return fmt.Sprintf("%x", x.String())
			}
			return fmt.Sprint(v)
		}
		seq, e1 := rec.Sequence()
		ttl, e2 := rec.TTL()
		vt, e3 := rec.ValidityType()
		eol, e4 := rec.Validity()
		val, e5 := rec.Value()
		// ---------------- monitors (the property's own predicate, independent of the model)
		var pb ipns_pb.IpnsRecord
		_ = proto.Unmarshal(raw, &pb)
		if vwn == "ok" {
			o.Nontrivial()
			// signed by the key of that name, not expired, within the size limit
			var key ic.PubKey
			if len(pb.GetPubKey()) != 0 {
				key, _ = ic.UnmarshalPublicKey(pb.GetPubKey())
			} else {
				key, _ = name.Peer().ExtractPublicKey()
			}
			good := false
			if key != nil {
				if pid, err := peer.IDFromPublicKey(key); err == nil && pid == name.Peer() {
					ok, err := key.Verify(append([]byte("ipns-signature:"), pb.GetData()...), pb.GetSignatureV2())
					good = ok && err == nil
				}
			}
			if !good {
				o.Fail("valid-but-unsigned", "mutation %s validates without a signature of the name's key over the data", mut)
			}
			if len(raw) > ipns.MaxRecordSize {
				o.Fail("valid-but-oversize", "len %d", len(raw))
			}
			nd, ok := decodeCBOR(pb.GetData())
			if !ok {
				o.Fail("valid-but-undecodable", "data does not decode")
			} else {
				// accessors report exactly what was signed
				if b, ok := lookupBytes(nd, "Validity"); ok {
					t, err := time.Parse(time.RFC3339Nano, string(b))
					if err != nil || e4 != nil || !t.Equal(eol) {
						o.Fail("accessor-not-signed", "Validity() = %v, signed %q", eol, b)
					}
					if err == nil && time.Now().After(t) {
						o.Fail("valid-but-expired", "eol %v", t)
					}
				} else {
					o.Fail("valid-but-expired", "no signed validity")
				}
				if i, ok := lookupInt(nd, "Sequence"); ok && (e1 != nil || seq != uint64(i)) {
					o.Fail("accessor-not-signed", "Sequence() = %d, signed %d", seq, i)
				}
				if i, ok := lookupInt(nd, "TTL"); ok && (e2 != nil || int64(ttl) != i) {
					o.Fail("accessor-not-signed", "TTL() = %d, signed %d", ttl, i)
				}
				if i, ok := lookupInt(nd, "ValidityType"); ok && (e3 != nil || int64(vt) != i) {
					o.Fail("accessor-not-signed", "ValidityType() = %d, signed %d", vt, i)
				}
				if b, ok := lookupBytes(nd, "Value"); ok {
					want := valuePath(b)
					if (e5 != nil) != (want == "bad") || (e5 == nil && val.String() != want) {
						o.Fail("accessor-not-signed", "Value() = %v, signed %q", val, b)
					}
				}
				// legacy fields that are present must agree with the signed data
				dis := ""
				legacyOn := len(pb.GetValue()) != 0 || len(pb.GetSignatureV1()) != 0
				// with Value or SignatureV1 present the record is a V1+V2 record: a legacy reader takes an
				// absent optional field as its zero value, which must then equal the signed value too
				if legacyOn || pb.Sequence != nil {
					if i, ok := lookupInt(nd, "Sequence"); !ok || pb.GetSequence() != uint64(i) {
						dis = "sequence"
					}
				}
				if legacyOn || pb.Ttl != nil {
					if i, ok := lookupInt(nd, "TTL"); !ok || pb.GetTtl() != uint64(i) {
						dis = "ttl"
					}
				}
				if legacyOn || pb.Validity != nil {
					if b, ok := lookupBytes(nd, "Validity"); !ok || !bytes.Equal(b, pb.GetValidity()) {
						dis = "validity"
					}
				}
				if legacyOn || pb.ValidityType != nil {
					if i, ok := lookupInt(nd, "ValidityType"); !ok || int64(pb.GetValidityType()) != i {
						dis = "validitytype"
					}
				}
				if legacyOn || pb.Value != nil {
					if b, ok := lookupBytes(nd, "Value"); !ok || !bytes.Equal(b, pb.GetValue()) {
						dis = "value"
					}
				}
				if dis != "" {
					if len(pb.GetValue()) == 0 && len(pb.GetSignatureV1()) == 0 {
						o.Fail("legacy-unchecked-v2only", "legacy field %s disagrees with the signed data, record has neither Value nor SignatureV1 (mutation %s)", dis, mut)
					} else {
						o.Fail("legacy-disagrees", "legacy field %s disagrees with the signed data (mutation %s)", dis, mut)
					}
				}
			}
			if expect == "fail" && !strings.HasPrefix(mut, "legacy-v2only-") && mut != "legacy-stripped-sequence" {
				o.Fail("tamper-accepted", "mutation %s passes validation", mut)
			}
		} else if expect == "ok" {
			o.Fail("valid-rejected", "untouched library record rejected: %s", vwn)
		}
		o.Emit("unm=ok vwn=%s vv=%s vve=%s vvk=%s seq=%s ttl=%s vt=%s eol=%s val=%s", vwn, vv, vve, vvk, acc(seq, e1), acc(ttl, e2), acc(vt, e3), acc(eol, e4), acc(val, e5))
	}
}

func main() { vh.Main(vh.Config{Gen: gen, Exec: exec}) }
