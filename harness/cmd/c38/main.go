// C38 harness: builds a real tar stream with archive/tar, extracts it with the real boxo tar.Extractor
// into a sandbox directory, and reports the complete state of the sandbox (path, type, mode, mtime,
// content, link target of every object) afterwards; the Lean driver gets the same initial world and
// archive.  Monitor: nothing outside the target path differs from the snapshot taken before.
//
// Safety (the harness may run as root and the code under test follows symlinks): the model root is
// <tmp>/c38-*/b1/b2/b3/w, absolute link targets are re-rooted into it, relative link targets have at most
// as many leading ".." as the depth of the directory holding the link (never more than 2) and no ".."
// elsewhere, so no resolution can leave the case's temp directory.
package main

import (
	"archive/tar"
	"bytes"
	"fmt"
	"io"
	"io/fs"
	"os"
	"path/filepath"
	"sort"
	"strconv"
	"strings"
	"syscall"
	"time"
	"unicode/utf8"

	btar "github.com/ipfs/boxo/tar"

	"verifharness/vh"
)

// ---------------------------------------------------------------- generator

var names = []string{"a", "b", "c", "d", "x y", "é", "a.b", "..a", "longer-name"}
var hostile = []string{"..", ".", "", "../..", "/abs", "a//b", "a/../b", "a/./b", "a/"}

type gnode struct {
	kind   byte // d f l
	path   string
	mode   int
	mtime  int
	data   []byte
	target string
}

func modeFor(r *vh.Rand, dir bool) int {
	ms := []int{0o755, 0o700, 0o711, 0o750, 0o775, 0o555, 0o644, 0o600, 0o640, 0o444, 0o4755, 0o2755, 0o1777, 0o0, 0o7777}
	if dir {
		return vh.Pick(r, []int{0o755, 0o700, 0o711, 0o750, 0o775, 0o1777, 0o2755, 0o555})
	}
	return vh.Pick(r, ms)
}

// linkTarget picks a link target for a link living in a directory of depth `depth` below the model root.
// `places` are interesting absolute model paths.
func linkTarget(r *vh.Rand, depth int, places []string) string {
	switch r.Intn(6) {
	case 0, 1: // absolute (re-rooted into the sandbox by the harness)
		return "/" + vh.Pick(r, places)
	case 2: // relative, going up
		k := r.Range(1, 2)
		if k > depth {
			k = depth
		}
		t := strings.Repeat("../", k) + vh.Pick(r, []string{"out", "out/od", "out/of", "t", "nowhere", "a"})
		return t
	case 3:
		return vh.Pick(r, names)
	case 4:
		return vh.Pick(r, names) + "/" + vh.Pick(r, names)
	default:
		return vh.Pick(r, []string{"", ".", "/", "/nonexistent/x", "loop", "/out/ol"})
	}
}

// ---- hand-made tar streams: everything archive/tar's Writer refuses to produce but its Reader accepts

type rawHdr struct {
	name, prefix, linkname string
	typeflag               byte
	mode, mtime            int64
	b256mode, b256mtime    bool // base-256 (GNU) numeric encoding, the only way to get negative / huge values
	data                   []byte
	gnu                    bool
}

func putOctal(b []byte, v int64) {
	s := fmt.Sprintf("%0*o", len(b)-1, v)
	copy(b, s)
}

func putB256(b []byte, v int64) {
	for i := len(b) - 1; i >= 0; i-- {
		b[i] = byte(v)
		v >>= 8
	}
	b[0] |= 0x80
}

func (h rawHdr) block() []byte {
	b := make([]byte, 512)
	copy(b[0:100], h.name)
	if h.b256mode {
		putB256(b[100:108], h.mode)
	} else {
		putOctal(b[100:108], h.mode)
	}
	putOctal(b[108:116], 0)
	putOctal(b[116:124], 0)
	putOctal(b[124:136], int64(len(h.data)))
	if h.b256mtime {
		putB256(b[136:148], h.mtime)
	} else {
		putOctal(b[136:148], h.mtime)
	}
	b[156] = h.typeflag
	copy(b[157:257], h.linkname)
	if h.gnu {
		copy(b[257:265], "ustar  \x00")
	} else {
		copy(b[257:263], "ustar\x00")
		copy(b[263:265], "00")
		copy(b[345:500], h.prefix)
	}
	for i := 148; i < 156; i++ {
		b[i] = ' '
	}
	sum := 0
	for _, c := range b {
		sum += int(c)
	}
	copy(b[148:156], fmt.Sprintf("%06o\x00 ", sum))
	out := append([]byte{}, b...)
	out = append(out, h.data...)
	if pad := (512 - len(h.data)%512) % 512; pad > 0 {
		out = append(out, make([]byte, pad)...)
	}
	return out
}

func paxRecord(k, v string) string {
	n := len(k) + len(v) + 3
	for {
		s := fmt.Sprintf("%d %s=%s\n", n, k, v)
		if len(s) == n {
			return s
		}
		n = len(s)
	}
}

// readerEntries parses a raw stream with the real archive/tar Reader and renders the entries for the model.
func readerEntries(raw []byte) []string {
	var es []string
	tr := tar.NewReader(bytes.NewReader(raw))
	for {
		h, err := tr.Next()
		if err == io.EOF {
			return es
		}
		if err != nil {
			return append(es, "e")
		}
		name := vh.Hex([]byte(h.Name))
		mt := h.ModTime.Unix()
		switch h.Typeflag {
		case tar.TypeDir:
			es = append(es, fmt.Sprintf("d,%s,%d,%d", name, h.Mode, mt))
		case tar.TypeReg:
			data, err := io.ReadAll(tr)
			if err != nil {
				return append(es, "e")
			}
			es = append(es, fmt.Sprintf("f,%s,%d,%d,%s", name, h.Mode, mt, vh.Hex(data)))
		case tar.TypeSymlink:
			es = append(es, fmt.Sprintf("l,%s,%s,%d,%d", name, vh.Hex([]byte(h.Linkname)), h.Mode, mt))
		default:
			es = append(es, fmt.Sprintf("x,%s", name))
		}
	}
}

// genRaw builds a hostile hand-made archive; ok=false when it is unusable for the model (non UTF-8, out-of-range times).
func genRaw(r *vh.Rand) (raw []byte, entries []string, ok bool) {
	root := vh.Pick(r, []string{"root", "r"})
	hs := []rawHdr{{name: root, typeflag: '5', mode: int64(modeFor(r, true)), mtime: 6001}}
	relLinks := []string{"../../out", "../../out/of", "../sibling", "nowhere", "a", "../.."}
	for j, n := 0, r.Range(1, 6); j < n; j++ {
		nm := root + "/" + vh.Pick(r, []string{"a", "b", "c", "a/b", "d"})
		h := rawHdr{name: nm, typeflag: '5', mode: int64(modeFor(r, true)), mtime: int64(6002 + j)}
		switch r.Intn(16) {
		case 0: // NUL inside the name field: the reader stops at it
			h.name = nm + "\x00/../../out/evil"
		case 1: // ustar prefix field
			h.prefix, h.name = root+"/"+vh.Pick(r, []string{"a", "p"}), vh.Pick(r, []string{"q", "../x", ""})
		case 2: // negative mode (base-256)
			h.b256mode, h.mode = true, vh.Pick(r, []int64{-1, -0o1000, -0o700})
		case 3: // mode beyond 32 bits: uint32() wraps
			h.b256mode, h.mode = true, int64(1)<<32|int64(modeFor(r, true))
		case 4: // negative / far mtime
			h.b256mtime, h.mtime = true, vh.Pick(r, []int64{-5, -86400, 4000000000, -11676096000, 10413792000, 253402300799})
		case 5: // hard link
			h.typeflag, h.linkname = '1', vh.Pick(r, []string{root + "/a", "../../out/of", "/etc/passwd"})
		case 6: // devices, fifo, contiguous, unknown flags
			h.typeflag = vh.Pick(r, []byte{'3', '4', '6', '7', 'Z', 'S'})
		case 7: // old-style regular file flag (NUL), with and without trailing slash
			h.typeflag = 0
			if r.Bool() {
				h.name = nm + "/"
			} else {
				h.data = []byte("regA")
			}
		case 8: // pax extended header overriding the path of the next entry
			p := vh.Pick(r, []string{root + "/pax", "/abs/pax", root + "/../up", root + "/a\x00b", "other/pax", root + "/é"})
			rec := paxRecord("path", p)
			if r.Chance(1, 4) {
				rec += paxRecord("mtime", vh.Pick(r, []string{"-3.5", "10413792000", "-11676096000", "253402300799"}))
			}
			hs = append(hs, rawHdr{name: "PaxHeaders/x", typeflag: 'x', mode: 0o644, data: []byte(rec)})
		case 9: // pax global header (skipped by the reader)
			hs = append(hs, rawHdr{name: "pax_global_header", typeflag: 'g', mode: 0o644, data: []byte(paxRecord("comment", "x"))})
		case 10: // GNU long name
			long := root + "/" + strings.Repeat("n", 120)
			if r.Bool() {
				long = root + "/../" + strings.Repeat("n", 110)
			}
			hs = append(hs, rawHdr{name: "././@LongLink", typeflag: 'L', gnu: true, data: append([]byte(long), 0)})
			h.gnu = true
		case 11: // symlink written by hand, GNU long link name
			hs = append(hs, rawHdr{name: "././@LongLink", typeflag: 'K', gnu: true, data: append([]byte("../../out/"+strings.Repeat("k", 110)), 0)})
			h.gnu, h.typeflag = true, '2'
		case 12, 13:
			h.typeflag, h.linkname = '2', vh.Pick(r, relLinks)
		case 14:
			h.typeflag, h.data = '0', []byte("data")
		}
		hs = append(hs, h)
	}
	if r.Chance(1, 5) { // directory replaced by a symlink, the C38 pattern, in a hand-made stream
		hs = append(hs, rawHdr{name: root + "/z", typeflag: '5', mode: 0o700, mtime: 6100},
			rawHdr{name: root + "/z", typeflag: '2', linkname: "../../out", mode: 0o777, mtime: 6101})
	}
	for _, h := range hs {
		raw = append(raw, h.block()...)
	}
	if r.Chance(1, 10) {
		raw = raw[:len(raw)-r.Range(1, 300)] // truncated stream
	} else {
		raw = append(raw, make([]byte, 1024)...)
	}
	entries = readerEntries(raw)
	tr := tar.NewReader(bytes.NewReader(raw))
	for {
		h, err := tr.Next()
		if err != nil {
			break
		}
		if !utf8.ValidString(h.Name) || !utf8.ValidString(h.Linkname) || strings.ContainsAny(h.Name+h.Linkname, "\x00") {
			return nil, nil, false
		}
		if t := h.ModTime.Unix(); t > 300000000000 || t < -300000000000 {
			return nil, nil, false
		}
		if h.Typeflag == tar.TypeSymlink && (strings.HasPrefix(h.Linkname, "/") || strings.Count(h.Linkname, "..") > 2) {
			return nil, nil, false // safety: only short relative link targets in hand-made streams
		}
	}
	return raw, entries, len(entries) > 0
}

func nonEmpty(s string) string {
	if s == "" {
		return "nowhere"
	}
	return s
}

func gen(r *vh.Rand, tier string, n int, emit func(vh.Case)) {
	for i := 0; i < n; i++ {
		c := vh.Case{ID: strconv.Itoa(i)}
		mt := 1000
		next := func() int { mt++; return mt }
		// ---- initial world: /out (things to protect), /t (parent of the target), optionally the target
		var ns []gnode
		ns = append(ns, gnode{kind: 'd', path: ".", mode: 0o755, mtime: next()})
		ns = append(ns, gnode{kind: 'd', path: "out", mode: vh.Pick(r, []int{0o711, 0o755, 0o750}), mtime: next()})
		ns = append(ns, gnode{kind: 'd', path: "out/od", mode: vh.Pick(r, []int{0o711, 0o755, 0o700}), mtime: next()})
		ns = append(ns, gnode{kind: 'f', path: "out/of", mode: vh.Pick(r, []int{0o644, 0o600, 0o640}), mtime: next(), data: []byte("secret")})
		ns = append(ns, gnode{kind: 'f', path: "out/od/f2", mode: 0o644, mtime: next(), data: []byte("s2")})
		if r.Bool() {
			ns = append(ns, gnode{kind: 'l', path: "out/ol", target: vh.Pick(r, []string{"od", "/out/of", "../t", "nowhere", "ol"}), mtime: next()})
		}
		target := "t/x"
		places := []string{"out", "out/od", "out/of", "out/od/f2", "t", "t/x", "t/x/a", "out/new"}
		tparent := r.Intn(10)
		switch {
		case tparent == 0: // parent of the target missing
		default:
			ns = append(ns, gnode{kind: 'd', path: "t", mode: 0o755, mtime: next()})
			if r.Chance(1, 6) {
				ns = append(ns, gnode{kind: 'f', path: "t/sibling", mode: 0o644, mtime: next(), data: []byte("sib")})
			}
			// pre-populated target
			switch r.Intn(8) {
			case 0:
				ns = append(ns, gnode{kind: 'f', path: target, mode: 0o644, mtime: next(), data: []byte("old")})
			case 1:
				ns = append(ns, gnode{kind: 'l', path: target, target: nonEmpty(linkTarget(r, 1, places)), mtime: next()})
			case 2, 3, 4:
				ns = append(ns, gnode{kind: 'd', path: target, mode: modeFor(r, true), mtime: next()})
				for j, m := 0, r.Intn(4); j < m; j++ {
					nm := target + "/" + strings.ReplaceAll(vh.Pick(r, names), " ", "_")
					dup := false
					for _, x := range ns {
						if x.path == nm {
							dup = true
						}
					}
					if dup {
						continue
					}
					switch r.Intn(4) {
					case 0:
						ns = append(ns, gnode{kind: 'd', path: nm, mode: modeFor(r, true), mtime: next()})
						if r.Bool() {
							ns = append(ns, gnode{kind: 'f', path: nm + "/inner", mode: 0o644, mtime: next(), data: []byte("in")})
						}
					case 1:
						ns = append(ns, gnode{kind: 'f', path: nm, mode: modeFor(r, false) | 0o400, mtime: next(), data: []byte("pre")})
					default:
						ns = append(ns, gnode{kind: 'l', path: nm, target: nonEmpty(linkTarget(r, 2, places)), mtime: next()})
					}
				}
			}
		}
		var wl []string
		for _, x := range ns {
			switch x.kind {
			case 'd':
				wl = append(wl, fmt.Sprintf("d,%s,%o,%d", x.path, x.mode, x.mtime))
			case 'f':
				wl = append(wl, fmt.Sprintf("f,%s,%o,%d,%s", x.path, x.mode, x.mtime, vh.Hex(x.data)))
			case 'l':
				wl = append(wl, fmt.Sprintf("l,%s,%s,%d", x.path, vh.Hex([]byte(x.target)), x.mtime))
			}
		}
		c.Ops = append(c.Ops, "world "+strings.Join(wl, " "))
		// ---- archives
		for a, na := 0, r.Range(1, 2); a < na; a++ {
			root := vh.Pick(r, []string{"root", "r", "a"})
			var es []string
			amt := 5000 + 100*a
			// extreme header times (years 1600, 1677, 1678, 2262, 2263, 2300, 9999: below / above what
			// UnixNano can represent; archive/tar writes them as PAX records)
			extreme := []int{-11676096000, -9223372037, -9223372036, -9214560000, 9214646400, 9223372036, 9223372037, 9246182400, 10413792000, 253402300799}
			tnext := func() int {
				amt++
				if r.Chance(1, 12) {
					return 0
				}
				if r.Chance(1, 6) {
					return vh.Pick(r, extreme)
				}
				return amt
			}
			ne := r.Range(1, 10)
			if tier == "thorough" && r.Chance(1, 5) {
				ne = r.Range(10, 25)
			}
			// first entry
			switch k := r.Intn(24); {
			case k < 20:
				es = append(es, fmt.Sprintf("D,%s,%o,%d", vh.Hex([]byte(root)), modeFor(r, true), tnext()))
			case k == 20:
				es = append(es, fmt.Sprintf("F,%s,%o,%d,%s", vh.Hex([]byte(root)), modeFor(r, false), tnext(), vh.Hex(r.Bytes(r.Intn(5)))))
			case k == 21:
				es = append(es, fmt.Sprintf("L,%s,%s,%o,%d", vh.Hex([]byte(root)), vh.Hex([]byte(linkTarget(r, 1, places))), 0o777, tnext()))
			case k == 22:
				es = append(es, fmt.Sprintf("D,%s,%o,%d", vh.Hex([]byte(vh.Pick(r, hostile))), 0o755, tnext()))
			default:
				es = append(es, fmt.Sprintf("X,%s", vh.Hex([]byte(root))))
			}
			var made, dirs []string // relative paths used so far / those that were directories
			for j := 1; j < ne; j++ {
				var rel string
				switch k := r.Intn(40); {
				case k < 12 && len(dirs) > 0: // below an earlier directory entry
					rel = vh.Pick(r, dirs) + "/" + vh.Pick(r, names)
				case k < 20 && len(made) > 0: // same name as an earlier entry (replacement)
					rel = vh.Pick(r, made)
				case k < 23 && len(made) > 0: // below an earlier entry of any type
					rel = vh.Pick(r, made) + "/" + vh.Pick(r, names)
				case k < 36:
					rel = vh.Pick(r, names)
				case k < 38:
					rel = vh.Pick(r, hostile)
				default:
					rel = vh.Pick(r, names) + "/" + vh.Pick(r, hostile)
				}
				name := root + "/" + rel
				if r.Chance(1, 40) {
					name = vh.Pick(r, []string{"other/" + rel, rel, "/" + name, root, root + "x/" + rel})
				}
				depth := 2 + strings.Count(rel, "/") // directory holding t/x/<rel>
				k := r.Intn(20)
				if k == 19 && !r.Chance(1, 4) {
					k = r.Intn(19)
				}
				if strings.HasSuffix(name, "/") {
					k = 0 // archive/tar only encodes a trailing slash for directories
				}
				switch {
				case k < 9:
					es = append(es, fmt.Sprintf("D,%s,%o,%d", vh.Hex([]byte(name)), modeFor(r, true), tnext()))
					dirs = append(dirs, rel)
				case k < 13:
					es = append(es, fmt.Sprintf("F,%s,%o,%d,%s", vh.Hex([]byte(name)), modeFor(r, false), tnext(), vh.Hex(r.Bytes(r.Intn(6)))))
				case k < 19:
					es = append(es, fmt.Sprintf("L,%s,%s,%o,%d", vh.Hex([]byte(name)), vh.Hex([]byte(linkTarget(r, depth, places))), 0o777, tnext()))
				default:
					es = append(es, fmt.Sprintf("X,%s", vh.Hex([]byte(name))))
				}
				made = append(made, rel)
			}
			if r.Chance(1, 4) {
				// a symlink to an existing outside object, extreme or ordinary time stamp: its mtime is set
				// on the link itself (utimensat NOFOLLOW), never on what it points to
				tgt := vh.Pick(r, []string{"/out", "/out/of", "/out/od", "/out/od/f2", "../../out", "../../out/of", "/t"})
				es = append(es, fmt.Sprintf("L,%s,%s,%o,%d", vh.Hex([]byte(root+"/"+vh.Pick(r, names))), vh.Hex([]byte(tgt)), 0o777, vh.Pick(r, append(extreme, amt+50))))
			}
			if r.Chance(1, 4) {
				// a directory entry replaced by a same-named link / file while still empty
				nm := root + "/" + vh.Pick(r, names)
				es = append(es, fmt.Sprintf("D,%s,%o,%d", vh.Hex([]byte(nm)), modeFor(r, true), tnext()))
				if r.Bool() {
					es = append(es, fmt.Sprintf("D,%s,%o,%d", vh.Hex([]byte(root+"/"+vh.Pick(r, names))), modeFor(r, true), tnext()))
				}
				if r.Chance(3, 4) {
					es = append(es, fmt.Sprintf("L,%s,%s,%o,%d", vh.Hex([]byte(nm)), vh.Hex([]byte(linkTarget(r, 2, places))), 0o777, tnext()))
				} else {
					es = append(es, fmt.Sprintf("F,%s,%o,%d,%s", vh.Hex([]byte(nm)), modeFor(r, false), tnext(), vh.Hex(r.Bytes(2))))
				}
			}
			c.Ops = append(c.Ops, "extract "+target+" "+strings.Join(es, " "))
		}
		if r.Chance(1, 4) {
			if raw, es, ok := genRaw(r.Fork()); ok {
				c.Ops = append(c.Ops, "extractraw "+target+" "+vh.Hex(raw)+" "+strings.Join(es, " "))
			}
		}
		emit(c)
	}
}

// ---------------------------------------------------------------- sandbox

type obj struct {
	kind   byte
	mode   uint32
	mtime  int64
	data   []byte
	target string
}

func lutimes(path string, sec int64) {
	ts := []syscall.Timespec{{Sec: sec}, {Sec: sec}}
	p, _ := syscall.BytePtrFromString(path)
	if _, _, e := syscall.Syscall6(syscall.SYS_UTIMENSAT, uintptr(^uintptr(99)), uintptr(ptr(p)), uintptr(ptr(&ts[0])), 0x100, 0, 0); e != 0 {
		panic(fmt.Sprintf("utimensat %s: %v", path, e))
	}
}

func snapshot(root string) map[string]obj {
	m := map[string]obj{}
	err := filepath.WalkDir(root, func(p string, d fs.DirEntry, err error) error {
		if err != nil {
			return err
		}
		rel, _ := filepath.Rel(root, p)
		fi, err := os.Lstat(p)
		if err != nil {
			return err
		}
		st := fi.Sys().(*syscall.Stat_t)
		o := obj{mode: st.Mode & 0o7777, mtime: st.Mtim.Sec}
		switch {
		case fi.Mode()&os.ModeSymlink != 0:
			o.kind = 'l'
			o.target, _ = os.Readlink(p)
		case fi.IsDir():
			o.kind = 'd'
		default:
			o.kind = 'f'
			o.data, err = os.ReadFile(p)
			if err != nil {
				return err
			}
		}
		m[rel] = o
		return nil
	})
	if err != nil {
		panic(err)
	}
	return m
}

func showTime(t int64, start int64) string {
	if t >= start-2 && t <= time.Now().Unix()+2 {
		return "now"
	}
	return strconv.FormatInt(t, 10)
}

func showObj(rel string, o obj, sb string, start int64) string {
	switch o.kind {
	case 'd':
		return fmt.Sprintf("d,%s,%o,%s", vh.Hex([]byte(rel)), o.mode, showTime(o.mtime, start))
	case 'f':
		return fmt.Sprintf("f,%s,%o,%s,%s", vh.Hex([]byte(rel)), o.mode, showTime(o.mtime, start), vh.Hex(o.data))
	default:
		t := o.target
		if strings.HasPrefix(t, sb) {
			t = t[len(sb):]
			if t == "" {
				t = "/"
			}
		}
		return fmt.Sprintf("l,%s,%s,%s", vh.Hex([]byte(rel)), vh.Hex([]byte(t)), showTime(o.mtime, start))
	}
}

func showWorld(m map[string]obj, sb string, start int64) string {
	keys := make([]string, 0, len(m))
	for k := range m {
		keys = append(keys, k)
	}
	sort.Strings(keys)
	parts := make([]string, len(keys))
	for i, k := range keys {
		parts[i] = showObj(k, m[k], sb, start)
	}
	return strings.Join(parts, " ")
}

func reroot(sb, target string) string {
	if strings.HasPrefix(target, "/") {
		if target == "/" {
			return sb
		}
		return sb + target
	}
	return target
}

func sameObj(a, b obj, ignoreMtime bool) bool {
	return a.kind == b.kind && a.mode == b.mode && (ignoreMtime || a.mtime == b.mtime) && bytes.Equal(a.data, b.data) && a.target == b.target
}

func cleanup(top string) {
	filepath.WalkDir(top, func(p string, d fs.DirEntry, err error) error {
		if err == nil && d.IsDir() {
			os.Chmod(p, 0o700)
		}
		return nil
	})
	os.RemoveAll(top)
}

func exec(c vh.Case, o *vh.Out) {
	top, err := os.MkdirTemp(tmpBase(), "c38-")
	if err != nil {
		panic(err)
	}
	defer cleanup(top)
	sb := filepath.Join(top, "b1", "b2", "b3", "w")
	if err := os.MkdirAll(sb, 0o755); err != nil {
		panic(err)
	}
	start := time.Now().Unix()
	for _, line := range c.Ops {
		f := strings.Fields(line)
		switch f[0] {
		case "world":
			type tm struct {
				p string
				t int64
			}
			var times []tm
			for _, nd := range f[1:] {
				q := strings.Split(nd, ",")
				p := filepath.Join(sb, q[1])
				switch q[0] {
				case "d":
					if q[1] != "." {
						if err := os.Mkdir(p, 0o755); err != nil {
							panic(err)
						}
					}
					m, _ := strconv.ParseUint(q[2], 8, 32)
					if err := syscall.Chmod(p, uint32(m)); err != nil {
						panic(err)
					}
					t, _ := strconv.ParseInt(q[3], 10, 64)
					times = append(times, tm{p, t})
				case "f":
					if err := os.WriteFile(p, vh.UnHex(q[4]), 0o600); err != nil {
						panic(err)
					}
					m, _ := strconv.ParseUint(q[2], 8, 32)
					if err := syscall.Chmod(p, uint32(m)); err != nil {
						panic(err)
					}
					t, _ := strconv.ParseInt(q[3], 10, 64)
					times = append(times, tm{p, t})
				case "l":
					if err := os.Symlink(reroot(sb, string(vh.UnHex(q[2]))), p); err != nil {
						panic(err)
					}
					t, _ := strconv.ParseInt(q[3], 10, 64)
					times = append(times, tm{p, t})
				}
			}
			for i := len(times) - 1; i >= 0; i-- {
				lutimes(times[i].p, times[i].t)
			}
			o.Emit("ok")
		case "extract":
			target := f[1]
			var buf bytes.Buffer
			tw := tar.NewWriter(&buf)
			skipped := false
			for _, es := range f[2:] {
				q := strings.Split(es, ",")
				h := &tar.Header{Name: string(vh.UnHex(q[1]))}
				var data []byte
				switch q[0] {
				case "D":
					h.Typeflag = tar.TypeDir
				case "F":
					h.Typeflag = tar.TypeReg
					data = vh.UnHex(q[4])
					h.Size = int64(len(data))
				case "L":
					h.Typeflag = tar.TypeSymlink
					h.Linkname = reroot(sb, string(vh.UnHex(q[2])))
					q = append(q[:2], q[3:]...)
				case "X":
					h.Typeflag = tar.TypeFifo
					q = append(q, "644", "1")
				}
				m, _ := strconv.ParseInt(q[2], 8, 64)
				t, _ := strconv.ParseInt(q[3], 10, 64)
				h.Mode = m
				h.ModTime = time.Unix(t, 0)
				o.Kind("entry-" + q[0])
				if err := tw.WriteHeader(h); err != nil {
					panic(fmt.Sprintf("tar writer rejects %q: %v", h.Name, err))
				}
				if len(data) > 0 {
					tw.Write(data)
				}
			}
			tw.Close()
			_ = skipped
			runExtract(o, sb, target, buf.Bytes(), start)
		case "extractraw":
			raw := vh.UnHex(f[2])
			// the op line carries what archive/tar's Reader returned at generation time: check that the
			// reader of this run agrees (the model consumes those entries)
			if got := strings.Join(readerEntries(raw), " "); got != strings.Join(f[3:], " ") {
				o.Fail("tar-reader-differs", "archive/tar parses the raw stream differently: %s", got)
			}
			o.Kind("raw-archive")
			for _, t := range f[3:] {
				o.Kind("raw-" + t[:1])
			}
			runExtract(o, sb, f[1], raw, start)
		default:
			o.Emit("bad-op")
		}
	}
}

// runExtract extracts the stream with the real Extractor, runs the monitor and emits the output line.
func runExtract(o *vh.Out, sb, target string, tarBytes []byte, start int64) {
	before := snapshot(sb)
	te := &btar.Extractor{Path: filepath.Join(sb, target)}
	xerr := te.Extract(bytes.NewReader(tarBytes))
	after := snapshot(sb)
	// ---- monitor: nothing outside the target changed
	changedInside := false
	keys := map[string]bool{}
	for k := range before {
		keys[k] = true
	}
	for k := range after {
		keys[k] = true
	}
	for k := range keys {
		b, inB := before[k]
		a, inA := after[k]
		inside := k == target || strings.HasPrefix(k, target+"/")
		if inside {
			if inB != inA || !sameObj(a, b, false) {
				changedInside = true
			}
			continue
		}
		ancestor := k == "." || strings.HasPrefix(target, k+"/")
		switch {
		case inB && inA && sameObj(a, b, false):
		case ancestor && inB && inA && b.kind == 'd' && sameObj(a, b, true): // entry added below: mtime only
		case ancestor && !inB && inA && a.kind == 'd': // MkdirAll created a missing ancestor of the target
		default:
			kind := "changed"
			if !inB {
				kind = "created"
			} else if !inA {
				kind = "removed"
			} else if a.mode != b.mode {
				kind = "chmod"
			} else if a.mtime != b.mtime {
				kind = "mtime"
			}
			o.Fail("outside-"+kind, "%s outside the target %s: before=%s after=%s", k, target,
				showObjOpt(k, b, inB, sb, start), showObjOpt(k, a, inA, sb, start))
		}
	}
	if changedInside {
		o.Nontrivial()
	}
	res := "ok"
	if xerr != nil {
		res = "err"
		o.Kind("extract-err")
	} else {
		o.Kind("extract-ok")
	}
	o.Emit("%s %s", res, showWorld(after, sb, start))
}

func showObjOpt(k string, x obj, present bool, sb string, start int64) string {
	if !present {
		return "absent"
	}
	return showObj(k, x, sb, start)
}

func tmpBase() string {
	if fi, err := os.Stat("/dev/shm"); err == nil && fi.IsDir() {
		if f, err := os.CreateTemp("/dev/shm", "c38-probe-"); err == nil {
			f.Close()
			os.Remove(f.Name())
			return "/dev/shm"
		}
	}
	return ""
}

func main() {
	syscall.Umask(0o022)
	vh.Main(vh.Config{Gen: gen, Exec: exec})
}
