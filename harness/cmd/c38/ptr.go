package main

import "unsafe"

func ptr[T any](p *T) unsafe.Pointer { return unsafe.Pointer(p) }
