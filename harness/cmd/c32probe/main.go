package main

import (
	"context"
	"errors"
	"fmt"
	"io"
	"net/http"
	"net/http/httptest"
	"net/url"
	"time"

	"github.com/ipfs/boxo/files"
	"github.com/ipfs/boxo/gateway"
	"github.com/ipfs/boxo/path"
	cid "github.com/ipfs/go-cid"
)

type be struct{ dns map[string]bool }

var errNI = errors.New("not implemented")

func (b *be) Get(context.Context, path.ImmutablePath, ...gateway.ByteRange) (gateway.ContentPathMetadata, *gateway.GetResponse, error) {
	return gateway.ContentPathMetadata{}, nil, errNI
}
func (b *be) GetAll(context.Context, path.ImmutablePath) (gateway.ContentPathMetadata, files.Node, error) {
	return gateway.ContentPathMetadata{}, nil, errNI
}
func (b *be) GetBlock(context.Context, path.ImmutablePath) (gateway.ContentPathMetadata, files.File, error) {
	return gateway.ContentPathMetadata{}, nil, errNI
}
func (b *be) Head(context.Context, path.ImmutablePath) (gateway.ContentPathMetadata, *gateway.HeadResponse, error) {
	return gateway.ContentPathMetadata{}, nil, errNI
}
func (b *be) ResolvePath(context.Context, path.ImmutablePath) (gateway.ContentPathMetadata, error) {
	return gateway.ContentPathMetadata{}, errNI
}
func (b *be) GetCAR(context.Context, path.ImmutablePath, gateway.CarParams) (gateway.ContentPathMetadata, io.ReadCloser, error) {
	return gateway.ContentPathMetadata{}, nil, errNI
}
func (b *be) IsCached(context.Context, path.Path) bool { return false }
func (b *be) GetIPNSRecord(context.Context, cid.Cid) ([]byte, error) { return nil, errNI }
func (b *be) ResolveMutable(context.Context, path.Path) (path.ImmutablePath, time.Duration, time.Time, error) {
	return path.ImmutablePath{}, 0, time.Time{}, errNI
}
func (b *be) GetDNSLinkRecord(_ context.Context, name string) (path.Path, error) {
	if b.dns[name] {
		return path.NewPath("/ipfs/bafkqaaa")
	}
	return nil, errNI
}

func main() {
	b := &be{dns: map[string]bool{"en.wikipedia-on-ipfs.org": true, "a.-b.com": true, "a-.b.com": true}}
	cfg := gateway.Config{PublicGateways: map[string]*gateway.PublicGateway{
		"dweb.link":   {Paths: []string{"/ipfs", "/ipns"}, UseSubdomains: true, InlineDNSLink: true},
		"localhost":   {Paths: []string{"/ipfs", "/ipns"}, UseSubdomains: true},
		"ipfs.io":     {Paths: []string{"/ipfs", "/ipns"}},
		"*.wild.test": {Paths: []string{"/ipfs", "/ipns"}, UseSubdomains: true},
	}}
	next := http.HandlerFunc(func(w http.ResponseWriter, r *http.Request) {
		fmt.Fprintf(w, "NEXT path=%q rawq=%q gwhost=%v sub=%v dnslink=%v", r.URL.Path, r.URL.RawQuery,
			r.Context().Value(gateway.GatewayHostnameKey), r.Context().Value(gateway.SubdomainHostnameKey), r.Context().Value(gateway.DNSLinkHostnameKey))
	})
	h := gateway.NewHostnameHandler(cfg, b, next)
	do := func(host, target string, frag string, hdr map[string]string) {
		req := httptest.NewRequest("GET", "http://"+host+target, nil)
		req.Host = host
		if frag != "" {
			req.URL.Fragment = frag
			req.URL.RawFragment = url.PathEscape(frag)
		}
		for k, v := range hdr {
			req.Header.Set(k, v)
		}
		rec := httptest.NewRecorder()
		h.ServeHTTP(rec, req)
		fmt.Printf("%s %s #%s %v => %d loc=%q body=%.150q\n", host, target, frag, hdr, rec.Code, rec.Header().Get("Location"), rec.Body.String())
	}
	c1 := "bafybeigdyrzt5sfp7udm7hu76uh7y26nf3efuylqabf3oclgtqy55fbzdi"
	c0 := "QmbWqxBEKC3P8tqsKc98xmWNzrzDtRLMiMPL8wBuTGsMnR"
	do("dweb.link", "/ipfs/"+c1+"/a/b%20c?x=1&y=%2F", "", nil)
	do("dweb.link", "/ipfs/"+c0+"/a/b%20c?x=1", "frag", nil)
	do("dweb.link", "/ipfs/"+c1, "", nil)
	do("dweb.link", "/ipfs/"+c1+"/", "", nil)
	do("dweb.link", "/ipfs/"+c1+"//x", "", nil)
	do(c1+".ipfs.dweb.link", "/a/b%20c?x=1", "", nil)
	do(c1+".ipfs.dweb.link", "//x", "", nil)
	do(c0+".ipfs.dweb.link", "/a", "", nil)
	do("dweb.link", "/ipns/en.wikipedia-on-ipfs.org/wiki/", "", nil)
	do("localhost", "/ipns/en.wikipedia-on-ipfs.org/wiki/", "", nil)
	do("localhost", "/ipns/en.wikipedia-on-ipfs.org/wiki/", "", map[string]string{"X-Forwarded-Proto": "https"})
	do("en-wikipedia--on--ipfs-org.ipns.dweb.link", "/wiki/", "", nil)
	do("en.wikipedia-on-ipfs.org.ipns.localhost", "/wiki/", "", nil)
	do("dweb.link", "/ipns/a.-b.com/x", "", nil)
	do("a---b-com.ipns.dweb.link", "/x", "", nil)
	do("dweb.link", "/ipns/a-.b.com/x", "", nil)
	do("dweb.link", "/ipns/12D3KooWRBy97UB99e3J6hiPesre1MZeuNQvfan4gBziswrRJsNK/x", "", nil)
	do("dweb.link", "/ipns/QmcJw6x4bQr7oFnVnF6i8SLcJvhXjaxWvj54FYXmZ4Ct6p/x", "", nil)
	do("dweb.link", "/ipns/k51qzi5uqu5dlvj2baxnqndepeb86cbk3ng7n3i46uzyxzyqj2xjonzllnv0v8/x", "", nil)
	do("dweb.link", "/ipns/bafybeigdyrzt5sfp7udm7hu76uh7y26nf3efuylqabf3oclgtqy55fbzdi/x", "", nil)
	do("bafybeigdyrzt5sfp7udm7hu76uh7y26nf3efuylqabf3oclgtqy55fbzdi.ipns.dweb.link", "/x", "", nil)
	do("dweb.link", "/ipfs/bafkrgqe3ohjcjplc6n4f3fwunlj6upltggn7xqujbsvnvyw764srszz4u4rshq6ztos4chl4plgg4ffyyxnayrtdi5oc4xb2332g645433aeg/x", "", nil)
	do("foo.wild.test", "/ipfs/"+c1+"/x", "", nil)
	do(c1+".ipfs.foo.wild.test", "/x", "", nil)
	do("ipfs.io", "/ipfs/"+c1+"/x", "", nil)
	do("unknown.example", "/ipfs/"+c1+"/x", "", nil)
	do("en.wikipedia-on-ipfs.org", "/wiki/x", "", nil)
	do("dweb.link:8080", "/ipfs/"+c1+"/x", "", nil)
	do(c1+".ipfs.dweb.link:8080", "/x", "", nil)
	do("dweb.link", "/ipfs/notacid/x", "", nil)
	do("dweb.link", "/ipns/notadomain-/x", "", nil)
	do("dweb.link", "/ipld/"+c1+"/x", "", nil)
	do("dweb.link", "/ipfs/", "", nil)
	do("dweb.link", "/ipfs", "", nil)
	do("dweb.link", "/other", "", nil)
}
