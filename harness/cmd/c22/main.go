// C22 harness: drives the real dspinner (pinning/pinner/dspinner) with random pin / unpin / update
// histories over random DAGs (sharing, missing blocks, cancelled contexts, invalid modes) and dumps
// every query API after the ops. Shared machinery: verifharness/pinh.
package main

import (
	"fmt"
	"strconv"
	"strings"

	"verifharness/pinh"
	"verifharness/vh"
)

func gen(r *vh.Rand, tier string, n int, emit func(vh.Case)) {
	for i := 0; i < n; i++ {
		cr := r.Fork()
		c := vh.Case{ID: strconv.Itoa(i)}
		maxN, maxOps := 8, 20
		if tier == "thorough" {
			maxN, maxOps = 12, 25
		}
		nn := cr.Range(2, maxN)
		line, _ := pinh.GenDag(cr, nn, i%2 == 1)
		c.Ops = append(c.Ops, line)
		c.Ops = append(c.Ops, pinh.GenOps(cr, nn, cr.Range(1, maxOps), false)...)
		emit(c)
	}
}

func exec(c vh.Case, o *vh.Out) {
	var w *pinh.World
	var cur *pinh.Dump // dump of the current state (queries are re-run after every mutation)
	muts, fails := 0, 0
	desync := false // a failed call changed the pins: the spec model no longer tracks the implementation
	for _, line := range c.Ops {
		f := strings.Fields(line)
		switch f[0] {
		case "dag":
			w = pinh.NewWorld(line)
			cur = w.Query()
			o.Emit("ok")
		case "pin", "pinmode", "unpin", "update", "autosync", "flush":
			before := cur
			presentBefore := fmt.Sprint(w.Present)
			want, known := w.ExpectOK(f)
			tok, ws := w.Mutate(f)
			if known && !desync && want != (tok == "ok" || strings.HasPrefix(tok, "was")) {
				o.Fail("result-mismatch", "%s returned %s; the pin model says it must %s", line, tok, map[bool]string{true: "succeed", false: "fail"}[want])
			}
			o.Kind(f[0])
			o.Kind("res-" + tok)
			if f[0] != "autosync" && f[0] != "flush" {
				o.Kind("ctx-" + f[len(f)-1])
			}
			muts++
			after := w.Query()
			cur = after
			if tok == "ok" || strings.HasPrefix(tok, "was") {
				w.ApplySpec(f)
			} else {
				fails++
				// the property: a call that returns an error leaves every pin query unchanged
				if before.PinFacts() != after.PinFacts() {
					desync = true
					o.Fail("failed-call-changed-state", "%s returned %s; pins before {%s} after {%s}", line, tok, before.PinFacts(), after.PinFacts())
				} else if presentBefore == fmt.Sprint(w.Present) && before.Line() != after.Line() {
					o.Fail("failed-call-changed-queries", "%s returned %s; queries before {%s} after {%s}", line, tok, before.Line(), after.Line())
				}
			}
			if !desync {
				for _, fl := range w.SpecCheck(after) {
					o.Fail(fl[0], "after %q: %s", line, fl[1])
				}
			}
			if after.Dangling {
				o.Kind("dangling")
			}
			o.Emit("%s %s", tok, w.CanonWrites(ws))
		case "nested":
			// call A with the complete call B inside the window in which A has released the lock
			var fa, fb []string
			for i, t := range f {
				if t == ";;" {
					fa, fb = f[1:i], f[i+1:]
				}
			}
			tokA, tokB, wb, wa := w.Nested(fa, fb)
			o.Kind("nested-" + fa[0])
			o.Kind("nestedA-" + tokA)
			o.Kind("nestedB-" + tokB)
			muts++
			after := w.Query()
			cur = after
			rs, _ := w.Raw(w.Store.Snapshot())
			for _, msg := range rs.ConsistencyFailures() {
				o.Fail("window-index-record-mismatch", "%q: %s", line, msg)
			}
			if tokA == "ok" && fa[0] == "pin" && after.T[0][vh.Atoi(fa[1])] != "r" {
				o.Fail("window-pin-lost", "%q: Pin returned ok but cid %s is not recursively pinned", line, fa[1])
			}
			for _, idx := range []map[int][]string{rs.R, rs.D} {
				for c, ids := range idx {
					if len(ids) > 1 && !desync {
						desync = true
						o.Fail("window-duplicate-pin", "%q: %d pins of one mode for cid %d afterwards: dk1=%s rk1=%s", line, len(ids), c, after.Lists[1], after.Lists[3])
					}
				}
			}
			if !desync {
				w.ResyncSpec(after) // the sequential pin model does not predict the outcome of a race
				for _, fl := range w.SpecCheck(after) {
					o.Fail(fl[0], "after %q: %s", line, fl[1])
				}
			}
			o.Emit("A=%s B=%s %s %s", tokA, tokB, w.CanonWrites(wb), w.CanonWrites(wa))
		case "q":
			o.Emit("%s", cur.Line())
		default:
			o.Emit("bad-op")
		}
	}
	if cur != nil && muts >= 3 && fails >= 1 && len(w.SpecR)+len(w.SpecD) >= 2 {
		o.Nontrivial()
	}
}

func main() { vh.Main(vh.Config{Gen: gen, Exec: exec}) }
