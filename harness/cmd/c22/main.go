// C22 harness: drives the real dspinner (pinning/pinner/dspinner) with random pin / unpin / update
// histories over random DAGs (sharing, missing blocks, cancelled contexts, invalid modes) and dumps
// every query API after the ops. Shared machinery: verifharness/pinh.
package main

import (
	"fmt"
	"strconv"
	"strings"

	"verifharness/pinh"
	"verifharness/vh"
)

func gen(r *vh.Rand, tier string, n int, emit func(vh.Case)) {
	for i := 0; i < n; i++ {
		cr := r.Fork()
		c := vh.Case{ID: strconv.Itoa(i)}
		maxN, maxOps := 8, 20
		if tier == "thorough" {
			maxN, maxOps = 12, 25
		}
		nn := cr.Range(2, maxN)
		line, _ := pinh.GenDag(cr, nn, i%2 == 1)
		c.Ops = append(c.Ops, line)
		c.Ops = append(c.Ops, pinh.GenOps(cr, nn, cr.Range(1, maxOps), false)...)
		emit(c)
	}
}

func exec(c vh.Case, o *vh.Out) {
	var w *pinh.World
	var cur *pinh.Dump // dump of the current state (queries are re-run after every mutation)
	muts, fails := 0, 0
	desync := false // a failed call changed the pins: the spec model no longer tracks the implementation
	for _, line := range c.Ops {
		f := strings.Fields(line)
		switch f[0] {
		case "dag":
			w = pinh.NewWorld(line)
			cur = w.Query()
			o.Emit("ok")
		case "pin", "pinmode", "unpin", "update", "autosync", "flush":
			before := cur
			presentBefore := fmt.Sprint(w.Present)
			want, known := w.ExpectOK(f)
			tok, ws := w.Mutate(f)
			if known && !desync && want != (tok == "ok") {
				o.Fail("result-mismatch", "%s returned %s; the pin model says it must %s", line, tok, map[bool]string{true: "succeed", false: "fail"}[want])
			}
			o.Kind(f[0])
			o.Kind("res-" + tok)
			o.Kind("ctx-" + f[len(f)-1])
			muts++
			after := w.Query()
			cur = after
			if tok == "ok" || strings.HasPrefix(tok, "was") {
				w.ApplySpec(f)
			} else {
				fails++
				// the property: a call that returns an error leaves every pin query unchanged
				if before.PinFacts() != after.PinFacts() {
					desync = true
					o.Fail("failed-call-changed-state", "%s returned %s; pins before {%s} after {%s}", line, tok, before.PinFacts(), after.PinFacts())
				} else if presentBefore == fmt.Sprint(w.Present) && before.Line() != after.Line() {
					o.Fail("failed-call-changed-queries", "%s returned %s; queries before {%s} after {%s}", line, tok, before.Line(), after.Line())
				}
			}
			if !desync {
				for _, fl := range w.SpecCheck(after) {
					o.Fail(fl[0], "after %q: %s", line, fl[1])
				}
			}
			if after.Dangling {
				o.Kind("dangling")
			}
			o.Emit("%s %s", tok, w.CanonWrites(ws))
		case "q":
			o.Emit("%s", cur.Line())
		default:
			o.Emit("bad-op")
		}
	}
	if cur != nil && muts >= 3 && fails >= 1 && len(w.SpecR)+len(w.SpecD) >= 2 {
		o.Nontrivial()
	}
}

func main() { vh.Main(vh.Config{Gen: gen, Exec: exec}) }
