// C12 harness: drives the real merkledag walks (WalkDepth sequential / parallel with every option,
// FetchGraphWithDepthLimit over a real DAGService + blockservice with a fake exchange).
//
// Op lines (see lean/Drivers/C12.lean): node / walk / fetch.
package main

import (
	"context"
	"errors"
	"fmt"
	"runtime/debug"
	"sort"
	"strconv"
	"strings"
	"sync"
	"time"

	"github.com/ipfs/boxo/blockservice"
	blockstore "github.com/ipfs/boxo/blockstore"
	"github.com/ipfs/boxo/ipld/merkledag"
	blocks "github.com/ipfs/go-block-format"
	cid "github.com/ipfs/go-cid"
	ds "github.com/ipfs/go-datastore"
	dssync "github.com/ipfs/go-datastore/sync"
	format "github.com/ipfs/go-ipld-format"
	logging "github.com/ipfs/go-log/v2"
	mh "github.com/multiformats/go-multihash"

	"verifharness/vh"
)

// ---------------------------------------------------------------- generator

var handlerNames = []string{"ie", "im", "om", "oe0", "oe1", "oe2"}

// genSharedCase: a subtree S of height >= 2 reachable by a long path (listed first) and by a short one, with depth
// limits around the two path lengths: the descendants of S that the long path cuts off are within the limit by
// the short path, so the visitor has to re-explore S when it meets it again at the smaller depth.
func genSharedCase(cr *vh.Rand, c *vh.Case) {
	var lines []string
	add := func(kind string, links ...int) int {
		ls := make([]string, len(links))
		for i, l := range links {
			ls[i] = strconv.Itoa(l)
		}
		lines = append(lines, strings.TrimSpace(fmt.Sprintf("node %d %s %s", len(lines), kind, strings.Join(ls, " "))))
		return len(lines) - 1
	}
	h := 2 + cr.Intn(2)
	cur := add("ok")
	for lvl := 0; lvl < h; lvl++ {
		if cr.Chance(1, 3) {
			extra := add("ok")
			cur = add("ok", cur, extra)
		} else {
			cur = add("ok", cur)
		}
	}
	s := cur
	k := 1 + cr.Intn(3)
	top := s
	for j := 0; j < k; j++ {
		top = add("ok", top)
	}
	short, shortDist, slow := s, 1, -1
	if cr.Bool() {
		short = add("ok", s) // B -> S
		shortDist, slow = 2, short
	}
	root := add("ok", top, short)
	c.Ops = append(c.Ops, lines...)
	for w, m := 0, 2+cr.Intn(3); w < m; w++ {
		lim := cr.Range(shortDist+1, k+1+h)
		conc := vh.Pick(cr, []int{1, 1, 1, 2, 0, 5})
		op := fmt.Sprintf("fetch %d %d %d -", root, lim, conc)
		if slow >= 0 && conc != 1 {
			op += fmt.Sprintf(" d%d", slow) // the node on the short path is slow to fetch
		}
		c.Ops = append(c.Ops, op)
		if cr.Chance(1, 3) {
			c.Ops = append(c.Ops, fmt.Sprintf("walk %d %d %d 0 1 -", root, lim, vh.Pick(cr, []int{1, 2, 4})))
		}
	}
}

func gen(r *vh.Rand, tier string, n int, emit func(vh.Case)) {
	for i := 0; i < n; i++ {
		cr := r.Fork()
		c := vh.Case{ID: strconv.Itoa(i)}
		if i%6 == 4 {
			genSharedCase(cr, &c)
			emit(c)
			continue
		}
		nn := 1 + cr.Intn(12)
		if cr.Chance(1, 4) {
			nn = 8 + cr.Intn(33)
		}
		pFail := cr.Intn(4) // 0: no failing nodes, else 1/(4*pFail+2)
		for j := 0; j < nn; j++ {
			kind := "ok"
			if pFail > 0 && j < nn-1 && cr.Chance(1, 4*pFail+2) {
				kind = vh.Pick(cr, []string{"nf", "nf", "er"})
			}
			var ls []string
			if kind == "ok" && j > 0 {
				k := cr.Intn(5)
				for q := 0; q < k; q++ {
					t := cr.Intn(j)
					if cr.Bool() && j >= 3 {
						t = j - 1 - cr.Intn(3)
					}
					ls = append(ls, strconv.Itoa(t))
				}
			}
			c.Ops = append(c.Ops, strings.TrimSpace(fmt.Sprintf("node %d %s %s", j, kind, strings.Join(ls, " "))))
		}
		for w, m := 0, 1+cr.Intn(4); w < m; w++ {
			root := nn - 1
			if cr.Chance(1, 5) {
				root = cr.Intn(nn)
			}
			lim := -1
			if cr.Chance(1, 2) {
				lim = cr.Range(-1, 6)
			}
			conc := vh.Pick(cr, []int{0, 1, 1, 1, 2, 2, 3, 4, 8, 32})
			// every subset of the error options, in random order, sometimes with repeats
			var hs []string
			for _, h := range handlerNames {
				if cr.Chance(1, 3) {
					hs = append(hs, h)
				}
			}
			for q := len(hs) - 1; q > 0; q-- {
				k := cr.Intn(q + 1)
				hs[q], hs[k] = hs[k], hs[q]
			}
			if len(hs) > 0 && cr.Chance(1, 10) {
				hs = append(hs, vh.Pick(cr, handlerNames))
			}
			h := "-"
			if len(hs) > 0 {
				h = strings.Join(hs, ",")
			}
			if cr.Chance(1, 5) {
				fc := vh.Pick(cr, []int{0, 0, 1, 2, 5})
				c.Ops = append(c.Ops, fmt.Sprintf("fetch %d %d %d %s", root, lim, fc, h))
			} else {
				prov := "0"
				if cr.Chance(1, 2) {
					prov = "1"
					if cr.Chance(1, 2) { // the provider fails for some nodes (leaves and interior ones)
						var fs []string
						for j := 0; j < nn; j++ {
							if cr.Chance(1, 3) {
								fs = append(fs, strconv.Itoa(j))
							}
						}
						if len(fs) > 0 {
							prov = "1:" + strings.Join(fs, ",")
						}
					}
				}
				c.Ops = append(c.Ops, fmt.Sprintf("walk %d %d %d %d %s %s", root, lim, conc, b01(cr.Chance(1, 4)), prov, h))
			}
		}
		emit(c)
	}
}

func b01(b bool) int {
	if b {
		return 1
	}
	return 0
}

// ---------------------------------------------------------------- the abstract case

type anode struct {
	kind  string
	links []int
}

var (
	errOther  = errors.New("c12: getLinks failed")
	errCustom = errors.New("c12: error substituted by the OnError handler")
)

func walkCid(i int) cid.Cid {
	h, _ := mh.Sum([]byte(fmt.Sprintf("c12-node-%d", i)), mh.SHA2_256, -1)
	return cid.NewCidV1(cid.Raw, h)
}

func errClass(err error) string {
	switch {
	case err == nil:
		return "nil"
	case errors.Is(err, errCustom):
		return "cu"
	case errors.Is(err, errProvide):
		return "pv" // a provider error must never be returned by a walk
	case format.IsNotFound(err):
		return "nf"
	default:
		return "er"
	}
}

// chainMeaning is the documented meaning of the error options applied in order to the error class of
// one failing node: returns the surviving class ("nil" = swallowed). Used by the monitor only.
func chainMeaning(hs []string, e string) string {
	if len(hs) == 0 {
		return e
	}
	for _, h := range hs {
		switch h {
		case "ie":
			e = "nil"
		case "im":
			if e == "nf" {
				e = "nil"
			}
		case "oe1":
			e = "nil"
		case "oe2":
			e = "cu"
		}
	}
	return e
}

// within computes, by breadth-first search, the nodes whose shortest distance from root is <= lim
// (lim < 0: unlimited), expanding only nodes whose getLinks succeeds; aborts = the classes of surviving errors
// of the failing nodes among them.
func within(nodes []anode, root, lim int, hs []string) (dist map[int]int, aborts map[string]bool) {
	dist = map[int]int{root: 0}
	aborts = map[string]bool{}
	q := []int{root}
	for len(q) > 0 {
		c := q[0]
		q = q[1:]
		nd := anode{kind: "nf"}
		if c < len(nodes) {
			nd = nodes[c]
		}
		if nd.kind != "ok" {
			if s := chainMeaning(hs, nd.kind); s != "nil" {
				aborts[s] = true
			}
			continue
		}
		if lim >= 0 && dist[c] >= lim {
			continue
		}
		for _, k := range nd.links {
			if _, ok := dist[k]; !ok {
				dist[k] = dist[c] + 1
				q = append(q, k)
			}
		}
	}
	return
}

type recorder struct {
	mu      sync.Mutex
	visits  []string // c:d:b
	visited map[int]bool
	missing []int
	onerr   []string // c:class
	onerrC  []int
	prov    []int
}

// fakeProvider records every StartProviding call and fails for the scripted CIDs (leaves and interior
// nodes alike): the walks must only log such a failure.
type fakeProvider struct {
	rec   *recorder
	idxOf map[string]int
	fail  map[int]bool
}

var errProvide = errors.New("c12: provide queue full")

func (p *fakeProvider) StartProviding(force bool, keys ...mh.Multihash) error {
	p.rec.mu.Lock()
	defer p.rec.mu.Unlock()
	var err error
	for _, k := range keys {
		i, ok := p.idxOf[string(k)]
		if !ok {
			i = -1
		}
		p.rec.prov = append(p.rec.prov, i)
		if p.fail[i] {
			err = errProvide
		}
	}
	return err
}

func buildOpts(hs []string, rec *recorder, idx func(cid.Cid) int) []merkledag.WalkOption {
	var opts []merkledag.WalkOption
	for _, h := range hs {
		switch h {
		case "ie":
			opts = append(opts, merkledag.IgnoreErrors())
		case "im":
			opts = append(opts, merkledag.IgnoreMissing())
		case "om":
			opts = append(opts, merkledag.OnMissing(func(c cid.Cid) {
				rec.mu.Lock()
				rec.missing = append(rec.missing, idx(c))
				rec.mu.Unlock()
			}))
		case "oe0", "oe1", "oe2":
			mode := h[2]
			opts = append(opts, merkledag.OnError(func(c cid.Cid, err error) error {
				rec.mu.Lock()
				rec.onerr = append(rec.onerr, fmt.Sprintf("%d:%s", idx(c), errClass(err)))
				rec.onerrC = append(rec.onerrC, idx(c))
				rec.mu.Unlock()
				switch mode {
				case '1':
					return nil
				case '2':
					return errCustom
				}
				return err
			}))
		}
	}
	return opts
}

func pad(i int) string { return fmt.Sprintf("%04d", i) }

func setOf(xs []string) string {
	if len(xs) == 0 {
		return "-"
	}
	s := append([]string(nil), xs...)
	sort.Strings(s)
	o := s[:1]
	for _, x := range s[1:] {
		if x != o[len(o)-1] {
			o = append(o, x)
		}
	}
	return strings.Join(o, ",")
}

func seqOf(xs []string) string {
	if len(xs) == 0 {
		return "-"
	}
	return strings.Join(xs, ",")
}

func ints(xs []int, f func(int) string) []string {
	o := make([]string, len(xs))
	for i, x := range xs {
		o[i] = f(x)
	}
	return o
}

func splitHs(s string) []string {
	if s == "-" {
		return nil
	}
	return strings.Split(s, ",")
}

func kindOf(nodes []anode, c int) string {
	if c < 0 || c >= len(nodes) {
		return "nf"
	}
	return nodes[c].kind
}

// ---------------------------------------------------------------- exec

func exec(c vh.Case, o *vh.Out) {
	var nodes []anode
	ctx := context.Background()
	for _, line := range c.Ops {
		f := strings.Fields(line)
		switch f[0] {
		case "node":
			if vh.Atoi(f[1]) != len(nodes) {
				o.Emit("bad-op")
				continue
			}
			nd := anode{kind: f[2]}
			for _, t := range f[3:] {
				nd.links = append(nd.links, vh.Atoi(t))
			}
			nodes = append(nodes, nd)
			o.Emit("ok")
		case "walk":
			root, lim, conc := vh.Atoi(f[1]), vh.Atoi(f[2]), vh.Atoi(f[3])
			skip, prov, hs := f[4] == "1", strings.HasPrefix(f[5], "1"), splitHs(f[6])
			provFail := map[int]bool{}
			if i := strings.IndexByte(f[5], ':'); i >= 0 {
				for _, t := range strings.Split(f[5][i+1:], ",") {
					provFail[vh.Atoi(t)] = true
				}
				o.Kind("provider-fails")
			}
			idxOf := map[string]int{}
			mhOf := map[string]int{}
			for i := 0; i <= len(nodes)+64; i++ {
				idxOf[walkCid(i).KeyString()] = i
				mhOf[string(walkCid(i).Hash())] = i
			}
			idx := func(c cid.Cid) int {
				if i, ok := idxOf[c.KeyString()]; ok {
					return i
				}
				return -1
			}
			rec := &recorder{visited: map[int]bool{}}
			getLinks := func(_ context.Context, c cid.Cid) ([]*format.Link, error) {
				i := idx(c)
				switch kindOf(nodes, i) {
				case "ok":
					ls := make([]*format.Link, len(nodes[i].links))
					for j, k := range nodes[i].links {
						ls[j] = &format.Link{Cid: walkCid(k)}
					}
					return ls, nil
				case "er":
					return nil, errOther
				default:
					return nil, format.ErrNotFound{Cid: c}
				}
			}
			// the visitor of FetchGraphWithDepthLimit (cid.Set.Visit when lim < 0)
			set := map[cid.Cid]int{}
			visit := func(c cid.Cid, depth int) bool {
				oldDepth, ok := set[c]
				res := false
				if (ok && lim < 0) || (lim >= 0 && depth > lim) {
					res = false
				} else if !ok || oldDepth > depth {
					set[c] = depth
					res = true
				}
				rec.mu.Lock()
				rec.visits = append(rec.visits, fmt.Sprintf("%d:%d:%d", idx(c), depth, b01(res)))
				if res {
					rec.visited[idx(c)] = true
				}
				rec.mu.Unlock()
				return res
			}
			opts := buildOpts(hs, rec, idx)
			if skip {
				opts = append(opts, merkledag.SkipRoot())
				o.Kind("skiproot")
			}
			if prov {
				opts = append(opts, merkledag.WithProvider(&fakeProvider{rec: rec, idxOf: mhOf, fail: provFail}))
				o.Kind("provider")
			}
			if conc != 1 {
				if conc == 0 {
					opts = append(opts, merkledag.Concurrent())
				} else {
					opts = append(opts, merkledag.Concurrency(conc))
				}
			}
			o.Kind(fmt.Sprintf("handlers%d", len(hs)))
			var err error
			if conc != 1 && lim < 0 && root%2 == 0 {
				// the plain Walk entry point with cid.Set.Visit (outputs of the parallel walk carry no depths)
				o.Kind("Walk+cid.Set")
				cs := cid.NewSet()
				err = merkledag.Walk(ctx, getLinks, walkCid(root), func(c cid.Cid) bool {
					res := cs.Visit(c)
					rec.mu.Lock()
					rec.visits = append(rec.visits, fmt.Sprintf("%d:?:%d", idx(c), b01(res)))
					if res {
						rec.visited[idx(c)] = true
					}
					rec.mu.Unlock()
					return res
				}, opts...)
			} else {
				err = merkledag.WalkDepth(ctx, getLinks, walkCid(root), visit, opts...)
			}
			rec.mu.Lock()
			// ---- monitor
			dist, aborts := within(nodes, root, lim, hs)
			for _, m := range rec.missing {
				if kindOf(nodes, m) != "nf" {
					o.Fail("handler-wrong-cid", "OnMissing received %d whose getLinks did not fail with not-found", m)
				}
			}
			for _, m := range rec.onerrC {
				if kindOf(nodes, m) == "ok" {
					o.Fail("handler-wrong-cid", "OnError received %d whose getLinks did not fail", m)
				}
			}
			for _, p := range rec.prov {
				if !(rec.visited[p] || (skip && p == root)) {
					o.Fail("provider-wrong-cid", "provider asked to announce %d which was not visited", p)
				}
			}
			for v := range rec.visited {
				if _, ok := dist[v]; !ok {
					o.Fail("visit-unreachable", "visited %d which is not within the limit", v)
				}
				// also when the walk aborted: a visited node was handed out by a visited (or the skipped) parent
				if v != root {
					okParent := false
					for p, nd := range nodes {
						if nd.kind != "ok" || !(rec.visited[p] || (skip && p == root)) {
							continue
						}
						for _, k := range nd.links {
							if k == v {
								okParent = true
							}
						}
					}
					if !okParent {
						o.Fail("visit-orphan", "visited %d although no visited node links to it", v)
					}
				}
			}
			if err == nil {
				// every OnMissing / OnError handler that was installed is told every failed CID, whatever comes
				// later in the option list: handler i sees the error as left by the options before it
				for v := range rec.visited {
					kind := kindOf(nodes, v)
					if kind == "ok" {
						continue
					}
					wantOE := map[string]int{}
					wantOM := 0
					for i, h := range hs {
						reach := kind
						if i > 0 {
							reach = chainMeaning(hs[:i], kind)
						}
						switch h {
						case "oe0", "oe1", "oe2":
							wantOE[reach]++
						case "om":
							if reach == "nf" {
								wantOM++
							}
						}
					}
					gotOM := 0
					for _, m := range rec.missing {
						if m == v {
							gotOM++
						}
					}
					if gotOM < wantOM {
						o.Fail("handler-not-told", "OnMissing callbacks were told %d times about missing %d, %d installed handlers must hear of it (options %v)", gotOM, v, wantOM, hs)
					}
					gotOE := map[string]int{}
					for _, e := range rec.onerr {
						kv := strings.SplitN(e, ":", 2)
						if vh.Atoi(kv[0]) == v {
							gotOE[kv[1]]++
						}
					}
					for cl, n := range wantOE {
						if gotOE[cl] < n {
							o.Fail("handler-not-told", "OnError handlers were told %d times about %d with error class %s, want %d (options %v)", gotOE[cl], v, cl, n, hs)
						}
					}
				}
				if len(aborts) > 0 {
					o.Fail("error-lost", "walk returned nil although a reachable node fails with a surviving error")
				}
				for v := range dist {
					if !rec.visited[v] && !(skip && v == root) {
						o.Fail("visit-missed", "node %d is within the limit but was not visited", v)
					}
				}
				if prov {
					ps := map[int]bool{}
					for _, p := range rec.prov {
						ps[p] = true
					}
					for v := range dist {
						if !ps[v] {
							o.Fail("provider-missed", "visited node %d was not announced", v)
						}
					}
				}
			} else if !aborts[errClass(err)] {
				o.Fail("error-class", "walk returned %s which no reachable failing node produces", errClass(err))
			}
			if len(rec.visited) >= 4 && len(hs)+b01(skip)+b01(prov) >= 1 {
				o.Nontrivial()
			}
			if conc == 1 {
				o.Kind("seq")
				o.Emit("seq visits=%s missing=%s onerr=%s prov=%s err=%s", seqOf(rec.visits),
					seqOf(ints(rec.missing, strconv.Itoa)), seqOf(rec.onerr), seqOf(ints(rec.prov, strconv.Itoa)), errClass(err))
			} else if err != nil {
				o.Kind("par-abort")
				o.Emit("par err=yes")
			} else {
				o.Kind("par")
				var vs []string
				for v := range rec.visited {
					vs = append(vs, pad(v))
				}
				oe := make([]string, len(rec.onerr))
				for i, s := range rec.onerr {
					kv := strings.SplitN(s, ":", 2)
					oe[i] = pad(vh.Atoi(kv[0])) + ":" + kv[1]
				}
				o.Emit("par visits=%s missing=%s onerr=%s prov=%s err=nil", setOf(vs), setOf(ints(rec.missing, pad)),
					setOf(oe), setOf(ints(rec.prov, pad)))
			}
			rec.mu.Unlock()
		case "fetch":
			root, lim, conc, hs := vh.Atoi(f[1]), vh.Atoi(f[2]), vh.Atoi(f[3]), splitHs(f[4])
			o.Kind("fetch")
			// real dag-pb nodes, children first (links point to smaller indices)
			fc := make([]cid.Cid, len(nodes))
			remote := map[string]blocks.Block{}
			for i, nd := range nodes {
				pn := merkledag.NodeWithData([]byte(fmt.Sprintf("c12-fetch-%d", i)))
				for j, k := range nd.links {
					if k >= i {
						panic("fetch needs links to smaller indices")
					}
					if err := pn.AddRawLink(fmt.Sprintf("%03d", j), &format.Link{Cid: fc[k]}); err != nil {
						panic(err)
					}
				}
				fc[i] = pn.Cid()
				switch nd.kind {
				case "ok":
					remote[string(fc[i].Hash())] = pn
				case "er": // a block that does not decode as dag-pb
					b, _ := blocks.NewBlockWithCid([]byte{0xff, 0xff, 0xff, byte(i)}, fc[i])
					remote[string(fc[i].Hash())] = b
				}
			}
			idx := func(c cid.Cid) int {
				for i := range fc {
					if fc[i].Equals(c) {
						return i
					}
				}
				return -1
			}
			local := blockstore.NewBlockstore(dssync.MutexWrap(ds.NewMapDatastore()))
			slow := map[string]bool{}
			if len(f) > 5 && strings.HasPrefix(f[5], "d") {
				for _, t := range strings.Split(f[5][1:], ",") {
					slow[string(fc[vh.Atoi(t)].Hash())] = true
				}
				o.Kind("fetch-slow-node")
			}
			bsv := blockservice.New(local, &fakeExchange{blocks: remote, slow: slow})
			dserv := merkledag.NewDAGService(bsv)
			rec := &recorder{visited: map[int]bool{}}
			opts := buildOpts(hs, rec, idx)
			if conc != 0 {
				opts = append(opts, merkledag.Concurrency(conc))
			}
			var pt *merkledag.ProgressTracker
			fctx := ctx
			if (root+len(hs))%2 == 0 {
				pt = &merkledag.ProgressTracker{}
				fctx = pt.DeriveContext(ctx)
				o.Kind("progress-tracker")
			}
			var err error
			if lim == -1 && root%2 == 1 {
				o.Kind("FetchGraph")
				err = merkledag.FetchGraph(fctx, fc[root], dserv, opts...)
			} else {
				err = merkledag.FetchGraphWithDepthLimit(fctx, fc[root], lim, dserv, opts...)
			}
			var got []string
			gotSet := map[int]bool{}
			for i := range nodes {
				if ok, _ := local.Has(ctx, fc[i]); ok {
					got = append(got, pad(i))
					gotSet[i] = true
				}
			}
			// ---- monitor: exactly the blocks within the limit are local afterwards
			dist, aborts := within(nodes, root, lim, hs)
			for i := range gotSet {
				if _, ok := dist[i]; !ok {
					o.Fail("fetch-extra", "block %d is local but not within the limit", i)
				}
			}
			if err == nil {
				if len(aborts) > 0 {
					o.Fail("error-lost", "FetchGraph returned nil although a reachable node fails with a surviving error")
				}
				for i := range dist {
					if kindOf(nodes, i) != "nf" && !gotSet[i] {
						o.Fail("fetch-missed", "block %d is within the limit but not local", i)
					}
				}
				if len(got) >= 4 {
					o.Nontrivial()
				}
				if pt != nil && lim < 0 {
					// every decodable block is fetched and counted exactly once by the progress tracker
					want := 0
					for i := range gotSet {
						if kindOf(nodes, i) == "ok" {
							want++
						}
					}
					if pt.Value() != want || pt.ProgressStat().Nodes != want {
						o.Fail("progress-count", "ProgressTracker counted %d nodes, %d decodable blocks were fetched", pt.Value(), want)
					}
				}
				// a second, sequential walk over the now local DAG through the DAG service's link getter
				seen := map[int]bool{}
				cs := cid.NewSet()
				werr := merkledag.Walk(ctx, merkledag.GetLinksWithDAG(dserv), fc[root], func(c cid.Cid) bool {
					r := cs.Visit(c)
					if r {
						seen[idx(c)] = true
					}
					return r
				}, buildOpts(hs, &recorder{visited: map[int]bool{}}, idx)...)
				if lim < 0 {
					if werr != nil {
						o.Fail("error-class", "Walk over the fetched DAG returned %s although FetchGraph did not", errClass(werr))
					}
					for i := range dist {
						if !seen[i] {
							o.Fail("visit-missed", "Walk over the fetched DAG did not visit %d", i)
						}
					}
					for i := range seen {
						if _, ok := dist[i]; !ok {
							o.Fail("visit-unreachable", "Walk over the fetched DAG visited %d", i)
						}
					}
				}
				o.Emit("fetched=%s err=nil", setOf(got))
			} else {
				if !aborts[errClass(err)] {
					o.Fail("error-class", "FetchGraph returned %s which no reachable failing node produces", errClass(err))
				}
				o.Emit("err=yes")
			}
		default:
			o.Emit("bad-op")
		}
	}
}

type fakeExchange struct {
	blocks map[string]blocks.Block
	slow   map[string]bool // blocks that take a while to arrive
}

func (e *fakeExchange) GetBlock(_ context.Context, c cid.Cid) (blocks.Block, error) {
	if e.slow[string(c.Hash())] {
		time.Sleep(15 * time.Millisecond)
	}
	if b, ok := e.blocks[string(c.Hash())]; ok {
		return b, nil
	}
	return nil, format.ErrNotFound{Cid: c}
}

func (e *fakeExchange) GetBlocks(ctx context.Context, cs []cid.Cid) (<-chan blocks.Block, error) {
	ch := make(chan blocks.Block, len(cs))
	for _, c := range cs {
		if b, ok := e.blocks[string(c.Hash())]; ok {
			ch <- b
		}
	}
	close(ch)
	return ch, nil
}

func (e *fakeExchange) NotifyNewBlocks(context.Context, ...blocks.Block) error { return nil }
func (e *fakeExchange) Close() error                                           { return nil }

func main() {
	logging.SetAllLoggers(logging.LevelFatal)
	// two error options together recurse without bound on the unrepaired tree: fail fast, with a short trace
	debug.SetMaxStack(16 << 20)
	debug.SetTraceback("single")
	vh.Main(vh.Config{Gen: gen, Exec: exec, CaseTimeout: 20 * time.Second})
}
