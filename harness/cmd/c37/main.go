// C37 harness.
//
// Part 1 (tied to the Lean model line by line): drives the REAL getter.AsyncGetBlocks + handleIncoming over the
// REAL notifications pub/sub (through the verif-tagged wrapper bitswap/client/verifgetter) with scripted
// publishes, consumer reads and cancellations:
//
//	get <k>*        AsyncGetBlocks(ctx, sessctx, keys…) on a fresh pub/sub (keys may repeat, may be empty)
//	zget <k>* / <h>*   the same with a zero-latency peer: the `want` callback synchronously publishes blocks h…
//	                (held by a connected node) from inside want(); the model subscribes first, then wants
//	pub <c>         notif.Publish of block c (requested or not, any number of times)
//	read            consumer receives from the output channel          -> blk <c> | closed | none
//	cancel          cancel the request context, wait for cancelWants   -> cw [<remaining>] | cw-racy
//	sesscancel      same with the session context
//	fin             all keys delivered: wait for cancelWants           -> cw [] | notdone | done
//
// `cw-racy`: blocks were published but not yet read when the context was cancelled; whether handleIncoming holds
// one of them is a race, so the line is not compared and the monitor checks the bounds instead.
//
// Part 1b (tied line by line): the REAL sessionWants (through bitswap/client/verifsession):
//
//	sw <limit>      newSessionWants(limit)
//	req|sent|recv|cancelp <k>*   BlocksRequested | WantsSent | BlocksReceived | CancelPending
//	next | bcast | live | rand   GetNextWants | PrepareBroadcast (idle tick) | LiveWants | RandomLiveWant (periodic search)
//	every line ends with ` | P <queued> E [deque] L [live] O [live order]`
//
// Part 2 (exploration, monitors only; the model prints `ok` for these lines):
//
//	net <seed> <nodes> <nblocks> <latency-ms>   real bitswap nodes on a bitswap/testnet virtual network
package main

import (
	"context"
	"fmt"
	"sort"
	"strconv"
	"strings"
	"sync"
	"time"

	"github.com/ipfs/boxo/bitswap"
	"github.com/ipfs/boxo/bitswap/client/verifgetter"
	"github.com/ipfs/boxo/bitswap/client/verifsession"
	testsession "github.com/ipfs/boxo/bitswap/testinstance"
	tn "github.com/ipfs/boxo/bitswap/testnet"
	mockrouting "github.com/ipfs/boxo/routing/mock"
	blocks "github.com/ipfs/go-block-format"
	"github.com/ipfs/go-cid"
	delay "github.com/ipfs/go-ipfs-delay"
	logging "github.com/ipfs/go-log/v2"

	"verifharness/vh"
)

func init() { logging.SetLogLevel("*", "fatal") }

// blk(i), i < 8: CIDv0 (dag-pb, sha2-256) of some bytes; blk(i+8) is the SAME bytes under another CID with the
// same multihash: CIDv1 dag-pb for i < 4, CIDv1 raw for 4 <= i < 8. Distinct CIDs are distinct keys of a request.
func blk(i int) blocks.Block {
	if i < 8 {
		return blocks.NewBlock([]byte(fmt.Sprintf("c37-block-%d", i)))
	}
	base := blocks.NewBlock([]byte(fmt.Sprintf("c37-block-%d", i-8)))
	codec := uint64(cid.DagProtobuf)
	if i-8 >= 4 {
		codec = cid.Raw
	}
	b, err := blocks.NewBlockWithCid(base.RawData(), cid.NewCidV1(codec, base.Cid().Hash()))
	if err != nil {
		panic(err)
	}
	return b
}

// ---------------------------------------------------------------- generator

func gen(r *vh.Rand, tier string, n int, emit func(vh.Case)) {
	base := r.Fork() // see cmd/c36: consecutive seeds must not give shifted copies of the same cases
	nnet := n / 40
	if nnet < 1 {
		nnet = 1
	}
	for i := 0; i < n; i++ {
		rr := base.Fork()
		if i%50 == 49 || (i == n-1 && n < 50) {
			_ = nnet
			emit(vh.Case{ID: strconv.Itoa(i), Ops: []string{fmt.Sprintf("net %d %d %d %d", rr.Intn(1<<30), rr.Range(2, 6), rr.Range(1, 8), vh.Pick(rr, []int{0, 0, 1, 3}))}})
			continue
		}
		if i%5 == 2 {
			emit(genSW(rr, strconv.Itoa(i)))
			continue
		}
		emit(genCore(rr, strconv.Itoa(i)))
	}
}

// genSW: scripts over the session's want bookkeeping
func genSW(r *vh.Rand, id string) vh.Case {
	c := vh.Case{ID: id}
	pool := r.Range(2, 8)
	c.Ops = append(c.Ops, fmt.Sprintf("sw %d", vh.Pick(r, []int{1, 2, 2, 3, 4, 64, 0})))
	ks := func() string {
		var xs []string
		for i, m := 0, r.Range(0, 4); i < m; i++ {
			xs = append(xs, strconv.Itoa(r.Intn(pool)))
		}
		return strings.Join(xs, " ")
	}
	long := r.Chance(1, 12) // long enough for the liveWantsOrder clean-up (> 32 stale entries)
	n := r.Range(4, 20)
	if long {
		n = r.Range(80, 140)
	}
	for i := 0; i < n; i++ {
		switch x := r.Intn(100); {
		case x < 25:
			c.Ops = append(c.Ops, strings.TrimSpace("req "+ks()))
		case x < 40:
			c.Ops = append(c.Ops, "next")
		case x < 50:
			c.Ops = append(c.Ops, strings.TrimSpace("sent "+ks()))
		case x < 65:
			c.Ops = append(c.Ops, strings.TrimSpace("recv "+ks()))
		case x < 80:
			c.Ops = append(c.Ops, "bcast")
		case x < 90:
			c.Ops = append(c.Ops, strings.TrimSpace("cancelp "+ks()))
		case x < 95:
			c.Ops = append(c.Ops, "live")
		default:
			c.Ops = append(c.Ops, "rand")
		}
	}
	c.Ops = append(c.Ops, "bcast", "next", "live")
	return c
}

func shuffledInts(r *vh.Rand, n int) []int {
	p := make([]int, n)
	for i := range p {
		p[i] = i
	}
	for i := n - 1; i > 0; i-- {
		j := r.Intn(i + 1)
		p[i], p[j] = p[j], p[i]
	}
	return p
}

func genCore(r *vh.Rand, id string) vh.Case {
	c := vh.Case{ID: id}
	nk := r.Range(1, 5)
	if r.Chance(1, 20) {
		nk = 0
	}
	pool := r.Range(max(nk, 1), 7)
	var keys []int
	for i := 0; i < nk; i++ {
		keys = append(keys, r.Intn(pool)) // duplicates on purpose
	}
	twins := r.Chance(1, 3) // keys that share a multihash: k and k+8 are different CIDs of the same bytes
	if twins {
		for i, k := range keys {
			if r.Chance(1, 2) {
				keys = append(keys, k+8)
			} else if r.Chance(1, 3) {
				keys[i] = k + 8
			}
		}
	}
	ks := make([]string, len(keys))
	want := map[int]bool{}
	for i, k := range keys {
		ks[i] = strconv.Itoa(k)
		want[k] = true
	}
	pending := 0 // matched publishes not yet read
	published := map[int]bool{}
	if r.Chance(1, 4) && nk > 0 {
		// a connected node answers from inside want(): every key it holds must be delivered
		var hs []string
		cand := shuffledInts(r, pool+1)
		if twins {
			for _, k := range shuffledInts(r, pool+1) {
				cand = append(cand, k+8)
			}
		}
		for _, k := range cand {
			if r.Chance(1, 2) {
				hs = append(hs, strconv.Itoa(k))
				if want[k] && !published[k] {
					published[k] = true
					pending++
				}
			}
		}
		c.Ops = append(c.Ops, strings.TrimSpace("zget "+strings.Join(ks, " ")+" / "+strings.Join(hs, " ")))
	} else {
		c.Ops = append(c.Ops, strings.TrimSpace("get "+strings.Join(ks, " ")))
	}
	delivered := 0
	cancelled := false
	happy := r.Chance(1, 4)
	for i, m := 0, r.Range(2, 18); i < m; i++ {
		x := r.Intn(100)
		if happy && x >= 80 {
			x = r.Intn(80)
		}
		if pending > 0 && r.Chance(1, 3) {
			x = 50
		}
		switch {
		case x < 45:
			k := r.Intn(pool + 1) // pool+… = sometimes a CID nobody asked for
			if len(keys) > 0 && r.Chance(3, 5) {
				k = keys[r.Intn(len(keys))]
			} else if twins && r.Chance(1, 2) {
				k += 8 // the twin CID, requested or not
			}
			c.Ops = append(c.Ops, fmt.Sprintf("pub %d", k))
			if want[k] && !published[k] && !cancelled {
				published[k] = true
				pending++
			}
		case x < 80:
			if pending > 0 || cancelled || delivered == len(want) || r.Chance(1, 6) {
				c.Ops = append(c.Ops, "read")
				if pending > 0 && !cancelled {
					pending--
					delivered++
				}
			}
		case x < 88:
			c.Ops = append(c.Ops, vh.Pick(r, []string{"cancel", "cancel", "sesscancel"}))
			cancelled = true
			pending = 0
		default:
			c.Ops = append(c.Ops, "fin")
		}
	}
	c.Ops = append(c.Ops, "fin")
	return c
}

// ---------------------------------------------------------------- part 1: the getter core

type core struct {
	o          *vh.Out
	notif      verifgetter.PubSub
	cancel     context.CancelFunc
	sessCancel context.CancelFunc
	out        <-chan blocks.Block
	keys       map[cid.Cid]int
	idx        map[cid.Cid]int
	published  map[int]bool
	pending    []int // matched publishes not yet read, FIFO
	delivered  map[int]bool
	cwCh       chan []cid.Cid
	cwCalls    int
	mu         sync.Mutex
	done       bool // a context was cancelled or cancelWants was observed
	closedSeen bool
	dead       bool // a Publish blocked: the pub/sub loop is stuck, nothing further can be observed
	wantCalls  int
}

func (g *core) stop() {
	if g.notif == nil {
		return
	}
	g.cancel()
	g.sessCancel()
	if g.dead {
		g.notif = nil // Shutdown would block on the stuck pub/sub loop
		return
	}
	if !g.done && len(g.keys) > 0 {
		select {
		case <-g.cwCh:
		case <-time.After(2 * time.Second):
		}
	}
	g.notif.Shutdown()
	g.notif = nil
}

func (g *core) cwString(arg []cid.Cid) string {
	var is []int
	for _, c := range arg {
		is = append(is, g.idx[c])
	}
	sort.Ints(is)
	ss := make([]string, len(is))
	for i, x := range is {
		ss[i] = strconv.Itoa(x)
	}
	return "[" + strings.Join(ss, ",") + "]"
}

// waitCw waits for the cancelWants call and checks the cleanup clause directly
func (g *core) waitCw() (string, bool) {
	select {
	case arg := <-g.cwCh:
		g.done = true
		g.mu.Lock()
		calls := g.cwCalls
		g.mu.Unlock()
		if calls != 1 {
			g.o.Fail("cancelwants-not-once", "cancelWants called %d times", calls)
		}
		seen := map[int]bool{}
		for _, c := range arg {
			i, ok := g.idx[c]
			if _, req := g.keys[c]; !ok || !req {
				g.o.Fail("cancelwants-unrequested", "cancelWants got a key that was not requested")
				continue
			}
			if seen[i] {
				g.o.Fail("cancelwants-duplicate", "cancelWants got key %d twice", i)
			}
			seen[i] = true
			if g.delivered[i] {
				g.o.Fail("cancelwants-delivered-key", "cancelWants got key %d which was delivered", i)
			}
		}
		// every requested key that was neither delivered nor published-and-unread must be cancelled
		unread := map[int]bool{}
		for _, i := range g.pending {
			unread[i] = true
		}
		for c := range g.keys {
			i := g.idx[c]
			if !g.delivered[i] && !unread[i] && !seen[i] {
				g.o.Fail("cancelwants-missing-key", "key %d was neither delivered nor cancelled", i)
			}
		}
		racy := len(g.pending) > 0
		// the output channel must be closed by now (close(out) precedes cfun)
		select {
		case b, ok := <-g.out:
			if ok {
				g.o.Fail("delivery-after-cancelwants", "block %d delivered after cancelWants", g.idx[b.Cid()])
			}
		case <-time.After(2 * time.Second):
			g.o.Fail("out-not-closed", "output channel still open after cancelWants")
		}
		if racy {
			return "cw-racy", true
		}
		return "cw " + g.cwString(arg), true
	case <-time.After(3 * time.Second):
		g.o.Fail("cancelwants-not-called", "cancelWants was not called within 3s")
		return "cw-timeout", false
	}
}

func (g *core) allDelivered() bool {
	for c := range g.keys {
		if !g.delivered[g.idx[c]] {
			return false
		}
	}
	return true
}

func execCore(g *core, f []string, o *vh.Out) string {
	if g.dead && f[0] != "get" {
		return "dead"
	}
	switch f[0] {
	case "get", "zget":
		var held []int
		if f[0] == "zget" {
			sep := -1
			for i, t := range f {
				if t == "/" {
					sep = i
				}
			}
			if sep < 0 {
				return "bad-op"
			}
			for _, t := range f[sep+1:] {
				held = append(held, vh.Atoi(t))
			}
			f = f[:sep]
			o.Kind("zero-latency-peer")
		}
		g.stop()
		*g = core{o: o, keys: map[cid.Cid]int{}, idx: map[cid.Cid]int{}, published: map[int]bool{}, delivered: map[int]bool{}, cwCh: make(chan []cid.Cid, 4)}
		for i := 0; i < 16; i++ {
			g.idx[blk(i).Cid()] = i
		}
		var keys []cid.Cid
		for _, t := range f[1:] {
			c := blk(vh.Atoi(t)).Cid()
			keys = append(keys, c)
			g.keys[c]++
		}
		for _, n := range g.keys {
			if n > 1 {
				o.Kind("dup-keys")
			}
		}
		g.notif = verifgetter.NewPubSub()
		ctx, cancel := context.WithCancel(context.Background())
		sctx, scancel := context.WithCancel(context.Background())
		g.cancel, g.sessCancel = cancel, scancel
		out, err := verifgetter.AsyncGetBlocks(ctx, sctx, keys, g.notif,
			func(context.Context, []cid.Cid) {
				g.wantCalls++
				// zero-latency peer: the blocks it holds arrive while want() is still running
				for _, i := range held {
					b := blk(i)
					if _, req := g.keys[b.Cid()]; req && !g.published[i] {
						g.published[i] = true
						g.pending = append(g.pending, i)
					}
					g.notif.Publish("", b)
				}
			},
			func(ks []cid.Cid) {
				g.mu.Lock()
				g.cwCalls++
				g.mu.Unlock()
				g.cwCh <- append([]cid.Cid(nil), ks...)
			})
		if err != nil {
			return "err"
		}
		g.out = out
		if len(keys) == 0 {
			g.done = true
			o.Kind("no-keys")
		}
		return "ok"
	case "pub":
		if g.notif == nil {
			return "bad-op"
		}
		i := vh.Atoi(f[1])
		b := blk(i)
		if _, req := g.keys[b.Cid()]; req && !g.published[i] && !g.done {
			g.published[i] = true
			g.pending = append(g.pending, i)
		} else if req {
			o.Kind("republish")
		} else {
			o.Kind("unrequested-publish")
		}
		pubDone := make(chan struct{})
		go func() { g.notif.Publish("", b); close(pubDone) }()
		select {
		case <-pubDone:
		case <-time.After(3 * time.Second):
			o.Fail("publish-blocked", "notif.Publish of block %d did not return within 3s", i)
			g.dead = true
			return "dead"
		}
		return "ok"
	case "read":
		if g.notif == nil {
			return "bad-op"
		}
		wait := 30 * time.Millisecond
		if len(g.pending) > 0 || g.done || g.allDelivered() {
			wait = 3 * time.Second
		}
		select {
		case b, ok := <-g.out:
			if !ok {
				g.closedSeen = true
				return "closed"
			}
			i, known := g.idx[b.Cid()]
			if _, req := g.keys[b.Cid()]; !known || !req {
				o.Fail("unrequested-block", "block %d delivered but never requested", i)
			}
			if g.delivered[i] {
				o.Fail("duplicate-block", "block %d delivered twice", i)
			}
			g.delivered[i] = true
			if len(g.pending) > 0 && g.pending[0] == i {
				g.pending = g.pending[1:]
			} else {
				o.Fail("out-of-order-or-unpublished", "block %d delivered but the oldest unread publish is %v", i, g.pending)
			}
			o.Kind("deliver")
			return fmt.Sprintf("blk %d", i)
		case <-time.After(wait):
			if wait > time.Second {
				o.Fail("read-timeout", "nothing arrived within %s although blocks %v were published for requested keys (a connected node sent them)", wait, g.pending)
			}
			return "none"
		}
	case "cancel", "sesscancel":
		if g.notif == nil {
			return "bad-op"
		}
		if g.done {
			return "done"
		}
		if len(g.pending) > 0 {
			o.Kind("cancel-with-unread")
		} else {
			o.Kind("cancel-quiet")
		}
		if f[0] == "cancel" {
			g.cancel()
		} else {
			g.sessCancel()
		}
		s, _ := g.waitCw()
		g.pending = nil
		return s
	case "fin":
		if g.notif == nil {
			return "bad-op"
		}
		if g.done {
			return "done"
		}
		if !g.allDelivered() {
			return "notdone"
		}
		o.Kind("complete")
		o.Nontrivial()
		s, _ := g.waitCw()
		return s
	}
	return "bad-op"
}

// ---------------------------------------------------------------- part 2: virtual network exploration

type req struct {
	keys      []cid.Cid
	session   bool
	cancelAt  int // cancel after this many blocks (-1: never)
	cancelMs  int // or after this delay (0: none)
	servable  bool
	failure   string
	delivered map[cid.Cid]bool
}

// one scenario; returns the list of failures ("sig: detail")
func netScenario(seed, nodes, nblocks, latMs int) (fails []string, kinds []string) {
	r := vh.NewRand(uint64(seed))
	net := tn.VirtualNetwork(delay.Fixed(time.Duration(latMs) * time.Millisecond))
	ig := testsession.NewTestInstanceGenerator(net, mockrouting.NewServer(), nil, nil)
	defer ig.Close()
	insts := ig.Instances(nodes)
	defer func() {
		for _, in := range insts {
			in.Exchange.Close()
		}
	}()
	ctx := context.Background()
	var bl []blocks.Block
	held := map[cid.Cid]bool{}
	for i := 0; i < nblocks; i++ {
		b := blocks.NewBlock([]byte(fmt.Sprintf("net-%d-%d", seed, i)))
		bl = append(bl, b)
		if r.Chance(1, 8) {
			kinds = append(kinds, "net-absent-block")
			continue // nobody has it
		}
		for k, m := 0, r.Range(1, 2); k < m; k++ {
			h := insts[r.Range(1, nodes-1)]
			if err := h.Blockstore.Put(ctx, b); err != nil {
				panic(err)
			}
		}
		held[b.Cid()] = true
	}
	me := insts[0]
	nreq := r.Range(1, 3)
	reqs := make([]*req, nreq)
	for i := range reqs {
		q := &req{cancelAt: -1, servable: true, delivered: map[cid.Cid]bool{}}
		for k, m := 0, r.Range(1, nblocks+1); k < m; k++ {
			b := bl[r.Intn(nblocks)] // duplicates on purpose
			q.keys = append(q.keys, b.Cid())
			if !held[b.Cid()] {
				q.servable = false
			}
		}
		q.session = r.Bool()
		switch {
		case !q.servable:
			q.cancelMs = r.Range(5, 60)
		case r.Chance(1, 4):
			q.cancelAt = r.Intn(len(q.keys))
		case r.Chance(1, 6):
			q.cancelMs = r.Range(0, 20) + 1
		}
		reqs[i] = q
	}
	var wg sync.WaitGroup
	var mu sync.Mutex
	addFail := func(s string) { mu.Lock(); fails = append(fails, s); mu.Unlock() }
	for _, q := range reqs {
		q := q
		wg.Add(1)
		go func() {
			defer wg.Done()
			rctx, cancel := context.WithCancel(ctx)
			defer cancel()
			var ch <-chan blocks.Block
			var err error
			if len(q.keys) == 1 && !q.session && q.servable && q.cancelAt < 0 && q.cancelMs == 0 {
				// the synchronous entry point (getter.SyncGetBlock)
				gctx, gcancel := context.WithTimeout(rctx, 8*time.Second)
				b, err := me.Exchange.GetBlock(gctx, q.keys[0])
				gcancel()
				if err != nil {
					addFail("net-not-delivered: GetBlock of a block held by a connected node: " + err.Error())
				} else if !b.Cid().Equals(q.keys[0]) {
					addFail("net-unrequested-block: GetBlock returned " + b.Cid().String())
				}
				return
			}
			if q.session {
				ch, err = me.Exchange.NewSession(rctx).GetBlocks(rctx, q.keys)
			} else {
				ch, err = me.Exchange.GetBlocks(rctx, q.keys)
			}
			if err != nil {
				addFail("net-getblocks-error: " + err.Error())
				return
			}
			wanted := map[cid.Cid]bool{}
			for _, k := range q.keys {
				wanted[k] = true
			}
			var timer <-chan time.Time
			if q.cancelMs > 0 {
				timer = time.After(time.Duration(q.cancelMs) * time.Millisecond)
			}
			deadline := time.After(8 * time.Second)
			cancelled := false
			n := 0
			if q.cancelAt == 0 {
				cancel()
				cancelled = true
			}
			for {
				select {
				case b, ok := <-ch:
					if !ok {
						if !cancelled && len(q.delivered) != len(wanted) {
							addFail(fmt.Sprintf("net-closed-early: channel closed after %d of %d blocks", len(q.delivered), len(wanted)))
						}
						return
					}
					if !wanted[b.Cid()] {
						addFail("net-unrequested-block: " + b.Cid().String())
					}
					if q.delivered[b.Cid()] {
						addFail("net-duplicate-block: " + b.Cid().String())
					}
					q.delivered[b.Cid()] = true
					n++
					if q.cancelAt == n {
						cancel()
						cancelled = true
					}
				case <-timer:
					cancel()
					cancelled = true
					timer = nil
				case <-deadline:
					if !cancelled {
						addFail(fmt.Sprintf("net-not-delivered: %d of %d blocks after 8s", len(q.delivered), len(wanted)))
					}
					cancel()
					cancelled = true
					deadline = nil
				}
			}
		}()
	}
	wg.Wait()
	// every request has ended: the requester's want-list must become empty
	ok := false
	var wl []cid.Cid
	for i := 0; i < 200; i++ {
		wl = me.Exchange.GetWantlist()
		if len(wl) == 0 {
			ok = true
			break
		}
		time.Sleep(10 * time.Millisecond)
	}
	if !ok {
		addFail(fmt.Sprintf("net-wantlist-not-cleaned: %d CIDs still wanted 2s after every request ended", len(wl)))
	}
	for _, q := range reqs {
		if q.session {
			kinds = append(kinds, "net-session")
		} else {
			kinds = append(kinds, "net-getblocks")
		}
		if q.cancelAt >= 0 || q.cancelMs > 0 {
			kinds = append(kinds, "net-cancel")
		}
	}
	return fails, kinds
}

// leakScenario: a session that OUTLIVES its request. The request asks for a CID nobody holds (a live want),
// is cancelled, and the requester's want-list is then watched across several idle ticks / periodic searches of the
// session (short ProviderSearchDelay and RebroadcastDelay through the public options) and after the session is
// closed: a cancelled CID must never come back.
func leakScenario(seed, latMs int, withHeld bool) (fails []string) {
	const searchDelay = 100 * time.Millisecond
	net := tn.VirtualNetwork(delay.Fixed(time.Duration(latMs) * time.Millisecond))
	ig := testsession.NewTestInstanceGenerator(net, mockrouting.NewServer(), nil, []bitswap.Option{
		bitswap.ProviderSearchDelay(searchDelay), bitswap.RebroadcastDelay(300 * time.Millisecond)})
	defer ig.Close()
	insts := ig.Instances(3)
	defer func() {
		for _, in := range insts {
			in.Exchange.Close()
		}
	}()
	me := insts[0]
	held := blocks.NewBlock([]byte(fmt.Sprintf("leak-held-%d", seed)))
	missing := blocks.NewBlock([]byte(fmt.Sprintf("leak-missing-%d", seed)))
	if err := insts[1].Blockstore.Put(context.Background(), held); err != nil {
		panic(err)
	}
	sessCtx, closeSession := context.WithCancel(context.Background())
	defer closeSession()
	sess := me.Exchange.NewSession(sessCtx)
	reqCtx, cancelReq := context.WithCancel(context.Background())
	defer cancelReq()
	keys := []cid.Cid{missing.Cid()}
	if withHeld {
		keys = []cid.Cid{held.Cid(), missing.Cid(), held.Cid()}
	}
	onList := func() []cid.Cid {
		var found []cid.Cid
		for _, w := range me.Exchange.GetWantlist() {
			for _, k := range keys {
				if w.Equals(k) {
					found = append(found, k)
				}
			}
		}
		return found
	}
	ch, err := sess.GetBlocks(reqCtx, keys)
	if err != nil {
		return []string{"net-getblocks-error: " + err.Error()}
	}
	if withHeld {
		select {
		case b, ok := <-ch:
			if !ok || !b.Cid().Equals(held.Cid()) {
				return []string{"net-not-delivered: long-lived session did not deliver the held block first"}
			}
		case <-time.After(8 * time.Second):
			return []string{"net-not-delivered: long-lived session, held block not delivered after 8s"}
		}
	}
	for i := 0; len(onList()) == 0; i++ { // the missing key becomes a live want
		if i > 300 {
			return []string{"net-want-never-listed: the requested CID nobody holds never reached the want-list"}
		}
		time.Sleep(10 * time.Millisecond)
	}
	cancelReq()
	closed := false
	for !closed {
		select {
		case b, ok := <-ch:
			if !ok {
				closed = true
			} else {
				fails = append(fails, "net-delivery-after-cancel: "+b.Cid().String())
			}
		case <-time.After(5 * time.Second):
			return append(fails, "net-closed-late: output channel not closed 5s after the cancel")
		}
	}
	for i := 0; len(onList()) != 0; i++ {
		if i > 200 {
			return append(fails, "net-wantlist-not-cleaned: cancelled CIDs still wanted 2s after the cancel (long-lived session)")
		}
		time.Sleep(10 * time.Millisecond)
	}
	watch := 650 * time.Millisecond // >= 3 idle ticks (100, +200, +300 ms) and 2 periodic searches
	if withHeld {
		watch = 1300 * time.Millisecond // the idle tick is 500 ms + 3 x latency once a block was received
	}
	for end := time.Now().Add(watch); time.Now().Before(end); time.Sleep(10 * time.Millisecond) {
		if l := onList(); len(l) != 0 {
			return append(fails, fmt.Sprintf("net-cancelled-cid-back-on-wantlist: %d cancelled CID(s) reappeared on GetWantlist() while the session lives on", len(l)))
		}
	}
	closeSession()
	time.Sleep(150 * time.Millisecond)
	if l := onList(); len(l) != 0 {
		fails = append(fails, fmt.Sprintf("net-wantlist-after-session-close: %d cancelled CID(s) on GetWantlist() after the session was closed", len(l)))
	}
	return fails
}

// mixedCancelScenario: ONE cancel batch that mixes a broadcast want with a want that was only sent to a specific
// peer (the two clean-up paths of the peer want manager in one call). Afterwards the requester's want-list must
// be empty. Shape "session": a session with a peer, an exhausted (broadcast) request for a CID nobody holds plus a
// newer request still in flight to the session peer, then the session is closed. Shape "many": GetBlocks with more
// than 64 keys (only 64 are broadcast), cancelled after a peer was discovered and before its DONT_HAVEs return.
// Needs latency; when the machine is too slow to hit the window the scenario reports "not reached" (no failure).
func mixedCancelScenario(seed int, many bool) (fails []string, reached bool) {
	const lat = 150 * time.Millisecond
	net := tn.VirtualNetwork(delay.Fixed(lat))
	ig := testsession.NewTestInstanceGenerator(net, mockrouting.NewServer(), nil, nil)
	defer ig.Close()
	insts := ig.Instances(3)
	defer func() {
		for _, in := range insts {
			in.Exchange.Close()
		}
	}()
	a, b := insts[0], insts[1]
	ctx := context.Background()
	held := blocks.NewBlock([]byte(fmt.Sprintf("mixed-held-%d", seed)))
	if err := b.Blockstore.Put(ctx, held); err != nil {
		panic(err)
	}
	missing := func(i int) cid.Cid { return blocks.NewBlock([]byte(fmt.Sprintf("mixed-missing-%d-%d", seed, i))).Cid() }
	has := func(l []cid.Cid, k cid.Cid) bool {
		for _, c := range l {
			if c.Equals(k) {
				return true
			}
		}
		return false
	}
	waitFor := func(d time.Duration, cond func() bool) bool {
		for end := time.Now().Add(d); !cond(); time.Sleep(2 * time.Millisecond) {
			if time.Now().After(end) {
				return false
			}
		}
		return true
	}
	var requested []cid.Cid
	if many {
		keys := []cid.Cid{held.Cid()}
		for i := 0; i < 79; i++ {
			keys = append(keys, missing(i))
		}
		keys = append(keys, held.Cid(), missing(3))
		requested = keys
		rctx, cancel := context.WithCancel(ctx)
		defer cancel()
		ch, err := a.Exchange.GetBlocks(rctx, keys)
		if err != nil {
			return []string{"net-getblocks-error: " + err.Error()}, false
		}
		select {
		case got, ok := <-ch:
			if !ok || !got.Cid().Equals(held.Cid()) {
				return []string{"net-not-delivered: >64-key request did not deliver the held block first"}, false
			}
		case <-time.After(8 * time.Second):
			return []string{"net-not-delivered: >64-key request, held block not delivered after 8s"}, false
		}
		if !waitFor(lat, func() bool { return len(a.Exchange.GetWantBlocks()) == 79 }) || len(a.Exchange.GetWantHaves()) > 64 {
			return nil, false
		}
		cancel()
		for got := range ch {
			fails = append(fails, "net-delivery-after-cancel: "+got.Cid().String())
		}
	} else {
		z, y := missing(0), missing(1)
		requested = []cid.Cid{z, y}
		sctx, closeSession := context.WithCancel(ctx)
		defer closeSession()
		ses := a.Exchange.NewSession(sctx)
		gctx, gcancel := context.WithTimeout(ctx, 8*time.Second)
		got, err := ses.GetBlock(gctx, held.Cid())
		gcancel()
		if err != nil || !got.Cid().Equals(held.Cid()) {
			return []string{fmt.Sprintf("net-not-delivered: session GetBlock of a held block: %v", err)}, false
		}
		if !waitFor(3*time.Second, func() bool { return len(a.Exchange.GetWantlist()) == 0 }) {
			return []string{"net-wantlist-not-cleaned: want-list not empty 3s after a completed session GetBlock"}, false
		}
		ch1, err := ses.GetBlocks(ctx, []cid.Cid{z})
		if err != nil {
			return []string{"net-getblocks-error: " + err.Error()}, false
		}
		if !waitFor(5*time.Second, func() bool { return has(a.Exchange.GetWantHaves(), z) }) {
			return nil, false // never became a broadcast want
		}
		ch2, err := ses.GetBlocks(ctx, []cid.Cid{y, y})
		if err != nil {
			return []string{"net-getblocks-error: " + err.Error()}, false
		}
		if !waitFor(lat, func() bool { return has(a.Exchange.GetWantBlocks(), y) }) || has(a.Exchange.GetWantHaves(), y) {
			closeSession()
			return nil, false
		}
		closeSession()
		for got := range ch1 {
			fails = append(fails, "net-delivery-after-cancel: "+got.Cid().String())
		}
		for got := range ch2 {
			fails = append(fails, "net-delivery-after-cancel: "+got.Cid().String())
		}
	}
	if !waitFor(3*time.Second, func() bool { return len(a.Exchange.GetWantlist()) == 0 }) {
		left := 0
		for _, c := range a.Exchange.GetWantlist() {
			if has(requested, c) {
				left++
			}
		}
		fails = append(fails, fmt.Sprintf("net-wantlist-leak-after-mixed-cancel-batch: %d CID(s) of the cancelled request(s) still on GetWantlist() 3s after one cancel batch mixing broadcast and peer-targeted wants", left))
	}
	return fails, true
}

func execNet(f []string, o *vh.Out) string {
	if len(f) != 5 {
		return "bad-op"
	}
	seed, nodes, nb, lat := vh.Atoi(f[1]), vh.Atoi(f[2]), vh.Atoi(f[3]), vh.Atoi(f[4])
	if nodes < 2 || nodes > 6 || nb < 1 || nb > 32 {
		return "bad-op"
	}
	// a failure is reported only if the same scenario fails three times in a row (scheduling / timeouts)
	var last []string
	for attempt := 0; attempt < 3; attempt++ {
		fails, kinds := netScenario(seed, nodes, nb, lat)
		if seed%2 == 0 {
			fails = append(fails, leakScenario(seed, lat, seed%4 == 0)...)
			kinds = append(kinds, "net-long-lived-session")
		} else {
			mf, reached := mixedCancelScenario(seed, seed%4 == 1)
			fails = append(fails, mf...)
			if reached {
				kinds = append(kinds, "net-mixed-cancel-batch")
			} else {
				kinds = append(kinds, "net-mixed-cancel-not-reached")
			}
		}
		for _, k := range kinds {
			o.Kind(k)
		}
		if len(fails) == 0 {
			o.Kind(fmt.Sprintf("net-nodes%d", nodes))
			return "ok"
		}
		last = fails
		// a duplicate or unrequested block is never excused by timing
		for _, s := range fails {
			if strings.HasPrefix(s, "net-duplicate-block") || strings.HasPrefix(s, "net-unrequested-block") {
				attempt = 3
			}
		}
	}
	seen := map[string]bool{}
	for _, s := range last {
		sig := strings.SplitN(s, ":", 2)[0]
		if !seen[sig] {
			seen[sig] = true
			o.Fail(sig, "%s", s)
		}
	}
	return "ok"
}

// ---------------------------------------------------------------- part 1b: sessionWants

type swState struct {
	sw        *verifsession.SessionWants
	cancelled map[int]bool // cancelled and not requested again: must never be returned
	received  map[int]bool // received and not requested again
}

func idxList(m map[cid.Cid]int, cs []cid.Cid, sorted bool) string {
	var is []int
	for _, c := range cs {
		is = append(is, m[c])
	}
	if sorted {
		sort.Ints(is)
	}
	ss := make([]string, len(is))
	for i, x := range is {
		ss[i] = strconv.Itoa(x)
	}
	return "[" + strings.Join(ss, ",") + "]"
}

func execSW(w *swState, f []string, o *vh.Out) string {
	idx := map[cid.Cid]int{}
	for i := 0; i < 16; i++ {
		idx[blk(i).Cid()] = i
	}
	var ks []cid.Cid
	var ki []int
	for _, t := range f[1:] {
		ks = append(ks, blk(vh.Atoi(t)).Cid())
		ki = append(ki, vh.Atoi(t))
	}
	// monitor: nothing that was cancelled (or received) and not requested again is ever returned
	returned := func(what string, cs []cid.Cid) {
		for _, c := range cs {
			i := idx[c]
			if w.cancelled[i] {
				o.Fail("cancelled-cid-returned-by-session-wants", "%s returned CID %d after CancelPending (the session would broadcast it again)", what, i)
			}
			if w.received[i] {
				o.Fail("received-cid-returned-by-session-wants", "%s returned CID %d whose block was already received", what, i)
			}
		}
	}
	res := "ok"
	switch f[0] {
	case "req":
		w.sw.BlocksRequested(ks)
		for _, i := range ki {
			delete(w.cancelled, i)
			delete(w.received, i)
		}
	case "sent":
		w.sw.WantsSent(ks)
	case "cancelp":
		w.sw.CancelPending(ks)
		for _, i := range ki {
			w.cancelled[i] = true
			if w.sw.IsWanted(blk(i).Cid()) {
				o.Fail("cancelled-cid-still-wanted", "CID %d is still wanted right after CancelPending", i)
			}
		}
		o.Kind("sw-cancel")
	case "recv":
		wanted := w.sw.BlocksReceived(ks)
		returned("BlocksReceived", wanted)
		for _, c := range wanted {
			w.received[idx[c]] = true
		}
		res = idxList(idx, wanted, false)
	case "next":
		out := w.sw.GetNextWants()
		returned("GetNextWants", out)
		res = idxList(idx, out, false)
		if len(out) > 0 {
			o.Kind("sw-next")
		}
	case "bcast":
		out := w.sw.PrepareBroadcast()
		returned("PrepareBroadcast", out)
		res = idxList(idx, out, false)
		if len(out) > 0 {
			o.Kind("sw-broadcast")
			if len(w.cancelled) > 0 {
				o.Nontrivial()
			}
		}
	case "live":
		out := w.sw.LiveWants()
		returned("LiveWants", out)
		res = idxList(idx, out, true)
	case "rand":
		c := w.sw.RandomLiveWant()
		if c.Defined() {
			returned("RandomLiveWant", []cid.Cid{c})
			found := false
			for _, l := range w.sw.LiveWants() {
				if l == c {
					found = true
				}
			}
			if !found {
				o.Fail("random-live-want-not-live", "RandomLiveWant returned CID %d which is not a live want", idx[c])
			}
		} else if w.sw.HasLiveWants() {
			o.Fail("random-live-want-undefined", "RandomLiveWant returned nothing although there are live wants")
		}
	default:
		return "bad-op"
	}
	elems, pending, order := w.sw.Dump()
	if len(order) > 100 {
		o.Kind("sw-long-order")
	}
	return fmt.Sprintf("%s | P %d E %s L %s O %s", res, pending, idxList(idx, elems, false), idxList(idx, w.sw.LiveWants(), true), idxList(idx, order, false))
}

func exec(c vh.Case, o *vh.Out) {
	g := &core{}
	defer g.stop()
	var w *swState
	for _, line := range c.Ops {
		f := strings.Fields(line)
		if len(f) == 0 {
			o.Emit("bad-op")
			continue
		}
		if f[0] == "sw" && len(f) == 2 {
			w = &swState{sw: verifsession.NewSessionWants(vh.Atoi(f[1])), cancelled: map[int]bool{}, received: map[int]bool{}}
			o.Kind("session-wants")
			o.Emit("ok | P 0 E [] L [] O []")
			continue
		}
		if w != nil {
			switch f[0] {
			case "req", "sent", "cancelp", "recv", "next", "bcast", "live", "rand":
				o.Emit("%s", execSW(w, f, o))
				continue
			}
		}
		if f[0] == "net" {
			o.Emit("%s", execNet(f, o))
			continue
		}
		o.Emit("%s", execCore(g, f, o))
	}
}

func main() { vh.Main(vh.Config{Gen: gen, Exec: exec, CaseTimeout: 45 * time.Second}) }
