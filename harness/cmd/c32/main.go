// C32 harness: drives the real gateway.NewHostnameHandler (with a recording next handler and a mock
// backend that only answers DNSLink lookups) through httptest, plus the exported InlineDNSLink /
// UninlineDNSLink. The CID / peer-ID codecs and the DNSLink predicate are parameters of the Lean
// model: each `req` line carries the finite table of what the real functions return on every string
// the handler can ask about.
package main

import (
	"context"
	"crypto/ed25519"
	"errors"
	"fmt"
	"io"
	"net"
	"net/http"
	"net/http/httptest"
	"net/url"
	"os"
	gopath "path"
	"regexp"
	"sort"
	"strconv"
	"strings"
	"time"

	"github.com/ipfs/boxo/files"
	"github.com/ipfs/boxo/gateway"
	"github.com/ipfs/boxo/path"
	cid "github.com/ipfs/go-cid"
	golog "github.com/ipfs/go-log/v2"
	ic "github.com/libp2p/go-libp2p/core/crypto"
	"github.com/libp2p/go-libp2p/core/peer"
	dns "github.com/miekg/dns"
	mbase "github.com/multiformats/go-multibase"
	mh "github.com/multiformats/go-multihash"

	"verifharness/vh"
)

// ---------------------------------------------------------------- mock backend

type backend struct{ dns map[string]bool }

var errNI = errors.New("not implemented")

func (b *backend) Get(context.Context, path.ImmutablePath, ...gateway.ByteRange) (gateway.ContentPathMetadata, *gateway.GetResponse, error) {
	return gateway.ContentPathMetadata{}, nil, errNI
}
func (b *backend) GetAll(context.Context, path.ImmutablePath) (gateway.ContentPathMetadata, files.Node, error) {
	return gateway.ContentPathMetadata{}, nil, errNI
}
func (b *backend) GetBlock(context.Context, path.ImmutablePath) (gateway.ContentPathMetadata, files.File, error) {
	return gateway.ContentPathMetadata{}, nil, errNI
}
func (b *backend) Head(context.Context, path.ImmutablePath) (gateway.ContentPathMetadata, *gateway.HeadResponse, error) {
	return gateway.ContentPathMetadata{}, nil, errNI
}
func (b *backend) ResolvePath(context.Context, path.ImmutablePath) (gateway.ContentPathMetadata, error) {
	return gateway.ContentPathMetadata{}, errNI
}
func (b *backend) GetCAR(context.Context, path.ImmutablePath, gateway.CarParams) (gateway.ContentPathMetadata, io.ReadCloser, error) {
	return gateway.ContentPathMetadata{}, nil, errNI
}
func (b *backend) IsCached(context.Context, path.Path) bool              { return false }
func (b *backend) GetIPNSRecord(context.Context, cid.Cid) ([]byte, error) { return nil, errNI }
func (b *backend) ResolveMutable(context.Context, path.Path) (path.ImmutablePath, time.Duration, time.Time, error) {
	return path.ImmutablePath{}, 0, time.Time{}, errNI
}
func (b *backend) GetDNSLinkRecord(_ context.Context, name string) (path.Path, error) {
	if b.dns[name] {
		return path.NewPath("/ipfs/bafkqaaa")
	}
	return nil, errNI
}

// hasDNSLink replicates gateway.hasDNSLinkRecord (unexported): it is a parameter of the model.
func (b *backend) hasDNSLink(host string) bool {
	name := host
	if h, _, err := net.SplitHostPort(host); err == nil {
		name = h
	}
	if net.ParseIP(name) != nil || len(name) == 0 {
		return false
	}
	if _, err := peer.Decode(name); err == nil {
		return false
	}
	if _, ok := dns.IsDomainName(name); !ok {
		return false
	}
	return b.dns[name]
}

// ---------------------------------------------------------------- the handler under test

type seen struct {
	called bool
	path   string
	rawq   string
	kind   string
	host   string
}

type world struct {
	be      *backend
	cfg     gateway.Config
	handler http.Handler
	last    *seen
}

func newWorld() *world {
	return &world{be: &backend{dns: map[string]bool{}}, cfg: gateway.Config{PublicGateways: map[string]*gateway.PublicGateway{}}}
}

func (w *world) build() {
	if w.handler != nil {
		return
	}
	next := http.HandlerFunc(func(rw http.ResponseWriter, r *http.Request) {
		s := &seen{called: true, path: r.URL.Path, rawq: r.URL.RawQuery, kind: "none"}
		if v, ok := r.Context().Value(gateway.GatewayHostnameKey).(string); ok {
			s.kind, s.host = "gateway", v
		}
		if v, ok := r.Context().Value(gateway.SubdomainHostnameKey).(string); ok {
			s.kind, s.host = "subdomain", v
		}
		if v, ok := r.Context().Value(gateway.DNSLinkHostnameKey).(string); ok {
			s.kind, s.host = "dnslink", v
		}
		w.last = s
	})
	w.handler = gateway.NewHostnameHandler(w.cfg, w.be, next)
}

type reqSpec struct {
	host, path, rawq, frag string
	https                  bool
	xfh                    string // X-Forwarded-Host ("" = absent)
}

// effHost is the host the handler works with (X-Forwarded-Host wins over Host)
func (q reqSpec) effHost() string {
	if q.xfh != "" {
		return q.xfh
	}
	return q.host
}

type outcome struct {
	status int
	loc    *url.URL
	rawLoc string
	seen   *seen
}

func (w *world) do(q reqSpec) outcome {
	w.build()
	req := httptest.NewRequest("GET", "http://placeholder/", nil)
	req.Host = q.host
	req.URL = &url.URL{Scheme: "http", Host: q.host, Path: q.path, RawQuery: q.rawq, Fragment: q.frag}
	req.RequestURI = ""
	if q.https {
		req.Header.Set("X-Forwarded-Proto", "https")
	}
	if q.xfh != "" {
		req.Header.Set("X-Forwarded-Host", q.xfh)
	}
	w.last = nil
	rec := httptest.NewRecorder()
	w.handler.ServeHTTP(rec, req)
	o := outcome{status: rec.Code, seen: w.last}
	if rec.Code == 301 {
		o.rawLoc = rec.Header().Get("Location")
		if u, err := url.Parse(o.rawLoc); err == nil {
			o.loc = u
		}
	}
	return o
}

func hexs(s string) string { return vh.Hex([]byte(s)) }

func (o outcome) String() string {
	switch {
	case o.seen != nil && o.seen.called:
		h := "-"
		if o.seen.kind != "none" {
			h = hexs(o.seen.host)
		}
		return fmt.Sprintf("next %s %s %s", hexs(o.seen.path), o.seen.kind, h)
	case o.status == 301 && o.loc != nil && o.loc.Host == "" && o.loc.Scheme == "":
		return fmt.Sprintf("301p %s", hexs(o.rawLoc))
	case o.status == 301 && o.loc != nil:
		s := 0
		if o.loc.Scheme == "https" {
			s = 1
		}
		return fmt.Sprintf("301 %d %s %s %s %s", s, hexs(o.loc.Host), hexs(o.loc.Path), hexs(o.loc.RawQuery), hexs(o.loc.Fragment))
	case o.status == 404:
		return "404"
	case o.status == 400:
		return "400"
	}
	return fmt.Sprintf("status-%d", o.status)
}

// ---------------------------------------------------------------- codec tables (parameters of the model)

func peerCid(s string) (string, bool) {
	p, err := peer.Decode(s)
	if err != nil {
		return "", false
	}
	return peer.ToCid(p).String(), true
}

func inlineRef(s string) string {
	return strings.ReplaceAll(strings.ReplaceAll(s, "-", "--"), ".", "-")
}
func uninlineRef(s string) string {
	s = strings.ReplaceAll(s, "--", "@")
	s = strings.ReplaceAll(s, "-", ".")
	return strings.ReplaceAll(s, "@", "-")
}

type tables struct {
	be      *backend
	entries map[string]bool
	cands   map[string]bool
}

func (t *tables) add(s string, depth int) {
	if t.cands[s] || depth > 2 || len(s) > 400 {
		return
	}
	t.cands[s] = true
	if pc, ok := peerCid(s); ok {
		t.entries["p="+hexs(s)+":"+hexs(pc)] = true
		t.add(pc, depth)
	} else {
		t.entries["p="+hexs(s)+":x"] = true
	}
	if c, err := cid.Decode(s); err == nil {
		t.entries[fmt.Sprintf("d=%s:%d,%d,%s", hexs(s), c.Version(), c.Type(), vh.Hex(c.Hash()))] = true
		for _, codec := range []uint64{c.Type(), cid.Libp2pKey} {
			for b36, base := range map[int]mbase.Encoding{0: mbase.Base32, 1: mbase.Base36} {
				e, err := cid.NewCidV1(codec, c.Hash()).StringOfBase(base)
				if err != nil {
					continue
				}
				t.entries[fmt.Sprintf("e=%d,%d,%s:%s", b36, codec, vh.Hex(c.Hash()), hexs(e))] = true
				t.add(e, depth)
			}
		}
	} else {
		t.entries["d="+hexs(s)+":x"] = true
	}
	v := 0
	if t.be.hasDNSLink(s) {
		v = 1
	}
	t.entries[fmt.Sprintf("l=%s:%d", hexs(s), v)] = true
	if _, err := url.Parse("http://" + s + ".ipns.example.net/"); err != nil {
		t.entries["u="+hexs(s)+":0"] = true
	}
	if strings.ContainsAny(s, "-.") {
		t.add(uninlineRef(s), depth+1)
		t.add(inlineRef(s), depth+1)
	}
}

func buildTables(be *backend, q reqSpec) string {
	t := &tables{be: be, entries: map[string]bool{}, cands: map[string]bool{}}
	hosts := []string{q.host}
	if q.xfh != "" {
		hosts = append(hosts, q.xfh)
	}
	for _, host := range hosts {
		t.add(host, 0)
		if h, _, err := net.SplitHostPort(host); err == nil {
			t.add(h, 0)
		}
		labels := strings.Split(host, ".")
		for k := 1; k < len(labels); k++ {
			switch labels[k] {
			case "ipfs", "ipns", "p2p", "ipld":
				t.add(strings.Join(labels[:k], "."), 0)
			}
		}
	}
	parts := strings.SplitN(q.path, "/", 4)
	if len(parts) >= 3 {
		t.add(parts[2], 0)
	}
	es := make([]string, 0, len(t.entries))
	for e := range t.entries {
		es = append(es, e)
	}
	sort.Strings(es)
	return strings.Join(es, " ")
}

// ---------------------------------------------------------------- generator

func seededPeer(r *vh.Rand) peer.ID {
	priv := ed25519.NewKeyFromSeed(r.Bytes(32))
	pub, err := ic.UnmarshalEd25519PublicKey(priv.Public().(ed25519.PublicKey))
	if err != nil {
		panic(err)
	}
	id, err := peer.IDFromPublicKey(pub)
	if err != nil {
		panic(err)
	}
	return id
}

func genID(r *vh.Rand, names []string) string {
	data := r.Bytes(8)
	sum := func(code uint64, l int) mh.Multihash {
		m, err := mh.Sum(data, code, l)
		if err != nil {
			panic(err)
		}
		return m
	}
	switch r.Intn(20) {
	case 0, 1:
		return cid.NewCidV0(sum(mh.SHA2_256, -1)).String()
	case 2, 3, 4:
		return cid.NewCidV1(vh.Pick(r, []uint64{cid.DagProtobuf, cid.Raw, cid.DagCBOR}), sum(mh.SHA2_256, -1)).String()
	case 5:
		c := cid.NewCidV1(vh.Pick(r, []uint64{cid.DagProtobuf, cid.Raw, cid.Libp2pKey}), sum(mh.SHA2_256, -1))
		s, _ := c.StringOfBase(vh.Pick(r, []mbase.Encoding{mbase.Base36, mbase.Base58BTC, mbase.Base16, mbase.Base32Upper, mbase.Base64url, mbase.Base36Upper}))
		return s
	case 6:
		// long digests: sha2-512 (label too long even in base36), blake2b-256, identity
		return cid.NewCidV1(cid.Raw, sum(vh.Pick(r, []uint64{mh.SHA2_512, mh.BLAKE2B_MIN + 31, mh.SHA3_384}), -1)).String()
	case 7:
		m, _ := mh.Sum(r.Bytes(r.Range(0, 40)), mh.IDENTITY, -1)
		return cid.NewCidV1(cid.Raw, m).String()
	case 8, 9:
		return seededPeer(r).String() // 12D3Koo… (identity multihash of an ed25519 key)
	case 10:
		return peer.ID(sum(mh.SHA2_256, -1)).String() // Qm… (RSA-style peer ID)
	case 11:
		return peer.ToCid(seededPeer(r)).String() // bafz…
	case 12:
		s, _ := peer.ToCid(seededPeer(r)).StringOfBase(mbase.Base36) // k51…
		return s
	case 13, 14, 15, 16:
		return vh.Pick(r, names)
	case 17:
		return inlineRef(vh.Pick(r, names))
	default:
		return vh.Pick(r, []string{"", "notacid", "Qmfoo", "a b", "trailing-", "-leading", "x--y", "my-host", "UPPER.example.com", "1.2.3.4", "a..b", "k51", "bafy"})
	}
}

var labelPool = []string{"en", "wikipedia-on-ipfs", "org", "my", "v-long", "example", "com", "a", "b-c", "x--y", "docs", "ipfs", "tech", "dist", "xn--bcher-kva", "0", "a1-b2-c3"}

func genName(r *vh.Rand) string {
	n := r.Range(2, 5)
	if r.Chance(1, 10) {
		n = r.Range(6, 14) // long: the inlined form may exceed 63 characters
	}
	ls := make([]string, n)
	for i := range ls {
		ls[i] = vh.Pick(r, labelPool)
	}
	if r.Chance(1, 12) { // not RFC-valid: a label that starts or ends with a hyphen
		ls[r.Intn(n)] = vh.Pick(r, []string{"-b", "b-", "-", "--"})
	}
	return strings.Join(ls, ".")
}

func genRest(r *vh.Rand) string {
	switch r.Intn(10) {
	case 0:
		return ""
	case 1:
		return "/"
	case 2:
		return "//x"
	case 3:
		return "/a b/c%d?e#f"
	case 4:
		return "/ünï/ço∂é"
	default:
		n := r.Range(1, 4)
		segs := make([]string, n)
		for i := range segs {
			segs[i] = vh.Pick(r, []string{"a", "b.txt", "index.html", "wiki", "..", ".", "x y", "ipfs", "-", "a%2Fb"})
		}
		s := "/" + strings.Join(segs, "/")
		if r.Chance(1, 4) {
			s += "/"
		}
		return s
	}
}

type gwSpec struct {
	host  string
	paths []string
	us    bool
	nd    bool
	inl   bool
}

func b2i(b bool) int {
	if b {
		return 1
	}
	return 0
}

func (g gwSpec) line() string {
	ps := make([]string, len(g.paths))
	for i, p := range g.paths {
		ps[i] = hexs(p)
	}
	p := strings.Join(ps, ",")
	if p == "" {
		p = "-"
	}
	hostNoPort := g.host
	if h, _, err := net.SplitHostPort(g.host); err == nil {
		hostNoPort = h
	}
	return fmt.Sprintf("gw %s %s %d %d %d %d", hexs(g.host), p, b2i(g.us), b2i(g.nd), b2i(g.inl), b2i(net.ParseIP(hostNoPort) != nil))
}

func (w *world) apply(line string) bool {
	f := strings.Fields(line)
	switch {
	case f[0] == "gw" && len(f) == 7:
		var paths []string
		if f[2] != "-" {
			for _, p := range strings.Split(f[2], ",") {
				paths = append(paths, string(vh.UnHex(p)))
			}
		}
		hn := string(vh.UnHex(f[1]))
		hnp := hn
		if h, _, err := net.SplitHostPort(hn); err == nil {
			hnp = h
		}
		if (f[6] == "1") != (net.ParseIP(hnp) != nil) { // isIP is a parameter of the model: it must be the real answer
			return false
		}
		w.cfg.PublicGateways[hn] = &gateway.PublicGateway{Paths: paths, UseSubdomains: f[3] == "1", NoDNSLink: f[4] == "1", InlineDNSLink: f[5] == "1"}
		w.handler = nil
		return true
	case f[0] == "cfgnodns" && len(f) == 2:
		w.cfg.NoDNSLink = f[1] == "1"
		w.handler = nil
		return true
	case f[0] == "dns" && len(f) == 2:
		w.be.dns[string(vh.UnHex(f[1]))] = true
		return true
	}
	return false
}

// uriField is the `?uri=` parameter as the model sees it (url.Parse and gopath.Join are parameters):
// "-" absent, "x" unparsable, else <scheme>:<joined redirect path>
func (q reqSpec) uriField() string {
	vals, _ := url.ParseQuery(q.rawq)
	v := vals.Get("uri")
	if v == "" {
		return "-"
	}
	u, err := url.Parse(v)
	if err != nil {
		return "x"
	}
	p := u.EscapedPath()
	if u.RawQuery != "" {
		p += "?" + url.PathEscape(u.RawQuery)
	}
	return hexs(u.Scheme) + ":" + hexs(gopath.Join("/", u.Scheme, u.Host, p))
}

func (q reqSpec) line(be *backend) string {
	return strings.TrimSpace(fmt.Sprintf("req %s %s %s %s %s %d %s %s", hexs(q.host), hexs(q.xfh), hexs(q.path), hexs(q.rawq), hexs(q.frag), b2i(q.https), q.uriField(), buildTables(be, q)))
}

func gen(r *vh.Rand, tier string, n int, emit func(vh.Case)) {
	golog.SetAllLoggers(golog.LevelFatal)
	for i := 0; i < n; i++ {
		cr := r.Fork()
		c := vh.Case{ID: strconv.Itoa(i)}
		w := newWorld()
		add := func(line string) {
			if !w.apply(line) {
				panic("gen: bad line " + line)
			}
			c.Ops = append(c.Ops, line)
		}
		pathSets := [][]string{{"/ipfs", "/ipns"}, {"/ipfs/", "/ipns/"}, {"/ipfs"}, {"/ipfs", "/ipns", "/p2p", "/ipld", "/version"}, {}}
		pickPaths := func() []string {
			if cr.Chance(3, 4) {
				return pathSets[0]
			}
			return vh.Pick(cr, pathSets)
		}
		var gws []gwSpec
		gws = append(gws, gwSpec{host: vh.Pick(cr, []string{"dweb.link", "localhost", "gw.example.net", "localhost:8080"}), paths: pickPaths(), us: true, inl: cr.Bool()})
		if cr.Chance(1, 2) {
			gws = append(gws, gwSpec{host: "ipfs.io", paths: pickPaths(), us: false, nd: cr.Chance(1, 4)})
		}
		if cr.Chance(1, 3) {
			// wildcard patterns: `*` is `[^.]+`; at most one pattern can match a host (Go keeps them in a map)
			gws = append(gws, gwSpec{host: vh.Pick(cr, []string{"*.wild.test", "*.wild.test", "gw-*.multi.test", "*.*.deep.test", "*.ported.test:8080"}), paths: pickPaths(), us: cr.Chance(3, 4), inl: cr.Bool()})
		}
		if cr.Chance(1, 6) {
			// IP-literal gateways: with UseSubdomains they are dropped by prepareHostnameGateways
			gws = append(gws, gwSpec{host: vh.Pick(cr, []string{"127.0.0.1", "127.0.0.1:8080", "10.1.2.3"}), paths: pickPaths(), us: cr.Bool()})
		}
		if cr.Chance(1, 5) {
			gws = append(gws, gwSpec{host: "sub.dweb.link", paths: pickPaths(), us: cr.Bool(), nd: cr.Bool()})
		}
		for _, g := range gws {
			add(g.line())
		}
		if cr.Chance(1, 6) {
			add("cfgnodns 1")
		}
		// DNSLink names
		names := make([]string, cr.Range(2, 5))
		for j := range names {
			names[j] = genName(cr)
			if cr.Chance(4, 5) {
				add("dns " + hexs(names[j]))
			}
		}
		if cr.Chance(1, 4) {
			add("dns " + hexs("my-host"))
		}
		// single-label hyphenated names: own record yes/no x record of the un-inlined form yes/no
		singles := []string{vh.Pick(cr, []string{"my-site", "a-b-c", "docs-v2", "x--y-z"}), vh.Pick(cr, []string{"blog-ipfs", "team-a", "q-1"})}
		for _, sl := range singles {
			if cr.Bool() {
				add("dns " + hexs(sl))
			}
			if cr.Bool() {
				add("dns " + hexs(uninlineRef(sl)))
			}
		}
		if cr.Chance(1, 6) {
			add("dns " + hexs(vh.Pick(cr, []string{"ipfs.io", "dweb.link", "foo.wild.test"})))
		}
		// gateway hostnames that are DNSLink websites themselves
		for _, g := range gws {
			if cr.Chance(1, 2) {
				h := g.host
				h = strings.ReplaceAll(h, "*", "foo")
				if hh, _, err := net.SplitHostPort(h); err == nil {
					h = hh
				}
				add("dns " + hexs(h))
			}
		}
		nreq := cr.Range(3, 8)
		for j := 0; j < nreq; j++ {
			g := vh.Pick(cr, gws)
			gwHost := g.host
			for strings.Contains(gwHost, "*") {
				gwHost = strings.Replace(gwHost, "*", vh.Pick(cr, []string{"foo", "bar-baz", "x"}), 1)
			}
			if cr.Chance(1, 12) && strings.Contains(g.host, "*") { // one label too many / too few: no match
				gwHost = vh.Pick(cr, []string{"a.b." + strings.TrimLeft(g.host, "*."), strings.TrimLeft(g.host, "*.")})
			}
			if cr.Chance(1, 10) && !strings.Contains(gwHost, ":") {
				gwHost += ":8080"
			}
			q := reqSpec{https: cr.Chance(1, 4)}
			if cr.Chance(1, 3) {
				q.rawq = vh.Pick(cr, []string{"x=1", "filename=a%20b.txt&download=true", "a=%2F&b=c+d", "format=car", "q"})
			}
			if cr.Chance(1, 5) {
				q.frag = vh.Pick(cr, []string{"frag", "a b", "sec-1/x"})
			}
			ns := vh.Pick(cr, []string{"ipfs", "ipfs", "ipns", "ipns", "ipns", "p2p", "ipld", "other"})
			id := genID(cr, names)
			switch cr.Intn(14) {
			case 12: // single-label hyphenated DNSLink name as a path
				q.host = gwHost
				q.path = "/ipns/" + vh.Pick(cr, singles) + genRest(cr)
			case 13: // … and as a subdomain label
				q.host = vh.Pick(cr, singles) + ".ipns." + gwHost
				q.path = genRest(cr)
				if q.path == "" {
					q.path = "/"
				}
			case 10, 11: // a path the gateway does not handle, on a gateway / DNSLink host, with or without port
				q.host = vh.Pick(cr, append([]string{gwHost, gwHost, "unknown.example"}, names...))
				if cr.Bool() && !strings.Contains(q.host, ":") {
					q.host += vh.Pick(cr, []string{":8080", ":443", ":1"})
				}
				q.path = vh.Pick(cr, []string{"/", "/docs/index.html", "/other/x", "/version", "/ipfsx/a"}) + vh.Pick(cr, []string{"", "", "/b c"})
			case 0, 1, 2, 3, 4: // path request on a gateway host
				q.host = gwHost
				q.path = "/" + ns + "/" + id + genRest(cr)
				if cr.Chance(1, 15) {
					q.path = vh.Pick(cr, []string{"/", "/ipfs", "/ipfs/", "/version", "/other/x", "/ipns"})
				}
			case 5, 6, 7: // subdomain request
				q.host = id + "." + ns + "." + gwHost
				q.path = genRest(cr)
				if q.path == "" {
					q.path = "/"
				}
			case 8: // DNSLink host / unknown host
				q.host = vh.Pick(cr, append([]string{"unknown.example", "ipfs.io"}, names...))
				q.path = genRest(cr)
				if q.path == "" {
					q.path = "/"
				}
				if cr.Bool() {
					q.path = "/" + ns + "/" + id + q.path
				}
			default: // lower-cased host as a browser would send it
				q.host = strings.ToLower(id) + "." + ns + "." + gwHost
				q.path = "/"
			}
			if cr.Chance(1, 12) { // registerProtocolHandler: ?uri=ipfs://… is redirected before any host logic
				v := vh.Pick(cr, []string{"ipfs://" + id + "/a/b", "ipfs://" + id, "ipns://" + vh.Pick(cr, names) + "/wiki/x?y=1", "ipfs://" + id + "/a%20b/../c",
					"http://example.com/", "web+ipfs://" + id, "%zz", "ipfs:", "ipns://a b/", "IPFS://" + id + "/x"})
				q.rawq = "uri=" + url.QueryEscape(v)
				if cr.Bool() {
					q.rawq += "&x=1"
				}
			}
			if cr.Chance(1, 7) { // behind a reverse proxy: the public host arrives in X-Forwarded-Host
				q.xfh = q.host
				q.host = vh.Pick(cr, []string{"internal.proxy:9000", "10.0.0.1", "backend"})
				if cr.Chance(1, 6) {
					q.host = q.xfh // both present and equal
				}
			}
			c.Ops = append(c.Ops, q.line(w.be))
			// follow redirects with further (diffed) requests
			cur := q
			for hop := 0; hop < 3; hop++ {
				o := w.do(cur)
				if o.status != 301 || o.loc == nil {
					break
				}
				if o.loc.Host == "" { // 301 to a path on the same host (?uri=)
					cur = reqSpec{host: cur.host, xfh: cur.xfh, path: o.loc.Path, rawq: o.loc.RawQuery, https: cur.https}
				} else {
					cur = reqSpec{host: o.loc.Host, path: o.loc.Path, rawq: o.loc.RawQuery, frag: "", https: o.loc.Scheme == "https"}
				}
				c.Ops = append(c.Ops, cur.line(w.be))
			}
		}
		// the base32 CID text codec (computed by the model, compared with go-cid)
		for j, m := 0, cr.Range(1, 2); j < m; j++ {
			if dc, err := cid.Decode(genID(cr, []string{"x"})); err == nil {
				cdc := vh.Pick(cr, []uint64{dc.Type(), cid.Raw, cid.DagProtobuf, cid.Libp2pKey, 0x0129, 0x300000})
				c.Ops = append(c.Ops, fmt.Sprintf("b32 %d %s", cdc, vh.Hex(dc.Hash())))
			}
		}
		// the exported label codec, directly
		for j, m := 0, cr.Range(1, 3); j < m; j++ {
			nm := vh.Pick(cr, names)
			if cr.Chance(1, 3) {
				nm = genName(cr)
			}
			c.Ops = append(c.Ops, "inline "+hexs(nm))
			if cr.Bool() {
				c.Ops = append(c.Ops, "uninline "+hexs(vh.Pick(cr, []string{inlineRef(nm), nm, "a---b", "-", "--", "---x-"})))
			}
		}
		emit(c)
	}
}

// ---------------------------------------------------------------- exec + monitor

var rfcLabel = regexp.MustCompile(`^[A-Za-z0-9]([A-Za-z0-9-]*[A-Za-z0-9])?$`)

// RFC 1035 / 1123 host name: labels of letters, digits and inner hyphens, each 1..63 long, total <= 253
func rfcValidName(s string) bool {
	if len(s) == 0 || len(s) > 253 {
		return false
	}
	for _, l := range strings.Split(s, ".") {
		if len(l) > 63 || !rfcLabel.MatchString(l) {
			return false
		}
	}
	return true
}

func contentOf(id string) (mhash string, isCid bool) {
	if p, err := peer.Decode(id); err == nil {
		return string(peer.ToCid(p).Hash()), true
	}
	if c, err := cid.Decode(id); err == nil {
		return string(c.Hash()), true
	}
	return "", false
}

// monitor: the round trip of a path request that was redirected to a subdomain URL
func monitorRoundTrip(o *vh.Out, w *world, q reqSpec, first outcome) {
	parts := strings.SplitN(q.path, "/", 4)
	if len(parts) < 3 {
		o.Fail("redirect-without-id", "path %q redirected to %s", q.path, first.loc)
		return
	}
	ns, id := parts[1], parts[2]
	rest := ""
	if len(parts) == 4 {
		rest = parts[3]
	}
	loc := first.loc
	if q.frag != "" && loc.Fragment != q.frag {
		o.Fail("fragment-dropped", "request fragment %q, Location %q", q.frag, loc.String())
	}
	if loc.RawQuery != q.rawq {
		o.Fail("query-changed", "request query %q, Location %q", q.rawq, loc.String())
	}
	if q.https != (loc.Scheme == "https") {
		o.Fail("scheme-changed", "https=%v Location %q", q.https, loc.String())
	}
	// follow the redirect(s) the way a client does
	cur, out := reqSpec{}, first
	for hop := 0; hop < 4 && out.status == 301 && out.loc != nil; hop++ {
		// a label the gateway PRODUCED (CID re-encoding, inlining) must fit; an id that is neither a CID nor
		// a name with a DNSLink record is passed through unchanged, whatever its length
		label := strings.SplitN(out.loc.Host, ".", 2)[0]
		if len(label) > 63 {
			if strings.HasPrefix(out.loc.Host, id+"."+ns+".") {
				o.Kind("passthrough-long-label")
			} else {
				o.Fail("label-too-long", "Location host %q", out.loc.Host)
			}
		}
		cur = reqSpec{host: out.loc.Host, path: out.loc.Path, rawq: out.loc.RawQuery, https: out.loc.Scheme == "https"}
		out = w.do(cur)
	}
	if out.seen == nil || !out.seen.called {
		o.Fail("redirect-dead-end", "%q → %s answered %d", q.path, first.loc, out.status)
		return
	}
	// the same last request arriving through a reverse proxy (public host in X-Forwarded-Host) must be served alike
	if pq := (reqSpec{host: "internal.proxy:9000", xfh: cur.host, path: cur.path, rawq: cur.rawq, https: cur.https}); cur.host != "" {
		if o2 := w.do(pq); o2.String() != out.String() {
			o.Fail("roundtrip-via-x-forwarded-host-differs", "%s%s: direct %s, via X-Forwarded-Host %s", cur.host, cur.path, out.String(), o2.String())
		}
		w.do(cur) // restore w.last for the checks below
		out = w.do(cur)
	}
	got := strings.SplitN(out.seen.path, "/", 4)
	if len(got) < 3 || got[1] != ns {
		o.Fail("roundtrip-namespace", "%q came back as %q", q.path, out.seen.path)
		return
	}
	gotRest := ""
	if len(got) == 4 {
		gotRest = got[3]
	}
	// the remainder is preserved as a path (boxo cleans content paths: `//x` ≡ `/x`)
	if gopath.Clean("/"+rest) != gopath.Clean("/"+gotRest) || strings.HasSuffix(rest, "/") != strings.HasSuffix(gotRest, "/") && rest != "" {
		o.Fail("roundtrip-remainder", "%q came back as %q", q.path, out.seen.path)
	}
	if out.seen.rawq != q.rawq {
		o.Fail("roundtrip-query", "%q came back as %q", q.rawq, out.seen.rawq)
	}
	if m, ok := contentOf(id); ok && (ns == "ipfs" || ns == "ipld" || ns == "ipns" || ns == "p2p") {
		if ns == "ipfs" || ns == "ipld" {
			if _, err := cid.Decode(id); err != nil {
				return // a peer ID in /ipfs/ is not content
			}
		}
		m2, ok2 := contentOf(got[2])
		if !ok2 || m2 != m {
			o.Fail("roundtrip-multihash", "%q came back as %q", q.path, out.seen.path)
		}
	} else if rfcValidName(id) && strings.Contains(id, ".") {
		if got[2] != id {
			o.Fail("roundtrip-dnslink-name", "%q came back as %q", q.path, out.seen.path)
		}
	} else if ns == "ipns" && rfcValidName(id) && strings.Contains(id, "-") && w.be.hasDNSLink(id) && !w.be.hasDNSLink(uninlineRef(id)) {
		// a single-label name with its OWN DNSLink record (and none for the un-inlined spelling) is that name
		if got[2] != id {
			o.Fail("roundtrip-single-label-dnslink-name", "%q (record for %q, none for %q) came back as %q", q.path, id, uninlineRef(id), out.seen.path)
		}
	}
}

// monitor: a host mapped to a DNSLink content path. The name in the path must be the DNSLink name the
// record was looked up under: the effective host (Host, or X-Forwarded-Host) without its port — for
// known-gateway hostnames and unknown hostnames alike — followed by the request path, unchanged.
func monitorDNSLinkHost(o *vh.Out, w *world, q reqSpec, out outcome) {
	eff := q.effHost()
	name := eff
	if h, _, err := net.SplitHostPort(eff); err == nil {
		name = h
	}
	if eff != name {
		o.Kind("dnslink-host-with-port")
	}
	if q.xfh != "" {
		o.Kind("dnslink-via-x-forwarded-host")
	}
	if _, known := w.cfg.PublicGateways[eff]; known {
		o.Kind("dnslink-on-known-gateway")
	} else if _, known := w.cfg.PublicGateways[name]; known {
		o.Kind("dnslink-on-known-gateway")
	}
	if !w.be.dns[name] {
		o.Fail("dnslink-without-record", "host %q served as DNSLink %q but %q has no DNSLink record", eff, out.seen.path, name)
	}
	if want := "/ipns/" + name + q.path; out.seen.path != want {
		o.Fail("dnslink-name-not-looked-up-name", "host %q (DNSLink name %q) mapped to %q, want %q", eff, name, out.seen.path, want)
	}
	if out.seen.host != eff {
		o.Fail("dnslink-context-host", "context host %q, effective host %q", out.seen.host, eff)
	}
	if out.seen.rawq != q.rawq {
		o.Fail("dnslink-query-changed", "query %q came through as %q", q.rawq, out.seen.rawq)
	}
}

var cleanURI = regexp.MustCompile(`^(ipfs|ipns)://([A-Za-z0-9.-]+)((?:/[A-Za-z0-9._-]+)*/?)$`)

// monitor: the registerProtocolHandler redirect. ipfs://<id>/<path> must go to /ipfs/<id>/<path> (same id, same
// path), ipns:// likewise; any other scheme or an unparsable value is a 400, never a redirect.
func monitorURI(o *vh.Out, q reqSpec, out outcome) {
	vals, _ := url.ParseQuery(q.rawq)
	v := vals.Get("uri")
	if m := cleanURI.FindStringSubmatch(v); m != nil {
		want := gopath.Clean("/" + m[1] + "/" + m[2] + m[3])
		if out.status != 301 || out.rawLoc != want {
			o.Fail("uri-redirect-wrong-path", "uri=%q answered %d Location %q, want 301 %q", v, out.status, out.rawLoc, want)
		}
		return
	}
	if u, err := url.Parse(v); err != nil || (u.Scheme != "ipfs" && u.Scheme != "ipns") {
		if out.status != 400 {
			o.Fail("uri-bad-value-not-400", "uri=%q answered %d Location %q", v, out.status, out.rawLoc)
		}
	}
}

// monitor: host <label>.ipns.<gw> → content path. A label that is not a CID / peer ID, has '-' and no '.', is
// un-inlined to the FQDN it may stand for — but when only the literal label has a DNSLink record the
// content path must keep that name; when the un-inlined FQDN has a record the path names the FQDN.
func monitorSubdomainLabel(o *vh.Out, w *world, q reqSpec, out outcome) {
	suffix := ".ipns." + out.seen.host
	eff := q.effHost()
	if !strings.HasSuffix(eff, suffix) {
		return
	}
	label := strings.TrimSuffix(eff, suffix)
	if strings.Contains(label, ".") || !strings.Contains(label, "-") || !rfcValidName(label) {
		return
	}
	if _, isCid := contentOf(label); isCid {
		return
	}
	un := uninlineRef(label)
	own, other := w.be.hasDNSLink(label), w.be.hasDNSLink(un)
	o.Kind(fmt.Sprintf("single-label-own%d-uninlined%d", b2i(own), b2i(other)))
	want := ""
	switch {
	case other:
		want = "/ipns/" + un + q.path
	case own:
		want = "/ipns/" + label + q.path
	default:
		return // neither spelling resolves: only the error message differs
	}
	if out.seen.path != want {
		o.Fail("subdomain-label-wrong-dnslink-name", "host %q (record for label: %v, for %q: %v) mapped to %q, want %q", eff, own, un, other, out.seen.path, want)
	}
}

func exec(c vh.Case, o *vh.Out) {
	golog.SetAllLoggers(golog.LevelFatal)
	w := newWorld()
	for _, line := range c.Ops {
		f := strings.Fields(line)
		switch {
		case f[0] == "gw" || f[0] == "cfgnodns" || f[0] == "dns":
			if w.apply(line) {
				o.Emit("ok")
			} else {
				o.Emit("bad-op")
			}
		case f[0] == "inline" && len(f) == 2:
			nm := string(vh.UnHex(f[1]))
			l, err := gateway.InlineDNSLink(nm)
			if err != nil {
				o.Kind("inline-too-long")
				o.Emit("err")
				continue
			}
			if len(l) > 63 {
				o.Fail("label-too-long", "InlineDNSLink(%q) = %q", nm, l)
			}
			if strings.Contains(l, ".") {
				o.Fail("label-has-dot", "InlineDNSLink(%q) = %q", nm, l)
			}
			if rfcValidName(nm) && gateway.UninlineDNSLink(l) != nm {
				o.Fail("inline-roundtrip", "Uninline(Inline(%q)) = %q", nm, gateway.UninlineDNSLink(l))
			}
			if rfcValidName(nm) {
				o.Kind("inline-rfc-valid")
			} else {
				o.Kind("inline-not-rfc")
			}
			o.Emit("%s", hexs(l))
		case f[0] == "uninline" && len(f) == 2:
			l := string(vh.UnHex(f[1]))
			n := gateway.UninlineDNSLink(l)
			if !strings.Contains(l, ".") && inlineRef(n) != l {
				o.Fail("uninline-not-injective", "Inline(Uninline(%q)) = %q", l, inlineRef(n))
			}
			o.Emit("%s", hexs(n))
		case f[0] == "b32" && len(f) == 3:
			// the base32 CID text codec is proved in Lean (C32/Base32.lean): the model computes the string itself
			codec, _ := strconv.ParseUint(f[1], 10, 64)
			str, err := cid.NewCidV1(codec, mh.Multihash(vh.UnHex(f[2]))).StringOfBase(mbase.Base32)
			if err != nil {
				o.Emit("err")
				continue
			}
			if c2, err := cid.Decode(str); err != nil || c2.Type() != codec || string(c2.Hash()) != string(vh.UnHex(f[2])) {
				o.Fail("base32-roundtrip", "cid.Decode(%q)", str)
			}
			o.Kind("b32")
			o.Emit("%s", hexs(str))
		case f[0] == "req" && len(f) >= 8:
			q := reqSpec{host: string(vh.UnHex(f[1])), xfh: string(vh.UnHex(f[2])), path: string(vh.UnHex(f[3])), rawq: string(vh.UnHex(f[4])), frag: string(vh.UnHex(f[5])), https: f[6] == "1"}
			// the tables in the op line are parameters of the model: they must be what the real functions say
			if f[7] != q.uriField() {
				o.Emit("bad-uri-field")
				continue
			}
			if want := buildTables(w.be, q); want != strings.Join(f[8:], " ") {
				o.Emit("bad-tables")
				continue
			}
			out := w.do(q)
			// a path → subdomain redirect: Location host = <id>.<ns>.<request host>
			isGw := false
			if pp := strings.SplitN(q.path, "/", 4); len(pp) >= 3 && out.loc != nil {
				isGw = strings.HasSuffix(out.loc.Host, "."+pp[1]+"."+q.effHost())
			}
			switch {
			case out.status == 301 && q.uriField() != "-":
				o.Kind("uri-redirect")
				monitorURI(o, q, out)
			case q.uriField() != "-":
				o.Kind(fmt.Sprintf("uri-status-%d", out.status))
				monitorURI(o, q, out)
			case out.status == 301:
				o.Kind("redirect")
				// a redirect to the very URL that was requested never ends: the content is not served
				if out.loc != nil && out.loc.Host == q.effHost() && out.loc.Path == q.path && out.loc.RawQuery == q.rawq && (out.loc.Scheme == "https") == q.https {
					if q.xfh != "" && q.xfh != q.host {
						o.Fail("self-redirect-x-forwarded-host", "Host %q X-Forwarded-Host %q path %q redirected to itself (%s)", q.host, q.xfh, q.path, out.loc)
					} else {
						o.Fail("self-redirect", "host %q path %q redirected to itself (%s)", q.host, q.path, out.loc)
					}
				}
				if isGw {
					monitorRoundTrip(o, w, q, out)
					o.Nontrivial()
				}
				if out.loc != nil && strings.Contains(out.loc.Host, "--") {
					o.Kind("redirect-inlined-hyphen")
				}
			case out.seen != nil:
				o.Kind("next-" + out.seen.kind)
				if out.seen.kind == "dnslink" {
					monitorDNSLinkHost(o, w, q, out)
				}
				if out.seen.kind == "subdomain" {
					monitorSubdomainLabel(o, w, q, out)
				}
				if out.seen.kind == "subdomain" {
					parts := strings.SplitN(out.seen.path, "/", 4)
					if len(parts) >= 3 && parts[1] == "ipns" && strings.Contains(parts[2], ".") && !strings.Contains(strings.SplitN(q.host, ".ipns.", 2)[0], ".") {
						o.Kind("uninlined-host")
					}
				}
			default:
				o.Kind(fmt.Sprintf("status-%d", out.status))
			}
			o.Emit("%s", out.String())
		default:
			o.Emit("bad-op")
		}
	}
}

// corpus prints the hand-written edge cases of corpus/C32/edges.ops (the tables need the real codecs)
func corpus() {
	emit := func(id string, setup []string, reqs []reqSpec) {
		w := newWorld()
		fmt.Printf("case %s\n", id)
		for _, l := range setup {
			if !w.apply(l) {
				panic(l)
			}
			fmt.Println(l)
		}
		for _, q := range reqs {
			fmt.Println(q.line(w.be))
			cur := q
			for hop := 0; hop < 3; hop++ {
				o := w.do(cur)
				if o.status != 301 || o.loc == nil {
					break
				}
				if o.loc.Host == "" {
					cur = reqSpec{host: cur.host, xfh: cur.xfh, path: o.loc.Path, rawq: o.loc.RawQuery, https: cur.https}
				} else {
					cur = reqSpec{host: o.loc.Host, path: o.loc.Path, rawq: o.loc.RawQuery, https: o.loc.Scheme == "https"}
				}
				fmt.Println(cur.line(w.be))
			}
		}
		fmt.Println("end")
	}
	dweb := gwSpec{host: "dweb.link", paths: []string{"/ipfs", "/ipns"}, us: true, inl: true}.line()
	local := gwSpec{host: "localhost", paths: []string{"/ipfs", "/ipns"}, us: true}.line()
	c1 := "bafybeigdyrzt5sfp7udm7hu76uh7y26nf3efuylqabf3oclgtqy55fbzdi"
	c0 := "QmbWqxBEKC3P8tqsKc98xmWNzrzDtRLMiMPL8wBuTGsMnR"
	long := "bafkrgqe3ohjcjplc6n4f3fwunlj6upltggn7xqujbsvnvyw764srszz4u4rshq6ztos4chl4plgg4ffyyxnayrtdi5oc4xb2332g645433aeg"
	emit("fragment-and-query", []string{dweb}, []reqSpec{
		{host: "dweb.link", path: "/ipfs/" + c0 + "/a/b c", rawq: "x=1&y=%2F", frag: "frag"},
		{host: "dweb.link", path: "/ipfs/" + c1, frag: "a b"},
		{host: "dweb.link", path: "/ipfs/" + c1 + "//x"},
		{host: "dweb.link", path: "/ipfs/" + long + "/x"},
	})
	emit("dnslink-inline", []string{dweb, local, "dns " + hexs("en.wikipedia-on-ipfs.org"), "dns " + hexs("a.-b.com"), "dns " + hexs("a-.b.com"), "dns " + hexs("my-host")}, []reqSpec{
		{host: "dweb.link", path: "/ipns/en.wikipedia-on-ipfs.org/wiki/"},
		{host: "localhost", path: "/ipns/en.wikipedia-on-ipfs.org/wiki/"},
		{host: "localhost", path: "/ipns/en.wikipedia-on-ipfs.org/wiki/", https: true},
		{host: "dweb.link", path: "/ipns/a.-b.com/x"}, // not RFC-valid: comes back as a-.b.com
		{host: "dweb.link", path: "/ipns/a-.b.com/x"},
		{host: "dweb.link", path: "/ipns/my-host/x"},
		{host: "dweb.link", path: "/ipns/en-wikipedia--on--ipfs-org/wiki/"},
		{host: "en.wikipedia-on-ipfs.org", path: "/wiki/"},
	})
	gwnet := gwSpec{host: "gw.example.net", paths: []string{"/ipfs", "/ipns"}, us: true}.line()
	emit("dnslink-host-with-port", []string{gwnet, "dns " + hexs("gw.example.net"), "dns " + hexs("site.example.org")}, []reqSpec{
		{host: "gw.example.net", path: "/docs/index.html"},
		{host: "gw.example.net:8080", path: "/docs/index.html"},
		{host: "internal:9000", xfh: "gw.example.net:8443", path: "/docs/index.html", rawq: "x=1"},
		{host: "site.example.org:8080", path: "/a/b"},
		{host: "internal:9000", xfh: "site.example.org:8080", path: "/a/b"},
		{host: "internal:9000", xfh: "gw.example.net", path: "/ipfs/bafybeigdyrzt5sfp7udm7hu76uh7y26nf3efuylqabf3oclgtqy55fbzdi/x"},
	})
	emit("x-forwarded-host-subdomain", []string{gwnet}, []reqSpec{
		{host: "internal.proxy:9000", xfh: "bafkreidgumpb6dyyd7fnrtrbuvmlvqmxqdpg57xxpkr3fb43zplcsyaghy.ipfs.gw.example.net", path: "/"},
		{host: "bafkreidgumpb6dyyd7fnrtrbuvmlvqmxqdpg57xxpkr3fb43zplcsyaghy.ipfs.gw.example.net", path: "/"},
		{host: "backend", xfh: "gw.example.net", path: "/ipfs/" + c0 + "/a", https: true},
	})
	emit("uri-ip-wildcard", []string{dweb,
		gwSpec{host: "127.0.0.1:8080", paths: []string{"/ipfs", "/ipns"}, us: true}.line(),
		gwSpec{host: "10.1.2.3", paths: []string{"/ipfs", "/ipns"}, us: false}.line(),
		gwSpec{host: "gw-*.multi.test", paths: []string{"/ipfs", "/ipns"}, us: true}.line(),
		gwSpec{host: "*.*.deep.test", paths: []string{"/ipfs"}, us: true, inl: true}.line()}, []reqSpec{
		{host: "dweb.link", path: "/", rawq: "uri=" + url.QueryEscape("ipfs://"+c1+"/a/b")},
		{host: "unknown.example", path: "/ipfs/x", rawq: "uri=" + url.QueryEscape("ipns://en.wikipedia-on-ipfs.org/wiki/?x=1") + "&y=2"},
		{host: "dweb.link", path: "/", rawq: "uri=" + url.QueryEscape("http://example.com/")},
		{host: "dweb.link", path: "/", rawq: "uri=%25zz"},
		{host: "127.0.0.1:8080", path: "/ipfs/" + c1 + "/x"},
		{host: c1 + ".ipfs.127.0.0.1:8080", path: "/x"},
		{host: "10.1.2.3", path: "/ipfs/" + c1 + "/x"},
		{host: "gw-eu.multi.test", path: "/ipfs/" + c1 + "/x"},
		{host: "gw-.multi.test", path: "/ipfs/" + c1 + "/x"},
		{host: "gw-a.b.multi.test", path: "/ipfs/" + c1 + "/x"},
		{host: "a.b.deep.test:8080", path: "/ipfs/" + c1 + "/x"},
		{host: "b.deep.test", path: "/ipfs/" + c1 + "/x"},
	})
	emit("single-label-four-combinations", []string{dweb, local,
		"dns " + hexs("own-only"), "dns " + hexs("both-recs"), "dns " + hexs("both.recs"), "dns " + hexs("other.only")}, []reqSpec{
		{host: "dweb.link", path: "/ipns/own-only/x"},
		{host: "own-only.ipns.dweb.link", path: "/x"},
		{host: "localhost", path: "/ipns/own-only/x", https: true},
		{host: "dweb.link", path: "/ipns/both-recs/x"},
		{host: "both-recs.ipns.dweb.link", path: "/x"},
		{host: "dweb.link", path: "/ipns/other-only/x"},
		{host: "other-only.ipns.dweb.link", path: "/x"},
		{host: "dweb.link", path: "/ipns/no-recs/x"},
		{host: "no-recs.ipns.dweb.link", path: "/x"},
	})
	emit("peer-ids", []string{dweb}, []reqSpec{
		{host: "dweb.link", path: "/ipns/12D3KooWRBy97UB99e3J6hiPesre1MZeuNQvfan4gBziswrRJsNK/x"},
		{host: "dweb.link", path: "/ipns/QmcJw6x4bQr7oFnVnF6i8SLcJvhXjaxWvj54FYXmZ4Ct6p/x"},
		{host: "dweb.link", path: "/ipns/" + c1 + "/x"},
		{host: c1 + ".ipns.dweb.link", path: "/x"},
		{host: c0 + ".ipfs.dweb.link", path: "/x"},
		{host: "dweb.link", path: "/p2p/12D3KooWRBy97UB99e3J6hiPesre1MZeuNQvfan4gBziswrRJsNK"},
	})
}

func main() {
	if len(os.Args) == 2 && os.Args[1] == "corpus" {
		golog.SetAllLoggers(golog.LevelFatal)
		corpus()
		return
	}
	vh.Main(vh.Config{Gen: gen, Exec: exec})
}
