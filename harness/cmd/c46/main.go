// C46 harness: drives the real peering.PeeringService / peerHandler against a fake host.Host whose
// connectedness, notifications, dial results and goroutine scheduling are controlled by the op lines.
//
// Needs the verif hooks of peering/ (schedule points, spawn markers, timer accessors): branch verif/peer.
//
// Ops (one output line each; every output ends with a canonical summary of the whole system):
//
//	add P | remove P PARK | start | stop J | resume          service operations (J/PARK: where to park in handler.stop())
//	conn P 0|1 | notify P conn|disc                         environment
//	run J stop flap                                          … whose Connectedness query is followed at once by a drop + Disconnected + startIfDisconnected
//	run J start|stop | fire J | dial J | ret J ok|fail      one goroutine step of handler J
//	list                                                     ListPeers (sorted)
//	backoff D                                                call the real nextBackoff once from nextDelay = D
package main

import (
	"context"
	"errors"
	"fmt"
	"runtime"
	"sort"
	"strconv"
	"strings"
	"sync"
	"sync/atomic"
	"time"

	"github.com/ipfs/boxo/peering"
	"github.com/libp2p/go-libp2p/core/connmgr"
	"github.com/libp2p/go-libp2p/core/host"
	"github.com/libp2p/go-libp2p/core/network"
	"github.com/libp2p/go-libp2p/core/peer"

	"verifharness/vh"
)

func goid() int64 {
	var buf [64]byte
	n := runtime.Stack(buf[:], false)
	f := strings.Fields(string(buf[:n]))
	id, _ := strconv.ParseInt(f[1], 10, 64)
	return id
}

type parked struct {
	kind string // "start" | "stop" | "rA" | "rB" | "svc"
	idx  int
	ch   chan error
	gid  int64
}

type dialRec struct {
	idx       int
	cancelled bool
}

type env struct {
	mu      sync.Mutex
	cond    *sync.Cond
	active  int
	parked  []*parked
	hs      []peering.VerifHandler
	hidx    map[peering.VerifHandler]int
	gkind   map[int64]string
	gidx    map[int64]int
	parkAt  int
	drained bool
	dials   []dialRec
	conn    map[peer.ID]bool
	notifee network.Notifiee
	svcBusy bool
	flap     bool // the next Connectedness query of a stopIfConnected goroutine is followed at once by a drop of the connection
	flapDone bool
	spawnN   int
}

var envOfPeer sync.Map // peer.ID -> *env
var caseSerial atomic.Int64

func (e *env) idxOf(h peering.VerifHandler) int { // e.mu held
	if i, ok := e.hidx[h]; ok {
		return i
	}
	e.hidx[h] = len(e.hs)
	e.hs = append(e.hs, h)
	return len(e.hs) - 1
}

func (e *env) park(kind string, idx int) error { // e.mu held; returns with e.mu released
	p := &parked{kind: kind, idx: idx, ch: make(chan error, 1), gid: goid()}
	e.parked = append(e.parked, p)
	e.active--
	e.cond.Broadcast()
	e.mu.Unlock()
	return <-p.ch
}

func (e *env) done() { // e.mu held
	e.active--
	e.cond.Broadcast()
}

func envOf(h peering.VerifHandler) *env {
	v, ok := envOfPeer.Load(peering.VerifPeer(h))
	if !ok {
		return nil
	}
	return v.(*env)
}

func schedHook(h peering.VerifHandler, point string) {
	e := envOf(h)
	if e == nil {
		return
	}
	gid := goid()
	e.mu.Lock()
	if e.drained {
		e.mu.Unlock()
		return
	}
	idx := e.idxOf(h)
	kind := e.gkind[gid]
	switch point {
	case "reconnect":
		e.gkind[gid], e.gidx[gid] = "reconnect", idx
		e.park("rA", idx)
		return
	case "reconnect:done":
		delete(e.gkind, gid)
		delete(e.gidx, gid)
		e.done()
	case "startIfDisconnected":
		e.gkind[gid] = "notif"
		e.park("start", idx)
		return
	case "stopIfConnected":
		if kind != "reconnect" { // (the unrepaired reconnect calls stopIfConnected itself: not a goroutine of its own)
			e.gkind[gid] = "notif"
			e.park("stop", idx)
			return
		}
	case "startIfDisconnected:done", "stopIfConnected:done":
		if kind != "reconnect" {
			delete(e.gkind, gid)
			e.done()
		}
	case "stop:cancelled":
		if e.parkAt == idx {
			e.parkAt = -1
			e.park("svc", idx)
			return
		}
	}
	e.mu.Unlock()
}

func spawnHook(h peering.VerifHandler, what string) {
	e := envOf(h)
	if e == nil {
		return
	}
	e.mu.Lock()
	if !e.drained {
		e.idxOf(h)
		e.active++
		e.spawnN++
	}
	e.mu.Unlock()
}

func init() {
	peering.VerifSchedHook = schedHook
	peering.VerifSpawnHook = spawnHook
}

// settle waits until every tracked goroutine is parked or finished.
func (e *env) settle() {
	t := time.AfterFunc(10*time.Second, func() {
		e.mu.Lock()
		e.cond.Broadcast()
		e.mu.Unlock()
	})
	defer t.Stop()
	t0 := time.Now()
	e.mu.Lock()
	for e.active != 0 {
		if time.Since(t0) > 10*time.Second {
			e.mu.Unlock()
			panic(fmt.Sprintf("harness: goroutines did not settle (active=%d)", e.active))
		}
		e.cond.Wait()
	}
	e.mu.Unlock()
}

// release lets the oldest parked goroutine of the given kind/handler continue; false if there is none.
func (e *env) release(kind string, idx int, ret error) bool {
	e.mu.Lock()
	for i, p := range e.parked {
		if p.kind == kind && (idx < 0 || p.idx == idx) {
			e.parked = append(e.parked[:i], e.parked[i+1:]...)
			e.active++
			e.mu.Unlock()
			p.ch <- ret
			e.settle()
			return true
		}
	}
	e.mu.Unlock()
	return false
}

func (e *env) count(kind string, idx int) int {
	e.mu.Lock()
	defer e.mu.Unlock()
	n := 0
	for _, p := range e.parked {
		if p.kind == kind && p.idx == idx {
			n++
		}
	}
	return n
}

// ---- fake host

type fakeNet struct {
	network.Network
	e *env
}

func (n *fakeNet) Connectedness(p peer.ID) network.Connectedness {
	e := n.e
	gid := goid()
	e.mu.Lock()
	c := e.conn[p]
	doFlap := e.flap && c && e.gkind[gid] == "notif" && !e.drained
	var nf network.Notifiee
	n0 := e.spawnN
	before := map[*parked]bool{}
	if doFlap {
		// schedule point inside the query: the peer answers "connected", and the connection drops right away — the
		// Disconnected notification is delivered and its startIfDisconnected goroutine is let run BEFORE this query returns
		// (it finishes, or it has to wait for the handler's lock if the querying goroutine holds it)
		e.flap, e.flapDone = false, true
		e.conn[p] = false
		nf = e.notifee
		for _, pk := range e.parked {
			before[pk] = true
		}
	}
	e.mu.Unlock()
	if doFlap && nf != nil {
		nf.Disconnected(n, fakeConn{p: p})
		e.mu.Lock()
		spawned := e.spawnN > n0
		e.mu.Unlock()
		if spawned {
			var pk *parked
			for i := 0; i < 40000 && pk == nil; i++ {
				e.mu.Lock()
				for k, q := range e.parked {
					if q.kind == "start" && !before[q] {
						pk = q
						e.parked = append(e.parked[:k], e.parked[k+1:]...)
						e.active++
						break
					}
				}
				e.mu.Unlock()
				if pk == nil {
					time.Sleep(50 * time.Microsecond)
				}
			}
			if pk == nil {
				panic("harness: the startIfDisconnected goroutine of the flap did not arrive")
			}
			pk.ch <- nil
			confirm := 0
			for i := 0; i < 20000; i++ {
				e.mu.Lock()
				_, alive := e.gkind[pk.gid]
				e.mu.Unlock()
				if !alive {
					break // it ran to completion
				}
				if strings.HasPrefix(goroutineWait(pk.gid), "sync.") {
					confirm++
					if confirm >= 5 {
						break // it waits for ph.mu, which the querying goroutine holds
					}
				} else {
					confirm = 0
				}
				time.Sleep(500 * time.Microsecond)
			}
		}
	}
	if c {
		return network.Connected
	}
	return network.NotConnected
}

// goroutineWait returns the runtime's wait reason of goroutine gid ("" if it is not waiting / not found).
func goroutineWait(gid int64) string {
	buf := make([]byte, 1<<20)
	n := runtime.Stack(buf, true)
	pre := fmt.Sprintf("goroutine %d [", gid)
	for _, blk := range strings.Split(string(buf[:n]), "\n\n") {
		if strings.HasPrefix(blk, pre) {
			hdr := blk[len(pre):]
			if k := strings.IndexAny(hdr, ",]"); k >= 0 {
				return hdr[:k]
			}
		}
	}
	return ""
}

func (n *fakeNet) Notify(nf network.Notifiee)     { n.e.mu.Lock(); n.e.notifee = nf; n.e.mu.Unlock() }
func (n *fakeNet) StopNotify(nf network.Notifiee) {}

type fakeHost struct {
	host.Host
	net *fakeNet
}

func (h *fakeHost) Network() network.Network         { return h.net }
func (h *fakeHost) ConnManager() connmgr.ConnManager { return connmgr.NullConnMgr{} }
func (h *fakeHost) Connect(ctx context.Context, pi peer.AddrInfo) error {
	e := h.net.e
	gid := goid()
	e.mu.Lock()
	if e.drained {
		e.mu.Unlock()
		return errors.New("drained")
	}
	idx, ok := e.gidx[gid]
	if !ok {
		e.mu.Unlock()
		panic("harness: host.Connect called from an unknown goroutine")
	}
	e.dials = append(e.dials, dialRec{idx, ctx.Err() != nil})
	return e.park("rB", idx)
}

type fakeConn struct {
	network.Conn
	p peer.ID
}

func (c fakeConn) RemotePeer() peer.ID { return c.p }

// ---- case execution

type hmon struct { // monitor bookkeeping per handler
	stopped       bool // handler.stop() has completed (by Stop, RemovePeer, or created in a stopped service)
	dialsAtStop   int
	rAAtStop      int
	reportedArmed bool
}

type runner struct {
	e        *env
	ps       *peering.PeeringService
	o        *vh.Out
	peers    []peer.ID
	state    string // cached service state
	busy     string // "" | "remove" | "stop"
	busyIdx  int
	pendDisc map[int]int
	mon      map[int]*hmon
	stopping bool
}

func (r *runner) peerIdx(p peer.ID) int {
	for i, q := range r.peers {
		if q == p {
			return i
		}
	}
	return -1
}

func (r *runner) svc(f func()) {
	e := r.e
	e.mu.Lock()
	e.active++
	e.svcBusy = true
	e.mu.Unlock()
	go func() {
		f()
		e.mu.Lock()
		e.svcBusy = false
		e.done()
		e.mu.Unlock()
	}()
	e.settle()
}

func (r *runner) isBusy() bool {
	r.e.mu.Lock()
	defer r.e.mu.Unlock()
	return r.e.svcBusy
}

func (r *runner) handlers() []peering.VerifHandler {
	r.e.mu.Lock()
	defer r.e.mu.Unlock()
	return append([]peering.VerifHandler(nil), r.e.hs...)
}

func (r *runner) summary() string {
	busy := r.isBusy()
	if !busy {
		r.state = r.ps.GetState().String()
		// learn about handlers created without any hook call
		for _, p := range r.peers {
			if h := r.ps.VerifHandlerOf(p); h != nil {
				r.e.mu.Lock()
				r.e.idxOf(h)
				r.e.mu.Unlock()
			}
		}
	}
	var sb strings.Builder
	fmt.Fprintf(&sb, "st=%s busy=%d", r.state, map[bool]int{false: 0, true: 1}[busy])
	parkedAt := -1
	if busy && r.busy == "stop" {
		r.e.mu.Lock()
		for _, p := range r.e.parked {
			if p.kind == "svc" {
				parkedAt = p.idx
			}
		}
		r.e.mu.Unlock()
	}
	for i, h := range r.handlers() {
		if parkedAt >= 0 && i != parkedAt {
			// Stop() walks a Go map: which other handlers it has already stopped is not determined
			fmt.Fprintf(&sb, " | h%d ~", i)
			continue
		}
		p := peering.VerifPeer(h)
		inmap := "-"
		if !busy {
			inmap = "0"
			if r.ps.VerifHandlerOf(p) == h {
				inmap = "1"
			}
		}
		d := "grown"
		if peering.VerifNextDelay(h) == peering.VerifInitialDelay {
			d = "init"
		}
		c := 0
		if peering.VerifCancelled(h) {
			c = 1
		}
		fmt.Fprintf(&sb, " | h%d p%d map=%s c=%d t=%s d=%s ps=%d pt=%d rA=%d rB=%d", i, r.peerIdx(p), inmap, c,
			peering.VerifTimer(h), d, r.e.count("start", i), r.e.count("stop", i), r.e.count("rA", i), r.e.count("rB", i))
	}
	r.e.mu.Lock()
	fmt.Fprintf(&sb, " | dials=%d", len(r.e.dials))
	r.e.mu.Unlock()
	return sb.String()
}

// monitor evaluates the property's own predicates on the implementation state.
func (r *runner) monitor() {
	e := r.e
	hs := r.handlers()
	for i, h := range hs {
		m := r.mon[i]
		if m == nil {
			m = &hmon{}
			r.mon[i] = m
			if r.state == "stopped" && peering.VerifCancelled(h) && !r.isBusy() {
				m.stopped = true // created by AddPeer on a stopped service
			}
		}
		d := peering.VerifNextDelay(h)
		if d <= 0 || d > 10*time.Minute { // the property's own bound, not the code's constant
			r.o.Fail("backoff-range", "handler h%d nextDelay=%d outside (0, 10min]", i, int64(d))
		}
		t := peering.VerifTimer(h)
		p := peering.VerifPeer(h)
		pi := r.peerIdx(p)
		e.mu.Lock()
		connected := e.conn[p]
		ndials, live := 0, 0
		for _, dr := range e.dials[min(m.dialsAtStop, len(e.dials)):] {
			if dr.idx == i {
				ndials++
				if !dr.cancelled {
					live++
				}
			}
		}
		e.mu.Unlock()
		if m.stopped {
			if t != "none" && !m.reportedArmed {
				m.reportedArmed = true
				r.o.Fail("timer-after-stop", "handler h%d (peer p%d) was stopped/removed but its reconnect timer is %s", i, pi, t)
			}
			if live > 0 {
				r.o.Fail("dial-after-stop", "handler h%d (peer p%d): host.Connect called with a live context after stop/remove", i, pi)
			}
			if ndials > m.rAAtStop {
				r.o.Fail("dial-after-stop", "handler h%d (peer p%d): %d dials after stop/remove, only %d reconnect goroutines were in flight", i, pi, ndials, m.rAAtStop)
			}
			continue
		}
		if r.state == "running" && !r.stopping && !peering.VerifCancelled(h) && !connected {
			inflight := e.count("rA", i) + e.count("rB", i)
			if !(t == "armed" || inflight > 0 || e.count("start", i) > 0 || r.pendDisc[pi] > 0) {
				r.o.Fail("unscheduled", "running, peer p%d (handler h%d) disconnected, timer=%s, no reconnect in flight, no startIfDisconnected pending, no notification owed", pi, i, t)
			}
		}
	}
}

func (r *runner) markStopped(i int) {
	m := r.mon[i]
	if m == nil {
		m = &hmon{}
		r.mon[i] = m
	}
	if !m.stopped {
		m.stopped = true
		r.e.mu.Lock()
		m.dialsAtStop = len(r.e.dials)
		r.e.mu.Unlock()
		m.rAAtStop = r.e.count("rA", i)
	}
}

// after a service operation finished: which handlers has it stopped?
func (r *runner) afterSvc() {
	if r.isBusy() {
		return
	}
	switch r.busy {
	case "stop":
		r.stopping = false
		for i := range r.handlers() {
			r.markStopped(i)
		}
	case "remove":
		if r.busyIdx >= 0 {
			r.markStopped(r.busyIdx)
		}
	}
	r.busy = ""
}

func exec(c vh.Case, o *vh.Out) {
	serial := caseSerial.Add(1)
	e := &env{hidx: map[peering.VerifHandler]int{}, gkind: map[int64]string{}, gidx: map[int64]int{}, parkAt: -1, conn: map[peer.ID]bool{}}
	e.cond = sync.NewCond(&e.mu)
	net := &fakeNet{e: e}
	r := &runner{e: e, o: o, state: "init", pendDisc: map[int]int{}, mon: map[int]*hmon{}}
	for i := 0; i < 4; i++ {
		p := peer.ID(fmt.Sprintf("verif-c%d-p%d", serial, i))
		r.peers = append(r.peers, p)
		envOfPeer.Store(p, e)
	}
	r.ps = peering.NewPeeringService(&fakeHost{net: net})
	defer func() {
		// drain: let everything run to completion, then stop the service so that no timer stays armed
		e.mu.Lock()
		e.drained = true
		ps := e.parked
		e.parked = nil
		e.mu.Unlock()
		for _, p := range ps {
			p.ch <- errors.New("drained")
		}
		done := make(chan struct{})
		go func() { r.ps.Stop(); close(done) }()
		select {
		case <-done:
		case <-time.After(5 * time.Second):
		}
		for _, p := range r.peers {
			envOfPeer.Delete(p)
		}
	}()
	for _, line := range c.Ops {
		f := strings.Fields(line)
		res := "ok"
		busy := r.isBusy()
		switch f[0] {
		case "add":
			if busy {
				res = "disabled"
				break
			}
			p := r.peers[vh.Atoi(f[1])]
			r.svc(func() { r.ps.AddPeer(peer.AddrInfo{ID: p}) })
			o.Kind("add")
		case "remove":
			if busy {
				res = "disabled"
				break
			}
			p := r.peers[vh.Atoi(f[1])]
			h := r.ps.VerifHandlerOf(p)
			r.busy, r.busyIdx = "remove", -1
			if h != nil {
				e.mu.Lock()
				r.busyIdx = e.idxOf(h)
				if f[2] == "1" {
					e.parkAt = r.busyIdx
				}
				e.mu.Unlock()
			}
			r.svc(func() { r.ps.RemovePeer(p) })
			e.mu.Lock()
			e.parkAt = -1
			e.mu.Unlock()
			r.afterSvc()
			o.Kind("remove")
		case "start":
			if busy {
				res = "disabled"
				break
			}
			r.svc(func() { r.ps.Start() })
			o.Kind("start")
		case "stop":
			if busy {
				res = "disabled"
				break
			}
			was := r.ps.GetState().String()
			e.mu.Lock()
			e.parkAt = vh.Atoi(f[1])
			e.mu.Unlock()
			r.busy = "stop"
			if was != "stopped" {
				r.stopping = true
				r.pendDisc = map[int]int{}
			}
			r.svc(func() { r.ps.Stop() })
			e.mu.Lock()
			e.parkAt = -1
			e.mu.Unlock()
			r.afterSvc()
			o.Kind("stop")
			if r.isBusy() {
				o.Kind("stop-parked")
			}
		case "resume":
			if !busy || !e.release("svc", -1, nil) {
				res = "disabled"
				break
			}
			r.afterSvc()
			o.Kind("resume")
		case "conn":
			pi := vh.Atoi(f[1])
			b := f[2] == "1"
			e.mu.Lock()
			was := e.conn[r.peers[pi]]
			e.conn[r.peers[pi]] = b
			e.mu.Unlock()
			if was && !b && r.state == "running" && !r.stopping {
				r.pendDisc[pi]++
			}
			o.Kind("conn")
		case "notify":
			e.mu.Lock()
			nf := e.notifee
			e.mu.Unlock()
			if busy || nf == nil {
				res = "disabled"
				break
			}
			pi := vh.Atoi(f[1])
			if f[2] == "conn" {
				nf.Connected(net, fakeConn{p: r.peers[pi]})
			} else {
				if r.pendDisc[pi] > 0 {
					r.pendDisc[pi]--
				}
				nf.Disconnected(net, fakeConn{p: r.peers[pi]})
			}
			e.settle()
			o.Kind("notify-" + f[2])
		case "run":
			flap := len(f) > 3 && f[3] == "flap" && f[2] == "stop" && !busy
			e.mu.Lock()
			e.flap, e.flapDone = flap, false
			e.mu.Unlock()
			ok := e.release(f[2], vh.Atoi(f[1]), nil)
			e.mu.Lock()
			e.flap = false
			flapped := e.flapDone
			e.mu.Unlock()
			if !ok {
				res = "disabled"
				break
			}
			o.Kind("run-" + f[2])
			if flapped {
				o.Kind("flap")
			}
		case "fire":
			j := vh.Atoi(f[1])
			hs := r.handlers()
			if j >= len(hs) {
				res = "disabled"
				break
			}
			e.mu.Lock()
			e.active++
			e.mu.Unlock()
			if !peering.VerifFire(hs[j]) {
				e.mu.Lock()
				e.done()
				e.mu.Unlock()
				res = "disabled"
				break
			}
			e.settle()
			o.Kind("fire")
		case "dial":
			if !e.release("rA", vh.Atoi(f[1]), nil) {
				res = "disabled"
				break
			}
			o.Kind("dial")
		case "ret":
			var err error
			if f[2] == "fail" {
				err = errors.New("dial failed")
			}
			if !e.release("rB", vh.Atoi(f[1]), err) {
				res = "disabled"
				break
			}
			o.Kind("ret-" + f[2])
		case "consts":
			// the constants the model transcribes by hand (nextBackoff itself is regenerated)
			o.Kind("consts")
			o.Emit("initial=%d max=%d", int64(peering.VerifInitialDelay), int64(peering.VerifMaxBackoff))
			continue
		case "list":
			if busy {
				res = "disabled"
				break
			}
			var ps []string
			for _, ai := range r.ps.ListPeers() {
				ps = append(ps, fmt.Sprintf("p%d", r.peerIdx(ai.ID)))
			}
			sort.Strings(ps)
			o.Kind("list")
			s := r.summary()
			r.monitor()
			o.Emit("%s [%s] %s", res, strings.Join(ps, ","), s)
			continue
		case "backoff":
			d, _ := strconv.ParseInt(f[1], 10, 64)
			got := int64(peering.VerifBackoff(time.Duration(d)))
			max := int64(10 * time.Minute)
			// the property's own statement of the arithmetic: grow by 1.5x plus a draw below the current value,
			// capped into (90%, 100%] of the maximum
			okGrow := d < max && got >= d+d/2 && got < d+d/2+d && got <= max
			okCap := (d >= max && got == d && d == max) || (got > max-max/10 && got <= max && (d > max || (d < max && d+d/2+d-1 > max)))
			if !(okGrow || okCap) || got <= 0 || got > max {
				o.Fail("backoff-range", "nextBackoff from %d gave %d", d, got)
			}
			o.Kind("backoff")
			o.Emit("ok")
			continue
		default:
			o.Emit("bad-op")
			continue
		}
		s := r.summary()
		r.monitor()
		if strings.Contains(s, "t=armed") && strings.Contains(s, "d=grown") {
			o.Nontrivial()
		}
		o.Emit("%s %s", res, s)
	}
}

func main() { vh.Main(vh.Config{Gen: gen, Exec: exec, CaseTimeout: 60 * time.Second}) }
