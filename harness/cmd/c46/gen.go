package main

import (
	"fmt"
	"strconv"

	"verifharness/vh"
)

// A coarse mirror of the event model, used ONLY by the generator to choose mostly-enabled events
// (the oracle is the Lean model, the monitor is in main.go).
type gh struct {
	peer             int
	inMap, cancelled bool
	timer            int // 0 none 1 armed 2 idle
	ps, pt, rA, rB   int
}
type gm struct {
	hs      []*gh
	peers   map[int]int
	state   int // 0 init 1 running 2 stopped
	ever    bool
	busy    int // 0 idle 1 removing 2 stopping
	busyIdx int
	conn    [4]bool
}

func (m *gm) stopH(h *gh) { h.cancelled = true; h.timer = 0 }

func (m *gm) apply(f []string) bool {
	at := func(i int) int { v, _ := strconv.Atoi(f[i]); return v }
	hnd := func(i int) *gh {
		j := at(i)
		if j < 0 || j >= len(m.hs) {
			return nil
		}
		return m.hs[j]
	}
	switch f[0] {
	case "add":
		if m.busy != 0 {
			return false
		}
		if _, ok := m.peers[at(1)]; !ok {
			h := &gh{peer: at(1), inMap: true, cancelled: m.state == 2}
			if m.state == 1 {
				h.ps = 1
			}
			m.peers[at(1)] = len(m.hs)
			m.hs = append(m.hs, h)
		}
	case "remove":
		if m.busy != 0 {
			return false
		}
		j, ok := m.peers[at(1)]
		if !ok {
			return true
		}
		m.hs[j].cancelled = true
		if f[2] == "1" {
			m.busy, m.busyIdx = 1, j
		} else {
			m.hs[j].timer, m.hs[j].inMap = 0, false
			delete(m.peers, at(1))
		}
	case "start":
		if m.busy != 0 {
			return false
		}
		if m.state == 0 {
			m.state, m.ever = 1, true
			for _, h := range m.hs {
				if h.inMap {
					h.ps++
				}
			}
		}
	case "stop":
		if m.busy != 0 {
			return false
		}
		if m.state == 2 {
			return true
		}
		j := at(1)
		for i, h := range m.hs {
			if h.inMap && !h.cancelled && i != j {
				m.stopH(h)
			}
		}
		if j >= 0 && j < len(m.hs) && m.hs[j].inMap && !m.hs[j].cancelled {
			m.hs[j].cancelled = true
			m.busy, m.busyIdx = 2, j
		} else {
			m.state = 2
		}
	case "resume":
		switch m.busy {
		case 1:
			h := m.hs[m.busyIdx]
			h.timer, h.inMap = 0, false
			delete(m.peers, h.peer)
		case 2:
			m.hs[m.busyIdx].timer = 0
			m.state = 2
		default:
			return false
		}
		m.busy = 0
	case "list":
		return m.busy == 0
	case "conn":
		m.conn[at(1)] = f[2] == "1"
	case "notify":
		if m.busy != 0 || !m.ever {
			return false
		}
		if j, ok := m.peers[at(1)]; ok {
			if f[2] == "conn" {
				m.hs[j].pt++
			} else {
				m.hs[j].ps++
			}
		}
	case "run":
		h := hnd(1)
		if h == nil {
			return false
		}
		if f[2] == "start" {
			if h.ps == 0 {
				return false
			}
			h.ps--
			if !h.cancelled && h.timer == 0 && !m.conn[h.peer] {
				h.timer = 1
			}
		} else {
			if h.pt == 0 {
				return false
			}
			h.pt--
			if h.timer != 0 && m.conn[h.peer] {
				h.timer = 0
				if len(f) > 3 && m.busy == 0 { // flap: drop, notification, startIfDisconnected
					m.conn[h.peer] = false
					if k, ok := m.peers[h.peer]; ok && !m.hs[k].cancelled && m.hs[k].timer == 0 {
						m.hs[k].timer = 1
					}
				}
			}
		}
	case "fire":
		h := hnd(1)
		if h == nil || h.timer != 1 {
			return false
		}
		h.timer = 2
		h.rA++
	case "dial":
		h := hnd(1)
		if h == nil || h.rA == 0 {
			return false
		}
		h.rA--
		h.rB++
	case "ret":
		h := hnd(1)
		if h == nil || h.rB == 0 {
			return false
		}
		h.rB--
		if h.timer != 0 {
			if m.conn[h.peer] {
				h.timer = 0
			} else {
				h.timer = 1
			}
		}
	}
	return true
}

func gen(r *vh.Rand, tier string, n int, emit func(vh.Case)) {
	for i := 0; i < n; i++ {
		c := vh.Case{ID: strconv.Itoa(i)}
		if r.Chance(1, 12) { // backoff arithmetic of the real nextBackoff, from arbitrary and extreme starting values
			c.Ops = append(c.Ops, "consts")
			for k, m := 0, r.Range(5, 40); k < m; k++ {
				var d int64
				switch r.Intn(6) {
				case 0:
					d = int64(r.Range(1, 20))
				case 1:
					d = 5_000_000_000
				case 2:
					d = 600_000_000_000 - int64(r.Intn(3))
				case 3:
					d = 240_000_000_000 + int64(r.Range(-2, 2)) // 2.5 d = max
				case 4:
					d = 400_000_000_000 + int64(r.Range(-2, 2)) // 1.5 d = max
				default:
					d = 1 + int64(r.U64()%600_000_000_000)
				}
				c.Ops = append(c.Ops, fmt.Sprintf("backoff %d", d))
			}
			emit(c)
			continue
		}
		m := &gm{peers: map[int]int{}}
		npeers := r.Range(1, 3)
		steps := r.Range(8, 60)
		if tier == "thorough" {
			steps = r.Range(8, 140)
		}
		if r.Chance(1, 10) { // long failure sequences: one peer, mostly fire/dial/ret fail
			npeers, steps = 1, 330
		}
		long := steps == 330
		early, eo := r.Chance(2, 3), r.Intn(2)
		for k := 0; k < steps; k++ {
			var op string
			for try := 0; try < 12; try++ {
				p := r.Intn(npeers)
				j := 0
				if len(m.hs) > 0 {
					j = r.Intn(len(m.hs))
				}
				if m.busy == 2 {
					j = m.busyIdx // while Stop() is parked only the parked handler is in a determined state
				}
				w := r.Intn(100)
				if long && k > 4 {
					w = 40 + r.Intn(60)
					if r.Chance(1, 40) {
						w = r.Intn(100)
					}
				} else if long {
					w = []int{0, 12, 40, 40, 40}[k]
				}
				switch {
				case w < 1:
					op = "list"
				case w < 7:
					op = fmt.Sprintf("add %d", p)
				case w < 10:
					op = fmt.Sprintf("remove %d %d", p, r.Intn(2))
				case w < 15:
					op = "start"
				case w < 17:
					pj := -1
					if r.Chance(2, 3) {
						pj = j
					}
					op = fmt.Sprintf("stop %d", pj)
				case w < 22:
					op = "resume"
				case w < 32:
					op = fmt.Sprintf("conn %d %d", p, r.Intn(2))
				case w < 36:
					op = fmt.Sprintf("notify %d conn", p)
				case w < 46:
					op = fmt.Sprintf("notify %d disc", p)
				case w < 58:
					op = fmt.Sprintf("run %d start", j)
				case w < 64:
					op = fmt.Sprintf("run %d stop", j)
					if r.Chance(1, 2) {
						op += " flap"
					}
				case w < 78:
					op = fmt.Sprintf("fire %d", j)
				case w < 89:
					op = fmt.Sprintf("dial %d", j)
				default:
					op = fmt.Sprintf("ret %d %s", j, vh.Pick(r, []string{"ok", "fail", "fail"}))
				}
				if !long && k < 2 && early {
					op = []string{fmt.Sprintf("add %d", p), "start"}[(k+eo)%2]
				}
				cp := *m // try on a copy: keep only enabled events most of the time
				cp.hs = nil
				for _, h := range m.hs {
					hh := *h
					cp.hs = append(cp.hs, &hh)
				}
				cp.peers = map[int]int{}
				for k2, v := range m.peers {
					cp.peers[k2] = v
				}
				if cp.apply(fieldsOf(op)) || r.Chance(1, 12) {
					break
				}
			}
			m.apply(fieldsOf(op))
			c.Ops = append(c.Ops, op)
		}
		emit(c)
	}
}

func fieldsOf(s string) []string {
	var out []string
	cur := ""
	for _, ch := range s {
		if ch == ' ' {
			if cur != "" {
				out = append(out, cur)
			}
			cur = ""
		} else {
			cur += string(ch)
		}
	}
	if cur != "" {
		out = append(out, cur)
	}
	return out
}
