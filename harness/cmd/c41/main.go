// C41 harness: drives the real filestore.FileManager (Put, then Get with a recording reader
// factory installed through the verif hook) and, for the shared Lean library Lib.PathClean,
// Go's real path.Clean / filepath.Clean / filepath.Join / filepath.Rel.
package main

import (
	"bytes"
	"context"
	"errors"
	"fmt"
	"os"
	gopath "path"
	"path/filepath"
	"strconv"
	"strings"

	"github.com/ipfs/boxo/filestore"
	"github.com/ipfs/boxo/filestore/posinfo"
	"github.com/ipfs/boxo/ipld/merkledag"
	ds "github.com/ipfs/go-datastore"
	dssync "github.com/ipfs/go-datastore/sync"

	"verifharness/vh"
)

const chunk = 40 // ops per exhaustive case

// all strings over alphabet of length <= n, shortest first
func allStrings(alpha string, n int) []string {
	out := []string{""}
	prev := []string{""}
	for l := 1; l <= n; l++ {
		var cur []string
		for _, p := range prev {
			for _, c := range alpha {
				cur = append(cur, p+string(c))
			}
		}
		out = append(out, cur...)
		prev = cur
	}
	return out
}

func h(s string) string { return vh.Hex([]byte(s)) }

var rootFrags = []string{"a", "b", "root", "r", "tmp", "..", ".", "", "ro", "\xc3\xbc", "a b", "..a", "a..", "..."}

// backslash is an ordinary byte of a POSIX file name: these are single path components
var bsFrags = []string{"..\\x", "a\\..\\..\\b", "\\abs", "t\\", "..\\..\\secret.txt", "..\\", "\\", "a\\b", ".\\.", "..\\..", "x\\..\\y"}
var tailFrags = []string{"..\\x", "a\\..\\..\\b", "\\abs", "t\\", "..\\..\\secret.txt", "f", "x", "root", "a", "b", "..", "..", ".", "", "r", "dir", "..x", "\xe2\x82\xac", "%2e%2e", "...", "http:"}
var urls = []string{"http://h/p", "https://h/p", "http://", "https://", "http:/x/y", "https:/h/pp", "httpx://a/b", "http://a/../b", "https://x", "http://x", "HTTP://h/p"}

func joinFrags(r *vh.Rand, frags []string, k int) string {
	var sb strings.Builder
	for i := 0; i < k; i++ {
		if i > 0 {
			sb.WriteString("/")
			if r.Chance(1, 8) {
				sb.WriteString("/")
			}
		}
		sb.WriteString(vh.Pick(r, frags))
	}
	return sb.String()
}

func randRoot(r *vh.Rand) string {
	s := joinFrags(r, rootFrags, r.Range(0, 4))
	if r.Chance(1, 8) {
		s += "/" + vh.Pick(r, bsFrags)
	}
	switch r.Intn(10) {
	case 0, 1, 2, 3, 4, 5:
		s = "/" + s
	case 6:
		s = "//" + s
	}
	if r.Chance(1, 5) {
		s += "/"
	}
	return s
}

func randFull(r *vh.Rand, root string) string {
	switch r.Intn(12) {
	case 0: // unrelated
		return "/" + joinFrags(r, tailFrags, r.Range(1, 4))
	case 1:
		return joinFrags(r, tailFrags, r.Range(0, 4))
	case 2:
		return vh.Pick(r, urls)
	case 3: // URL-looking tail below the root
		return root + "/" + vh.Pick(r, urls)
	case 4: // sibling sharing the root's name as prefix
		return strings.TrimSuffix(root, "/") + vh.Pick(r, []string{"-sibling", "2", ".bak", "..", "x"}) + "/" + joinFrags(r, tailFrags, r.Range(1, 3))
	case 5:
		return root
	case 6:
		return root + vh.Pick(r, []string{"/", "/.", "/..", "//", "/./", "/../", ""}) + joinFrags(r, tailFrags, r.Range(0, 3))
	default:
		return root + "/" + joinFrags(r, tailFrags, r.Range(1, 5))
	}
}

func randStr(r *vh.Rand, alpha string, maxLen int) string {
	n := r.Intn(maxLen + 1)
	b := make([]byte, n)
	for i := range b {
		b[i] = alpha[r.Intn(len(alpha))]
	}
	return string(b)
}

func gen(r *vh.Rand, tier string, n int, emit func(vh.Case)) {
	// ---- exhaustive part (independent of the seed)
	nClean, nPair, nRoot, nSuf := 6, 3, 3, 4
	if tier == "thorough" {
		nClean, nPair, nRoot, nSuf = 8, 4, 3, 5
	}
	var ops []string
	flush := func(tag string) {
		for i := 0; i < len(ops); i += chunk {
			j := i + chunk
			if j > len(ops) {
				j = len(ops)
			}
			emit(vh.Case{ID: fmt.Sprintf("x-%s-%d", tag, i/chunk), Ops: ops[i:j]})
		}
		ops = nil
	}
	for _, s := range allStrings("/.a", nClean) {
		ops = append(ops, "clean "+h(s))
	}
	flush("clean")
	pairs := allStrings("/.a", nPair)
	for _, a := range pairs {
		for _, b := range pairs {
			ops = append(ops, "rel "+h(a)+" "+h(b), "join "+h(a)+" "+h(b))
		}
	}
	flush("pair")
	for _, a := range allStrings("/.a", nRoot) {
		for _, b := range allStrings("/.a", nSuf) {
			ops = append(ops, "put 1 0 "+h(a)+" "+h(a+b))
		}
	}
	flush("put")
	// ---- random part
	for i := 0; i < n; i++ {
		c := vh.Case{ID: strconv.Itoa(i)}
		root := randRoot(r)
		for j, m := 0, r.Range(3, 10); j < m; j++ {
			if r.Chance(1, 6) {
				root = randRoot(r)
			}
			switch r.Intn(10) {
			case 0:
				c.Ops = append(c.Ops, "clean "+h(randStr(r, "/.ab-\xff", 14)))
			case 1:
				a, b := randStr(r, "/.ab", 9), randStr(r, "/.ab", 9)
				if r.Bool() {
					b = a + "/" + randStr(r, "/.ab", 6)
				}
				c.Ops = append(c.Ops, vh.Pick(r, []string{"rel ", "join "})+h(a)+" "+h(b))
			case 2:
				a := randRoot(r)
				c.Ops = append(c.Ops, vh.Pick(r, []string{"rel ", "join ", "rel "})+h(a)+" "+h(randFull(r, a)))
			case 3:
				if r.Bool() {
					a := randStr(r, "/.a", 6)
					c.Ops = append(c.Ops, "put 1 0 "+h(a)+" "+h(a+randStr(r, "/.a", 8)))
					break
				}
				// a real directory tree with a symbolic link below the root (see sandbox())
				rr := vh.Pick(r, []string{"/root", "/root", "/root/", "/root/in", "/root/link", "/root/./", "/outside"})
				ff := vh.Pick(r, []string{"/root/in/f", "/root/f", "/root/link/secret", "/root/link", "/root-sibling/f", "/root/../outside/secret",
					"/root/in/../f", "/root/in", "/root/nothing", "/outside/secret", "/root/link/../f", "/root//in/./f",
					"/root/in/..\\f", "/root/..\\outside\\secret", "/root/in\\f", "/root/in/..\\f", "/root/..\\outside\\secret"})
				c.Ops = append(c.Ops, "fsput "+h(rr)+" "+h(ff))
			case 8:
				// Put under one setting of the flags, Get under another (a URL reference must never be opened as a file)
				full := randFull(r, root)
				if r.Bool() {
					full = vh.Pick(r, []string{"http://host/../../../outside/secret.txt", "https://h/../../x", "http://../../..//etc/passwd",
						"http://h/a/../../../../root-sibling/f", "https://../secret", "http://host/p", "http://h/..\\..\\x"})
				}
				af, au := "1", "1"
				if r.Chance(1, 8) {
					au = "0"
				}
				af2, au2 := "1", "0" // never "1" for a URL: Get would issue an HTTP request
				if !filestore.IsURL(full) && r.Bool() {
					au2 = "1"
				}
				if r.Chance(1, 6) {
					af2 = "0"
				}
				c.Ops = append(c.Ops, "putget "+af+" "+au+" "+af2+" "+au2+" "+h(root)+" "+h(full))
			case 9:
				var fs []string
				for k, kk := 0, r.Range(0, 4); k < kk; k++ {
					fs = append(fs, h(randFull(r, root)))
				}
				l := "="
				if len(fs) > 0 {
					l = strings.Join(fs, ",")
				}
				au := "0"
				if r.Chance(1, 3) {
					au = "1"
				}
				c.Ops = append(c.Ops, "putmany 1 "+au+" "+h(root)+" "+l)
			default:
				af, au := "1", "0"
				if r.Chance(1, 10) {
					af = "0"
				}
				if r.Chance(1, 4) {
					au = "1"
				}
				c.Ops = append(c.Ops, "put "+af+" "+au+" "+h(root)+" "+h(randFull(r, root)))
			}
		}
		emit(c)
	}
}

type recReader struct{ data []byte }

func (r *recReader) ReadAt(p []byte, off int64) (int, error) {
	return bytes.NewReader(r.data).ReadAt(p, off)
}
func (r *recReader) Close() error { return nil }

// comps of a cleaned path: rootedness and elements ("." and "/" have none)
func comps(cleaned string) (bool, []string) {
	rooted := strings.HasPrefix(cleaned, "/")
	s := strings.TrimPrefix(cleaned, "/")
	if s == "" || (!rooted && s == ".") {
		return rooted, nil
	}
	return rooted, strings.Split(s, "/")
}

// lexicallyInside: the property's own predicate — same rootedness, the elements of the cleaned root
// are a prefix of the elements of the cleaned path, and what follows never goes up.
func lexicallyInside(root, p string) bool {
	rr, rc := comps(filepath.Clean(root))
	pr, pc := comps(filepath.Clean(p))
	if rr != pr || len(pc) < len(rc) {
		return false
	}
	for i := range rc {
		if rc[i] != pc[i] {
			return false
		}
	}
	for _, c := range pc[len(rc):] {
		if c == ".." {
			return false
		}
	}
	return true
}

var blockData = []byte("c41-block-data")

func doPut(o *vh.Out, af, au bool, root, full string) {
	fm := filestore.NewFileManager(dssync.MutexWrap(ds.NewMapDatastore()), root)
	fm.AllowFiles, fm.AllowUrls = af, au
	var opened []string
	filestore.VerifSetReaderFactory(fm, func(p string) (filestore.FileReader, error) {
		opened = append(opened, p)
		return &recReader{data: blockData}, nil
	})
	ctx := context.Background()
	nd := merkledag.NewRawNode(blockData)
	err := fm.Put(ctx, &posinfo.FilestoreNode{Node: nd, PosInfo: &posinfo.PosInfo{FullPath: full, Offset: 0}})
	passesStringPrefix := strings.HasPrefix(full, root) && !filestore.IsURL(full)
	switch {
	case errors.Is(err, filestore.ErrUrlstoreNotEnabled):
		o.Kind("urldisabled")
		o.Emit("urldisabled")
		return
	case errors.Is(err, filestore.ErrFilestoreNotEnabled):
		o.Kind("filedisabled")
		o.Emit("filedisabled")
		return
	case err != nil:
		o.Kind("reject")
		if passesStringPrefix {
			o.Kind("reject-after-string-prefix")
			o.Nontrivial()
		}
		if af && lexicallyInside(root, full) && strings.HasPrefix(full, root) && !filestore.IsURL(full) {
			// not part of the property (it only limits what is accepted), recorded for the evidence
			o.Kind("reject-though-inside")
		}
		o.Emit("reject")
		return
	}
	// accepted: read the stored reference back
	key := nd.Cid()
	res := filestore.List(ctx, filestore.NewFilestore(nil, fm, nil), key)
	stored := res.FilePath
	if res.Status != filestore.StatusOk {
		o.Fail("stored-unreadable", "List status %v", res.Status)
	}
	if filestore.IsURL(full) {
		o.Kind("url")
		o.Emit("url %s", h(stored))
		return
	}
	o.Kind("accept")
	if filestore.IsURL(stored) {
		// Get would issue an HTTP request for a reference that was added as a file
		o.Fail("stored-looks-like-url", "root=%q full=%q stored=%q", root, full, stored)
		o.Emit("ok %s http", h(stored))
		return
	}
	blk, gerr := fm.Get(ctx, key)
	if gerr != nil || blk == nil || len(opened) != 1 {
		if errors.Is(gerr, filestore.ErrFilestoreNotEnabled) {
			o.Emit("ok %s disabled", h(stored))
			return
		}
		o.Fail("get-failed", "root=%q full=%q stored=%q err=%v opened=%q", root, full, stored, gerr, opened)
		o.Emit("ok %s get-failed", h(stored))
		return
	}
	abs := opened[0]
	// ---- monitor: the property's predicate, evaluated on what the implementation did
	if !lexicallyInside(root, abs) {
		sig := "outside-root"
		if strings.HasPrefix(filepath.Clean(full), strings.TrimSuffix(filepath.Clean(root), "/")) && !lexicallyInside(root, full) {
			sig = "outside-root-sibling-or-dotdot"
		}
		o.Fail(sig, "root=%q full=%q stored=%q opened=%q", root, full, stored, abs)
	}
	if abs != filepath.Clean(full) {
		o.Fail("resolves-elsewhere", "root=%q full=%q stored=%q opened=%q", root, full, stored, abs)
	}
	if stored != "." {
		o.Nontrivial()
	}
	if filepath.Clean(full) != full {
		o.Kind("accept-unclean")
	}
	o.Emit("ok %s %s", h(stored), h(abs))
}

// doPutGet stores a reference under (af, au) and reads it back under (af2, au2).
func doPutGet(o *vh.Out, af, au, af2, au2 bool, root, full string) {
	fm := filestore.NewFileManager(dssync.MutexWrap(ds.NewMapDatastore()), root)
	fm.AllowFiles, fm.AllowUrls = af, au
	var opened []string
	filestore.VerifSetReaderFactory(fm, func(p string) (filestore.FileReader, error) {
		opened = append(opened, p)
		return &recReader{data: blockData}, nil
	})
	ctx := context.Background()
	nd := merkledag.NewRawNode(blockData)
	err := fm.Put(ctx, &posinfo.FilestoreNode{Node: nd, PosInfo: &posinfo.PosInfo{FullPath: full, Offset: 0}})
	switch {
	case errors.Is(err, filestore.ErrUrlstoreNotEnabled):
		o.Emit("urldisabled")
		return
	case errors.Is(err, filestore.ErrFilestoreNotEnabled):
		o.Emit("filedisabled")
		return
	case err != nil:
		o.Emit("reject")
		return
	}
	fs := filestore.NewFilestore(nil, fm, nil)
	stored := filestore.List(ctx, fs, nd.Cid()).FilePath
	isURL := filestore.IsURL(stored)
	fm.AllowFiles, fm.AllowUrls = af2, au2
	o.Kind("putget")
	if isURL && au2 {
		o.Emit("ok %s http", h(stored)) // not exercised: it would go to the network
		return
	}
	blk, gerr := fm.Get(ctx, nd.Cid())
	ver := filestore.Verify(ctx, fs, nd.Cid())
	// ---- monitor
	if isURL {
		o.Kind("putget-url-flags-off")
		o.Nontrivial()
		if len(opened) > 0 {
			o.Fail("url-opened-as-file", "root=%q stored=%q opened=%q (Get err=%v, Verify=%v)", root, stored, opened, gerr, ver.Status)
		}
		if gerr == nil || ver.Status == filestore.StatusOk {
			o.Fail("url-served-with-urlstore-off", "root=%q stored=%q Get err=%v Verify=%v", root, stored, gerr, ver.Status)
		}
	} else {
		for _, p := range opened {
			if !lexicallyInside(root, p) {
				o.Fail("outside-root", "putget root=%q full=%q stored=%q opened=%q", root, full, stored, p)
			}
			if p != filepath.Clean(full) {
				o.Fail("resolves-elsewhere", "putget root=%q full=%q stored=%q opened=%q", root, full, stored, p)
			}
		}
	}
	switch {
	case errors.Is(gerr, filestore.ErrUrlstoreNotEnabled):
		o.Emit("ok %s urldisabled", h(stored))
	case errors.Is(gerr, filestore.ErrFilestoreNotEnabled):
		o.Emit("ok %s disabled", h(stored))
	case gerr != nil || blk == nil || len(opened) == 0:
		o.Emit("ok %s get-failed", h(stored))
	default:
		o.Emit("ok %s %s", h(stored), h(opened[0]))
	}
}

func doPutMany(o *vh.Out, af, au bool, root, list string) {
	var fulls []string
	if list != "=" {
		for _, x := range strings.Split(list, ",") {
			fulls = append(fulls, string(vh.UnHex(x)))
		}
	}
	fm := filestore.NewFileManager(dssync.MutexWrap(ds.NewMapDatastore()), root)
	fm.AllowFiles, fm.AllowUrls = af, au
	ctx := context.Background()
	var nodes []*posinfo.FilestoreNode
	for i, full := range fulls {
		nd := merkledag.NewRawNode([]byte(fmt.Sprintf("c41-many-%d", i)))
		nodes = append(nodes, &posinfo.FilestoreNode{Node: nd, PosInfo: &posinfo.PosInfo{FullPath: full}})
	}
	err := fm.PutMany(ctx, nodes)
	fs := filestore.NewFilestore(nil, fm, nil)
	if err != nil {
		o.Kind("putmany-reject")
		// all-or-nothing: nothing may be stored, and the first refused reference is the model's index
		first := -1
		for i, n := range nodes {
			if has, _ := fm.Has(ctx, n.Cid()); has {
				o.Fail("putmany-partial", "block %d stored although PutMany failed", i)
			}
			if first < 0 {
				single := filestore.NewFileManager(dssync.MutexWrap(ds.NewMapDatastore()), root)
				single.AllowFiles, single.AllowUrls = af, au
				if single.Put(ctx, n) != nil {
					first = i
				}
			}
		}
		o.Emit("reject %d", first)
		return
	}
	o.Kind("putmany-ok")
	var stored []string
	for i, n := range nodes {
		res := filestore.List(ctx, fs, n.Cid())
		if has, _ := fm.Has(ctx, n.Cid()); !has || res.Status != filestore.StatusOk {
			o.Fail("putmany-missing", "block %d not stored", i)
		}
		if sz, err := fm.GetSize(ctx, n.Cid()); err != nil || sz != len(n.RawData()) {
			o.Fail("putmany-size", "block %d size %d err %v", i, sz, err)
		}
		stored = append(stored, res.FilePath)
		if !filestore.IsURL(fulls[i]) && !lexicallyInside(root, filepath.Join(root, filepath.FromSlash(res.FilePath))) {
			o.Fail("outside-root", "PutMany root=%q full=%q stored=%q", root, fulls[i], res.FilePath)
		}
	}
	if len(nodes) > 0 {
		// DeleteBlock removes the reference
		if err := fm.DeleteBlock(ctx, nodes[0].Cid()); err != nil {
			o.Fail("delete", "%v", err)
		}
		if has, _ := fm.Has(ctx, nodes[0].Cid()); has {
			o.Fail("delete", "still present")
		}
	}
	if len(stored) == 0 {
		o.Emit("ok =")
		return
	}
	hs := make([]string, len(stored))
	for i, x := range stored {
		hs[i] = h(x)
	}
	o.Emit("ok %s", strings.Join(hs, ","))
}

// sandbox creates S/root/{in/f,f,link -> ../outside}, S/outside/secret, S/root-sibling/f; every regular
// file contains its own path relative to S, so what Get returns names the file that was physically read.
func sandbox() (string, error) {
	s, err := os.MkdirTemp("", "c41-sandbox-")
	if err != nil {
		return "", err
	}
	if s, err = filepath.EvalSymlinks(s); err != nil {
		return "", err
	}
	// the last three are single components containing backslashes; rewriting '\\' to '/' would reach the decoys
	// root/f, outside/secret and root/in/f
	for _, f := range []string{"root/in/f", "root/f", "outside/secret", "root-sibling/f", "root/in/..\\f", "root/..\\outside\\secret", "root/in\\f"} {
		p := filepath.Join(s, f)
		if err := os.MkdirAll(filepath.Dir(p), 0o755); err != nil {
			return s, err
		}
		if err := os.WriteFile(p, []byte(f), 0o644); err != nil {
			return s, err
		}
	}
	return s, os.Symlink(filepath.Join(s, "outside"), filepath.Join(s, "root", "link"))
}

type osReader struct{ *os.File }

var (
	sharedSandbox    string
	sharedSandboxErr error
)

func doFsPut(o *vh.Out, rootRel, fullRel string) {
	// the sandbox is read-only for the ops: built once per exec process, removed by the last op of a case
	// that used it (a later case rebuilds it)
	if sharedSandbox == "" {
		sharedSandbox, sharedSandboxErr = sandbox()
	}
	s, err := sharedSandbox, sharedSandboxErr
	if err != nil {
		o.Fail("sandbox", "%v", err)
		o.Emit("sandbox-error")
		return
	}
	root, full := s+rootRel, s+fullRel
	// the block data is what the lexically cleaned path holds: Put cleans FullPath lexically, so
	// "root/link/../f" denotes "root/f" for the filestore although the kernel would resolve it to "outside/../f"
	data, rerr := os.ReadFile(filepath.Clean(full))
	if rerr != nil {
		data = []byte("unreadable")
	}
	if d2, err2 := os.ReadFile(full); (err2 == nil) != (rerr == nil) || string(d2) != string(data) && rerr == nil {
		o.Kind("fs-dotdot-after-symlink-differs")
	}
	fm := filestore.NewFileManager(dssync.MutexWrap(ds.NewMapDatastore()), root)
	fm.AllowFiles = true
	var opened []string
	filestore.VerifSetReaderFactory(fm, func(p string) (filestore.FileReader, error) {
		opened = append(opened, p)
		f, err := os.Open(p) // what the default reader factory does
		if err != nil {
			return nil, err
		}
		return osReader{f}, nil
	})
	ctx := context.Background()
	nd := merkledag.NewRawNode(data)
	if err := fm.Put(ctx, &posinfo.FilestoreNode{Node: nd, PosInfo: &posinfo.PosInfo{FullPath: full}}); err != nil {
		o.Kind("fs-reject")
		o.Emit("reject")
		return
	}
	o.Kind("fs-accept")
	stored := filestore.List(ctx, filestore.NewFilestore(nil, fm, nil), nd.Cid()).FilePath
	blk, gerr := fm.Get(ctx, nd.Cid())
	if len(opened) == 1 && !lexicallyInside(root, opened[0]) {
		o.Fail("outside-root", "fs root=%q full=%q stored=%q opened=%q", root, full, stored, opened[0])
	}
	if len(opened) == 1 && opened[0] != filepath.Clean(full) {
		o.Fail("resolves-elsewhere", "fs root=%q full=%q stored=%q opened=%q", root, full, stored, opened[0])
	}
	if gerr != nil || blk == nil {
		o.Kind("fs-missing")
		o.Emit("ok %s missing", h(stored))
		return
	}
	// which file was physically read: not a failure of the (lexical) property, reported for the evidence
	physRoot, _ := filepath.EvalSymlinks(filepath.Clean(root))
	if physRoot != "" && !lexicallyInside(physRoot, filepath.Join(s, string(blk.RawData()))) {
		o.Kind("fs-symlink-followed-outside-root")
	}
	o.Nontrivial()
	o.Emit("ok %s %s", h(stored), h(string(blk.RawData())))
}

func exec(c vh.Case, o *vh.Out) {
	defer func() {
		if sharedSandbox != "" {
			os.RemoveAll(sharedSandbox)
			sharedSandbox, sharedSandboxErr = "", nil
		}
	}()
	for _, line := range c.Ops {
		f := strings.Fields(line)
		switch {
		case f[0] == "clean" && len(f) == 2:
			s := string(vh.UnHex(f[1]))
			a, b := gopath.Clean(s), filepath.Clean(s)
			if a != b {
				o.Fail("path-vs-filepath-clean", "%q: path.Clean=%q filepath.Clean=%q", s, a, b)
			}
			o.Kind("clean")
			o.Emit("%s", h(a))
		case f[0] == "join" && len(f) == 3:
			a, b := string(vh.UnHex(f[1])), string(vh.UnHex(f[2]))
			j := filepath.Join(a, b)
			if j2 := gopath.Join(a, b); j2 != j {
				o.Fail("path-vs-filepath-join", "%q %q: %q %q", a, b, j2, j)
			}
			o.Kind("join")
			o.Emit("%s", h(j))
		case f[0] == "rel" && len(f) == 3:
			a, b := string(vh.UnHex(f[1])), string(vh.UnHex(f[2]))
			r, err := filepath.Rel(a, b)
			if err != nil {
				o.Kind("rel-err")
				o.Emit("err")
			} else {
				o.Kind("rel")
				o.Emit("%s", h(r))
			}
		case f[0] == "putget" && len(f) == 7:
			doPutGet(o, f[1] == "1", f[2] == "1", f[3] == "1", f[4] == "1", string(vh.UnHex(f[5])), string(vh.UnHex(f[6])))
		case f[0] == "putmany" && len(f) == 5:
			doPutMany(o, f[1] == "1", f[2] == "1", string(vh.UnHex(f[3])), f[4])
		case f[0] == "fsput" && len(f) == 3:
			doFsPut(o, string(vh.UnHex(f[1])), string(vh.UnHex(f[2])))
		case f[0] == "put" && len(f) == 5:
			doPut(o, f[1] == "1", f[2] == "1", string(vh.UnHex(f[3])), string(vh.UnHex(f[4])))
		default:
			o.Emit("bad-op")
		}
	}
}

func main() { vh.Main(vh.Config{Gen: gen, Exec: exec}) }
