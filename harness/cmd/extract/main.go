// extract: the T-gen translators (DESIGN.md §3.2). Each sub-command reads Go source from --repo and
// writes a Lean file to --out. Sub-commands register themselves in init() (one file each).
//
//	extract <subcommand> [args] --repo /repo --out <file.lean>
package main

import (
	"fmt"
	"os"
)

type subcmd func(repo, out string, args []string) error

var registry = map[string]subcmd{}

func main() {
	if len(os.Args) < 2 {
		fmt.Fprintln(os.Stderr, "usage: extract <subcommand> [args] --repo DIR --out FILE")
		os.Exit(2)
	}
	f, ok := registry[os.Args[1]]
	if !ok {
		fmt.Fprintf(os.Stderr, "extract: unknown subcommand %q\n", os.Args[1])
		os.Exit(2)
	}
	repo, out := "/repo", ""
	var rest []string
	a := os.Args[2:]
	for i := 0; i < len(a); i++ {
		switch a[i] {
		case "--repo":
			i++
			repo = a[i]
		case "--out":
			i++
			out = a[i]
		default:
			rest = append(rest, a[i])
		}
	}
	if out == "" {
		fmt.Fprintln(os.Stderr, "extract: --out required")
		os.Exit(2)
	}
	if err := f(repo, out, rest); err != nil {
		fmt.Fprintln(os.Stderr, "extract:", err)
		os.Exit(1)
	}
}
