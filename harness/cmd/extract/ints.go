package main

// T-gen-1 "ints": translate pure integer Go functions (straight-line code, if / switch / return,
// integer and boolean operators, conversions, a few math/bits builtins) into Lean 4 definitions over
// BitVec. Anything outside the whitelisted syntax is refused with an error naming the function, so a
// silent mistranslation is not possible; the check then reports the obligation as "not regenerated".
//
//	extract ints <spec.json> --repo DIR --out FILE.lean
//
// spec.json:
//
//	{"namespace": "Gen.C18",
//	 "funcs":  [{"file": "files/util.go", "name": "ModePermsToUnixPerms", "lean": "modePermsToUnixPerms"},
//	            {"file": "verifcid/allowlist.go", "name": "defaultAllowlist.IsAllowed", "lean": "isAllowed"}],
//	 "calls":  {"DefaultAllowlist.MinDigestSize": "defaultAllowlist.MinDigestSize"},   // optional call aliases
//	 "types":  {"os.FileMode": "u32", "time.Duration": "i64"}}                        // optional extra named types
//
// Go type -> Lean: uintN/intN -> BitVec N (int, uint -> 64), byte -> BitVec 8, bool -> Bool;
// (T, error) results -> Option T (nil error = some). Signedness is tracked for / % >> < <= > >= and
// conversions. Untyped constants take the type of the other operand (Go's rule for these expressions).

import (
	"encoding/json"
	"fmt"
	"go/ast"
	"go/constant"
	"go/parser"
	"go/token"
	"math/big"
	"os"
	"path/filepath"
	"sort"
	"strings"

	mh "github.com/multiformats/go-multihash"
)

func init() { registry["ints"] = runInts }

type ity struct {
	kind   string // "int" | "bool" | "untyped" | "opt"
	bits   int
	signed bool
	elem   *ity // for opt
}

func (t ity) lean() string {
	switch t.kind {
	case "int":
		return fmt.Sprintf("BitVec %d", t.bits)
	case "bool":
		return "Bool"
	case "opt":
		return "Option (" + t.elem.lean() + ")"
	}
	return "?"
}

var baseTypes = map[string]ity{
	"uint8": {kind: "int", bits: 8}, "byte": {kind: "int", bits: 8}, "uint16": {kind: "int", bits: 16},
	"uint32": {kind: "int", bits: 32}, "uint64": {kind: "int", bits: 64}, "uint": {kind: "int", bits: 64},
	"uintptr": {kind: "int", bits: 64},
	"int8":    {kind: "int", bits: 8, signed: true}, "int16": {kind: "int", bits: 16, signed: true},
	"int32": {kind: "int", bits: 32, signed: true}, "rune": {kind: "int", bits: 32, signed: true},
	"int64": {kind: "int", bits: 64, signed: true}, "int": {kind: "int", bits: 64, signed: true},
	"bool":        {kind: "bool"},
	"os.FileMode": {kind: "int", bits: 32}, "fs.FileMode": {kind: "int", bits: 32},
	"time.Duration": {kind: "int", bits: 64, signed: true},
}

// constants of imported packages that the translated functions mention; values come from the
// dependency versions this module is built against (the same ones /repo pins).
var externConsts = map[string]int64{
	"mh.SHA2_256": mh.SHA2_256, "mh.SHA2_512": mh.SHA2_512, "mh.SHAKE_256": mh.SHAKE_256,
	"mh.DBL_SHA2_256": mh.DBL_SHA2_256, "mh.BLAKE3": mh.BLAKE3, "mh.IDENTITY": mh.IDENTITY,
	"mh.SHA3_224": mh.SHA3_224, "mh.SHA3_256": mh.SHA3_256, "mh.SHA3_384": mh.SHA3_384, "mh.SHA3_512": mh.SHA3_512,
	"mh.KECCAK_224": mh.KECCAK_224, "mh.KECCAK_256": mh.KECCAK_256, "mh.KECCAK_384": mh.KECCAK_384,
	"mh.KECCAK_512": mh.KECCAK_512, "mh.SHA1": mh.SHA1, "mh.MD5": mh.MD5, "mh.SHAKE_128": mh.SHAKE_128,
	"mh.BLAKE2B_MIN": mh.BLAKE2B_MIN, "mh.BLAKE2B_MAX": mh.BLAKE2B_MAX,
	"mh.BLAKE2S_MIN": mh.BLAKE2S_MIN, "mh.BLAKE2S_MAX": mh.BLAKE2S_MAX,
	"mh.MURMUR3X64_64": mh.MURMUR3X64_64,
	"os.ModeSticky":    int64(os.ModeSticky), "os.ModeSetuid": int64(os.ModeSetuid), "os.ModeSetgid": int64(os.ModeSetgid),
	"os.ModePerm": int64(os.ModePerm), "os.ModeDir": int64(os.ModeDir), "os.ModeSymlink": int64(os.ModeSymlink),
	"os.ModeType": int64(os.ModeType),
	"fs.ModeSticky": int64(os.ModeSticky), "fs.ModeSetuid": int64(os.ModeSetuid), "fs.ModeSetgid": int64(os.ModeSetgid),
	"fs.ModePerm": int64(os.ModePerm), "fs.ModeDir": int64(os.ModeDir), "fs.ModeSymlink": int64(os.ModeSymlink),
	"time.Nanosecond": 1, "time.Microsecond": 1000, "time.Millisecond": 1000000, "time.Second": 1000000000,
	"time.Minute": 60000000000, "time.Hour": 3600000000000,
	"math.MaxInt64": 1<<63 - 1, "math.MaxInt32": 1<<31 - 1, "math.MaxUint32": 1<<32 - 1, "math.MaxInt": 1<<63 - 1,
}

type intsSpec struct {
	Namespace string `json:"namespace"`
	Funcs     []struct {
		File string `json:"file"`
		Name string `json:"name"`
		Lean string `json:"lean"`
	} `json:"funcs"`
	Calls map[string]string `json:"calls"`
	Types map[string]string `json:"types"`
}

type fnInfo struct {
	lean   string
	params []ity
	result ity
}

type trans struct {
	repo   string
	fset   *token.FileSet
	pkgs   map[string][]*ast.File // dir -> files
	consts map[string]map[string]ast.Expr
	ctypes map[string]map[string]ast.Expr // declared const types
	fns    map[string]*fnInfo             // go name -> info
	calls  map[string]string
	types  map[string]ity
	dir    string // package dir of the function being translated
	fresh  int
}

type env map[string]ity

func (t *trans) loadPkg(dir string) error {
	if _, ok := t.pkgs[dir]; ok {
		return nil
	}
	ms, err := filepath.Glob(filepath.Join(t.repo, dir, "*.go"))
	if err != nil {
		return err
	}
	t.consts[dir] = map[string]ast.Expr{}
	t.ctypes[dir] = map[string]ast.Expr{}
	for _, m := range ms {
		if strings.HasSuffix(m, "_test.go") {
			continue
		}
		f, err := parser.ParseFile(t.fset, m, nil, parser.SkipObjectResolution)
		if err != nil {
			return err
		}
		t.pkgs[dir] = append(t.pkgs[dir], f)
		for _, d := range f.Decls {
			gd, ok := d.(*ast.GenDecl)
			if !ok || gd.Tok != token.CONST {
				continue
			}
			for _, s := range gd.Specs {
				vs := s.(*ast.ValueSpec)
				for i, n := range vs.Names {
					if i < len(vs.Values) {
						t.consts[dir][n.Name] = vs.Values[i]
						if vs.Type != nil {
							t.ctypes[dir][n.Name] = vs.Type
						}
					}
				}
			}
		}
	}
	return nil
}

func (t *trans) findFunc(dir, name string) *ast.FuncDecl {
	recv := ""
	if i := strings.Index(name, "."); i >= 0 {
		recv, name = name[:i], name[i+1:]
	}
	for _, f := range t.pkgs[dir] {
		for _, d := range f.Decls {
			fd, ok := d.(*ast.FuncDecl)
			if !ok || fd.Name.Name != name {
				continue
			}
			r := ""
			if fd.Recv != nil && len(fd.Recv.List) == 1 {
				r = typeName(fd.Recv.List[0].Type)
				r = strings.TrimPrefix(r, "*")
			}
			if r == recv {
				return fd
			}
		}
	}
	return nil
}

func typeName(e ast.Expr) string {
	switch x := e.(type) {
	case *ast.Ident:
		return x.Name
	case *ast.SelectorExpr:
		return typeName(x.X) + "." + x.Sel.Name
	case *ast.StarExpr:
		return "*" + typeName(x.X)
	}
	return "?"
}

func (t *trans) goType(e ast.Expr) (ity, error) {
	n := typeName(e)
	if ty, ok := t.types[n]; ok {
		return ty, nil
	}
	if ty, ok := baseTypes[n]; ok {
		return ty, nil
	}
	return ity{}, fmt.Errorf("unsupported type %s", n)
}

func lit(v *big.Int, ty ity) string {
	if v.Sign() >= 0 {
		return fmt.Sprintf("%s#%d", v.String(), ty.bits)
	}
	return fmt.Sprintf("(BitVec.ofInt %d (%s))", ty.bits, v.String())
}

// constant evaluation of untyped constant expressions (literals, package constants, extern table)
func (t *trans) constVal(e ast.Expr, en env) (*big.Int, bool) {
	switch x := e.(type) {
	case *ast.BasicLit:
		if x.Kind == token.INT || x.Kind == token.CHAR {
			v := constant.MakeFromLiteral(x.Value, x.Kind, 0)
			if bi, ok := constant.Val(constant.ToInt(v)).(*big.Int); ok {
				return bi, true
			}
			if i64, ok := constant.Int64Val(constant.ToInt(v)); ok {
				return big.NewInt(i64), true
			}
		}
	case *ast.ParenExpr:
		return t.constVal(x.X, en)
	case *ast.Ident:
		if _, local := en[x.Name]; local {
			return nil, false
		}
		if ce, ok := t.consts[t.dir][x.Name]; ok {
			if _, typed := t.ctypes[t.dir][x.Name]; typed {
				return nil, false
			}
			return t.constVal(ce, env{})
		}
	case *ast.SelectorExpr:
		if v, ok := externConsts[typeName(x)]; ok {
			return big.NewInt(v), true
		}
	case *ast.UnaryExpr:
		if v, ok := t.constVal(x.X, en); ok {
			switch x.Op {
			case token.SUB:
				return new(big.Int).Neg(v), true
			case token.ADD:
				return v, true
			}
		}
	case *ast.BinaryExpr:
		a, ok1 := t.constVal(x.X, en)
		b, ok2 := t.constVal(x.Y, en)
		if ok1 && ok2 {
			r := new(big.Int)
			switch x.Op {
			case token.ADD:
				return r.Add(a, b), true
			case token.SUB:
				return r.Sub(a, b), true
			case token.MUL:
				return r.Mul(a, b), true
			case token.QUO:
				if b.Sign() != 0 {
					return r.Quo(a, b), true
				}
			case token.REM:
				if b.Sign() != 0 {
					return r.Rem(a, b), true
				}
			case token.SHL:
				return r.Lsh(a, uint(b.Uint64())), true
			case token.SHR:
				return r.Rsh(a, uint(b.Uint64())), true
			case token.AND:
				return r.And(a, b), true
			case token.OR:
				return r.Or(a, b), true
			case token.XOR:
				return r.Xor(a, b), true
			case token.AND_NOT:
				return r.AndNot(a, b), true
			}
		}
	}
	return nil, false
}

// expr translates e; want (if kind != "") is the type an untyped constant should take.
func (t *trans) expr(e ast.Expr, en env, want ity) (string, ity, error) {
	if v, ok := t.constVal(e, en); ok {
		if want.kind == "int" {
			return lit(v, want), want, nil
		}
		return v.String(), ity{kind: "untyped"}, nil
	}
	switch x := e.(type) {
	case *ast.ParenExpr:
		return t.expr(x.X, en, want)
	case *ast.Ident:
		if x.Name == "true" || x.Name == "false" {
			return x.Name, ity{kind: "bool"}, nil
		}
		if ty, ok := en[x.Name]; ok {
			return leanIdent(x.Name), ty, nil
		}
		if ce, ok := t.consts[t.dir][x.Name]; ok { // typed package constant
			ty, err := t.goType(t.ctypes[t.dir][x.Name])
			if err != nil {
				return "", ity{}, err
			}
			s, _, err := t.expr(ce, env{}, ty)
			return s, ty, err
		}
		return "", ity{}, fmt.Errorf("unknown identifier %s", x.Name)
	case *ast.UnaryExpr:
		s, ty, err := t.expr(x.X, en, want)
		if err != nil {
			return "", ity{}, err
		}
		switch x.Op {
		case token.NOT:
			if ty.kind == "bool" {
				return "(!" + s + ")", ty, nil
			}
		case token.SUB:
			if ty.kind == "int" {
				return "(-" + s + ")", ty, nil
			}
		case token.XOR:
			if ty.kind == "int" {
				return "(~~~" + s + ")", ty, nil
			}
		case token.ADD:
			return s, ty, nil
		}
		return "", ity{}, fmt.Errorf("unsupported unary %s", x.Op)
	case *ast.BinaryExpr:
		return t.binary(x, en, want)
	case *ast.CallExpr:
		return t.call(x, en, want)
	}
	return "", ity{}, fmt.Errorf("unsupported expression %T", e)
}

func (t *trans) binary(x *ast.BinaryExpr, en env, want ity) (string, ity, error) {
	switch x.Op {
	case token.LAND, token.LOR:
		a, ta, err := t.expr(x.X, en, ity{})
		if err != nil {
			return "", ity{}, err
		}
		b, tb, err := t.expr(x.Y, en, ity{})
		if err != nil {
			return "", ity{}, err
		}
		if ta.kind != "bool" || tb.kind != "bool" {
			return "", ity{}, fmt.Errorf("non-bool operand of %s", x.Op)
		}
		op := "&&"
		if x.Op == token.LOR {
			op = "||"
		}
		return "(" + a + " " + op + " " + b + ")", ta, nil
	case token.SHL, token.SHR:
		a, ta, err := t.expr(x.X, en, want)
		if err != nil {
			return "", ity{}, err
		}
		if ta.kind != "int" {
			return "", ity{}, fmt.Errorf("shift of a non-typed operand (give the constant a type)")
		}
		var cnt string
		if v, ok := t.constVal(x.Y, en); ok {
			cnt = v.String()
		} else {
			b, tb, err := t.expr(x.Y, en, ity{})
			if err != nil {
				return "", ity{}, err
			}
			if tb.kind != "int" {
				return "", ity{}, fmt.Errorf("bad shift count")
			}
			if tb.signed {
				// Go panics on a negative count; the translated functions never do that, refuse rather than guess
				cnt = "(" + b + ").toNat"
			} else {
				cnt = "(" + b + ").toNat"
			}
		}
		if x.Op == token.SHL {
			return "(" + a + " <<< " + cnt + ")", ta, nil
		}
		if ta.signed {
			return "(BitVec.sshiftRight " + a + " " + cnt + ")", ta, nil
		}
		return "(" + a + " >>> " + cnt + ")", ta, nil
	}
	// ordinary binary operator: operands have a common type. Go's rule: an untyped constant operand
	// takes the type of the typed operand; only if neither side is typed does the context decide.
	a, ta, erra := t.expr(x.X, en, ity{})
	b, tb, errb := t.expr(x.Y, en, ity{})
	aTyped := erra == nil && (ta.kind == "int" || ta.kind == "bool")
	bTyped := errb == nil && (tb.kind == "int" || tb.kind == "bool")
	var err error
	switch {
	case aTyped && bTyped:
	case aTyped:
		if b, tb, err = t.expr(x.Y, en, ta); err != nil {
			return "", ity{}, err
		}
	case bTyped:
		if a, ta, err = t.expr(x.X, en, tb); err != nil {
			return "", ity{}, err
		}
	default:
		if a, ta, err = t.expr(x.X, en, want); err != nil {
			return "", ity{}, err
		}
		if b, tb, err = t.expr(x.Y, en, ta); err != nil {
			return "", ity{}, err
		}
	}
	isCmp := x.Op == token.EQL || x.Op == token.NEQ || x.Op == token.LSS || x.Op == token.LEQ || x.Op == token.GTR || x.Op == token.GEQ
	if ta.kind == "untyped" && tb.kind == "untyped" {
		return "", ity{}, fmt.Errorf("untyped non-constant expression")
	}
	if ta.kind == "bool" && tb.kind == "bool" && (x.Op == token.EQL || x.Op == token.NEQ) {
		if x.Op == token.EQL {
			return "(" + a + " == " + b + ")", ta, nil
		}
		return "(" + a + " != " + b + ")", ta, nil
	}
	if ta.kind != "int" || tb.kind != "int" || ta.bits != tb.bits || ta.signed != tb.signed {
		return "", ity{}, fmt.Errorf("operand types differ in %s: %v vs %v", x.Op, ta, tb)
	}
	bo := ity{kind: "bool"}
	if isCmp {
		lt, le := "BitVec.ult", "BitVec.ule"
		if ta.signed {
			lt, le = "BitVec.slt", "BitVec.sle"
		}
		switch x.Op {
		case token.EQL:
			return "(" + a + " == " + b + ")", bo, nil
		case token.NEQ:
			return "(" + a + " != " + b + ")", bo, nil
		case token.LSS:
			return "(" + lt + " " + a + " " + b + ")", bo, nil
		case token.LEQ:
			return "(" + le + " " + a + " " + b + ")", bo, nil
		case token.GTR:
			return "(" + lt + " " + b + " " + a + ")", bo, nil
		case token.GEQ:
			return "(" + le + " " + b + " " + a + ")", bo, nil
		}
	}
	switch x.Op {
	case token.ADD:
		return "(" + a + " + " + b + ")", ta, nil
	case token.SUB:
		return "(" + a + " - " + b + ")", ta, nil
	case token.MUL:
		return "(" + a + " * " + b + ")", ta, nil
	case token.QUO:
		// Go panics on division by zero; Lean's BitVec division returns 0 there: emitted as is, callers
		// must only rely on the translation where the divisor is non-zero (constant divisors are checked)
		if v, ok := t.constVal(x.Y, en); !ok || v.Sign() == 0 {
			return "", ity{}, fmt.Errorf("division by a non-constant or zero divisor")
		}
		if ta.signed {
			return "(BitVec.sdiv " + a + " " + b + ")", ta, nil
		}
		return "(" + a + " / " + b + ")", ta, nil
	case token.REM:
		if v, ok := t.constVal(x.Y, en); !ok || v.Sign() == 0 {
			return "", ity{}, fmt.Errorf("remainder by a non-constant or zero divisor")
		}
		if ta.signed {
			return "(BitVec.srem " + a + " " + b + ")", ta, nil
		}
		return "(" + a + " % " + b + ")", ta, nil
	case token.AND:
		return "(" + a + " &&& " + b + ")", ta, nil
	case token.OR:
		return "(" + a + " ||| " + b + ")", ta, nil
	case token.XOR:
		return "(" + a + " ^^^ " + b + ")", ta, nil
	case token.AND_NOT:
		return "(" + a + " &&& ~~~" + b + ")", ta, nil
	}
	return "", ity{}, fmt.Errorf("unsupported operator %s", x.Op)
}

func (t *trans) call(x *ast.CallExpr, en env, want ity) (string, ity, error) {
	name := typeName(x.Fun)
	// conversion?
	if ty, err := t.goType(x.Fun); err == nil && len(x.Args) == 1 && ty.kind == "int" {
		s, ts, err := t.expr(x.Args[0], en, ity{})
		if err != nil || ts.kind == "untyped" {
			s, ts, err = t.expr(x.Args[0], en, ty)
		}
		if err != nil {
			return "", ity{}, err
		}
		if ts.kind != "int" {
			return "", ity{}, fmt.Errorf("conversion of non-integer")
		}
		if ts.bits == ty.bits {
			return s, ty, nil
		}
		if ty.bits > ts.bits && ts.signed {
			return fmt.Sprintf("(BitVec.signExtend %d %s)", ty.bits, s), ty, nil
		}
		return fmt.Sprintf("(BitVec.setWidth %d %s)", ty.bits, s), ty, nil
	}
	i64 := ity{kind: "int", bits: 64, signed: true}
	switch name {
	case "bits.Len64", "bits.Len", "bits.Len32", "bits.TrailingZeros", "bits.TrailingZeros64", "bits.OnesCount64":
		w := 64
		if name == "bits.Len32" {
			w = 32
		}
		s, ts, err := t.expr(x.Args[0], en, ity{kind: "int", bits: w})
		if err != nil {
			return "", ity{}, err
		}
		if ts.kind != "int" || ts.bits != w {
			return "", ity{}, fmt.Errorf("%s: bad argument type", name)
		}
		fn := map[string]string{"bits.Len64": "GoInt.len", "bits.Len": "GoInt.len", "bits.Len32": "GoInt.len",
			"bits.TrailingZeros": "GoInt.trailingZeros", "bits.TrailingZeros64": "GoInt.trailingZeros",
			"bits.OnesCount64": "GoInt.onesCount"}[name]
		return "(" + fn + " " + s + ")", i64, nil
	case "min", "max":
		if len(x.Args) < 2 {
			return "", ity{}, fmt.Errorf("%s arity", name)
		}
		acc, ta, err := t.expr(x.Args[0], en, want)
		if err != nil {
			return "", ity{}, err
		}
		for _, a := range x.Args[1:] {
			s, tb, err := t.expr(a, en, ta)
			if err != nil {
				return "", ity{}, err
			}
			if ta.kind == "untyped" && tb.kind == "int" {
				acc, ta, err = t.expr(x.Args[0], en, tb)
				if err != nil {
					return "", ity{}, err
				}
			}
			if ta.kind != "int" || tb.kind != "int" || ta.bits != tb.bits || ta.signed != tb.signed {
				return "", ity{}, fmt.Errorf("%s: operand types differ", name)
			}
			fn := "GoInt.u" + name
			if ta.signed {
				fn = "GoInt.s" + name
			}
			acc = "(" + fn + " " + acc + " " + s + ")"
		}
		return acc, ta, nil
	}
	if alias, ok := t.calls[name]; ok {
		name = alias
	}
	if fi, ok := t.fns[name]; ok {
		if len(fi.params) != len(x.Args) {
			return "", ity{}, fmt.Errorf("call %s: arity", name)
		}
		s := "(" + fi.lean
		for i, a := range x.Args {
			as, ta, err := t.expr(a, en, fi.params[i])
			if err != nil {
				return "", ity{}, err
			}
			if ta != fi.params[i] {
				return "", ity{}, fmt.Errorf("call %s: argument %d has type %v, want %v", name, i, ta, fi.params[i])
			}
			s += " " + as
		}
		return s + ")", fi.result, nil
	}
	return "", ity{}, fmt.Errorf("unsupported call %s", name)
}

func leanIdent(s string) string {
	switch s {
	case "end", "from", "at", "fun", "do", "then", "else", "if", "let", "in", "at_", "open", "by", "have", "show", "with", "match", "where":
		return s + "_"
	}
	return s
}

// block translates a statement list into a Lean expression of the function's result type.
// cont is the translation of "what follows this block" (nil = nothing follows: falling off is an error).
func (t *trans) block(stmts []ast.Stmt, en env, res ity, cont func(env) (string, error)) (string, error) {
	if len(stmts) == 0 {
		if cont == nil {
			return "", fmt.Errorf("control reaches the end of the function without return")
		}
		return cont(en)
	}
	rest := func(e env) (string, error) { return t.block(stmts[1:], e, res, cont) }
	switch s := stmts[0].(type) {
	case *ast.ReturnStmt:
		return t.ret(s, en, res)
	case *ast.AssignStmt:
		if len(s.Lhs) != 1 || len(s.Rhs) != 1 {
			return "", fmt.Errorf("multi-assignment unsupported")
		}
		id, ok := s.Lhs[0].(*ast.Ident)
		if !ok {
			return "", fmt.Errorf("assignment to non-identifier")
		}
		var rhs ast.Expr = s.Rhs[0]
		if s.Tok != token.DEFINE && s.Tok != token.ASSIGN {
			op, ok := map[token.Token]token.Token{token.ADD_ASSIGN: token.ADD, token.SUB_ASSIGN: token.SUB, token.MUL_ASSIGN: token.MUL,
				token.OR_ASSIGN: token.OR, token.AND_ASSIGN: token.AND, token.XOR_ASSIGN: token.XOR, token.SHL_ASSIGN: token.SHL,
				token.SHR_ASSIGN: token.SHR, token.QUO_ASSIGN: token.QUO, token.REM_ASSIGN: token.REM, token.AND_NOT_ASSIGN: token.AND_NOT}[s.Tok]
			if !ok {
				return "", fmt.Errorf("unsupported assignment %s", s.Tok)
			}
			rhs = &ast.BinaryExpr{X: id, Op: op, Y: s.Rhs[0]}
		}
		want := ity{}
		if old, ok := en[id.Name]; ok && s.Tok != token.DEFINE {
			want = old
		}
		v, ty, err := t.expr(rhs, en, want)
		if err != nil {
			return "", err
		}
		if ty.kind == "untyped" {
			ty = ity{kind: "int", bits: 64, signed: true} // Go: untyped integer constant defaults to int
			v, _, _ = t.expr(rhs, en, ty)
		}
		if want.kind != "" && ty != want {
			return "", fmt.Errorf("assignment changes the type of %s", id.Name)
		}
		en2 := copyEnv(en)
		en2[id.Name] = ty
		r, err := rest(en2)
		if err != nil {
			return "", err
		}
		return fmt.Sprintf("let %s : %s := %s\n  %s", leanIdent(id.Name), ty.lean(), v, r), nil
	case *ast.IncDecStmt:
		op := token.ADD_ASSIGN
		if s.Tok == token.DEC {
			op = token.SUB_ASSIGN
		}
		return t.block(append([]ast.Stmt{&ast.AssignStmt{Lhs: []ast.Expr{s.X}, Tok: op, Rhs: []ast.Expr{&ast.BasicLit{Kind: token.INT, Value: "1"}}}}, stmts[1:]...), en, res, cont)
	case *ast.DeclStmt:
		gd, ok := s.Decl.(*ast.GenDecl)
		if !ok || gd.Tok != token.VAR || len(gd.Specs) != 1 {
			return "", fmt.Errorf("unsupported declaration")
		}
		vs := gd.Specs[0].(*ast.ValueSpec)
		if len(vs.Names) != 1 || len(vs.Values) > 1 {
			return "", fmt.Errorf("unsupported var declaration")
		}
		var ty ity
		var v string
		var err error
		if vs.Type != nil {
			if ty, err = t.goType(vs.Type); err != nil {
				return "", err
			}
		}
		if len(vs.Values) == 1 {
			v, ty, err = t.expr(vs.Values[0], en, ty)
			if err != nil {
				return "", err
			}
		} else if ty.kind == "int" {
			v = lit(big.NewInt(0), ty)
		} else if ty.kind == "bool" {
			v = "false"
		}
		en2 := copyEnv(en)
		en2[vs.Names[0].Name] = ty
		r, err := rest(en2)
		if err != nil {
			return "", err
		}
		return fmt.Sprintf("let %s : %s := %s\n  %s", leanIdent(vs.Names[0].Name), ty.lean(), v, r), nil
	case *ast.IfStmt:
		if s.Init != nil {
			return "", fmt.Errorf("if with init statement unsupported")
		}
		c, tc, err := t.expr(s.Cond, en, ity{})
		if err != nil {
			return "", err
		}
		if tc.kind != "bool" {
			return "", fmt.Errorf("non-bool condition")
		}
		// the continuation after the if is duplicated into both branches; variables assigned in a branch
		// are visible to it through shadowing lets, which is exactly Go's semantics for these blocks
		// provided both branches keep the same variable types (checked by the assignment rule).
		thenS, err := t.block(s.Body.List, en, res, rest)
		if err != nil {
			return "", err
		}
		var elseS string
		switch e := s.Else.(type) {
		case nil:
			elseS, err = rest(en)
		case *ast.BlockStmt:
			elseS, err = t.block(e.List, en, res, rest)
		case *ast.IfStmt:
			elseS, err = t.block([]ast.Stmt{e}, en, res, rest)
		default:
			err = fmt.Errorf("unsupported else")
		}
		if err != nil {
			return "", err
		}
		return fmt.Sprintf("if %s then\n  (%s)\n  else\n  (%s)", c, thenS, elseS), nil
	case *ast.SwitchStmt:
		if s.Init != nil {
			return "", fmt.Errorf("switch with init unsupported")
		}
		var tag string
		var ttag ity
		var err error
		if s.Tag != nil {
			tag, ttag, err = t.expr(s.Tag, en, ity{})
			if err != nil {
				return "", err
			}
			if ttag.kind != "int" {
				return "", fmt.Errorf("switch tag must be a typed integer")
			}
		}
		var def *ast.CaseClause
		var clauses []*ast.CaseClause
		for _, c := range s.Body.List {
			cc := c.(*ast.CaseClause)
			for _, st := range cc.Body {
				if b, ok := st.(*ast.BranchStmt); ok {
					return "", fmt.Errorf("branch statement %s in switch unsupported", b.Tok)
				}
			}
			if cc.List == nil {
				def = cc
			} else {
				clauses = append(clauses, cc)
			}
		}
		var out string
		if def != nil {
			out, err = t.block(def.Body, en, res, rest)
		} else {
			out, err = rest(en)
		}
		if err != nil {
			return "", err
		}
		for i := len(clauses) - 1; i >= 0; i-- {
			cc := clauses[i]
			var conds []string
			for _, ce := range cc.List {
				if s.Tag != nil {
					v, tv, err := t.expr(ce, en, ttag)
					if err != nil {
						return "", err
					}
					if tv != ttag {
						return "", fmt.Errorf("case type differs from switch tag")
					}
					conds = append(conds, "("+tag+" == "+v+")")
				} else {
					v, tv, err := t.expr(ce, en, ity{})
					if err != nil {
						return "", err
					}
					if tv.kind != "bool" {
						return "", fmt.Errorf("non-bool case")
					}
					conds = append(conds, v)
				}
			}
			body, err := t.block(cc.Body, en, res, rest)
			if err != nil {
				return "", err
			}
			out = fmt.Sprintf("if %s then\n  (%s)\n  else\n  (%s)", strings.Join(conds, " || "), body, out)
		}
		return out, nil
	case *ast.BlockStmt:
		return t.block(append(append([]ast.Stmt{}, s.List...), stmts[1:]...), en, res, cont)
	}
	return "", fmt.Errorf("unsupported statement %T", stmts[0])
}

func copyEnv(e env) env {
	n := env{}
	for k, v := range e {
		n[k] = v
	}
	return n
}

func (t *trans) ret(s *ast.ReturnStmt, en env, res ity) (string, error) {
	if res.kind == "opt" {
		if len(s.Results) != 2 {
			return "", fmt.Errorf("return arity")
		}
		if id, ok := s.Results[1].(*ast.Ident); ok && id.Name == "nil" {
			v, ty, err := t.expr(s.Results[0], en, *res.elem)
			if err != nil {
				return "", err
			}
			if ty != *res.elem {
				return "", fmt.Errorf("return type mismatch")
			}
			return "some " + v, nil
		}
		return "none", nil
	}
	if len(s.Results) != 1 {
		return "", fmt.Errorf("return arity")
	}
	v, ty, err := t.expr(s.Results[0], en, res)
	if err != nil {
		return "", err
	}
	if ty != res {
		return "", fmt.Errorf("return type mismatch: %v vs %v", ty, res)
	}
	return v, nil
}

func (t *trans) signature(fd *ast.FuncDecl) ([]string, []ity, ity, error) {
	var names []string
	var tys []ity
	for _, f := range fd.Type.Params.List {
		ty, err := t.goType(f.Type)
		if err != nil {
			return nil, nil, ity{}, err
		}
		if len(f.Names) == 0 {
			return nil, nil, ity{}, fmt.Errorf("unnamed parameter")
		}
		for _, n := range f.Names {
			names = append(names, n.Name)
			tys = append(tys, ty)
		}
	}
	rs := fd.Type.Results
	if rs == nil || len(rs.List) == 0 {
		return nil, nil, ity{}, fmt.Errorf("no result")
	}
	var rt []ast.Expr
	for _, f := range rs.List {
		if len(f.Names) > 0 {
			return nil, nil, ity{}, fmt.Errorf("named results unsupported")
		}
		rt = append(rt, f.Type)
	}
	r0, err := t.goType(rt[0])
	if err != nil {
		return nil, nil, ity{}, err
	}
	if len(rt) == 1 {
		return names, tys, r0, nil
	}
	if len(rt) == 2 && typeName(rt[1]) == "error" {
		e := r0
		return names, tys, ity{kind: "opt", elem: &e}, nil
	}
	return nil, nil, ity{}, fmt.Errorf("unsupported result list")
}

func runInts(repo, out string, args []string) error {
	if len(args) != 1 {
		return fmt.Errorf("ints: want exactly one spec file")
	}
	raw, err := os.ReadFile(args[0])
	if err != nil {
		return err
	}
	var spec intsSpec
	if err := json.Unmarshal(raw, &spec); err != nil {
		return err
	}
	t := &trans{repo: repo, fset: token.NewFileSet(), pkgs: map[string][]*ast.File{}, consts: map[string]map[string]ast.Expr{},
		ctypes: map[string]map[string]ast.Expr{}, fns: map[string]*fnInfo{}, calls: spec.Calls, types: map[string]ity{}}
	for k, v := range spec.Types {
		var ty ity
		if _, err := fmt.Sscanf(v[1:], "%d", &ty.bits); err != nil || (v[0] != 'u' && v[0] != 'i') {
			return fmt.Errorf("bad type spec %q", v)
		}
		ty.kind, ty.signed = "int", v[0] == 'i'
		t.types[k] = ty
	}
	var b strings.Builder
	var srcs []string
	for _, f := range spec.Funcs {
		srcs = append(srcs, f.File+":"+f.Name)
	}
	sort.Strings(srcs)
	fmt.Fprintf(&b, "-- GENERATED by /verif/harness/cmd/extract (ints) from the Go source; DO NOT EDIT.\n-- sources: %s\nimport BoxoModel.Lib.GoInt\nnamespace %s\n\n", strings.Join(srcs, ", "), spec.Namespace)
	// signatures first (functions may call each other; emitted in spec order, callee before caller)
	type pend struct {
		fd    *ast.FuncDecl
		dir   string
		names []string
		tys   []ity
		res   ity
		lean  string
		goNm  string
	}
	var ps []pend
	for _, f := range spec.Funcs {
		dir := filepath.Dir(f.File)
		if err := t.loadPkg(dir); err != nil {
			return err
		}
		fd := t.findFunc(dir, f.Name)
		if fd == nil || fd.Body == nil {
			return fmt.Errorf("function %s not found in %s", f.Name, dir)
		}
		t.dir = dir
		names, tys, res, err := t.signature(fd)
		if err != nil {
			return fmt.Errorf("%s: %v", f.Name, err)
		}
		t.fns[f.Name] = &fnInfo{lean: f.Lean, params: tys, result: res}
		ps = append(ps, pend{fd, dir, names, tys, res, f.Lean, f.Name})
	}
	for _, p := range ps {
		t.dir = p.dir
		en := env{}
		var sig []string
		for i, n := range p.names {
			en[n] = p.tys[i]
			sig = append(sig, fmt.Sprintf("(%s : %s)", leanIdent(n), p.tys[i].lean()))
		}
		body, err := t.block(p.fd.Body.List, en, p.res, nil)
		if err != nil {
			pos := t.fset.Position(p.fd.Pos())
			return fmt.Errorf("%s (%s:%d): %v", p.goNm, pos.Filename, pos.Line, err)
		}
		fmt.Fprintf(&b, "/-- Go: %s (%s) -/\ndef %s %s : %s :=\n  %s\n\n", p.goNm, p.dir, p.lean, strings.Join(sig, " "), p.res.lean(), body)
	}
	fmt.Fprintf(&b, "end %s\n", spec.Namespace)
	return os.WriteFile(out, []byte(b.String()), 0o644)
}
