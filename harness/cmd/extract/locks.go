package main

// T-gen-3 "locks": for every function / method of one Go package, extract the ordered structure of
// lock operations (sync.Mutex / sync.RWMutex fields: Lock, Unlock, RLock, RUnlock, deferred or not)
// and of calls to other functions of the same package, and emit it as a Lean fact table.
// go/ast only (no type checker): a small syntactic type / provenance inference resolves receivers;
// whatever it cannot resolve becomes an `unknown` event, which the Lean discipline check rejects —
// nothing is dropped silently. Calls into other packages are not followed (listed in the header
// comment of the output); function literals passed to them are kept as loops (they run 0..n times
// under the locks held at the call).
//
//	extract locks <spec.json> --repo DIR --out FILE.lean
//
// spec.json (see checks/extract/C20.locks.json):
//
//	{"namespace": "Gen.C20", "package": "mfs",
//	 "skip_file_suffix": ["_verif.go", "_noverif.go"], "ignore_calls": ["verifSched"],
//	 "parent_fields": ["inode.parent"], "file_fields": ["fileDescriptor.inode"], "child_fields": ["Root.dir", "Directory.entriesCache"],
//	 "child_methods": ["Directory.childUnsync", ...], "child_ctors": {"newEmptyDirectory": 2, ...}}
//
// "who" of a lock owner / callee receiver = path from the receiver of the function being analysed:
// steps up (parent directory), down (a child), file (the File of a descriptor); or unknown.

import (
	"encoding/json"
	"fmt"
	"go/ast"
	"go/parser"
	"go/printer"
	"go/token"
	"os"
	"path/filepath"
	"sort"
	"strings"
)

func init() { registry["locks"] = runLocks }

type lkSpec struct {
	Namespace      string         `json:"namespace"`
	Package        string         `json:"package"`
	SkipFileSuffix []string       `json:"skip_file_suffix"`
	IgnoreCalls    []string       `json:"ignore_calls"`
	ParentFields   []string       `json:"parent_fields"`
	FileFields     []string       `json:"file_fields"`
	ChildFields    []string       `json:"child_fields"`
	ChildMethods   []string       `json:"child_methods"`
	ChildCtors     map[string]int `json:"child_ctors"`
	// numeric side tables for the Lean checker (the readable source is the Config in Props/Cxx.lean; a theorem
	// there states that they agree)
	Kinds    map[string]string        `json:"kinds"` // receiver type -> dir | file | fd | root
	Ranks    map[string][]interface{} `json:"ranks"` // lock class -> [rank class, owner kind]
	Keeps    []string                 `json:"keeps"`
	Gives    []string                 `json:"gives"`
	MustGive []string                 `json:"must_give"`
	// shared fields and the lock class that must be held (by the same object) when they are touched; and the
	// existing unguarded accesses that are tolerated: "Func.Name:Type.field:r|w"
	Guarded      map[string]string `json:"guarded"`
	AllowUnguard []string          `json:"allow_unguarded"`
}

type lkEv struct {
	K     string // acq rel deferRel deferBlock call deferCall alt loop closure ret unknown callback spawn
	Cls   string
	Who   string // "" self, "up", "down", "file", "file.up", … or "?" unknown
	Write bool
	Fn    string
	Alts  [][]lkEv
	Body  []lkEv
	Note  string
}

type lkFunc struct {
	name string // "T.m" or "f"
	recv string // receiver type name ("" for plain functions)
	decl *ast.FuncDecl
	body []lkEv
	file string
}

type lk struct {
	spec    lkSpec
	fset    *token.FileSet
	structs map[string]*ast.StructType
	ifaces  map[string]*ast.InterfaceType
	named   map[string]ast.Expr // other named types
	funcs   map[string]*lkFunc
	order   []string
	imports map[string]bool
	ext     map[string]bool // external calls seen (for the header)
	pkgVars map[string]string
	spawned []*lkFunc
	set     map[string]map[string]bool
}

func exprStr(fset *token.FileSet, e ast.Node) string {
	var b strings.Builder
	printer.Fprint(&b, fset, e)
	return b.String()
}

func (x *lk) has(kind, key string) bool { return x.set[kind][key] }

// ---- types

func stripPtr(t string) string { return strings.TrimPrefix(t, "*") }

// fieldOf finds field f of struct type T (following embedded structs); returns the declaring type and the field type.
func (x *lk) fieldOf(T, f string) (string, string, bool) {
	st, ok := x.structs[T]
	if !ok {
		return "", "", false
	}
	for _, fl := range st.Fields.List {
		for _, n := range fl.Names {
			if n.Name == f {
				return T, exprStr(x.fset, fl.Type), true
			}
		}
	}
	for _, fl := range st.Fields.List {
		if len(fl.Names) == 0 { // embedded
			et := stripPtr(exprStr(x.fset, fl.Type))
			if et == f {
				return T, exprStr(x.fset, fl.Type), true
			}
			if d, t, ok := x.fieldOf(et, f); ok {
				return d, t, true
			}
		}
	}
	return "", "", false
}

// methodOf finds method m on struct type T (following embedded structs).
func (x *lk) methodOf(T, m string) (*lkFunc, bool) {
	if f, ok := x.funcs[T+"."+m]; ok {
		return f, true
	}
	if st, ok := x.structs[T]; ok {
		for _, fl := range st.Fields.List {
			if len(fl.Names) == 0 {
				if f, ok := x.methodOf(stripPtr(exprStr(x.fset, fl.Type)), m); ok {
					return f, true
				}
			}
		}
	}
	return nil, false
}

func (x *lk) implementers(I string) []string {
	it := x.ifaces[I]
	var out []string
	var names []string
	for T := range x.structs {
		names = append(names, T)
	}
	sort.Strings(names)
	for _, T := range names {
		ok := true
		for _, m := range it.Methods.List {
			if len(m.Names) == 0 {
				continue // embedded interface (io.Reader …): not checked
			}
			if _, has := x.methodOf(T, m.Names[0].Name); !has {
				ok = false
			}
		}
		if ok {
			out = append(out, T)
		}
	}
	return out
}

func (x *lk) ifaceMethodResult(I, m string) string {
	for _, f := range x.ifaces[I].Methods.List {
		if len(f.Names) == 1 && f.Names[0].Name == m {
			ft := f.Type.(*ast.FuncType)
			if ft.Results != nil && len(ft.Results.List) > 0 {
				return exprStr(x.fset, ft.Results.List[0].Type)
			}
		}
	}
	return ""
}

type scope struct {
	ty  map[string]string
	who map[string]string
}

func (s *scope) clone() *scope {
	n := &scope{ty: map[string]string{}, who: map[string]string{}}
	for k, v := range s.ty {
		n.ty[k] = v
	}
	for k, v := range s.who {
		n.who[k] = v
	}
	return n
}

type fctx struct {
	x         *lk
	fn        *lkFunc
	recv      string          // receiver variable name
	errLast   bool            // the function's last result has type error
	retErrVar string          // name of that result, if named
	errVars   map[string]bool // variables known to hold a non-nil error in the branch being analysed
}

// errCond recognises `v != nil` (then-branch = error) and `v == nil`; returns the variable and whether then = error.
func errCond(e ast.Expr) (string, bool, bool) {
	b, ok := e.(*ast.BinaryExpr)
	if !ok || (b.Op != token.NEQ && b.Op != token.EQL) {
		return "", false, false
	}
	id, ok1 := b.X.(*ast.Ident)
	nl, ok2 := b.Y.(*ast.Ident)
	if !ok1 || !ok2 || nl.Name != "nil" {
		return "", false, false
	}
	return id.Name, b.Op == token.NEQ, true
}

// assignsErrFromCall: statement `…, v := call(…)` / `v = call(…)` whose last left-hand side is v and whose call is a
// function of the package (so that the callee's error flag is what v holds)
func (c *fctx) assignsErrFromCall(st ast.Stmt, v string, s *scope) bool {
	as, ok := st.(*ast.AssignStmt)
	if !ok || len(as.Rhs) != 1 || len(as.Lhs) == 0 {
		return false
	}
	id, ok := as.Lhs[len(as.Lhs)-1].(*ast.Ident)
	if !ok || id.Name != v {
		return false
	}
	call, ok := as.Rhs[0].(*ast.CallExpr)
	if !ok {
		return false
	}
	evs := c.callEvents(call, s.clone())
	return len(evs) > 0 && evs[len(evs)-1].K == "call"
}

func joinWho(base, step string) string {
	if base == "?" {
		return "?"
	}
	if base == "" {
		return step
	}
	if step == "up" && (base == "down" || strings.HasSuffix(base, ".down")) { // a child's parent is where we came from
		return strings.TrimSuffix(strings.TrimSuffix(base, "down"), ".")
	}
	return base + "." + step
}

func (c *fctx) typeOf(e ast.Expr, s *scope) string {
	x := c.x
	switch v := e.(type) {
	case *ast.Ident:
		return s.ty[v.Name]
	case *ast.ParenExpr:
		return c.typeOf(v.X, s)
	case *ast.StarExpr:
		return stripPtr(c.typeOf(v.X, s))
	case *ast.UnaryExpr:
		if v.Op == token.AND {
			return "*" + c.typeOf(v.X, s)
		}
	case *ast.CompositeLit:
		if v.Type != nil {
			return exprStr(x.fset, v.Type)
		}
	case *ast.TypeAssertExpr:
		if v.Type != nil {
			return exprStr(x.fset, v.Type)
		}
	case *ast.IndexExpr:
		t := c.typeOf(v.X, s)
		if strings.HasPrefix(t, "map[") {
			if i := strings.Index(t, "]"); i > 0 {
				return t[i+1:]
			}
		}
		if strings.HasPrefix(t, "[]") {
			return t[2:]
		}
	case *ast.SelectorExpr:
		if id, ok := v.X.(*ast.Ident); ok && x.imports[id.Name] && s.ty[id.Name] == "" {
			return "ext." + id.Name
		}
		t := stripPtr(c.typeOf(v.X, s))
		if _, ft, ok := x.fieldOf(t, v.Sel.Name); ok {
			return ft
		}
	case *ast.CallExpr:
		switch f := v.Fun.(type) {
		case *ast.Ident:
			if fn, ok := x.funcs[f.Name]; ok && fn.recv == "" {
				return firstResult(x.fset, fn.decl)
			}
			if _, ok := x.structs[f.Name]; ok {
				return f.Name
			}
			if _, ok := x.ifaces[f.Name]; ok {
				return f.Name
			}
		case *ast.SelectorExpr:
			if id, ok := f.X.(*ast.Ident); ok && x.imports[id.Name] && s.ty[id.Name] == "" {
				return "ext." + id.Name
			}
			t := stripPtr(c.typeOf(f.X, s))
			if fn, ok := x.methodOf(t, f.Sel.Name); ok {
				return firstResult(x.fset, fn.decl)
			}
			if _, ok := x.ifaces[t]; ok {
				return x.ifaceMethodResult(t, f.Sel.Name)
			}
			if isExtType(t) {
				return "ext.call"
			}
		case *ast.ParenExpr: // conversion (*T)(x)
			return exprStr(x.fset, f.X)
		}
	}
	return ""
}

func firstResult(fset *token.FileSet, d *ast.FuncDecl) string {
	if d.Type.Results == nil || len(d.Type.Results.List) == 0 {
		return ""
	}
	return exprStr(fset, d.Type.Results.List[0].Type)
}

func (c *fctx) whoOf(e ast.Expr, s *scope) string {
	x := c.x
	switch v := e.(type) {
	case *ast.Ident:
		if v.Name == c.recv && c.recv != "" {
			return ""
		}
		if w, ok := s.who[v.Name]; ok {
			return w
		}
		return "?"
	case *ast.ParenExpr:
		return c.whoOf(v.X, s)
	case *ast.StarExpr:
		return c.whoOf(v.X, s)
	case *ast.UnaryExpr:
		return c.whoOf(v.X, s)
	case *ast.TypeAssertExpr:
		return c.whoOf(v.X, s)
	case *ast.IndexExpr:
		if sel, ok := v.X.(*ast.SelectorExpr); ok {
			t := stripPtr(c.typeOf(sel.X, s))
			if d, _, ok := x.fieldOf(t, sel.Sel.Name); ok && x.has("child_fields", d+"."+sel.Sel.Name) {
				return joinWho(c.whoOf(sel.X, s), "down")
			}
		}
		return "?"
	case *ast.SelectorExpr:
		t := stripPtr(c.typeOf(v.X, s))
		d, ft, ok := x.fieldOf(t, v.Sel.Name)
		if !ok {
			return "?"
		}
		base := c.whoOf(v.X, s)
		key := d + "." + v.Sel.Name
		switch {
		case x.has("parent_fields", key):
			return joinWho(base, "up")
		case x.has("file_fields", key):
			return joinWho(base, "file")
		case x.has("child_fields", key):
			return joinWho(base, "down")
		}
		if _, isStruct := x.structs[stripPtr(ft)]; isStruct && !strings.HasPrefix(ft, "*") {
			return base // embedded / value struct field: the same object
		}
		return "?"
	case *ast.CallExpr:
		switch f := v.Fun.(type) {
		case *ast.Ident:
			if idx, ok := x.spec.ChildCtors[f.Name]; ok && idx < len(v.Args) {
				return joinWho(c.whoOf(v.Args[idx], s), "down")
			}
		case *ast.SelectorExpr:
			t := stripPtr(c.typeOf(f.X, s))
			if fn, ok := x.methodOf(t, f.Sel.Name); ok && x.has("child_methods", fn.name) {
				return joinWho(c.whoOf(f.X, s), "down")
			}
		}
	}
	return "?"
}

var lkBuiltins = map[string]bool{"len": true, "cap": true, "append": true, "make": true, "new": true, "delete": true,
	"panic": true, "copy": true, "close": true, "min": true, "max": true, "string": true, "int": true, "int64": true,
	"uint64": true, "uint": true, "byte": true, "error": true, "recover": true, "print": true, "println": true, "clear": true,
	"uint32": true, "int32": true, "float64": true, "bool": true, "uint8": true}

// exprEvents: events of every call inside expression e, in evaluation order (arguments before the call).
func (c *fctx) exprEvents(e ast.Expr, s *scope) []lkEv {
	var out []lkEv
	if e == nil {
		return nil
	}
	switch v := e.(type) {
	case *ast.CallExpr:
		return c.callEvents(v, s)
	case *ast.FuncLit:
		// a function value that is not called here: its body is analysed where it is passed / deferred
		return nil
	case *ast.ParenExpr:
		return c.exprEvents(v.X, s)
	case *ast.SelectorExpr:
		out = c.exprEvents(v.X, s)
		if ev, ok := c.accessEvent(v, s, false); ok {
			out = append(out, ev)
		}
		return out
	case *ast.StarExpr:
		return c.exprEvents(v.X, s)
	case *ast.UnaryExpr:
		return c.exprEvents(v.X, s)
	case *ast.BinaryExpr:
		return append(c.exprEvents(v.X, s), c.exprEvents(v.Y, s)...)
	case *ast.IndexExpr:
		return append(c.exprEvents(v.X, s), c.exprEvents(v.Index, s)...)
	case *ast.SliceExpr:
		out = c.exprEvents(v.X, s)
		out = append(out, c.exprEvents(v.Low, s)...)
		out = append(out, c.exprEvents(v.High, s)...)
		return out
	case *ast.TypeAssertExpr:
		return c.exprEvents(v.X, s)
	case *ast.KeyValueExpr:
		return c.exprEvents(v.Value, s)
	case *ast.CompositeLit:
		for _, el := range v.Elts {
			out = append(out, c.exprEvents(el, s)...)
		}
		return out
	}
	return nil
}

// accessEvent: `X.f` where f is a guarded field of a package struct
func (c *fctx) accessEvent(sel *ast.SelectorExpr, s *scope, write bool) (lkEv, bool) {
	t := stripPtr(c.typeOf(sel.X, s))
	d, _, ok := c.x.fieldOf(t, sel.Sel.Name)
	if !ok {
		return lkEv{}, false
	}
	g, ok := c.x.spec.Guarded[d+"."+sel.Sel.Name]
	if !ok {
		return lkEv{}, false
	}
	return lkEv{K: "access", Cls: g, Who: c.whoOf(sel.X, s), Write: write, Note: d + "." + sel.Sel.Name}, true
}

// lhsEvents: events of an assignment target (a store into a guarded field, or into an element of it, is a write access)
func (c *fctx) lhsEvents(l ast.Expr, s *scope) []lkEv {
	switch v := l.(type) {
	case *ast.Ident:
		return nil
	case *ast.SelectorExpr:
		out := c.exprEvents(v.X, s)
		if ev, ok := c.accessEvent(v, s, true); ok {
			out = append(out, ev)
		}
		return out
	case *ast.IndexExpr:
		out := c.exprEvents(v.Index, s)
		if sel, ok := v.X.(*ast.SelectorExpr); ok {
			out = append(out, c.exprEvents(sel.X, s)...)
			if ev, ok := c.accessEvent(sel, s, true); ok {
				return append(out, ev)
			}
		}
		return append(out, c.exprEvents(v.X, s)...)
	case *ast.ParenExpr:
		return c.lhsEvents(v.X, s)
	case *ast.StarExpr:
		return c.exprEvents(v.X, s)
	}
	return c.exprEvents(l, s)
}

func isLockOp(m string) (acq, write, ok bool) {
	switch m {
	case "Lock":
		return true, true, true
	case "Unlock":
		return false, true, true
	case "RLock":
		return true, false, true
	case "RUnlock":
		return false, false, true
	}
	return false, false, false
}

// lockEvent recognises X.Lock() etc. on a sync.Mutex / sync.RWMutex field.
func (c *fctx) lockEvent(call *ast.CallExpr, s *scope) (lkEv, bool) {
	sel, ok := call.Fun.(*ast.SelectorExpr)
	if !ok {
		return lkEv{}, false
	}
	acq, write, ok := isLockOp(sel.Sel.Name)
	if !ok || len(call.Args) != 0 {
		return lkEv{}, false
	}
	t := c.typeOf(sel.X, s)
	if t != "sync.Mutex" && t != "sync.RWMutex" {
		return lkEv{}, false
	}
	fsel, ok := sel.X.(*ast.SelectorExpr)
	if !ok {
		return lkEv{K: "unknown", Note: "lock that is not a struct field: " + exprStr(c.x.fset, sel.X)}, true
	}
	owner := stripPtr(c.typeOf(fsel.X, s))
	d, _, ok := c.x.fieldOf(owner, fsel.Sel.Name)
	if !ok {
		return lkEv{K: "unknown", Note: "lock field of unknown owner: " + exprStr(c.x.fset, sel.X)}, true
	}
	k := "rel"
	if acq {
		k = "acq"
	}
	return lkEv{K: k, Cls: d + "." + fsel.Sel.Name, Who: c.whoOf(fsel.X, s), Write: write}, true
}

func hasEvents(evs []lkEv) bool {
	for _, e := range evs {
		switch e.K {
		case "ret", "retOk", "retErr":
			continue
		case "alt", "ifErr", "ifRetErr":
			for _, a := range e.Alts {
				if hasEvents(a) {
					return true
				}
			}
		case "loop", "closure":
			if hasEvents(e.Body) {
				return true
			}
		default:
			return true
		}
	}
	return false
}

func (c *fctx) callEvents(call *ast.CallExpr, s *scope) []lkEv {
	x := c.x
	var out []lkEv
	var lits []*ast.FuncLit
	for _, a := range call.Args {
		if fl, ok := a.(*ast.FuncLit); ok {
			lits = append(lits, fl)
			continue
		}
		out = append(out, c.exprEvents(a, s)...)
	}
	closures := func(external bool) {
		for _, fl := range lits {
			body := c.stmts(fl.Body.List, c.litScope(fl, s))
			if !hasEvents(body) {
				continue
			}
			if external {
				out = append(out, lkEv{K: "closure", Body: body})
			} else {
				out = append(out, lkEv{K: "unknown", Note: "function literal with lock events passed to a package function"})
			}
		}
	}
	if ev, ok := c.lockEvent(call, s); ok {
		return append(out, ev)
	}
	switch f := call.Fun.(type) {
	case *ast.FuncLit: // immediately invoked
		out = append(out, lkEv{K: "closure", Body: c.stmts(f.Body.List, c.litScope(f, s)), Note: "once"})
		return out
	case *ast.Ident:
		name := f.Name
		if _, isVar := s.ty[name]; isVar { // a local / parameter of function type
			closures(true)
			return append(out, lkEv{K: "callback", Note: name})
		}
		if lkBuiltins[name] {
			if name == "delete" && len(call.Args) > 0 {
				if sel, ok := call.Args[0].(*ast.SelectorExpr); ok {
					if ev, ok := c.accessEvent(sel, s, true); ok {
						out = append(out, ev)
					}
				}
			}
			closures(true)
			return out
		}
		for _, ig := range x.spec.IgnoreCalls {
			if ig == name {
				return out
			}
		}
		if _, ok := x.structs[name]; ok { // conversion
			return out
		}
		if _, ok := x.named[name]; ok {
			return out
		}
		if _, ok := x.ifaces[name]; ok {
			return out
		}
		if fn, ok := x.funcs[name]; ok && fn.recv == "" {
			closures(false)
			return append(out, lkEv{K: "call", Fn: name, Who: "?"})
		}
		return append(out, lkEv{K: "unknown", Note: "call of unknown function " + name})
	case *ast.ParenExpr: // conversion like (*T)(x)
		return out
	case *ast.ArrayType, *ast.MapType, *ast.StarExpr, *ast.InterfaceType:
		return out
	case *ast.SelectorExpr:
		out = append(c.exprEvents(f.X, s), out...)
		if id, ok := f.X.(*ast.Ident); ok && x.imports[id.Name] && s.ty[id.Name] == "" {
			x.ext[id.Name+"."+f.Sel.Name] = true
			closures(true)
			return out
		}
		t := stripPtr(c.typeOf(f.X, s))
		if fn, ok := x.methodOf(t, f.Sel.Name); ok {
			closures(false)
			return append(out, lkEv{K: "call", Fn: fn.name, Who: c.whoOf(f.X, s)})
		}
		if _, ok := x.ifaces[t]; ok {
			closures(false)
			who := c.whoOf(f.X, s)
			var alts [][]lkEv
			for _, T := range x.implementers(t) {
				if fn, ok := x.methodOf(T, f.Sel.Name); ok {
					alts = append(alts, []lkEv{{K: "call", Fn: fn.name, Who: who}})
				}
			}
			if len(alts) == 0 {
				return append(out, lkEv{K: "unknown", Note: "interface " + t + " has no implementer of " + f.Sel.Name})
			}
			return append(out, lkEv{K: "alt", Alts: alts})
		}
		if _, ft, ok := x.fieldOf(stripPtr(c.typeOf(selX(f.X), s)), selName(f.X)); ok && strings.HasPrefix(ft, "func(") {
			closures(true)
			return append(out, lkEv{K: "callback", Note: exprStr(x.fset, f.X)})
		}
		if nt, ok := x.named[stripPtr(c.typeOf(f, s))]; ok {
			if _, isFn := nt.(*ast.FuncType); isFn {
				closures(true)
				return append(out, lkEv{K: "callback", Note: exprStr(x.fset, f)})
			}
		}
		if isExtType(t) {
			x.ext[t+"."+f.Sel.Name] = true
			closures(true)
			return out
		}
		if ft := c.typeOf(f, s); strings.HasPrefix(ft, "func(") { // call of a func-typed field
			closures(true)
			return append(out, lkEv{K: "callback", Note: exprStr(x.fset, f)})
		}
		return append(out, lkEv{K: "unknown", Note: "cannot resolve receiver type of " + exprStr(x.fset, f)})
	}
	return append(out, lkEv{K: "unknown", Note: "unsupported call form " + exprStr(x.fset, call.Fun)})
}

// isExtType: the type text names something outside the package (qualified name, builtin container, error)
func isExtType(t string) bool {
	return t != "" && t != "?" && (strings.Contains(t, ".") || t == "error" || strings.HasPrefix(t, "[]") || strings.HasPrefix(t, "map[") || strings.HasPrefix(t, "chan "))
}

func selX(e ast.Expr) ast.Expr {
	if s, ok := e.(*ast.SelectorExpr); ok {
		return s.X
	}
	return e
}
func selName(e ast.Expr) string {
	if s, ok := e.(*ast.SelectorExpr); ok {
		return s.Sel.Name
	}
	return ""
}

func (c *fctx) litScope(fl *ast.FuncLit, s *scope) *scope {
	n := s.clone()
	if fl.Type.Params != nil {
		for _, p := range fl.Type.Params.List {
			for _, nm := range p.Names {
				n.ty[nm.Name] = exprStr(c.x.fset, p.Type)
				n.who[nm.Name] = "?"
			}
		}
	}
	return n
}

func (c *fctx) assign(lhs []ast.Expr, rhs []ast.Expr, s *scope) {
	if len(rhs) == 1 && len(lhs) >= 1 {
		if id, ok := lhs[0].(*ast.Ident); ok && id.Name != "_" {
			t, w := c.typeOf(rhs[0], s), c.whoOf(rhs[0], s)
			if t != "" {
				s.ty[id.Name] = t
			} else if _, had := s.ty[id.Name]; !had {
				s.ty[id.Name] = "?"
			}
			s.who[id.Name] = w
		}
		for _, l := range lhs[1:] {
			if id, ok := l.(*ast.Ident); ok && id.Name != "_" {
				if _, had := s.ty[id.Name]; !had {
					s.ty[id.Name] = "?"
				}
			}
		}
		return
	}
	for i, l := range lhs {
		if id, ok := l.(*ast.Ident); ok && id.Name != "_" && i < len(rhs) {
			t := c.typeOf(rhs[i], s)
			if t == "" {
				t = "?"
			}
			s.ty[id.Name] = t
			s.who[id.Name] = c.whoOf(rhs[i], s)
		}
	}
}

func (c *fctx) stmts(list []ast.Stmt, s *scope) []lkEv {
	var out []lkEv
	for i, st := range list {
		// `x, err := pkgCall(); if err != nil {A} else {B}` : the branch taken is determined by the callee's error flag
		if ifs, ok := st.(*ast.IfStmt); ok && ifs.Init == nil && i > 0 {
			if v, thenErr, ok := errCond(ifs.Cond); ok && c.assignsErrFromCall(list[i-1], v, s) {
				out = append(out, c.ifErr(ifs, v, thenErr, s, "ifErr")...)
				continue
			}
		}
		out = append(out, c.stmt(st, s)...)
	}
	return out
}

func (c *fctx) ifErr(v *ast.IfStmt, name string, thenErr bool, s *scope, kind string) []lkEv {
	s2 := s.clone()
	saved := c.errVars
	withErr := func(on bool) map[string]bool {
		m := map[string]bool{}
		for k, b := range saved {
			m[k] = b
		}
		if on {
			m[name] = true
		}
		return m
	}
	c.errVars = withErr(thenErr)
	thenE := c.stmts(v.Body.List, s2.clone())
	c.errVars = withErr(!thenErr)
	var elseE []lkEv
	if v.Else != nil {
		elseE = c.stmt(v.Else, s2.clone())
	}
	c.errVars = saved
	if !thenErr {
		thenE, elseE = elseE, thenE
	}
	return []lkEv{{K: kind, Alts: [][]lkEv{thenE, elseE}}} // Alts[0] = error branch, Alts[1] = success branch
}

func (c *fctx) stmt(st ast.Stmt, s *scope) []lkEv {
	x := c.x
	switch v := st.(type) {
	case nil:
		return nil
	case *ast.ExprStmt:
		return c.exprEvents(v.X, s)
	case *ast.AssignStmt:
		var out []lkEv
		for _, r := range v.Rhs {
			out = append(out, c.exprEvents(r, s)...)
		}
		for _, l := range v.Lhs {
			out = append(out, c.lhsEvents(l, s)...)
		}
		c.assign(v.Lhs, v.Rhs, s)
		return out
	case *ast.DeclStmt:
		var out []lkEv
		if gd, ok := v.Decl.(*ast.GenDecl); ok {
			for _, sp := range gd.Specs {
				if vs, ok := sp.(*ast.ValueSpec); ok {
					for _, r := range vs.Values {
						out = append(out, c.exprEvents(r, s)...)
					}
					for i, n := range vs.Names {
						if vs.Type != nil {
							s.ty[n.Name] = exprStr(x.fset, vs.Type)
							s.who[n.Name] = "?"
						} else if i < len(vs.Values) {
							c.assign([]ast.Expr{n}, []ast.Expr{vs.Values[i]}, s)
						}
					}
				}
			}
		}
		return out
	case *ast.ReturnStmt:
		var out []lkEv
		for _, r := range v.Results {
			out = append(out, c.exprEvents(r, s)...)
		}
		k := "ret"
		if c.errLast && len(v.Results) > 0 {
			switch last := v.Results[len(v.Results)-1].(type) {
			case *ast.Ident:
				if last.Name == "nil" {
					k = "retOk"
				} else if c.errVars[last.Name] {
					k = "retErr"
				}
			case *ast.CallExpr:
				if fn := exprStr(x.fset, last.Fun); fn == "errors.New" || fn == "fmt.Errorf" {
					k = "retErr"
				}
			}
		}
		return append(out, lkEv{K: k})
	case *ast.BlockStmt:
		return c.stmts(v.List, s.clone())
	case *ast.IfStmt:
		if name, thenErr, ok := errCond(v.Cond); ok && v.Init == nil && name == c.retErrVar && c.retErrVar != "" {
			return c.ifErr(v, name, thenErr, s, "ifRetErr")
		}
		if name, thenErr, ok := errCond(v.Cond); ok && v.Init != nil && c.assignsErrFromCall(v.Init, name, s) {
			s2 := s.clone()
			out := c.stmt(v.Init, s2)
			return append(out, c.ifErr(v, name, thenErr, s2, "ifErr")...)
		}
		if name, thenErr, ok := errCond(v.Cond); ok && v.Init == nil {
			// not adjacent to a package call: both branches possible, but returns inside know the variable is an error
			r := c.ifErr(v, name, thenErr, s, "alt")
			if len(r[0].Alts[0]) == 0 && len(r[0].Alts[1]) == 0 {
				return nil
			}
			return r
		}
		s2 := s.clone()
		out := c.stmt(v.Init, s2)
		out = append(out, c.exprEvents(v.Cond, s2)...)
		thenE := c.stmts(v.Body.List, s2.clone())
		var elseE []lkEv
		if v.Else != nil {
			elseE = c.stmt(v.Else, s2.clone())
		}
		if len(thenE) == 0 && len(elseE) == 0 {
			return out
		}
		return append(out, lkEv{K: "alt", Alts: [][]lkEv{thenE, elseE}})
	case *ast.ForStmt:
		s2 := s.clone()
		out := c.stmt(v.Init, s2)
		body := c.exprEvents(v.Cond, s2)
		body = append(body, c.stmts(v.Body.List, s2.clone())...)
		body = append(body, c.stmt(v.Post, s2)...)
		if len(body) == 0 {
			return out
		}
		return append(out, lkEv{K: "loop", Body: body})
	case *ast.RangeStmt:
		s2 := s.clone()
		out := c.exprEvents(v.X, s2)
		et := c.typeOf(v.X, s2)
		who := "?"
		if sel, ok := v.X.(*ast.SelectorExpr); ok {
			t := stripPtr(c.typeOf(sel.X, s2))
			if d, _, ok := x.fieldOf(t, sel.Sel.Name); ok && x.has("child_fields", d+"."+sel.Sel.Name) {
				who = joinWho(c.whoOf(sel.X, s2), "down")
			}
		}
		if id, ok := v.Key.(*ast.Ident); ok && id.Name != "_" {
			s2.ty[id.Name], s2.who[id.Name] = "?", "?"
		}
		if id, ok := v.Value.(*ast.Ident); ok && id.Name != "_" {
			vt := "?"
			if strings.HasPrefix(et, "map[") {
				if i := strings.Index(et, "]"); i > 0 {
					vt = et[i+1:]
				}
			} else if strings.HasPrefix(et, "[]") {
				vt = et[2:]
			}
			s2.ty[id.Name], s2.who[id.Name] = vt, who
		}
		body := c.stmts(v.Body.List, s2)
		if len(body) == 0 {
			return out
		}
		return append(out, lkEv{K: "loop", Body: body})
	case *ast.SwitchStmt:
		s2 := s.clone()
		out := c.stmt(v.Init, s2)
		out = append(out, c.exprEvents(v.Tag, s2)...)
		var alts [][]lkEv
		hasDefault, any := false, false
		for _, cl := range v.Body.List {
			cc := cl.(*ast.CaseClause)
			if cc.List == nil {
				hasDefault = true
			}
			var b []lkEv
			for _, e := range cc.List {
				b = append(b, c.exprEvents(e, s2)...)
			}
			b = append(b, c.stmts(cc.Body, s2.clone())...)
			if len(b) > 0 {
				any = true
			}
			alts = append(alts, b)
		}
		if !hasDefault {
			alts = append(alts, nil)
		}
		if !any {
			return out
		}
		return append(out, lkEv{K: "alt", Alts: alts})
	case *ast.TypeSwitchStmt:
		s2 := s.clone()
		out := c.stmt(v.Init, s2)
		var bind string
		var subject ast.Expr
		switch a := v.Assign.(type) {
		case *ast.AssignStmt:
			bind = a.Lhs[0].(*ast.Ident).Name
			subject = a.Rhs[0].(*ast.TypeAssertExpr).X
		case *ast.ExprStmt:
			subject = a.X.(*ast.TypeAssertExpr).X
		}
		out = append(out, c.exprEvents(subject, s2)...)
		who := c.whoOf(subject, s2)
		var alts [][]lkEv
		hasDefault, any := false, false
		for _, cl := range v.Body.List {
			cc := cl.(*ast.CaseClause)
			s3 := s2.clone()
			if cc.List == nil {
				hasDefault = true
			}
			if bind != "" {
				s3.who[bind] = who
				if len(cc.List) == 1 {
					s3.ty[bind] = exprStr(x.fset, cc.List[0])
				} else {
					s3.ty[bind] = c.typeOf(subject, s2)
				}
			}
			b := c.stmts(cc.Body, s3)
			if len(b) > 0 {
				any = true
			}
			alts = append(alts, b)
		}
		if !hasDefault {
			alts = append(alts, nil)
		}
		if !any {
			return out
		}
		return append(out, lkEv{K: "alt", Alts: alts})
	case *ast.SelectStmt:
		var alts [][]lkEv
		any := false
		for _, cl := range v.Body.List {
			cc := cl.(*ast.CommClause)
			s3 := s.clone()
			b := c.stmt(cc.Comm, s3)
			b = append(b, c.stmts(cc.Body, s3)...)
			if len(b) > 0 {
				any = true
			}
			alts = append(alts, b)
		}
		if !any {
			return nil
		}
		return []lkEv{{K: "alt", Alts: alts}}
	case *ast.DeferStmt:
		if ev, ok := c.lockEvent(v.Call, s); ok {
			if ev.K == "rel" {
				ev.K = "deferRel"
				return []lkEv{ev}
			}
			return []lkEv{{K: "unknown", Note: "deferred lock acquisition"}}
		}
		if fl, ok := v.Call.Fun.(*ast.FuncLit); ok {
			body := c.stmts(fl.Body.List, c.litScope(fl, s))
			if !hasEvents(body) {
				return nil
			}
			return []lkEv{{K: "deferBlock", Body: body}}
		}
		evs := c.callEvents(v.Call, s)
		var out []lkEv
		for _, e := range evs {
			switch e.K {
			case "call":
				e.K = "deferCall"
				out = append(out, e)
			case "alt", "unknown", "callback", "closure":
				out = append(out, lkEv{K: "deferBlock", Body: []lkEv{e}})
			case "access":
				out = append(out, e) // the argument / receiver expression is evaluated at the defer statement
			default:
				out = append(out, lkEv{K: "unknown", Note: "deferred " + e.K})
			}
		}
		return out
	case *ast.GoStmt:
		// a new goroutine: analysed as a function of its own, holds nothing of ours
		if fl, ok := v.Call.Fun.(*ast.FuncLit); ok {
			f := &lkFunc{name: c.fn.name + "$go" + fmt.Sprint(len(x.spawned)), recv: c.fn.recv, file: c.fn.file}
			f.body = c.stmts(fl.Body.List, c.litScope(fl, s))
			x.spawned = append(x.spawned, f)
			return []lkEv{{K: "spawn", Fn: f.name}}
		}
		evs := c.callEvents(v.Call, s)
		var out []lkEv
		for _, e := range evs {
			if e.K == "call" {
				out = append(out, lkEv{K: "spawn", Fn: e.Fn})
			} else {
				out = append(out, e)
			}
		}
		return out
	case *ast.LabeledStmt:
		return c.stmt(v.Stmt, s)
	case *ast.IncDecStmt:
		return c.lhsEvents(v.X, s)
	case *ast.SendStmt:
		return append(c.exprEvents(v.Chan, s), c.exprEvents(v.Value, s)...)
	case *ast.BranchStmt, *ast.EmptyStmt:
		return nil
	}
	return []lkEv{{K: "unknown", Note: fmt.Sprintf("unsupported statement %T", st)}}
}

// ---- Lean output

func leanWho(w string) string {
	if w == "?" {
		return "none"
	}
	if w == "" {
		return "(some [])"
	}
	var steps []string
	for _, p := range strings.Split(w, ".") {
		steps = append(steps, "."+p)
	}
	return "(some [" + strings.Join(steps, ", ") + "])"
}

func (x *lk) leanEvs(evs []lkEv, ids map[string]int, cls map[string]int, ind string) string {
	var parts []string
	for _, e := range evs {
		switch e.K {
		case "acq", "rel", "deferRel", "access":
			parts = append(parts, fmt.Sprintf(".%s %d %s %v", e.K, cls[e.Cls], leanWho(e.Who), e.Write))
		case "call", "deferCall", "spawn":
			parts = append(parts, fmt.Sprintf(".%s %d %s", e.K, ids[e.Fn], leanWho(e.Who)))
		case "alt":
			var as []string
			for _, a := range e.Alts {
				as = append(as, x.leanEvs(a, ids, cls, ind+"  "))
			}
			parts = append(parts, ".alt ["+strings.Join(as, ",\n"+ind+"  ")+"]")
		case "ifErr", "ifRetErr":
			parts = append(parts, "."+e.K+" "+x.leanEvs(e.Alts[0], ids, cls, ind+"  ")+"\n"+ind+"  "+x.leanEvs(e.Alts[1], ids, cls, ind+"  "))
		case "retOk", "retErr":
			parts = append(parts, "."+e.K)
		case "loop":
			parts = append(parts, ".loop "+x.leanEvs(e.Body, ids, cls, ind+"  "))
		case "closure":
			parts = append(parts, ".closure "+x.leanEvs(e.Body, ids, cls, ind+"  "))
		case "deferBlock":
			parts = append(parts, ".deferBlock "+x.leanEvs(e.Body, ids, cls, ind+"  "))
		case "ret":
			parts = append(parts, ".ret")
		case "callback":
			parts = append(parts, ".callback")
		case "unknown":
			parts = append(parts, ".unknown")
		}
	}
	return "[" + strings.Join(parts, ", ") + "]"
}

func collectNotes(evs []lkEv, k string, out *[]string) {
	for _, e := range evs {
		if e.K == k {
			*out = append(*out, e.Note)
		}
		for _, a := range e.Alts {
			collectNotes(a, k, out)
		}
		collectNotes(e.Body, k, out)
	}
}

func collectCls(evs []lkEv, set map[string]bool) {
	for _, e := range evs {
		if e.Cls != "" {
			set[e.Cls] = true
		}
		for _, a := range e.Alts {
			collectCls(a, set)
		}
		collectCls(e.Body, set)
	}
}

func runLocks(repo, out string, args []string) error {
	if len(args) != 1 {
		return fmt.Errorf("locks: want exactly one spec file")
	}
	raw, err := os.ReadFile(args[0])
	if err != nil {
		return err
	}
	x := &lk{fset: token.NewFileSet(), structs: map[string]*ast.StructType{}, ifaces: map[string]*ast.InterfaceType{},
		named: map[string]ast.Expr{}, funcs: map[string]*lkFunc{}, imports: map[string]bool{}, ext: map[string]bool{}, set: map[string]map[string]bool{}, pkgVars: map[string]string{}}
	if err := json.Unmarshal(raw, &x.spec); err != nil {
		return err
	}
	for k, l := range map[string][]string{"parent_fields": x.spec.ParentFields, "file_fields": x.spec.FileFields,
		"child_fields": x.spec.ChildFields, "child_methods": x.spec.ChildMethods} {
		x.set[k] = map[string]bool{}
		for _, v := range l {
			x.set[k][v] = true
		}
	}
	files, err := filepath.Glob(filepath.Join(repo, x.spec.Package, "*.go"))
	if err != nil {
		return err
	}
	sort.Strings(files)
	var parsed []*ast.File
	var names []string
files:
	for _, fn := range files {
		if strings.HasSuffix(fn, "_test.go") {
			continue
		}
		for _, suf := range x.spec.SkipFileSuffix {
			if strings.HasSuffix(fn, suf) {
				continue files
			}
		}
		f, err := parser.ParseFile(x.fset, fn, nil, parser.SkipObjectResolution)
		if err != nil {
			return err
		}
		parsed = append(parsed, f)
		names = append(names, filepath.Base(fn))
		for _, im := range f.Imports {
			p := strings.Trim(im.Path.Value, `"`)
			n := p[strings.LastIndex(p, "/")+1:]
			if im.Name != nil {
				n = im.Name.Name
			}
			x.imports[n] = true
		}
	}
	for i, f := range parsed {
		for _, d := range f.Decls {
			switch v := d.(type) {
			case *ast.GenDecl:
				for _, sp := range v.Specs {
					if vs, ok := sp.(*ast.ValueSpec); ok && v.Tok == token.VAR {
						for _, n := range vs.Names {
							if vs.Type != nil {
								x.pkgVars[n.Name] = exprStr(x.fset, vs.Type)
							} else {
								x.pkgVars[n.Name] = "ext.var" // initialised from an expression: only used as an opaque external value
							}
						}
					}
					if ts, ok := sp.(*ast.TypeSpec); ok {
						switch t := ts.Type.(type) {
						case *ast.StructType:
							x.structs[ts.Name.Name] = t
						case *ast.InterfaceType:
							x.ifaces[ts.Name.Name] = t
						default:
							x.named[ts.Name.Name] = ts.Type
						}
					}
				}
			case *ast.FuncDecl:
				if v.Body == nil {
					continue
				}
				lf := &lkFunc{name: v.Name.Name, decl: v, file: names[i]}
				if v.Recv != nil && len(v.Recv.List) == 1 {
					lf.recv = stripPtr(exprStr(x.fset, v.Recv.List[0].Type))
					if k := strings.IndexByte(lf.recv, '['); k > 0 {
						lf.recv = lf.recv[:k]
					}
					lf.name = lf.recv + "." + v.Name.Name
				}
				x.funcs[lf.name] = lf
				x.order = append(x.order, lf.name)
			}
		}
	}
	sort.Strings(x.order)
	for _, n := range x.order {
		lf := x.funcs[n]
		c := &fctx{x: x, fn: lf}
		s := &scope{ty: map[string]string{}, who: map[string]string{}}
		for k, v := range x.pkgVars {
			s.ty[k], s.who[k] = v, "?"
		}
		if lf.decl.Recv != nil && len(lf.decl.Recv.List[0].Names) == 1 {
			c.recv = lf.decl.Recv.List[0].Names[0].Name
			s.ty[c.recv] = exprStr(x.fset, lf.decl.Recv.List[0].Type)
			s.who[c.recv] = ""
		}
		for _, fl := range [](*ast.FieldList){lf.decl.Type.Params, lf.decl.Type.Results} {
			if fl == nil {
				continue
			}
			for _, p := range fl.List {
				for _, nm := range p.Names {
					s.ty[nm.Name] = exprStr(x.fset, p.Type)
					s.who[nm.Name] = "?"
				}
			}
		}
		if rs := lf.decl.Type.Results; rs != nil && len(rs.List) > 0 {
			last := rs.List[len(rs.List)-1]
			if exprStr(x.fset, last.Type) == "error" {
				c.errLast = true
				if len(last.Names) > 0 {
					c.retErrVar = last.Names[len(last.Names)-1].Name
				}
			}
		}
		lf.body = c.stmts(lf.decl.Body.List, s)
	}
	all := append([]string{}, x.order...)
	for _, sp := range x.spawned {
		x.funcs[sp.name] = sp
		all = append(all, sp.name)
	}
	ids := map[string]int{}
	for i, n := range all {
		ids[n] = i
	}
	clsSet := map[string]bool{}
	for _, n := range all {
		collectCls(x.funcs[n].body, clsSet)
	}
	var clsNames []string
	for c := range clsSet {
		clsNames = append(clsNames, c)
	}
	sort.Strings(clsNames)
	cls := map[string]int{}
	for i, c := range clsNames {
		cls[c] = i
	}
	var b strings.Builder
	fmt.Fprintf(&b, "-- GENERATED by /verif/harness/cmd/extract (locks) from %s/*.go; DO NOT EDIT.\n", x.spec.Package)
	fmt.Fprintf(&b, "import BoxoModel.Lib.LockFacts\nnamespace %s\nopen LockFacts\n\n", x.spec.Namespace)
	fmt.Fprintf(&b, "/-- lock classes (struct.field of type sync.Mutex / sync.RWMutex), by index -/\ndef lockClasses : List String := [%s]\n\n", quoteList(clsNames))
	fmt.Fprintf(&b, "/-- function names, by index -/\ndef funcNames : List String := [%s]\n\n", quoteList(all))
	fmt.Fprintf(&b, "/-- receiver type of each function (\"\" = plain function) -/\ndef funcRecv : List String := [")
	for i, n := range all {
		if i > 0 {
			b.WriteString(", ")
		}
		fmt.Fprintf(&b, "%q", x.funcs[n].recv)
	}
	b.WriteString("]\n\n")
	kindOf := func(t string) string {
		if k, ok := x.spec.Kinds[t]; ok {
			return "." + k
		}
		return ".other"
	}
	b.WriteString("/-- kind of each function's receiver (from the spec) -/\ndef funcKinds : List Kind := [")
	for i, n := range all {
		if i > 0 {
			b.WriteString(", ")
		}
		b.WriteString(kindOf(x.funcs[n].recv))
	}
	b.WriteString("]\n\n/-- rank class and owner kind of each lock class (from the spec) -/\ndef classRanks : List (Option (Nat × Kind)) := [")
	for i, c := range clsNames {
		if i > 0 {
			b.WriteString(", ")
		}
		if r, ok := x.spec.Ranks[c]; ok && len(r) == 2 {
			fmt.Fprintf(&b, "some (%v, .%v)", r[0], r[1])
		} else {
			b.WriteString("none")
		}
	}
	b.WriteString("]\n\n")
	idList := func(ns []string) string {
		var out []string
		for _, n := range ns {
			if id, ok := ids[n]; ok {
				out = append(out, fmt.Sprint(id))
			}
		}
		return "[" + strings.Join(out, ", ") + "]"
	}
	fmt.Fprintf(&b, "def keeps : List Nat := %s\ndef gives : List Nat := %s\ndef mustGive : List Nat := %s\n\n", idList(x.spec.Keeps), idList(x.spec.Gives), idList(x.spec.MustGive))
	var unknowns, callbacks []string
	fmt.Fprintf(&b, "def mfsLockFacts : List (List Ev) := [\n")
	for i, n := range all {
		var u, cb []string
		collectNotes(x.funcs[n].body, "unknown", &u)
		collectNotes(x.funcs[n].body, "callback", &cb)
		for _, s := range u {
			unknowns = append(unknowns, n+": "+s)
		}
		for _, s := range cb {
			callbacks = append(callbacks, n+": "+s)
		}
		sep := ","
		if i == len(all)-1 {
			sep = ""
		}
		fmt.Fprintf(&b, "  /- %d %s -/ %s%s\n", i, n, x.leanEvs(x.funcs[n].body, ids, cls, "    "), sep)
	}
	b.WriteString("]\n\n")
	var exts []string
	for e := range x.ext {
		exts = append(exts, e)
	}
	sort.Strings(exts)
	fmt.Fprintf(&b, "/-- events the extractor could not resolve (each makes its function fail the discipline check) -/\ndef unresolved : List String := [%s]\n\n", quoteList(unknowns))
	fmt.Fprintf(&b, "/-- calls of function values (caller-supplied code that runs under the locks held at that point; assumption: it does not call back into the package) -/\ndef callbacks : List String := [%s]\n\n", quoteList(callbacks))
	fmt.Fprintf(&b, "/- calls into other packages that were not followed:\n%s\n-/\n", strings.Join(exts, "\n"))
	// API entry points: exported functions and exported methods (the roots of the guarded-field check: unexported
	// helpers are reached from them with the locks their callers hold)
	b.WriteString("/-- exported functions / methods, by index -/\ndef exportedFuncs : List Nat := [")
	firstE := true
	for i, n := range all {
		base := n[strings.LastIndex(n, ".")+1:]
		if strings.Contains(n, "$") || base == "" || !(base[0] >= 'A' && base[0] <= 'Z') {
			continue
		}
		if !firstE {
			b.WriteString(", ")
		}
		firstE = false
		fmt.Fprint(&b, i)
	}
	b.WriteString("]\n\n")
	// tolerated unguarded accesses: (function id, lock class id, write)
	b.WriteString("/-- existing accesses to a guarded field without its lock that are tolerated (reported as observations): (function, lock class, is write) -/\ndef allowUnguarded : List (Nat × Nat × Bool) := [")
	first := true
	for _, a := range x.spec.AllowUnguard {
		p := strings.Split(a, ":")
		if len(p) != 3 {
			continue
		}
		id, ok1 := ids[p[0]]
		cl, ok2 := cls[x.spec.Guarded[p[1]]]
		if !ok1 || !ok2 {
			continue
		}
		if !first {
			b.WriteString(", ")
		}
		first = false
		fmt.Fprintf(&b, "(%d, %d, %v)", id, cl, p[2] == "w")
	}
	b.WriteString("]\n\n")
	fmt.Fprintf(&b, "/-- the table the discipline checker runs on -/\ndef table : Tbl := ⟨mfsLockFacts, funcKinds, classRanks, keeps, gives, mustGive, false, allowUnguarded⟩\n\n/-- the same with the guarded-field rule switched on -/\ndef tableAcc : Tbl := { table with chkAccess := true }\n\n")
	fmt.Fprintf(&b, "end %s\n", x.spec.Namespace)
	return os.WriteFile(out, []byte(b.String()), 0o644)
}

func quoteList(xs []string) string {
	q := make([]string, len(xs))
	for i, s := range xs {
		q[i] = fmt.Sprintf("%q", s)
	}
	return strings.Join(q, ", ")
}
