package main

// T-gen-1b "intsm": integer *methods* with random draws. Translates a method whose only effects are
// assignments to integer fields of its receiver and calls of a random-draw function (rand.Int64N)
// into a pure Lean definition by two add-nothing rewrites of the AST, then hands the result to the
// `ints` translator (same whitelist, same refusals):
//
//	recv.field                -> parameter `field` (type read from the struct declaration)
//	rand.Int64N(bound)  (k-th) -> parameter `r<k>` : int64, and a second definition `<lean>_bound<k>`
//	                              giving the bound as a function of the ENTRY values of the fields
//
// A bound may only mention constants and fields that have not been assigned textually before the draw
// (checked; otherwise refused), so that "entry value" is what the Go code passes to the generator.
//
//	extract intsm <spec.json> --repo DIR --out FILE.lean
//	spec: {"namespace": "Gen.C46",
//	       "methods": [{"file": "peering/peering.go", "name": "peerHandler.nextBackoff", "lean": "nextBackoff",
//	                    "fields": ["nextDelay"], "draw": "rand.Int64N"}]}
//
// Output for the example: `def nextBackoff (nextDelay : BitVec 64) (r0 r1 : BitVec 64) : BitVec 64` (the value
// returned, which the method also leaves in the field if it returns the field) and
// `def nextBackoff_bound0 (nextDelay : BitVec 64) : BitVec 64`, `def nextBackoff_bound1 …`.

import (
	"encoding/json"
	"fmt"
	"go/ast"
	"go/token"
	"os"
	"path/filepath"
	"strings"
)

func init() { registry["intsm"] = runIntsm }

type intsmSpec struct {
	Namespace string `json:"namespace"`
	Methods   []struct {
		File   string   `json:"file"`
		Name   string   `json:"name"`
		Lean   string   `json:"lean"`
		Fields []string `json:"fields"`
		Draw   string   `json:"draw"`
	} `json:"methods"`
	Types map[string]string `json:"types"`
}

// structFieldType finds the declared type of field `field` of struct type `recv` in the package.
func (t *trans) structFieldType(dir, recv, field string) ast.Expr {
	for _, f := range t.pkgs[dir] {
		for _, d := range f.Decls {
			gd, ok := d.(*ast.GenDecl)
			if !ok || gd.Tok != token.TYPE {
				continue
			}
			for _, s := range gd.Specs {
				ts := s.(*ast.TypeSpec)
				st, ok := ts.Type.(*ast.StructType)
				if !ok || ts.Name.Name != recv {
					continue
				}
				for _, fl := range st.Fields.List {
					for _, n := range fl.Names {
						if n.Name == field {
							return fl.Type
						}
					}
				}
			}
		}
	}
	return nil
}

type drawInfo struct {
	bound ast.Expr
	pos   token.Pos
}

// rewriter replaces receiver field selectors and draw calls; it works on a copy made by rebuilding
// the nodes it touches (statements of the whitelisted kinds only; anything else is left as is and
// refused later by the ints translator).
type rewriter struct {
	recv   string
	fields map[string]bool
	draw   string
	draws  []drawInfo
	assign map[string]token.Pos // field -> position of its first assignment
	err    error
}

func (r *rewriter) expr(e ast.Expr) ast.Expr {
	switch x := e.(type) {
	case nil:
		return nil
	case *ast.SelectorExpr:
		if id, ok := x.X.(*ast.Ident); ok && id.Name == r.recv {
			if !r.fields[x.Sel.Name] {
				r.err = fmt.Errorf("receiver field %s is not declared in the spec", x.Sel.Name)
			}
			return &ast.Ident{NamePos: x.Pos(), Name: x.Sel.Name}
		}
		return x
	case *ast.Ident:
		if x.Name == r.recv {
			r.err = fmt.Errorf("receiver used as a value")
		}
		return x
	case *ast.ParenExpr:
		return &ast.ParenExpr{X: r.expr(x.X)}
	case *ast.UnaryExpr:
		return &ast.UnaryExpr{Op: x.Op, X: r.expr(x.X)}
	case *ast.BinaryExpr:
		return &ast.BinaryExpr{X: r.expr(x.X), Op: x.Op, Y: r.expr(x.Y)}
	case *ast.CallExpr:
		if typeName(x.Fun) == r.draw {
			if len(x.Args) != 1 {
				r.err = fmt.Errorf("draw call arity")
				return x
			}
			k := len(r.draws)
			r.draws = append(r.draws, drawInfo{bound: r.expr(x.Args[0]), pos: x.Pos()})
			return &ast.Ident{NamePos: x.Pos(), Name: fmt.Sprintf("r%d", k)}
		}
		args := make([]ast.Expr, len(x.Args))
		for i, a := range x.Args {
			args[i] = r.expr(a)
		}
		return &ast.CallExpr{Fun: x.Fun, Args: args}
	case *ast.BasicLit:
		return x
	}
	r.err = fmt.Errorf("unsupported expression %T in method body", e)
	return e
}

func (r *rewriter) stmts(ss []ast.Stmt) []ast.Stmt {
	out := make([]ast.Stmt, 0, len(ss))
	for _, s := range ss {
		out = append(out, r.stmt(s))
	}
	return out
}

func (r *rewriter) stmt(s ast.Stmt) ast.Stmt {
	switch x := s.(type) {
	case *ast.AssignStmt:
		if len(x.Lhs) != 1 || len(x.Rhs) != 1 {
			r.err = fmt.Errorf("multi-assignment unsupported")
			return s
		}
		rhs := r.expr(x.Rhs[0]) // evaluated before the store
		lhs := r.expr(x.Lhs[0])
		if id, ok := lhs.(*ast.Ident); ok && r.fields[id.Name] {
			if _, seen := r.assign[id.Name]; !seen {
				r.assign[id.Name] = x.End() // the store happens after the whole right-hand side
			}
		}
		tok := x.Tok
		return &ast.AssignStmt{Lhs: []ast.Expr{lhs}, Tok: tok, Rhs: []ast.Expr{rhs}}
	case *ast.IncDecStmt:
		lhs := r.expr(x.X)
		if id, ok := lhs.(*ast.Ident); ok && r.fields[id.Name] {
			if _, seen := r.assign[id.Name]; !seen {
				r.assign[id.Name] = x.End()
			}
		}
		return &ast.IncDecStmt{X: lhs, Tok: x.Tok}
	case *ast.IfStmt:
		if x.Init != nil {
			r.err = fmt.Errorf("if with init unsupported")
			return s
		}
		n := &ast.IfStmt{Cond: r.expr(x.Cond), Body: &ast.BlockStmt{List: r.stmts(x.Body.List)}}
		switch e := x.Else.(type) {
		case nil:
		case *ast.BlockStmt:
			n.Else = &ast.BlockStmt{List: r.stmts(e.List)}
		case *ast.IfStmt:
			n.Else = r.stmt(e)
		default:
			r.err = fmt.Errorf("unsupported else")
		}
		return n
	case *ast.ReturnStmt:
		rs := make([]ast.Expr, len(x.Results))
		for i, e := range x.Results {
			rs[i] = r.expr(e)
		}
		return &ast.ReturnStmt{Results: rs}
	case *ast.BlockStmt:
		return &ast.BlockStmt{List: r.stmts(x.List)}
	}
	r.err = fmt.Errorf("unsupported statement %T in method body", s)
	return s
}

// fieldsIn lists the (rewritten) field identifiers an expression mentions.
func fieldsIn(e ast.Expr, fields map[string]bool) []string {
	var out []string
	ast.Inspect(e, func(n ast.Node) bool {
		if id, ok := n.(*ast.Ident); ok && fields[id.Name] {
			out = append(out, id.Name)
		}
		return true
	})
	return out
}

func runIntsm(repo, out string, args []string) error {
	if len(args) != 1 {
		return fmt.Errorf("intsm: want exactly one spec file")
	}
	raw, err := os.ReadFile(args[0])
	if err != nil {
		return err
	}
	var spec intsmSpec
	if err := json.Unmarshal(raw, &spec); err != nil {
		return err
	}
	t := &trans{repo: repo, fset: token.NewFileSet(), pkgs: map[string][]*ast.File{}, consts: map[string]map[string]ast.Expr{},
		ctypes: map[string]map[string]ast.Expr{}, fns: map[string]*fnInfo{}, calls: map[string]string{}, types: map[string]ity{}}
	for k, v := range spec.Types {
		var ty ity
		if _, err := fmt.Sscanf(v[1:], "%d", &ty.bits); err != nil || (v[0] != 'u' && v[0] != 'i') {
			return fmt.Errorf("bad type spec %q", v)
		}
		ty.kind, ty.signed = "int", v[0] == 'i'
		t.types[k] = ty
	}
	var b strings.Builder
	var srcs []string
	for _, m := range spec.Methods {
		srcs = append(srcs, m.File+":"+m.Name)
	}
	fmt.Fprintf(&b, "-- GENERATED by /verif/harness/cmd/extract (intsm) from the Go source; DO NOT EDIT.\n-- sources: %s\nimport BoxoModel.Lib.GoInt\nnamespace %s\n\n", strings.Join(srcs, ", "), spec.Namespace)
	for _, m := range spec.Methods {
		dir := filepath.Dir(m.File)
		if err := t.loadPkg(dir); err != nil {
			return err
		}
		t.dir = dir
		fd := t.findFunc(dir, m.Name)
		if fd == nil || fd.Body == nil || fd.Recv == nil || len(fd.Recv.List) != 1 || len(fd.Recv.List[0].Names) != 1 {
			return fmt.Errorf("method %s not found in %s (or has no named receiver)", m.Name, dir)
		}
		if fd.Type.Params != nil && len(fd.Type.Params.List) != 0 {
			return fmt.Errorf("%s: methods with parameters unsupported", m.Name)
		}
		recvType := strings.TrimPrefix(typeName(fd.Recv.List[0].Type), "*")
		rw := &rewriter{recv: fd.Recv.List[0].Names[0].Name, fields: map[string]bool{}, draw: m.Draw, assign: map[string]token.Pos{}}
		params := &ast.FieldList{}
		for _, f := range m.Fields {
			ft := t.structFieldType(dir, recvType, f)
			if ft == nil {
				return fmt.Errorf("%s: field %s.%s not found", m.Name, recvType, f)
			}
			rw.fields[f] = true
			params.List = append(params.List, &ast.Field{Names: []*ast.Ident{{Name: f}}, Type: ft})
		}
		body := rw.stmts(fd.Body.List)
		if rw.err != nil {
			return fmt.Errorf("%s: %v", m.Name, rw.err)
		}
		fieldParams := append([]*ast.Field{}, params.List...)
		for k, d := range rw.draws {
			// the bound must be a function of entry values
			for _, f := range fieldsIn(d.bound, rw.fields) {
				if p, ok := rw.assign[f]; ok && p <= d.pos {
					return fmt.Errorf("%s: bound of draw %d mentions field %s after it was assigned", m.Name, k, f)
				}
			}
			params.List = append(params.List, &ast.Field{Names: []*ast.Ident{{Name: fmt.Sprintf("r%d", k)}}, Type: &ast.Ident{Name: "int64"}})
		}
		emit := func(lean string, ps *ast.FieldList, results *ast.FieldList, stmts []ast.Stmt, doc string) error {
			syn := &ast.FuncDecl{Name: &ast.Ident{Name: lean}, Type: &ast.FuncType{Params: ps, Results: results}, Body: &ast.BlockStmt{List: stmts}}
			names, tys, res, err := t.signature(syn)
			if err != nil {
				return fmt.Errorf("%s: %v", m.Name, err)
			}
			en := env{}
			var sig []string
			for i, n := range names {
				en[n] = tys[i]
				sig = append(sig, fmt.Sprintf("(%s : %s)", leanIdent(n), tys[i].lean()))
			}
			bodyS, err := t.block(stmts, en, res, nil)
			if err != nil {
				pos := t.fset.Position(fd.Pos())
				return fmt.Errorf("%s (%s:%d): %v", m.Name, pos.Filename, pos.Line, err)
			}
			fmt.Fprintf(&b, "/-- %s -/\ndef %s %s : %s :=\n  %s\n\n", doc, lean, strings.Join(sig, " "), res.lean(), bodyS)
			return nil
		}
		if err := emit(m.Lean, params, fd.Type.Results, body,
			fmt.Sprintf("Go: %s (%s); receiver fields %v and the %d results of %s are parameters", m.Name, dir, m.Fields, len(rw.draws), m.Draw)); err != nil {
			return err
		}
		for k, d := range rw.draws {
			res := &ast.FieldList{List: []*ast.Field{{Type: &ast.Ident{Name: "int64"}}}}
			if err := emit(fmt.Sprintf("%s_bound%d", m.Lean, k), &ast.FieldList{List: fieldParams}, res,
				[]ast.Stmt{&ast.ReturnStmt{Results: []ast.Expr{d.bound}}},
				fmt.Sprintf("argument of draw %d of %s in %s, as a function of the entry values of the fields", k, m.Draw, m.Name)); err != nil {
				return err
			}
		}
	}
	fmt.Fprintf(&b, "end %s\n", spec.Namespace)
	return os.WriteFile(out, []byte(b.String()), 0o644)
}
