package main

// T-gen-4 "steps": for the listed functions / methods, the ordered list of accesses to named shared
// state (atomics, mutexes, the cache, the wrapped store), in evaluation order of the source text
// (receiver before arguments before the call itself; statements and branches in source order), emitted
// as Lean `List String` definitions.  The small-step model declares, per program, the list of accesses
// its program counters stand for; a `decide` theorem compares the two, so that re-ordering, adding or
// dropping an access in the Go source breaks a proof obligation.
//
//	extract steps <spec.json> --repo DIR --out FILE.lean
//
// spec.json: {"namespace": "Gen.C02", "files": ["blockstore/bloom_cache.go", …],
//	"funcs": ["bloomcache.hasCached", …],
//	"rules": {"bloom.Load": "bloom.Load", "().HasTS": "filter.Has", …},   token -> emitted name
//	"ignore": ["total.Inc", "hits.Inc", …]}                                tokens rooted at the receiver that are not shared state
//
// token of a call = selector chain below its root + bool-literal arguments, e.g. `b.bloom.Load()` -> "bloom.Load",
// `b.bloom.Load().HasTS(h)` -> "().HasTS" (after "bloom.Load"), `bl.HasTS(h)` -> "_.HasTS",
// `b.active.Store(false)` -> "active.Store(false)", `b.lock(key, true)` -> "lock(true)", `errFn()` -> "errFn".
// A call rooted at the receiver that matches neither `rules` nor `ignore` is emitted as "?<token>" (never dropped).

import (
	"encoding/json"
	"fmt"
	"go/ast"
	"go/parser"
	"go/token"
	"os"
	"path/filepath"
	"sort"
	"strings"
)

func init() { registry["steps"] = runSteps }

type stSpec struct {
	Namespace string            `json:"namespace"`
	Files     []string          `json:"files"`
	Funcs     []string          `json:"funcs"`
	Rules     map[string]string `json:"rules"`
	Ignore    []string          `json:"ignore"`
}

type stWalker struct {
	spec   *stSpec
	recv   string
	ignore map[string]bool
	out    []string
}

// chain returns (root kind, selector chain) of an expression used as a call's Fun
func (w *stWalker) chain(e ast.Expr) (root string, sel []string) {
	switch x := e.(type) {
	case *ast.SelectorExpr:
		r, s := w.chain(x.X)
		return r, append(s, x.Sel.Name)
	case *ast.Ident:
		if x.Name == w.recv {
			return "recv", nil
		}
		return "ident:" + x.Name, nil
	case *ast.CallExpr:
		return "call", nil
	case *ast.ParenExpr:
		return w.chain(x.X)
	case *ast.StarExpr:
		return w.chain(x.X)
	case *ast.IndexExpr:
		return w.chain(x.X)
	}
	return "other", nil
}

func (w *stWalker) emitCall(c *ast.CallExpr, deferred bool) {
	root, sel := w.chain(c.Fun)
	var tok string
	switch {
	case root == "recv":
		tok = strings.Join(sel, ".")
	case root == "call":
		tok = "()." + strings.Join(sel, ".")
	case strings.HasPrefix(root, "ident:") && len(sel) == 0:
		tok = strings.TrimPrefix(root, "ident:")
	case strings.HasPrefix(root, "ident:"):
		tok = "_." + strings.Join(sel, ".")
	default:
		return
	}
	var bools []string
	for _, a := range c.Args {
		if id, ok := a.(*ast.Ident); ok && (id.Name == "true" || id.Name == "false") {
			bools = append(bools, id.Name)
		}
	}
	if len(bools) > 0 {
		tok += "(" + strings.Join(bools, ",") + ")"
	}
	name, ok := w.spec.Rules[tok]
	if !ok {
		if root != "recv" || w.ignore[tok] {
			return
		}
		name = "?" + tok
	}
	if deferred {
		name = "defer " + name
	}
	w.out = append(w.out, name)
}

func (w *stWalker) expr(e ast.Expr) {
	switch x := e.(type) {
	case nil:
	case *ast.CallExpr:
		// receiver expression first (it may itself contain calls), then the arguments, then the call
		switch f := x.Fun.(type) {
		case *ast.SelectorExpr:
			w.expr(f.X)
		case *ast.FuncLit:
			w.block(f.Body)
		}
		for _, a := range x.Args {
			w.expr(a)
		}
		w.emitCall(x, false)
	case *ast.FuncLit:
		w.block(x.Body)
	case *ast.BinaryExpr:
		w.expr(x.X)
		w.expr(x.Y)
	case *ast.UnaryExpr:
		w.expr(x.X)
	case *ast.ParenExpr:
		w.expr(x.X)
	case *ast.SelectorExpr:
		w.expr(x.X)
	case *ast.StarExpr:
		w.expr(x.X)
	case *ast.IndexExpr:
		w.expr(x.X)
		w.expr(x.Index)
	case *ast.TypeAssertExpr:
		w.expr(x.X)
	case *ast.CompositeLit:
		for _, el := range x.Elts {
			w.expr(el)
		}
	case *ast.KeyValueExpr:
		w.expr(x.Value)
	case *ast.SliceExpr:
		w.expr(x.X)
	}
}

func (w *stWalker) stmt(s ast.Stmt) {
	switch x := s.(type) {
	case nil:
	case *ast.ExprStmt:
		w.expr(x.X)
	case *ast.AssignStmt:
		for _, r := range x.Rhs {
			w.expr(r)
		}
	case *ast.DeclStmt:
		if gd, ok := x.Decl.(*ast.GenDecl); ok {
			for _, sp := range gd.Specs {
				if vs, ok := sp.(*ast.ValueSpec); ok {
					for _, v := range vs.Values {
						w.expr(v)
					}
				}
			}
		}
	case *ast.ReturnStmt:
		for _, r := range x.Results {
			w.expr(r)
		}
	case *ast.IfStmt:
		w.stmt(x.Init)
		w.expr(x.Cond)
		w.block(x.Body)
		w.stmt(x.Else)
	case *ast.BlockStmt:
		w.block(x)
	case *ast.ForStmt:
		w.stmt(x.Init)
		w.expr(x.Cond)
		w.block(x.Body)
		w.stmt(x.Post)
	case *ast.RangeStmt:
		w.expr(x.X)
		w.block(x.Body)
	case *ast.SwitchStmt:
		w.stmt(x.Init)
		w.expr(x.Tag)
		w.block(x.Body)
	case *ast.TypeSwitchStmt:
		w.stmt(x.Init)
		w.stmt(x.Assign)
		w.block(x.Body)
	case *ast.CaseClause:
		for _, e := range x.List {
			w.expr(e)
		}
		for _, b := range x.Body {
			w.stmt(b)
		}
	case *ast.SelectStmt:
		w.block(x.Body)
	case *ast.CommClause:
		w.stmt(x.Comm)
		for _, b := range x.Body {
			w.stmt(b)
		}
	case *ast.SendStmt:
		w.expr(x.Chan)
		w.expr(x.Value)
	case *ast.DeferStmt:
		switch f := x.Call.Fun.(type) {
		case *ast.SelectorExpr:
			w.expr(f.X)
		case *ast.FuncLit:
			// deferred closure: its accesses happen at return; list them marked as deferred
			sub := &stWalker{spec: w.spec, recv: w.recv, ignore: w.ignore}
			sub.block(f.Body)
			for _, n := range sub.out {
				w.out = append(w.out, "defer "+n)
			}
			return
		}
		for _, a := range x.Call.Args {
			w.expr(a)
		}
		w.emitCall(x.Call, true)
	case *ast.GoStmt:
		w.expr(x.Call)
	case *ast.LabeledStmt:
		w.stmt(x.Stmt)
	case *ast.IncDecStmt:
		w.expr(x.X)
	}
}

func (w *stWalker) block(b *ast.BlockStmt) {
	if b == nil {
		return
	}
	for _, s := range b.List {
		w.stmt(s)
	}
}

func runSteps(repo, out string, args []string) error {
	if len(args) != 1 {
		return fmt.Errorf("usage: extract steps <spec.json> --repo DIR --out FILE")
	}
	raw, err := os.ReadFile(args[0])
	if err != nil {
		return err
	}
	var spec stSpec
	if err := json.Unmarshal(raw, &spec); err != nil {
		return err
	}
	ignore := map[string]bool{}
	for _, i := range spec.Ignore {
		ignore[i] = true
	}
	fset := token.NewFileSet()
	decls := map[string]*ast.FuncDecl{}
	for _, f := range spec.Files {
		af, err := parser.ParseFile(fset, filepath.Join(repo, f), nil, 0)
		if err != nil {
			return err
		}
		for _, d := range af.Decls {
			fd, ok := d.(*ast.FuncDecl)
			if !ok || fd.Body == nil {
				continue
			}
			name := fd.Name.Name
			if fd.Recv != nil && len(fd.Recv.List) == 1 {
				t := fd.Recv.List[0].Type
				if st, ok := t.(*ast.StarExpr); ok {
					t = st.X
				}
				if id, ok := t.(*ast.Ident); ok {
					name = id.Name + "." + name
				}
			}
			decls[name] = fd
		}
	}
	var sb strings.Builder
	sb.WriteString("-- GENERATED by `extract steps` from " + strings.Join(spec.Files, ", ") + " — do not edit.\n")
	sb.WriteString("-- Ordered accesses to shared state, per function (source / evaluation order).\n")
	sb.WriteString("namespace " + spec.Namespace + "\n\n")
	funcs := append([]string(nil), spec.Funcs...)
	sort.Strings(funcs)
	for _, fn := range funcs {
		fd, ok := decls[fn]
		if !ok {
			return fmt.Errorf("steps: function %s not found", fn)
		}
		w := &stWalker{spec: &spec, ignore: ignore}
		if fd.Recv != nil && len(fd.Recv.List[0].Names) == 1 {
			w.recv = fd.Recv.List[0].Names[0].Name
		}
		w.block(fd.Body)
		q := make([]string, len(w.out))
		for i, n := range w.out {
			q[i] = fmt.Sprintf("%q", n)
		}
		lean := strings.ReplaceAll(fn, ".", "_")
		sb.WriteString(fmt.Sprintf("def %s : List String := [%s]\n\n", lean, strings.Join(q, ", ")))
	}
	sb.WriteString("end " + spec.Namespace + "\n")
	return os.WriteFile(out, []byte(sb.String()), 0o644)
}
