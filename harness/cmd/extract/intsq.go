package main

// T-gen-1c "intsq": integer logic that sits inside functions which also touch non-integer state.
// Two kinds of items, both reduced to the `ints` translator (same whitelist, same refusals) by
// add-nothing rewrites of the AST:
//
//   - "func": a whole function whose only non-integer ingredients are *queries* — call expressions
//     (matched by their exact source text, e.g. `node.NumChildren()`) that become integer / bool
//     parameters. Parameters of non-integer type are dropped (a remaining use is refused by `ints`).
//     Several named results are supported: one definition per result, `<lean>_<resultName>`
//     (assignments to the named results become local definitions, a bare `return` returns the result).
//   - "cond": the condition of the k-th `for` or `if` statement (source order) of a function, as a
//     Bool definition whose parameters are the queries and the listed local variables.
//
//	extract intsq <spec.json> --repo DIR --out FILE.lean
//	spec: {"namespace": "Gen.C08", "items": [
//	   {"kind": "func", "file": "ipld/unixfs/importer/trickle/trickledag.go", "func": "trickleDepthInfo",
//	    "lean": "trickleDepthInfo", "queries": {"node.NumChildren()": {"name": "n", "type": "int"}}},
//	   {"kind": "cond", "file": ".../helpers/dagbuilder.go", "func": "DagBuilderHelper.FillNodeLayer", "stmt": "for",
//	    "index": 0, "lean": "fillNodeLayerCond",
//	    "queries": {"node.NumChildren()": {"name": "n", "type": "int"}, "db.Done()": {"name": "done", "type": "bool"},
//	                "db.maxlinks": {"name": "maxlinks", "type": "int"}},
//	    "locals": {"depth": "int"}}]}

import (
	"encoding/json"
	"fmt"
	"go/ast"
	"go/token"
	"go/types"
	"os"
	"path/filepath"
	"sort"
	"strings"
)

func init() { registry["intsq"] = runIntsq }

type qparam struct {
	Name string `json:"name"`
	Type string `json:"type"`
}

type intsqItem struct {
	Kind    string            `json:"kind"`
	File    string            `json:"file"`
	Func    string            `json:"func"`
	Lean    string            `json:"lean"`
	Stmt    string            `json:"stmt"`
	Index   int               `json:"index"`
	Queries map[string]qparam `json:"queries"`
	Locals  map[string]string `json:"locals"`
}

type intsqSpec struct {
	Namespace string      `json:"namespace"`
	Items     []intsqItem `json:"items"`
}

// qrw replaces query expressions by identifiers (bottom-up is not needed: a query is matched as a whole
// before its sub-expressions are looked at).
type qrw struct {
	queries map[string]qparam
	used    map[string]bool
	results map[string]bool // named results of the function
	which   string          // the named result being extracted ("" = single anonymous result)
	order   []string        // names of the named results, in declaration order
	err     error
}

func (r *qrw) expr(e ast.Expr) ast.Expr {
	if e == nil {
		return nil
	}
	if q, ok := r.queries[types.ExprString(e)]; ok {
		r.used[q.Name] = true
		return &ast.Ident{NamePos: e.Pos(), Name: q.Name}
	}
	switch x := e.(type) {
	case *ast.Ident, *ast.BasicLit:
		return x
	case *ast.SelectorExpr:
		return x
	case *ast.ParenExpr:
		return &ast.ParenExpr{X: r.expr(x.X)}
	case *ast.UnaryExpr:
		return &ast.UnaryExpr{Op: x.Op, X: r.expr(x.X)}
	case *ast.BinaryExpr:
		return &ast.BinaryExpr{X: r.expr(x.X), Op: x.Op, Y: r.expr(x.Y)}
	case *ast.CallExpr:
		args := make([]ast.Expr, len(x.Args))
		for i, a := range x.Args {
			args[i] = r.expr(a)
		}
		return &ast.CallExpr{Fun: x.Fun, Args: args}
	}
	r.err = fmt.Errorf("unsupported expression %T", e)
	return e
}

func (r *qrw) stmts(ss []ast.Stmt) []ast.Stmt {
	out := make([]ast.Stmt, 0, len(ss))
	for _, s := range ss {
		out = append(out, r.stmt(s))
	}
	return out
}

func (r *qrw) stmt(s ast.Stmt) ast.Stmt {
	switch x := s.(type) {
	case *ast.AssignStmt:
		if len(x.Lhs) != 1 || len(x.Rhs) != 1 {
			r.err = fmt.Errorf("multi-assignment unsupported")
			return s
		}
		tok := x.Tok
		if id, ok := x.Lhs[0].(*ast.Ident); ok && r.results[id.Name] && tok == token.ASSIGN {
			tok = token.DEFINE // a named result is an ordinary local of the extracted definition
		}
		return &ast.AssignStmt{Lhs: []ast.Expr{x.Lhs[0]}, Tok: tok, Rhs: []ast.Expr{r.expr(x.Rhs[0])}}
	case *ast.IfStmt:
		if x.Init != nil {
			r.err = fmt.Errorf("if with init unsupported")
			return s
		}
		n := &ast.IfStmt{Cond: r.expr(x.Cond), Body: &ast.BlockStmt{List: r.stmts(x.Body.List)}}
		switch e := x.Else.(type) {
		case nil:
		case *ast.BlockStmt:
			n.Else = &ast.BlockStmt{List: r.stmts(e.List)}
		case *ast.IfStmt:
			n.Else = r.stmt(e)
		default:
			r.err = fmt.Errorf("unsupported else")
		}
		return n
	case *ast.ReturnStmt:
		if r.which == "" {
			rs := make([]ast.Expr, len(x.Results))
			for i, e := range x.Results {
				rs[i] = r.expr(e)
			}
			return &ast.ReturnStmt{Results: rs}
		}
		if len(x.Results) == 0 {
			return &ast.ReturnStmt{Results: []ast.Expr{&ast.Ident{Name: r.which}}}
		}
		for i, n := range r.order {
			if n == r.which && i < len(x.Results) {
				return &ast.ReturnStmt{Results: []ast.Expr{r.expr(x.Results[i])}}
			}
		}
		r.err = fmt.Errorf("return does not match the named results")
		return s
	case *ast.BlockStmt:
		return &ast.BlockStmt{List: r.stmts(x.List)}
	case *ast.ExprStmt, *ast.DeclStmt, *ast.IncDecStmt:
		return s // left to the ints translator (which refuses what it does not know)
	}
	r.err = fmt.Errorf("unsupported statement %T", s)
	return s
}

func isIntType(name string) bool {
	_, ok := baseTypes[name]
	return ok
}

func runIntsq(repo, out string, args []string) error {
	if len(args) != 1 {
		return fmt.Errorf("intsq: want exactly one spec file")
	}
	raw, err := os.ReadFile(args[0])
	if err != nil {
		return err
	}
	var spec intsqSpec
	if err := json.Unmarshal(raw, &spec); err != nil {
		return err
	}
	t := &trans{repo: repo, fset: token.NewFileSet(), pkgs: map[string][]*ast.File{}, consts: map[string]map[string]ast.Expr{},
		ctypes: map[string]map[string]ast.Expr{}, fns: map[string]*fnInfo{}, calls: map[string]string{}, types: map[string]ity{}}
	var b strings.Builder
	var srcs []string
	for _, it := range spec.Items {
		srcs = append(srcs, fmt.Sprintf("%s:%s(%s)", it.File, it.Func, it.Kind))
	}
	fmt.Fprintf(&b, "-- GENERATED by /verif/harness/cmd/extract (intsq) from the Go source; DO NOT EDIT.\n-- sources: %s\nimport BoxoModel.Lib.GoInt\nnamespace %s\n\n", strings.Join(srcs, ", "), spec.Namespace)

	emit := func(it intsqItem, fd *ast.FuncDecl, lean string, params *ast.FieldList, result string, stmts []ast.Stmt, doc string) error {
		syn := &ast.FuncDecl{Name: &ast.Ident{Name: lean}, Type: &ast.FuncType{Params: params,
			Results: &ast.FieldList{List: []*ast.Field{{Type: &ast.Ident{Name: result}}}}}, Body: &ast.BlockStmt{List: stmts}}
		names, tys, res, err := t.signature(syn)
		if err != nil {
			return fmt.Errorf("%s: %v", it.Func, err)
		}
		en := env{}
		var sig []string
		for i, n := range names {
			en[n] = tys[i]
			sig = append(sig, fmt.Sprintf("(%s : %s)", leanIdent(n), tys[i].lean()))
		}
		body, err := t.block(stmts, en, res, nil)
		if err != nil {
			pos := t.fset.Position(fd.Pos())
			return fmt.Errorf("%s (%s:%d): %v", it.Func, pos.Filename, pos.Line, err)
		}
		fmt.Fprintf(&b, "/-- %s -/\ndef %s %s : %s :=\n  %s\n\n", doc, lean, strings.Join(sig, " "), res.lean(), body)
		return nil
	}
	queryParams := func(it intsqItem, used map[string]bool) []*ast.Field {
		var names []string
		seen := map[string]string{}
		for _, q := range it.Queries {
			if used[q.Name] && seen[q.Name] == "" {
				seen[q.Name] = q.Type
				names = append(names, q.Name)
			}
		}
		sort.Strings(names)
		var fs []*ast.Field
		for _, n := range names {
			fs = append(fs, &ast.Field{Names: []*ast.Ident{{Name: n}}, Type: &ast.Ident{Name: seen[n]}})
		}
		return fs
	}

	for _, it := range spec.Items {
		dir := filepath.Dir(it.File)
		if err := t.loadPkg(dir); err != nil {
			return err
		}
		t.dir = dir
		fd := t.findFunc(dir, it.Func)
		if fd == nil || fd.Body == nil {
			return fmt.Errorf("function %s not found in %s", it.Func, dir)
		}
		switch it.Kind {
		case "func":
			// integer parameters are kept, the others dropped
			var kept []*ast.Field
			for _, f := range fd.Type.Params.List {
				if isIntType(typeName(f.Type)) {
					kept = append(kept, f)
				}
			}
			var order []string
			results := map[string]bool{}
			var resTypes []string
			if fd.Type.Results == nil {
				return fmt.Errorf("%s: no result", it.Func)
			}
			for _, f := range fd.Type.Results.List {
				for _, n := range f.Names {
					order = append(order, n.Name)
					results[n.Name] = true
					resTypes = append(resTypes, typeName(f.Type))
				}
			}
			targets := order
			if len(order) == 0 {
				if len(fd.Type.Results.List) != 1 {
					return fmt.Errorf("%s: several anonymous results unsupported", it.Func)
				}
				targets = []string{""}
				resTypes = []string{typeName(fd.Type.Results.List[0].Type)}
			}
			for k, which := range targets {
				rw := &qrw{queries: it.Queries, used: map[string]bool{}, results: results, which: which, order: order}
				body := rw.stmts(fd.Body.List)
				if rw.err != nil {
					return fmt.Errorf("%s: %v", it.Func, rw.err)
				}
				params := &ast.FieldList{List: append(queryParams(it, rw.used), kept...)}
				lean := it.Lean
				if which != "" {
					lean += "_" + which
				}
				if err := emit(it, fd, lean, params, resTypes[k], body,
					fmt.Sprintf("Go: %s (%s), result %q; queries %v are parameters", it.Func, dir, which, sortedKeys(it.Queries))); err != nil {
					return err
				}
			}
		case "cond":
			var cond ast.Expr
			k := 0
			ast.Inspect(fd.Body, func(n ast.Node) bool {
				if cond != nil {
					return false
				}
				switch x := n.(type) {
				case *ast.ForStmt:
					if it.Stmt == "for" {
						if k == it.Index {
							cond = x.Cond
						}
						k++
					}
				case *ast.IfStmt:
					if it.Stmt == "if" {
						if k == it.Index {
							cond = x.Cond
						}
						k++
					}
				case *ast.FuncLit:
					return false
				}
				return true
			})
			if cond == nil {
				return fmt.Errorf("%s: no %s statement #%d with a condition", it.Func, it.Stmt, it.Index)
			}
			rw := &qrw{queries: it.Queries, used: map[string]bool{}, results: map[string]bool{}}
			c := rw.expr(cond)
			if rw.err != nil {
				return fmt.Errorf("%s: %v", it.Func, rw.err)
			}
			fs := queryParams(it, rw.used)
			var locals []string
			for n := range it.Locals {
				locals = append(locals, n)
			}
			sort.Strings(locals)
			for _, n := range locals {
				mentioned := false
				ast.Inspect(c, func(x ast.Node) bool {
					if id, ok := x.(*ast.Ident); ok && id.Name == n {
						mentioned = true
					}
					return true
				})
				if mentioned {
					fs = append(fs, &ast.Field{Names: []*ast.Ident{{Name: n}}, Type: &ast.Ident{Name: it.Locals[n]}})
				}
			}
			if err := emit(it, fd, it.Lean, &ast.FieldList{List: fs}, "bool",
				[]ast.Stmt{&ast.ReturnStmt{Results: []ast.Expr{c}}},
				fmt.Sprintf("Go: condition of %s statement #%d of %s (%s): `%s`", it.Stmt, it.Index, it.Func, dir, types.ExprString(cond))); err != nil {
				return err
			}
		default:
			return fmt.Errorf("intsq: unknown item kind %q", it.Kind)
		}
	}
	fmt.Fprintf(&b, "end %s\n", spec.Namespace)
	return os.WriteFile(out, []byte(b.String()), 0o644)
}

func sortedKeys(m map[string]qparam) []string {
	var ks []string
	for k := range m {
		ks = append(ks, k)
	}
	sort.Strings(ks)
	return ks
}
