package main

// T-gen "condexpr": boolean / natural-number EXPRESSIONS picked out of a function body — the single `return`
// expression of a one-line method, or the condition of the unique `if` / `for` whose source text contains a given
// substring — translated into a pure Lean definition over Nat / Bool parameters.
//
// The Go operands are abstracted by an explicit table (spec "atoms": Go sub-expression text -> Lean parameter and
// its type); the translator only handles the logical / comparison / arithmetic skeleton
//
//	||  &&  !  ==  !=  <  <=  >  >=  +  ( )  and int(...)/uint(...) conversions of an atom
//
// and REFUSES anything else (an unknown operand, another operator, a changed shape), so a semantic change of the
// expression either changes the generated definition (and breaks the proofs / the correspondence that use it) or
// is reported as "T-gen obligation not regenerated". Atoms have type Bool, Nat (non-negative integers: the atoms
// table is where the property's author states that assumption) or Int (signed; comparisons only).
//
//	extract condexpr <spec.json> --repo DIR --out FILE.lean
//	spec: {"namespace": "Gen.C36", "defs": [
//	   {"file": "bitswap/server/internal/decision/engine.go", "func": "Engine.sendAsBlock", "pick": "return",
//	    "lean": "sendAsBlock", "result": "Bool",
//	    "atoms": [{"go": "wantType == pb.Message_Wantlist_Block", "lean": "isBlock", "type": "Bool"},
//	              {"go": "blockSize", "lean": "blockSize", "type": "Nat"}, …]}]}
//	pick: "return" | "if:<substring of the condition>" | "for:<substring>"

import (
	"bytes"
	"encoding/json"
	"fmt"
	"go/ast"
	"go/parser"
	"go/printer"
	"go/token"
	"os"
	"path/filepath"
	"strings"
)

func init() { registry["condexpr"] = runCondexpr }

type condAtom struct {
	Go   string `json:"go"`
	Lean string `json:"lean"`
	Type string `json:"type"`
}

type condSpec struct {
	Namespace string `json:"namespace"`
	Defs      []struct {
		File   string     `json:"file"`
		Func   string     `json:"func"`
		Pick   string     `json:"pick"`
		Lean   string     `json:"lean"`
		Result string     `json:"result"`
		Atoms  []condAtom `json:"atoms"`
	} `json:"defs"`
}

func exprText(fset *token.FileSet, e ast.Expr) string {
	var b bytes.Buffer
	printer.Fprint(&b, fset, e)
	return strings.Join(strings.Fields(b.String()), " ")
}

type condTrans struct {
	fset  *token.FileSet
	atoms map[string]condAtom
	used  map[string]bool
}

// tr returns the Lean text and its type ("Bool" | "Nat").
func (t *condTrans) tr(e ast.Expr) (string, string, error) {
	if a, ok := t.atoms[exprText(t.fset, e)]; ok {
		t.used[a.Lean] = true
		return a.Lean, a.Type, nil
	}
	switch x := e.(type) {
	case *ast.ParenExpr:
		s, ty, err := t.tr(x.X)
		return "(" + s + ")", ty, err
	case *ast.UnaryExpr:
		if x.Op == token.NOT {
			s, ty, err := t.tr(x.X)
			if err != nil || ty != "Bool" {
				return "", "", fmt.Errorf("operand of ! is not Bool: %s", exprText(t.fset, x.X))
			}
			return "(!" + s + ")", "Bool", nil
		}
	case *ast.CallExpr: // int(atom) / uint(atom): conversions between non-negative integers
		if id, ok := x.Fun.(*ast.Ident); ok && len(x.Args) == 1 && (id.Name == "int" || id.Name == "uint") {
			s, ty, err := t.tr(x.Args[0])
			if err == nil && ty == "Nat" {
				return s, "Nat", nil
			}
		}
	case *ast.BasicLit:
		if x.Kind == token.INT {
			return x.Value, "Nat", nil
		}
	case *ast.BinaryExpr:
		l, lt, err := t.tr(x.X)
		if err != nil {
			return "", "", err
		}
		r, rt, err := t.tr(x.Y)
		if err != nil {
			return "", "", err
		}
		switch x.Op {
		case token.LOR, token.LAND:
			if lt != "Bool" || rt != "Bool" {
				return "", "", fmt.Errorf("operands of %s are not Bool", x.Op)
			}
			return "(" + l + " " + map[token.Token]string{token.LOR: "||", token.LAND: "&&"}[x.Op] + " " + r + ")", "Bool", nil
		case token.EQL, token.NEQ, token.LSS, token.LEQ, token.GTR, token.GEQ:
			// an integer literal compared with a signed atom is a signed literal (`l.limit > 0`)
			if _, isLit := x.Y.(*ast.BasicLit); isLit && lt == "Int" && rt == "Nat" {
				r, rt = "("+r+" : Int)", "Int"
			}
			if _, isLit := x.X.(*ast.BasicLit); isLit && rt == "Int" && lt == "Nat" {
				l, lt = "("+l+" : Int)", "Int"
			}
			if lt != rt || (lt != "Nat" && lt != "Int") {
				return "", "", fmt.Errorf("operands of %s are not both Nat or both Int", x.Op)
			}
			op := map[token.Token]string{token.EQL: "=", token.NEQ: "≠", token.LSS: "<", token.LEQ: "≤", token.GTR: ">", token.GEQ: "≥"}[x.Op]
			return "decide (" + l + " " + op + " " + r + ")", "Bool", nil
		case token.ADD:
			if lt != "Nat" || rt != "Nat" {
				return "", "", fmt.Errorf("operands of + are not Nat")
			}
			return "(" + l + " + " + r + ")", "Nat", nil
		}
	}
	return "", "", fmt.Errorf("unsupported expression %q (not an atom of the spec, not a supported operator)", exprText(t.fset, e))
}

func runCondexpr(repo, out string, args []string) error {
	if len(args) != 1 {
		return fmt.Errorf("condexpr: want exactly one spec file")
	}
	raw, err := os.ReadFile(args[0])
	if err != nil {
		return err
	}
	var spec condSpec
	if err := json.Unmarshal(raw, &spec); err != nil {
		return err
	}
	var b strings.Builder
	fmt.Fprintf(&b, "/- GENERATED by `extract condexpr` from %s — do not edit. -/\nnamespace %s\n\n", filepath.Base(args[0]), spec.Namespace)
	for _, d := range spec.Defs {
		fset := token.NewFileSet()
		f, err := parser.ParseFile(fset, filepath.Join(repo, d.File), nil, 0)
		if err != nil {
			return err
		}
		recv, name := "", d.Func
		if i := strings.Index(d.Func, "."); i >= 0 {
			recv, name = d.Func[:i], d.Func[i+1:]
		}
		var fn *ast.FuncDecl
		for _, decl := range f.Decls {
			fd, ok := decl.(*ast.FuncDecl)
			if !ok || fd.Name.Name != name {
				continue
			}
			r := ""
			if fd.Recv != nil && len(fd.Recv.List) == 1 {
				r = strings.TrimPrefix(exprText(fset, fd.Recv.List[0].Type), "*")
			}
			if r == recv {
				fn = fd
			}
		}
		if fn == nil || fn.Body == nil {
			return fmt.Errorf("%s: function not found in %s", d.Func, d.File)
		}
		var picked []ast.Expr
		switch {
		case d.Pick == "return":
			if len(fn.Body.List) != 1 {
				return fmt.Errorf("%s: body is not a single return statement", d.Func)
			}
			rs, ok := fn.Body.List[0].(*ast.ReturnStmt)
			if !ok || len(rs.Results) != 1 {
				return fmt.Errorf("%s: body is not a single-value return", d.Func)
			}
			picked = append(picked, rs.Results[0])
		case strings.HasPrefix(d.Pick, "if:"), strings.HasPrefix(d.Pick, "for:"):
			want := d.Pick[strings.Index(d.Pick, ":")+1:]
			ast.Inspect(fn.Body, func(n ast.Node) bool {
				var c ast.Expr
				switch s := n.(type) {
				case *ast.IfStmt:
					if strings.HasPrefix(d.Pick, "if:") {
						c = s.Cond
					}
				case *ast.ForStmt:
					if strings.HasPrefix(d.Pick, "for:") {
						c = s.Cond
					}
				}
				if c != nil && strings.Contains(exprText(fset, c), want) {
					picked = append(picked, c)
				}
				return true
			})
		default:
			return fmt.Errorf("%s: bad pick %q", d.Func, d.Pick)
		}
		if len(picked) != 1 {
			return fmt.Errorf("%s: pick %q selects %d expressions, want exactly 1", d.Func, d.Pick, len(picked))
		}
		t := &condTrans{fset: fset, atoms: map[string]condAtom{}, used: map[string]bool{}}
		for _, a := range d.Atoms {
			t.atoms[strings.Join(strings.Fields(a.Go), " ")] = a
		}
		body, ty, err := t.tr(picked[0])
		if err != nil {
			return fmt.Errorf("%s: %v", d.Func, err)
		}
		if ty != d.Result {
			return fmt.Errorf("%s: expression has type %s, spec says %s", d.Func, ty, d.Result)
		}
		var params []string
		for _, a := range d.Atoms {
			if !t.used[a.Lean] {
				return fmt.Errorf("%s: atom %q no longer occurs in the expression", d.Func, a.Go)
			}
			params = append(params, fmt.Sprintf("(%s : %s)", a.Lean, a.Type))
		}
		fmt.Fprintf(&b, "/-- %s, %s:  %s -/\ndef %s %s : %s :=\n  %s\n\n", d.Func, d.Pick, exprText(fset, picked[0]), d.Lean, strings.Join(params, " "), d.Result, body)
	}
	fmt.Fprintf(&b, "end %s\n", spec.Namespace)
	return os.WriteFile(out, []byte(b.String()), 0o644)
}
