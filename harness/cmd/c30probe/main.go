package main

import (
	"bytes"
	"context"
	"fmt"
	"net/http/httptest"

	"github.com/ipfs/boxo/blockservice"
	"github.com/ipfs/boxo/blockstore"
	chunker "github.com/ipfs/boxo/chunker"
	"github.com/ipfs/boxo/exchange/offline"
	"github.com/ipfs/boxo/gateway"
	dag "github.com/ipfs/boxo/ipld/merkledag"
	"github.com/ipfs/boxo/ipld/unixfs/importer/balanced"
	h "github.com/ipfs/boxo/ipld/unixfs/importer/helpers"
	"github.com/ipfs/boxo/path"
	ds "github.com/ipfs/go-datastore"
	dssync "github.com/ipfs/go-datastore/sync"
	golog "github.com/ipfs/go-log/v2"
)

type localFetcher struct{ bb *gateway.BlocksBackend }

func (f *localFetcher) Fetch(ctx context.Context, p path.ImmutablePath, params gateway.CarParams, cb gateway.DataCallback) error {
	_, rc, err := f.bb.GetCAR(ctx, p, params)
	if err != nil {
		return err
	}
	defer rc.Close()
	return cb(p, rc)
}

func main() {
	golog.SetAllLoggers(golog.LevelFatal)
	bs := blockstore.NewBlockstore(dssync.MutexWrap(ds.NewMapDatastore()))
	bsvc := blockservice.New(bs, offline.Exchange(bs))
	dsv := dag.NewDAGService(bsvc)
	data := []byte("0123456789abcdefghijklmnopqrstuvwxyz")
	p, _ := dag.PrefixForCidVersion(1)
	params := h.DagBuilderParams{Maxlinks: 3, RawLeaves: true, CidBuilder: p, Dagserv: dsv}
	db, _ := params.New(chunker.NewSizeSplitter(bytes.NewReader(data), 4))
	nd, err := balanced.Layout(db)
	if err != nil {
		panic(err)
	}
	bb, _ := gateway.NewBlocksBackend(bsvc)
	cb, err := gateway.NewCarBackend(&localFetcher{bb})
	if err != nil {
		panic(err)
	}
	hd := gateway.NewHandler(gateway.Config{DeserializedResponses: true}, cb)
	do := func(method string, hdr map[string]string, q string) {
		req := httptest.NewRequest(method, "/ipfs/"+nd.Cid().String()+q, nil)
		for k, v := range hdr {
			req.Header.Set(k, v)
		}
		rec := httptest.NewRecorder()
		hd.ServeHTTP(rec, req)
		res := rec.Result()
		fmt.Printf("%s %v %s => %d CR=%q CL=%q body=%q\n", method, hdr, q, res.StatusCode, res.Header.Get("Content-Range"), res.Header.Get("Content-Length"), rec.Body.String())
	}
	do("HEAD", nil, "")
	for _, q := range []string{} {
		do("GET", nil, q)
		do("GET", map[string]string{"Range": "bytes=2-5"}, q)
		do("GET", map[string]string{"Range": "bytes=2-5", "If-Range": `"nomatch"`}, q)
		do("GET", map[string]string{"Range": "bytes=9999-,0-3"}, q)
		do("GET", map[string]string{"Range": "bytes=30-,0-3"}, q)
		do("GET", map[string]string{"Range": "bytes=-100"}, q)
		do("GET", map[string]string{"Range": "bytes=-5"}, q)
		do("GET", map[string]string{"Range": "bytes=5-30,0-30"}, q)
		do("GET", map[string]string{"Range": "bytes=36-"}, q)
		do("GET", map[string]string{"Range": "bytes=-0"}, q)
		do("GET", map[string]string{"Range": "bytes=20-25,1-3"}, q)
		do("HEAD", map[string]string{"Range": "bytes=2-5"}, q)
	}
}
