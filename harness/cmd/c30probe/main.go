package main

import (
	"bytes"
	"context"
	"fmt"
	"net/http/httptest"
	"os"
	"time"

	"github.com/ipfs/boxo/blockservice"
	"github.com/ipfs/boxo/blockstore"
	chunker "github.com/ipfs/boxo/chunker"
	"github.com/ipfs/boxo/exchange/offline"
	"github.com/ipfs/boxo/gateway"
	dag "github.com/ipfs/boxo/ipld/merkledag"
	"github.com/ipfs/boxo/ipld/unixfs/importer/balanced"
	h "github.com/ipfs/boxo/ipld/unixfs/importer/helpers"
	ds "github.com/ipfs/go-datastore"
	dssync "github.com/ipfs/go-datastore/sync"
)

func main() {
	bs := blockstore.NewBlockstore(dssync.MutexWrap(ds.NewMapDatastore()))
	bsvc := blockservice.New(bs, offline.Exchange(bs))
	dsv := dag.NewDAGService(bsvc)
	data := []byte("0123456789abcdefghijklmnopqrstuvwxyz")
	p, _ := dag.PrefixForCidVersion(1)
	params := h.DagBuilderParams{Maxlinks: 3, RawLeaves: true, CidBuilder: p, Dagserv: dsv}
	if len(os.Args) > 1 {
		params.FileModTime = time.Unix(1700000000, 0)
	}
	db, err := params.New(chunker.NewSizeSplitter(bytes.NewReader(data), 4))
	if err != nil {
		panic(err)
	}
	nd, err := balanced.Layout(db)
	if err != nil {
		panic(err)
	}
	backend, err := gateway.NewBlocksBackend(bsvc)
	if err != nil {
		panic(err)
	}
	hd := gateway.NewHandler(gateway.Config{DeserializedResponses: true}, backend)
	do := func(method string, hdr map[string]string) {
		req := httptest.NewRequest(method, "/ipfs/"+nd.Cid().String(), nil)
		req = req.WithContext(context.Background())
		for k, v := range hdr {
			req.Header.Set(k, v)
		}
		rec := httptest.NewRecorder()
		hd.ServeHTTP(rec, req)
		res := rec.Result()
		fmt.Printf("%s %v => %d CR=%q CL=%q etag=%q LM=%q body=%q\n", method, hdr, res.StatusCode, res.Header.Get("Content-Range"), res.Header.Get("Content-Length"), res.Header.Get("Etag"), res.Header.Get("Last-Modified"), rec.Body.String())
	}
	do("GET", nil)
	do("GET", map[string]string{"Range": "bytes=2-5"})
	do("GET", map[string]string{"Range": "bytes=2-5", "If-Range": `"nomatch"`})
	do("GET", map[string]string{"Range": "bytes=2-5", "If-Range": `"` + nd.Cid().String() + `"`})
	do("GET", map[string]string{"Range": "bytes=9999-,0-3"})
	do("GET", map[string]string{"Range": "bytes=30-,0-3"})
	do("GET", map[string]string{"Range": "bytes=-100"})
	do("GET", map[string]string{"Range": "bytes=-5"})
	do("GET", map[string]string{"Range": "bytes=5-30,0-30"})
	do("GET", map[string]string{"Range": "bytes=36-"})
	do("GET", map[string]string{"Range": "bytes=-0"})
	do("GET", map[string]string{"Range": "bytes=-0,3-4"})
	do("GET", map[string]string{"Range": "bytes=-3-"})
	do("GET", map[string]string{"Range": "bytes=5-2"})
	do("GET", map[string]string{"Range": "bytes= 4 - 6 "})
	do("GET", map[string]string{"Range": "bytes=,,4-6"})
	do("GET", map[string]string{"Range": "bytes=+4-6"})
	do("GET", map[string]string{"Range": "bytes=-+4"})
	do("GET", map[string]string{"Range": "bytes=-5", "If-Range": "x"})
	do("HEAD", map[string]string{"Range": "bytes=2-5"})
	do("HEAD", map[string]string{"Range": "bytes=-100"})
	do("GET", map[string]string{"Range": "items=2-5"})
	do("GET", map[string]string{"If-None-Match": `"` + nd.Cid().String() + `"`})
	do("GET", map[string]string{"If-Match": `"zzz"`, "Range": "bytes=4-5"})
	do("GET", map[string]string{"If-Unmodified-Since": "Mon, 02 Jan 2006 15:04:05 GMT", "Range": "bytes=4-5"})
	do("GET", map[string]string{"If-Modified-Since": "Mon, 02 Jan 2036 15:04:05 GMT", "Range": "bytes=4-5"})
	do("GET", map[string]string{"If-Range": "Tue, 14 Nov 2023 22:13:20 GMT", "Range": "bytes=4-5"})
	do("GET", map[string]string{"If-Range": "Tue, 14 Nov 2023 22:13:21 GMT", "Range": "bytes=4-5"})
}
