// C29 harness: drives the real namesys (publisher, resolver cache, recursive resolution) over an
// in-memory routing.ValueStore and a stub DNSLink lookup.
package main

import (
	"context"
	"errors"
	"fmt"
	"math"
	"os"
	"strconv"
	"strings"
	"sync"
	"time"

	"github.com/ipfs/boxo/ipns"
	"github.com/ipfs/boxo/namesys"
	"github.com/ipfs/boxo/path"
	"github.com/ipfs/go-cid"
	ds "github.com/ipfs/go-datastore"
	dssync "github.com/ipfs/go-datastore/sync"
	ic "github.com/libp2p/go-libp2p/core/crypto"
	"github.com/libp2p/go-libp2p/core/peer"
	"github.com/libp2p/go-libp2p/core/routing"
	mb "github.com/multiformats/go-multibase"
	mh "github.com/multiformats/go-multihash"

	"verifharness/vh"
)

// ---------------------------------------------------------------- fixtures

type detReader struct{ r *vh.Rand }

func (d detReader) Read(p []byte) (int, error) { copy(p, d.r.Bytes(len(p))); return len(p), nil }

const nKeys, nCids, nDNS = 5, 4, 3

var (
	keys     []ic.PrivKey
	names    []ipns.Name
	nameText [][3]string // textual forms of each name: base36 CIDv1 (canonical), base58 peer ID, base32 CIDv1
	cids     []string
	junk     []string
	tokOf    = map[string]string{} // root string -> token
)

func init() {
	os.Unsetenv("IPFS_NS_MAP")
	for i := 0; i < nKeys; i++ {
		sk, _, err := ic.GenerateEd25519Key(detReader{vh.NewRand(uint64(1000 + i))})
		if err != nil {
			panic(err)
		}
		pid, _ := peer.IDFromPrivateKey(sk)
		n := ipns.NameFromPeer(pid)
		b32, _ := n.Cid().StringOfBase(mb.Base32)
		keys = append(keys, sk)
		names = append(names, n)
		nameText = append(nameText, [3]string{n.String(), pid.String(), b32})
		for f, s := range nameText[i] {
			tokOf[s] = fmt.Sprintf("N%d.%d", i, f)
		}
	}
	for i := 0; i < nCids; i++ {
		h, _ := mh.Sum([]byte{byte(i)}, mh.SHA2_256, -1)
		c := cid.NewCidV1(cid.Raw, h).String()
		if i == 3 {
			c = cid.NewCidV0(h).String()
		}
		cids = append(cids, c)
		tokOf[c] = fmt.Sprintf("C%d", i)
	}
	for i := 0; i < nDNS; i++ {
		tokOf[fmt.Sprintf("d%d.example.com", i)] = fmt.Sprintf("D%d", i)
	}
	h512, _ := mh.Sum([]byte("x"), mh.SHA2_512, -1)
	junk = []string{strings.Repeat("a", 70), cid.NewCidV1(cid.Raw, h512).String()}
	for i, j := range junk {
		tokOf[j] = fmt.Sprintf("J%d", i)
	}
}

// token "N1.0/a/b/" -> real path string
func realPath(tok string) string {
	trail := strings.HasSuffix(tok, "/")
	parts := strings.Split(strings.TrimSuffix(tok, "/"), "/")
	root := parts[0]
	var s string
	idx := func(t string) int { return vh.Atoi(t) }
	switch root[0] {
	case 'N':
		kf := strings.Split(root[1:], ".")
		s = "/ipns/" + nameText[idx(kf[0])][idx(kf[1])]
	case 'C':
		s = "/ipfs/" + cids[idx(root[1:])]
	case 'D':
		s = fmt.Sprintf("/ipns/d%d.example.com", idx(root[1:]))
	case 'J':
		s = "/ipns/" + junk[idx(root[1:])]
	default:
		panic("bad path token " + tok)
	}
	for _, p := range parts[1:] {
		s += "/" + p
	}
	if trail {
		s += "/"
	}
	return s
}

func tokPath(p path.Path) string {
	if p == nil {
		return "nil"
	}
	s := p.String()
	trail := strings.HasSuffix(s, "/")
	segs := p.Segments()
	t, ok := tokOf[segs[1]]
	if !ok {
		t = "?" + segs[1]
	}
	out := strings.Join(append([]string{t}, segs[2:]...), "/")
	if trail {
		out += "/"
	}
	return out
}

func mustPath(tok string) path.Path {
	p, err := path.NewPath(realPath(tok))
	if err != nil {
		panic(fmt.Sprintf("path %s: %v", tok, err))
	}
	return p
}

// ---------------------------------------------------------------- in-memory routing.ValueStore

type memStore struct {
	mu         sync.Mutex
	m          map[string][]byte
	failPut    bool
	puts       int
	validating bool                     // keep the record with the higher sequence number (like a validating store)
	hold       map[string]chan struct{} // concurrent-publish ops: the put of publish "A"/"B" waits for this channel
}

var errPut = errors.New("injected put failure")

type whoKey struct{}

func whoOf(ctx context.Context) string {
	w, _ := ctx.Value(whoKey{}).(string)
	return w
}

func recSeq(raw []byte) (uint64, bool) {
	rec, err := ipns.UnmarshalRecord(raw)
	if err != nil {
		return 0, false
	}
	s, err := rec.Sequence()
	return s, err == nil
}

func (s *memStore) PutValue(ctx context.Context, k string, v []byte, _ ...routing.Option) error {
	s.mu.Lock()
	ch := s.hold[whoOf(ctx)]
	s.mu.Unlock()
	if ch != nil {
		<-ch
	}
	s.mu.Lock()
	defer s.mu.Unlock()
	if s.failPut {
		s.failPut = false
		return errPut
	}
	if old, ok := s.m[k]; ok && s.validating {
		if o, ok1 := recSeq(old); ok1 {
			if n, ok2 := recSeq(v); ok2 && n < o {
				return nil
			}
		}
	}
	s.m[k] = append([]byte(nil), v...)
	s.puts++
	return nil
}

// rvDS wraps the publisher's datastore. While armed (one concurrent-publish op) the Get of publish
// "A" signals its arrival and then waits up to `patience` for the Get of publish "B": a publisher
// that serialises read+write never lets B read while A is between its read and its write, so A just
// times out; one that reads outside its critical section lets both read the same record. Puts are
// logged (who, bytes): the true order of the writes.
type rvDS struct {
	ds.Datastore
	mu       sync.Mutex
	armed    bool
	aArrived chan struct{}
	bArrived chan struct{}
	log      []dsWrite
}

type dsWrite struct {
	who string
	raw []byte
}

const patience = 150 * time.Millisecond

func (d *rvDS) arm() {
	d.mu.Lock()
	defer d.mu.Unlock()
	d.armed, d.aArrived, d.bArrived, d.log = true, make(chan struct{}), make(chan struct{}), nil
}

func (d *rvDS) disarm() { d.mu.Lock(); d.armed = false; d.mu.Unlock() }

func (d *rvDS) Get(ctx context.Context, k ds.Key) ([]byte, error) {
	val, err := d.Datastore.Get(ctx, k)
	d.mu.Lock()
	armed, a, b := d.armed, d.aArrived, d.bArrived
	d.mu.Unlock()
	if armed {
		switch whoOf(ctx) {
		case "A":
			select {
			case <-a:
			default:
				close(a)
			}
			select {
			case <-b:
			case <-time.After(patience):
			}
		case "B":
			select {
			case <-b:
			default:
				close(b)
			}
		}
	}
	return val, err
}

func (d *rvDS) Put(ctx context.Context, k ds.Key, v []byte) error {
	d.mu.Lock()
	if d.armed {
		d.log = append(d.log, dsWrite{whoOf(ctx), append([]byte(nil), v...)})
	}
	d.mu.Unlock()
	return d.Datastore.Put(ctx, k, v)
}

func (s *memStore) GetValue(_ context.Context, k string, _ ...routing.Option) ([]byte, error) {
	s.mu.Lock()
	defer s.mu.Unlock()
	v, ok := s.m[k]
	if !ok {
		return nil, routing.ErrNotFound
	}
	return v, nil
}

func (s *memStore) SearchValue(ctx context.Context, k string, _ ...routing.Option) (<-chan []byte, error) {
	out := make(chan []byte, 1)
	if v, err := s.GetValue(ctx, k); err == nil {
		out <- v
	}
	close(out)
	return out, nil
}

// ---------------------------------------------------------------- generator

var segAlphabet = []string{"a", "b", "c", "index.html"}

func genRemainder(r *vh.Rand) string {
	s := ""
	for i, n := 0, vh.Pick(r, []int{0, 0, 0, 1, 1, 2}); i < n; i++ {
		s += "/" + vh.Pick(r, segAlphabet)
	}
	if r.Chance(1, 6) {
		s += "/"
	}
	return s
}

func genName(r *vh.Rand, nk int) string {
	f := vh.Pick(r, []int{0, 0, 0, 1, 2})
	return fmt.Sprintf("N%d.%d", r.Intn(nk), f)
}

func genTarget(r *vh.Rand, nk int) string {
	switch k := r.Intn(20); {
	case k < 8:
		return fmt.Sprintf("C%d", r.Intn(nCids)) + genRemainder(r)
	case k < 16:
		return genName(r, nk) + genRemainder(r)
	case k < 19:
		return fmt.Sprintf("D%d", r.Intn(nDNS)) + genRemainder(r)
	default:
		return fmt.Sprintf("J%d", r.Intn(2))
	}
}

var ttlChoices = []string{"0", "1", "1", "2", "3", "5", "10", "-1", "-"}
var bigSeqs = []uint64{math.MaxUint64, math.MaxUint64 - 1, 1 << 63, 1<<63 - 1}

func gen(r *vh.Rand, tier string, n int, emit func(vh.Case)) {
	r = vh.NewRand(r.U64()) // decorrelate consecutive seeds (vh.NewRand streams are shifts of one another)
	for i := 0; i < n; i++ {
		cr := r.Fork()
		c := vh.Case{ID: strconv.Itoa(i)}
		cache := vh.Pick(cr, []int{0, 0, 1, 2, 3, 8, 8})
		maxttl := vh.Pick(cr, []string{"-", "-", "-", "0", "-1", "1", "3", "10"})
		// a routing store that keeps the record with the higher sequence number (what a validating
		// store does); only with cache sizes that never evict, and without foreign writes
		vstore := (cache == 0 || cache == 8) && cr.Chance(1, 4)
		if vstore {
			c.Ops = append(c.Ops, fmt.Sprintf("ns %d %s v", cache, maxttl))
		} else {
			c.Ops = append(c.Ops, fmt.Sprintf("ns %d %s", cache, maxttl))
		}
		nk := 2 + cr.Intn(nKeys-1)
		nops := 8 + cr.Intn(25)
		if tier == "thorough" {
			nops = 8 + cr.Intn(60)
		}
		external := cr.Chance(1, 3) // cases with records written to the routing store by someone else
		// With a small cache (evictions) the LRU order depends on a benign race inside resolveAsync
		// (hop i's cache fill vs hop i+1's lookup run in different goroutines). Outputs are
		// independent of that order as long as every cached value agrees with the routing store /
		// DNS table, so these cases contain no source of legitimately stale entries: no external
		// puts, DNS entries set up front only, no negative publish TTL (record TTL 0, cached 1 min).
		small := cache > 0 && cache < 8
		pubTTLs := ttlChoices
		if small {
			external = false
			pubTTLs = []string{"0", "1", "1", "2", "3", "5", "10", "-"}
			for j, m := 0, cr.Intn(4); j < m; j++ {
				c.Ops = append(c.Ops, fmt.Sprintf("dns %d %s %s", cr.Intn(nDNS), genTarget(cr, nk), vh.Pick(cr, ttlChoices[:7])))
			}
		}
		if cr.Chance(1, 4) { // structured chain: node0 -> node1 -> … -> /ipfs/cid (or back to node0)
			nodes := []string{"N0.0", "N1.1", "N2.2", "N3.0", "N4.1", "D0", "D1", "D2"}
			for a := len(nodes) - 1; a > 0; a-- {
				b := cr.Intn(a + 1)
				nodes[a], nodes[b] = nodes[b], nodes[a]
			}
			l := 1 + cr.Intn(6)
			final := fmt.Sprintf("C%d", cr.Intn(nCids)) + genRemainder(cr)
			if cr.Chance(1, 5) {
				final = nodes[cr.Intn(l)] + genRemainder(cr) // a cycle
			}
			for h := l - 1; h >= 0; h-- {
				tgt := final
				if h < l-1 {
					tgt = nodes[h+1] + genRemainder(cr)
				}
				ttl := vh.Pick(cr, pubTTLs[:7])
				if nodes[h][0] == 'D' {
					c.Ops = append(c.Ops, fmt.Sprintf("dns %s %s %s", nodes[h][1:], tgt, ttl))
				} else if !small && cr.Chance(1, 2) {
					c.Ops = append(c.Ops, fmt.Sprintf("put %s %s %s %d", nodes[h][1:2], tgt, ttl, cr.Intn(4)))
				} else {
					c.Ops = append(c.Ops, fmt.Sprintf("publish %s %s %s -", nodes[h][1:2], tgt, ttl))
				}
			}
			depths := []string{"1", "2", "3", "4", "5", "6", "7", "-"}
			if final[0] == 'C' {
				// the chain just set up on a fresh name system ends in an immutable path: unlimited depth
				// (ResolveWithDepth(0)) terminates. Never generated where a cycle is possible.
				depths = append(depths, "0", "0")
			}
			for _, d := range depths {
				if cr.Chance(2, 3) {
					c.Ops = append(c.Ops, fmt.Sprintf("resolve %s %s", nodes[0]+genRemainder(cr), d))
				}
			}
			nk = nKeys
			nops /= 2
		}
		if vstore {
			external = false
		}
		// at most one pair of concurrent publishes per case (each costs the rendezvous patience)
		concAt := -1
		if cr.Chance(1, 14) {
			concAt = cr.Intn(nops)
		}
		lastPub := -1
		for j := 0; j < nops; j++ {
			if j == concAt {
				key := cr.Intn(nk)
				a, b := genTarget(cr, nk), genTarget(cr, nk)
				for b == a {
					b = genTarget(cr, nk)
				}
				sa, sb := "-", "-"
				switch cr.Intn(6) {
				case 0: // the same explicit sequence twice
					sa = strconv.Itoa(1 + cr.Intn(8))
					sb = sa
				case 1:
					sa, sb = strconv.Itoa(1+cr.Intn(8)), strconv.Itoa(1+cr.Intn(8))
				case 2:
					sa = strconv.Itoa(1 + cr.Intn(8))
				}
				mode := "seq"
				if vstore && cr.Chance(1, 3) {
					mode = "late"
				}
				c.Ops = append(c.Ops, fmt.Sprintf("cpublish %d %s %s %s %s %s %s %s", key, a, vh.Pick(cr, pubTTLs), sa, b, vh.Pick(cr, pubTTLs), sb, mode))
				c.Ops = append(c.Ops, fmt.Sprintf("resolve N%d.%d 1", key, cr.Intn(3)))
				lastPub = key
				continue
			}
			k := cr.Intn(100)
			if small && k >= 38 && k < 44 {
				k = 50
			}
			switch {
			case k < 34:
				key := cr.Intn(nk)
				seq := "-"
				if cr.Chance(1, 4) {
					seq = strconv.Itoa(cr.Intn(6))
					if cr.Chance(1, 5) {
						seq = strconv.FormatUint(vh.Pick(cr, bigSeqs), 10)
					}
				}
				c.Ops = append(c.Ops, fmt.Sprintf("publish %d %s %s %s", key, genTarget(cr, nk), vh.Pick(cr, pubTTLs), seq))
				lastPub = key
			case k < 38 && external:
				c.Ops = append(c.Ops, fmt.Sprintf("put %d %s %s %d", cr.Intn(nk), genTarget(cr, nk), vh.Pick(cr, ttlChoices[:8]), cr.Intn(6)))
			case k < 44:
				tgt := "-"
				if cr.Chance(5, 6) {
					tgt = genTarget(cr, nk)
				}
				c.Ops = append(c.Ops, fmt.Sprintf("dns %d %s %s", cr.Intn(nDNS), tgt, vh.Pick(cr, ttlChoices[:8])))
			case k < 46:
				c.Ops = append(c.Ops, "failput")
			default:
				var p string
				if lastPub >= 0 && cr.Chance(1, 3) { // resolve the name just published, in any textual form
					p = fmt.Sprintf("N%d.%d", lastPub, cr.Intn(3)) + genRemainder(cr)
				} else {
					p = genTarget(cr, nk)
				}
				d := vh.Pick(cr, []string{"1", "1", "2", "3", "4", "6", "7", "-"})
				c.Ops = append(c.Ops, fmt.Sprintf("resolve %s %s", p, d))
			}
		}
		emit(c)
	}
}

// ---------------------------------------------------------------- exec

func mins(s string) time.Duration { return time.Duration(vh.Atoi(s)) * time.Minute }

// TTLs are whole minutes in the generated cases; a cache hit reports the remaining lifetime, which is
// a little less: report minutes rounded up (a case never lasts a minute).
func ceilMin(d time.Duration) int64 {
	if d <= 0 {
		return int64(d / time.Minute)
	}
	return int64((d + time.Minute - 1) / time.Minute)
}

type dnsEntry struct {
	txt string
	ttl time.Duration
}

type truth struct { // what the monitor knows: latest value per name / domain and who wrote it
	val      map[int]string // key -> path token last written to the routing store
	ttl      map[int]time.Duration
	byNS     map[int]bool // last store write was a successful ns.Publish
	dns      map[int]dnsEntry
	dnsTok   map[int]string
	lastSeq  map[int]uint64
	haveSeq  map[int]bool
	lastVal  map[int]string
	external bool
	concLoser map[int]string // value of the concurrent publish that lost the serialisation
	cap      time.Duration // positive WithMaxCacheTTL: also caps reported TTLs
}

func exec(c vh.Case, o *vh.Out) {
	ctx := context.Background()
	var ns namesys.NameSystem
	var store *memStore
	var dstore *rvDS
	cacheSize := 0
	dnsMap := map[string]dnsEntry{}
	var dnsMu sync.Mutex
	tr := truth{val: map[int]string{}, ttl: map[int]time.Duration{}, byNS: map[int]bool{}, dns: map[int]dnsEntry{}, dnsTok: map[int]string{},
		lastSeq: map[int]uint64{}, haveSeq: map[int]bool{}, lastVal: map[int]string{}, concLoser: map[int]string{}}
	lookup := func(_ context.Context, name string) ([]string, time.Duration, error) {
		dnsMu.Lock()
		defer dnsMu.Unlock()
		e, ok := dnsMap[name]
		if !ok {
			return nil, 0, errors.New("stub: no such host")
		}
		return []string{e.txt}, e.ttl, nil
	}
	seqOf := func(raw []byte) string {
		rec, err := ipns.UnmarshalRecord(raw)
		if err != nil {
			return "?"
		}
		s, err := rec.Sequence()
		if err != nil {
			return "?"
		}
		return strconv.FormatUint(s, 10)
	}
	seqs := func(k int) string {
		d, s := "-", "-"
		if v, err := dstore.Get(ctx, namesys.IpnsDsKey(names[k])); err == nil {
			d = seqOf(v)
		}
		if v, err := store.GetValue(ctx, string(names[k].RoutingKey())); err == nil {
			s = seqOf(v)
		}
		return fmt.Sprintf("ds=%s st=%s", d, s)
	}
	for _, line := range c.Ops {
		f := strings.Fields(line)
		switch f[0] {
		case "ns":
			store = &memStore{m: map[string][]byte{}}
			dstore = &rvDS{Datastore: dssync.MutexWrap(ds.NewMapDatastore())}
			if len(f) > 3 && f[3] == "v" {
				store.validating = true
				o.Kind("validating-store")
			}
			opts := []namesys.Option{namesys.WithDatastore(dstore), namesys.WithDNSResolverWithTTL(lookup)}
			cacheSize = vh.Atoi(f[1])
			if cacheSize > 0 {
				opts = append(opts, namesys.WithCache(cacheSize))
			}
			if f[2] != "-" {
				opts = append(opts, namesys.WithMaxCacheTTL(mins(f[2])))
				tr.cap = max(0, mins(f[2]))
				o.Kind("maxttl")
			}
			var err error
			ns, err = namesys.NewNameSystem(store, opts...)
			if err != nil {
				panic(err)
			}
			o.Kind(fmt.Sprintf("cache%d", cacheSize))
			o.Emit("ok")
		case "publish":
			k := vh.Atoi(f[1])
			val := mustPath(f[2])
			var opts []namesys.PublishOption
			if f[3] != "-" {
				opts = append(opts, namesys.PublishWithTTL(mins(f[3])))
			}
			var explicit *uint64
			if f[4] != "-" {
				s, err := strconv.ParseUint(f[4], 10, 64)
				if err != nil {
					panic(err)
				}
				explicit = &s
				opts = append(opts, namesys.PublishWithSequence(s))
			}
			// current record as the publisher sees it (datastore first, then routing), before the call
			var cur *ipns.Record
			if v, err := dstore.Get(ctx, namesys.IpnsDsKey(names[k])); err == nil {
				cur, _ = ipns.UnmarshalRecord(v)
			} else if v, err := store.GetValue(ctx, string(names[k].RoutingKey())); err == nil {
				cur, _ = ipns.UnmarshalRecord(v)
			}
			err := ns.Publish(ctx, keys[k], val, opts...)
			res := "ok"
			switch {
			case err == nil:
			case errors.Is(err, namesys.ErrInvalidSequence):
				res = "badseq"
			case errors.Is(err, errPut):
				res = "puterr"
			default:
				res = "err:" + strings.ReplaceAll(err.Error(), " ", "_")
			}
			o.Kind("publish-" + res)
			// ---- monitor: sequence rule, evaluated on the publisher's own record (datastore)
			var newSeq uint64
			haveNew := false
			if v, e2 := dstore.Get(ctx, namesys.IpnsDsKey(names[k])); e2 == nil {
				if rec, e3 := ipns.UnmarshalRecord(v); e3 == nil {
					newSeq, _ = rec.Sequence()
					haveNew = true
				}
			}
			if cur != nil {
				curSeq, _ := cur.Sequence()
				curVal, _ := cur.Value()
				if haveNew && newSeq < curSeq {
					o.Fail("seq-decreased", "key %d: sequence %d -> %d (publish %s)", k, curSeq, newSeq, res)
				}
				if err == nil && curVal != nil && curVal.String() != val.String() && newSeq <= curSeq {
					o.Fail("seq-not-increased", "key %d: value changed, sequence %d -> %d", k, curSeq, newSeq)
				}
				if explicit != nil && *explicit <= curSeq && err == nil {
					o.Fail("stale-seq-accepted", "key %d: explicit sequence %d accepted over %d", k, *explicit, curSeq)
				}
				if curSeq == math.MaxUint64 {
					o.Kind("seq-at-max")
				}
			}
			if err == nil {
				tr.val[k], tr.byNS[k] = f[2], true
				delete(tr.concLoser, k)
				o.Nontrivial()
			}
			// ListPublished reports the publisher's own latest record of every name
			if haveNew {
				lp, lerr := namesys.NewIPNSPublisher(store, dstore).ListPublished(ctx)
				got, ok := lp[names[k]]
				if lerr != nil || !ok {
					o.Fail("list-published-mismatch", "ListPublished misses key %d (%v)", k, lerr)
				} else if gs, _ := got.Sequence(); gs != newSeq {
					o.Fail("list-published-mismatch", "ListPublished has sequence %d for key %d, datastore %d", gs, k, newSeq)
				}
			}
			o.Emit("%s %s", res, seqs(k))
		case "cpublish":
			// two publishes for one key in flight at once; see rvDS. mode seq: A is started first and B's
			// routing put is held until A returned (a serialising publisher = publish A; publish B);
			// mode late: A's routing put (and so its cache update) is held until B returned.
			k := vh.Atoi(f[1])
			mode := f[8]
			type req struct {
				tok      string
				val      path.Path
				opts     []namesys.PublishOption
				explicit *uint64
				err      error
			}
			mk := func(p, ttl, seq string) *req {
				r := &req{tok: p, val: mustPath(p)}
				if ttl != "-" {
					r.opts = append(r.opts, namesys.PublishWithTTL(mins(ttl)))
				}
				if seq != "-" {
					s, err := strconv.ParseUint(seq, 10, 64)
					if err != nil {
						panic(err)
					}
					r.explicit = &s
					r.opts = append(r.opts, namesys.PublishWithSequence(s))
				}
				return r
			}
			rs := map[string]*req{"A": mk(f[2], f[3], f[4]), "B": mk(f[5], f[6], f[7])}
			var cur *ipns.Record
			if v, err := dstore.Datastore.Get(ctx, namesys.IpnsDsKey(names[k])); err == nil {
				cur, _ = ipns.UnmarshalRecord(v)
			} else if v, err := store.GetValue(ctx, string(names[k].RoutingKey())); err == nil {
				cur, _ = ipns.UnmarshalRecord(v)
			}
			dstore.arm()
			doneA, doneB := make(chan struct{}), make(chan struct{})
			store.mu.Lock()
			if mode == "late" {
				store.hold = map[string]chan struct{}{"A": doneB}
			} else {
				store.hold = map[string]chan struct{}{"B": doneA}
			}
			store.mu.Unlock()
			run := func(w string, done chan struct{}) {
				defer close(done)
				rs[w].err = ns.Publish(context.WithValue(ctx, whoKey{}, w), keys[k], rs[w].val, rs[w].opts...)
			}
			go run("A", doneA)
			select {
			case <-dstore.aArrived:
			case <-doneA:
			}
			go run("B", doneB)
			<-doneA
			<-doneB
			dstore.disarm()
			store.mu.Lock()
			store.hold = nil
			store.mu.Unlock()
			cls := func(err error) string {
				switch {
				case err == nil:
					return "ok"
				case errors.Is(err, namesys.ErrInvalidSequence):
					return "badseq"
				case errors.Is(err, errPut):
					return "puterr"
				}
				return "err:" + strings.ReplaceAll(err.Error(), " ", "_")
			}
			// ---- monitor: the property's sequence clauses over the history of records actually written
			// (datastore write order), starting from the record current before the two publishes
			type st struct {
				seq uint64
				val string
				ok  bool
			}
			prev := st{}
			if cur != nil {
				prev.seq, _ = cur.Sequence()
				if v, err := cur.Value(); err == nil {
					prev.val = v.String()
				}
				prev.ok = true
			}
			states := []st{prev}
			for _, w := range dstore.log {
				rec, err := ipns.UnmarshalRecord(w.raw)
				if err != nil {
					continue
				}
				sq, _ := rec.Sequence()
				v, _ := rec.Value()
				if prev.ok {
					if sq < prev.seq {
						o.Fail("seq-decreased", "key %d: concurrent publish %s wrote sequence %d over %d", k, w.who, sq, prev.seq)
					}
					if v.String() != prev.val && sq <= prev.seq {
						o.Fail("seq-not-increased", "key %d: concurrent publish %s changed the value (%s) with sequence %d over %d", k, w.who, rs[w.who].tok, sq, prev.seq)
					}
					if e := rs[w.who].explicit; e != nil && *e <= prev.seq {
						o.Fail("stale-seq-accepted", "key %d: concurrent publish %s: explicit sequence %d accepted over %d", k, w.who, *e, prev.seq)
					}
				}
				prev = st{sq, v.String(), true}
				states = append(states, prev)
			}
			// a rejection must be justified at some point of that history
			for _, w := range []string{"A", "B"} {
				if !errors.Is(rs[w].err, namesys.ErrInvalidSequence) {
					continue
				}
				just := false
				for _, s := range states {
					e := rs[w].explicit
					switch {
					case e != nil && s.ok && *e <= s.seq, e != nil && !s.ok && *e == 0:
						just = true
					case e == nil && s.ok && s.seq == math.MaxUint64 && s.val != rs[w].val.String():
						just = true
					}
				}
				if !just {
					o.Fail("valid-seq-rejected", "key %d: concurrent publish %s rejected without reason", k, w)
				}
			}
			// what the name system now holds as last published (highest sequence) is "the published value"
			if len(dstore.log) > 0 {
				last := dstore.log[len(dstore.log)-1]
				if rs[last.who].err == nil {
					tr.val[k], tr.byNS[k] = rs[last.who].tok, true
					other := "A"
					if last.who == "A" {
						other = "B"
					}
					if rs[other].err == nil && rs[other].tok != rs[last.who].tok {
						tr.concLoser[k] = rs[other].tok
					}
				} else {
					tr.byNS[k] = false
				}
				o.Nontrivial()
			}
			o.Kind("cpublish-" + mode)
			o.Kind("cpublish-" + cls(rs["A"].err) + "-" + cls(rs["B"].err))
			o.Emit("%s %s %s", cls(rs["A"].err), cls(rs["B"].err), seqs(k))
		case "put":
			k := vh.Atoi(f[1])
			seq, _ := strconv.ParseUint(f[4], 10, 64)
			rec, err := ipns.NewRecord(keys[k], mustPath(f[2]), seq, time.Now().Add(48*time.Hour), mins(f[3]))
			if err != nil {
				panic(err)
			}
			raw, _ := ipns.MarshalRecord(rec)
			store.m[string(names[k].RoutingKey())] = raw
			tr.val[k], tr.byNS[k] = f[2], false
			delete(tr.concLoser, k)
			tr.external = true
			o.Kind("external-put")
			o.Emit("ok %s", seqs(k))
		case "dns":
			d := vh.Atoi(f[1])
			name := fmt.Sprintf("_dnslink.d%d.example.com.", d)
			dnsMu.Lock()
			if f[2] == "-" {
				delete(dnsMap, name)
				delete(tr.dnsTok, d)
			} else {
				dnsMap[name] = dnsEntry{txt: "dnslink=" + realPath(f[2]), ttl: mins(f[3])}
				tr.dnsTok[d] = f[2]
			}
			dnsMu.Unlock()
			tr.external = true // a DNS change is not seen through a warm cache either
			o.Kind("dns")
			o.Emit("ok")
		case "failput":
			store.failPut = true
			o.Emit("ok")
		case "resolve":
			p := mustPath(f[1])
			var opts []namesys.ResolveOption
			depth := uint(namesys.DefaultDepthLimit)
			if f[2] != "-" {
				depth = uint(vh.Atoi(f[2]))
				opts = append(opts, namesys.ResolveWithDepth(depth))
			}
			// Drain ResolveAsync completely with a context that is never cancelled: every hop's
			// goroutine then runs to completion, so the cache fill of each resolved hop is
			// deterministic (namesys.Resolve cancels on the first error and races with it).
			var res namesys.Result
			err := namesys.ErrResolveFailed
			done := false
			for r := range ns.ResolveAsync(ctx, p, opts...) {
				if done {
					continue
				}
				res.Path, res.TTL, res.LastMod, err = r.Path, r.TTL, r.LastMod, r.Err
				if err != nil {
					done = true
				}
			}
			if cacheSize == 0 { // without a cache there is no state: also run the synchronous entry point
				r2, err2 := ns.Resolve(ctx, p, opts...)
				if (err2 == nil) != (err == nil) || (err2 == nil && (r2.Path.String() != res.Path.String() || r2.TTL != res.TTL)) {
					o.Fail("resolve-vs-async", "Resolve and drained ResolveAsync differ: %v/%v", err, err2)
				}
				if f[2] == "-" { // the package-level helper (default options)
					r3, err3 := namesys.Resolve(ctx, ns, p)
					if (err3 == nil) != (err == nil) || (err3 == nil && r3.Path.String() != res.Path.String()) {
						o.Fail("resolve-vs-async", "namesys.Resolve differs: %v/%v", err, err3)
					}
				}
				// a chain of IPNS names only resolves identically through the stand-alone IPNS resolver
				// (same recursion helper, no cache, no TTL cap)
				if tr.cap == 0 && f[1][0] == 'N' && tr.namesOnly(f[1], depth, store) {
					ir := namesys.NewIPNSResolver(store)
					r4, err4 := ir.Resolve(ctx, p, opts...)
					if (err4 == nil) != (err == nil) || (err4 == nil && (r4.Path.String() != res.Path.String() || r4.TTL != res.TTL)) ||
						(err4 != nil && errors.Is(err4, namesys.ErrResolveRecursion) != errors.Is(err, namesys.ErrResolveRecursion)) {
						o.Fail("resolver-entry-points-differ", "IPNSResolver.Resolve %v/%v vs namesys %v/%v", r4.Path, err4, res.Path, err)
					}
					var last namesys.AsyncResult
					for r := range ir.ResolveAsync(ctx, p, opts...) {
						last = r
					}
					if (last.Err == nil) != (err == nil) {
						o.Fail("resolver-entry-points-differ", "IPNSResolver.ResolveAsync %v vs %v", last.Err, err)
					}
					o.Kind("ipns-resolver-compared")
				}
			}
			var out string
			switch {
			case err == nil:
				out = fmt.Sprintf("ok %s ttl=%d", tokPath(res.Path), ceilMin(res.TTL))
			case errors.Is(err, namesys.ErrResolveRecursion):
				out = fmt.Sprintf("recursion %s", tokPath(res.Path))
			case strings.HasPrefix(err.Error(), "DNSLink lookup for"):
				out = "dnserr"
			case errors.Is(err, namesys.ErrResolveFailed):
				out = "failed"
			case strings.HasPrefix(err.Error(), "cannot resolve:") || strings.HasPrefix(err.Error(), "peer ID represented as CIDv1"):
				out = "cannot"
			default:
				out = "err:" + strings.ReplaceAll(err.Error(), " ", "_")
			}
			o.Kind("resolve-" + strings.Fields(out)[0])
			// ---- monitor: publish-then-resolve. A depth-1 resolve reports the first hop (also in the
			// recursion error), which must be the value last published through this name system.
			root := strings.Split(strings.TrimSuffix(f[1], "/"), "/")[0]
			if depth == 1 && root[0] == 'N' && root == strings.TrimSuffix(f[1], "/") && !strings.HasSuffix(f[1], "/") {
				k := vh.Atoi(strings.Split(root[1:], ".")[0])
				if tr.byNS[k] {
					got := tokPath(res.Path)
					if got != canonTok(tr.val[k]) && got == tr.concLoser[k] {
						o.Fail("concurrent-publish-cache-loser", "resolve %s = %s: the value of the concurrent publish that was serialised FIRST; the record held as last published says %s", f[1], got, tr.val[k])
					} else if got != canonTok(tr.val[k]) {
						o.Fail("stale-after-publish", "resolve %s = %s (%v) but %s was published", f[1], got, err, tr.val[k])
					}
				}
			}
			// ---- monitor: chain semantics against the routing store, when no cache can interfere
			if cacheSize == 0 {
				want := tr.walk(f[1], depth, store)
				if want != "" && want != out {
					o.Fail("chain-mismatch", "resolve %s depth %d = %q, the store says %q", f[1], depth, out, want)
				}
			}
			o.Emit("%s", out)
		default:
			o.Emit("bad-op")
		}
	}
}

// canonTok normalises a path token the way path.NewPath prints it (nothing to do for generated tokens).
func canonTok(t string) string { return t }

// walk resolves a path token by following the latest values directly (the property's statement):
// final immutable path with the remainder appended, recursion error iff more than `depth` mutable
// hops, smallest non-zero TTL along the chain. Returns "" when the chain leaves the monitored part.
func (tr *truth) walk(tok string, depth uint, store *memStore) string {
	split := func(t string) (root string, rem []string, trail bool) {
		trail = strings.HasSuffix(t, "/")
		parts := strings.Split(strings.TrimSuffix(t, "/"), "/")
		return parts[0], parts[1:], trail
	}
	join := func(base string, rem []string, trail bool) string {
		if len(rem) == 0 && !trail {
			return base
		}
		b, brem, _ := split(base)
		s := strings.Join(append(append([]string{b}, brem...), rem...), "/")
		if trail {
			s += "/"
		}
		return s
	}
	cur := tok
	var ttls []time.Duration
	for hops := uint(0); ; hops++ {
		root, rem, trail := split(cur)
		if root[0] == 'C' {
			ttl := time.Duration(0)
			for i := len(ttls) - 1; i >= 0; i-- { // fold from the innermost hop outwards
				if i == len(ttls)-1 {
					ttl = ttls[i]
					if ttl < 0 {
						ttl = 0 // not reachable with non-negative generated TTLs; kept explicit
					}
					continue
				}
				a, b := ttls[i], ttl
				m := min(a, b)
				if m <= 0 {
					m = max(0, a, b)
				}
				ttl = m
			}
			return fmt.Sprintf("ok %s ttl=%d", cur, ceilMin(ttl))
		}
		if hops > 0 && depth != 0 && hops == depth {
			return "recursion " + cur
		}
		var next string
		var ttl time.Duration
		switch root[0] {
		case 'N':
			k := vh.Atoi(strings.Split(root[1:], ".")[0])
			raw, ok := store.m[string(names[k].RoutingKey())]
			if !ok {
				return "failed"
			}
			rec, err := ipns.UnmarshalRecord(raw)
			if err != nil {
				return ""
			}
			t, _ := rec.TTL()
			v, err := rec.Value()
			if err != nil {
				return ""
			}
			next, ttl = tokPath(v), max(0, t) // what the routing store holds, not what the harness thinks was written last
			if tr.cap > 0 && ttl > tr.cap {
				ttl = tr.cap
			}
		case 'D':
			d := vh.Atoi(root[1:])
			t, ok := tr.dnsTok[d]
			if !ok {
				return "dnserr"
			}
			_ = t
			return "" // DNS TTLs are not tracked by this monitor; the model covers DNS hops
		default:
			return "cannot"
		}
		ttls = append(ttls, ttl)
		cur = join(next, rem, trail)
		if hops > 64 {
			return ""
		}
	}
}

// namesOnly reports whether resolving tok touches only IPNS names that have a record (and ends in an
// immutable path or at the depth limit): then the stand-alone IPNS resolver must agree with namesys.
func (tr *truth) namesOnly(tok string, depth uint, store *memStore) bool {
	cur := tok
	for hops := uint(0); hops < 70; hops++ {
		root := strings.Split(strings.TrimSuffix(cur, "/"), "/")[0]
		if root[0] == 'C' {
			return true
		}
		if root[0] != 'N' {
			return false
		}
		if depth != 0 && hops == depth {
			return true
		}
		k := vh.Atoi(strings.Split(root[1:], ".")[0])
		raw, ok := store.m[string(names[k].RoutingKey())]
		if !ok {
			return false
		}
		rec, err := ipns.UnmarshalRecord(raw)
		if err != nil {
			return false
		}
		v, err := rec.Value()
		if err != nil {
			return false
		}
		cur = tokPath(v)
	}
	return false
}

func main() { vh.Main(vh.Config{Gen: gen, Exec: exec, CaseTimeout: 10 * time.Second}) }
