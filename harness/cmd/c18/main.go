// C18 harness: drives the real unixfs.FSNode (mode / mtime / size bookkeeping) through protobuf-go.
//
// Op lines (numbers decimal; data: hex, "-" = empty non-nil, "nil" = nil; time: "<sec> <nsec>" or "zero -"):
//
//	new <type>                NewFSNode
//	setdata <data> | addbs <u64> | rmbs <i> | rmallbs | updfs <int64>
//	setmode <u32 os.FileMode> | setunix <u32> | setext <u32>
//	setmtime <sec> <nsec> | setmtime zero -
//	reload                    n = FSNodeFromBytes(n.GetBytes())          -> ok | err
//	filepb <data> <total> <mode> <sec> <nsec> | folderpb <mode> <sec> <nsec> | wrap <data> |
//	symlink <data> | hamt <data> <fanout> <hashtype> <mode> <sec> <nsec>
//	                          bytes of the constructor; n = FSNodeFromBytes(bytes)  -> hex
//	filepb0 <data> <total> | folderpb0 | hamt0 <data> <fanout> <hashtype>   the constructors without stat
//	load <hex>                n = FSNodeFromBytes(hex) (foreign message: unknown fields are retained)  -> show | err
//	meta <mime> <size>        BytesForMetadata then MetadataFromBytes                  -> hex mime=<hex>
//	metadec <hex>             MetadataFromBytes on structured messages (stateless)      -> mime=<hex> | err
//	mode | ext | mtime | fsize | bytes | show | unwrap
//	dec <hex>                 FSNodeFromBytes on structured, possibly odd, messages (stateless) -> show | err
package main

import (
	"bytes"
	"fmt"
	"os"
	"strconv"
	"strings"
	"time"

	"github.com/ipfs/boxo/ipld/unixfs"
	pb "github.com/ipfs/boxo/ipld/unixfs/pb"
	"google.golang.org/protobuf/encoding/protowire"

	"verifharness/vh"
)

const permMask = uint32(os.ModePerm | os.ModeSetuid | os.ModeSetgid | os.ModeSticky)

var secs = []int64{0, 1, -1, 1 << 33, -(1 << 33), 1<<33 + 12345, -(1 << 33) - 7, 253402300799, -62135596800, -62135596801,
	-62135596799, 1700000000, 127, 128, -128, 1 << 31, 1<<32 - 1, 1 << 40, -(1 << 40)}
var nsecs = []int{0, 1, 999999999, 500000000, 2, 999999998, 123456789}

func timeTok(r *vh.Rand) string {
	if r.Chance(1, 8) {
		return "zero -"
	}
	s := vh.Pick(r, secs)
	if r.Chance(1, 3) {
		s = int64(r.Intn(1<<31)) - (1 << 30)
	}
	ns := vh.Pick(r, nsecs)
	if r.Chance(1, 4) {
		ns = r.Intn(1000000000)
	}
	return fmt.Sprintf("%d %d", s, ns)
}

func fileModeOf(perm12 uint32) uint32 { // unix 12 bits -> os.FileMode bits
	m := perm12 & 0x1FF
	if perm12&0x800 != 0 {
		m |= uint32(os.ModeSetuid)
	}
	if perm12&0x400 != 0 {
		m |= uint32(os.ModeSetgid)
	}
	if perm12&0x200 != 0 {
		m |= uint32(os.ModeSticky)
	}
	return m
}

var typeBits = []uint32{0, uint32(os.ModeDir), uint32(os.ModeSymlink), uint32(os.ModeNamedPipe), uint32(os.ModeDir | os.ModeTemporary), 0xFFFFFFFF &^ permMask}

func modeTok(r *vh.Rand) string {
	switch r.Intn(6) {
	case 0:
		return "0"
	case 1:
		return strconv.FormatUint(uint64(uint32(r.U64())), 10)
	case 2:
		return strconv.FormatUint(uint64(vh.Pick(r, typeBits)), 10) // type bits only: perms 0
	default:
		return strconv.FormatUint(uint64(fileModeOf(uint32(r.Intn(4096)))|vh.Pick(r, typeBits)), 10)
	}
}

func dataTok(r *vh.Rand) string {
	switch r.Intn(5) {
	case 0:
		return "nil"
	case 1:
		return "-"
	case 2:
		return vh.Hex(r.Bytes(126 + r.Intn(4)))
	default:
		return vh.Hex(r.Bytes(1 + r.Intn(12)))
	}
}

var u64s = []uint64{0, 1, 127, 128, 262144, 1 << 32, 1<<63 - 1, 1 << 63, 1<<64 - 1, 300}

func pbField(num int, wt protowire.Type, payload []byte) []byte {
	return append(protowire.AppendTag(nil, protowire.Number(num), wt), payload...)
}

func genMsg(r *vh.Rand, nestedUnknown bool) []byte {
	var parts [][]byte
	vint := func(num int, v uint64) []byte { return pbField(num, 0, protowire.AppendVarint(nil, v)) }
	if !r.Chance(1, 10) {
		parts = append(parts, vint(1, uint64(vh.Pick(r, []int{0, 1, 2, 3, 4, 5, 2, 2, 7, 1 << 33}))))
	}
	if r.Bool() {
		parts = append(parts, pbField(2, 2, protowire.AppendBytes(nil, r.Bytes(r.Intn(4)))))
	}
	if r.Bool() {
		parts = append(parts, vint(3, vh.Pick(r, u64s)))
	}
	switch r.Intn(4) {
	case 0:
		for i, k := 0, r.Intn(4); i < k; i++ {
			parts = append(parts, vint(4, vh.Pick(r, u64s)))
		}
	case 1: // packed
		var p []byte
		for i, k := 0, r.Intn(4); i < k; i++ {
			p = protowire.AppendVarint(p, vh.Pick(r, u64s))
		}
		parts = append(parts, pbField(4, 2, protowire.AppendBytes(nil, p)))
	}
	if r.Chance(1, 3) {
		parts = append(parts, vint(5, vh.Pick(r, u64s)), vint(6, vh.Pick(r, u64s)))
	}
	if r.Bool() {
		parts = append(parts, vint(7, vh.Pick(r, []uint64{0, 0644, 04755, 0xFFF, 0x1000, 0xFFFFFFFF, 1<<32 + 0755, 01000})))
	}
	if r.Bool() {
		var m []byte
		if !r.Chance(1, 8) {
			m = append(m, vint(1, uint64(vh.Pick(r, secs)))...)
		}
		if r.Bool() {
			ns := uint32(vh.Pick(r, []int{0, 1, 999999999, 1000000000, 4294967295, 5}))
			m = append(m, pbField(2, 5, protowire.AppendFixed32(nil, ns))...)
		}
		if r.Chance(1, 10) {
			m = append(m, vint(1, uint64(vh.Pick(r, secs)))...) // duplicate seconds: last wins
		}
		if nestedUnknown && r.Chance(1, 10) {
			m = append(m, vint(3, 9)...) // unknown field in the timestamp
		}
		parts = append(parts, pbField(8, 2, protowire.AppendBytes(nil, m)))
		if r.Chance(1, 10) { // second mtime message: merged
			parts = append(parts, pbField(8, 2, protowire.AppendBytes(nil, pbField(2, 5, protowire.AppendFixed32(nil, 77)))))
		}
	}
	switch r.Intn(12) {
	case 0:
		for i := range parts {
			j := r.Intn(i + 1)
			parts[i], parts[j] = parts[j], parts[i]
		}
	case 1:
		if len(parts) > 0 {
			parts = append(parts, vh.Pick(r, parts))
		}
	case 2: // known number, other wire type -> unknown field
		parts = append(parts, pbField(1+r.Intn(8), 5, []byte{1, 2, 3, 4}))
	case 3:
		parts = append(parts, vint(9+r.Intn(30), 1))
	case 4:
		b := bytes.Join(parts, nil)
		if len(b) > 0 {
			return b[:r.Intn(len(b))]
		}
	}
	return bytes.Join(parts, nil)
}

// genMeta: a Data message of type Metadata (sometimes another type / odd inner message)
func genMeta(r *vh.Rand) []byte {
	var inner []byte
	switch r.Intn(5) {
	case 0:
	case 1:
		inner = pbField(1, 2, protowire.AppendBytes(nil, r.Bytes(r.Intn(6))))
		inner = append(inner, pbField(1, 2, protowire.AppendBytes(nil, []byte("second")))...) // last wins
	case 2:
		inner = pbField(1, 0, []byte{5}) // wrong wire type: ignored
	case 3:
		inner = []byte{0x0a, 9, 1} // truncated
	default:
		inner = pbField(1, 2, protowire.AppendBytes(nil, []byte(vh.Pick(r, []string{"text/plain", "", "\xff\xfe", "a"}))))
	}
	var b []byte
	b = append(b, pbField(1, 0, protowire.AppendVarint(nil, uint64(vh.Pick(r, []int{3, 3, 3, 2, 1}))))...)
	if !r.Chance(1, 6) {
		b = append(b, pbField(2, 2, protowire.AppendBytes(nil, inner))...)
	}
	if r.Bool() {
		b = append(b, pbField(3, 0, protowire.AppendVarint(nil, vh.Pick(r, u64s)))...)
	}
	return b
}

func gen(r *vh.Rand, tier string, n int, emit func(vh.Case)) {
	// exhaustive sweep of the 4096 unix permission values (32 per case), node types cycling
	for i := 0; i < 128; i++ {
		c := vh.Case{ID: "perm" + strconv.Itoa(i)}
		c.Ops = append(c.Ops, "new "+strconv.Itoa([]int{2, 1, 4, 0, 5, 3}[i%6]))
		for p := 32 * i; p < 32*i+32; p++ {
			ext := vh.Pick(r, typeBits)
			c.Ops = append(c.Ops, "setmode "+strconv.FormatUint(uint64(fileModeOf(uint32(p))|ext), 10), "mode", "reload", "mode")
		}
		emit(c)
	}
	for i := 0; i < n; i++ {
		c := vh.Case{ID: strconv.Itoa(i)}
		if r.Chance(1, 8) {
			for j, m := 0, 1+r.Intn(6); j < m; j++ {
				c.Ops = append(c.Ops, "dec "+vh.Hex(genMsg(r, true)))
				if r.Chance(1, 4) {
					c.Ops = append(c.Ops, "metadec "+vh.Hex(genMeta(r)))
				}
			}
			emit(c)
			continue
		}
		if r.Chance(1, 7) {
			// a foreign message (unknown fields, odd order, duplicates) becomes the node, then the API is used
			c.Ops = append(c.Ops, "load "+vh.Hex(genMsg(r, false)))
		} else {
			c.Ops = append(c.Ops, "new "+strconv.Itoa(vh.Pick(r, []int{2, 2, 0, 1, 4, 5, 3})))
		}
		nbs := 0
		for j, m := 0, 3+r.Intn(18); j < m; j++ {
			switch r.Intn(24) {
			case 0, 1:
				c.Ops = append(c.Ops, "setdata "+dataTok(r))
			case 2, 3:
				c.Ops = append(c.Ops, "addbs "+strconv.FormatUint(vh.Pick(r, u64s), 10))
				nbs++
			case 4:
				if nbs > 0 {
					c.Ops = append(c.Ops, "rmbs "+strconv.Itoa(r.Intn(nbs)))
					nbs--
				}
			case 5:
				if r.Chance(1, 3) {
					c.Ops = append(c.Ops, "rmallbs")
					nbs = 0
				}
			case 6:
				if r.Chance(1, 4) {
					c.Ops = append(c.Ops, "updfs "+strconv.FormatInt(int64(r.Intn(2000))-1000, 10))
				}
			case 7, 8, 9:
				c.Ops = append(c.Ops, "setmode "+modeTok(r))
			case 10:
				c.Ops = append(c.Ops, "setunix "+strconv.Itoa(vh.Pick(r, []int{0, 0644, 07777, 01000, 0x1644, 4096, r.Intn(1 << 13)})))
			case 11:
				c.Ops = append(c.Ops, "setext "+strconv.FormatUint(uint64(vh.Pick(r, []uint32{0, 1, 0xFFFFF, 0x100000, 0xABCDE, uint32(r.U64())})), 10))
			case 12, 13, 14:
				c.Ops = append(c.Ops, "setmtime "+timeTok(r))
			case 15, 16:
				c.Ops = append(c.Ops, "reload")
			case 17:
				switch r.Intn(9) {
				case 5:
					c.Ops = append(c.Ops, fmt.Sprintf("filepb0 %s %d", dataTok(r), vh.Pick(r, u64s)))
				case 6:
					c.Ops = append(c.Ops, vh.Pick(r, []string{"folderpb0", fmt.Sprintf("hamt0 %s %d %d", dataTok(r), vh.Pick(r, u64s), vh.Pick(r, u64s))}))
				case 7:
					c.Ops = append(c.Ops, fmt.Sprintf("meta %s %d", dataTok(r), vh.Pick(r, u64s)))
				case 8:
					c.Ops = append(c.Ops, "load "+vh.Hex(genMsg(r, false)))
				case 0:
					c.Ops = append(c.Ops, fmt.Sprintf("filepb %s %d %s %s", dataTok(r), vh.Pick(r, u64s), modeTok(r), timeTok(r)))
				case 1:
					c.Ops = append(c.Ops, fmt.Sprintf("folderpb %s %s", modeTok(r), timeTok(r)))
				case 2:
					c.Ops = append(c.Ops, "wrap "+dataTok(r))
				case 3:
					c.Ops = append(c.Ops, "symlink "+dataTok(r))
				default:
					c.Ops = append(c.Ops, fmt.Sprintf("hamt %s %d %d %s %s", dataTok(r), vh.Pick(r, u64s), vh.Pick(r, u64s), modeTok(r), timeTok(r)))
				}
				nbs = 0
			case 18:
				c.Ops = append(c.Ops, "mode", "ext")
			case 19:
				c.Ops = append(c.Ops, "mtime")
			case 20, 21:
				c.Ops = append(c.Ops, "fsize")
			case 22:
				c.Ops = append(c.Ops, vh.Pick(r, []string{"bytes", "bytes", "unwrap"}))
			default:
				c.Ops = append(c.Ops, "show")
			}
		}
		c.Ops = append(c.Ops, "reload", "mode", "ext", "mtime", "fsize", "show")
		emit(c)
	}
}

// ---- exec -----------------------------------------------------------------------------------

func parseData(t string) []byte {
	if t == "nil" {
		return nil
	}
	return vh.UnHex(t)
}

func showData(b []byte) string {
	if b == nil {
		return "nil"
	}
	return vh.Hex(b)
}

func parseTime(a, b string) time.Time {
	if a == "zero" {
		return time.Time{}
	}
	s, err := strconv.ParseInt(a, 10, 64)
	if err != nil {
		panic(err)
	}
	return time.Unix(s, int64(vh.Atoi(b)))
}

func showTime(t time.Time) string {
	if t.IsZero() {
		return "zero"
	}
	return fmt.Sprintf("%d %d", t.Unix(), t.Nanosecond())
}

func u32(t string) uint32 {
	v, err := strconv.ParseUint(t, 10, 32)
	if err != nil {
		panic(err)
	}
	return uint32(v)
}

func u64(t string) uint64 {
	v, err := strconv.ParseUint(t, 10, 64)
	if err != nil {
		panic(err)
	}
	return v
}

func show(n *unixfs.FSNode) string {
	bs := make([]string, len(n.BlockSizes()))
	for i, b := range n.BlockSizes() {
		bs[i] = strconv.FormatUint(b, 10)
	}
	return fmt.Sprintf("type=%d dir=%v data=%s bs=[%s] ht=%d fo=%d mode=%d ext=%d mtime=%s fsize=%d",
		int32(n.Type()), n.IsDir(), showData(n.Data()), strings.Join(bs, ","), n.HashType(), n.Fanout(), uint32(n.Mode()), n.ExtendedMode(),
		strings.ReplaceAll(showTime(n.ModTime()), " ", "."), n.FileSize())
}

type st struct {
	n *unixfs.FSNode
	// shadow of the property's content length: tracked while the node was only edited through
	// SetData / AddBlockSize / RemoveBlockSize / RemoveAllBlockSizes since NewFSNode
	tracked bool
	dataLen uint64
	blocks  []uint64
}

func (s *st) content() uint64 {
	t := s.dataLen
	for _, b := range s.blocks {
		t += b
	}
	return t
}

func roundtrip(o *vh.Out, n *unixfs.FSNode) *unixfs.FSNode {
	b, err := n.GetBytes()
	if err != nil {
		o.Fail("getbytes-error", "GetBytes: %v", err)
		return nil
	}
	m, err := unixfs.FSNodeFromBytes(b)
	if err != nil {
		o.Fail("decode-own-encoding", "FSNodeFromBytes(GetBytes()): %v", err)
		return nil
	}
	return m
}

func checkMode(o *vh.Out, m *unixfs.FSNode, mode uint32, what string) {
	if got := uint32(m.Mode()) & permMask; got != mode&permMask {
		o.Fail("mode-roundtrip", "%s: set %#o, read back permission bits %#o", what, mode&permMask, got)
	}
}

func checkTime(o *vh.Out, m *unixfs.FSNode, t time.Time, what string) {
	got := m.ModTime()
	if t.IsZero() {
		if !got.IsZero() {
			o.Fail("mtime-roundtrip-zero", "%s: set zero time, read back %v", what, got)
		}
	} else if !got.Equal(t) {
		o.Fail("mtime-roundtrip", "%s: set %v, read back %v", what, t.UTC(), got.UTC())
	}
}

func (s *st) load(o *vh.Out, b []byte, mode uint32, t time.Time, withStat bool, what string) {
	o.Kind(what)
	m, err := unixfs.FSNodeFromBytes(b)
	if err != nil {
		o.Fail("decode-constructor", "%s: FSNodeFromBytes: %v", what, err)
		o.Emit("err")
		return
	}
	if withStat {
		checkMode(o, m, mode, what)
		checkTime(o, m, t, what)
	}
	if ds, err := unixfs.DataSize(b); err == nil && ds != m.FileSize() {
		o.Fail("datasize-vs-filesize", "%s: DataSize=%d FileSize=%d", what, ds, m.FileSize())
	}
	s.n, s.tracked = m, false
	o.Emit("%s", vh.Hex(b))
}

func exec(c vh.Case, o *vh.Out) {
	s := &st{n: unixfs.NewFSNode(pb.Data_File), tracked: true}
	sets := 0
	for _, line := range c.Ops {
		f := strings.Fields(line)
		switch f[0] {
		case "new":
			s.n = unixfs.NewFSNode(pb.Data_DataType(vh.Atoi(f[1])))
			s.tracked, s.dataLen, s.blocks = true, 0, nil
			o.Kind("type" + f[1])
			o.Emit("ok")
		case "setdata":
			d := parseData(f[1])
			s.n.SetData(d)
			s.dataLen = uint64(len(d))
			o.Emit("ok")
		case "addbs":
			v := u64(f[1])
			s.n.AddBlockSize(v)
			s.blocks = append(s.blocks, v)
			o.Emit("ok")
		case "rmbs":
			i := vh.Atoi(f[1])
			if i >= s.n.NumChildren() {
				o.Emit("skip")
				break
			}
			s.n.RemoveBlockSize(i)
			if s.tracked {
				s.blocks = append(s.blocks[:i:i], s.blocks[i+1:]...)
			}
			o.Emit("ok")
		case "rmallbs":
			s.n.RemoveAllBlockSizes()
			s.blocks = nil
			if !s.tracked { // RemoveAllBlockSizes re-derives the size from the data: tracking restarts
				s.tracked, s.dataLen = true, uint64(len(s.n.Data()))
			}
			o.Emit("ok")
		case "updfs":
			d, _ := strconv.ParseInt(f[1], 10, 64)
			s.n.UpdateFilesize(d)
			s.tracked = false
			o.Kind("updfs")
			o.Emit("ok")
		case "setmode":
			m := u32(f[1])
			ext := s.n.ExtendedMode()
			s.n.SetMode(os.FileMode(m))
			if r := roundtrip(o, s.n); r != nil {
				checkMode(o, r, m, "SetMode")
				if r.ExtendedMode() != ext {
					o.Fail("ext-lost", "SetMode changed the extended bits %#x -> %#x", ext, r.ExtendedMode())
				}
			}
			sets++
			if m&permMask != 0 {
				o.Kind("perm-nonzero")
			} else {
				o.Kind("perm-zero")
			}
			o.Emit("ok")
		case "setunix":
			s.n.SetModeFromUnixPermissions(u32(f[1]))
			o.Emit("ok")
		case "setext":
			before := uint32(s.n.Mode())
			s.n.SetExtendedMode(u32(f[1]))
			if r := roundtrip(o, s.n); r != nil {
				if uint32(r.Mode()) != before {
					o.Fail("perm-lost", "SetExtendedMode changed Mode() %#o -> %#o", before, uint32(r.Mode()))
				}
				if r.ExtendedMode() != u32(f[1])&0xFFFFF {
					o.Fail("ext-roundtrip", "SetExtendedMode(%#x) read back %#x", u32(f[1]), r.ExtendedMode())
				}
			}
			o.Kind("setext")
			o.Emit("ok")
		case "setmtime":
			t := parseTime(f[1], f[2])
			s.n.SetModTime(t)
			if r := roundtrip(o, s.n); r != nil {
				checkTime(o, r, t, "SetModTime")
			}
			sets++
			switch {
			case t.IsZero():
				o.Kind("mtime-zero")
			case t.Unix() < 0:
				o.Kind("mtime-negative")
			default:
				o.Kind("mtime-positive")
			}
			if t.Nanosecond() > 0 {
				o.Kind("mtime-nanos")
			}
			o.Emit("ok")
		case "reload":
			if r := roundtrip(o, s.n); r != nil {
				s.n = r
				o.Emit("ok")
			} else {
				o.Emit("err")
			}
		case "filepb":
			d, m, t := parseData(f[1]), u32(f[3]), parseTime(f[4], f[5])
			s.load(o, unixfs.FilePBDataWithStat(d, u64(f[2]), os.FileMode(m), t), m, t, true, "filepb")
		case "folderpb":
			m, t := u32(f[1]), parseTime(f[2], f[3])
			s.load(o, unixfs.FolderPBDataWithStat(os.FileMode(m), t), m, t, true, "folderpb")
		case "wrap":
			d := parseData(f[1])
			s.load(o, unixfs.WrapData(d), 0, time.Time{}, false, "wrap")
			if s.n.FileSize() != uint64(len(d)) {
				o.Fail("filesize-mismatch", "WrapData of %d bytes: FileSize=%d", len(d), s.n.FileSize())
			}
		case "symlink":
			d := parseData(f[1])
			b, _ := unixfs.SymlinkData(string(d))
			s.load(o, b, 0, time.Time{}, false, "symlink")
			if s.n.FileSize() != uint64(len(d)) {
				o.Fail("filesize-mismatch", "SymlinkData of %d bytes: FileSize=%d", len(d), s.n.FileSize())
			}
		case "hamt":
			d, m, t := parseData(f[1]), u32(f[4]), parseTime(f[5], f[6])
			b, _ := unixfs.HAMTShardDataWithStat(d, u64(f[2]), u64(f[3]), os.FileMode(m), t)
			s.load(o, b, m, t, true, "hamt")
		case "filepb0":
			s.load(o, unixfs.FilePBData(parseData(f[1]), u64(f[2])), 0, time.Time{}, true, "filepb0")
		case "folderpb0":
			s.load(o, unixfs.FolderPBData(), 0, time.Time{}, true, "folderpb0")
		case "hamt0":
			b, _ := unixfs.HAMTShardData(parseData(f[1]), u64(f[2]), u64(f[3]))
			s.load(o, b, 0, time.Time{}, true, "hamt0")
		case "load":
			m, err := unixfs.FSNodeFromBytes(vh.UnHex(f[1]))
			if err != nil {
				o.Kind("load-err")
				o.Emit("err")
				break
			}
			// retention: what was loaded is re-emitted; unknown fields must survive the round trip
			if b, err := m.GetBytes(); err == nil {
				if m2, err := unixfs.FSNodeFromBytes(b); err != nil {
					o.Fail("decode-own-encoding", "FSNodeFromBytes(GetBytes()) of a loaded node: %v", err)
				} else if b2, _ := m2.GetBytes(); !bytes.Equal(b, b2) {
					o.Fail("reencode-not-stable", "GetBytes not stable across a reload: %x vs %x", b, b2)
				}
			}
			s.n, s.tracked = m, false
			o.Kind("load-ok")
			o.Emit("%s", show(m))
		case "meta":
			mime := parseData(f[1])
			b, err := unixfs.BytesForMetadata(&unixfs.Metadata{MimeType: string(mime), Size: u64(f[2])})
			if err != nil {
				o.Emit("err")
				break
			}
			md, err := unixfs.MetadataFromBytes(b)
			if err != nil {
				o.Fail("metadata-roundtrip", "MetadataFromBytes(BytesForMetadata(..)): %v", err)
				o.Emit("err")
				break
			}
			if md.MimeType != string(mime) {
				o.Fail("metadata-roundtrip", "MimeType %q read back as %q", mime, md.MimeType)
			}
			o.Kind("meta")
			o.Emit("%s mime=%s", vh.Hex(b), vh.Hex([]byte(md.MimeType)))
		case "metadec":
			md, err := unixfs.MetadataFromBytes(vh.UnHex(f[1]))
			if err != nil {
				o.Kind("metadec-err")
				o.Emit("err")
			} else {
				o.Kind("metadec-ok")
				o.Emit("mime=%s", vh.Hex([]byte(md.MimeType)))
			}
		case "unwrap":
			b, _ := s.n.GetBytes()
			d, err := unixfs.UnwrapData(b)
			if err != nil {
				o.Emit("err")
			} else {
				if !bytes.Equal(d, s.n.Data()) {
					o.Fail("unwrap-mismatch", "UnwrapData(GetBytes()) differs from Data()")
				}
				o.Emit("%s", showData(d))
			}
		case "mode":
			o.Emit("%d", uint32(s.n.Mode()))
		case "ext":
			o.Emit("%d", s.n.ExtendedMode())
		case "mtime":
			o.Emit("%s", showTime(s.n.ModTime()))
		case "fsize":
			got := s.n.FileSize()
			switch s.n.Type() {
			case pb.Data_File, pb.Data_Raw:
				if s.tracked {
					if got != s.content() {
						o.Fail("filesize-mismatch", "FileSize=%d, content length (data + block sizes) = %d", got, s.content())
					}
					o.Kind("fsize-tracked")
				}
			case pb.Data_Symlink:
				if got != uint64(len(s.n.Data())) {
					o.Fail("filesize-mismatch", "symlink FileSize=%d, target length %d", got, len(s.n.Data()))
				}
				o.Kind("fsize-symlink")
			}
			if r := roundtrip(o, s.n); r != nil && r.FileSize() != got {
				o.Fail("filesize-roundtrip", "FileSize %d, after serialization %d", got, r.FileSize())
			}
			if sets >= 1 {
				o.Nontrivial()
			}
			o.Emit("%d", got)
		case "bytes":
			b, err := s.n.GetBytes()
			if err != nil {
				o.Emit("err")
			} else {
				o.Emit("%s", vh.Hex(b))
			}
		case "show":
			o.Emit("%s", show(s.n))
		case "dec":
			m, err := unixfs.FSNodeFromBytes(vh.UnHex(f[1]))
			if err != nil {
				o.Kind("dec-err")
				o.Emit("err")
			} else {
				o.Kind("dec-ok")
				o.Emit("%s", show(m))
			}
		default:
			o.Emit("bad-op")
		}
	}
}

func main() { vh.Main(vh.Config{Gen: gen, Exec: exec}) }
