// C13 harness: drives the real dag/walker (WalkDAG, WalkEntityRoots, MapTracker, cid.Set, BloomTracker)
// over real dag-pb / dag-cbor / raw blocks in a real blockstore.
//
// Op lines (see lean/Drivers/C13.lean): node / tracker / walk / has / bnew / bvisit / bhas / brange.
// A CID token is <node><view>: a = CIDv0, b = CIDv1 with the node's codec, r = CIDv1 raw over the same
// multihash; its number is 3*node+view.
package main

import (
	"bytes"
	"context"
	crand "crypto/rand"
	"crypto/sha256"
	"encoding/binary"
	"fmt"
	"io"
	"reflect"
	"strconv"
	"strings"

	blockstore "github.com/ipfs/boxo/blockstore"
	"github.com/ipfs/boxo/dag/walker"
	"github.com/ipfs/boxo/ipld/merkledag"
	ft "github.com/ipfs/boxo/ipld/unixfs"
	pb "github.com/ipfs/boxo/ipld/unixfs/pb"
	blocks "github.com/ipfs/go-block-format"
	cid "github.com/ipfs/go-cid"
	ds "github.com/ipfs/go-datastore"
	dssync "github.com/ipfs/go-datastore/sync"
	format "github.com/ipfs/go-ipld-format"
	logging "github.com/ipfs/go-log/v2"
	_ "github.com/ipld/go-codec-dagpb"
	ipld "github.com/ipld/go-ipld-prime"
	"github.com/ipld/go-ipld-prime/codec/dagcbor"
	_ "github.com/ipld/go-ipld-prime/codec/raw"
	"github.com/ipld/go-ipld-prime/fluent/qp"
	cidlink "github.com/ipld/go-ipld-prime/linking/cid"
	basicnode "github.com/ipld/go-ipld-prime/node/basic"
	mh "github.com/multiformats/go-multihash"

	"verifharness/vh"
)

// ---------------------------------------------------------------- deterministic crypto/rand

type detReader struct{ r *vh.Rand }

func (d *detReader) Read(p []byte) (int, error) {
	copy(p, d.r.Bytes(len(p)))
	return len(p), nil
}

func withDetRand(seed uint64) (restore func()) {
	old := crand.Reader
	crand.Reader = &detReader{r: vh.NewRand(seed)}
	return func() { crand.Reader = old }
}

func keyCid(k int) cid.Cid {
	var b [8]byte
	binary.BigEndian.PutUint64(b[:], uint64(k))
	h := sha256.Sum256(b[:])
	m, _ := mh.Encode(h[:], mh.SHA2_256)
	return cid.NewCidV1(cid.Raw, m)
}

func b01(b bool) int {
	if b {
		return 1
	}
	return 0
}

// ---------------------------------------------------------------- generator

type gnode struct {
	codec string
	ident bool
	size  int
}

func tok(c int) string { return strconv.Itoa(c/3) + string("abr"[c%3]) }

func genWalkCase(r *vh.Rand, tier string, c *vh.Case) {
	trk := vh.Pick(r, []string{"map", "map", "map", "map", "cidset", "none"})
	n := 1 + r.Intn(14)
	if r.Chance(1, 4) {
		n = 10 + r.Intn(30)
	}
	if r.Chance(1, 12) || (tier == "thorough" && r.Chance(1, 4)) {
		n = 30 + r.Intn(31)
	}
	if trk == "none" && n > 12 {
		n = 1 + r.Intn(12)
	}
	crossCodec := r.Chance(1, 5) // raw-codec aliases of non-raw blocks
	aliases := r.Chance(2, 3)    // CIDv0/CIDv1 aliases
	nodes := make([]gnode, 0, n)
	var allToks []int
	for i := 0; i < n; i++ {
		codec := vh.Pick(r, []string{"pb", "pb", "pb", "cbor", "raw"})
		if i == n-1 && n > 1 && codec == "raw" {
			codec = "pb"
		}
		var links []int
		size := 40
		if codec != "raw" && i > 0 {
			k := r.Intn(5)
			if r.Chance(1, 6) {
				k = r.Intn(9)
			}
			for j := 0; j < k; j++ {
				t := r.Intn(i)
				if r.Chance(1, 2) && i >= 3 { // prefer recent nodes: deeper DAGs
					t = i - 1 - r.Intn(3)
				}
				tn := nodes[t]
				view := 1
				if tn.codec == "pb" && !tn.ident && aliases && r.Chance(1, 2) {
					view = 0
				}
				if tn.codec != "raw" && crossCodec && r.Chance(1, 6) {
					view = 2
				}
				links = append(links, 3*t+view)
				if tn.ident {
					size += tn.size + 16
				} else {
					size += 50
				}
			}
		}
		ident := r.Chance(1, 8) && size <= 300
		present := 1
		if !ident && r.Chance(1, 10) {
			present = 0
		} else if !ident && codec != "raw" && r.Chance(1, 25) {
			present = 2
		}
		utype := "-"
		if codec == "pb" {
			utype = vh.Pick(r, []string{"1", "1", "1", "2", "2", "5", "4", "0", "3", "-", "x"})
			if utype == "-" && len(links) == 0 {
				utype = "x" // a dag-pb node without Data and without links is the empty block: not unique
			}
		}
		nodes = append(nodes, gnode{codec: codec, ident: ident, size: size})
		ls := make([]string, len(links))
		for j, l := range links {
			ls[j] = tok(l)
		}
		mhs := "sha"
		if ident {
			mhs = "id"
		}
		c.Ops = append(c.Ops, strings.TrimSpace(fmt.Sprintf("node %d %s %s %d %s %s", i, codec, mhs, present, utype, strings.Join(ls, " "))))
		allToks = append(allToks, 3*i+1)
		if codec == "pb" && !ident {
			allToks = append(allToks, 3*i)
		}
		if codec != "raw" && crossCodec {
			allToks = append(allToks, 3*i+2)
		}
	}
	c.Ops = append(c.Ops, "tracker "+trk)
	nw := 1 + r.Intn(3)
	for w := 0; w < nw; w++ {
		if w > 0 && r.Chance(1, 5) {
			c.Ops = append(c.Ops, "tracker "+vh.Pick(r, []string{"map", "cidset"}))
		}
		root := 3*(n-1) + 1
		if r.Chance(1, 3) {
			root = vh.Pick(r, allToks)
		}
		mode := vh.Pick(r, []string{"dag", "dag", "entity"})
		stop := 0
		if r.Chance(1, 6) {
			stop = 1 + r.Intn(6)
		}
		stopS := strconv.Itoa(stop)
		if stop > 0 && r.Chance(1, 2) {
			stopS = "c" + stopS // cancel the context instead of returning false
		}
		locm, nl, le := "nil", "-", "-"
		if r.Chance(1, 3) {
			locm = "set"
			var a, b []string
			for _, t := range allToks {
				if r.Chance(1, 8) {
					a = append(a, tok(t))
				} else if r.Chance(1, 20) {
					b = append(b, tok(t))
				}
			}
			if len(a) > 0 {
				nl = strings.Join(a, ",")
			}
			if len(b) > 0 {
				le = strings.Join(b, ",")
			}
		}
		c.Ops = append(c.Ops, fmt.Sprintf("walk %s %s %s %s %s %s", mode, tok(root), stopS, locm, nl, le))
		for j, m := 0, r.Intn(3); j < m; j++ {
			c.Ops = append(c.Ops, "has "+tok(vh.Pick(r, allToks)))
		}
	}
}

// genBloomCase runs the real BloomTracker (with the same deterministic SipHash keys exec will use) to
// record its answers in the op lines; the Lean side consumes them (relational model).
func genBloomCase(r *vh.Rand, c *vh.Case, growths int) {
	capacity := vh.Pick(r, []int{10000, 10000, 10001, 12345})
	fp := vh.Pick(r, []int{1, 2, 3, 16, 1000, 4750000, 4750000})
	if growths == 0 && r.Chance(1, 8) {
		capacity = vh.Pick(r, []int{0, 9999})
	}
	if growths == 0 && r.Chance(1, 12) {
		fp = 0
	}
	seed := r.U64() % 1000000
	c.Ops = append(c.Ops, fmt.Sprintf("bnew %d %d %d", capacity, fp, seed))
	restore := withDetRand(seed)
	defer restore()
	bt, err := walker.NewBloomTracker(uint(capacity), uint(fp))
	if err != nil {
		c.Ops = append(c.Ops, "bvisit 1 1")
		return
	}
	next := 1000 // fresh keys for ranges start here; single ops use keys < 40
	single := func() {
		k := r.Intn(40)
		if r.Chance(2, 3) {
			c.Ops = append(c.Ops, fmt.Sprintf("bvisit %d %d", k, b01(bt.Visit(keyCid(k)))))
		} else {
			c.Ops = append(c.Ops, fmt.Sprintf("bhas %d %d", k, b01(bt.Has(keyCid(k)))))
		}
	}
	for j, m := 0, 3+r.Intn(25); j < m; j++ {
		single()
	}
	for g := 0; g < growths; g++ {
		// a range long enough to cross the next growth boundary when few false positives occur
		cnt := capacity + 5 + r.Intn(20)
		if g > 0 {
			cnt = capacity*pow4(g) + 5 + r.Intn(20)
		}
		var negs []string
		for k := next; k < next+cnt; k++ {
			if !bt.Visit(keyCid(k)) {
				negs = append(negs, strconv.Itoa(k))
			}
		}
		ns := "-"
		if len(negs) > 0 {
			ns = strings.Join(negs, ",")
		}
		c.Ops = append(c.Ops, fmt.Sprintf("brange %d %d %s", next, cnt, ns))
		// revisit part of the range and some fresh keys
		for j, m := 0, 2+r.Intn(6); j < m; j++ {
			k := next + r.Intn(cnt+50)
			if r.Bool() {
				c.Ops = append(c.Ops, fmt.Sprintf("bvisit %d %d", k, b01(bt.Visit(keyCid(k)))))
			} else {
				c.Ops = append(c.Ops, fmt.Sprintf("bhas %d %d", k, b01(bt.Has(keyCid(k)))))
			}
		}
		next += cnt + 100
		for j, m := 0, r.Intn(6); j < m; j++ {
			single()
		}
	}
}

func pow4(g int) int {
	p := 1
	for i := 0; i < g; i++ {
		p *= 4
	}
	return p
}

func gen(r *vh.Rand, tier string, n int, emit func(vh.Case)) {
	for i := 0; i < n; i++ {
		c := vh.Case{ID: strconv.Itoa(i)}
		cr := r.Fork()
		switch {
		case i == 0:
			genBloomCase(cr, &c, 3) // past three growth steps (> 210 000 inserts)
		case i%200 == 7:
			genBloomCase(cr, &c, 1+cr.Intn(2))
		case i%8 == 3:
			genBloomCase(cr, &c, 0)
		default:
			genWalkCase(cr, tier, &c)
		}
		emit(c)
	}
}

// ---------------------------------------------------------------- exec

type node struct {
	codec   string
	ident   bool
	present int
	utype   string
	links   []int
	mhash   mh.Multihash
}

type world struct {
	nodes []node
	bs    blockstore.Blockstore
	tokOf map[string]int
}

func (w *world) cidOf(c int) cid.Cid {
	nd := w.nodes[c/3]
	switch c % 3 {
	case 0:
		return cid.NewCidV0(nd.mhash)
	case 1:
		return cid.NewCidV1(codecOf(nd.codec), nd.mhash)
	default:
		return cid.NewCidV1(cid.Raw, nd.mhash)
	}
}

func codecOf(s string) uint64 {
	switch s {
	case "pb":
		return cid.DagProtobuf
	case "cbor":
		return cid.DagCBOR
	}
	return cid.Raw
}

func parseTok(s string) int {
	v := strings.IndexByte("abr", s[len(s)-1])
	if v < 0 {
		panic("bad token " + s)
	}
	return 3*vh.Atoi(s[:len(s)-1]) + v
}

func parseToks(s string) map[int]bool {
	m := map[int]bool{}
	if s == "-" {
		return m
	}
	for _, t := range strings.Split(s, ",") {
		m[parseTok(t)] = true
	}
	return m
}

func (w *world) addNode(f []string) {
	idx := vh.Atoi(f[1])
	if idx != len(w.nodes) {
		panic("node index out of order")
	}
	nd := node{codec: f[2], ident: f[3] == "id", present: vh.Atoi(f[4]), utype: f[5]}
	for _, t := range f[6:] {
		nd.links = append(nd.links, parseTok(t))
	}
	var data []byte
	switch nd.codec {
	case "raw":
		data = []byte(fmt.Sprintf("raw-node-%d", idx))
	case "cbor":
		n, err := qp.BuildMap(basicnode.Prototype.Any, -1, func(ma ipld.MapAssembler) {
			qp.MapEntry(ma, "id", qp.Int(int64(idx)))
			qp.MapEntry(ma, "l", qp.List(-1, func(la ipld.ListAssembler) {
				for j, l := range nd.links {
					lk := cidlink.Link{Cid: w.cidOf(l)}
					switch (idx + j) % 3 {
					case 0:
						qp.ListEntry(la, qp.Link(lk))
					case 1:
						qp.ListEntry(la, qp.Map(-1, func(ma ipld.MapAssembler) { qp.MapEntry(ma, "x", qp.Link(lk)) }))
					default:
						qp.ListEntry(la, qp.List(-1, func(la ipld.ListAssembler) { qp.ListEntry(la, qp.Link(lk)) }))
					}
				}
			}))
		})
		if err != nil {
			panic(err)
		}
		var buf bytes.Buffer
		if err := dagcbor.Encode(n, &buf); err != nil {
			panic(err)
		}
		data = buf.Bytes()
	case "pb":
		var d []byte
		switch nd.utype {
		case "-":
			d = nil
		case "x":
			d = []byte{0xff, 0xff, 0xff, byte(idx)}
		default:
			fsn := ft.NewFSNode(pb.Data_DataType(vh.Atoi(nd.utype)))
			fsn.SetData([]byte(fmt.Sprintf("n%d", idx)))
			b, err := fsn.GetBytes()
			if err != nil {
				panic(err)
			}
			d = b
		}
		pn := merkledag.NodeWithData(d)
		for j, l := range nd.links {
			// link names carry the node index so that data-less nodes with equal links are distinct blocks
			if err := pn.AddRawLink(fmt.Sprintf("%03d-n%d", j, idx), &format.Link{Cid: w.cidOf(l)}); err != nil {
				panic(err)
			}
		}
		data = pn.RawData()
	default:
		panic("bad codec")
	}
	var err error
	if nd.ident {
		nd.mhash, err = mh.Sum(data, mh.IDENTITY, -1)
	} else {
		nd.mhash, err = mh.Sum(data, mh.SHA2_256, -1)
	}
	if err != nil {
		panic(err)
	}
	for _, o := range w.nodes {
		if bytes.Equal(o.mhash, nd.mhash) {
			panic("generator produced two nodes with the same multihash")
		}
	}
	w.nodes = append(w.nodes, nd)
	for v := 0; v < 3; v++ {
		if v == 0 && (nd.codec != "pb" || nd.ident) {
			continue
		}
		if v == 2 && nd.codec == "raw" {
			continue
		}
		w.tokOf[w.cidOf(3*idx+v).KeyString()] = 3*idx + v
	}
	if !nd.ident && nd.present != 0 {
		if nd.present == 2 {
			data = []byte{0xff, 0xff, 0xff}
		}
		blk, err := blocks.NewBlockWithCid(data, w.cidOf(3*idx+1))
		if err != nil {
			panic(err)
		}
		if err := w.bs.Put(context.Background(), blk); err != nil {
			panic(err)
		}
	}
}

// ---- abstract view of the case used by the monitor's reference traversal (independent of the walker)

func (w *world) fetchAbs(c int) ([]int, bool) {
	nd := w.nodes[c/3]
	if !nd.ident && nd.present == 0 {
		return nil, false
	}
	if c%3 == 2 {
		return nil, true
	}
	if nd.present == 2 && !nd.ident {
		return nil, false
	}
	return nd.links, true
}

func (w *world) isFileOrSymlink(c int) bool {
	nd := w.nodes[c/3]
	if c%3 == 2 || nd.codec == "raw" {
		return true
	}
	if nd.codec != "pb" {
		return false
	}
	return nd.utype == "0" || nd.utype == "2" || nd.utype == "4"
}

type refWalk struct {
	w       *world
	entity  bool
	seen    map[int]bool // nil = no tracker
	byCid   bool
	byCodec bool // key = (multihash, raw codec or not): CIDv0/CIDv1 aliases collapse, codec views do not
	nonloc  map[int]bool
	stopAt  int
	out     []int
	stopped bool
}

func (r *refWalk) visit(c int) {
	if r.stopped {
		return
	}
	if r.seen != nil {
		k := c / 3
		if r.byCid {
			k = c
		}
		if r.byCodec {
			k = 2*(c/3) + b01(c%3 == 2)
		}
		if r.seen[k] {
			return
		}
		r.seen[k] = true
	}
	if r.nonloc[c] {
		return
	}
	ks, ok := r.w.fetchAbs(c)
	if !ok {
		return
	}
	if r.entity && r.w.isFileOrSymlink(c) {
		ks = nil
	}
	if !r.w.nodes[c/3].ident {
		r.out = append(r.out, c)
		if len(r.out) == r.stopAt {
			r.stopped = true
			return
		}
	}
	for _, k := range ks {
		r.visit(k)
	}
}

func showToks(cs []int) string {
	if len(cs) == 0 {
		return "-"
	}
	s := make([]string, len(cs))
	for i, c := range cs {
		s[i] = tok(c)
	}
	return strings.Join(s, ",")
}

func field(v any, name string) uint64 {
	f := reflect.ValueOf(v).Elem().FieldByName(name)
	switch f.Kind() {
	case reflect.Slice:
		return uint64(f.Len())
	default:
		return f.Uint()
	}
}

func filledBefore(cap0 uint64, i int) uint64 {
	var s uint64
	c := cap0
	for j := 0; j < i; j++ {
		s += c + 1
		c *= 4
	}
	return s
}

func exec(c vh.Case, o *vh.Out) {
	w := &world{bs: blockstore.NewBlockstore(dssync.MutexWrap(ds.NewMapDatastore())), tokOf: map[string]int{}}
	ctx := context.Background()
	trk := "none"
	var tracker walker.VisitedTracker
	var shadow map[int]bool // the monitor's own visited set for the current tracker
	var bt *walker.BloomTracker
	var bseen map[int]bool
	var bvisits, cap0 uint64
	defer func() { crand.Reader = defaultReader }()

	bstat := func() string {
		return fmt.Sprintf("count=%d dedup=%d chain=%d cap=%d cur=%d", bt.Count(), bt.Deduplicated(),
			field(bt, "chain"), field(bt, "lastCap"), field(bt, "curInserts"))
	}
	bmon := func() {
		if bt.Count()+bt.Deduplicated() != bvisits {
			o.Fail("bloom-count", "Count %d + Deduplicated %d != visits %d", bt.Count(), bt.Deduplicated(), bvisits)
		}
		ch := int(field(bt, "chain"))
		lo := filledBefore(cap0, ch-1)
		if bt.Count() < lo || bt.Count() > lo+field(bt, "lastCap") || field(bt, "lastCap") != cap0*uint64(pow4(ch-1)) {
			o.Fail("bloom-growth", "count %d chain %d lastCap %d cap0 %d", bt.Count(), ch, field(bt, "lastCap"), cap0)
		}
		if ch >= 2 {
			o.Kind(fmt.Sprintf("bloom-chain%d", ch))
			o.Nontrivial()
		}
	}

	for _, line := range c.Ops {
		f := strings.Fields(line)
		switch f[0] {
		case "node":
			w.addNode(f)
			o.Emit("ok")
		case "tracker":
			trk = f[1]
			switch trk {
			case "none":
				tracker, shadow = nil, nil
			case "map":
				tracker, shadow = walker.NewMapTracker(), map[int]bool{}
			case "cidset":
				tracker, shadow = cid.NewSet(), map[int]bool{}
			default:
				o.Emit("bad-op")
				continue
			}
			o.Kind("tracker-" + trk)
			o.Emit("ok")
		case "walk":
			cancelMode := strings.HasPrefix(f[3], "c")
			root, stopAt := parseTok(f[2]), vh.Atoi(strings.TrimPrefix(f[3], "c"))
			wctx, cancel := context.WithCancel(ctx)
			if cancelMode {
				o.Kind("ctx-cancel")
			}
			nonloc, locerr := parseToks(f[5]), parseToks(f[6])
			var opts []walker.Option
			if tracker != nil {
				opts = append(opts, walker.WithVisitedTracker(tracker))
			}
			if f[4] == "set" {
				opts = append(opts, walker.WithLocality(func(_ context.Context, c cid.Cid) (bool, error) {
					t, ok := w.tokOf[c.KeyString()]
					if !ok {
						return true, nil
					}
					if locerr[t] {
						return false, io.ErrUnexpectedEOF
					}
					return !nonloc[t], nil
				}))
				o.Kind("locality")
			}
			var out []int
			unknown := ""
			emit := func(c cid.Cid) bool {
				t, ok := w.tokOf[c.KeyString()]
				if !ok {
					unknown = c.String()
					t = -3
				}
				out = append(out, t)
				if cancelMode {
					if len(out) == stopAt {
						cancel() // the walk notices at its next loop iteration
					}
					return true
				}
				return len(out) != stopAt
			}
			var err error
			if f[1] == "entity" {
				err = walker.WalkEntityRoots(wctx, w.cidOf(root), walker.NodeFetcherFromBlockstore(w.bs), emit, opts...)
			} else {
				err = walker.WalkDAG(wctx, w.cidOf(root), walker.LinksFetcherFromBlockstore(w.bs), emit, opts...)
			}
			o.Kind("walk-" + f[1])
			if stopAt > 0 && len(out) == stopAt {
				o.Kind("stopped")
			}
			if unknown != "" {
				o.Fail("unknown-cid", "emitted a CID that is not in the DAG: %s", unknown)
			}
			// ---- monitor: the property's predicate, evaluated on the abstract DAG by plain recursion
			nl := map[int]bool{}
			for t := range nonloc {
				nl[t] = true
			}
			for t := range locerr {
				nl[t] = true
			}
			freshMap := trk == "map" && len(shadow) == 0 && stopAt == 0
			ref := &refWalk{w: w, entity: f[1] == "entity", seen: shadow, byCid: trk == "cidset", nonloc: nl, stopAt: stopAt}
			ref.visit(root)
			if freshMap {
				// the property itself, on CIDs (up to CIDv0/CIDv1 aliasing): every non-identity CID reachable through
				// available blocks is emitted. The walker dedups by multihash alone, so a raw-codec CID over the
				// multihash of a dag-pb / dag-cbor block can hide that block's subtree.
				full := &refWalk{w: w, entity: f[1] == "entity", seen: map[int]bool{}, byCodec: true, nonloc: nl}
				full.visit(root)
				got := map[int]bool{}
				for _, t := range out {
					if t >= 0 {
						got[t/3] = true // by multihash: what the provide system finally announces
					}
				}
				for _, t := range full.out {
					if !got[t/3] {
						o.Kind("mh-alias-skip")
						o.Fail("c13-multihash-alias-subtree-skipped", "reachable CID %s: its multihash is never emitted, an ancestor's multihash was marked through another codec view", tok(t))
						break
					}
				}
			}
			if showToks(out) != showToks(ref.out) {
				o.Fail("preorder", "emitted %s, recursive pre-order reference %s", showToks(out), showToks(ref.out))
			}
			seenMh := map[int]bool{}
			for _, t := range out {
				if t < 0 {
					continue
				}
				if tracker != nil && trk == "map" {
					if seenMh[t/3] {
						o.Fail("dup-emit", "multihash of %s emitted twice in one walk", tok(t))
					}
					seenMh[t/3] = true
				}
				if nl[t] {
					o.Fail("nonlocal-emitted", "%s failed the locality check but was emitted", tok(t))
				}
				if w.nodes[t/3].ident {
					o.Fail("identity-emitted", "%s is an identity CID", tok(t))
				}
				if tracker != nil && !tracker.Has(w.cidOf(t)) {
					o.Fail("has-after-visit", "tracker.Has(%s) is false after it was emitted", tok(t))
				}
			}
			if tracker != nil && len(out) >= 4 {
				o.Nontrivial()
			}
			cancel()
			es := "nil"
			if err == context.Canceled {
				es = "canceled"
			} else if err != nil {
				es = "error"
			}
			dd := ""
			if mt, ok := tracker.(*walker.MapTracker); ok {
				dd = fmt.Sprintf(" dedup=%d", mt.Deduplicated())
			}
			o.Emit("out=%s err=%s%s", showToks(out), es, dd)
		case "has":
			if tracker == nil {
				o.Emit("none")
				continue
			}
			t := parseTok(f[1])
			got := tracker.Has(w.cidOf(t))
			k := t / 3
			if trk == "cidset" {
				k = t
			}
			if shadow[k] && !got {
				o.Fail("has-after-visit", "tracker.Has(%s) is false although it was visited", tok(t))
			}
			o.Emit("%v", got)
		case "bnew":
			crand.Reader = &detReader{r: vh.NewRand(uint64(vh.Atoi(f[3])))}
			var err error
			bt, err = walker.NewBloomTracker(uint(vh.Atoi(f[1])), uint(vh.Atoi(f[2])))
			if err != nil {
				bt = nil
				o.Kind("bloom-new-err")
				o.Emit("err")
				continue
			}
			bseen, bvisits, cap0 = map[int]bool{}, 0, uint64(vh.Atoi(f[1]))
			o.Kind("bloom")
			o.Emit("ok %s", bstat())
		case "bvisit":
			if bt == nil {
				o.Emit("bad-op")
				continue
			}
			k := vh.Atoi(f[1])
			got := bt.Visit(keyCid(k))
			bvisits++
			if bseen[k] && got {
				o.Fail("bloom-forgot", "Visit(%d) reported new although it was visited before", k)
			}
			if !bseen[k] && !got {
				o.Kind("bloom-false-positive")
			}
			bseen[k] = true
			bmon()
			o.Emit("v=%d %s", b01(got), bstat())
		case "bhas":
			if bt == nil {
				o.Emit("bad-op")
				continue
			}
			k := vh.Atoi(f[1])
			got := bt.Has(keyCid(k))
			if bseen[k] && !got {
				o.Fail("bloom-forgot", "Has(%d) is false although it was visited before", k)
			}
			o.Emit("h=%d", b01(got))
		case "brange":
			if bt == nil {
				o.Emit("bad-op")
				continue
			}
			a, n := vh.Atoi(f[1]), vh.Atoi(f[2])
			var negs []string
			for k := a; k < a+n; k++ {
				got := bt.Visit(keyCid(k))
				bvisits++
				if bseen[k] && got {
					o.Fail("bloom-forgot", "Visit(%d) reported new although it was visited before", k)
				}
				if !got {
					negs = append(negs, strconv.Itoa(k))
					if !bseen[k] {
						o.Kind("bloom-false-positive")
					}
				}
				bseen[k] = true
			}
			// every key of the range must now be reported as present
			for k := a; k < a+n; k += 1 + n/64 {
				if !bt.Has(keyCid(k)) {
					o.Fail("bloom-forgot", "Has(%d) is false after the range visit", k)
				}
			}
			bmon()
			ns := "-"
			if len(negs) > 0 {
				ns = strings.Join(negs, ",")
			}
			if ns != f[3] {
				// the recorded answers (op line) are not the ones observed now: report through the diffed line
				o.Emit("neg-mismatch observed=%d %s", len(negs), bstat())
				continue
			}
			o.Emit("neg=%d %s", len(negs), bstat())
		default:
			o.Emit("bad-op")
		}
	}
}

var defaultReader = crand.Reader

func main() {
	logging.SetAllLoggers(logging.LevelFatal) // the walker logs every skipped CID at error level
	vh.Main(vh.Config{Gen: gen, Exec: exec})
}
