// C21 harness: mfs.Republisher.
//
// Two kinds of cases:
//
//	"ev" cases   drive a Go port of the Lean event model (port.go-style, below) with explicit model events;
//	             the Lean driver runs the same events and every state dump is diffed: port ≡ Lean model.
//	"run" cases  drive the REAL Republisher with ms timers and a scripted / gated publish function, record
//	             the visible events (Update/WaitPub/Close call+return, publish start+end) in their real order
//	             and check (a) that the port ADMITS the observed trace (some interleaving of the hidden
//	             events — channel operations, timers — explains it), (b) the property predicates directly.
//	             Their op lines all answer "ok" (timing is real, nothing else is comparable line by line).
package main

import (
	"context"
	"fmt"
	"sort"
	"strconv"
	"strings"
	"sync"
	"time"

	dag "github.com/ipfs/boxo/ipld/merkledag"
	mdtest "github.com/ipfs/boxo/ipld/merkledag/test"
	ft "github.com/ipfs/boxo/ipld/unixfs"
	"github.com/ipfs/boxo/mfs"
	"github.com/ipfs/go-cid"
	mh "github.com/multiformats/go-multihash"

	"verifharness/vh"
)

// ------------------------------------------------------------------ Go port of BoxoModel/C21/Model.lean

type val struct{ stamp, cid int }

type upd struct {
	cid        int
	pc         int // 0 start, 1 drained, 2 done
	dr         val
	startT     int
	startClock int
	doneT      int // -1 none
	sent       int // -1 none
}

type wait struct {
	pc        int // 0 sending 1 waiting 2 released 3 abandoned
	close     bool
	callClock int
	acc       int
	inflight  int
	cancelled bool
	returned  bool
}

type st struct {
	slot, toPub         *val
	lastCid             int // -1 none
	pubStamp, skipStamp int
	waiter              int // -1 none
	quick, longer, imm  bool
	inPub               bool
	cancelled, stopped  bool
	log                 []string
	clock, time         int
	upds                []upd
	waits               []wait
}

func newSt(last int) *st { return &st{lastCid: last, waiter: -1, imm: true} }

func (s *st) clone() *st {
	c := *s
	if s.slot != nil {
		v := *s.slot
		c.slot = &v
	}
	if s.toPub != nil {
		v := *s.toPub
		c.toPub = &v
	}
	c.log = append([]string(nil), s.log...)
	c.upds = append([]upd(nil), s.upds...)
	c.waits = append([]wait(nil), s.waits...)
	return &c
}

func (s *st) notify() {
	if s.waiter >= 0 {
		j := s.waiter
		if j < len(s.waits) && s.waits[j].pc == 1 {
			s.waits[j].pc = 2
		}
		s.waiter = -1
	}
}

func (s *st) afterSelect() {
	s.quick, s.longer = false, false
	if s.toPub != nil {
		s.inPub = true
	} else {
		s.notify()
	}
}

func (s *st) idle() bool { return !s.inPub && !s.stopped }

func (s *st) maxDrained() int {
	m := 0
	for _, u := range s.upds {
		if u.pc == 1 && u.dr.stamp > m {
			m = u.dr.stamp
		}
	}
	return m
}

// step returns nil when the event is not enabled. ev: name + integer argument.
func (s0 *st) step(ev string, a int) *st {
	s := s0.clone()
	s.time = s0.time + 1
	switch ev {
	case "update":
		s.upds = append(s.upds, upd{cid: a, startT: s0.time, startClock: s.clock, doneT: -1, sent: -1})
	case "updStep":
		if a < 0 || a >= len(s.upds) {
			return nil
		}
		u := &s.upds[a]
		send := func() {
			s.clock++
			s.slot = &val{s.clock, u.cid}
			u.pc, u.doneT, u.sent = 2, s0.time, s.clock
		}
		switch u.pc {
		case 0:
			if s.slot != nil {
				u.pc, u.dr = 1, *s.slot
				s.slot = nil
			} else {
				send()
			}
		case 1:
			if s.slot == nil {
				send()
			} else {
				u.pc, u.doneT = 2, s0.time
			}
		default:
			return nil
		}
	case "waitPub":
		s.waits = append(s.waits, wait{callClock: s.clock})
	case "closeCall":
		s.waits = append(s.waits, wait{callClock: s.clock, close: true})
	case "abandon":
		if a < 0 || a >= len(s.waits) || s.waits[a].pc > 1 {
			return nil
		}
		s.waits[a].pc = 3
	case "recvUpdate":
		if !s.idle() || s.slot == nil {
			return nil
		}
		v := *s.slot
		s.slot = nil
		if s.lastCid == v.cid {
			s.toPub = nil
			if v.stamp > s.skipStamp {
				s.skipStamp = v.stamp
			}
			s.imm = true
			s.afterSelect()
		} else {
			s.longer = s.longer || s.toPub == nil
			s.toPub = &v
			s.quick = true
		}
	case "recvWaiter":
		if !s.idle() || !s.imm || a < 0 || a >= len(s.waits) || s.waits[a].pc != 0 {
			return nil
		}
		s.waiter = a
		s.waits[a].pc, s.waits[a].acc, s.waits[a].inflight = 1, s.clock, s.maxDrained()
		if s.slot != nil {
			s.toPub, s.slot = s.slot, nil
		}
		if s.toPub != nil && s.lastCid == s.toPub.cid {
			if s.toPub.stamp > s.skipStamp {
				s.skipStamp = s.toPub.stamp
			}
			s.toPub = nil
		}
		s.afterSelect()
	case "timerQuick":
		if !s.idle() || !s.quick {
			return nil
		}
		s.afterSelect()
	case "timerLonger":
		if !s.idle() || !s.longer {
			return nil
		}
		s.afterSelect()
	case "pubDone":
		if !s.inPub || s.stopped || s.toPub == nil {
			return nil
		}
		v := *s.toPub
		s.inPub = false
		if a == 1 {
			s.lastCid, s.pubStamp, s.toPub, s.imm = v.cid, v.stamp, nil, true
			s.log = append(s.log, fmt.Sprintf("%d:%d:ok", v.stamp, v.cid))
			s.notify()
		} else {
			s.longer, s.imm = true, false
			s.log = append(s.log, fmt.Sprintf("%d:%d:fail", v.stamp, v.cid))
		}
	case "closeCancel":
		if a < 0 || a >= len(s.waits) {
			return nil
		}
		w := &s.waits[a]
		if !w.close || w.cancelled || w.pc < 2 {
			return nil
		}
		s.cancelled, w.cancelled = true, true
	case "ctxDone":
		if !s.idle() || !s.cancelled {
			return nil
		}
		s.stopped = true
	case "closeRet":
		if a < 0 || a >= len(s.waits) {
			return nil
		}
		w := &s.waits[a]
		if !w.close || !w.cancelled || w.returned || !s.stopped {
			return nil
		}
		w.returned = true
	default:
		return nil
	}
	return s
}

func b01(b bool) string {
	if b {
		return "1"
	}
	return "0"
}
func optVal(v *val) string {
	if v == nil {
		return "-"
	}
	return fmt.Sprintf("%d:%d", v.stamp, v.cid)
}
func optInt(i int) string {
	if i < 0 {
		return "-"
	}
	return strconv.Itoa(i)
}

// dump mirrors `showSt` of Drivers/C21.lean; ghosts=false leaves out the event counters (memo key of the search)
func (s *st) dump(ghosts bool) string {
	var us, ws []string
	for _, u := range s.upds {
		d := "-"
		if u.pc == 1 {
			d = optVal(&u.dr)
		}
		if ghosts {
			us = append(us, fmt.Sprintf("%d/%d/%s/%d/%d/%s/%s", u.cid, u.pc, d, u.startT, u.startClock, optInt(u.doneT), optInt(u.sent)))
		} else {
			us = append(us, fmt.Sprintf("%d/%d/%s/%s", u.cid, u.pc, d, optInt(u.sent)))
		}
	}
	for _, w := range s.waits {
		ws = append(ws, fmt.Sprintf("%d/%s/%d/%d/%d/%s/%s", w.pc, b01(w.close), w.callClock, w.acc, w.inflight, b01(w.cancelled), b01(w.returned)))
	}
	t := ""
	if ghosts {
		t = fmt.Sprintf(" time=%d", s.time)
	}
	return fmt.Sprintf("slot=%s toPub=%s last=%s pub=%d skip=%d waiter=%s q=%s l=%s imm=%s inPub=%s canc=%s stop=%s clock=%d%s log=[%s] upds=[%s] waits=[%s]",
		optVal(s.slot), optVal(s.toPub), optInt(s.lastCid), s.pubStamp, s.skipStamp, optInt(s.waiter), b01(s.quick), b01(s.longer),
		b01(s.imm), b01(s.inPub), b01(s.cancelled), b01(s.stopped), s.clock, t, strings.Join(s.log, ","), strings.Join(us, ","), strings.Join(ws, ","))
}

// ------------------------------------------------------------------ admission of an observed trace

type vis struct {
	kind string // UC UR WC WR PS PE CC CR
	id   int    // update / waiter index
	cid  int
	ok   bool
}

func (v vis) String() string { return fmt.Sprintf("%s(%d,%d,%v)", v.kind, v.id, v.cid, v.ok) }

// admitted: is there an interleaving of hidden events that explains the visible trace?
func admitted(last int, trace []vis) (bool, int) {
	type key struct {
		pos     int
		pubSeen bool
		st      string
	}
	seen := map[key]bool{}
	best := 0
	var rec func(s *st, pos int, pubSeen bool, depth int) bool
	rec = func(s *st, pos int, pubSeen bool, depth int) bool {
		if pos > best {
			best = pos
		}
		if pos == len(trace) {
			return true
		}
		if depth > 4000 {
			return false
		}
		k := key{pos, pubSeen, s.dump(false)}
		if seen[k] {
			return false
		}
		seen[k] = true
		// the next visible event
		v := trace[pos]
		switch v.kind {
		case "UC":
			if n := s.step("update", v.cid); n != nil && rec(n, pos+1, pubSeen, depth+1) {
				return true
			}
		case "UR":
			if v.id < len(s.upds) && s.upds[v.id].pc == 2 && rec(s, pos+1, pubSeen, depth+1) {
				return true
			}
		case "WC":
			if n := s.step("waitPub", 0); n != nil && rec(n, pos+1, pubSeen, depth+1) {
				return true
			}
		case "CC":
			if n := s.step("closeCall", 0); n != nil && rec(n, pos+1, pubSeen, depth+1) {
				return true
			}
		case "WR":
			if v.id < len(s.waits) {
				w := s.waits[v.id]
				if v.ok && w.pc == 2 && rec(s, pos+1, pubSeen, depth+1) {
					return true
				}
				if !v.ok {
					// the caller's context ended: WaitPub may return the error whenever it is (also) ready
					if w.pc == 2 || w.pc == 3 {
						if rec(s, pos+1, pubSeen, depth+1) {
							return true
						}
					}
					if n := s.step("abandon", v.id); n != nil && rec(n, pos+1, pubSeen, depth+1) {
						return true
					}
				}
			}
		case "PS":
			if s.inPub && !pubSeen && s.toPub != nil && s.toPub.cid == v.cid && rec(s, pos+1, true, depth+1) {
				return true
			}
		case "PE":
			if s.inPub && pubSeen && s.toPub != nil && s.toPub.cid == v.cid {
				a := 0
				if v.ok {
					a = 1
				}
				if n := s.step("pubDone", a); n != nil && rec(n, pos+1, false, depth+1) {
					return true
				}
			}
		case "CR":
			if n := s.step("closeRet", v.id); n != nil && rec(n, pos+1, pubSeen, depth+1) {
				return true
			}
		}
		// hidden events
		for i := range s.upds {
			if s.upds[i].pc != 2 {
				if n := s.step("updStep", i); n != nil && rec(n, pos, pubSeen, depth+1) {
					return true
				}
			}
		}
		for _, h := range []string{"recvUpdate", "timerQuick", "timerLonger", "ctxDone"} {
			if n := s.step(h, 0); n != nil && rec(n, pos, pubSeen, depth+1) {
				return true
			}
		}
		for j := range s.waits {
			if n := s.step("recvWaiter", j); n != nil && rec(n, pos, pubSeen, depth+1) {
				return true
			}
			if n := s.step("closeCancel", j); n != nil && rec(n, pos, pubSeen, depth+1) {
				return true
			}
			// Close's internal WaitPub times out after closeTimeout
			if s.waits[j].close {
				if n := s.step("abandon", j); n != nil && rec(n, pos, pubSeen, depth+1) {
					return true
				}
			}
		}
		return false
	}
	ok := rec(newSt(last), 0, false, 0)
	return ok, best
}

// ------------------------------------------------------------------ driving the real Republisher

func mkCid(i int) cid.Cid {
	if i < 0 {
		return cid.Undef
	}
	h, _ := mh.Sum([]byte(fmt.Sprintf("c21-root-%d", i)), mh.SHA2_256, -1)
	return cid.NewCidV1(cid.Raw, h)
}

type runner struct {
	mu      sync.Mutex
	trace   []vis
	script  []string // per publish attempt: ok | fail (generic error) | failc (wraps context.Canceled) | faild (context.DeadlineExceeded)
	nPub    int
	pubDone chan struct{}
	hold    chan struct{} // non-nil: pubfunc blocks until closed
	cids    map[string]int
	rp      *mfs.Republisher
	wg      sync.WaitGroup
	nUpd    int
	nWait   int
	park    bool
	parked  chan struct{}
	unpark  chan struct{}
}

func (r *runner) rec(v vis) {
	r.mu.Lock()
	r.trace = append(r.trace, v)
	r.mu.Unlock()
}

func (r *runner) pubfunc(ctx context.Context, c cid.Cid) error {
	id := r.cids[c.KeyString()]
	r.mu.Lock()
	r.trace = append(r.trace, vis{kind: "PS", cid: id})
	kind := "ok"
	if r.nPub < len(r.script) {
		kind = r.script[r.nPub]
	}
	ok := kind == "ok"
	r.nPub++
	hold := r.hold
	r.mu.Unlock()
	if hold != nil {
		<-hold
	}
	r.rec(vis{kind: "PE", cid: id, ok: ok})
	select {
	case r.pubDone <- struct{}{}:
	default:
	}
	// any non-nil error is a failed publish, whatever its identity (the republisher itself is alive)
	switch kind {
	case "ok":
		return nil
	case "failc":
		return fmt.Errorf("scripted publish failure: %w", context.Canceled)
	case "faild":
		return context.DeadlineExceeded
	default:
		return fmt.Errorf("scripted publish failure")
	}
}

func (r *runner) update(c int) {
	r.mu.Lock()
	i := r.nUpd
	r.nUpd++
	r.trace = append(r.trace, vis{kind: "UC", id: i, cid: c})
	r.mu.Unlock()
	r.rp.Update(mkCid(c))
	r.rec(vis{kind: "UR", id: i})
}

func (r *runner) waitpub(ms int) bool {
	r.mu.Lock()
	j := r.nWait
	r.nWait++
	r.trace = append(r.trace, vis{kind: "WC", id: j})
	r.mu.Unlock()
	ctx, cancel := context.WithTimeout(context.Background(), time.Duration(ms)*time.Millisecond)
	err := r.rp.WaitPub(ctx)
	cancel()
	r.rec(vis{kind: "WR", id: j, ok: err == nil})
	return err == nil
}

func execRun(c vh.Case, o *vh.Out) {
	r := &runner{pubDone: make(chan struct{}, 64), cids: map[string]int{}}
	for i := 0; i < 16; i++ {
		r.cids[mkCid(i).KeyString()] = i
	}
	last := -1
	tshort, tlong := 2, 10
	closed := false
	var closeErr error
	allOkAfter := func() bool { // no scripted failure left
		r.mu.Lock()
		defer r.mu.Unlock()
		for i := r.nPub; i < len(r.script); i++ {
			if r.script[i] != "ok" {
				return false
			}
		}
		return r.hold == nil
	}
	mfs.VerifRepubSched = func(p string) {
		r.mu.Lock()
		park := r.park
		r.park = false
		r.mu.Unlock()
		if park {
			close(r.parked)
			<-r.unpark
		}
	}
	defer func() { mfs.VerifRepubSched = nil }()
	for _, line := range c.Ops {
		f := strings.Fields(line)
		switch f[0] {
		case "run":
			last = vh.Atoi(f[1])
			tshort, tlong = vh.Atoi(f[2]), vh.Atoi(f[3])
			for _, s := range f[4:] {
				r.script = append(r.script, s)
			}
			r.rp = mfs.NewRepublisher(r.pubfunc, time.Duration(tshort)*time.Millisecond, time.Duration(tlong)*time.Millisecond, mkCid(last))
			o.Kind("run")
		case "update":
			r.update(vh.Atoi(f[1]))
			o.Kind("update")
		case "goupdate":
			r.wg.Add(1)
			cidn := vh.Atoi(f[1])
			go func() { defer r.wg.Done(); r.update(cidn) }()
			o.Kind("goupdate")
		case "parkupdate": // the next Update that drains the slot parks between its two halves
			r.mu.Lock()
			r.park, r.parked, r.unpark = true, make(chan struct{}), make(chan struct{})
			r.mu.Unlock()
			r.wg.Add(1)
			cidn := vh.Atoi(f[1])
			go func() { defer r.wg.Done(); r.update(cidn) }()
			select {
			case <-r.parked:
				o.Kind("update-parked")
			case <-time.After(200 * time.Millisecond): // nothing to drain: it went straight through
				r.mu.Lock()
				r.park = false
				r.mu.Unlock()
			}
		case "unpark":
			if r.unpark != nil {
				select {
				case <-r.unpark:
				default:
					close(r.unpark)
				}
			}
		case "waitpub":
			ms := vh.Atoi(f[1])
			canJudge := allOkAfter()
			ok := r.waitpub(ms)
			o.Kind("waitpub")
			if !ok {
				o.Kind("waitpub-timeout")
				if canJudge && ms >= 20*tlong && !closed {
					o.Fail("waitpub-stranded", "WaitPub(%dms) timed out although the publish function is free and succeeds (tlong=%dms)", ms, tlong)
				}
			}
		case "gowaitpub":
			r.wg.Add(1)
			ms := vh.Atoi(f[1])
			go func() { defer r.wg.Done(); r.waitpub(ms) }()
		case "sleep":
			time.Sleep(time.Duration(vh.Atoi(f[1])) * time.Millisecond)
		case "awaitpub": // wait for one more completed publish attempt
			select {
			case <-r.pubDone:
			case <-time.After(time.Duration(40*tlong) * time.Millisecond):
				o.Kind("awaitpub-timeout")
			}
		case "hold":
			r.mu.Lock()
			if r.hold == nil {
				r.hold = make(chan struct{})
			}
			r.mu.Unlock()
		case "release":
			r.mu.Lock()
			if r.hold != nil {
				close(r.hold)
				r.hold = nil
			}
			r.mu.Unlock()
		case "close": // a second Close exercises closeOnce: it only waits for the loop to stop
			{
				if closed {
					o.Kind("close-again")
				}
				closed = true
				r.mu.Lock()
				j := r.nWait
				r.nWait++
				r.trace = append(r.trace, vis{kind: "CC", id: j})
				r.mu.Unlock()
				closeErr = r.rp.Close()
				r.rec(vis{kind: "CR", id: j, ok: closeErr == nil})
				o.Kind("close")
			}
		}
		o.Emit("ok")
	}
	// let everything finish
	r.mu.Lock()
	if r.hold != nil {
		close(r.hold)
		r.hold = nil
	}
	r.mu.Unlock()
	if r.unpark != nil {
		select {
		case <-r.unpark:
		default:
			close(r.unpark)
		}
	}
	r.wg.Wait()
	if !closed && r.rp != nil {
		go r.rp.Close() // not part of the observed trace
	}
	r.mu.Lock()
	trace := append([]vis(nil), r.trace...)
	r.mu.Unlock()
	judgeTrace(last, trace, o)
}

// the property's own predicates, evaluated on the observed trace
func judgeTrace(last int, trace []vis, o *vh.Out) {
	// publishes
	type pub struct {
		cid int
		ok  bool
		pos int
	}
	var pubs []pub
	for i, v := range trace {
		if v.kind == "PE" {
			pubs = append(pubs, pub{v.cid, v.ok, i})
		}
	}
	if len(pubs) > 0 {
		o.Nontrivial()
	}
	// never two consecutive successful publishes of the same value, never a publish of the value already published
	cur := last
	for _, p := range pubs {
		if p.cid == cur {
			o.Fail("published-duplicate", "value %d published although it is the last published value", p.cid)
		}
		if p.ok {
			cur = p.cid
		}
	}
	// update intervals
	type iv struct{ cid, call, ret int }
	us := map[int]*iv{}
	var order []int
	for i, v := range trace {
		switch v.kind {
		case "UC":
			us[v.id] = &iv{cid: v.cid, call: i, ret: 1 << 30}
			order = append(order, v.id)
		case "UR":
			us[v.id].ret = i
		}
	}
	sort.Ints(order)
	uniq := func(c int) bool {
		n := 0
		for _, u := range us {
			if u.cid == c {
				n++
			}
		}
		return n == 1 && c != last
	}
	// monotone: b handed over strictly after a returned, both values unique ⇒ never "b … a" in the publish log
	for _, a := range order {
		for _, b := range order {
			ua, ub := us[a], us[b]
			if ua.ret < ub.call && uniq(ua.cid) && uniq(ub.cid) {
				pa, pb := -1, -1
				for i, p := range pubs {
					if p.cid == ub.cid && pb < 0 {
						pb = i
					}
					if p.cid == ua.cid {
						pa = i
					}
				}
				if pb >= 0 && pa > pb {
					o.Fail("publish-regress", "value %d (handed over before %d) published after it", ua.cid, ub.cid)
				}
			}
		}
	}
	// WaitPub / Close: when it returns successfully and no Update overlapped it, the newest value handed
	// over before the call is the last successfully published value (or equals the initial one, or a value handed over later was published)
	firstClose := -1
	for _, v := range trace {
		if v.kind == "CC" {
			firstClose = v.id
			break
		}
	}
	for i, v := range trace {
		if !((v.kind == "WR" || v.kind == "CR") && v.ok) {
			continue
		}
		if v.kind == "CR" && v.id != firstClose {
			continue // closeOnce: only the first Close flushes; later ones just wait for the stopped loop
		}
		call := -1
		for k := 0; k < i; k++ {
			if (trace[k].kind == "WC" || trace[k].kind == "CC") && trace[k].id == v.id {
				call = k
			}
		}
		newest, overlap := -1, false
		acceptable := map[int]bool{}
		for _, id := range order {
			u := us[id]
			if u.ret < call {
				if newest < 0 || u.ret > us[newest].ret {
					newest = id
				}
			} else if u.call < i {
				overlap = true
				acceptable[u.cid] = true // a value handed over while the call was running may be the one published
			}
		}
		if newest < 0 {
			continue
		}
		// were the updates before the call sequential? (otherwise "newest" is ambiguous)
		seq := true
		for _, a := range order {
			for _, b := range order {
				if a != b && us[a].ret < call && us[b].ret < call && us[a].call < us[b].ret && us[b].call < us[a].ret {
					seq = false
				}
			}
		}
		if !seq {
			continue
		}
		acceptable[us[newest].cid] = true
		lastOK := last
		for _, p := range pubs {
			if p.pos < i && p.ok {
				lastOK = p.cid
			}
		}
		if !acceptable[lastOK] {
			sig := "waitpub-unpublished"
			if v.kind == "CR" {
				sig = "close-unpublished"
			}
			if overlap {
				// an Update was running (possibly between draining the channel and re-sending) during the call
				sig += "-update-in-flight"
			}
			o.Fail(sig, "%s returned nil but the newest value %d handed over before the call is not the last published value (%d)", v.kind, us[newest].cid, lastOK)
		}
	}
	// admission by the model
	if len(trace) <= 120 {
		if ok, best := admitted(last, trace); !ok {
			var parts []string
			for _, v := range trace {
				parts = append(parts, v.String())
			}
			stuck := "?"
			if best < len(trace) {
				stuck = trace[best].String()
			}
			sig := "trace-not-admitted"
			// classify the one known way the real code leaves the model: an Update parked between its halves
			// while a WaitPub is served (the model admits it; so this is reached only for other reasons)
			o.Fail(sig, "observed trace is not a behaviour of the event model; stuck before #%d %s; trace=%s", best, stuck, strings.Join(parts, " "))
		} else {
			o.Kind("admitted")
		}
	}
}

// ------------------------------------------------------------------ "ev" cases: port vs Lean model

var evNames = []string{"update", "updStep", "waitPub", "closeCall", "abandon", "recvUpdate", "recvWaiter", "timerQuick", "timerLonger", "pubDone", "closeCancel", "ctxDone", "closeRet"}

func execEv(c vh.Case, o *vh.Out) {
	var s *st
	for _, line := range c.Ops {
		f := strings.Fields(line)
		switch f[0] {
		case "model":
			s = newSt(vh.Atoi(f[1]))
			o.Kind("ev")
			o.Emit("%s", s.dump(true))
		case "ev":
			a := 0
			if len(f) > 2 {
				a = vh.Atoi(f[2])
			}
			n := s.step(f[1], a)
			if n == nil {
				o.Emit("disabled")
			} else {
				s = n
				o.Kind(f[1])
				if len(s.log) > 0 {
					o.Nontrivial()
				}
				o.Emit("%s", s.dump(true))
			}
		default:
			o.Emit("bad-op")
		}
	}
}

// ------------------------------------------------------------------ Root-level cases: Close publishes the latest root

// A real mfs.Root with a recording publish function, and a twin Root without a republisher on which
// the same ops are applied; the twin's root node (GetNode syncs every cached child) is the independent
// answer to "what is the latest root". Ops all answer "ok" (the Lean side has no model of MFS directories;
// the model's statement for these cases is c21_close_flushes + c21_waitpub: Close publishes the latest value).
func fileNode(i int) *dag.ProtoNode {
	nd := dag.NodeWithData(ft.FilePBData([]byte(fmt.Sprintf("c21-file-%d", i)), uint64(len(fmt.Sprintf("c21-file-%d", i)))))
	return nd
}

func execRoot(c vh.Case, o *vh.Out) {
	ctx := context.Background()
	ds := mdtest.Mock()
	var mu sync.Mutex
	var published []cid.Cid
	pf := func(_ context.Context, c cid.Cid) error {
		mu.Lock()
		published = append(published, c)
		mu.Unlock()
		return nil
	}
	var rt, twin *mfs.Root
	apply := func(r *mfs.Root, f []string) {
		switch f[0] {
		case "putnode":
			nd := fileNode(vh.Atoi(f[2]))
			ds.Add(ctx, nd)
			mfs.PutNode(r, "/"+f[1], nd)
		case "unlink":
			r.GetDirectory().Unlink(f[1])
		case "mkdir":
			mfs.Mkdir(r, "/"+f[1], mfs.MkdirOpts{Flush: f[2] == "1"})
		case "putin": // a file inside a subdirectory (goes through the child cache)
			nd := fileNode(vh.Atoi(f[3]))
			ds.Add(ctx, nd)
			mfs.PutNode(r, "/"+f[1]+"/"+f[2], nd)
		case "flush":
			mfs.FlushPath(ctx, r, "/")
		case "flushmemfree":
			r.FlushMemFree(ctx)
		case "lookup":
			mfs.Lookup(r, "/"+f[1])
		}
	}
	var initial cid.Cid
	for _, line := range c.Ops {
		f := strings.Fields(line)
		switch f[0] {
		case "root":
			var err error
			rt, err = mfs.NewEmptyRoot(ctx, ds, pf, nil)
			if err != nil {
				panic(err)
			}
			twin, err = mfs.NewEmptyRoot(ctx, ds, nil, nil)
			if err != nil {
				panic(err)
			}
			nd, _ := twin.GetDirectory().GetNode()
			initial = nd.Cid()
			o.Kind("root")
		case "close":
			want, err := twin.GetDirectory().GetNode()
			if err != nil {
				panic(err)
			}
			cerr := rt.Close()
			mu.Lock()
			last := initial
			if len(published) > 0 {
				last = published[len(published)-1]
				o.Nontrivial()
			}
			n := len(published)
			mu.Unlock()
			if cerr == nil && !last.Equals(want.Cid()) {
				o.Fail("root-close-unpublished", "Root.Close returned nil but the last published root (%d publishes) is not the root's final node", n)
			}
			o.Kind("root-close")
		default:
			apply(rt, f)
			apply(twin, f)
			o.Kind("root-" + f[0])
		}
		o.Emit("ok")
	}
}

func genRoot(r *vh.Rand, tier string, id string) vh.Case {
	c := vh.Case{ID: id, Ops: []string{"root"}}
	names := []string{"a", "b", "c", "d"}
	m := r.Range(1, 10)
	for i := 0; i < m; i++ {
		switch k := r.Intn(12); {
		case k < 4:
			c.Ops = append(c.Ops, fmt.Sprintf("putnode %s %d", vh.Pick(r, names), r.Intn(5)))
		case k < 6:
			c.Ops = append(c.Ops, fmt.Sprintf("unlink %s", vh.Pick(r, names)))
		case k < 8:
			c.Ops = append(c.Ops, fmt.Sprintf("mkdir %s %d", vh.Pick(r, []string{"d", "e"}), r.Intn(2)))
		case k < 9:
			c.Ops = append(c.Ops, fmt.Sprintf("putin %s %s %d", vh.Pick(r, []string{"d", "e"}), vh.Pick(r, names), r.Intn(5)))
		case k < 10:
			c.Ops = append(c.Ops, "flush")
		case k < 11:
			c.Ops = append(c.Ops, "flushmemfree")
		default:
			c.Ops = append(c.Ops, fmt.Sprintf("lookup %s", vh.Pick(r, names)))
		}
	}
	c.Ops = append(c.Ops, "close")
	return c
}

// ------------------------------------------------------------------ generator

func genEv(r *vh.Rand, tier string, id string) vh.Case {
	c := vh.Case{ID: id}
	last := r.Range(-1, 2)
	c.Ops = append(c.Ops, fmt.Sprintf("model %d", last))
	s := newSt(last)
	m := r.Range(5, 60)
	if tier == "thorough" {
		m = r.Range(5, 200)
	}
	for i := 0; i < m; i++ {
		// mostly enabled events (so that runs get deep), sometimes arbitrary ones
		var name string
		a := 0
		if r.Chance(1, 6) {
			name = vh.Pick(r, evNames)
			a = r.Intn(4)
		} else {
			type cand struct {
				n string
				a int
			}
			var cs []cand
			cs = append(cs, cand{"update", r.Intn(3)}, cand{"update", r.Intn(3)})
			if len(s.waits) < 4 {
				cs = append(cs, cand{"waitPub", 0})
			}
			if r.Chance(1, 8) {
				cs = append(cs, cand{"closeCall", 0})
			}
			for i := range s.upds {
				if s.upds[i].pc != 2 {
					cs = append(cs, cand{"updStep", i}, cand{"updStep", i})
				}
			}
			for _, h := range []string{"recvUpdate", "recvUpdate", "timerQuick", "timerLonger", "ctxDone"} {
				if s.step(h, 0) != nil {
					cs = append(cs, cand{h, 0})
				}
			}
			for j := range s.waits {
				for _, h := range []string{"recvWaiter", "closeCancel", "closeRet"} {
					if s.step(h, j) != nil {
						cs = append(cs, cand{h, j})
					}
				}
				if r.Chance(1, 6) && s.step("abandon", j) != nil {
					cs = append(cs, cand{"abandon", j})
				}
			}
			if s.inPub {
				cs = append(cs, cand{"pubDone", 1}, cand{"pubDone", 1}, cand{"pubDone", 0})
			}
			p := vh.Pick(r, cs)
			name, a = p.n, p.a
		}
		if name == "update" {
			a = r.Range(0, 2)
		}
		c.Ops = append(c.Ops, fmt.Sprintf("ev %s %d", name, a))
		if n := s.step(name, a); n != nil {
			s = n
		}
	}
	return c
}

func genRun(r *vh.Rand, tier string, id string) vh.Case {
	c := vh.Case{ID: id}
	last := r.Range(-1, 2)
	tshort := r.Range(1, 3)
	tlong := tshort * r.Range(3, 6)
	var script []string
	for i, n := 0, r.Intn(6); i < n; i++ {
		if r.Chance(1, 3) {
			script = append(script, vh.Pick(r, []string{"fail", "fail", "failc", "faild"}))
		} else {
			script = append(script, "ok")
		}
	}
	c.Ops = append(c.Ops, strings.TrimSpace(fmt.Sprintf("run %d %d %d %s", last, tshort, tlong, strings.Join(script, " "))))
	m := r.Range(3, 14)
	held := false
	for i := 0; i < m; i++ {
		switch k := r.Intn(20); {
		case k < 8:
			c.Ops = append(c.Ops, fmt.Sprintf("update %d", r.Range(0, 3)))
		case k < 9:
			c.Ops = append(c.Ops, fmt.Sprintf("goupdate %d", r.Range(0, 3)))
		case k < 12:
			c.Ops = append(c.Ops, fmt.Sprintf("sleep %d", vh.Pick(r, []int{0, 1, tshort + 1, tlong + 2})))
		case k < 14:
			c.Ops = append(c.Ops, "awaitpub")
		case k < 16:
			if held {
				c.Ops = append(c.Ops, "release")
				held = false
			}
			c.Ops = append(c.Ops, fmt.Sprintf("waitpub %d", 30*tlong))
		case k < 17:
			c.Ops = append(c.Ops, fmt.Sprintf("gowaitpub %d", 30*tlong))
		case k < 18:
			if !held {
				c.Ops = append(c.Ops, "hold")
				held = true
			} else {
				c.Ops = append(c.Ops, "release")
				held = false
			}
		default:
			if held {
				c.Ops = append(c.Ops, fmt.Sprintf("parkupdate %d", r.Range(0, 3)), "unpark")
			}
		}
	}
	if held {
		c.Ops = append(c.Ops, "release")
	}
	if r.Chance(1, 3) {
		c.Ops = append(c.Ops, fmt.Sprintf("waitpub %d", 30*tlong))
	}
	if r.Chance(1, 3) {
		c.Ops = append(c.Ops, "close")
		if r.Chance(1, 3) {
			c.Ops = append(c.Ops, "close")
		}
	}
	return c
}

func gen(r *vh.Rand, tier string, n int, emit func(vh.Case)) {
	for i := 0; i < n; i++ {
		rr := r.Fork()
		if i%8 == 5 {
			emit(genRoot(rr, tier, strconv.Itoa(i)))
		} else if i%4 == 3 {
			emit(genRun(rr, tier, strconv.Itoa(i)))
		} else {
			emit(genEv(rr, tier, strconv.Itoa(i)))
		}
	}
}

func exec(c vh.Case, o *vh.Out) {
	if len(c.Ops) > 0 && strings.HasPrefix(c.Ops[0], "run ") {
		execRun(c, o)
		return
	}
	if len(c.Ops) > 0 && c.Ops[0] == "root" {
		execRoot(c, o)
		return
	}
	execEv(c, o)
}

func main() {
	vh.Main(vh.Config{Gen: gen, Exec: exec, CaseTimeout: 60 * time.Second})
}
