// C04 harness: verifcid.ValidateCid over every registered multihash code (plus unknown ones) and digest
// lengths 0..256, and the real block service against a recording blockstore and a scripted exchange.
package main

import (
	"fmt"
	"sort"
	"strconv"
	"strings"

	mh "github.com/multiformats/go-multihash"

	"verifharness/bsx"
	"verifharness/vh"
)

// (code, len) classes the random cases draw CIDs from: boundaries of every rule of the validator
var shapes = [][2]int{
	{0x12, 32}, {0x12, 32}, {0x12, 32}, {0x12, 20}, {0x12, 19}, {0x12, 128}, {0x12, 129},
	{0x11, 20}, {0x11, 19}, {0x13, 64}, {0x1e, 32}, {0x56, 32},
	{0x00, 0}, {0x00, 5}, {0x00, 128}, {0x00, 129},
	{0xd5, 16}, {0xd5, 20}, // md5
	{0x18, 32}, // shake-128: not allowed
	{0xb213, 19}, {0xb213, 20}, {0xb214, 20}, {0xb220, 32}, {0xb240, 64}, {0xb241, 20}, {0xb253, 20}, {0xb254, 20}, {0xb260, 32}, {0xb261, 32},
	{0x22, 8}, {0x1012, 32}, {0x9999, 32}, {0xfffffff, 40},
}

var setCodes = []int{0x12, 0x11, 0xd5, 0x00, 0x18, 0xb213, 0xb214, 0x9999, 0x13}

func genSet(r *vh.Rand) string {
	n := r.Intn(4)
	seen := map[int]bool{}
	var ss []string
	for i := 0; i < n; i++ {
		c := vh.Pick(r, setCodes)
		if seen[c] {
			continue
		}
		seen[c] = true
		ss = append(ss, fmt.Sprintf("%d=%d", c, r.Intn(2)))
	}
	if len(ss) == 0 {
		return "-"
	}
	return strings.Join(ss, ",")
}

func genAllowlist(r *vh.Rand, depth int) string {
	switch k := r.Intn(6); {
	case k < 3 || depth >= 3:
		if k == 2 {
			return "plain " + genSet(r)
		}
		return "dflt"
	default:
		return "over " + genSet(r) + " " + genAllowlist(r, depth+1)
	}
}

var codecs = []int{0x55, 0x70, 0x71}

func genCid(r *vh.Rand) string {
	s := vh.Pick(r, shapes)
	codec := vh.Pick(r, codecs)
	if s[0] == 0x12 && s[1] == 32 && r.Chance(1, 6) {
		codec = 0
	}
	return bsx.CidTok(codec, s[0], s[1], r.Intn(3))
}

func genBlk(r *vh.Rand, pool []string) string {
	return vh.Pick(r, pool) + "=" + strconv.Itoa(r.Intn(4))
}

// the exhaustive part: one vrow per code for a handful of allowlists
func vrowCases(emit func(vh.Case)) {
	var codes []int
	for c := range mh.Codes {
		codes = append(codes, int(c))
	}
	sort.Ints(codes)
	// 30 unknown codes: neighbours of every range boundary and a few arbitrary ones
	for _, c := range []int{0x01, 0x02, 0x10, 0x1f, 0x20, 0x57, 0x55, 0xd4, 0xd6, 0xb200, 0xb212, 0xb2ff, 0xb300, 0xb400, 0x7fffffff,
		0x100, 0x1000, 0x1013, 0xffff, 0x10000, 0x123456, 0xb1ff, 0xb262, 0xb263, 0x21, 0x23, 0x80, 0x81, 0x3fff, 0x4000} {
		if _, ok := mh.Codes[uint64(c)]; !ok {
			codes = append(codes, c)
		}
	}
	als := []string{
		"dflt",
		"plain 18=1,17=0,213=1,45587=1",
		"over 18=0,213=1,0=0,45588=0 dflt",
		"over 0=1,39321=1 over 18=0 plain 19=1,18=1",
	}
	id := 0
	for _, al := range als {
		for i := 0; i < len(codes); i += 24 {
			c := vh.Case{ID: fmt.Sprintf("v%d", id)}
			id++
			c.Ops = append(c.Ops, "cfg 1 1 "+al)
			for _, code := range codes[i:min(i+24, len(codes))] {
				c.Ops = append(c.Ops, "vrow "+strconv.Itoa(code))
			}
			emit(c)
		}
	}
}

// batches with exactly one invalid CID at every position (and none), for both batched entry points
func positionCases(emit func(vh.Case)) {
	id := 0
	for n := 1; n <= 6; n++ {
		for bad := -1; bad < n; bad++ {
			for _, ex := range []int{0, 1, 2} {
				c := vh.Case{ID: fmt.Sprintf("p%d", id)}
				id++
				c.Ops = append(c.Ops, fmt.Sprintf("cfg 1 %d dflt", ex))
				var ks, bl, ans []string
				for i := 0; i < n; i++ {
					k := bsx.CidTok(0x55, 0x12, 32, i)
					if i == bad {
						k = bsx.CidTok(0x55, []int{0xd5, 0x12, 0x00}[n%3], []int{16, 19, 129}[n%3], i)
					}
					ks = append(ks, k)
					bl = append(bl, k+"="+strconv.Itoa(i))
					ans = append(ans, k+"="+strconv.Itoa(i))
				}
				c.Ops = append(c.Ops, "getmany "+[]string{"d", "s", "c"}[id%3]+" - "+strings.Join(ks, " ")+" | "+strings.Join(ans, " "))
				c.Ops = append(c.Ops, "addmany "+strings.Join(bl, " "))
				for _, k := range ks {
					c.Ops = append(c.Ops, "peek "+k)
				}
				emit(c)
			}
		}
	}
}

func gen(r *vh.Rand, tier string, n int, emit func(vh.Case)) {
	vrowCases(emit)
	positionCases(emit)
	for i := 0; i < n; i++ {
		c := vh.Case{ID: strconv.Itoa(i)}
		c.Ops = append(c.Ops, fmt.Sprintf("cfg %d %d %s", r.Intn(2), r.Intn(3), genAllowlist(r, 0)))
		pool := make([]string, r.Range(3, 8))
		for j := range pool {
			pool[j] = genCid(r)
		}
		nops := r.Range(2, 10)
		if tier == "thorough" {
			nops = r.Range(2, 25)
		}
		for j := 0; j < nops; j++ {
			// blockstore write failures: the k-th Put / PutMany call from here fails, once or from then on
			if r.Chance(1, 12) {
				if r.Chance(1, 4) {
					c.Ops = append(c.Ops, "putfail -")
				} else {
					c.Ops = append(c.Ops, fmt.Sprintf("putfail %d %d", vh.Pick(r, []int{0, 0, 0, 1, 1, 2, 3}), r.Intn(2)))
				}
			}
			// blockstore read failures: the k-th Get call from here fails with an error that is not "not found"
			if r.Chance(1, 16) {
				if r.Chance(1, 4) {
					c.Ops = append(c.Ops, "getfail -")
				} else {
					c.Ops = append(c.Ops, fmt.Sprintf("getfail %d %d", vh.Pick(r, []int{0, 0, 1, 1, 2, 3, 5}), r.Intn(2)))
				}
			}
			mode := vh.Pick(r, []string{"d", "s", "c", "d", "s", "c", "S0", "S1", "C0", "C1"})
			switch r.Intn(10) {
			case 0, 1:
				c.Ops = append(c.Ops, "add "+genBlk(r, pool))
			case 2, 3:
				var bl []string
				for k, m := 0, r.Intn(7); k < m; k++ {
					bl = append(bl, genBlk(r, pool))
				}
				c.Ops = append(c.Ops, strings.TrimSpace("addmany "+strings.Join(bl, " ")))
			case 4, 5:
				k := vh.Pick(r, pool)
				ans := "err"
				switch r.Intn(5) {
				case 0:
				case 1, 2:
					ans = k + "=" + strconv.Itoa(r.Intn(4)) // the requested CID
				default:
					ans = genBlk(r, pool) // any CID of the pool, possibly one the validator rejects
				}
				c.Ops = append(c.Ops, fmt.Sprintf("get %s %s %s %d", mode, k, ans, vh.Pick(r, []int{1, 1, 1, 0})))
			case 6, 7, 8:
				var ks, ans []string
				for k, m := 0, r.Intn(8); k < m; k++ {
					ks = append(ks, vh.Pick(r, pool))
				}
				a := "err"
				if !r.Chance(1, 8) {
					for _, k := range ks { // mostly honest answers, reordered / dropped / duplicated ...
						if r.Chance(3, 4) {
							ans = append(ans, k+"="+strconv.Itoa(r.Intn(4)))
						}
					}
					for k, m := 0, r.Intn(3); k < m; k++ { // ... plus blocks nobody asked for
						ans = append(ans, genBlk(r, pool))
					}
					for k := len(ans) - 1; k > 0; k-- {
						j := r.Intn(k + 1)
						ans[k], ans[j] = ans[j], ans[k]
					}
					a = strings.Join(ans, " ")
				}
				nf := "-"
				if r.Chance(1, 6) {
					nf = strconv.Itoa(r.Intn(3))
				}
				c.Ops = append(c.Ops, strings.TrimSpace(fmt.Sprintf("getmany %s %s %s | %s", mode, nf, strings.Join(ks, " "), a)))
			default:
				c.Ops = append(c.Ops, "del "+vh.Pick(r, pool))
			}
		}
		for _, k := range pool {
			c.Ops = append(c.Ops, "peek "+k)
		}
		emit(c)
	}
}

func exec(c vh.Case, o *vh.Out) { bsx.Exec(c, o, bsx.Monitors{C04: true}) }

func main() { vh.Main(vh.Config{Gen: gen, Exec: exec}) }
