// C19 harness: drives the real MFS (mfs.Root, ops.go, dir.go, file.go, fd.go) with path-level op
// sequences and prints, after every op, the result class, the observation and the complete two-level
// state of every live directory (UnixFS links vs cache of live children) read through the add-only hook
// mfs/c19_verif.go.  After a flush it also prints the tree reachable from the published root CID, read
// with the UnixFS readers only.  A plain Go tree (spec) is kept beside it: the monitor.
package main

import (
	"context"
	"errors"
	"fmt"
	"io"
	"os"
	"sort"
	"strconv"
	"strings"
	"sync"
	"time"

	dag "github.com/ipfs/boxo/ipld/merkledag"
	mdtest "github.com/ipfs/boxo/ipld/merkledag/test"
	ft "github.com/ipfs/boxo/ipld/unixfs"
	uio "github.com/ipfs/boxo/ipld/unixfs/io"
	"github.com/ipfs/boxo/mfs"
	cid "github.com/ipfs/go-cid"
	ipld "github.com/ipfs/go-ipld-format"

	"verifharness/vh"
)

// ---------------------------------------------------------------------------------------------
// plain tree (the spec; also the shape in which DAG nodes and views are compared)

type node struct {
	dir  bool
	mode uint32 // permission bits, 0 = unset
	mt   int    // mtime token: 0 unset, 1..3 pool values, -1 = some other time ("now")
	data []byte
	kids map[string]*node
	raw  bool // only for nodes handed to PutNode: build the file as a bare raw block
}

func (n *node) clone() *node {
	c := &node{dir: n.dir, mode: n.mode, mt: n.mt, data: append([]byte(nil), n.data...), raw: n.raw}
	if n.dir {
		c.kids = map[string]*node{}
		for k, v := range n.kids {
			c.kids[k] = v.clone()
		}
	}
	return c
}

func mtStr(t int) string {
	if t < 0 {
		return "n"
	}
	return strconv.Itoa(t)
}

// fmtStr prints the mtime of a FILE: only whether one is stored.  The DagModifier (property C10) replaces
// a stored mtime by time.Now() on some of its internal write paths and not on others, so the value is
// not a function of the op sequence; whether one is stored is.
func fmtStr(t int) string {
	if t == 0 {
		return "0"
	}
	return "s"
}

func (n *node) ser(sb *strings.Builder) {
	if !n.dir {
		fmt.Fprintf(sb, "F(%o,%s,%s)", n.mode, fmtStr(n.mt), vh.Hex(n.data))
		return
	}
	fmt.Fprintf(sb, "D(%o,%s)[", n.mode, mtStr(n.mt))
	names := make([]string, 0, len(n.kids))
	for k := range n.kids {
		names = append(names, k)
	}
	sort.Strings(names)
	for i, k := range names {
		if i > 0 {
			sb.WriteByte(',')
		}
		sb.WriteString(k)
		sb.WriteByte('=')
		n.kids[k].ser(sb)
	}
	sb.WriteByte(']')
}

// sameButFileMeta: the two trees differ at most in the mode / mtime of files
func sameButFileMeta(a, b *node) bool {
	if a.dir != b.dir {
		return false
	}
	if !a.dir {
		return string(a.data) == string(b.data)
	}
	if a.mode != b.mode || a.mt != b.mt || len(a.kids) != len(b.kids) {
		return false
	}
	for k, x := range a.kids {
		y, ok := b.kids[k]
		if !ok || !sameButFileMeta(x, y) {
			return false
		}
	}
	return true
}

func (n *node) String() string {
	var sb strings.Builder
	n.ser(&sb)
	return sb.String()
}

const mtBase = 1700000000

func mtTime(tok int) time.Time {
	if tok == 0 {
		return time.Time{}
	}
	// odd tokens carry nanoseconds
	return time.Unix(mtBase+int64(tok)*1000, int64(tok%2)*123456789)
}

func mtTok(t time.Time) int {
	if t.IsZero() {
		return 0
	}
	for k := 1; k <= 3; k++ {
		if t.Equal(mtTime(k)) {
			return k
		}
	}
	return -1
}

// ---------------------------------------------------------------------------------------------
// reading DAG nodes with the UnixFS readers only

type world struct {
	ctx  context.Context
	ds   ipld.DAGService
	root *mfs.Root
	mu   sync.Mutex
	pub  cid.Cid

	// the one write descriptor kept open across ops
	fd     mfs.FileDescriptor
	fdFile *mfs.File
	fdPath []string
	fdAtt  bool // fdFile was met as a cached child on the last walk from the root
	fdSeen bool
}

func (w *world) readN(nd ipld.Node) (*node, error) {
	switch n := nd.(type) {
	case *dag.RawNode:
		return &node{data: append([]byte(nil), n.RawData()...)}, nil
	case *dag.ProtoNode:
		fsn, err := ft.FSNodeFromBytes(n.Data())
		if err != nil {
			return nil, err
		}
		out := &node{mode: uint32(fsn.Mode().Perm()), mt: mtTok(fsn.ModTime())}
		switch fsn.Type() {
		case ft.TDirectory, ft.THAMTShard:
			out.dir = true
			out.kids = map[string]*node{}
			d, err := uio.NewDirectoryFromNode(w.ds, n)
			if err != nil {
				return nil, err
			}
			links, err := d.Links(w.ctx)
			if err != nil {
				return nil, err
			}
			for _, l := range links {
				cn, err := l.GetNode(w.ctx, w.ds)
				if err != nil {
					return nil, err
				}
				c, err := w.readN(cn)
				if err != nil {
					return nil, err
				}
				if _, dup := out.kids[l.Name]; dup {
					return nil, fmt.Errorf("duplicate link name %q", l.Name)
				}
				out.kids[l.Name] = c
			}
			return out, nil
		case ft.TFile, ft.TRaw:
			r, err := uio.NewDagReader(w.ctx, n, w.ds)
			if err != nil {
				return nil, err
			}
			b, err := io.ReadAll(r)
			if err != nil {
				return nil, err
			}
			out.data = b
			return out, nil
		default:
			return nil, fmt.Errorf("unexpected unixfs type %v", fsn.Type())
		}
	}
	return nil, errors.New("unexpected node kind")
}

func (w *world) readCid(c cid.Cid) (*node, error) {
	nd, err := w.ds.Get(w.ctx, c)
	if err != nil {
		return nil, err
	}
	return w.readN(nd)
}

// state of a live object: serialisation of both levels, and its view (links overridden by live children)
func (w *world) readL(f mfs.FSNode, sb *strings.Builder, o *vh.Out) (*node, error) {
	switch x := f.(type) {
	case *mfs.File:
		nd, err := x.GetNode() // File.GetNode only reads fi.node
		if err != nil {
			return nil, err
		}
		v, err := w.readN(nd)
		if err != nil {
			return nil, err
		}
		if v.dir {
			// a File object wrapping a directory node cannot be built by cacheNode
			return nil, errors.New("File object holds a directory node")
		}
		v.ser(sb)
		return v, nil
	case *mfs.Directory:
		und, err := x.VerifUnixfsNode()
		if err != nil {
			return nil, err
		}
		fsn, err := ft.ExtractFSNode(und)
		if err != nil {
			return nil, err
		}
		v := &node{dir: true, mode: uint32(fsn.Mode().Perm()), mt: mtTok(fsn.ModTime()), kids: map[string]*node{}}
		ents, cacheOnly, err := x.VerifEntries(w.ctx)
		if err != nil {
			return nil, err
		}
		if len(cacheOnly) > 0 {
			sort.Strings(cacheOnly)
			o.Fail("cache-not-subset-of-links", "cached children without a link: %v", cacheOnly)
		}
		sort.Slice(ents, func(i, j int) bool { return ents[i].Link.Name < ents[j].Link.Name })
		fmt.Fprintf(sb, "D(%o,%s)[", v.mode, mtStr(v.mt))
		for i, e := range ents {
			if i > 0 {
				sb.WriteByte(',')
			}
			if i > 0 && ents[i-1].Link.Name == e.Link.Name {
				o.Fail("duplicate-link-name", "name %q twice", e.Link.Name)
			}
			dn, err := w.readCid(e.Link.Cid)
			if err != nil {
				return nil, err
			}
			sb.WriteString(e.Link.Name)
			if e.Cached == nil {
				sb.WriteByte('=')
				dn.ser(sb)
				v.kids[e.Link.Name] = dn
				continue
			}
			sb.WriteByte('*')
			dn.ser(sb)
			sb.WriteByte(':')
			if cf, ok := e.Cached.(*mfs.File); ok && w.fdFile != nil && cf == w.fdFile {
				w.fdSeen = true
			}
			cv, err := w.readL(e.Cached, sb, o)
			if err != nil {
				return nil, err
			}
			v.kids[e.Link.Name] = cv
		}
		sb.WriteByte(']')
		return v, nil
	}
	return nil, errors.New("unknown FSNode")
}

// ---------------------------------------------------------------------------------------------
// paths

type pth struct {
	comps    []string
	trailing bool
}

func parsePath(s string) pth {
	p := pth{trailing: strings.HasSuffix(s, "/")}
	for _, c := range strings.Split(s, "/") {
		if c != "" {
			p.comps = append(p.comps, c)
		}
	}
	return p
}

// split as gopath.Split does on a clean absolute path
func (p pth) split() ([]string, string) {
	if p.trailing || len(p.comps) == 0 {
		return p.comps, ""
	}
	return p.comps[:len(p.comps)-1], p.comps[len(p.comps)-1]
}

func eqPath(a, b []string) bool {
	if len(a) != len(b) {
		return false
	}
	for i := range a {
		if a[i] != b[i] {
			return false
		}
	}
	return true
}

func isPrefix(a, b []string) bool { return len(a) <= len(b) && eqPath(a, b[:len(a)]) }

// ---------------------------------------------------------------------------------------------
// the spec: a hierarchical file system on the plain tree.  Every function returns a result class and
// never changes the tree when the class is not "ok".

func (n *node) walk(comps []string) (*node, string) {
	cur := n
	for _, c := range comps {
		if !cur.dir {
			return nil, "notdir"
		}
		k, ok := cur.kids[c]
		if !ok {
			return nil, "notfound"
		}
		cur = k
	}
	return cur, "ok"
}

func (n *node) walkDir(comps []string) (*node, string) {
	d, cl := n.walk(comps)
	if cl != "ok" {
		return nil, cl
	}
	if !d.dir {
		return nil, "notdir"
	}
	return d, "ok"
}

func specMkdir(t *node, p pth, parents bool, mode uint32, mt int) string {
	if len(p.comps) == 0 {
		if parents {
			return "ok"
		}
		return "rootexists"
	}
	// check first, then create: nothing changes on failure
	cur := t
	missingFrom := -1
	for i, c := range p.comps[:len(p.comps)-1] {
		k, ok := cur.kids[c]
		if !ok {
			if !parents {
				return "notfound"
			}
			missingFrom = i
			break
		}
		if !k.dir {
			return "notdir"
		}
		cur = k
	}
	last := p.comps[len(p.comps)-1]
	if missingFrom < 0 {
		if k, ok := cur.kids[last]; ok {
			if k.dir && parents {
				return "ok"
			}
			return "exists"
		}
		cur.kids[last] = &node{dir: true, mode: mode, mt: mt, kids: map[string]*node{}}
		return "ok"
	}
	for _, c := range p.comps[missingFrom : len(p.comps)-1] {
		nk := &node{dir: true, kids: map[string]*node{}}
		cur.kids[c] = nk
		cur = nk
	}
	cur.kids[last] = &node{dir: true, mode: mode, mt: mt, kids: map[string]*node{}}
	return "ok"
}

func specPut(t *node, p pth, nd *node) string {
	dirp, name := p.split()
	if name == "" {
		return "invalid"
	}
	d, cl := t.walkDir(dirp)
	if cl != "ok" {
		return cl
	}
	if _, ok := d.kids[name]; ok {
		return "exists"
	}
	d.kids[name] = nd.clone()
	return "ok"
}

func specRm(t *node, p pth) string {
	dirp, name := p.split()
	d, cl := t.walkDir(dirp)
	if cl != "ok" {
		return cl
	}
	if _, ok := d.kids[name]; !ok {
		return "notfound"
	}
	delete(d.kids, name)
	return "ok"
}

// specMv returns the class and, on success, the final destination path.
func specMv(t *node, src, dst pth) (string, []string) {
	srcDirP, srcName := src.split()
	var dstDirP []string
	var dstName string
	if dst.trailing || len(dst.comps) == 0 {
		dstDirP, dstName = dst.comps, srcName
	} else {
		dstDirP, dstName = dst.split()
	}
	dstDir, cl := t.walkDir(dstDirP)
	if cl != "ok" {
		return cl, nil
	}
	srcDir, cl := t.walkDir(srcDirP)
	if cl != "ok" {
		return cl, nil
	}
	obj, ok := srcDir.kids[srcName]
	if !ok {
		return "notfound", nil
	}
	// a directory cannot go into itself or below itself
	srcPath := append(append([]string(nil), srcDirP...), srcName)
	if obj.dir && isPrefix(srcPath, dstDirP) {
		return "intoself", nil
	}
	overwrite := false
	if k, ok := dstDir.kids[dstName]; ok {
		if k.dir {
			if k == obj {
				return "intoself", nil
			}
			dstDirP = append(append([]string(nil), dstDirP...), dstName)
			dstDir, dstName = k, srcName
		} else {
			overwrite = true
		}
	}
	if !overwrite {
		if _, ok := dstDir.kids[dstName]; ok {
			return "exists", nil
		}
	}
	moved := obj.clone()
	dstDir.kids[dstName] = moved
	if !(srcDir == dstDir && srcName == dstName) {
		delete(srcDir.kids, srcName)
	}
	return "ok", append(append([]string(nil), dstDirP...), dstName)
}

func writeAt(data []byte, off int, b []byte) []byte {
	out := append([]byte(nil), data...)
	for len(out) < off {
		out = append(out, 0)
	}
	for i, x := range b {
		if off+i < len(out) {
			out[off+i] = x
		} else {
			out = append(out, x)
		}
	}
	return out
}

func truncTo(data []byte, size int) []byte {
	out := append([]byte(nil), data...)
	if size <= len(out) {
		return out[:size]
	}
	for len(out) < size {
		out = append(out, 0)
	}
	return out
}

// ---------------------------------------------------------------------------------------------
// generator

// Nodes handed to PutNode: empty UnixFS file nodes (what `ipfs files write --create` puts), a bare raw
// block (the root of a small file imported with raw leaves / CIDv1, what `ipfs files cp` brings in), small
// pre-filled dag-pb files (a CIDv0 import of a small file: one leaf with inline data), and directories
// holding such files.  cacheNode has one branch per kind of node.
var putPool = []func() *node{
	func() *node { return &node{} },
	func() *node { return &node{mode: 0o640} },
	func() *node { return &node{dir: true, kids: map[string]*node{}} },
	func() *node {
		return &node{dir: true, mode: 0o750, mt: 2, kids: map[string]*node{
			"f": {mode: 0o600},
			"y": {dir: true, kids: map[string]*node{"g": {}}},
		}}
	},
	func() *node { return &node{data: []byte("raw"), raw: true} },
	func() *node { return &node{data: []byte("hi"), mode: 0o644} },
	func() *node { return &node{data: []byte("pb")} },
	func() *node {
		return &node{dir: true, kids: map[string]*node{
			"f": {data: []byte("R"), raw: true},
			"g": {data: []byte("pbg")},
		}}
	},
}

// genPath draws a path blindly from the alphabet {a,b,x}/{x,y}/{f,g} (+ a few off-pattern ones).
func genPath(r *vh.Rand, allowTrailing bool) string {
	l1 := []string{"a", "b", "x"}
	l2 := []string{"x", "y"}
	l3 := []string{"f", "g"}
	var comps []string
	switch d := r.Intn(12); {
	case d == 0:
		// root
	case d <= 3:
		comps = []string{vh.Pick(r, append(l1, "f"))}
	case d <= 7:
		comps = []string{vh.Pick(r, l1), vh.Pick(r, append(l2, "f", "g"))}
	case d <= 10:
		comps = []string{vh.Pick(r, l1), vh.Pick(r, l2), vh.Pick(r, l3)}
	default:
		comps = []string{vh.Pick(r, l1), vh.Pick(r, l2), vh.Pick(r, append(l3, "x")), vh.Pick(r, l3)}
	}
	s := "/" + strings.Join(comps, "/")
	if len(comps) > 0 && allowTrailing && r.Chance(1, 6) {
		s += "/"
	}
	return s
}

// The generator keeps the plain-tree spec of the case it is writing, so that most ops hit existing
// entries (the interesting branches of Mv / Mkdir / AddChild need existing directories and files).
type genTree struct {
	t *node
	r *vh.Rand
}

func (g *genTree) collect(n *node, at []string, dirs, files *[][]string) {
	names := make([]string, 0, len(n.kids))
	for k := range n.kids {
		names = append(names, k)
	}
	sort.Strings(names)
	for _, k := range names {
		p := append(append([]string(nil), at...), k)
		if n.kids[k].dir {
			*dirs = append(*dirs, p)
			g.collect(n.kids[k], p, dirs, files)
		} else {
			*files = append(*files, p)
		}
	}
}

func join(comps []string) string { return "/" + strings.Join(comps, "/") }

// name for a new entry below a directory at the given depth: the alphabet repeats names across parents
func (g *genTree) newName(depth int, wantDir bool) string {
	switch {
	case depth == 0:
		return vh.Pick(g.r, []string{"a", "b", "x"})
	case wantDir:
		return vh.Pick(g.r, []string{"x", "x", "y"})
	default:
		return vh.Pick(g.r, []string{"f", "f", "g", "x"})
	}
}

// kind: "dir", "file", "any" existing entry; "newdir"/"newfile": a fresh name below an existing directory
func (g *genTree) path(kind string) string {
	if g.r.Chance(1, 6) {
		return genPath(g.r, true)
	}
	var dirs, files [][]string
	g.collect(g.t, nil, &dirs, &files)
	withRoot := append([][]string{nil}, dirs...)
	slash := func(s string) string {
		if s != "/" && g.r.Chance(1, 5) {
			return s + "/"
		}
		return s
	}
	switch kind {
	case "dir":
		return slash(join(vh.Pick(g.r, withRoot)))
	case "file":
		if len(files) == 0 {
			return genPath(g.r, false)
		}
		return join(vh.Pick(g.r, files))
	case "any":
		all := append(append([][]string(nil), dirs...), files...)
		if len(all) == 0 {
			return genPath(g.r, false)
		}
		return join(vh.Pick(g.r, all))
	case "newdir", "newfile":
		d := vh.Pick(g.r, withRoot)
		p := append(append([]string(nil), d...), g.newName(len(d), kind == "newdir"))
		if kind == "newdir" && g.r.Chance(1, 4) {
			p = append(p, g.newName(len(p), true))
		}
		s := join(p)
		if kind == "newdir" {
			return slash(s)
		}
		return s
	}
	return genPath(g.r, true)
}

var modes = []int{0, 0o644, 0o755, 0o700}

func gen(r *vh.Rand, tier string, n int, emit func(vh.Case)) {
	for i := 0; i < n; i++ {
		c := vh.Case{ID: strconv.Itoa(i)}
		cr := r.Fork()
		g := &genTree{t: &node{dir: true, kids: map[string]*node{}}, r: cr}
		maxLinks := vh.Pick(cr, []int{0, 0, 2, 3})
		shard := vh.Pick(cr, []int{0, 0, 120, 256})
		c.Ops = append(c.Ops, fmt.Sprintf("cfg %d %d %d", maxLinks, shard, b2i(cr.Chance(1, 8))))
		fdOpen := false      // the generator's belief: a descriptor is open ...
		var fdAt []string    // ... on this path
		nops := cr.Range(8, 40)
		if tier == "thorough" {
			nops = cr.Range(8, 70)
		}
		for j := 0; j < nops; j++ {
			k := cr.Intn(100)
			if j < nops/4 {
				k = cr.Intn(30) // build some structure first
			}
			var op string
			if fdOpen && cr.Chance(2, 5) {
				// work on the open descriptor, or on the entries above it
				switch x := cr.Intn(20); {
				case x < 7:
					op = fmt.Sprintf("fdwrite %d %s", cr.Intn(5), vh.Hex(cr.Bytes(cr.Range(1, 4))))
				case x < 8:
					op = fmt.Sprintf("fdtrunc %d", cr.Intn(5))
				case x < 10:
					op = "fdflush"
				case x < 14:
					op, fdOpen = "fdclose", false
				case x < 16 && len(fdAt) > 0:
					anc := fdAt[:cr.Range(1, len(fdAt))]
					dst := g.path(vh.Pick(cr, []string{"newdir", "dir", "newfile"}))
					op = fmt.Sprintf("mv %s %s", join(anc), dst)
					specMv(g.t, parsePath(join(anc)), parsePath(dst))
				case x < 17 && len(fdAt) > 0:
					anc := fdAt[:cr.Range(1, len(fdAt))]
					op = fmt.Sprintf("rm %s", join(anc))
					specRm(g.t, parsePath(join(anc)))
				case x < 18:
					m := vh.Pick(cr, modes)
					op = fmt.Sprintf("chmod %s %o", join(fdAt), m)
					if n, cl := g.t.walk(fdAt); cl == "ok" {
						n.mode = uint32(m)
					}
				case x < 19 && len(fdAt) > 1:
					op = fmt.Sprintf("flush %s", join(fdAt[:cr.Intn(len(fdAt))]))
				default:
					op = fmt.Sprintf("read %s", join(fdAt))
				}
				c.Ops = append(c.Ops, op)
				continue
			}
			if k >= 30 && cr.Chance(1, 14) {
				// an Mv / Unlink of an ancestor landing in the propagation gap of a flush below it
				var dirs, files [][]string
				g.collect(g.t, nil, &dirs, &files)
				var trig string
				var tp []string
				switch x := cr.Intn(10); {
				case x < 3 && fdOpen:
					trig, tp = vh.Pick(cr, []string{"fdflush", "fdclose"}), fdAt
					if trig == "fdclose" {
						fdOpen = false
					}
				case x < 7 && len(files) > 0:
					tp = vh.Pick(cr, files)
					if cr.Bool() {
						trig = fmt.Sprintf("write %s %d %s %d", join(tp), cr.Intn(4), vh.Hex(cr.Bytes(cr.Range(1, 3))), cr.Range(1, 2))
					} else {
						trig = fmt.Sprintf("flush %s", join(tp))
					}
				case len(dirs) > 0:
					tp = vh.Pick(cr, dirs)
					trig = fmt.Sprintf("flush %s", join(tp))
				}
				if trig != "" && len(tp) > 0 {
					var intr string
					if cr.Chance(3, 4) {
						anc := tp[:cr.Range(1, len(tp))]
						if cr.Chance(2, 3) {
							dst := g.path(vh.Pick(cr, []string{"newdir", "dir", "newfile"}))
							intr = fmt.Sprintf("mv %s %s", join(anc), dst)
							specMv(g.t, parsePath(join(anc)), parsePath(dst))
						} else {
							intr = fmt.Sprintf("rm %s", join(anc))
							specRm(g.t, parsePath(join(anc)))
						}
					} else {
						src, dst := g.path("any"), g.path(vh.Pick(cr, []string{"dir", "newfile", "newdir"}))
						intr = fmt.Sprintf("mv %s %s", src, dst)
						specMv(g.t, parsePath(src), parsePath(dst))
					}
					c.Ops = append(c.Ops, strings.ReplaceAll(fmt.Sprintf("race %d %s @ %s", cr.Range(1, len(tp)), intr, trig), "//", "/"))
					continue
				}
			}
			if k >= 30 && cr.Chance(1, 9) {
				switch x := cr.Intn(12); {
				case x < 5:
					p := g.path("file")
					op = fmt.Sprintf("fdopen %s %d", p, cr.Intn(2))
					if n, cl := g.t.walk(parsePath(p).comps); cl == "ok" && !n.dir && !fdOpen {
						fdOpen, fdAt = true, parsePath(p).comps
					}
				case x < 7:
					p := strings.TrimSuffix(g.path("dir"), "/")
					if p == "" {
						p = "/"
					}
					name := g.newName(len(parsePath(p).comps), true)
					op = fmt.Sprintf("dmkdir %s %s", p, name)
					if d, cl := g.t.walkDir(parsePath(p).comps); cl == "ok" {
						if _, ok := d.kids[name]; !ok {
							d.kids[name] = &node{dir: true, kids: map[string]*node{}}
						}
					}
				case x < 8:
					op = "rflush"
				case x < 9:
					op = "memfree"
				case x < 11:
					op = "reopen"
				default:
					op = vh.Pick(cr, []string{"fdwrite 0 aa", "fdflush", "fdclose"})
					if op == "fdclose" {
						fdOpen = false
					}
				}
				c.Ops = append(c.Ops, op)
				continue
			}
			switch {
			case k < 14:
				p := g.path(vh.Pick(cr, []string{"newdir", "newdir", "newdir", "dir", "file"}))
				parents := cr.Intn(3) > 0
				mode, mt := vh.Pick(cr, modes), cr.Intn(3)
				op = fmt.Sprintf("mkdir %s %d %d %o %d", p, b2i(parents), b2i(cr.Chance(1, 4)), mode, mt)
				specMkdir(g.t, parsePath(p), parents, uint32(mode), mt)
			case k < 30:
				p := g.path(vh.Pick(cr, []string{"newfile", "newfile", "newfile", "newdir", "any"}))
				k := cr.Intn(len(putPool))
				op = fmt.Sprintf("put %s %d", p, k)
				specPut(g.t, parsePath(p), putPool[k]())
			case k < 52:
				src := g.path(vh.Pick(cr, []string{"any", "any", "any", "file", "dir"}))
				dst := g.path(vh.Pick(cr, []string{"dir", "dir", "newfile", "newdir", "file", "any"}))
				op = fmt.Sprintf("mv %s %s", src, dst)
				specMv(g.t, parsePath(src), parsePath(dst))
			case k < 58:
				p := g.path("any")
				op = fmt.Sprintf("rm %s", p)
				specRm(g.t, parsePath(p))
			case k < 63:
				p, m := strings.TrimSuffix(g.path("any"), "/"), vh.Pick(cr, modes)
				if p == "" {
					p = "/"
				}
				op = fmt.Sprintf("chmod %s %o", p, m)
				if n, cl := g.t.walk(parsePath(p).comps); cl == "ok" {
					n.mode = uint32(m)
				}
			case k < 68:
				p, tk := strings.TrimSuffix(g.path("any"), "/"), cr.Intn(4)
				if p == "" {
					p = "/"
				}
				op = fmt.Sprintf("touch %s %d", p, tk)
				if n, cl := g.t.walk(parsePath(p).comps); cl == "ok" {
					n.mt = tk
				}
			case k < 78:
				op = fmt.Sprintf("write %s %d %s %d", g.path("file"), cr.Intn(4), vh.Hex(cr.Bytes(cr.Intn(5))), cr.Intn(3))
			case k < 81:
				op = fmt.Sprintf("trunc %s %d %d", g.path("file"), cr.Intn(6), cr.Intn(3))
			case k < 84:
				op = fmt.Sprintf("read %s", g.path("file"))
			case k < 91:
				p := strings.TrimSuffix(g.path(vh.Pick(cr, []string{"any", "dir", "dir"})), "/") + vh.Pick(cr, []string{"", "", "/"})
				if p == "" {
					p = "/"
				}
				op = fmt.Sprintf("flush %s", p)
			case k < 94:
				op = fmt.Sprintf("stat %s", g.path("any"))
			case k < 97:
				op = fmt.Sprintf("ls %s", g.path("dir"))
			default:
				op = fmt.Sprintf("lsl %s", g.path("dir"))
			}
			op = strings.ReplaceAll(op, "//", "/")
			c.Ops = append(c.Ops, op)
		}
		c.Ops = append(c.Ops, "flush /")
		emit(c)
	}
}

func b2i(b bool) int {
	if b {
		return 1
	}
	return 0
}

// ---------------------------------------------------------------------------------------------
// exec

func class(err error) string {
	if err == nil {
		return "ok"
	}
	msg := err.Error()
	switch {
	case errors.Is(err, os.ErrNotExist):
		return "notfound"
	case errors.Is(err, os.ErrExist), errors.Is(err, mfs.ErrDirExists):
		return "exists"
	case strings.Contains(msg, "ot a directory"):
		return "notdir"
	case msg == "cannot create file with empty name", msg == "no path given to Mkdir":
		return "invalid"
	case strings.HasSuffix(msg, "Already exists"):
		return "rootexists"
	case strings.Contains(msg, "into itself"):
		return "intoself"
	}
	return "other:" + strings.ReplaceAll(strings.ReplaceAll(msg, " ", "_"), "\n", "_")
}

func (w *world) buildNode(n *node, raw bool) ipld.Node {
	if !n.dir {
		if raw {
			return dag.NewRawNode(n.data)
		}
		nd := dag.NodeWithData(ft.FilePBDataWithStat(n.data, uint64(len(n.data)), os.FileMode(n.mode), mtTime(n.mt)))
		must(w.ds.Add(w.ctx, nd))
		return nd
	}
	d, err := uio.NewDirectory(w.ds, uio.WithStat(os.FileMode(n.mode), mtTime(n.mt)))
	must(err)
	names := make([]string, 0, len(n.kids))
	for k := range n.kids {
		names = append(names, k)
	}
	sort.Strings(names)
	for _, k := range names {
		c := w.buildNode(n.kids[k], n.kids[k].raw)
		must(w.ds.Add(w.ctx, c))
		must(d.AddChild(w.ctx, k, c))
	}
	nd, err := d.GetNode()
	must(err)
	must(w.ds.Add(w.ctx, nd))
	return nd
}

func must(err error) {
	if err != nil {
		panic(err)
	}
}

func exec(c vh.Case, o *vh.Out) {
	ctx, cancel := context.WithCancel(context.Background())
	defer cancel()
	w := &world{ctx: ctx, ds: mdtest.Mock()}
	var spec *node
	defer func() {
		if w.root != nil {
			w.root.Close()
		}
	}()
	hamtSeen := false

	// emit the op's result followed by the full live state; returns the view
	emit := func(res string, extra string) *node {
		var sb strings.Builder
		w.fdSeen = false
		v, err := w.readL(w.root.GetDirectory(), &sb, o)
		if err != nil {
			o.Emit("%s | state-unreadable:%s", res, strings.ReplaceAll(err.Error(), " ", "_"))
			return nil
		}
		fds := "-"
		if w.fd != nil {
			// attached = still the object cached under its path; once detached it never comes back
			w.fdAtt = w.fdAtt && w.fdSeen
			sz, err := w.fd.Size()
			if err != nil {
				o.Fail("fd-size", "%v", err)
			}
			a := "d"
			if w.fdAtt {
				a = "a"
			}
			fds = fmt.Sprintf("%s:%s:%d", a, join(w.fdPath), sz)
		}
		o.Emit("%s | %s%s | fd=%s", res, sb.String(), extra, fds)
		return v
	}
	var pf mfs.PubFunc
	var rootOpts []mfs.Option
	nopub := false
	// the monitor's descriptor: bytes written through it reach the file at its path when it is flushed,
	// as long as neither that entry nor an entry above it was removed or replaced
	type specFd struct {
		path  []string
		buf   []byte
		sync  bool
		clean bool
		alive bool
	}
	var sfd *specFd
	defer func() {
		if w.fd != nil {
			w.fd.Close()
		}
	}()

	// the two operations that may be run inside another one's propagation gap
	realIntruder := func(f []string) string {
		switch f[0] {
		case "mv":
			return class(mfs.Mv(w.root, f[1], f[2]))
		case "rm":
			dirp, name := parsePath(f[1]).split()
			d, err := mfs.Lookup(w.root, "/"+strings.Join(dirp, "/"))
			if err != nil {
				return class(err)
			}
			dd, ok := d.(*mfs.Directory)
			if !ok {
				return "notdir"
			}
			return class(dd.Unlink(name))
		}
		return "bad-intruder"
	}
	for idx, line := range c.Ops {
		f := strings.Fields(line)
		// race <k> <mv|rm ...> @ <trigger op ...>: the first op runs completely at the k-th
		// "Directory.updateChildEntry:localDone" schedule point reached by the trigger op (after it, if the
		// trigger does not get that far)
		racing, raceK := false, 0
		var raceIntr []string
		if f[0] == "race" {
			at := 0
			for i, t := range f {
				if t == "@" {
					at = i
				}
			}
			if at < 3 || at+1 >= len(f) {
				o.Emit("bad-op")
				continue
			}
			racing, raceK, raceIntr, f = true, vh.Atoi(f[1]), f[2:at], f[at+1:]
			o.Kind("race")
		}
		if f[0] == "cfg" {
			if w.root != nil {
				o.Emit("bad-op")
				continue
			}
			var opts []mfs.Option
			if ml := vh.Atoi(f[1]); ml > 0 {
				opts = append(opts, mfs.WithMaxLinks(ml))
				o.Kind("maxlinks")
			}
			if sh := vh.Atoi(f[2]); sh > 0 {
				opts = append(opts, mfs.WithHAMTShardingSize(sh))
				o.Kind("shardsize")
			}
			nopub = len(f) > 3 && f[3] == "1"
			if !nopub {
				pf = func(_ context.Context, c cid.Cid) error {
					w.mu.Lock()
					w.pub = c
					w.mu.Unlock()
					return nil
				}
			} else {
				o.Kind("nopub")
			}
			rootOpts = opts
			rt, err := mfs.NewEmptyRoot(ctx, w.ds, pf, nil, opts...)
			must(err)
			w.root = rt
			nd, err := rt.GetDirectory().VerifUnixfsNode()
			must(err)
			w.pub = nd.Cid()
			spec = &node{dir: true, kids: map[string]*node{}}
			emit("ok", "")
			continue
		}
		if w.root == nil {
			o.Emit("bad-op")
			continue
		}
		pre := spec.clone()
		wantClass := ""    // class the spec expects ("" = not judged)
		viewMustBe := spec // expected view after the op (spec is updated in place by mutating ops)
		res, extra := "", ""
		o.Kind(f[0])
		// Operations that would block on the open file's desclock, or that make a directory above the open
		// file drop its live children (a directory Flush), are not executed while the descriptor is attached.
		if w.fd != nil {
			busy := false
			switch f[0] {
			case "write", "trunc", "read":
				busy = w.fdAtt && eqPath(parsePath(f[1]).comps, w.fdPath)
			case "flush":
				busy = w.fdAtt && isPrefix(parsePath(f[1]).comps, w.fdPath)
			case "mkdir":
				busy = w.fdAtt && f[3] == "1" && isPrefix(parsePath(f[1]).comps, w.fdPath)
			case "memfree":
				busy = w.fdAtt
			case "reopen", "fdopen":
				busy = true
			}
			if busy {
				o.Kind("busy-" + f[0])
				bres := "busy"
				if racing {
					bres = "busy ; busy"
				}
				view := emit(bres, "")
				if view != nil && view.String() != pre.String() {
					o.Fail("busy-op-changed-tree", "op %d %q", idx, line)
				}
				continue
			}
		}
		intrDone, intrRes, fired := false, "", 0
		if racing {
			mfs.VerifSchedHook = func(pt string) {
				if pt != "Directory.updateChildEntry:localDone" || intrDone {
					return
				}
				fired++
				if fired == raceK {
					intrDone = true
					intrRes = realIntruder(raceIntr)
					o.Kind("race-in-gap")
				}
			}
		}
		specFlushUp := func(full bool) {
			// flushUp of the monitor's descriptor
			if sfd.clean {
				return
			}
			sfd.clean = true
			if !sfd.alive {
				return
			}
			if n, cl := spec.walk(sfd.path); cl == "ok" && !n.dir {
				n.data = append([]byte(nil), sfd.buf...)
			}
		}
		switch f[0] {
		case "fdopen":
			p := parsePath(f[1])
			res = func() string {
				fsn, err := mfs.Lookup(w.root, f[1])
				if err != nil {
					return class(err)
				}
				if mfs.IsDir(fsn) || !mfs.IsFile(fsn) {
					return "isdir"
				}
				fi := fsn.(*mfs.File)
				fd, err := fi.Open(ctx, mfs.Flags{Write: true, Sync: f[2] == "1"})
				if err != nil {
					return class(err)
				}
				w.fd, w.fdFile, w.fdPath, w.fdAtt = fd, fi, p.comps, true
				return "ok"
			}()
			if n, cl := spec.walk(p.comps); cl != "ok" {
				wantClass = cl
			} else if n.dir {
				wantClass = "isdir"
			} else {
				wantClass = "ok"
				sfd = &specFd{path: p.comps, buf: append([]byte(nil), n.data...), sync: f[2] == "1", alive: true}
			}
		case "fdwrite", "fdtrunc", "fdflush", "fdclose":
			if w.fd == nil {
				res, wantClass = "nofd", "nofd"
				break
			}
			if sfd == nil {
				sfd = &specFd{path: w.fdPath}
			}
			switch f[0] {
			case "fdwrite":
				b := vh.UnHex(f[2])
				n, err := w.fd.WriteAt(b, int64(vh.Atoi(f[1])))
				res = class(err)
				if err == nil && n != len(b) {
					res = "short-write"
				}
				sfd.buf, sfd.clean = writeAt(sfd.buf, vh.Atoi(f[1]), b), false
			case "fdtrunc":
				res = class(w.fd.Truncate(int64(vh.Atoi(f[1]))))
				sfd.buf, sfd.clean = truncTo(sfd.buf, vh.Atoi(f[1])), false
			case "fdflush":
				res = class(w.fd.Flush())
				specFlushUp(true)
			case "fdclose":
				res = class(w.fd.Close())
				specFlushUp(sfd.sync)
				if w.fdAtt {
					o.Kind("fdclose-attached")
				} else {
					o.Kind("fdclose-detached")
				}
				w.fd, w.fdFile, w.fdPath, w.fdAtt = nil, nil, nil, false
			}
			wantClass = "ok"
		case "dmkdir":
			p := parsePath(f[1])
			res = func() string {
				d, err := mfs.Lookup(w.root, f[1])
				if err != nil {
					return class(err)
				}
				dd, ok := d.(*mfs.Directory)
				if !ok {
					return "notdir"
				}
				if idx%2 == 0 {
					_, err = dd.Mkdir(f[2])
				} else {
					_, err = dd.MkdirWithOpts(f[2])
				}
				return class(err)
			}()
			if d, cl := spec.walkDir(p.comps); cl != "ok" {
				wantClass = cl
			} else if _, ok := d.kids[f[2]]; ok {
				wantClass = "exists"
			} else {
				d.kids[f[2]] = &node{dir: true, kids: map[string]*node{}}
				wantClass = "ok"
			}
		case "rflush":
			res, wantClass = class(w.root.Flush()), "ok"
		case "memfree":
			res, wantClass = class(w.root.FlushMemFree(ctx)), "ok"
		case "reopen":
			// Close the root and load a new one from the root directory's node (an existing DAG)
			res = func() string {
				nd, err := w.root.GetDirectory().GetNode()
				if err != nil {
					return class(err)
				}
				if err := w.root.Close(); err != nil {
					return "close-" + class(err)
				}
				pn, ok := nd.(*dag.ProtoNode)
				if !ok {
					return "root-not-protonode"
				}
				rt, err := mfs.NewRoot(ctx, w.ds, pn, pf, nil, rootOpts...)
				if err != nil {
					return "newroot-" + class(err)
				}
				w.root = rt
				w.mu.Lock()
				w.pub = nd.Cid()
				w.mu.Unlock()
				return "ok"
			}()
			wantClass = "ok"
		case "mkdir":
			p := parsePath(f[1])
			parents, flush := f[2] == "1", f[3] == "1"
			mode64, _ := strconv.ParseUint(f[4], 8, 32)
			mt := vh.Atoi(f[5])
			err := mfs.Mkdir(w.root, f[1], mfs.MkdirOpts{Mkparents: parents, Flush: flush},
				mfs.WithMode(os.FileMode(mode64)), mfs.WithModTime(mtTime(mt)))
			res = class(err)
			wantClass = specMkdir(spec, p, parents, uint32(mode64), mt)
		case "put":
			p := parsePath(f[1])
			k := vh.Atoi(f[2])
			pn := putPool[k]()
			nd := w.buildNode(pn, pn.raw)
			err := mfs.PutNode(w.root, f[1], nd)
			res = class(err)
			wantClass = specPut(spec, p, pn)
		case "rm":
			p := parsePath(f[1])
			dirp, name := p.split()
			res = func() string {
				d, err := mfs.Lookup(w.root, "/"+strings.Join(dirp, "/"))
				if err != nil {
					return class(err)
				}
				dd, ok := d.(*mfs.Directory)
				if !ok {
					return "notdir"
				}
				return class(dd.Unlink(name))
			}()
			wantClass = specRm(spec, p)
			if wantClass == "ok" && sfd != nil && isPrefix(append(append([]string(nil), dirp...), name), sfd.path) {
				sfd.alive = false
			}
		case "mv":
			src, dst := parsePath(f[1]), parsePath(f[2])
			err := mfs.Mv(w.root, f[1], f[2])
			res = class(err)
			var final []string
			wantClass, final = specMv(spec, src, dst)
			if res == "intoself" {
				o.Kind("mv-into-self-refused")
			}
			if wantClass == "ok" && sfd != nil && !src.trailing && len(src.comps) > 0 &&
				(isPrefix(src.comps, sfd.path) || eqPath(final, sfd.path)) {
				// the open file's entry, or one above it, was moved away / replaced
				sfd.alive = false
			}
			if res == "ok" && wantClass == "ok" {
				o.Kind("mv-ok")
				if len(src.comps) > 0 && !src.trailing {
					sd, dd := src.comps[:len(src.comps)-1], final[:len(final)-1]
					if !eqPath(sd, dd) && len(sd) > 0 && len(dd) > 0 && sd[len(sd)-1] == dd[len(dd)-1] {
						o.Kind("mv-samename-dirs")
					}
					if eqPath(src.comps, final) {
						o.Kind("mv-samepath")
					}
				}
				o.Nontrivial()
			}
		case "chmod", "touch":
			p := parsePath(f[1])
			var err error
			if f[0] == "chmod" {
				m, _ := strconv.ParseUint(f[2], 8, 32)
				err = mfs.Chmod(w.root, f[1], os.FileMode(m))
				if n, cl := spec.walk(p.comps); cl == "ok" {
					n.mode = uint32(m)
					wantClass = "ok"
				} else {
					wantClass = cl
				}
			} else {
				tk := vh.Atoi(f[2])
				err = mfs.Touch(w.root, f[1], mtTime(tk))
				if n, cl := spec.walk(p.comps); cl == "ok" {
					n.mt = tk
					wantClass = "ok"
				} else {
					wantClass = cl
				}
			}
			res = class(err)
		case "write", "trunc":
			p := parsePath(f[1])
			res = func() string {
				fsn, err := mfs.Lookup(w.root, f[1])
				if err != nil {
					return class(err)
				}
				fi, ok := fsn.(*mfs.File)
				if !ok {
					return "isdir"
				}
				// mode 0: no Sync, Close only; 1: Sync descriptor; 2: no Sync, explicit fd.Flush() before Close
				mode := f[len(f)-1]
				fd, err := fi.Open(ctx, mfs.Flags{Write: true, Sync: mode == "1"})
				if err != nil {
					return class(err)
				}
				if f[0] == "write" {
					if _, err := fd.Seek(int64(vh.Atoi(f[2])), io.SeekStart); err != nil {
						fd.Close()
						return "seek-" + class(err)
					}
					b := vh.UnHex(f[3])
					if n, err := fd.Write(b); err != nil || n != len(b) {
						fd.Close()
						return "write-" + class(err)
					}
				} else {
					if err := fd.Truncate(int64(vh.Atoi(f[2]))); err != nil {
						fd.Close()
						return "trunc-" + class(err)
					}
				}
				if mode == "2" {
					if err := fd.Flush(); err != nil {
						fd.Close()
						return "fdflush-" + class(err)
					}
				}
				return class(fd.Close())
			}()
			o.Kind(f[0] + "-mode" + f[len(f)-1])
			if n, cl := spec.walk(p.comps); cl != "ok" {
				wantClass = cl
			} else if n.dir {
				wantClass = "isdir"
			} else {
				wantClass = "ok"
				if f[0] == "write" {
					n.data = writeAt(n.data, vh.Atoi(f[2]), vh.UnHex(f[3]))
				} else {
					n.data = truncTo(n.data, vh.Atoi(f[2]))
				}
			}
		case "read":
			p := parsePath(f[1])
			res = func() string {
				fsn, err := mfs.Lookup(w.root, f[1])
				if err != nil {
					return class(err)
				}
				fi, ok := fsn.(*mfs.File)
				if !ok {
					return "isdir"
				}
				fd, err := fi.Open(ctx, mfs.Flags{Read: true})
				if err != nil {
					return class(err)
				}
				var b []byte
				if sz, serr := fd.Size(); serr == nil && sz > 0 && idx%2 == 0 {
					b = make([]byte, sz)
					n, rerr := fd.CtxReadFull(ctx, b)
					if rerr != nil && rerr != io.EOF && rerr != io.ErrUnexpectedEOF {
						fd.Close()
						return "read-" + class(rerr)
					}
					b = b[:n]
				} else {
					b, err = io.ReadAll(fd)
					if err != nil {
						fd.Close()
						return "read-" + class(err)
					}
				}
				if err := fd.Close(); err != nil {
					return "close-" + class(err)
				}
				return "ok " + vh.Hex(b)
			}()
			if n, cl := spec.walk(p.comps); cl != "ok" {
				wantClass = cl
			} else if n.dir {
				wantClass = "isdir"
			} else {
				wantClass = "ok " + vh.Hex(n.data)
			}
		case "flush":
			p := parsePath(f[1])
			_, err := mfs.FlushPath(ctx, w.root, f[1])
			res = class(err)
			_, wantClass = spec.walk(p.comps)
			w.mu.Lock()
			pc := w.pub
			w.mu.Unlock()
			if res != "ok" || nopub || racing {
				// nothing was waited for: the republisher may still hold newer values (or there is none)
				break
			}
			pn, perr := w.readCid(pc)
			if perr != nil {
				extra = " | pub-unreadable:" + strings.ReplaceAll(perr.Error(), " ", "_")
				o.Fail("published-root-unreadable", "%v", perr)
			} else {
				extra = " | pub=" + pn.String()
				if res == "ok" {
					// the property's last clause, evaluated directly: what was flushed is in the published DAG
					want, _ := spec.walk(p.comps)
					got, cl := pn.walk(p.comps)
					if want != nil && (cl != "ok" || got.String() != want.String()) {
						sig := "flush-not-persisted"
						if len(p.comps) == 0 {
							sig = "root-flush-not-persisted"
						}
						o.Fail(sig, "flush %s: published %v, tree %v", f[1], got, want)
					}
					if hasHamt(w, pc) {
						hamtSeen = true
					}
				}
			}
		case "stat":
			p := parsePath(f[1])
			res = func() string {
				fsn, err := mfs.Lookup(w.root, f[1])
				if err != nil {
					return class(err)
				}
				switch x := fsn.(type) {
				case *mfs.Directory:
					m, err := x.Mode()
					if err != nil {
						return "mode-" + class(err)
					}
					t, err := x.ModTime()
					if err != nil {
						return "mtime-" + class(err)
					}
					if got := x.Path(); got != join(p.comps) {
						o.Fail("dir-path", "Directory.Path() = %q at %q", got, join(p.comps))
					}
					return fmt.Sprintf("ok dir %o %s", uint32(m.Perm()), mtStr(mtTok(t)))
				case *mfs.File:
					if w.fd == nil {
						if err := x.Sync(); err != nil {
							return "sync-" + class(err)
						}
					}
					m, err := x.Mode()
					if err != nil && !errors.Is(err, ft.ErrNotProtoNode) {
						return "mode-" + class(err)
					}
					t, err := x.ModTime()
					if err != nil && !errors.Is(err, ft.ErrNotProtoNode) {
						return "mtime-" + class(err)
					}
					sz, err := x.Size()
					if err != nil {
						return "size-" + class(err)
					}
					return fmt.Sprintf("ok file %o %s %d", uint32(m.Perm()), fmtStr(mtTok(t)), sz)
				}
				return "unknown"
			}()
			if n, cl := spec.walk(p.comps); cl != "ok" {
				wantClass = cl
			} else if n.dir {
				wantClass = fmt.Sprintf("ok dir %o %s", n.mode, mtStr(n.mt))
			} else {
				wantClass = fmt.Sprintf("ok file %o %s %d", n.mode, fmtStr(n.mt), len(n.data))
			}
		case "ls", "lsl":
			p := parsePath(f[1])
			res = func() string {
				fsn, err := mfs.Lookup(w.root, f[1])
				if err != nil {
					return class(err)
				}
				d, ok := fsn.(*mfs.Directory)
				if !ok {
					return "ok file"
				}
				if f[0] == "ls" {
					names, err := d.ListNames(ctx)
					if err != nil {
						return "list-" + class(err)
					}
					sort.Strings(names)
					return "ok [" + strings.Join(names, ",") + "]"
				}
				ls, err := d.List(ctx)
				if err != nil {
					return "list-" + class(err)
				}
				var es []string
				for _, l := range ls {
					if l.Type == int(mfs.TDir) {
						es = append(es, l.Name+"/")
					} else {
						es = append(es, fmt.Sprintf("%s:%d", l.Name, l.Size))
					}
				}
				sort.Strings(es)
				return "ok [" + strings.Join(es, ",") + "]"
			}()
			if n, cl := spec.walk(p.comps); cl != "ok" {
				wantClass = cl
			} else if !n.dir {
				wantClass = "ok file"
			} else {
				var es []string
				for k, v := range n.kids {
					switch {
					case f[0] == "ls":
						es = append(es, k)
					case v.dir:
						es = append(es, k+"/")
					default:
						es = append(es, fmt.Sprintf("%s:%d", k, len(v.data)))
					}
				}
				sort.Strings(es)
				wantClass = "ok [" + strings.Join(es, ",") + "]"
			}
		default:
			o.Emit("bad-op")
			continue
		}
		if racing {
			mfs.VerifSchedHook = nil
			if !intrDone {
				intrRes = realIntruder(raceIntr)
				o.Kind("race-after")
			}
			// tree semantics: the trigger, then the intruder
			iwant := "bad-intruder"
			switch raceIntr[0] {
			case "mv":
				src, dst := parsePath(raceIntr[1]), parsePath(raceIntr[2])
				var final []string
				iwant, final = specMv(spec, src, dst)
				if iwant == "ok" && sfd != nil && !src.trailing && len(src.comps) > 0 &&
					(isPrefix(src.comps, sfd.path) || eqPath(final, sfd.path)) {
					sfd.alive = false
				}
			case "rm":
				p := parsePath(raceIntr[1])
				dirp, name := p.split()
				iwant = specRm(spec, p)
				if iwant == "ok" && sfd != nil && isPrefix(append(append([]string(nil), dirp...), name), sfd.path) {
					sfd.alive = false
				}
			}
			o.Kind("race-intruder-" + intrRes)
			res, extra = res+" ; "+intrRes, ""
			if wantClass != "" {
				wantClass = wantClass + " ; " + iwant
			}
		}
		o.Kind(f[0] + "-" + strings.SplitN(res, " ", 2)[0])
		view := emit(res, extra)

		// ---- monitor: the property's own predicates on the implementation's results
		if view == nil {
			o.Fail("state-unreadable", "op %d %s", idx, line)
			continue
		}
		if sfd != nil && w.fd != nil && sfd.alive != w.fdAtt {
			o.Fail("fd-attachment", "op %d %q: descriptor on %s attached=%v, tree semantics alive=%v", idx, line, join(sfd.path), w.fdAtt, sfd.alive)
			sfd.alive = w.fdAtt
		}
		fdWasAlive := sfd != nil && sfd.alive
		if (f[0] == "fdflush" || f[0] == "fdclose") && sfd != nil {
			// a flush of the descriptor must not undo a chmod/touch made since it was opened
			vn, c1 := view.walk(sfd.path)
			sn, c2 := spec.walk(sfd.path)
			if sfd.alive && c1 == "ok" && c2 == "ok" && !vn.dir && !sn.dir && string(vn.data) == string(sn.data) &&
				(vn.mode != sn.mode || (vn.mt == 0) != (sn.mt == 0)) {
				o.Fail("fd-flush-reverts-metadata", "op %d %q: file %s shows %v, tree semantics give %v", idx, line, join(sfd.path), vn, sn)
				sn.mode, sn.mt = vn.mode, vn.mt
			}
			if f[0] == "fdclose" {
				sfd = nil
			}
		}
		resClass := strings.SplitN(res, " ", 2)[0]
		if racing && resClass != "ok" && strings.HasSuffix(res, " ; ok") {
			resClass = "ok" // the intruder succeeded: the tree may have changed
		}
		if resClass != "ok" && view.String() != pre.String() {
			o.Fail("failed-op-changed-tree-"+f[0], "op %d %q returned %s; tree before %v after %v", idx, line, res, pre, view)
			// keep following the implementation so that one defect is reported once
			spec = view.clone()
			continue
		}
		if wantClass == "intoself" && res == "ok" {
			o.Fail("mv-into-own-subtree", "op %d %q returned ok; tree before %v after %v", idx, line, pre, view)
			spec = view.clone()
			continue
		}
		if wantClass != "" && res != wantClass {
			o.Fail("result-"+f[0], "op %d %q returned %q, tree semantics give %q", idx, line, res, wantClass)
			spec = view.clone()
			continue
		}
		if view.String() != viewMustBe.String() {
			sig := "tree-" + f[0]
			if racing {
				sig = "race-tree"
				// the directory (or file) the intruder moved away / removed is back under its old name
				gone := parsePath(raceIntr[1]).comps
				if _, cl := view.walk(gone); cl == "ok" {
					if _, cl2 := viewMustBe.walk(gone); cl2 != "ok" {
						sig = "race-unlinked-entry-written-back"
					}
				}
			}
			switch f[0] {
			case "fdwrite", "fdtrunc":
				// nothing reaches the tree before the descriptor is flushed
				sig = "fd-unflushed-write-visible"
			case "fdflush", "fdclose":
				if !fdWasAlive {
					sig = "fd-detached-flush-changed-tree"
				}
				if racing && sameButFileMeta(view, viewMustBe) {
					// the flush put the open-time metadata back (known), then the intruder moved the file away
					sig = "fd-flush-reverts-metadata"
				}
			}
			if f[0] == "mv" {
				src := parsePath(f[1])
				if _, cl := view.walk(src.comps); cl == "ok" {
					if _, cl2 := viewMustBe.walk(src.comps); cl2 != "ok" {
						sig = "mv-source-kept"
					}
				}
			}
			o.Fail(sig, "op %d %q: tree is %v, tree semantics give %v", idx, line, view, viewMustBe)
			spec = view.clone()
		}
	}
	if hamtSeen {
		o.Kind("hamt-dir-published")
	}
}

// hasHamt reports whether some directory reachable from c is stored as a HAMT shard.
func hasHamt(w *world, c cid.Cid) bool {
	nd, err := w.ds.Get(w.ctx, c)
	if err != nil {
		return false
	}
	pn, ok := nd.(*dag.ProtoNode)
	if !ok {
		return false
	}
	fsn, err := ft.FSNodeFromBytes(pn.Data())
	if err != nil {
		return false
	}
	switch fsn.Type() {
	case ft.THAMTShard:
		return true
	case ft.TDirectory:
		for _, l := range pn.Links() {
			if hasHamt(w, l.Cid) {
				return true
			}
		}
	}
	return false
}

func main() { vh.Main(vh.Config{Gen: gen, Exec: exec, CaseTimeout: 60 * time.Second}) }
