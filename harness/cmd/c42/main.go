// C42 harness: the real delegated-routing HTTP server (httptest) in front of a scripted router, queried by
// the real client, with IPIP-484 filters and record limits, in JSON and NDJSON mode.
//
// Ops:
//
//	srv <jsonLimit> <ndjsonLimit> <stream 0|1>      server options (stream 0 = WithStreamingResultsDisabled: JSON answers)
//	addrs <idx>=<code>+<code>… …                    protocol codes of the multiaddr pool (observed; parameter of the model)
//	names <name>=<code> …                           multiaddr.ProtocolWithName(name).Code (observed; parameter of the model)
//	recs <rec> …   rec = E | <schema 0 peer|1 bitswap>:<peer idx>:<protocols p,p|->:<addr idxs i,i|->
//	find <prov|peers> <local 0|1> <filter-addrs|-> <filter-protocols|->    -> n=<k> id:[protocols]:[addrs];…
//	ipns <ok|badsig|wrongname>                      PUT then GET of an IPNS record through client and server
package main

import (
	"bytes"
	"context"
	"crypto/sha256"
	"encoding/json"
	"errors"
	"fmt"
	"io"
	"mime"
	"net/http"
	"net/http/httptest"
	"sort"
	"strconv"
	"strings"
	"time"

	"github.com/ipfs/boxo/ipns"
	ipns_pb "github.com/ipfs/boxo/ipns/pb"
	"github.com/ipfs/boxo/path"
	"github.com/ipfs/boxo/routing/http/client"
	"github.com/ipfs/boxo/routing/http/filters"
	"github.com/ipfs/boxo/routing/http/server"
	"github.com/ipfs/boxo/routing/http/types"
	"github.com/ipfs/boxo/routing/http/types/iter"
	jsontypes "github.com/ipfs/boxo/routing/http/types/json"
	"github.com/ipfs/boxo/routing/http/types/ndjson"
	"github.com/ipfs/go-cid"
	logging "github.com/ipfs/go-log/v2"
	"github.com/libp2p/go-libp2p/core/crypto"
	"github.com/libp2p/go-libp2p/core/peer"
	"github.com/libp2p/go-libp2p/core/routing"
	"github.com/multiformats/go-multiaddr"
	mh "github.com/multiformats/go-multihash"
	"google.golang.org/protobuf/proto"

	"verifharness/vh"
)

func init() { logging.SetLogLevel("*", "fatal") }

var addrPool = func() []multiaddr.Multiaddr {
	var out []multiaddr.Multiaddr
	for _, s := range []string{
		"/ip4/127.0.0.1/tcp/4001",
		"/ip4/1.2.3.4/udp/4001/quic-v1",
		"/ip4/1.2.3.4/udp/4001/quic-v1/webtransport",
		"/ip6/::1/tcp/4001/ws",
		"/dns4/example.com/tcp/443/tls/http",
		"/ip4/8.8.8.8/udp/4001/webrtc-direct",
		"/dns/example.com/tcp/443/wss",
		"/ip4/1.2.3.4/tcp/4001/p2p/12D3KooWGC6TvWhfapngX6wvJHMYvKpDMXPb3ZnCZ6dMoaMtimQ5/p2p-circuit",
		"/ip4/5.6.7.8/tcp/80/http",
		"/dns6/example.org/udp/443/quic-v1",
	} {
		out = append(out, multiaddr.StringCast(s))
	}
	return out
}()

var filterNames = []string{"tcp", "udp", "quic-v1", "webtransport", "ws", "wss", "tls", "http", "webrtc-direct", "ip4", "ip6",
	"dns4", "dns", "p2p-circuit", "unknown", "bogus", "quic"}

var recProtocols = []string{"transport-bitswap", "transport-ipfs-gateway-http", "transport-graphsync-filecoinv1", "Transport-Bitswap", "x",
	"transport-ä", "TRANSPORT-Ä", "σίσ", "ſtrasse", "\u212a"} // beyond ASCII: umlaut, Greek, long s, Kelvin sign
var filterProtocols = []string{"transport-bitswap", "transport-ipfs-gateway-http", "transport-graphsync-filecoinv1", "unknown", "x", "y",
	"TRANSPORT-Ä", "transport-ä", "ΣΊΣ", "strasse", "k", "\u212a"}

func peerID(i int) peer.ID {
	h := sha256.Sum256([]byte(fmt.Sprintf("peer-%d", i)))
	m, _ := mh.Encode(h[:], mh.SHA2_256)
	return peer.ID(m)
}

func peerIdx(p peer.ID) int {
	for i := 0; i < 64; i++ {
		if peerID(i) == p {
			return i
		}
	}
	return -1
}

func addrIdx(a types.Multiaddr) int {
	for i, b := range addrPool {
		if a.Multiaddr != nil && a.Multiaddr.Equal(b) {
			return i
		}
	}
	return -1
}

func codesOf(a multiaddr.Multiaddr) []int {
	var cs []int
	for _, p := range a.Protocols() {
		cs = append(cs, p.Code)
	}
	return cs
}

// ---------------------------------------------------------------- generator

func genFilter(r *vh.Rand, names []string, neg bool, tier string) string {
	if r.Chance(2, 5) {
		return "-"
	}
	n := r.Range(1, 3)
	var ts []string
	for i := 0; i < n; i++ {
		t := vh.Pick(r, names)
		switch r.Intn(10) { // filter values are case-insensitive
		case 0:
			t = strings.ToUpper(t)
		case 1:
			t = strings.ToUpper(t[:1]) + t[1:]
		}
		if neg && r.Chance(1, 3) {
			t = "!" + t
		}
		ts = append(ts, t)
	}
	return strings.Join(ts, ",")
}

func gen(r *vh.Rand, tier string, n int, emit func(vh.Case)) {
	var addrTab, nameTab []string
	for i, a := range addrPool {
		var cs []string
		for _, c := range codesOf(a) {
			cs = append(cs, strconv.Itoa(c))
		}
		addrTab = append(addrTab, fmt.Sprintf("%d=%s", i, strings.Join(cs, "+")))
	}
	for _, nm := range filterNames {
		nameTab = append(nameTab, fmt.Sprintf("%s=%d", nm, multiaddr.ProtocolWithName(nm).Code))
	}
	maxRecs := 30
	for i := 0; i < n; i++ {
		c := vh.Case{ID: strconv.Itoa(i)}
		if r.Chance(1, 12) {
			c.Ops = append(c.Ops, "srv 0 0 1", "ipns "+vh.Pick(r, []string{"ok", "ok", "badsig", "wrongname"}))
			for j, m := 0, r.Range(1, 4); j < m; j++ {
				if r.Bool() {
					c.Ops = append(c.Ops, "put "+vh.Pick(r, []string{"ok", "ok", "noct", "badcid", "notname", "garbage", "toolong", "badsig",
						"wrongname", "expired", "routererr"}))
				} else {
					c.Ops = append(c.Ops, fmt.Sprintf("getipns %s %s %s", vh.Pick(r, []string{"none", "wild", "ipns", "json", "json+ipns", "html"}),
						vh.Pick(r, []string{"ok", "ok", "ok", "badcid", "notname"}), vh.Pick(r, []string{"found", "found", "notfound", "err"})))
				}
			}
			emit(c)
			continue
		}
		c.Ops = append(c.Ops, fmt.Sprintf("srv %d %d %d", r.Range(-1, 40), r.Range(-1, 40), r.Intn(2)),
			"addrs "+strings.Join(addrTab, " "), "names "+strings.Join(nameTab, " "))
		nr := r.Intn(maxRecs + 1)
		if r.Chance(1, 3) {
			nr = r.Intn(6)
		}
		var recs []string
		for j := 0; j < nr; j++ {
			if r.Chance(1, 25) {
				recs = append(recs, "E")
				continue
			}
			schema := 0
			ps := "-"
			if r.Chance(1, 4) {
				schema = 1
				ps = vh.Pick(r, recProtocols[:4])
			} else if !r.Chance(1, 4) {
				var pl []string
				for k, m := 0, r.Range(1, 3); k < m; k++ {
					pl = append(pl, vh.Pick(r, recProtocols))
				}
				ps = strings.Join(pl, ",")
			}
			as := "-"
			if !r.Chance(1, 5) {
				var al []string
				for k, m := 0, r.Range(1, 4); k < m; k++ {
					al = append(al, strconv.Itoa(r.Intn(len(addrPool))))
				}
				as = strings.Join(al, ",")
			}
			recs = append(recs, fmt.Sprintf("%d:%d:%s:%s", schema, r.Intn(40), ps, as))
		}
		c.Ops = append(c.Ops, strings.TrimSpace("recs "+strings.Join(recs, " ")))
		var params []string
		nfind := r.Range(1, 4)
		var finds []string
		for j := 0; j < nfind; j++ {
			fa, fp := genFilter(r, filterNames, true, tier), genFilter(r, filterProtocols, false, tier)
			params = append(params, fa, fp)
			if r.Chance(1, 3) {
				finds = append(finds, fmt.Sprintf("raw %s %s %s %s", vh.Pick(r, []string{"prov", "peers"}),
					vh.Pick(r, []string{"none", "json", "ndjson", "wild", "ndjson+json", "json+ndjson", "html", "html+ndjson", "jsonq+html",
						"bad", "json+bad", "wild+ndjson", "html+html"}), fa, fp))
			} else {
				finds = append(finds, fmt.Sprintf("find %s %d %s %s", vh.Pick(r, []string{"prov", "peers"}), r.Intn(2), fa, fp))
			}
		}
		// parameter tables: strings.ToLower of every parameter / term, strings.EqualFold of (protocol, lowered term)
		lowers, folds := map[string]bool{}, map[string]bool{}
		var terms []string
		for _, prm := range params {
			if prm == "-" {
				continue
			}
			for _, x := range append([]string{prm}, strings.Split(prm, ",")...) {
				if l := strings.ToLower(x); l != x {
					lowers[x+"="+l] = true
				}
			}
			terms = append(terms, strings.Split(strings.ToLower(prm), ",")...)
		}
		for _, rc := range recs {
			if rc == "E" {
				continue
			}
			ps := strings.Split(rc, ":")[2]
			if ps == "-" {
				continue
			}
			for _, pr := range strings.Split(ps, ",") {
				for _, t := range terms {
					if strings.EqualFold(pr, t) {
						folds[pr+"~"+t] = true
					}
				}
			}
		}
		keys := func(m map[string]bool) string {
			var ks []string
			for k := range m {
				ks = append(ks, k)
			}
			sort.Strings(ks)
			return strings.Join(ks, " ")
		}
		c.Ops = append(c.Ops, strings.TrimSpace("lowers "+keys(lowers)), strings.TrimSpace("folds "+keys(folds)))
		c.Ops = append(c.Ops, finds...)
		emit(c)
	}
}

// ---------------------------------------------------------------- scripted router

type rec struct {
	err       bool
	schema    int
	peer      int
	protocols []string
	addrs     []int
}

type router struct {
	recs     []rec
	ipns     map[string]*ipns.Record
	putCalls int
	putErr   bool
	getErr   bool
}

func (rt *router) maddrs(r rec) []types.Multiaddr {
	var as []types.Multiaddr
	for _, i := range r.addrs {
		as = append(as, types.Multiaddr{Multiaddr: addrPool[i]})
	}
	return as
}

func (rt *router) peerRecord(r rec) *types.PeerRecord {
	id := peerID(r.peer)
	return &types.PeerRecord{Schema: types.SchemaPeer, ID: &id, Protocols: append([]string(nil), r.protocols...), Addrs: rt.maddrs(r)}
}

var errSource = errors.New("scripted source error")

func (rt *router) FindProviders(context.Context, cid.Cid, int) (iter.ResultIter[types.Record], error) {
	var out []iter.Result[types.Record]
	for _, r := range rt.recs {
		switch {
		case r.err:
			out = append(out, iter.Result[types.Record]{Err: errSource})
		case r.schema == 1:
			id := peerID(r.peer)
			//lint:ignore SA1019 legacy schema is part of the property
			out = append(out, iter.Result[types.Record]{Val: &types.BitswapRecord{Schema: types.SchemaBitswap, Protocol: r.protocols[0], ID: &id, Addrs: rt.maddrs(r)}})
		default:
			out = append(out, iter.Result[types.Record]{Val: rt.peerRecord(r)})
		}
	}
	return iter.FromSlice(out), nil
}

func (rt *router) FindPeers(context.Context, peer.ID, int) (iter.ResultIter[*types.PeerRecord], error) {
	var out []iter.Result[*types.PeerRecord]
	for _, r := range rt.recs {
		if r.err {
			out = append(out, iter.Result[*types.PeerRecord]{Err: errSource})
		} else {
			out = append(out, iter.Result[*types.PeerRecord]{Val: rt.peerRecord(r)})
		}
	}
	return iter.FromSlice(out), nil
}

func (rt *router) ProvideBitswap(context.Context, *server.BitswapWriteProvideRequest) (time.Duration, error) {
	return 0, errors.New("unsupported")
}

func (rt *router) GetIPNS(_ context.Context, name ipns.Name) (*ipns.Record, error) {
	if rt.getErr {
		return nil, errSource
	}
	if r, ok := rt.ipns[name.String()]; ok {
		return r, nil
	}
	return nil, routing.ErrNotFound
}

func (rt *router) PutIPNS(_ context.Context, name ipns.Name, r *ipns.Record) error {
	rt.putCalls++
	if rt.putErr {
		return errSource
	}
	rt.ipns[name.String()] = r
	return nil
}

func (rt *router) GetClosestPeers(context.Context, cid.Cid) (iter.ResultIter[*types.PeerRecord], error) {
	return iter.FromSlice([]iter.Result[*types.PeerRecord]{}), nil
}

// ---------------------------------------------------------------- the property's reference predicate (IPIP-484)

func split(p string) []string {
	if p == "" {
		return nil
	}
	return strings.Split(p, ",")
}

// specKeep is the reference semantics, written independently of package filters: terms are case-insensitive;
// protocols: no filter, or some term equals one of the record's protocols, or the term "unknown" and the record
// has none; addresses: an address is kept iff it has none of the negated protocols and (no positive term is given
// or it has one of them); a record whose address list becomes empty is dropped, except that a record without
// addresses is kept when "unknown" is a term.
func specKeep(r rec, fa, fp []string) (rec, bool) {
	low := func(xs []string) []string {
		o := make([]string, len(xs))
		for i, x := range xs {
			o[i] = strings.ToLower(x)
		}
		return o
	}
	fa, fp = low(fa), low(fp)
	if len(fa) == 0 && len(fp) == 0 {
		return r, true
	}
	if len(fp) > 0 {
		ok := false
		for _, f := range fp {
			if f == "unknown" && len(r.protocols) == 0 {
				ok = true
			}
			for _, p := range r.protocols {
				if strings.EqualFold(p, f) { // case-insensitive = Unicode simple case folding
					ok = true
				}
			}
		}
		if !ok {
			return r, false
		}
	}
	if len(fa) == 0 {
		return r, true
	}
	hasUnknown := false
	var pos, neg []string
	for _, f := range fa {
		if f == "unknown" {
			hasUnknown = true
		}
		if strings.HasPrefix(f, "!") {
			neg = append(neg, f[1:])
		} else {
			pos = append(pos, f)
		}
	}
	if len(r.addrs) == 0 && hasUnknown {
		return r, true
	}
	has := func(i int, name string) bool {
		for _, p := range addrPool[i].Protocols() {
			if p.Name == name {
				return true
			}
		}
		return false
	}
	var kept []int
	for _, i := range r.addrs {
		veto, sel := false, len(pos) == 0
		for _, f := range neg {
			veto = veto || has(i, f)
		}
		for _, f := range pos {
			sel = sel || has(i, f)
		}
		if !veto && sel {
			kept = append(kept, i)
		}
	}
	if len(kept) == 0 {
		return r, false
	}
	r.addrs = kept
	return r, true
}

func showRec(id int, protocols []string, addrs []int) string {
	as := make([]string, len(addrs))
	for i, a := range addrs {
		as[i] = strconv.Itoa(a)
	}
	return fmt.Sprintf("%d:[%s]:[%s]", id, strings.Join(protocols, ","), strings.Join(as, ","))
}

// ---------------------------------------------------------------- exec

func exec(c vh.Case, o *vh.Out) {
	ctx := context.Background()
	rt := &router{ipns: map[string]*ipns.Record{}}
	jsonLim, ndLim, stream := 0, 0, true
	var srv *httptest.Server
	defer func() {
		if srv != nil {
			srv.Close()
		}
	}()
	start := func() {
		if srv != nil {
			srv.Close()
		}
		opts := []server.Option{server.WithRecordsLimit(jsonLim), server.WithStreamingRecordsLimit(ndLim)}
		if !stream {
			opts = append(opts, server.WithStreamingResultsDisabled())
		}
		srv = httptest.NewServer(server.Handler(rt, opts...))
	}
	for _, line := range c.Ops {
		f := strings.Fields(line)
		switch f[0] {
		case "srv":
			jsonLim, ndLim, stream = vh.Atoi(f[1]), vh.Atoi(f[2]), f[3] == "1"
			start()
			if stream {
				o.Kind("ndjson")
			} else {
				o.Kind("json")
			}
			o.Emit("ok")
		case "addrs":
			for _, t := range f[1:] {
				kv := strings.SplitN(t, "=", 2)
				var cs []string
				for _, cde := range codesOf(addrPool[vh.Atoi(kv[0])]) {
					cs = append(cs, strconv.Itoa(cde))
				}
				if strings.Join(cs, "+") != kv[1] {
					o.Fail("param-table", "address %s has protocol codes %v, op line says %s", kv[0], cs, kv[1])
				}
			}
			o.Emit("ok")
		case "names":
			for _, t := range f[1:] {
				kv := strings.SplitN(t, "=", 2)
				if strconv.Itoa(multiaddr.ProtocolWithName(kv[0]).Code) != kv[1] {
					o.Fail("param-table", "ProtocolWithName(%s) != %s", kv[0], kv[1])
				}
			}
			o.Emit("ok")
		case "recs":
			rt.recs = nil
			for _, t := range f[1:] {
				if t == "E" {
					rt.recs = append(rt.recs, rec{err: true})
					o.Kind("source-error")
					continue
				}
				p := strings.Split(t, ":")
				r := rec{schema: vh.Atoi(p[0]), peer: vh.Atoi(p[1])}
				if p[2] != "-" {
					r.protocols = strings.Split(p[2], ",")
				}
				if p[3] != "-" {
					for _, a := range strings.Split(p[3], ",") {
						r.addrs = append(r.addrs, vh.Atoi(a))
					}
				}
				if r.schema == 1 {
					o.Kind("bitswap-schema")
				}
				rt.recs = append(rt.recs, r)
			}
			o.Emit("ok")
		case "find":
			fa, fp := f[3], f[4]
			if fa == "-" {
				fa = ""
			}
			if fp == "-" {
				fp = ""
			}
			opts := []client.Option{client.WithHTTPClient(srv.Client()), client.WithProtocolFilter(split(fp)),
				client.WithAddrFilter(split(fa)), client.WithDisabledLocalFiltering(f[2] == "0")}
			cl, err := client.New(srv.URL, opts...)
			if err != nil {
				panic(err)
			}
			var got []string
			bad := ""
			if f[1] == "peers" {
				it, err := cl.FindPeers(ctx, peerID(0))
				if err != nil {
					bad = "err"
				} else {
					for it.Next() {
						v := it.Val()
						if v.Err != nil {
							bad = "itererr"
							break
						}
						got = append(got, showPeer(v.Val))
					}
					it.Close()
				}
			} else {
				k := cid.NewCidV1(cid.Raw, []byte(peerID(1)))
				it, err := cl.FindProviders(ctx, k)
				if err != nil {
					bad = "err"
				} else {
					for it.Next() {
						v := it.Val()
						if v.Err != nil {
							bad = "itererr"
							break
						}
						pr, ok := v.Val.(*types.PeerRecord)
						if !ok {
							got = append(got, "schema="+v.Val.GetSchema())
							continue
						}
						got = append(got, showPeer(pr))
					}
					it.Close()
				}
			}
			if bad != "" {
				o.Emit("%s", bad)
				break
			}
			// monitor: take limit (filterMap specKeep records), in order
			lim := jsonLim
			if stream {
				lim = ndLim
			}
			var full []string // the reference semantics without the cap
			for _, r := range rt.recs {
				if r.err {
					continue
				}
				if r2, ok := specKeep(r, split(fa), split(fp)); ok {
					full = append(full, showRec(r2.peer, r2.protocols, r2.addrs))
				}
			}
			want := full
			if lim > 0 && len(want) > lim {
				want = want[:lim]
			}
			if strings.Join(got, ";") != strings.Join(want, ";") {
				// the cap applies, right records, wrong number of them = the cap; anything else = the filter semantics
				sig := "filter-semantics"
				if lim > 0 && len(full) > lim && len(got) > 0 && len(got) <= len(full) && strings.Join(got, ";") == strings.Join(full[:len(got)], ";") {
					sig = "limit"
				}
				o.Fail(sig, "%s filter-addrs=%q filter-protocols=%q limit=%d local=%s: got %v want %v", f[1], fa, fp, lim, f[2], got, want)
			}
			if fa != "" {
				o.Kind("addr-filter")
			}
			if strings.Contains(fa, "!") {
				o.Kind("negated")
			}
			if fp != "" {
				o.Kind("protocol-filter")
			}
			if strings.Contains(fa, "unknown") || strings.Contains(fp, "unknown") {
				o.Kind("unknown-term")
			}
			if lim > 0 && len(got) == lim {
				o.Kind("limit-reached")
			}
			o.Kind(f[1])
			if len(got) > 0 && len(got) < len(rt.recs) && (fa != "" || fp != "") {
				o.Nontrivial()
			}
			o.Emit("n=%d %s", len(got), strings.Join(got, ";"))
		case "folds", "lowers":
			// parameter tables of the model (strings.EqualFold / strings.ToLower as observed): cross-check them
			for _, t := range f[1:] {
				if f[0] == "folds" {
					kv := strings.SplitN(t, "~", 2)
					if !strings.EqualFold(kv[0], kv[1]) {
						o.Fail("param-table", "EqualFold(%q,%q) is false", kv[0], kv[1])
					}
				} else {
					kv := strings.SplitN(t, "=", 2)
					if strings.ToLower(kv[0]) != kv[1] {
						o.Fail("param-table", "ToLower(%q) != %q", kv[0], kv[1])
					}
				}
			}
			o.Emit("ok")
		case "raw":
			o.Emit("%s", rawFind(srv, rt, f, jsonLim, ndLim, stream, o))
		case "put":
			o.Kind("put-" + f[1])
			o.Emit("%s", rawPut(srv, rt, f[1], o))
		case "getipns":
			o.Kind("getipns")
			o.Emit("%s", rawGetIPNS(srv, rt, f[1], f[2], f[3], o))
		case "ipns":
			o.Kind("ipns-" + f[1])
			o.Emit("%s", ipnsRoundTrip(ctx, srv, rt, f[1], o))
		default:
			o.Emit("bad-op")
		}
	}
}

func showPeer(p *types.PeerRecord) string {
	var as []int
	for _, a := range p.Addrs {
		as = append(as, addrIdx(a))
	}
	id := -1
	if p.ID != nil {
		id = peerIdx(*p.ID)
	}
	return showRec(id, p.Protocols, as)
}

func ipnsRoundTrip(ctx context.Context, srv *httptest.Server, rt *router, kind string, o *vh.Out) string {
	mk := func(seed byte) (crypto.PrivKey, ipns.Name) {
		sk, _, err := crypto.GenerateEd25519Key(bytes.NewReader(bytes.Repeat([]byte{seed}, 64)))
		if err != nil {
			panic(err)
		}
		pid, _ := peer.IDFromPrivateKey(sk)
		return sk, ipns.NameFromPeer(pid)
	}
	sk, name := mk(1)
	_, other := mk(2)
	p, _ := path.NewPath("/ipfs/bafkreifjjcie6lypi6ny7amxnfftagclbuxndqonfipmb64f2km2devei4")
	record, err := ipns.NewRecord(sk, p, 7, time.Now().Add(time.Hour), time.Minute)
	if err != nil {
		panic(err)
	}
	putName := name
	switch kind {
	case "badsig":
		raw, _ := ipns.MarshalRecord(record)
		var pb ipns_pb.IpnsRecord
		if err := proto.Unmarshal(raw, &pb); err != nil {
			panic(err)
		}
		pb.SignatureV2[0] ^= 1
		raw2, _ := proto.Marshal(&pb)
		record, err = ipns.UnmarshalRecord(raw2)
		if err != nil {
			panic(err)
		}
	case "wrongname":
		putName = other
	}
	cl, err := client.New(srv.URL, client.WithHTTPClient(srv.Client()))
	if err != nil {
		panic(err)
	}
	put := "ok"
	if err := cl.PutIPNS(ctx, putName, record); err != nil {
		put = "rejected"
	}
	if kind != "ok" && len(rt.ipns) != 0 {
		o.Fail("ipns-invalid-accepted", "an invalid IPNS record (%s) reached the router", kind)
	}
	get := "notfound"
	r2, err := cl.GetIPNS(ctx, putName)
	if err == nil {
		a, _ := ipns.MarshalRecord(record)
		b, _ := ipns.MarshalRecord(r2)
		get = "different"
		if bytes.Equal(a, b) {
			get = "same"
		}
	} else if !errors.Is(err, routing.ErrNotFound) {
		get = "err"
	}
	if kind == "ok" && (put != "ok" || get != "same") {
		o.Fail("ipns-round-trip", "valid record: put=%s get=%s", put, get)
	}
	return "put=" + put + " get=" + get
}

const (
	mtJSON   = "application/json"
	mtNDJSON = "application/x-ndjson"
	mtIPNS   = "application/vnd.ipfs.ipns-record"
)

func acceptHeader(tok string) (string, bool) {
	if tok == "none" {
		return "", false
	}
	var parts []string
	for _, t := range strings.Split(tok, "+") {
		switch t {
		case "json":
			parts = append(parts, mtJSON)
		case "jsonq":
			parts = append(parts, mtJSON+"; q=0.5")
		case "ndjson":
			parts = append(parts, mtNDJSON)
		case "wild":
			parts = append(parts, "*/*")
		case "html":
			parts = append(parts, "text/html")
		case "bad":
			parts = append(parts, "a/b/c;;")
		case "ipns":
			parts = append(parts, mtIPNS)
		}
	}
	return strings.Join(parts, ", "), true
}

// rawFind: a hand-made GET with an arbitrary Accept header; decodes the body by the Content-Type of the answer.
func rawFind(srv *httptest.Server, rt *router, f []string, jsonLim, ndLim int, stream bool, o *vh.Out) string {
	fa, fp := f[3], f[4]
	if fa == "-" {
		fa = ""
	}
	if fp == "-" {
		fp = ""
	}
	u := srv.URL + "/routing/v1/providers/" + cid.NewCidV1(cid.Raw, []byte(peerID(1))).String()
	if f[1] == "peers" {
		u = srv.URL + "/routing/v1/peers/" + peer.ToCid(peerID(0)).String()
	}
	u = filters.AddFiltersToURL(u, split(fp), split(fa))
	req, _ := http.NewRequest(http.MethodGet, u, nil)
	if h, ok := acceptHeader(f[2]); ok {
		req.Header.Set("Accept", h)
	}
	resp, err := srv.Client().Do(req)
	if err != nil {
		return "httperr"
	}
	defer resp.Body.Close()
	o.Kind("raw-accept-" + f[2])
	if resp.StatusCode != 200 {
		return fmt.Sprintf("status=%d ct=- n=0 ", resp.StatusCode)
	}
	mt, _, _ := mime.ParseMediaType(resp.Header.Get("Content-Type"))
	var got []string
	ct := "-"
	switch mt {
	case mtJSON:
		ct = "json"
		if f[1] == "peers" {
			var pr jsontypes.PeersResponse
			if err := json.NewDecoder(resp.Body).Decode(&pr); err != nil {
				return "decodeerr"
			}
			for _, p := range pr.Peers {
				got = append(got, showPeer(p))
			}
		} else {
			var pr jsontypes.ProvidersResponse
			if err := json.NewDecoder(resp.Body).Decode(&pr); err != nil {
				return "decodeerr"
			}
			for _, v := range pr.Providers {
				if p, ok := v.(*types.PeerRecord); ok {
					got = append(got, showPeer(p))
				} else {
					got = append(got, "schema="+v.GetSchema())
				}
			}
		}
	case mtNDJSON:
		ct = "ndjson"
		if f[1] == "peers" {
			it := ndjson.NewPeerRecordsIter(resp.Body)
			for it.Next() {
				if v := it.Val(); v.Err == nil {
					got = append(got, showPeer(v.Val))
				}
			}
		} else {
			it := ndjson.NewRecordsIter(resp.Body)
			for it.Next() {
				if v := it.Val(); v.Err == nil {
					if p, ok := v.Val.(*types.PeerRecord); ok {
						got = append(got, showPeer(p))
					} else {
						got = append(got, "schema="+v.Val.GetSchema())
					}
				}
			}
		}
	}
	// monitor: the cap is the one of the format that was answered; the records are the reference semantics
	lim := jsonLim
	if ct == "ndjson" {
		lim = ndLim
		if !stream {
			o.Fail("ndjson-when-disabled", "NDJSON answer although streaming is disabled")
		}
	}
	var want []string
	for _, r := range rt.recs {
		if r.err {
			continue
		}
		if r2, ok := specKeep(r, split(fa), split(fp)); ok {
			want = append(want, showRec(r2.peer, r2.protocols, r2.addrs))
		}
	}
	if lim > 0 && len(want) > lim {
		want = want[:lim]
	}
	if strings.Join(got, ";") != strings.Join(want, ";") {
		o.Fail("raw-response", "%s accept=%s ct=%s limit=%d: got %v want %v", f[1], f[2], ct, lim, got, want)
	}
	return fmt.Sprintf("status=200 ct=%s n=%d %s", ct, len(got), strings.Join(got, ";"))
}

func mkKey(seed byte) (crypto.PrivKey, ipns.Name) {
	sk, _, err := crypto.GenerateEd25519Key(bytes.NewReader(bytes.Repeat([]byte{seed}, 64)))
	if err != nil {
		panic(err)
	}
	pid, _ := peer.IDFromPrivateKey(sk)
	return sk, ipns.NameFromPeer(pid)
}

// rawPut: hand-made PUT /routing/v1/ipns/{cid}; each scenario makes exactly one step of the handler fail.
func rawPut(srv *httptest.Server, rt *router, sc string, o *vh.Out) string {
	sk, name := mkKey(1)
	_, other := mkKey(2)
	p, _ := path.NewPath("/ipfs/bafkreifjjcie6lypi6ny7amxnfftagclbuxndqonfipmb64f2km2devei4")
	eol := time.Now().Add(time.Hour)
	if sc == "expired" {
		eol = time.Now().Add(-time.Hour)
	}
	if sc == "toolong" {
		p, _ = path.NewPath("/ipfs/bafkreifjjcie6lypi6ny7amxnfftagclbuxndqonfipmb64f2km2devei4/" + strings.Repeat("a", 12000))
	}
	record, err := ipns.NewRecord(sk, p, 7, eol, time.Minute)
	if err != nil {
		panic(err)
	}
	body, _ := ipns.MarshalRecord(record)
	urlName := name.Cid().String()
	ct := mtIPNS
	switch sc {
	case "noct":
		ct = mtJSON
	case "badcid":
		urlName = "not-a-cid"
	case "notname":
		urlName = cid.NewCidV1(cid.Raw, []byte(peerID(3))).String()
	case "garbage":
		body = []byte("this is not a protobuf \xff\xff\xff")
	case "badsig":
		var pb ipns_pb.IpnsRecord
		if err := proto.Unmarshal(body, &pb); err != nil {
			panic(err)
		}
		pb.SignatureV2[0] ^= 1
		body, _ = proto.Marshal(&pb)
	case "wrongname":
		urlName = other.Cid().String()
	}
	rt.putCalls, rt.putErr = 0, sc == "routererr"
	before := len(rt.ipns)
	req, _ := http.NewRequest(http.MethodPut, srv.URL+"/routing/v1/ipns/"+urlName, bytes.NewReader(body))
	req.Header.Set("Content-Type", ct)
	resp, err := srv.Client().Do(req)
	if err != nil {
		return "httperr"
	}
	resp.Body.Close()
	rt.putErr = false
	// monitor: an invalid record is rejected and never reaches the router; a valid one is stored
	invalid := sc != "ok" && sc != "routererr"
	if invalid && (rt.putCalls != 0 || len(rt.ipns) != before || resp.StatusCode == 200) {
		o.Fail("ipns-invalid-accepted", "PUT scenario %s: status %d, router calls %d", sc, resp.StatusCode, rt.putCalls)
	}
	if sc == "ok" && (resp.StatusCode != 200 || rt.putCalls != 1) {
		o.Fail("ipns-valid-rejected", "PUT of a valid record: status %d, router calls %d", resp.StatusCode, rt.putCalls)
	}
	return fmt.Sprintf("status=%d router=%d", resp.StatusCode, min(rt.putCalls, 1))
}

func rawGetIPNS(srv *httptest.Server, rt *router, acc, cidk, look string, o *vh.Out) string {
	sk, name := mkKey(1)
	p, _ := path.NewPath("/ipfs/bafkreifjjcie6lypi6ny7amxnfftagclbuxndqonfipmb64f2km2devei4")
	record, _ := ipns.NewRecord(sk, p, 9, time.Now().Add(time.Hour), time.Minute)
	raw, _ := ipns.MarshalRecord(record)
	delete(rt.ipns, name.String())
	rt.getErr = look == "err"
	if look == "found" {
		rt.ipns[name.String()] = record
	}
	urlName := name.Cid().String()
	switch cidk {
	case "badcid":
		urlName = "not-a-cid"
	case "notname":
		urlName = cid.NewCidV1(cid.Raw, []byte(peerID(3))).String()
	}
	req, _ := http.NewRequest(http.MethodGet, srv.URL+"/routing/v1/ipns/"+urlName, nil)
	if h, ok := acceptHeader(acc); ok {
		req.Header.Set("Accept", h)
	}
	resp, err := srv.Client().Do(req)
	rt.getErr = false
	if err != nil {
		return "httperr"
	}
	defer resp.Body.Close()
	body, _ := io.ReadAll(resp.Body)
	isRec := 0
	if strings.Contains(resp.Header.Get("Content-Type"), mtIPNS) && bytes.Equal(body, raw) {
		isRec = 1
	}
	if isRec == 1 && look != "found" {
		o.Fail("ipns-get-phantom", "GET returned a record the router does not have")
	}
	delete(rt.ipns, name.String())
	return fmt.Sprintf("status=%d record=%d", resp.StatusCode, isRec)
}

func main() { vh.Main(vh.Config{Gen: gen, Exec: exec}) }
