// C24 harness: drives the real pinning/pinner/dsindex indexer over a go-datastore MapDatastore.
package main

import (
	"context"
	"encoding/base64"
	"errors"
	"fmt"
	"sort"
	"strconv"
	"strings"

	"github.com/ipfs/boxo/pinning/pinner/dsindex"
	ds "github.com/ipfs/go-datastore"
	dsq "github.com/ipfs/go-datastore/query"
	dssync "github.com/ipfs/go-datastore/sync"

	"verifharness/vh"
)

var names = []string{"/", "/idx", "/pins/index/nameIndex", "/p/u"}

// ---------------------------------------------------------------- generator

func mkPool(r *vh.Rand) [][]byte {
	var pool [][]byte
	// a family of strings that are prefixes of one another (and whose base64 encodings are too:
	// "abc" -> YWJj, "abcd" -> YWJjZA)
	base := [][]byte{[]byte("abc"), []byte("abcd"), []byte("abcdef"), []byte("ab"), []byte("a")}
	if r.Bool() {
		b := r.Bytes(r.Range(1, 6))
		base = [][]byte{b, append(append([]byte{}, b...), r.Bytes(1)...), append(append([]byte{}, b...), r.Bytes(3)...)}
	}
	pool = append(pool, base...)
	pool = append(pool, []byte{0x2f}, []byte{0x00}, []byte("a/b"), []byte{0x2f, 0x2f}, []byte("/"), []byte{0xff, 0xfe})
	for i, n := 0, r.Range(1, 4); i < n; i++ {
		pool = append(pool, r.Bytes(r.Range(1, 40)))
	}
	return pool
}

// collisionNames are index names that are themselves the encoding of an index key ("a", "abc"):
// the namespace wrapper then leaves that key's entries outside the index (known finding).
var collisionNames = []string{"/uYQ", "/uYWJj"}

func genSync(rr *vh.Rand, c *vh.Case) {
	// SyncIndex needs values that are unique within each index (its doc comment): every value gets one
	// fixed key per index at first use
	vals := [][]byte{{1}, {2}, {3}, []byte("v/4"), {0}, append([]byte{0xee, 0xee}, rr.Bytes(rr.Range(1, 12))...)} // pairwise distinct
	keys := [][]byte{[]byte("a"), []byte("ab"), []byte("abc"), {0x2f}, rr.Bytes(rr.Range(1, 8))}
	liveT, liveR := map[int]int{}, map[int]int{} // value index -> key index of the live pair
	pair := func(live map[int]int, adding bool) string {
		v := rr.Intn(len(vals))
		k, ok := live[v]
		if !ok {
			k = rr.Intn(len(keys))
			if ko, ok2 := liveT[v]; ok2 && rr.Chance(2, 3) {
				k = ko
			}
			if ko, ok2 := liveR[v]; ok2 && rr.Chance(2, 3) {
				k = ko
			}
		}
		if adding {
			live[v] = k
		} else {
			delete(live, v)
		}
		return vh.Hex(keys[k]) + " " + vh.Hex(vals[v])
	}
	for j, m := 0, rr.Range(2, 20); j < m; j++ {
		switch k := rr.Intn(100); {
		case k < 30:
			c.Ops = append(c.Ops, "add "+pair(liveT, true))
		case k < 60:
			c.Ops = append(c.Ops, "radd "+pair(liveR, true))
		case k < 68:
			c.Ops = append(c.Ops, "del "+pair(liveT, false))
		case k < 76:
			c.Ops = append(c.Ops, "rdel "+pair(liveR, false))
		case k < 90:
			c.Ops = append(c.Ops, "sync", "foreach -")
			if len(liveR) > 0 {
				liveT = map[int]int{}
				for v, kk := range liveR {
					liveT[v] = kk
				}
			}
		case k < 93:
			c.Ops = append(c.Ops, "delall")
			liveT = map[int]int{}
		default:
			c.Ops = append(c.Ops, "dump", "rdump")
		}
	}
	c.Ops = append(c.Ops, "sync", "foreach -", "sync", "dump", "rdump")
}

func gen(r *vh.Rand, tier string, n int, emit func(vh.Case)) {
	for i := 0; i < n; i++ {
		rr := r.Fork()
		c := vh.Case{ID: strconv.Itoa(i)}
		if rr.Chance(1, 6) {
			c.Ops = append(c.Ops, "ns "+vh.Pick(rr, names))
			genSync(rr, &c)
			emit(c)
			continue
		}
		if rr.Chance(1, 30) {
			// index-name collision stream: only operations whose result does not depend on the
			// datastore's iteration order once undecodable entries exist
			c.Ops = append(c.Ops, "ns "+vh.Pick(rr, collisionNames))
			pool := [][]byte{[]byte("a"), []byte("abc"), []byte("b"), {1}, {2}}
			pk := func() string { return vh.Hex(vh.Pick(rr, pool)) }
			for j, m := 0, rr.Range(3, 20); j < m; j++ {
				switch k := rr.Intn(100); {
				case k < 40:
					c.Ops = append(c.Ops, "add "+pk()+" "+pk())
				case k < 50:
					c.Ops = append(c.Ops, "del "+pk()+" "+pk())
				case k < 75:
					c.Ops = append(c.Ops, "search "+pk())
				case k < 85:
					c.Ops = append(c.Ops, "hasv "+pk()+" "+pk())
				case k < 92:
					c.Ops = append(c.Ops, "delkey "+pk())
				default:
					c.Ops = append(c.Ops, "dump")
				}
			}
			c.Ops = append(c.Ops, "search 61", "search 616263", "dump")
			emit(c)
			continue
		}
		c.Ops = append(c.Ops, "ns "+vh.Pick(rr, names))
		pool := mkPool(rr)
		pick := func() string {
			if rr.Chance(1, 25) {
				return "-"
			}
			return vh.Hex(vh.Pick(rr, pool))
		}
		ln := rr.Range(1, 40)
		if tier == "thorough" && rr.Chance(1, 8) {
			ln = rr.Range(40, 200)
		}
		for j := 0; j < ln; j++ {
			switch k := rr.Intn(100); {
			case k < 35:
				c.Ops = append(c.Ops, "add "+pick()+" "+pick())
			case k < 45:
				c.Ops = append(c.Ops, "del "+pick()+" "+pick())
			case k < 52:
				c.Ops = append(c.Ops, "delkey "+pick())
			case k < 54:
				c.Ops = append(c.Ops, "delall")
			case k < 70:
				c.Ops = append(c.Ops, "search "+pick())
			case k < 78:
				c.Ops = append(c.Ops, "hasv "+pick()+" "+pick())
			case k < 86:
				c.Ops = append(c.Ops, "hasany "+pick())
			case k < 95:
				c.Ops = append(c.Ops, "foreach "+pick())
			default:
				c.Ops = append(c.Ops, "dump")
			}
		}
		c.Ops = append(c.Ops, "foreach -", "dump")
		emit(c)
	}
}

// ---------------------------------------------------------------- executor

type mm map[string]map[string]bool // the multimap of the property statement

func (m mm) values(k string) []string {
	var vs []string
	for v := range m[k] {
		vs = append(vs, vh.Hex([]byte(v)))
	}
	sort.Strings(vs)
	return vs
}

func (m mm) pairs(k string) []string {
	var ps []string
	for kk, vs := range m {
		if k != "" && kk != k {
			continue
		}
		for v := range vs {
			ps = append(ps, vh.Hex([]byte(kk))+":"+vh.Hex([]byte(v)))
		}
	}
	sort.Strings(ps)
	return ps
}

func b64(s string) string { return base64.RawURLEncoding.EncodeToString([]byte(s)) }

// related: another key with values exists that is prefix-related to k (as bytes or as encodings)
func (m mm) related(k string) bool {
	for k2, vs := range m {
		if k2 == k || len(vs) == 0 {
			continue
		}
		if strings.HasPrefix(k2, k) || strings.HasPrefix(k, k2) || strings.HasPrefix(b64(k2), b64(k)) || strings.HasPrefix(b64(k), b64(k2)) {
			return true
		}
	}
	return false
}

func errName(err error) string {
	switch {
	case err == nil:
		return ""
	case errors.Is(err, dsindex.ErrEmptyKey):
		return "empty-key"
	case errors.Is(err, dsindex.ErrEmptyValue):
		return "empty-value"
	default:
		return "error"
	}
}

func exec(c vh.Case, o *vh.Out) {
	ctx := context.Background()
	var mds *ds.MapDatastore
	var idx, ridx dsindex.Indexer
	var rds *ds.MapDatastore
	m, rm := mm{}, mm{}
	nsName := ""
	added := map[string]bool{} // keys ever added in this case
	// fail reports a multimap violation; when the index is NAMED like the encoding of a key that was
	// added, the cause is the known namespace collision and gets its own signature
	fail := func(sig, format string, a ...any) {
		for k := range added {
			if nsName == "/u"+b64(k) {
				sig = "index-name-collision"
			}
		}
		o.Fail(sig, format, a...)
	}
	for _, line := range c.Ops {
		f := strings.Fields(line)
		arg := func(i int) string { return string(vh.UnHex(f[i])) }
		switch f[0] {
		case "ns":
			mds = ds.NewMapDatastore()
			var d ds.Datastore = mds
			if len(f[1])%2 == 0 {
				d = dssync.MutexWrap(mds)
			}
			idx = dsindex.New(d, ds.NewKey(f[1]))
			rds = ds.NewMapDatastore()
			ridx = dsindex.New(rds, ds.NewKey("/ref"))
			m, rm = mm{}, mm{}
			nsName = f[1]
			o.Kind("ns=" + f[1])
			o.Emit("ok")
		case "radd", "rdel":
			k, v := arg(1), arg(2)
			var err error
			if f[0] == "radd" {
				err = ridx.Add(ctx, k, v)
				if err == nil {
					if rm[k] == nil {
						rm[k] = map[string]bool{}
					}
					rm[k][v] = true
				}
			} else {
				err = ridx.Delete(ctx, k, v)
				if err == nil {
					delete(rm[k], v)
					if len(rm[k]) == 0 {
						delete(rm, k)
					}
				}
			}
			o.Kind(f[0])
			if err != nil {
				o.Emit("%s", errName(err))
			} else {
				o.Emit("ok")
			}
		case "sync":
			before := strings.Join(m.pairs(""), ",")
			changed, err := dsindex.SyncIndex(ctx, ridx, idx)
			o.Kind("sync")
			// monitor: afterwards the target holds exactly the reference's pairs - unless the reference
			// is empty, in which case SyncIndex leaves the target alone and reports false
			want := strings.Join(rm.pairs(""), ",")
			if len(rm) == 0 {
				want = before
			} else {
				m = mm{}
				for k, vs := range rm {
					m[k] = map[string]bool{}
					for v := range vs {
						m[k][v] = true
					}
				}
			}
			var ps []string
			idx.ForEach(ctx, "", func(kk, vv string) bool {
				ps = append(ps, vh.Hex([]byte(kk))+":"+vh.Hex([]byte(vv)))
				return true
			})
			sort.Strings(ps)
			if err != nil || strings.Join(ps, ",") != want || changed != (want != before) {
				o.Fail("sync-wrong", "SyncIndex = %v,%v; target now %v, reference %v, before %v", changed, err, ps, want, before)
			}
			if changed {
				o.Kind("sync-changed")
				o.Nontrivial()
			}
			if err != nil {
				o.Emit("error")
			} else {
				o.Emit("changed %v", changed)
			}
		case "rdump":
			res, _ := rds.Query(ctx, dsq.Query{KeysOnly: true})
			es, _ := res.Rest()
			ks := make([]string, len(es))
			for i, e := range es {
				ks[i] = e.Key
			}
			sort.Strings(ks)
			o.Emit("dump %s", strings.Join(ks, ";"))
		case "add", "del":
			k, v := arg(1), arg(2)
			var err error
			if f[0] == "add" {
				err = idx.Add(ctx, k, v)
				added[k] = true
			} else {
				err = idx.Delete(ctx, k, v)
			}
			want := ""
			switch {
			case k == "":
				want = "empty-key"
			case v == "":
				want = "empty-value"
			case f[0] == "add":
				if m[k] == nil {
					m[k] = map[string]bool{}
				}
				m[k][v] = true
			default:
				delete(m[k], v)
				if len(m[k]) == 0 {
					delete(m, k)
				}
			}
			if errName(err) != want {
				o.Fail(f[0]+"-result", "%s(%q,%q) = %v, want %q", f[0], k, v, err, want)
			}
			o.Kind(f[0])
			if err != nil {
				o.Kind(errName(err))
				o.Emit("%s", errName(err))
			} else {
				o.Emit("ok")
			}
		case "delkey", "delall":
			var n int
			var err error
			want, wantErr := 0, ""
			if f[0] == "delkey" {
				k := arg(1)
				n, err = idx.DeleteKey(ctx, k)
				if k == "" {
					wantErr = "empty-key"
				} else {
					want = len(m[k])
					delete(m, k)
				}
			} else {
				n, err = idx.DeleteAll(ctx)
				for _, vs := range m {
					want += len(vs)
				}
				m = mm{}
			}
			if errName(err) != wantErr || err == nil && n != want {
				fail(f[0]+"-count", "%s = %d,%v want %d,%q", line, n, err, want, wantErr)
			}
			o.Kind(f[0])
			if err != nil {
				o.Emit("%s", errName(err))
			} else {
				if n > 0 {
					o.Kind(f[0] + "-nonempty")
				}
				o.Emit("count %d", n)
			}
		case "search":
			k := arg(1)
			vs, err := idx.Search(ctx, k)
			o.Kind("search")
			if err != nil {
				if k != "" || errName(err) != "empty-key" {
					fail("search-error", "Search(%q): %v", k, err)
				}
				o.Emit("%s", errName(err))
				continue
			}
			hs := make([]string, len(vs))
			for i, v := range vs {
				hs[i] = vh.Hex([]byte(v))
			}
			sort.Strings(hs)
			if k == "" {
				o.Fail("search-empty-key-accepted", "Search(\"\") returned %v", hs)
			} else if strings.Join(hs, ",") != strings.Join(m.values(k), ",") {
				fail("search-wrong", "Search(%x) = %v want %v", k, hs, m.values(k))
			}
			if len(hs) > 0 {
				o.Kind("search-hit")
				if m.related(k) {
					o.Kind("search-hit-with-prefix-related-key")
					o.Nontrivial()
				}
			}
			o.Emit("values %s", strings.Join(hs, ","))
		case "hasv":
			k, v := arg(1), arg(2)
			h, err := idx.HasValue(ctx, k, v)
			want := ""
			switch {
			case k == "":
				want = "empty-key"
			case v == "":
				want = "empty-value"
			}
			if errName(err) != want || err == nil && h != m[k][v] {
				fail("hasvalue-wrong", "HasValue(%x,%x) = %v,%v want %v,%q", k, v, h, err, m[k][v], want)
			}
			o.Kind("hasv")
			if err != nil {
				o.Emit("%s", errName(err))
			} else {
				o.Emit("%v", h)
			}
		case "hasany":
			k := arg(1)
			h, err := idx.HasAny(ctx, k)
			want := len(m[k]) > 0
			if k == "" {
				want = len(m) > 0
			}
			if err != nil || h != want {
				fail("hasany-wrong", "HasAny(%x) = %v,%v want %v", k, h, err, want)
			}
			o.Kind("hasany")
			if err != nil {
				o.Emit("error")
			} else {
				o.Emit("%v", h)
			}
		case "foreach":
			k := arg(1)
			var ps []string
			err := idx.ForEach(ctx, k, func(kk, vv string) bool {
				ps = append(ps, vh.Hex([]byte(kk))+":"+vh.Hex([]byte(vv)))
				return true
			})
			sort.Strings(ps)
			if err != nil || strings.Join(ps, ",") != strings.Join(m.pairs(k), ",") {
				fail("foreach-wrong", "ForEach(%x) = %v,%v want %v", k, ps, err, m.pairs(k))
			}
			o.Kind("foreach")
			if len(ps) > 0 && k != "" && m.related(k) {
				o.Kind("foreach-hit-with-prefix-related-key")
				o.Nontrivial()
			}
			if err != nil {
				o.Emit("error")
			} else {
				o.Emit("pairs %s", strings.Join(ps, ","))
			}
		case "dump":
			res, _ := mds.Query(ctx, dsq.Query{KeysOnly: true})
			es, _ := res.Rest()
			ks := make([]string, len(es))
			for i, e := range es {
				ks[i] = e.Key
			}
			sort.Strings(ks)
			o.Kind("dump")
			o.Emit("dump %s", strings.Join(ks, ";"))
		default:
			o.Emit("bad-op")
		}
	}
	_ = fmt.Sprint
}

func main() { vh.Main(vh.Config{Gen: gen, Exec: exec}) }
