// C24 harness: drives the real pinning/pinner/dsindex indexer over a go-datastore MapDatastore.
package main

import (
	"context"
	"encoding/base64"
	"errors"
	"fmt"
	"sort"
	"strconv"
	"strings"

	"github.com/ipfs/boxo/pinning/pinner/dsindex"
	ds "github.com/ipfs/go-datastore"
	dsq "github.com/ipfs/go-datastore/query"
	dssync "github.com/ipfs/go-datastore/sync"

	"verifharness/vh"
)

var names = []string{"/", "/idx", "/pins/index/nameIndex", "/p/u"}

// ---------------------------------------------------------------- generator

func mkPool(r *vh.Rand) [][]byte {
	var pool [][]byte
	// a family of strings that are prefixes of one another (and whose base64 encodings are too:
	// "abc" -> YWJj, "abcd" -> YWJjZA)
	base := [][]byte{[]byte("abc"), []byte("abcd"), []byte("abcdef"), []byte("ab"), []byte("a")}
	if r.Bool() {
		b := r.Bytes(r.Range(1, 6))
		base = [][]byte{b, append(append([]byte{}, b...), r.Bytes(1)...), append(append([]byte{}, b...), r.Bytes(3)...)}
	}
	pool = append(pool, base...)
	pool = append(pool, []byte{0x2f}, []byte{0x00}, []byte("a/b"), []byte{0x2f, 0x2f}, []byte("/"), []byte{0xff, 0xfe})
	for i, n := 0, r.Range(1, 4); i < n; i++ {
		pool = append(pool, r.Bytes(r.Range(1, 40)))
	}
	return pool
}

func gen(r *vh.Rand, tier string, n int, emit func(vh.Case)) {
	for i := 0; i < n; i++ {
		rr := r.Fork()
		c := vh.Case{ID: strconv.Itoa(i)}
		c.Ops = append(c.Ops, "ns "+vh.Pick(rr, names))
		pool := mkPool(rr)
		pick := func() string {
			if rr.Chance(1, 25) {
				return "-"
			}
			return vh.Hex(vh.Pick(rr, pool))
		}
		ln := rr.Range(1, 40)
		if tier == "thorough" && rr.Chance(1, 8) {
			ln = rr.Range(40, 200)
		}
		for j := 0; j < ln; j++ {
			switch k := rr.Intn(100); {
			case k < 35:
				c.Ops = append(c.Ops, "add "+pick()+" "+pick())
			case k < 45:
				c.Ops = append(c.Ops, "del "+pick()+" "+pick())
			case k < 52:
				c.Ops = append(c.Ops, "delkey "+pick())
			case k < 54:
				c.Ops = append(c.Ops, "delall")
			case k < 70:
				c.Ops = append(c.Ops, "search "+pick())
			case k < 78:
				c.Ops = append(c.Ops, "hasv "+pick()+" "+pick())
			case k < 86:
				c.Ops = append(c.Ops, "hasany "+pick())
			case k < 95:
				c.Ops = append(c.Ops, "foreach "+pick())
			default:
				c.Ops = append(c.Ops, "dump")
			}
		}
		c.Ops = append(c.Ops, "foreach -", "dump")
		emit(c)
	}
}

// ---------------------------------------------------------------- executor

type mm map[string]map[string]bool // the multimap of the property statement

func (m mm) values(k string) []string {
	var vs []string
	for v := range m[k] {
		vs = append(vs, vh.Hex([]byte(v)))
	}
	sort.Strings(vs)
	return vs
}

func (m mm) pairs(k string) []string {
	var ps []string
	for kk, vs := range m {
		if k != "" && kk != k {
			continue
		}
		for v := range vs {
			ps = append(ps, vh.Hex([]byte(kk))+":"+vh.Hex([]byte(v)))
		}
	}
	sort.Strings(ps)
	return ps
}

func b64(s string) string { return base64.RawURLEncoding.EncodeToString([]byte(s)) }

// related: another key with values exists that is prefix-related to k (as bytes or as encodings)
func (m mm) related(k string) bool {
	for k2, vs := range m {
		if k2 == k || len(vs) == 0 {
			continue
		}
		if strings.HasPrefix(k2, k) || strings.HasPrefix(k, k2) || strings.HasPrefix(b64(k2), b64(k)) || strings.HasPrefix(b64(k), b64(k2)) {
			return true
		}
	}
	return false
}

func errName(err error) string {
	switch {
	case err == nil:
		return ""
	case errors.Is(err, dsindex.ErrEmptyKey):
		return "empty-key"
	case errors.Is(err, dsindex.ErrEmptyValue):
		return "empty-value"
	default:
		return "error"
	}
}

func exec(c vh.Case, o *vh.Out) {
	ctx := context.Background()
	var mds *ds.MapDatastore
	var idx dsindex.Indexer
	m := mm{}
	for _, line := range c.Ops {
		f := strings.Fields(line)
		arg := func(i int) string { return string(vh.UnHex(f[i])) }
		switch f[0] {
		case "ns":
			mds = ds.NewMapDatastore()
			var d ds.Datastore = mds
			if len(f[1])%2 == 0 {
				d = dssync.MutexWrap(mds)
			}
			idx = dsindex.New(d, ds.NewKey(f[1]))
			m = mm{}
			o.Kind("ns=" + f[1])
			o.Emit("ok")
		case "add", "del":
			k, v := arg(1), arg(2)
			var err error
			if f[0] == "add" {
				err = idx.Add(ctx, k, v)
			} else {
				err = idx.Delete(ctx, k, v)
			}
			want := ""
			switch {
			case k == "":
				want = "empty-key"
			case v == "":
				want = "empty-value"
			case f[0] == "add":
				if m[k] == nil {
					m[k] = map[string]bool{}
				}
				m[k][v] = true
			default:
				delete(m[k], v)
				if len(m[k]) == 0 {
					delete(m, k)
				}
			}
			if errName(err) != want {
				o.Fail(f[0]+"-result", "%s(%q,%q) = %v, want %q", f[0], k, v, err, want)
			}
			o.Kind(f[0])
			if err != nil {
				o.Kind(errName(err))
				o.Emit("%s", errName(err))
			} else {
				o.Emit("ok")
			}
		case "delkey", "delall":
			var n int
			var err error
			want, wantErr := 0, ""
			if f[0] == "delkey" {
				k := arg(1)
				n, err = idx.DeleteKey(ctx, k)
				if k == "" {
					wantErr = "empty-key"
				} else {
					want = len(m[k])
					delete(m, k)
				}
			} else {
				n, err = idx.DeleteAll(ctx)
				for _, vs := range m {
					want += len(vs)
				}
				m = mm{}
			}
			if errName(err) != wantErr || err == nil && n != want {
				o.Fail(f[0]+"-count", "%s = %d,%v want %d,%q", line, n, err, want, wantErr)
			}
			o.Kind(f[0])
			if err != nil {
				o.Emit("%s", errName(err))
			} else {
				if n > 0 {
					o.Kind(f[0] + "-nonempty")
				}
				o.Emit("count %d", n)
			}
		case "search":
			k := arg(1)
			vs, err := idx.Search(ctx, k)
			o.Kind("search")
			if err != nil {
				if k != "" || errName(err) != "empty-key" {
					o.Fail("search-error", "Search(%q): %v", k, err)
				}
				o.Emit("%s", errName(err))
				continue
			}
			hs := make([]string, len(vs))
			for i, v := range vs {
				hs[i] = vh.Hex([]byte(v))
			}
			sort.Strings(hs)
			if k == "" {
				o.Fail("search-empty-key-accepted", "Search(\"\") returned %v", hs)
			} else if strings.Join(hs, ",") != strings.Join(m.values(k), ",") {
				o.Fail("search-wrong", "Search(%x) = %v want %v", k, hs, m.values(k))
			}
			if len(hs) > 0 {
				o.Kind("search-hit")
				if m.related(k) {
					o.Kind("search-hit-with-prefix-related-key")
					o.Nontrivial()
				}
			}
			o.Emit("values %s", strings.Join(hs, ","))
		case "hasv":
			k, v := arg(1), arg(2)
			h, err := idx.HasValue(ctx, k, v)
			want := ""
			switch {
			case k == "":
				want = "empty-key"
			case v == "":
				want = "empty-value"
			}
			if errName(err) != want || err == nil && h != m[k][v] {
				o.Fail("hasvalue-wrong", "HasValue(%x,%x) = %v,%v want %v,%q", k, v, h, err, m[k][v], want)
			}
			o.Kind("hasv")
			if err != nil {
				o.Emit("%s", errName(err))
			} else {
				o.Emit("%v", h)
			}
		case "hasany":
			k := arg(1)
			h, err := idx.HasAny(ctx, k)
			want := len(m[k]) > 0
			if k == "" {
				want = len(m) > 0
			}
			if err != nil || h != want {
				o.Fail("hasany-wrong", "HasAny(%x) = %v,%v want %v", k, h, err, want)
			}
			o.Kind("hasany")
			if err != nil {
				o.Emit("error")
			} else {
				o.Emit("%v", h)
			}
		case "foreach":
			k := arg(1)
			var ps []string
			err := idx.ForEach(ctx, k, func(kk, vv string) bool {
				ps = append(ps, vh.Hex([]byte(kk))+":"+vh.Hex([]byte(vv)))
				return true
			})
			sort.Strings(ps)
			if err != nil || strings.Join(ps, ",") != strings.Join(m.pairs(k), ",") {
				o.Fail("foreach-wrong", "ForEach(%x) = %v,%v want %v", k, ps, err, m.pairs(k))
			}
			o.Kind("foreach")
			if len(ps) > 0 && k != "" && m.related(k) {
				o.Kind("foreach-hit-with-prefix-related-key")
				o.Nontrivial()
			}
			if err != nil {
				o.Emit("error")
			} else {
				o.Emit("pairs %s", strings.Join(ps, ","))
			}
		case "dump":
			res, _ := mds.Query(ctx, dsq.Query{KeysOnly: true})
			es, _ := res.Rest()
			ks := make([]string, len(es))
			for i, e := range es {
				ks[i] = e.Key
			}
			sort.Strings(ks)
			o.Kind("dump")
			o.Emit("dump %s", strings.Join(ks, ";"))
		default:
			o.Emit("bad-op")
		}
	}
	_ = fmt.Sprint
}

func main() { vh.Main(vh.Config{Gen: gen, Exec: exec}) }
