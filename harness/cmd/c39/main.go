// C39 harness: drives the real files.MultiFileReader (writer) and files.NewFileFromPartReader
// (reader) through the real mime/multipart framing.
package main

import (
	"bytes"
	"fmt"
	"io"
	"mime"
	"mime/multipart"
	"net/textproto"
	"os"
	"sort"
	"strconv"
	"strings"
	"testing/iotest"
	"time"

	"github.com/ipfs/boxo/files"

	"verifharness/vh"
)

func h(s string) string { return vh.Hex([]byte(s)) }

// ---- tree representation shared by gen / exec

type node struct {
	kind     byte // 'f', 'l', 'd'
	name     string
	mode     uint32
	hasTime  bool
	secs     int64
	nsecs    int64
	data     string // content / target
	abs      string // AbsPath() of a file
	statName string
	statDir  bool
	kids     []*node
}

func (n *node) mtimeTok() string {
	if !n.hasTime {
		return "-"
	}
	return fmt.Sprintf("%d:%d", n.secs, n.nsecs)
}

func (n *node) tokens(out *[]string) {
	switch n.kind {
	case 'f':
		*out = append(*out, "f", h(n.name), strconv.FormatUint(uint64(n.mode), 10), n.mtimeTok(), h(n.abs), h(n.data))
	case 'l':
		*out = append(*out, "l", h(n.name), n.mtimeTok(), h(n.data))
	case 'd':
		*out = append(*out, "d", h(n.name), strconv.FormatUint(uint64(n.mode), 10), n.mtimeTok(), strconv.Itoa(len(n.kids)))
		for _, k := range n.kids {
			k.tokens(out)
		}
	}
}

func treeTokens(kids []*node) []string {
	out := []string{strconv.Itoa(len(kids))}
	for _, k := range kids {
		k.tokens(&out)
	}
	return out
}

// annotated tokens for the monitor: kind-prefixed so that the first difference names its class
func (n *node) annot(out *[]string, strip bool) {
	mode, mt := strconv.FormatUint(uint64(n.mode), 10), n.mtimeTok()
	if strip {
		mode, mt = "0", "-"
	}
	switch n.kind {
	case 'f':
		*out = append(*out, "type:f", "name:"+h(n.name), "mode:"+mode, "mtime:"+mt, "abspath:"+h(n.abs), "content:"+h(n.data))
	case 'l':
		*out = append(*out, "type:l", "name:"+h(n.name), "mtime:"+mt, "content:"+h(n.data))
	case 'd':
		*out = append(*out, "type:d", "name:"+h(n.name), "mode:"+mode, "mtime:"+mt, "count:"+strconv.Itoa(len(n.kids)))
		for _, k := range n.kids {
			k.annot(out, strip)
		}
	}
}

func parseTree(ts []string) ([]*node, []string) {
	n := vh.Atoi(ts[0])
	ts = ts[1:]
	var kids []*node
	for i := 0; i < n; i++ {
		var k *node
		k, ts = parseNode(ts)
		kids = append(kids, k)
	}
	return kids, ts
}

func parseMt(n *node, s string) {
	if s == "-" {
		return
	}
	p := strings.SplitN(s, ":", 2)
	n.hasTime = true
	n.secs, _ = strconv.ParseInt(p[0], 10, 64)
	n.nsecs, _ = strconv.ParseInt(p[1], 10, 64)
}

func parseNode(ts []string) (*node, []string) {
	n := &node{kind: ts[0][0], name: string(vh.UnHex(ts[1]))}
	switch n.kind {
	case 'f':
		m, _ := strconv.ParseUint(ts[2], 10, 32)
		n.mode = uint32(m)
		parseMt(n, ts[3])
		n.abs = string(vh.UnHex(ts[4]))
		n.data = string(vh.UnHex(ts[5]))
		return n, ts[6:]
	case 'l':
		parseMt(n, ts[2])
		n.data = string(vh.UnHex(ts[3]))
		return n, ts[4:]
	default:
		m, _ := strconv.ParseUint(ts[2], 10, 32)
		n.mode = uint32(m)
		parseMt(n, ts[3])
		cnt := vh.Atoi(ts[4])
		ts = ts[5:]
		for i := 0; i < cnt; i++ {
			var k *node
			k, ts = parseNode(ts)
			n.kids = append(n.kids, k)
		}
		return n, ts
	}
}

// ---- building real files.Node values

type stat struct {
	name  string
	mode  os.FileMode
	mtime time.Time
}

func (s *stat) Name() string       { return s.name }
func (s *stat) Size() int64        { return 0 }
func (s *stat) Mode() os.FileMode  { return s.mode }
func (s *stat) ModTime() time.Time { return s.mtime }
func (s *stat) IsDir() bool        { return s.mode.IsDir() }
func (s *stat) Sys() any           { return nil }

func (n *node) time() time.Time {
	if !n.hasTime {
		return time.Time{}
	}
	return time.Unix(n.secs, n.nsecs)
}

func (n *node) statOrNil() os.FileInfo {
	if n.mode == 0 && !n.hasTime && len(n.name)%2 == 0 {
		return nil // both constructors (with and without stat) are exercised
	}
	return &stat{name: n.name, mode: os.FileMode(n.mode), mtime: n.time()}
}

// readerFor backs a file's content with one of several io.Reader shapes allowed by the io.Reader
// contract: kind 0 = bytes.Reader ((n, nil) then (0, EOF)); 1 = data returned together with io.EOF;
// 2 = one byte per Read; 3 = one byte per Read, the last one together with io.EOF; 4 = half reads.
func readerFor(kind int, data []byte) io.Reader {
	switch kind {
	case 1:
		return iotest.DataErrReader(bytes.NewReader(data))
	case 2:
		return iotest.OneByteReader(bytes.NewReader(data))
	case 3:
		return iotest.DataErrReader(iotest.OneByteReader(bytes.NewReader(data)))
	case 4:
		return iotest.HalfReader(bytes.NewReader(data))
	}
	return bytes.NewReader(data)
}

// salt < 0: the plain constructors; otherwise the reader shape of each file derives from the salt
func build(kids []*node, st os.FileInfo) files.Directory { return buildSalt(kids, st, -1) }

func buildSalt(kids []*node, st os.FileInfo, salt int) files.Directory {
	var es []files.DirEntry
	for i, k := range kids {
		var nd files.Node
		switch k.kind {
		case 'f':
			if salt >= 0 || k.abs != "" {
				kind := 0
				if salt >= 0 {
					kind = (salt + 3*i + len(k.name) + len(k.data)) % 5
				}
				if k.abs != "" {
					// a file with a known absolute path (AbsPath() travels in the abspath-encoded header)
					nd, _ = files.NewReaderPathFile(k.abs, io.NopCloser(readerFor(kind, []byte(k.data))), k.statOrNil())
				} else {
					nd = files.NewReaderStatFile(readerFor(kind, []byte(k.data)), k.statOrNil())
				}
			} else if s := k.statOrNil(); s != nil {
				nd = files.NewBytesStatFile([]byte(k.data), s)
			} else {
				nd = files.NewBytesFile([]byte(k.data))
			}
		case 'l':
			nd = files.NewSymlinkFile(k.data, k.time())
		default:
			sub := salt
			if sub >= 0 {
				sub = salt + i + 1
			}
			nd = buildSalt(k.kids, k.statOrNil(), sub)
		}
		es = append(es, files.FileEntry(k.name, nd))
	}
	if st != nil {
		return files.NewSliceStatDirectory(es, st)
	}
	return files.NewSliceDirectory(es)
}

// ---- walking what the reader hands back

func mtTok(t time.Time) string {
	if t.IsZero() {
		return "-"
	}
	return fmt.Sprintf("%d:%d", t.Unix(), t.Nanosecond())
}

func dump(d files.Directory, depth int) ([]*node, error) {
	if depth > 64 {
		return nil, fmt.Errorf("too deep")
	}
	var out []*node
	it := d.Entries()
	for it.Next() {
		n := &node{name: it.Name()}
		nd := it.Node()
		t := nd.ModTime()
		if !t.IsZero() {
			n.hasTime, n.secs, n.nsecs = true, t.Unix(), int64(t.Nanosecond())
		}
		switch f := nd.(type) {
		case *files.Symlink:
			n.kind, n.data = 'l', f.Target
		case files.Directory:
			n.kind, n.mode = 'd', uint32(f.Mode())
			kids, err := dump(f, depth+1)
			if err != nil {
				return nil, err
			}
			n.kids = kids
		case files.File:
			n.kind, n.mode = 'f', uint32(f.Mode())
			if fi, ok := nd.(files.FileInfo); ok {
				n.abs = fi.AbsPath()
				if st := fi.Stat(); st != nil {
					n.statName, n.statDir = st.Name(), st.IsDir()
					_ = st.Sys()
				}
			}
			b, err := io.ReadAll(f)
			if err != nil {
				return nil, err
			}
			n.data = string(b)
		default:
			return nil, fmt.Errorf("unknown node type %T", nd)
		}
		out = append(out, n)
	}
	return out, it.Err()
}

func readBack(r io.Reader, boundary string) ([]*node, error) {
	d, err := files.NewFileFromPartReader(multipart.NewReader(r, boundary), "multipart/form-data")
	if err != nil {
		return nil, err
	}
	return dump(d, 0)
}

// ---- generators

var nameFrags = []string{"a", "b", "c", "file.txt", "a b", "q\"uote", "100%", "50%25", "a+b", "\xc3\xbc\xe2\x82\xac", "x;y", "k=v",
	"a&b", "what?", "#1", "~tilde", "..a", "a..", "...", "-", "_", "a\\b", "t\tab", "\xff\xfe", "CAPS", "very-long-name-0123456789-abcdefghijklmnopqrstuvwxyz",
	"a", "b", "d", "dir", "sub"}
var badNames = []string{"", ".", "..", "a/b", "/abs", "x/../y", "a/", "./a"}
var modes = []uint32{0, 0, 0o644, 0o755, 0o7777, 0o600, 1<<31 | 0o755, 1<<31 | 0o700, 1, 0o777, 1<<27 | 0o777, 0xffffffff}

func randName(r *vh.Rand) string {
	if r.Chance(1, 40) {
		return vh.Pick(r, badNames)
	}
	s := vh.Pick(r, nameFrags)
	if r.Chance(1, 6) {
		s += vh.Pick(r, nameFrags)
	}
	return s
}

func randMeta(r *vh.Rand, n *node) {
	n.mode = vh.Pick(r, modes)
	if r.Chance(1, 10) {
		n.mode = uint32(r.U64())
	}
	switch r.Intn(8) {
	case 0, 1, 2:
	case 3:
		n.hasTime, n.secs, n.nsecs = true, 0, 0
	case 4:
		n.hasTime, n.secs, n.nsecs = true, int64(r.Range(1, 2000000000)), 0
	case 5:
		n.hasTime, n.secs, n.nsecs = true, int64(r.Range(0, 2000000000)), int64(r.Range(1, 999999999))
	case 6:
		n.hasTime, n.secs, n.nsecs = true, -int64(r.Range(1, 100000)), int64(r.Intn(1000000000))
	default:
		n.hasTime, n.secs, n.nsecs = true, int64(r.U64()>>r.Intn(40)>>2), int64(r.Intn(2))
	}
}

func randKids(r *vh.Rand, depth, maxDepth int) []*node {
	var kids []*node
	for i, n := 0, r.Intn(5); i < n; i++ {
		k := &node{name: randName(r)}
		switch r.Intn(6) {
		case 0, 1:
			if depth < maxDepth {
				k.kind = 'd'
				randMeta(r, k)
				k.kids = randKids(r, depth+1, maxDepth)
				break
			}
			fallthrough
		case 2:
			k.kind = 'l'
			randMeta(r, k)
			k.mode = 0
			k.data = vh.Pick(r, []string{"target", "../x", "/abs/t", "", "a b\n"})
		default:
			k.kind = 'f'
			randMeta(r, k)
			if r.Chance(1, 3) {
				k.abs = "/" + vh.Pick(r, nameFrags)
				for j, jj := 0, r.Intn(3); j < jj; j++ {
					k.abs += "/" + vh.Pick(r, nameFrags)
				}
			}
			k.data = string(r.Bytes(r.Intn(12)))
			if r.Chance(1, 8) {
				k.data = vh.Pick(r, []string{"", "\r\n--", "--boundary\r\n", "line1\nline2\r\n"})
			}
			if r.Chance(1, 12) {
				// longer than one chunk of the multipart part reader
				k.data = string(r.Bytes(r.Range(300, 1500)))
			}
		}
		kids = append(kids, k)
	}
	return kids
}

var craftedForm = []string{"file", "file?mtime-nsecs=5", "file?mode=abc", "file?mtime=x", "file?mode=0644;mtime=1", "file?%zz=1",
	"file?mode=0755", "file?mtime=7", "file?mtime=7&mtime-nsecs=999999999", "file?mode=0644&mode=0600", "file?mode=08", "file?mode=040000000000",
	"file?mtime=-3", "file?mtime=+3", "file?&&mode=1", "file?mode", "file?mode=", "other?mode=0644", "?mode=0644", "file?mtime=1&mtime-nsecs=1000000001",
	"file?mtime=1&mtime-nsecs=-1", "file?mtime=1&mtime-nsecs=9223372036854775808", "file?mtime=1&mtime-nsecs=-9223372036854775809",
	"file?mtime=1&mtime-nsecs=99999999999999999999999", "file?mtime=1&mtime-nsecs=+5", "file?mtime=1&mtime-nsecs=abc", "file?mtime=1&mtime-nsecs=", "file?mtime=1&mtime-nsecs=-",
	"file?mtime=0&mtime-nsecs=9223372036854775807", "file?mtime=-5&mtime-nsecs=-9223372036854775808", "file?mtime=-62135596800", "file?mtime=9223372036854775808", "file?mode=0644&mtime=%31"}
var craftedFile = []string{"a", "a/b", "a/b/c", "a%2Fb", "%zz", "a+b", "a/../b", "/a", "a//b", "", ".", "..", "a/", "b", "a/c", "ab", "a%20b", "d/e/f/g"}

func randParts(r *vh.Rand) []string {
	var out []string
	for i, n := 0, r.Range(1, 6); i < n; i++ {
		form := "1"
		if r.Chance(1, 5) {
			form = "0"
		}
		out = append(out, form, h(vh.Pick(r, craftedForm)), h(vh.Pick(r, craftedFile)), vh.Pick(r, []string{"d", "l", "f", "f"}), h(vh.Pick(r, []string{"", "x", "body"})))
	}
	return out
}

var mtFrags = []string{"form-data", "attachment", "Form-Data", "text/plain", "multipart/form-data", " form-data ", "a/b/c", "", "x y", "application/x-directory", "text/"}
var keyFrags = []string{"name", "filename", "NAME", "a", "b-c", "x.y", "k1", "charset"}
var valFrags = []string{"\"file\"", "\"file?mode=0644&mtime=1\"", "tok", "\"a b\"", "\"a\\\"b\"", "\"a\\b\"", "\"unterminated", "", "\"\"", "a%2Fb", "\"x;y=z\"",
	"\"tab\there\"", "\"cr\rlf\"", "v/w", "\"a\\\\b\"", "UPPER", "\"\xc3\xbc\""}

// header values inside the modelled fragment: no '*' in parameter names, no duplicate names, ASCII white space
func randHeaderValue(r *vh.Rand) string {
	var sb strings.Builder
	sb.WriteString(vh.Pick(r, mtFrags))
	used := map[string]bool{}
	for i, n := 0, r.Intn(4); i < n; i++ {
		k := vh.Pick(r, keyFrags)
		if used[strings.ToLower(k)] {
			continue
		}
		used[strings.ToLower(k)] = true
		sb.WriteString(vh.Pick(r, []string{"; ", ";", " ; ", ";\t", "; "}))
		sb.WriteString(k)
		sb.WriteString(vh.Pick(r, []string{"=", "=", " = ", "= "}))
		sb.WriteString(vh.Pick(r, valFrags))
	}
	if r.Chance(1, 6) {
		sb.WriteString(vh.Pick(r, []string{";", " ; ", ";;", "; x"}))
	}
	return sb.String()
}

func gen(r *vh.Rand, tier string, n int, emit func(vh.Case)) {
	maxDepth := 3
	if tier == "thorough" {
		maxDepth = 4
	}
	for i := 0; i < n; i++ {
		c := vh.Case{ID: strconv.Itoa(i)}
		if r.Chance(1, 5) {
			for j, m := 0, r.Range(1, 3); j < m; j++ {
				c.Ops = append(c.Ops, "parts "+strings.Join(randParts(r), " "))
			}
			emit(c)
			continue
		}
		if r.Chance(1, 6) {
			// the textual header layer
			for j, m := 0, r.Range(1, 4); j < m; j++ {
				if r.Bool() {
					k := &node{}
					randMeta(r, k)
					form := "1"
					if r.Chance(1, 4) {
						form = "0"
					}
					nm := vh.Pick(r, nameFrags)
					c.Ops = append(c.Ops, "hdr "+form+" "+strconv.FormatUint(uint64(k.mode), 10)+" "+k.mtimeTok()+" "+h(nm))
				} else {
					c.Ops = append(c.Ops, "mparse "+h(randHeaderValue(r)))
				}
			}
			emit(c)
			continue
		}
		kids := randKids(r, 1, maxDepth)
		toks := strings.Join(treeTokens(kids), " ")
		form := "1"
		if r.Chance(1, 4) {
			form = "0"
		}
		c.Ops = append(c.Ops, "ser "+form+" "+toks, "rt "+form+" "+toks)
		if r.Chance(1, 2) {
			// the same tree with files backed by other reader shapes (data+EOF, one byte per read, ...)
			c.Ops = append(c.Ops, "rtr "+form+" "+strconv.Itoa(r.Intn(1000))+" "+toks)
		}
		if r.Chance(1, 3) {
			// forward a parsed tree: serialise -> parse -> serialise the parsed tree -> parse
			c.Ops = append(c.Ops, "rt2 "+form+" "+toks)
		}
		if r.Chance(1, 3) {
			other := "0"
			if form == "0" {
				other = "1"
			}
			c.Ops = append(c.Ops, "rt "+other+" "+toks)
		}
		emit(c)
	}
}

// ---- exec

func normalName(s string) bool {
	return s != "" && s != "." && s != ".." && !strings.Contains(s, "/")
}

func guardOK(kids []*node) bool {
	for _, k := range kids {
		if !normalName(k.name) || !guardOK(k.kids) {
			return false
		}
		if k.hasTime && (k.nsecs < 0 || k.nsecs >= 1000000000 || time.Unix(k.secs, k.nsecs).IsZero()) {
			return false
		}
	}
	return true
}

func ctypeOf(hd textproto.MIMEHeader) string {
	ct := hd.Get("Content-Type")
	if ct != "" {
		if mt, _, err := mime.ParseMediaType(ct); err == nil {
			ct = mt
		}
	}
	switch ct {
	case "multipart/form-data", "application/x-directory":
		return "d"
	case "application/symlink":
		return "l"
	}
	return "f"
}

func exec(c vh.Case, o *vh.Out) {
	for _, line := range c.Ops {
		f := strings.Fields(line)
		switch f[0] {
		case "hdr":
			// the real writer's Content-Disposition for one file entry, and what the real mime parser reads from it
			k := &node{kind: 'f', name: string(vh.UnHex(f[4]))}
			m, _ := strconv.ParseUint(f[2], 10, 32)
			k.mode = uint32(m)
			parseMt(k, f[3])
			mfr := files.NewMultiFileReader(build([]*node{k}, nil), f[1] == "1", false)
			mr := multipart.NewReader(mfr, mfr.Boundary())
			p, err := mr.NextRawPart()
			if err != nil {
				o.Emit("error")
				continue
			}
			raw := p.Header.Get("Content-Disposition")
			disp, params, perr := mime.ParseMediaType(raw)
			o.Kind("hdr")
			if perr != nil {
				o.Emit("%s unparsed", h(raw))
				continue
			}
			isForm := 0
			if disp == "form-data" {
				isForm = 1
			}
			if p.FormName() != params["name"] && isForm == 1 {
				o.Fail("formname", "%q vs %q", p.FormName(), params["name"])
			}
			nm := ""
			if isForm == 1 {
				nm = params["name"]
			}
			o.Emit("%s %d %s %s", h(raw), isForm, h(nm), h(params["filename"]))
		case "mparse":
			mt, params, err := mime.ParseMediaType(string(vh.UnHex(f[1])))
			o.Kind("mparse")
			if err != nil {
				o.Kind("mparse-err")
				o.Emit("none")
				continue
			}
			var kv []string
			for k, v := range params {
				kv = append(kv, h(k)+":"+h(v))
			}
			sort.Strings(kv)
			ps := "="
			if len(kv) > 0 {
				ps = strings.Join(kv, ",")
			}
			o.Emit("ok %s %s", h(mt), ps)
		case "ser":
			form := f[1] == "1"
			kids, _ := parseTree(f[2:])
			mfr := files.NewMultiFileReader(build(kids, nil), form, false)
			mr := multipart.NewReader(mfr, mfr.Boundary())
			var ps []string
			for {
				p, err := mr.NextRawPart()
				if err != nil {
					if err != io.EOF {
						ps = append(ps, "error")
					}
					break
				}
				disp, params, _ := mime.ParseMediaType(p.Header.Get("Content-Disposition"))
				body, _ := io.ReadAll(p)
				isForm := 0
				if disp == "form-data" {
					isForm = 1
				}
				ps = append(ps, fmt.Sprintf("%d|%s|%s|%s|%s|%s", isForm, h(p.FormName()), h(params["filename"]), ctypeOf(p.Header), h(string(body)), h(p.Header.Get("abspath-encoded"))))
			}
			o.Kind("ser")
			if len(ps) == 0 {
				o.Emit("none")
			} else {
				o.Emit("%s", strings.Join(ps, " "))
			}
		case "rt", "rtr", "rt2":
			form := f[1] == "1"
			var kids []*node
			var got []*node
			var err error
			switch f[0] {
			case "rt":
				kids, _ = parseTree(f[2:])
				mfr := files.NewMultiFileReader(build(kids, nil), form, false)
				got, err = readBack(mfr, mfr.Boundary())
			case "rtr":
				kids, _ = parseTree(f[3:])
				mfr := files.NewMultiFileReader(buildSalt(kids, nil, vh.Atoi(f[2])), form, false)
				got, err = readBack(mfr, mfr.Boundary())
				o.Kind("rt-reader-shapes")
			default:
				kids, _ = parseTree(f[2:])
				mfr1 := files.NewMultiFileReader(build(kids, nil), form, false)
				var d1 files.Directory
				d1, err = files.NewFileFromPartReader(multipart.NewReader(mfr1, mfr1.Boundary()), "multipart/form-data")
				if err == nil {
					// the lazily parsed tree (files are multipart.Part readers) is serialised again
					mfr2 := files.NewMultiFileReader(d1, form, false)
					got, err = readBack(mfr2, mfr2.Boundary())
				}
				o.Kind("rt-forwarded")
			}
			if err != nil {
				o.Kind("rt-error")
				o.Emit("error")
				continue
			}
			if form {
				o.Kind("rt-form")
			} else {
				o.Kind("rt-mixed")
			}
			// ---- monitor: the property itself (only for trees inside the quantifier)
			if guardOK(kids) {
				var want, have []string
				for _, k := range kids {
					k.annot(&want, !form)
				}
				for _, k := range got {
					k.annot(&have, false)
				}
				for i := 0; i < len(want) || i < len(have); i++ {
					w, g := "<end>", "<end>"
					if i < len(want) {
						w = want[i]
					}
					if i < len(have) {
						g = have[i]
					}
					if w != g {
						sig := "roundtrip-" + strings.SplitN(w, ":", 2)[0]
						if w == "mtime:-" && g == "mtime:0:0" {
							sig = "mtime-epoch-when-unset"
						}
						o.Fail(sig, "token %d: want %s got %s", i, w, g)
						break
					}
				}
				// the stat handed out with a parsed file names the entry
				var chk func(ns []*node)
				chk = func(ns []*node) {
					for _, k := range ns {
						if k.kind == 'f' && k.statName != "" && k.statName != k.name {
							o.Fail("stat-name", "entry %q has Stat().Name() %q", k.name, k.statName)
						}
						chk(k.kids)
					}
				}
				chk(got)
				if len(want) > 5 {
					o.Nontrivial()
				}
			} else {
				o.Kind("outside-guard")
			}
			o.Emit("%s", strings.Join(treeTokens(got), " "))
		case "parts":
			var buf bytes.Buffer
			w := multipart.NewWriter(&buf)
			ts := f[1:]
			for len(ts) >= 5 {
				hd := make(textproto.MIMEHeader)
				fn, file := string(vh.UnHex(ts[1])), string(vh.UnHex(ts[2]))
				if ts[0] == "1" {
					hd.Set("Content-Disposition", fmt.Sprintf("form-data; name=\"%s\"; filename=\"%s\"", fn, file))
				} else {
					hd.Set("Content-Disposition", fmt.Sprintf("attachment; filename=\"%s\"", file))
				}
				switch ts[3] {
				case "d":
					hd.Set("Content-Type", "application/x-directory")
				case "l":
					hd.Set("Content-Type", "application/symlink")
				default:
					hd.Set("Content-Type", "application/octet-stream")
				}
				pw, _ := w.CreatePart(hd)
				pw.Write(vh.UnHex(ts[4]))
				ts = ts[5:]
			}
			w.Close()
			got, err := readBack(&buf, w.Boundary())
			o.Kind("parts")
			if err != nil {
				o.Kind("parts-error")
				o.Emit("error")
				continue
			}
			o.Emit("%s", strings.Join(treeTokens(got), " "))
		default:
			o.Emit("bad-op")
		}
	}
}

func main() { vh.Main(vh.Config{Gen: gen, Exec: exec}) }
