// C35 harness: drives the real bitswap client MessageQueue (internal package, reached through the
// verif-tagged re-export bitswap/client/verifmq) one sender phase at a time.
//
// The sender goroutine runs the real sendMessage / rebroadcastWantlist; it parks at the schedule
// points inside extractOutgoingMessage (hook) and inside the fake MessageSender.SendMsg, so that
// producer calls (AddWants, AddBroadcastWantHaves, AddCancels, handleResponse) can be placed
// between the lock-protected phases exactly where the op sequence says.
//
// Ops (one output line each; every line ends with the queue's bookkeeping dump):
//
//	new <maxMsgSize> <have 0|1> <cidLen_0> ... <cidLen_n-1>
//	want <blocks|-> <haves|->      AddWants           (lists: comma separated pool indices)
//	bcast <list>                   AddBroadcastWantHaves
//	cancel <list>                  AddCancels
//	resp <list>                    handleResponse
//	rf <k>                         rebroadcastWantlist refreshing wants sent at epoch <= k (sender idle only)
//	sA / sB / sC / sD              next sender phase: snapshot / fill / mark-sent+prune / SendMsg+onSent
//	drain                          run whole send cycles until the queue has no work
package main

import (
	"context"
	"fmt"
	"sort"
	"strconv"
	"strings"
	"time"

	"github.com/ipfs/boxo/bitswap/client/verifmq"
	bswl "github.com/ipfs/boxo/bitswap/client/wantlist"
	bsmsg "github.com/ipfs/boxo/bitswap/message"
	pb "github.com/ipfs/boxo/bitswap/message/pb"
	bsnet "github.com/ipfs/boxo/bitswap/network"
	cid "github.com/ipfs/go-cid"
	peer "github.com/libp2p/go-libp2p/core/peer"
	"github.com/libp2p/go-libp2p/p2p/protocol/ping"

	"verifharness/vh"
)

const maxPriority = 1<<31 - 1

// hasCaps: the tree under test has the second hook generation (schedule points 3/4, VerifWorkSignalled,
// VerifMsgEmpty). Without it the harness falls back to the first generation: no run-loop mode, no
// work-signal column.
var hasCaps = func() bool {
	var q *verifmq.MessageQueue
	_, ok := any(q).(interface{ VerifMsgEmpty() bool })
	return ok
}()

type capsQ interface {
	VerifMsgEmpty() bool
	VerifWorkSignalled() bool
}

// ---- fake network / sender

type fakeNet struct{ s *fakeSender }

func (n *fakeNet) Connect(context.Context, peer.AddrInfo) error { return nil }
func (n *fakeNet) NewMessageSender(context.Context, peer.ID, *bsnet.MessageSenderOpts) (bsnet.MessageSender, error) {
	return n.s, nil
}
func (n *fakeNet) Latency(peer.ID) time.Duration { return 0 }
func (n *fakeNet) Ping(context.Context, peer.ID) ping.Result {
	return ping.Result{}
}
func (n *fakeNet) Self() peer.ID { return "" }

type fakeSender struct {
	have bool
	c    *ctl
}

func (s *fakeSender) SendMsg(_ context.Context, m bsmsg.BitSwapMessage) error {
	s.c.ev <- event{kind: evSend, msg: m.Wantlist()}
	<-s.c.release
	return nil
}
func (s *fakeSender) Reset() error       { return nil }
func (s *fakeSender) SupportsHave() bool { return s.have }

// ---- controller

const (
	evPoint = iota
	evSend
	evDone
)

type event struct {
	kind           int
	point, a, b, c int
	msg            []bsmsg.Entry
}

const (
	phIdle = iota
	phPre  // parked at point 0 after a rebroadcast refreshed something
	phA    // snapshot taken
	phB    // message filled
	phFlight
)

type ctl struct {
	mq      *verifmq.MessageQueue
	ev      chan event
	release chan struct{}
	phase   int
	flight  []bsmsg.Entry

	cids   []cid.Cid
	idx    map[cid.Cid]int
	have   bool
	peerWL *bswl.Wantlist // replay of the sent messages
	// epochs: after[k] = a time after the k-th delivered message's onSent and before anything later
	after []time.Time

	// ghost: what the client currently wants from this peer
	pw map[int]pb.Message_Wantlist_WantType
	bw map[int]bool

	sawCancelMsg, interleaved bool
	loop                      bool // the real runQueue goroutine drives the sender
	tok                       bool // loop mode: a work signal has been produced and not yet taken by the loop
	lostWake                  bool
	caps                      bool
	snapTotal                 int
	truncated                 bool
}

func (c *ctl) wait() event { return <-c.ev }

func (c *ctl) start(f func()) {
	go func() {
		f()
		c.ev <- event{kind: evDone}
	}()
}

func mkCid(i, l int) cid.Cid {
	if l < 5 || l > 4+127 {
		panic("cid length out of range")
	}
	b := make([]byte, l)
	b[0], b[1], b[2], b[3] = 1, 0x55, 0, byte(l-4)
	for j := 4; j < l; j++ {
		b[j] = 0xAA
	}
	b[4] = byte(i)
	c, err := cid.Cast(b)
	if err != nil {
		panic(err)
	}
	if len(c.Bytes()) != l {
		panic("cid length mismatch")
	}
	return c
}

func tyS(t pb.Message_Wantlist_WantType) string {
	if t == pb.Message_Wantlist_Block {
		return "B"
	}
	return "H"
}

func (c *ctl) wlS(es []bswl.Entry) string {
	ss := make([]string, 0, len(es))
	sort.Slice(es, func(i, j int) bool { return c.idx[es[i].Cid] < c.idx[es[j].Cid] })
	for _, e := range es {
		ss = append(ss, fmt.Sprintf("%d:%s:%d", c.idx[e.Cid], tyS(e.WantType), maxPriority-int(e.Priority)))
	}
	return "[" + strings.Join(ss, ",") + "]"
}

func (c *ctl) epochOf(t time.Time) int {
	// the k-th (1-based) delivered message set sentAt between after[k-1] and after[k]
	for k := 1; k < len(c.after); k++ {
		if !t.After(c.after[k]) {
			return k
		}
	}
	return -1
}

func (c *ctl) atS(m map[cid.Cid]time.Time) string {
	type kv struct{ i, e int }
	var xs []kv
	for k, t := range m {
		xs = append(xs, kv{c.idx[k], c.epochOf(t)})
	}
	sort.Slice(xs, func(i, j int) bool { return xs[i].i < xs[j].i })
	ss := make([]string, len(xs))
	for i, x := range xs {
		ss[i] = fmt.Sprintf("%d@%d", x.i, x.e)
	}
	return "[" + strings.Join(ss, ",") + "]"
}

func (c *ctl) dump() string {
	s := c.mq.VerifState()
	cx := make([]int, 0, len(s.Cancels))
	for _, k := range s.Cancels {
		cx = append(cx, c.idx[k])
	}
	sort.Ints(cx)
	cs := make([]string, len(cx))
	for i, x := range cx {
		cs[i] = strconv.Itoa(x)
	}
	sig := "-" // in loop mode the token is taken asynchronously: not compared
	if !c.loop && c.caps {
		sig = strconv.Itoa(b2i(any(c.mq).(capsQ).VerifWorkSignalled()))
	}
	return fmt.Sprintf("pp=%s ps=%s bp=%s bs=%s pat=%s bat=%s cx=[%s] n=%d sig=%s ph=%d", c.wlS(s.PeerPending), c.wlS(s.PeerSent),
		c.wlS(s.BcstPending), c.wlS(s.BcstSent), c.atS(s.PeerSentAt), c.atS(s.BcstSentAt), strings.Join(cs, ","),
		maxPriority-int(s.Priority), sig, c.phase)
}

func b2i(b bool) int {
	if b {
		return 1
	}
	return 0
}

// settle (loop mode): when a work signal is outstanding and the sender is idle, the real run loop must
// take it (after its debounce timer at the latest) and enter sendMessage, where it parks at point 0.
func (c *ctl) settle(o *vh.Out) {
	if !c.loop || c.phase != phIdle {
		return
	}
	if !c.tok {
		select { // nothing expected; a stray wake-up shows as a model difference
		case e := <-c.ev:
			if e.kind == evPoint && e.point == 0 {
				c.phase = phPre
			}
		default:
		}
		return
	}
	select {
	case e := <-c.ev:
		if e.kind != evPoint || e.point != 0 {
			panic(fmt.Sprintf("expected the run loop at point 0, got %+v", e))
		}
		c.phase = phPre
		c.tok = false
	case <-time.After(3 * time.Second):
		// the property: work that is left is never left unsent -- the loop must wake up for it
		o.Fail("lost-wakeup", "work is queued (HasMessage=%v) but the run loop did not wake within 3 s", c.mq.HasMessage())
		c.tok = false
		c.lostWake = true
	}
}

// endCycle (loop mode): sendMessage has returned to the run loop; work that is left must be signalled.
func (c *ctl) endCycle() {
	c.phase = phIdle
	if c.loop && c.mq.HasMessage() {
		c.tok = true
	}
}

func (c *ctl) anySent(ks []cid.Cid) bool {
	s := c.mq.VerifState()
	for _, k := range ks {
		for _, e := range s.PeerSent {
			if e.Cid.Equals(k) {
				return true
			}
		}
		for _, e := range s.BcstSent {
			if e.Cid.Equals(k) {
				return true
			}
		}
	}
	return false
}

func (c *ctl) peerS() string {
	return "P=" + func() string {
		es := append([]bswl.Entry(nil), c.peerWL.Entries()...)
		sort.Slice(es, func(i, j int) bool { return c.idx[es[i].Cid] < c.idx[es[j].Cid] })
		ss := make([]string, len(es))
		for i, e := range es {
			ss[i] = fmt.Sprintf("%d:%s", c.idx[e.Cid], tyS(e.WantType))
		}
		return "[" + strings.Join(ss, ",") + "]"
	}()
}

func (c *ctl) msgS(es []bsmsg.Entry) string {
	es = append([]bsmsg.Entry(nil), es...)
	sort.Slice(es, func(i, j int) bool { return c.idx[es[i].Cid] < c.idx[es[j].Cid] })
	ss := make([]string, len(es))
	for i, e := range es {
		if e.Cancel {
			ss[i] = fmt.Sprintf("%d:X", c.idx[e.Cid])
		} else {
			d := "-"
			if e.SendDontHave {
				d = "d"
			}
			ss[i] = fmt.Sprintf("%d:%s:%d:%s", c.idx[e.Cid], tyS(e.WantType), maxPriority-int(e.Priority), d)
		}
	}
	return "[" + strings.Join(ss, ",") + "]"
}

func (c *ctl) list(s string) []cid.Cid {
	if s == "-" {
		return nil
	}
	var out []cid.Cid
	for _, t := range strings.Split(s, ",") {
		out = append(out, c.cids[vh.Atoi(t)])
	}
	return out
}

func ilist(s string) []int {
	if s == "-" {
		return nil
	}
	var out []int
	for _, t := range strings.Split(s, ",") {
		out = append(out, vh.Atoi(t))
	}
	return out
}

// tick returns a time strictly later than every time observed so far.
func tick() time.Time {
	t0 := time.Now()
	for {
		t := time.Now()
		if t.After(t0) {
			return t
		}
	}
}

// sender steps; each returns the token printed for the op
func (c *ctl) stepA() string {
	switch c.phase {
	case phIdle:
		if c.loop {
			return "noop"
		}
		c.start(c.mq.VerifSendMessage)
		if e := c.wait(); e.kind != evPoint || e.point != 0 {
			panic(fmt.Sprintf("expected point 0, got %+v", e))
		}
	case phPre:
	default:
		return "noop"
	}
	c.release <- struct{}{}
	e := c.wait()
	if e.kind != evPoint || e.point != 1 {
		panic(fmt.Sprintf("expected point 1, got %+v", e))
	}
	c.phase = phA
	c.snapTotal = e.a + e.b + e.c
	return fmt.Sprintf("A %d %d %d", e.a, e.b, e.c)
}

func (c *ctl) stepB() string {
	if c.phase != phA {
		return "noop"
	}
	c.release <- struct{}{}
	e := c.wait()
	if e.kind != evPoint || e.point != 2 {
		panic(fmt.Sprintf("expected point 2, got %+v", e))
	}
	c.phase = phB
	if e.a+e.b+e.c < c.snapTotal {
		c.truncated = true
	}
	return fmt.Sprintf("B %d %d %d", e.a, e.b, e.c)
}

func (c *ctl) stepC() string {
	if c.phase != phB {
		return "noop"
	}
	c.release <- struct{}{}
	if !hasCaps { // first hook generation: sendMessage either returns or reaches SendMsg
		e := c.wait()
		switch e.kind {
		case evDone:
			c.phase = phIdle
			return "C empty"
		case evSend:
			c.phase = phFlight
			c.flight = e.msg
			return "C " + c.msgS(e.msg)
		}
		panic(fmt.Sprintf("unexpected event after C: %+v", e))
	}
	if e := c.wait(); e.kind != evPoint || e.point != 3 {
		panic(fmt.Sprintf("expected point 3, got %+v", e))
	}
	if any(c.mq).(capsQ).VerifMsgEmpty() {
		// sendMessage returns without sending
		c.release <- struct{}{}
		if !c.loop {
			if e := c.wait(); e.kind != evDone {
				panic(fmt.Sprintf("expected sendMessage to return, got %+v", e))
			}
		}
		c.endCycle()
		return "C empty"
	}
	c.release <- struct{}{}
	e := c.wait()
	if e.kind != evSend {
		panic(fmt.Sprintf("unexpected event after C: %+v", e))
	}
	c.phase = phFlight
	c.flight = e.msg
	return "C " + c.msgS(e.msg)
}

func (c *ctl) stepD() string {
	if c.phase != phFlight {
		return "noop"
	}
	tick()
	// the peer receives the message: replay onto its want-list
	for _, e := range c.flight {
		if e.Cancel {
			c.peerWL.Remove(e.Cid)
			c.sawCancelMsg = true
		} else {
			c.peerWL.Add(e.Cid, e.Priority, e.WantType)
		}
	}
	c.release <- struct{}{}
	if !hasCaps {
		if e := c.wait(); e.kind != evDone {
			panic(fmt.Sprintf("expected sendMessage to return, got %+v", e))
		}
		c.after = append(c.after, tick())
		c.phase = phIdle
		return "D " + c.peerS()
	}
	if e := c.wait(); e.kind != evPoint || e.point != 4 {
		panic(fmt.Sprintf("expected point 4, got %+v", e))
	}
	c.after = append(c.after, tick())
	c.release <- struct{}{}
	if !c.loop {
		if e := c.wait(); e.kind != evDone {
			panic(fmt.Sprintf("expected sendMessage to return, got %+v", e))
		}
	}
	c.endCycle()
	return "D " + c.peerS()
}

func (c *ctl) refresh(k int) string {
	if c.phase != phIdle {
		return "noop"
	}
	if c.loop {
		// RebroadcastNow: the run loop refreshes every want that has a sentAt
		st := c.mq.VerifState()
		n := 0
		for _, e := range st.PeerSent {
			if _, ok := st.PeerSentAt[e.Cid]; ok {
				n++
			}
		}
		for _, e := range st.BcstSent {
			if _, ok := st.BcstSentAt[e.Cid]; ok {
				n++
			}
		}
		c.mq.RebroadcastNow()
		if n == 0 {
			// barrier: a second request is only taken once the first has been handled
			return "rf none"
		}
		if e := c.wait(); e.kind != evPoint || e.point != 0 {
			panic(fmt.Sprintf("expected point 0 after RebroadcastNow, got %+v", e))
		}
		c.phase = phPre
		return "rf pre"
	}
	if k < 0 {
		k = 0
	}
	if k >= len(c.after) {
		k = len(c.after) - 1
	}
	now := c.after[k].Add(time.Hour)
	c.start(func() { c.mq.VerifRebroadcast(now, time.Hour) })
	e := c.wait()
	switch {
	case e.kind == evDone:
		return "rf none"
	case e.kind == evPoint && e.point == 0:
		c.phase = phPre
		return "rf pre"
	}
	panic(fmt.Sprintf("unexpected event after refresh: %+v", e))
}

// monitor: the property's predicate, evaluated on the implementation's own outputs in every idle state
func (c *ctl) monitor(o *vh.Out) {
	if c.phase != phIdle || c.mq.HasMessage() {
		return
	}
	o.Kind("idle")
	for _, e := range c.peerWL.Entries() {
		i := c.idx[e.Cid]
		_, p := c.pw[i]
		if !p && !c.bw[i] {
			o.Fail("zombie", "cid %d is active at the peer (%s) but the client does not want it", i, tyS(e.WantType))
		}
	}
	for i := range c.cids {
		t, p := c.pw[i]
		var exp string
		switch {
		case c.have && p:
			exp = tyS(t)
		case c.have && c.bw[i]:
			exp = "H"
		case !c.have && ((p && t == pb.Message_Wantlist_Block) || c.bw[i]):
			exp = "B"
		}
		got, ok := c.peerWL.Get(c.cids[i])
		switch {
		case exp != "" && !ok:
			o.Fail("starved", "cid %d is wanted (%s) but the idle queue never told the peer", i, exp)
		case exp == "" && ok && (p || c.bw[i]):
			o.Fail("extra", "cid %d active at a peer without HAVE support although only want-have was requested", i)
		case exp == "B" && ok && got.WantType != pb.Message_Wantlist_Block:
			o.Fail("type-weaker", "cid %d wanted as block, peer holds want-have", i)
		}
	}
}

func exec(cs vh.Case, o *vh.Out) {
	var c *ctl
	defer func() {
		// never leave a parked sender goroutine behind
		if c != nil {
			for c.phase != phIdle {
				switch c.phase {
				case phPre:
					c.stepA()
				case phA:
					c.stepB()
				case phB:
					c.stepC()
				case phFlight:
					c.stepD()
				}
			}
			c.mq.Shutdown()
			verifmq.SetHook(nil)
			if c.loop {
				// the run loop may have woken once more before it saw the shutdown: let it run out
				cc := c
				go func() {
					for {
						select {
						case <-cc.ev:
							cc.release <- struct{}{}
						case <-time.After(200 * time.Millisecond):
							return
						}
					}
				}()
			}
		}
	}()
	for _, line := range cs.Ops {
		f := strings.Fields(line)
		if f[0] != "new" && c == nil {
			o.Emit("bad-op")
			continue
		}
		tok := "ok"
		switch f[0] {
		case "new":
			c = &ctl{ev: make(chan event), release: make(chan struct{}), idx: map[cid.Cid]int{}, peerWL: bswl.New(),
				pw: map[int]pb.Message_Wantlist_WantType{}, bw: map[int]bool{}}
			c.have = f[2] == "1"
			for i, l := range f[3:] {
				k := mkCid(i, vh.Atoi(l))
				c.cids = append(c.cids, k)
				c.idx[k] = i
			}
			fs := &fakeSender{have: c.have, c: c}
			c.mq = verifmq.New(context.Background(), peer.ID("verif-peer"), &fakeNet{s: fs}, vh.Atoi(f[1]))
			cc := c
			verifmq.SetHook(func(point, a, b, x int) {
				cc.ev <- event{kind: evPoint, point: point, a: a, b: b, c: x}
				<-cc.release
			})
			c.after = []time.Time{tick()}
			if c.have {
				o.Kind("have")
			} else {
				o.Kind("nohave")
			}
		case "want":
			if c.phase != phIdle {
				c.interleaved = true
			}
			c.mq.AddWants(c.list(f[1]), c.list(f[2]))
			if len(ilist(f[1]))+len(ilist(f[2])) > 0 {
				c.tok = true
			}
			for _, i := range ilist(f[2]) {
				if _, ok := c.pw[i]; !ok {
					c.pw[i] = pb.Message_Wantlist_Have
				}
			}
			for _, i := range ilist(f[1]) {
				c.pw[i] = pb.Message_Wantlist_Block
			}
		case "bcast":
			if c.phase != phIdle {
				c.interleaved = true
			}
			c.mq.AddBroadcastWantHaves(c.list(f[1]))
			if len(ilist(f[1])) > 0 {
				c.tok = true
			}
			for _, i := range ilist(f[1]) {
				c.bw[i] = true
			}
		case "cancel":
			if c.phase != phIdle {
				c.interleaved = true
			}
			if c.anySent(c.list(f[1])) { // AddCancels signals only for wants that were sent
				c.tok = true
			}
			c.mq.AddCancels(c.list(f[1]))
			for _, i := range ilist(f[1]) {
				delete(c.pw, i)
				delete(c.bw, i)
			}
		case "caps":
			if !hasCaps {
				panic("the tree under test lacks the second-generation verif hooks")
			}
			c.caps = true
		case "loop":
			// from here on the real run loop (runQueue) drives the sender
			c.loop = true
			c.mq.Startup()
			o.Kind("loop-mode")
		case "resp":
			ks := c.list(f[1])
			if !c.loop {
				c.mq.VerifHandleResponse(ks)
			} else if c.phase != phIdle {
				tok = "noop"
			} else {
				// handled asynchronously by the run loop: wait until it has cleared the sentAt records.
				// (A response for keys without a sentAt record changes nothing; it is not sent, because
				// there would be nothing to wait for and it could be handled at any later time.)
				st0 := c.mq.VerifState()
				any0 := false
				for _, k := range ks {
					_, a := st0.PeerSentAt[k]
					_, b := st0.BcstSentAt[k]
					any0 = any0 || a || b
				}
				if any0 {
					c.mq.ResponseReceived(ks)
				}
				for n := 0; any0; n++ {
					st := c.mq.VerifState()
					left := false
					for _, k := range ks {
						_, a := st.PeerSentAt[k]
						_, b := st.BcstSentAt[k]
						left = left || a || b
					}
					if !left {
						break
					}
					if n > 4000 {
						panic("run loop did not handle the response")
					}
					time.Sleep(500 * time.Microsecond)
				}
			}
		case "rf":
			tok = c.refresh(vh.Atoi(f[1]))
		case "sA":
			tok = c.stepA()
		case "sB":
			tok = c.stepB()
		case "sC":
			tok = c.stepC()
		case "sD":
			tok = c.stepD()
		case "drain":
			var msgs []string
			for n := 0; n < 400; n++ {
				c.settle(o)
				if c.phase == phIdle && (c.loop || !c.mq.HasMessage()) {
					break
				}
				switch c.phase {
				case phIdle, phPre:
					c.stepA()
				case phA:
					c.stepB()
				case phB:
					if r := c.stepC(); r != "C empty" {
						msgs = append(msgs, r[2:])
					}
				case phFlight:
					c.stepD()
				}
			}
			if !c.loop && (c.phase != phIdle || c.mq.HasMessage()) {
				// the property's convergence clause: with nothing else going on, repeated send cycles
				// must empty the queue (at most one cycle per pending want / queued cancel is needed)
				o.Fail("no-convergence", "100 send cycles did not make the queue idle (phase %d, HasMessage=%v)", c.phase, c.mq.HasMessage())
			}
			tok = "drain " + strings.Join(msgs, "|") + " " + c.peerS()
		default:
			o.Emit("bad-op")
			continue
		}
		o.Kind(strings.Fields(tok)[0] + "-" + f[0])
		if strings.HasPrefix(tok, "C [") && strings.Contains(tok, ":X") {
			o.Kind("cancel-sent")
		}
		c.settle(o)
		if c.truncated {
			o.Kind("truncated")
		}
		if c.interleaved {
			o.Kind("interleaved")
		}
		c.monitor(o)
		if c.sawCancelMsg && c.interleaved {
			o.Nontrivial()
		}
		o.Emit("%s | %s", tok, c.dump())
	}
}

// ---- generator

func pickList(r *vh.Rand, n int) string {
	k := 1
	if r.Chance(1, 4) {
		k = r.Range(1, 3)
	}
	seen := map[int]bool{}
	var ss []string
	for len(ss) < k && len(ss) < n {
		i := r.Intn(n)
		if !seen[i] {
			seen[i] = true
			ss = append(ss, strconv.Itoa(i))
		}
	}
	return strings.Join(ss, ",")
}

func producer(r *vh.Rand, n int) string {
	switch r.Intn(10) {
	case 0, 1, 2:
		if r.Chance(1, 5) {
			return "want " + pickList(r, n) + " " + pickList(r, n)
		}
		return "want " + pickList(r, n) + " -"
	case 3, 4:
		return "want - " + pickList(r, n)
	case 5:
		return "bcast " + pickList(r, n)
	case 6, 7, 8:
		return "cancel " + pickList(r, n)
	default:
		return "resp " + pickList(r, n)
	}
}

func gen(r *vh.Rand, tier string, n int, emit func(vh.Case)) {
	for i := 0; i < n; i++ {
		rc := r.Fork()
		c := vh.Case{ID: strconv.Itoa(i)}
		ncid := rc.Range(1, 3)
		if rc.Chance(1, 4) {
			ncid = rc.Range(4, 6)
		}
		if tier == "thorough" && rc.Chance(1, 4) {
			ncid = rc.Range(4, 10)
		}
		lens := make([]int, ncid)
		for j := range lens {
			lens[j] = vh.Pick(rc, []int{5, 8, 34, 36, 36, 36, 40, 100, 131})
		}
		sort.Ints(lens)
		max := vh.Pick(rc, []int{1, 1, 45, 50, 60, 90, 100, 150, 300, 2 << 20, 2 << 20})
		have := 1
		if rc.Chance(1, 4) {
			have = 0
		}
		hdr := fmt.Sprintf("new %d %d", max, have)
		for _, l := range lens {
			hdr += " " + strconv.Itoa(l)
		}
		c.Ops = append(c.Ops, hdr)
		if hasCaps {
			c.Ops = append(c.Ops, "caps 1")
		}
		loopDen := 100
		if tier == "thorough" {
			loopDen = 30
		}
		if hasCaps && rc.Chance(1, loopDen) {
			// the real run loop drives the sender: every send cycle starts from a work signal or RebroadcastNow
			c.Ops = append(c.Ops, "loop")
			for s, k := 0, rc.Range(4, 16); s < k; s++ {
				switch rc.Intn(10) {
				case 0, 1, 2, 3:
					c.Ops = append(c.Ops, producer(rc, ncid))
				case 4:
					c.Ops = append(c.Ops, "rf 0")
				case 5:
					c.Ops = append(c.Ops, "drain")
				default:
					c.Ops = append(c.Ops, "sA", "sB")
					if rc.Chance(1, 3) {
						c.Ops = append(c.Ops, producer(rc, ncid))
					}
					c.Ops = append(c.Ops, "sC", "sD")
				}
			}
			c.Ops = append(c.Ops, "drain")
			emit(c)
			continue
		}
		steps := rc.Range(4, 30)
		if tier == "thorough" {
			steps = rc.Range(4, 60)
		}
		g := 0 // generator's guess of the sender phase
		sends := 0
		for s := 0; s < steps; s++ {
			switch {
			case rc.Chance(1, 40):
				c.Ops = append(c.Ops, vh.Pick(rc, []string{"sA", "sB", "sC", "sD", "drain", "rf 0"}))
				g = 0
			case rc.Chance(9, 20):
				c.Ops = append(c.Ops, producer(rc, ncid))
			case g == 0 && sends > 0 && rc.Chance(1, 5):
				c.Ops = append(c.Ops, fmt.Sprintf("rf %d", rc.Range(0, sends)))
			default:
				c.Ops = append(c.Ops, []string{"sA", "sB", "sC", "sD"}[g])
				if g == 3 {
					sends++
				}
				g = (g + 1) % 4
			}
		}
		c.Ops = append(c.Ops, "drain")
		if rc.Chance(1, 3) {
			c.Ops = append(c.Ops, producer(rc, ncid), "drain")
		}
		emit(c)
	}
}

func main() { vh.Main(vh.Config{Gen: gen, Exec: exec, CaseTimeout: 20 * time.Second}) }
