// C31 harness: trustless gateway responses (raw block, CAR) of the REAL gateway handler over random
// UnixFS trees, decoded and replayed against an OFFLINE blockstore that holds only the CAR's blocks.
//
// Op lines of one case:
//
//	build <spec>                         recipe; exec builds the DAG with boxo's importer/directory code -> "ok"
//	tree <dump>                          block-level dump of the WHOLE tree with one label per distinct CID (gen);
//	                                     exec requires equality -> "ok blocks=<n>"; the model parses it
//	file <k> <seghex,..> <dump>          block-level dump (sizes + labels) of the file at that path, made by gen
//	                                     with the same code; exec requires equality -> "ok size=<n> ws=true"
//	range <hex of entity-bytes string>   gateway.NewDagByteRange                      -> "ok <from> <to|*>" | "err"
//	car f<k> <scope> <rangehex|-> <dups> CAR request for file k through the HTTP handler
//	                                     -> "ok <labels of ALL blocks in the CAR>" | "stream-error <labels>" | "http-<code>"
//	card <seghex,..|-> <scope> <rangehex|-> <dups>   CAR request for a directory / symlink / missing path
//	                                     -> "ok <labels>" | "absent <labels>" (missing path) | "http-<code>"
//	path segments are <namehex>:<murmur3hex> joined by ","
//	raw <seghex,..|->                    raw block request                              -> "ok" | "http-<code>"
//
// Everything else (hashes, root, offline sufficiency, duplicates) is checked by the monitor.
package main

import (
	"bytes"
	"context"
	"errors"
	"fmt"
	"io"
	"net/http"
	"net/http/httptest"
	"net/url"
	"os"
	"sort"
	"strconv"
	"strings"

	"github.com/ipfs/boxo/blockservice"
	"github.com/ipfs/boxo/blockstore"
	chunker "github.com/ipfs/boxo/chunker"
	"github.com/ipfs/boxo/exchange/offline"
	bsfetcher "github.com/ipfs/boxo/fetcher/impl/blockservice"
	"github.com/ipfs/boxo/gateway"
	"github.com/ipfs/boxo/ipld/merkledag"
	ft "github.com/ipfs/boxo/ipld/unixfs"
	"github.com/ipfs/boxo/ipld/unixfs/importer/balanced"
	ihelper "github.com/ipfs/boxo/ipld/unixfs/importer/helpers"
	"github.com/ipfs/boxo/ipld/unixfs/importer/trickle"
	uio "github.com/ipfs/boxo/ipld/unixfs/io"
	"github.com/ipfs/boxo/path"
	"github.com/ipfs/boxo/path/resolver"
	blocks "github.com/ipfs/go-block-format"
	"github.com/ipfs/go-cid"
	"github.com/ipfs/go-datastore"
	dssync "github.com/ipfs/go-datastore/sync"
	ipld "github.com/ipfs/go-ipld-format"
	"github.com/ipfs/go-unixfsnode"
	car "github.com/ipld/go-car/v2"
	dagpb "github.com/ipld/go-codec-dagpb"
	"github.com/prometheus/client_golang/prometheus"
	"github.com/spaolacci/murmur3"

	"verifharness/vh"
)

// ---------------------------------------------------------------- recipe

type spec struct {
	kind   byte // F file, S symlink, D basic dir, H hamt dir
	size   int  // F: bytes
	layout int  // F: 0 single raw block, 1 single dag-pb node, 2 balanced, 3 trickle
	chunk  int
	maxl   int
	rawlv  int
	width  int
	names  []string
	kids   []*spec
}

func (s *spec) tokens(out *[]string) {
	switch s.kind {
	case 'F':
		*out = append(*out, "F", strconv.Itoa(s.layout), strconv.Itoa(s.size), strconv.Itoa(s.chunk), strconv.Itoa(s.maxl), strconv.Itoa(s.rawlv))
	case 'S':
		*out = append(*out, "S", strconv.Itoa(s.size))
	default:
		*out = append(*out, string(s.kind), strconv.Itoa(s.width), strconv.Itoa(len(s.kids)))
		for i, k := range s.kids {
			*out = append(*out, vh.Hex([]byte(s.names[i])))
			k.tokens(out)
		}
	}
}

func parseSpec(ts []string) (*spec, []string) {
	switch ts[0] {
	case "F":
		return &spec{kind: 'F', layout: vh.Atoi(ts[1]), size: vh.Atoi(ts[2]), chunk: vh.Atoi(ts[3]), maxl: vh.Atoi(ts[4]), rawlv: vh.Atoi(ts[5])}, ts[6:]
	case "S":
		return &spec{kind: 'S', size: vh.Atoi(ts[1])}, ts[2:]
	}
	s := &spec{kind: ts[0][0], width: vh.Atoi(ts[1])}
	n := vh.Atoi(ts[2])
	ts = ts[3:]
	for i := 0; i < n; i++ {
		s.names = append(s.names, string(vh.UnHex(ts[0])))
		var k *spec
		k, ts = parseSpec(ts[1:])
		s.kids = append(s.kids, k)
	}
	return s, ts
}

// logical tree (shadow) for the monitor
type lnode struct {
	cid     cid.Cid
	kind    byte // F S D
	content []byte
	kids    map[string]*lnode
}

type world struct {
	ctx     context.Context
	bs      blockstore.Blockstore
	bsrv    blockservice.BlockService
	dag     ipld.DAGService
	handler http.Handler
	uniq    int
	root    *lnode
	files   map[int]*fileInfo
	labels  map[string]int // global: cid -> label, over the whole tree
}

type fileInfo struct {
	segs   []string
	node   *lnode
	labels map[string]int // cid -> label
	all    []int          // sorted unique labels of the whole file DAG
}

func newWorld() *world {
	bs := blockstore.NewBlockstore(dssync.MutexWrap(datastore.NewMapDatastore()))
	bsrv := blockservice.New(bs, offline.Exchange(bs))
	backend, err := gateway.NewBlocksBackend(bsrv)
	if err != nil {
		panic(err)
	}
	h := gateway.NewHandler(gateway.Config{DeserializedResponses: true, MetricsRegistry: prometheus.NewRegistry()}, backend)
	return &world{ctx: context.Background(), bs: bs, bsrv: bsrv, dag: merkledag.NewDAGService(bsrv), handler: h, files: map[int]*fileInfo{}}
}

func fileBytes(size, salt int) []byte {
	data := make([]byte, size)
	x := uint32(salt*2654435761 + 12345)
	for i := range data {
		x = x*1664525 + 1013904223
		data[i] = byte(x >> 24)
	}
	return data
}

func (w *world) build(s *spec) (ipld.Node, *lnode, error) {
	w.uniq++
	switch s.kind {
	case 'F':
		data := fileBytes(s.size, w.uniq)
		layout := s.layout
		if layout >= 4 { // 4..7: the same four layouts over constant data: repeated chunks, identical files
			layout -= 4
			data = make([]byte, s.size)
		}
		var nd ipld.Node
		var err error
		switch layout {
		case 0:
			nd = merkledag.NewRawNode(data)
			err = w.dag.Add(w.ctx, nd)
		case 1:
			nd = merkledag.NodeWithData(ft.FilePBData(data, uint64(len(data))))
			err = w.dag.Add(w.ctx, nd)
		default:
			params := ihelper.DagBuilderParams{Dagserv: w.dag, Maxlinks: s.maxl, RawLeaves: s.rawlv == 1}
			var db *ihelper.DagBuilderHelper
			db, err = params.New(chunker.NewSizeSplitter(bytes.NewReader(data), int64(s.chunk)))
			if err != nil {
				return nil, nil, err
			}
			if layout == 2 {
				nd, err = balanced.Layout(db)
			} else {
				nd, err = trickle.Layout(db)
			}
		}
		if err != nil {
			return nil, nil, err
		}
		return nd, &lnode{cid: nd.Cid(), kind: 'F', content: data}, nil
	case 'S':
		d, err := ft.SymlinkData(fmt.Sprintf("target-%d", s.size))
		if err != nil {
			return nil, nil, err
		}
		nd := merkledag.NodeWithData(d)
		if err := w.dag.Add(w.ctx, nd); err != nil {
			return nil, nil, err
		}
		return nd, &lnode{cid: nd.Cid(), kind: 'S'}, nil
	}
	ln := &lnode{kind: 'D', kids: map[string]*lnode{}}
	var dir uio.Directory
	var err error
	if s.kind == 'H' {
		dir, err = uio.NewHAMTDirectory(w.dag, 0, uio.WithMaxHAMTFanout(s.width))
	} else {
		dir, err = uio.NewBasicDirectory(w.dag)
	}
	if err != nil {
		return nil, nil, err
	}
	for i, k := range s.kids {
		knd, kl, err := w.build(k)
		if err != nil {
			return nil, nil, err
		}
		if err := dir.AddChild(w.ctx, s.names[i], knd); err != nil {
			return nil, nil, err
		}
		ln.kids[s.names[i]] = kl
	}
	nd, err := dir.GetNode()
	if err != nil {
		return nil, nil, err
	}
	if err := w.dag.Add(w.ctx, nd); err != nil {
		return nil, nil, err
	}
	ln.cid = nd.Cid()
	return nd, ln, nil
}

func followL(l *lnode, segs []string) *lnode {
	cur := l
	for _, s := range segs {
		k, ok := cur.kids[s]
		if !ok {
			return nil
		}
		cur = k
	}
	return cur
}

// ---------------------------------------------------------------- file dump: what the unixfsnode reader sees (link sizes) + labels

func dumpFile(ctx context.Context, dag ipld.DAGService, c cid.Cid, labels map[string]int, out *[]string) (int, error) {
	lbl, ok := labels[c.KeyString()]
	if !ok {
		lbl = len(labels)
		labels[c.KeyString()] = lbl
	}
	nd, err := dag.Get(ctx, c)
	if err != nil {
		return 0, err
	}
	if c.Prefix().Codec == cid.Raw {
		*out = append(*out, "R", strconv.Itoa(lbl), strconv.Itoa(len(nd.RawData())))
		return len(nd.RawData()), nil
	}
	pn, ok := nd.(*merkledag.ProtoNode)
	if !ok {
		return 0, fmt.Errorf("not a protonode")
	}
	fsn, err := ft.FSNodeFromBytes(pn.Data())
	if err != nil {
		return 0, err
	}
	if len(pn.Links()) == 0 {
		*out = append(*out, "L", strconv.Itoa(lbl), strconv.Itoa(len(fsn.Data())))
		return len(fsn.Data()), nil
	}
	*out = append(*out, "N", strconv.Itoa(lbl), strconv.FormatUint(fsn.FileSize(), 10), strconv.Itoa(len(pn.Links())))
	for i, l := range pn.Links() {
		// go-unixfsnode file/shard.go linkSize: Tsize for raw children, blocksizes[i] otherwise
		var sz uint64
		if l.Cid.Prefix().Codec == cid.Raw {
			sz = l.Size
		} else {
			sz = fsn.BlockSize(i)
		}
		*out = append(*out, strconv.FormatUint(sz, 10))
		if _, err := dumpFile(ctx, dag, l.Cid, labels, out); err != nil {
			return 0, err
		}
	}
	return int(fsn.FileSize()), nil
}

func hashOf(name string) []byte {
	h := murmur3.New64()
	h.Write([]byte(name))
	return h.Sum(nil)
}

func hexNat(b []byte) string {
	s := strings.TrimLeft(fmt.Sprintf("%x", b), "0")
	if s == "" {
		return "0"
	}
	return s
}

func label(labels map[string]int, c cid.Cid) int {
	l, ok := labels[c.KeyString()]
	if !ok {
		l = len(labels)
		labels[c.KeyString()] = l
	}
	return l
}

// dumpTree: the whole DAG, block by block (merkledag/unixfs decoding), one label per distinct CID.
//
//	F <lbl> <raw01> <file tree as in dumpFile> | S <lbl> | D <lbl> <n> (<namehex> node)^n | H <lbl> <fanout> <bfhex> shard
//	shard ::= <n> ( v <linknamehex> <murmur3hex> node | t <linknamehex> <lbl> <fanout> <bfhex> shard )^n
func dumpTree(ctx context.Context, dag ipld.DAGService, c cid.Cid, labels map[string]int, out *[]string) error {
	if c.Prefix().Codec == cid.Raw {
		*out = append(*out, "F", strconv.Itoa(label(labels, c)), "1")
		_, err := dumpFile(ctx, dag, c, labels, out)
		return err
	}
	nd, err := dag.Get(ctx, c)
	if err != nil {
		return err
	}
	pn, ok := nd.(*merkledag.ProtoNode)
	if !ok {
		return fmt.Errorf("not a protonode")
	}
	fsn, err := ft.FSNodeFromBytes(pn.Data())
	if err != nil {
		return err
	}
	switch fsn.Type() {
	case ft.TFile, ft.TRaw:
		*out = append(*out, "F", strconv.Itoa(label(labels, c)), "0")
		_, err := dumpFile(ctx, dag, c, labels, out)
		return err
	case ft.TSymlink:
		*out = append(*out, "S", strconv.Itoa(label(labels, c)))
	case ft.TDirectory:
		*out = append(*out, "D", strconv.Itoa(label(labels, c)), strconv.Itoa(len(pn.Links())))
		for _, l := range pn.Links() {
			*out = append(*out, vh.Hex([]byte(l.Name)))
			if err := dumpTree(ctx, dag, l.Cid, labels, out); err != nil {
				return err
			}
		}
	case ft.THAMTShard:
		*out = append(*out, "H", strconv.Itoa(label(labels, c)), strconv.FormatUint(fsn.Fanout(), 10), hexNat(fsn.Data()))
		return dumpShard(ctx, dag, pn, fsn, labels, out)
	default:
		return fmt.Errorf("unexpected unixfs type %v", fsn.Type())
	}
	return nil
}

func dumpShard(ctx context.Context, dag ipld.DAGService, pn *merkledag.ProtoNode, fsn *ft.FSNode, labels map[string]int, out *[]string) error {
	pad := len(fmt.Sprintf("%X", fsn.Fanout()-1))
	*out = append(*out, strconv.Itoa(len(pn.Links())))
	for _, l := range pn.Links() {
		if len(l.Name) == pad {
			ch, err := dag.Get(ctx, l.Cid)
			if err != nil {
				return err
			}
			cpn, ok := ch.(*merkledag.ProtoNode)
			if !ok {
				return fmt.Errorf("child shard is not a protonode")
			}
			cfsn, err := ft.FSNodeFromBytes(cpn.Data())
			if err != nil {
				return err
			}
			*out = append(*out, "t", vh.Hex([]byte(l.Name)), strconv.Itoa(label(labels, l.Cid)), strconv.FormatUint(cfsn.Fanout(), 10), hexNat(cfsn.Data()))
			if err := dumpShard(ctx, dag, cpn, cfsn, labels, out); err != nil {
				return err
			}
		} else {
			key := ""
			if len(l.Name) > pad {
				key = l.Name[pad:]
			}
			*out = append(*out, "v", vh.Hex([]byte(l.Name)), vh.Hex(hashOf(key)))
			if err := dumpTree(ctx, dag, l.Cid, labels, out); err != nil {
				return err
			}
		}
	}
	return nil
}

// labels of all blocks of a CAR, sorted, unique; a block that is not part of the tree at all prints as -1
func (w *world) carLabels(res *carResult) []int {
	set := map[int]bool{}
	for _, b := range res.blocks {
		if l, ok := w.labels[b.Cid().KeyString()]; ok {
			set[l] = true
		} else {
			set[-1] = true
		}
	}
	var ls []int
	for l := range set {
		ls = append(ls, l)
	}
	sort.Ints(ls)
	return ls
}

func segsTok(segs []string) string {
	if len(segs) == 0 {
		return "-"
	}
	hs := make([]string, len(segs))
	for i, s := range segs {
		hs[i] = vh.Hex([]byte(s)) + ":" + vh.Hex(hashOf(s))
	}
	return strings.Join(hs, ",")
}

func parseSegsTok(t string) []string {
	if t == "-" {
		return nil
	}
	var segs []string
	for _, h := range strings.Split(t, ",") {
		segs = append(segs, string(vh.UnHex(strings.SplitN(h, ":", 2)[0])))
	}
	return segs
}

func strTok(s string) string   { return vh.Hex([]byte(s)) }
func unTok(t string) string    { return string(vh.UnHex(t)) }
func labelsStr(ls []int) string {
	ss := make([]string, len(ls))
	for i, l := range ls {
		ss[i] = strconv.Itoa(l)
	}
	return strings.Join(ss, ",")
}

// ---------------------------------------------------------------- generator

var alphabet = []string{"a", "b", "c", "d", "x", "y", "0", "1", ".", "-", "_", " ", "é", "A"}

func randName(r *vh.Rand) string {
	for {
		n := r.Range(1, 5)
		var sb strings.Builder
		for i := 0; i < n; i++ {
			sb.WriteString(vh.Pick(r, alphabet))
		}
		s := sb.String()
		if s != "." && s != ".." && strings.TrimSpace(s) == s {
			return s
		}
	}
}

func genFile(r *vh.Rand) *spec {
	s := &spec{kind: 'F'}
	switch r.Intn(8) {
	case 0:
		s.layout, s.size = 0, r.Intn(200)
	case 1:
		s.layout, s.size = 1, r.Intn(200)
	default:
		s.layout = 2 + r.Intn(2)
		s.chunk = vh.Pick(r, []int{1, 2, 3, 5, 8, 16, 17, 32, 64, 100, 256})
		s.maxl = vh.Pick(r, []int{2, 2, 3, 3, 4, 7, 174})
		s.rawlv = r.Intn(2)
		maxLeaves := 120
		s.size = r.Intn(s.chunk*maxLeaves + 1)
		if r.Chance(1, 6) {
			s.size = s.chunk * r.Intn(maxLeaves+1) // exact multiple of the chunk size
		}
		if r.Chance(1, 12) {
			s.size = r.Intn(3)
		}
	}
	return s
}

// a chain of `depth` nested directories (a few HAMT) with a chunked file at the bottom: deeper than any
// recursion limit a traversal may silently carry
func genDeep(r *vh.Rand, depth int) (*spec, []string) {
	cur := genFile(r)
	cur.layout, cur.chunk, cur.maxl, cur.size = 2+r.Intn(2), 16, vh.Pick(r, []int{2, 3}), r.Range(100, 400)
	var names []string
	for i := 0; i < depth; i++ {
		nm := vh.Pick(r, []string{"d", "e", "x", "sub"}) + strconv.Itoa(i%7)
		d := &spec{kind: 'D', names: []string{nm}, kids: []*spec{cur}}
		if r.Chance(1, 6) {
			d.kind, d.width = 'H', 8
		}
		if r.Chance(1, 4) {
			d.names = append(d.names, "side")
			d.kids = append(d.kids, &spec{kind: 'F', layout: r.Intn(2), size: r.Intn(20)})
		}
		names = append([]string{nm}, names...)
		cur = d
	}
	return cur, names
}

func genSpec(r *vh.Rand, depth, maxDepth int) *spec {
	if depth >= maxDepth || (depth > 0 && r.Chance(1, 2)) {
		if r.Chance(1, 10) {
			return &spec{kind: 'S', size: r.Intn(100)}
		}
		return genFile(r)
	}
	s := &spec{kind: 'D'}
	n := r.Range(1, 5)
	if r.Chance(2, 5) {
		s.kind, s.width = 'H', vh.Pick(r, []int{8, 8, 16, 32, 256})
		n = r.Range(1, 40) // (an empty HAMT directory is unreadable for the resolver: C33 finding empty-hamt-unreadable)
	}
	seen := map[string]bool{}
	for i := 0; i < n; i++ {
		nm := randName(r)
		if seen[nm] {
			continue
		}
		seen[nm] = true
		s.names = append(s.names, nm)
		if n > 8 && !r.Chance(1, 8) {
			s.kids = append(s.kids, &spec{kind: 'F', layout: r.Intn(2), size: r.Intn(30)})
		} else {
			s.kids = append(s.kids, genSpec(r, depth+1, maxDepth))
		}
	}
	// repeated blocks: the same (constant-data) file under two names, chunked with identical chunks
	if r.Chance(1, 3) {
		z := &spec{kind: 'F', layout: 4 + r.Intn(4), size: r.Range(1, 200), chunk: vh.Pick(r, []int{8, 16, 32}), maxl: vh.Pick(r, []int{2, 3, 174}), rawlv: r.Intn(2)}
		for _, nm := range []string{"twin-a", "twin-b"} {
			if !seen[nm] {
				seen[nm] = true
				zz := *z
				s.names = append(s.names, nm)
				s.kids = append(s.kids, &zz)
			}
		}
	}
	return s
}

type pth struct {
	segs []string
	s    *spec
}

func allPaths(s *spec, prefix []string, out *[]pth) {
	*out = append(*out, pth{segs: append([]string(nil), prefix...), s: s})
	for i, k := range s.kids {
		allPaths(k, append(prefix, s.names[i]), out)
	}
}

// all nine combinations of ?car-dups= and Accept …;dups= (y, n, absent each)
func genDups(r *vh.Rand) string {
	return vh.Pick(r, []string{"y", "n", "-"}) + vh.Pick(r, []string{"y", "n", "-"})
}

func genRange(r *vh.Rand, size int) string {
	pt := func() int64 {
		switch r.Intn(9) {
		case 0:
			return 0
		case 1:
			return int64(size) - 1
		case 2:
			return int64(size)
		case 3:
			return int64(size) + int64(r.Range(1, 50))
		case 4:
			return 9223372036854775807
		default:
			return int64(r.Intn(size + 2))
		}
	}
	neg := func() int64 {
		switch r.Intn(6) {
		case 0:
			return -1
		case 1:
			return -int64(size)
		case 2:
			return -int64(size) - int64(r.Range(1, 20))
		case 3:
			return -9223372036854775808
		default:
			return -int64(r.Intn(size+2)) - 1
		}
	}
	switch r.Intn(12) {
	case 0:
		return fmt.Sprintf("%d:*", pt())
	case 1:
		return fmt.Sprintf("%d:*", neg())
	case 2, 3, 4, 5:
		a, b := pt(), pt()
		if a > b {
			a, b = b, a
		}
		return fmt.Sprintf("%d:%d", a, b)
	case 6:
		return fmt.Sprintf("%d:%d", pt(), neg())
	case 7:
		return fmt.Sprintf("%d:%d", neg(), pt())
	case 8:
		a, b := neg(), neg()
		if a > b {
			a, b = b, a
		}
		return fmt.Sprintf("%d:%d", a, b)
	case 9:
		return "0:*"
	case 10: // a window inside one leaf / across a boundary
		a := int64(r.Intn(size + 1))
		return fmt.Sprintf("%d:%d", a, a+int64(r.Intn(40)))
	default:
		return vh.Pick(r, malformed)
	}
}

var malformed = []string{"", ":", "1", "1:", ":1", "1:2:3", "a:b", "1:b", "*:1", "*:*", " 1:2", "1: 2", "1:2 ", "5:3", "-2:-5", "+1:+3", "01:007", "-0:-0",
	"9223372036854775808:*", "-9223372036854775809:1", "1:9223372036854775808", "0x1:2", "1_0:20", "1.0:2", "１:２", "--1:2", "1:-*", "0:-1", "-1:0", "3:3", "-3:-3"}

func gen(r *vh.Rand, tier string, n int, emit func(vh.Case)) {
	for i := 0; i < n; i++ {
		cr := r.Fork()
		maxDepth := cr.Range(1, 3)
		root := genSpec(cr, 0, maxDepth)
		if root.kind == 'F' || root.kind == 'S' {
			root = &spec{kind: 'D', names: []string{"f"}, kids: []*spec{root}}
		}
		var deepNames []string
		if cr.Chance(1, 12) {
			root, deepNames = genDeep(cr, cr.Range(25, 45))
		}
		var st []string
		root.tokens(&st)
		w := newWorld()
		_, rootL, err := w.build(root)
		if err != nil {
			panic(fmt.Sprintf("gen: build failed: %v", err))
		}
		c := vh.Case{ID: strconv.Itoa(i)}
		c.Ops = append(c.Ops, "build "+strings.Join(st, " "))
		{
			var tt []string
			if err := dumpTree(w.ctx, w.dag, rootL.cid, map[string]int{}, &tt); err != nil {
				panic(fmt.Sprintf("gen: tree dump failed: %v", err))
			}
			c.Ops = append(c.Ops, "tree "+strings.Join(tt, " "))
		}
		var ps []pth
		allPaths(root, nil, &ps)
		if deepNames != nil {
			// dag-scope=all at the root and at sub-paths of a deep chain, plus entity at the bottom
			c.Ops = append(c.Ops, fmt.Sprintf("card - all - %s", genDups(cr)))
			k := cr.Range(1, len(deepNames)-1)
			c.Ops = append(c.Ops, fmt.Sprintf("card %s all - %s", segsTok(deepNames[:k]), genDups(cr)))
			c.Ops = append(c.Ops, fmt.Sprintf("card %s - - %s", segsTok(deepNames[:cr.Range(1, 5)]), genDups(cr)))
			c.Ops = append(c.Ops, fmt.Sprintf("card %s entity - %s", segsTok(deepNames[:len(deepNames)-1]), genDups(cr)))
			emit(c)
			continue
		}
		var files, others []pth
		for _, p := range ps {
			if p.s.kind == 'F' {
				files = append(files, p)
			} else {
				others = append(others, p)
			}
		}
		// files: a few per case, prefer multi-block ones
		nblocks := func(f *spec) int {
			if f.layout%4 < 2 || f.chunk == 0 {
				return 1
			}
			return f.size/f.chunk + 1
		}
		sort.SliceStable(files, func(a, b int) bool { return nblocks(files[a].s) > nblocks(files[b].s) })
		nf := min(len(files), cr.Range(1, 3))
		for k := 0; k < nf; k++ {
			p := files[k]
			if k > 0 && cr.Chance(1, 2) {
				p = files[cr.Intn(len(files))]
			}
			fn := followL(rootL, p.segs).cid
			var dt []string
			labels := map[string]int{}
			if _, err := dumpFile(w.ctx, w.dag, fn, labels, &dt); err != nil {
				panic(fmt.Sprintf("gen: dump failed: %v", err))
			}
			c.Ops = append(c.Ops, fmt.Sprintf("file %d %s %s", k, segsTok(p.segs), strings.Join(dt, " ")))
			c.Ops = append(c.Ops, fmt.Sprintf("raw %s", segsTok(p.segs)))
			nreq := cr.Range(4, 9)
			for q := 0; q < nreq; q++ {
				scope := vh.Pick(cr, []string{"entity", "entity", "entity", "entity", "all", "block", "-"})
				rng := "-"
				if cr.Chance(4, 5) {
					rng = strTok(genRange(cr, p.s.size))
				}
				c.Ops = append(c.Ops, fmt.Sprintf("car f%d %s %s %s", k, scope, rng, genDups(cr)))
			}
		}
		for q, nq := 0, cr.Range(2, 6); q < nq && len(others) > 0; q++ {
			p := vh.Pick(cr, others)
			rng := "-"
			if cr.Chance(1, 4) {
				rng = strTok(genRange(cr, 10))
			}
			c.Ops = append(c.Ops, fmt.Sprintf("card %s %s %s %s", segsTok(p.segs), vh.Pick(cr, []string{"entity", "all", "all", "block", "-"}), rng, genDups(cr)))
			if cr.Chance(1, 3) {
				c.Ops = append(c.Ops, fmt.Sprintf("raw %s", segsTok(p.segs)))
			}
		}
		// a missing path
		if cr.Chance(1, 2) {
			p := vh.Pick(cr, ps)
			c.Ops = append(c.Ops, fmt.Sprintf("card %s %s - n", segsTok(append(append([]string(nil), p.segs...), "missing!")), vh.Pick(cr, []string{"entity", "all", "block"})))
		}
		for q, nq := 0, cr.Range(1, 4); q < nq; q++ {
			c.Ops = append(c.Ops, "range "+strTok(genRange(cr, cr.Intn(100))))
		}
		if cr.Chance(1, 5) {
			c.Ops = append(c.Ops, "probe")
		}
		emit(c)
	}
}

// ---------------------------------------------------------------- exec

// dups token: <url car-dups><Accept dups>, each y|n|-; a single char is the URL parameter only
func dupsParts(d string) (urlD, hdrD string) {
	if len(d) == 2 {
		return d[:1], d[1:]
	}
	return d, "-"
}

// the effective preference: URL query parameter over Accept header (IPIP-523), default n
func effectiveDups(d string) string {
	u, h := dupsParts(d)
	if u != "-" {
		return u
	}
	if h != "-" {
		return h
	}
	return "n"
}

// number of CIDs that occur more than once when the DAG below c is expanded as a tree
func (w *world) repeatedBlocks(c cid.Cid) int {
	count := map[string]int{}
	var rec func(c cid.Cid)
	rec = func(c cid.Cid) {
		count[c.KeyString()]++
		if c.Prefix().Codec == cid.Raw {
			return
		}
		nd, err := w.dag.Get(w.ctx, c)
		if err != nil {
			panic(err)
		}
		for _, l := range nd.Links() {
			rec(l.Cid)
		}
	}
	rec(c)
	n := 0
	for _, k := range count {
		if k > 1 {
			n++
		}
	}
	return n
}

type carResult struct {
	contentType string
	status    int
	streamErr string
	roots     []cid.Cid
	blocks    []blocks.Block
	truncated bool
	decodeErr error
}

func (w *world) request(segs []string, query url.Values, accept string) *httptest.ResponseRecorder {
	p := "/ipfs/" + w.root.cid.String()
	for _, s := range segs {
		p += "/" + url.PathEscape(s)
	}
	req := httptest.NewRequest(http.MethodGet, "http://example.com"+p+"?"+query.Encode(), nil)
	if accept != "" {
		req.Header.Set("Accept", accept)
	}
	rec := httptest.NewRecorder()
	w.handler.ServeHTTP(rec, req)
	return rec
}

func (w *world) getCar(segs []string, scope, rng, dups string) *carResult {
	q := url.Values{}
	accept := ""
	ud, hd := dupsParts(dups)
	if hd != "-" {
		accept = "application/vnd.ipld.car; version=1; dups=" + hd
	}
	if ud != "-" {
		q.Set("car-dups", ud)
	}
	if hd == "-" || len(segs)%2 == 0 { // with an Accept header, ?format=car is optional: alternate
		q.Set("format", "car")
	}
	if scope != "-" {
		q.Set("dag-scope", scope)
	}
	if rng != "-" {
		q.Set("entity-bytes", unTok(rng))
	}
	rec := w.request(segs, q, accept)
	res := &carResult{status: rec.Code, streamErr: rec.Header().Get("X-Stream-Error"), contentType: rec.Header().Get("Content-Type")}
	if rec.Code != 200 {
		return res
	}
	br, err := car.NewBlockReader(bytes.NewReader(rec.Body.Bytes()))
	if err != nil {
		res.decodeErr = err
		return res
	}
	res.roots = br.Roots
	for {
		blk, err := br.Next()
		if err == io.EOF {
			break
		}
		if err != nil {
			res.truncated = true
			res.decodeErr = err
			break
		}
		res.blocks = append(res.blocks, blk)
	}
	return res
}

// offline world holding only the given blocks
func offlineFrom(blks []blocks.Block) (blockstore.Blockstore, ipld.DAGService, resolver.Resolver) {
	bs := blockstore.NewBlockstore(dssync.MutexWrap(datastore.NewMapDatastore()))
	for _, b := range blks {
		if err := bs.Put(context.Background(), b); err != nil {
			panic(err)
		}
	}
	bsrv := blockservice.New(bs, offline.Exchange(bs))
	fc := bsfetcher.NewFetcherConfig(bsrv)
	fc.PrototypeChooser = dagpb.AddSupportToChooser(bsfetcher.DefaultPrototypeChooser)
	return bs, merkledag.NewDAGService(bsrv), resolver.NewBasicResolver(fc.WithReifier(unixfsnode.Reify))
}

func mkPath(root cid.Cid, segs []string) path.ImmutablePath {
	p, err := path.NewPathFromSegments(append([]string{"ipfs", root.String()}, segs...)...)
	if err != nil {
		panic(err)
	}
	ip, err := path.NewImmutablePath(p)
	if err != nil {
		panic(err)
	}
	return ip
}

// the requested byte window [lo, hi) of a file of length n, per the trustless gateway spec; ok=false when the
// request is not satisfiable as a non-negative window (from after to)
func window(n int64, from int64, to *int64) (lo, hi int64, ok bool) {
	lo = from
	if from < 0 {
		lo = n + from
		if lo < 0 {
			lo = 0
		}
	}
	if to == nil {
		hi = n
	} else {
		t := *to
		if t < 0 {
			t = n + t
		}
		if t < lo-1 {
			return 0, 0, false
		}
		if t >= n {
			hi = n
		} else {
			hi = t + 1
		}
	}
	if lo > n {
		lo = n
	}
	if hi < lo {
		hi = lo
	}
	return lo, hi, true
}

// monitor for one CAR response. target = logical node the path names.
func (w *world) checkCar(o *vh.Out, what string, segs []string, target *lnode, scope, rng, dups string, res *carResult) {
	ctx := w.ctx
	// 1. every block hashes to its CID
	for _, b := range res.blocks {
		c := b.Cid()
		h, err := c.Prefix().Sum(b.RawData())
		if err != nil || !h.Equals(c) {
			o.Fail("car-block-hash-mismatch", "%s: block %s does not hash to its CID", what, c)
			return
		}
	}
	// 2. root
	if len(res.roots) != 1 || !res.roots[0].Equals(target.cid) {
		o.Fail("car-wrong-root", "%s: roots %v, resolved content root %s", what, res.roots, target.cid)
	}
	// 3. duplicates iff the effective preference (URL over Accept header, default n) says y; the response's
	//    own Content-Type must carry the same label
	eff := effectiveDups(dups)
	hasDup := false
	{
		seen := map[string]bool{}
		for _, b := range res.blocks {
			if seen[b.Cid().KeyString()] {
				hasDup = true
				if eff != "y" {
					o.Fail("car-unrequested-duplicate", "%s: block %s repeated, effective dups=%s", what, b.Cid(), eff)
				}
				break
			}
			seen[b.Cid().KeyString()] = true
		}
	}
	if !strings.Contains(res.contentType, "dups="+eff) {
		o.Fail("car-dups-label-wrong", "%s: Content-Type %q, effective dups=%s", what, res.contentType, eff)
	}
	if eff == "y" && (scope == "all" || scope == "-") && res.streamErr == "" && !res.truncated {
		if w.repeatedBlocks(target.cid) > 0 {
			o.Kind("dups-y-on-repeated-blocks")
			if !hasDup {
				o.Fail("car-requested-duplicates-missing", "%s: the DAG repeats blocks but the CAR has none twice", what)
			}
		}
	} else if eff != "y" && (scope == "all" || scope == "-") && w.repeatedBlocks(target.cid) > 0 {
		o.Kind("dups-n-on-repeated-blocks")
	}
	if res.streamErr != "" || res.truncated {
		return // sufficiency is judged by the caller (expected only for unsatisfiable ranges)
	}
	// 4. offline replay: path traversal
	_, odag, ores := offlineFrom(res.blocks)
	lc, rem, err := ores.ResolveToLastNode(ctx, mkPath(w.root.cid, segs))
	if err != nil || len(rem) != 0 || !lc.Equals(target.cid) {
		o.Fail("car-path-not-verifiable", "%s: offline path resolution: cid=%v rem=%v err=%v", what, lc, rem, err)
		return
	}
	// 5. offline replay: requested scope
	switch {
	case scope == "block":
		if _, err := odag.Get(ctx, target.cid); err != nil {
			o.Fail("car-block-scope-missing-terminal", "%s: %v", what, err)
		}
	case scope == "all" || scope == "-":
		// the whole DAG below the terminal element
		seen := cid.NewSet()
		if err := merkledag.Walk(ctx, merkledag.GetLinksDirect(odag), target.cid, seen.Visit); err != nil {
			o.Fail("car-all-scope-incomplete", "%s: offline DAG walk: %v", what, err)
			return
		}
		full := cid.NewSet()
		if err := merkledag.Walk(ctx, merkledag.GetLinksDirect(w.dag), target.cid, full.Visit); err != nil {
			panic(err)
		}
		if seen.Len() != full.Len() {
			o.Fail("car-all-scope-incomplete", "%s: %d of %d blocks", what, seen.Len(), full.Len())
		}
	default: // entity
		switch target.kind {
		case 'D':
			nd, err := odag.Get(ctx, target.cid)
			if err != nil {
				o.Fail("car-entity-missing-terminal", "%s: %v", what, err)
				return
			}
			dir, err := uio.NewDirectoryFromNode(odag, nd)
			if err != nil {
				o.Fail("car-entity-dir-unreadable", "%s: %v", what, err)
				return
			}
			links, err := dir.Links(ctx)
			if err != nil {
				o.Fail("car-entity-dir-listing-incomplete", "%s: offline listing: %v", what, err)
				return
			}
			if len(links) != len(target.kids) {
				o.Fail("car-entity-dir-listing-incomplete", "%s: %d of %d entries", what, len(links), len(target.kids))
				return
			}
			for _, l := range links {
				k, ok := target.kids[l.Name]
				if !ok || !k.cid.Equals(l.Cid) {
					o.Fail("car-entity-dir-listing-wrong", "%s: entry %q", what, l.Name)
					return
				}
			}
		case 'S':
			if _, err := odag.Get(ctx, target.cid); err != nil {
				o.Fail("car-entity-missing-terminal", "%s: %v", what, err)
			}
		case 'F':
			n := int64(len(target.content))
			lo, hi := int64(0), n
			if rng != "-" {
				br, err := gateway.NewDagByteRange(unTok(rng))
				if err != nil {
					panic("accepted request with unparsable range")
				}
				var ok bool
				lo, hi, ok = window(n, br.From, br.To)
				if !ok {
					return // inverted window: nothing is requested, any answer is sufficient
				}
			}
			nd, err := odag.Get(ctx, target.cid)
			if err != nil {
				o.Fail("car-entity-missing-terminal", "%s: %v", what, err)
				return
			}
			if hi > lo {
				dr, err := uio.NewDagReader(ctx, nd, odag)
				if err != nil {
					o.Fail("car-entity-file-unreadable", "%s: %v", what, err)
					return
				}
				if _, err := dr.Seek(lo, io.SeekStart); err != nil {
					o.Fail("car-entity-range-incomplete", "%s: offline seek %d: %v", what, lo, err)
					return
				}
				buf := make([]byte, hi-lo)
				if _, err := io.ReadFull(dr, buf); err != nil {
					o.Fail("car-entity-range-incomplete", "%s: offline read [%d,%d) of %d: %v", what, lo, hi, n, err)
					return
				}
				if !bytes.Equal(buf, target.content[lo:hi]) {
					o.Fail("car-entity-range-wrong-bytes", "%s: [%d,%d)", what, lo, hi)
				}
			}
		}
	}
}

func exec(c vh.Case, o *vh.Out) {
	var w *world
	for _, line := range c.Ops {
		f := strings.Fields(line)
		switch f[0] {
		case "build":
			w = newWorld()
			s, _ := parseSpec(f[1:])
			_, ln, err := w.build(s)
			if err != nil {
				o.Emit("build-error")
				o.Fail("build-error", "%v", err)
				continue
			}
			w.root = ln
			o.Emit("ok")
		case "tree":
			var tt []string
			labels := map[string]int{}
			if err := dumpTree(w.ctx, w.dag, w.root.cid, labels, &tt); err != nil {
				o.Emit("dump-error")
				continue
			}
			if strings.Join(tt, " ") != strings.Join(f[1:], " ") {
				o.Emit("dump-mismatch")
				continue
			}
			w.labels = labels
			o.Emit("ok blocks=%d", len(labels))
		case "file":
			k := vh.Atoi(f[1])
			segs := parseSegsTok(f[2])
			t := followL(w.root, segs)
			var dt []string
			labels := map[string]int{}
			if _, err := dumpFile(w.ctx, w.dag, t.cid, labels, &dt); err != nil {
				o.Emit("dump-error")
				continue
			}
			if strings.Join(dt, " ") != strings.Join(f[3:], " ") {
				o.Emit("dump-mismatch")
				continue
			}
			fi := &fileInfo{segs: segs, node: t, labels: labels}
			for _, l := range labels {
				fi.all = append(fi.all, l)
			}
			sort.Ints(fi.all)
			w.files[k] = fi
			switch {
			case len(labels) >= 8:
				o.Kind("file-blocks>=8")
				o.Nontrivial()
			case len(labels) >= 2:
				o.Kind("file-blocks>=2")
			default:
				o.Kind("file-single-block")
			}
			o.Emit("ok size=%d ws=true", len(t.content))
		case "range":
			br, err := gateway.NewDagByteRange(unTok(f[1]))
			if err != nil {
				o.Kind("range-rejected")
				o.Emit("err")
				if specValid(unTok(f[1])) {
					o.Fail("range-valid-rejected", "%q: %v", unTok(f[1]), err)
				}
				continue
			}
			o.Kind("range-accepted")
			if !specValid(unTok(f[1])) {
				o.Fail("range-invalid-accepted", "%q", unTok(f[1]))
			}
			// monitor: the sign-dependent ordering rule of the spec
			if br.To != nil {
				if (br.From >= 0 && *br.To >= 0 && br.From > *br.To) || (br.From < 0 && *br.To < 0 && br.From > *br.To) {
					o.Fail("range-bad-order-accepted", "%q", unTok(f[1]))
				}
				o.Emit("ok %d %d", br.From, *br.To)
			} else {
				o.Emit("ok %d *", br.From)
			}
		case "probe":
			// trustless-gateway probe: the empty identity CID as a raw block, answered without the backend
			req := httptest.NewRequest(http.MethodGet, "http://example.com/ipfs/"+gateway.EmptyIdentityCIDString+"?format=raw", nil)
			rec := httptest.NewRecorder()
			w.handler.ServeHTTP(rec, req)
			if rec.Code != 200 {
				o.Emit("http-%d", rec.Code)
				o.Fail("probe-failed", "HTTP %d", rec.Code)
				continue
			}
			if rec.Body.Len() != 0 {
				o.Fail("raw-body-hash-mismatch", "empty identity block answered with %d bytes", rec.Body.Len())
			}
			o.Kind("probe")
			o.Emit("ok")
		case "raw":
			segs := parseSegsTok(f[1])
			t := followL(w.root, segs)
			q := url.Values{}
			q.Set("format", "raw")
			rec := w.request(segs, q, "")
			if rec.Code != 200 {
				o.Emit("http-%d", rec.Code)
				if t != nil {
					o.Fail("raw-existing-path-failed", "path %q: HTTP %d %s", segs, rec.Code, strings.TrimSpace(rec.Body.String()))
				}
				continue
			}
			o.Kind("raw-ok")
			o.Emit("ok")
			body := rec.Body.Bytes()
			stored, err := w.bs.Get(w.ctx, t.cid)
			if err != nil {
				panic(err)
			}
			if !bytes.Equal(body, stored.RawData()) {
				o.Fail("raw-body-not-stored-bytes", "path %q", segs)
			}
			if h, err := t.cid.Prefix().Sum(body); err != nil || !h.Equals(t.cid) {
				o.Fail("raw-body-hash-mismatch", "path %q: body does not hash to %s", segs, t.cid)
			}
		case "car":
			fi := w.files[vh.Atoi(f[1][1:])]
			scope, rng, dups := f[2], f[3], f[4]
			res := w.getCar(fi.segs, scope, rng, dups)
			what := fmt.Sprintf("car %q scope=%s range=%q dups=%s", fi.segs, scope, unTokOrDash(rng), dups)
			if res.status != 200 {
				o.Kind(fmt.Sprintf("car-http-%d", res.status))
				o.Emit("http-%d", res.status)
				// monitor: a parsable range on an existing file must not be refused
				if rng == "-" || specValid(unTok(rng)) {
					o.Fail("car-existing-path-failed", "%s: HTTP %d", what, res.status)
				}
				continue
			}
			if res.decodeErr != nil && !res.truncated {
				o.Emit("car-undecodable")
				o.Fail("car-undecodable", "%s: %v", what, res.decodeErr)
				continue
			}
			set := map[int]bool{}
			for _, b := range res.blocks {
				if l, ok := fi.labels[b.Cid().KeyString()]; ok {
					set[l] = true
				}
			}
			var ls []int
			for l := range set {
				ls = append(ls, l)
			}
			sort.Ints(ls)
			o.Kind("scope-" + scope)
			o.Kind("dups-" + dups)
			o.Kind("effective-dups-" + effectiveDups(dups))
			if rng != "-" {
				o.Kind("with-range")
			}
			if len(ls) > 1 && len(ls) < len(fi.all) {
				o.Kind("partial-file-car")
			}
			w.checkCar(o, what, fi.segs, fi.node, scope, rng, dups, res)
			if res.streamErr != "" || res.truncated {
				o.Kind("car-stream-error")
				o.Emit("stream-error %s", labelsStr(w.carLabels(res)))
				// monitor: a stream error is acceptable only when the requested window is empty/inverted
				n := int64(len(fi.node.content))
				satisfiable := true
				if rng != "-" && (scope == "entity") {
					br, _ := gateway.NewDagByteRange(unTok(rng))
					_, _, satisfiable = window(n, br.From, br.To)
				}
				if satisfiable {
					o.Fail("car-stream-error-on-satisfiable-request", "%s: %s", what, res.streamErr)
				}
				continue
			}
			o.Emit("ok %s", labelsStr(w.carLabels(res)))
		case "card":
			segs := parseSegsTok(f[1])
			scope, rng, dups := f[2], f[3], f[4]
			t := followL(w.root, segs)
			res := w.getCar(segs, scope, rng, dups)
			what := fmt.Sprintf("car %q scope=%s range=%q dups=%s", segs, scope, unTokOrDash(rng), dups)
			rangeOK := rng == "-" || specValid(unTok(rng))
			if res.status != 200 {
				o.Kind(fmt.Sprintf("card-http-%d", res.status))
				o.Emit("http-%d", res.status)
				if t != nil && rangeOK {
					o.Fail("car-existing-path-failed", "%s: HTTP %d", what, res.status)
				}
				continue
			}
			if t == nil {
				// trustless gateway: a missing path is answered with a CAR proving the absence
				// (blocks traversed up to the missing link). Monitor: hashes, and the absence is
				// verifiable offline (ErrNoLink, not a missing block).
				o.Kind("card-missing-path")
				o.Emit("absent %s", labelsStr(w.carLabels(res)))
				if res.decodeErr != nil || res.truncated {
					o.Fail("car-undecodable", "%s: %v", what, res.decodeErr)
					continue
				}
				for _, b := range res.blocks {
					if h, err := b.Cid().Prefix().Sum(b.RawData()); err != nil || !h.Equals(b.Cid()) {
						o.Fail("car-block-hash-mismatch", "%s: block %s", what, b.Cid())
					}
				}
				_, _, ores := offlineFrom(res.blocks)
				_, _, err := ores.ResolveToLastNode(w.ctx, mkPath(w.root.cid, segs))
				var nl *resolver.ErrNoLink
				parent := followL(w.root, segs[:len(segs)-1])
				if err == nil {
					o.Fail("car-absence-not-verifiable", "%s: offline resolution succeeded", what)
				} else if parent != nil && parent.kind == 'D' && !errors.As(err, &nl) {
					// (below a file or symlink the resolver reports a kind error, also offline)
					o.Fail("car-absence-not-verifiable", "%s: offline resolution: %v", what, err)
				}
				continue
			}
			if res.streamErr != "" || res.truncated || res.decodeErr != nil {
				o.Emit("stream-error")
				o.Fail("car-stream-error-on-satisfiable-request", "%s: %s %v", what, res.streamErr, res.decodeErr)
				continue
			}
			o.Kind(fmt.Sprintf("card-%c-%s", t.kind, scope))
			w.checkCar(o, what, segs, t, scope, "-", dups, res)
			if t.kind == 'D' && len(w.carLabels(res)) >= 3 && scope == "entity" {
				o.Kind("hamt-entity-multi-shard")
			}
			o.Emit("ok %s", labelsStr(w.carLabels(res)))
		default:
			o.Emit("bad-op")
		}
	}
}

// specValid: the entity-bytes grammar of the trustless gateway spec, written independently of
// NewDagByteRange: <int64>:(<int64>|*), and from <= to whenever both have the same sign class.
func specValid(s string) bool {
	i := strings.IndexByte(s, ':')
	if i < 0 || strings.IndexByte(s[i+1:], ':') >= 0 {
		return false
	}
	from, err := strconv.ParseInt(s[:i], 10, 64)
	if err != nil {
		return false
	}
	if s[i+1:] == "*" {
		return true
	}
	to, err := strconv.ParseInt(s[i+1:], 10, 64)
	if err != nil {
		return false
	}
	if (from >= 0) == (to >= 0) {
		return from <= to
	}
	return true
}

func unTokOrDash(t string) string {
	if t == "-" {
		return "-"
	}
	return unTok(t)
}

var _ = errors.New

func main() {
	// helper for hand-written corpus files: `hx dumpspec <spec tokens>` prints the build and tree lines
	if len(os.Args) > 2 && os.Args[1] == "dumpspec" {
		s, _ := parseSpec(os.Args[2:])
		w := newWorld()
		_, ln, err := w.build(s)
		if err != nil {
			panic(err)
		}
		var tt []string
		if err := dumpTree(w.ctx, w.dag, ln.cid, map[string]int{}, &tt); err != nil {
			panic(err)
		}
		fmt.Println("build " + strings.Join(os.Args[2:], " "))
		fmt.Println("tree " + strings.Join(tt, " "))
		return
	}
	if len(os.Args) > 2 && os.Args[1] == "segtok" { // `hx segtok <name>...` prints the path token
		fmt.Println(segsTok(os.Args[2:]))
		return
	}
	vh.Main(vh.Config{Gen: gen, Exec: exec})
}
